(** C11 — termination of the LR driver on EVERY input over the tables of the modelled SLR(1) and
    LALR(1) constructions (no precedence declarations), for valid grammars whose non-terminals all
    generate: the two constructions satisfy the interface of ProofsTerm4.v. *)
From Coq Require Import List ZArith Bool Arith Lia.
From Algo.Grammar Require Import CFG.
From Algo.C11 Require Import Model ModelPrec ModelSLR ModelLR1 Spec Proofs ProofsTerm ProofsOracle ProofsLR0 ProofsSLR ProofsCLR ProofsLALR
  ProofsChain ProofsChain2 ProofsFuel ProofsGen ProofsClosure1 ProofsComplete ProofsCompleteSLR ProofsCompleteLALR
  ProofsTerm2 ProofsTerm3 ProofsTerm4.
Import ListNotations.

(** ** induction over the LR(0) CLOSURE *)

Section Closure0Ind.
  Variable ps : list prod.
  Variable P : item -> Prop.
  Hypothesis Hrule : forall i q, P i -> dot_symbol i = Some (Nt (head q)) -> In q ps -> P (q, 0).

  Definition allP0 (J : list item) : Prop := forall x, In x J -> P x.

  Lemma cstep_P J i : allP0 J -> P i -> allP0 (cstep ps J i).
  Proof.
    intros HJ Hi. unfold cstep. destruct (dot_symbol i) as [[a|B]|] eqn:Ed; auto.
    apply (fold_left_pres allP0); auto.
    intros J' q Hq HJ'. destruct (Nat.eqb_spec (head q) B) as [E|E]; auto.
    intros x Hx. apply add_item_In in Hx as [Hx|[Hx _]]; auto. subst x.
    apply (Hrule i q Hi); auto. now rewrite E.
  Qed.

  Lemma closure_pass_P I : allP0 I -> allP0 (closure_pass ps I).
  Proof.
    intros HI. rewrite closure_pass_eq.
    assert (Hgen : forall l J, allP0 l -> allP0 J -> allP0 (fold_left (cstep ps) l J)).
    { induction l as [|i l IH]; intros J Hl HJ; simpl; auto.
      apply IH; [intros x Hx; apply Hl; now right|]. apply cstep_P; auto. apply Hl. now left. }
    apply Hgen; auto.
  Qed.

  Lemma closure0_P I : allP0 I -> allP0 (closure ps I).
  Proof.
    unfold closure. generalize (S (length ps)). intros fuel. revert I.
    induction fuel as [|f IH]; intros I HI; simpl; auto.
    destruct (Nat.eqb (length (closure_pass ps I)) (length I)); auto.
    apply IH. now apply closure_pass_P.
  Qed.
End Closure0Ind.

(** ** SLR(1) *)

Section TermSLR.
  Variable G : gram.
  Hypothesis Hvalid : valid_grammar G.
  Hypothesis Hgenerating : generating G.
  Variable fuel : nat.
  Variable C0 : list (list item).
  Hypothesis HC0 : canonical fuel G = Some C0.
  Variable tbl : table.
  Hypothesis Hb : build_slr fuel G [] = BuiltOk tbl.

  Let G' := augment G.
  Let ps := prods G'.
  Let F := follows G'.
  Let aug := aug_prod G.

  Definition ITs (k : nat) (p : prod) (d : nat) (la : look) : Prop :=
    exists J, nth_error C0 k = Some J /\ In (p, d) J /\ In la (lget F (head p)).
  Definition CIs (k : nat) (p : prod) (d : nat) : Prop :=
    exists J, nth_error C0 k = Some J /\ In (p, d) J.

  Lemma slr_act k a x : (exists r, slr_raw fuel G = Some r /\ has (r_action r) (Z.of_nat k) a x) ->
    find_action (t_action tbl) (Z.of_nat k) a = Some x.
  Proof.
    intros [r [Er Hh]]. destruct (table_shape0 G fuel C0 HC0 tbl Hb) as [rw [Er' [Hsmall [Hwf Et]]]].
    rewrite Er in Er'. inversion Er'; subst rw. rewrite Et. cbn [t_action]. now apply lookup_from_cells.
  Qed.

  Lemma item_ps k J p d : nth_error C0 k = Some J -> In (p, d) J -> In p ps /\ d <= length (body p).
  Proof.
    intros Hk Hit. pose proof (C_nth_reach G fuel C0 HC0 k J Hk) as HJ. destruct (reach_spelled G J HJ) as [l Hl].
    destruct (Hl _ Hit) as [Hp [Hle _]]. auto.
  Qed.

  Lemma body_nt_declared p B : In p ps -> In (Nt B) (body p) -> In B (nonterms G).
  Proof.
    destruct Hvalid as [[_ [V2 V3]] _]. intros [Hp|Hp] HB.
    - subst p. simpl in HB. destruct HB as [HB|[]]. inversion HB; subst. exact V3.
    - eauto.
  Qed.

  (** where the entries of the table come from *)
  Lemma slr_trans_origin k X k' : trans tbl k X k' ->
    exists J J', nth_error C0 k = Some J /\ nth_error C0 k' = Some J' /\ goto ps J X <> [] /\
      forall x, In x J' <-> In x (goto ps J X).
  Proof.
    intros Ht. destruct (table_shape0 G fuel C0 HC0 tbl Hb) as [rw [Er [Hsmall [Hwf Et]]]].
    assert (Hst : exists J, nth_error C0 k = Some J /\ state_of C0 (goto ps J X) = Z.of_nat k').
    { destruct X as [t|B]; simpl in Ht.
      - apply find_action_In in Ht. rewrite Et in Ht. cbn [t_action] in Ht.
        apply resolve_cells_In in Ht as [l [H1 H2]].
        destruct (raw_cells_ok G fuel C0 HC0 rw Er _ _ _ _ H1 H2) as [k0 [I [it [Ek [Hk0 [Hit Hcon]]]]]].
        apply Nat2Z.inj in Ek. subst k0. exists I. split; [exact Hk0|].
        destruct Hcon as [[c [Hd [Ea Ex]]]|[[_ [_ [_ Ex]]]|[_ [_ Ex]]]]; try discriminate.
        inversion Ea; subst c. inversion Ex as [E]. symmetry. exact E.
      - apply find_goto_In in Ht. rewrite Et in Ht. cbn [t_goto] in Ht.
        destruct (raw_gotos G fuel C0 HC0 rw _ _ _ Er Ht) as [k0 [I [Ek [Hk0 [E _]]]]].
        apply Nat2Z.inj in Ek. subst k0. exists I. split; [exact Hk0|]. symmetry. exact E. }
    destruct Hst as [J [Hk Hst]].
    destruct (state_of_spec _ _ _ Hst ltac:(lia)) as [Hne [k2 [J' [E2 [Hk2 Heq]]]]].
    apply Nat2Z.inj in E2. subst k2. exists J, J'. repeat split; auto; apply (itemset_eqb_spec _ _ Heq).
  Qed.

  Lemma slr_A0 : ITs 0 aug 0 None.
  Proof.
    exists (closure ps [(aug, 0)]). split; [apply (C_nth_0 G fuel C0 HC0)|]. split.
    - apply closure_incl. now left.
    - apply follow_start.
  Qed.

  Lemma slr_A1 k p d la q r : ITs k p d la -> nth_error (body p) d = Some (Nt (head q)) -> In q ps ->
    compatL G (skipn (S d) (body p)) la r -> ITs k q 0 (hd_error r).
  Proof.
    intros [J [Hk [Hit Hla]]] Hd Hq [r1 [r2 [Er [Hg Hr2]]]].
    exists J. split; [exact Hk|]. split.
    - exact (state_closed0 G fuel C0 HC0 k J Hk (p, d) (head q) q Hit Hd Hq eq_refl).
    - destruct (item_ps k J p d Hk Hit) as [Hp _].
      apply (compat0_follow G Hvalid p d (head q) r Hp Hd). exists r1, r2. repeat split; auto. now rewrite Hr2.
  Qed.

  Lemma slr_A2 k p d la X : ITs k p d la -> nth_error (body p) d = Some X ->
    exists k', trans tbl k X k' /\ ITs k' p (S d) la.
  Proof.
    intros [J [Hk [Hit Hla]]] Hd.
    destruct (goto_state0 G Hvalid fuel C0 HC0 k J p d X Hk Hit Hd) as [k' [J' [Hst [Hk' Hit']]]].
    exists k'. split; [|exists J'; auto].
    destruct (table_shape0 G fuel C0 HC0 tbl Hb) as [rw [Er [Hsmall [Hwf Et]]]].
    destruct X as [t|B]; simpl.
    - apply slr_act. exists rw. split; [exact Er|].
      destruct (slr_has G fuel C0 HC0 rw k J (p, d) Er Hk Hit) as [Hsh _]. fold G' ps in Hsh, Hst.
      rewrite <- Hst. now apply Hsh.
    - apply (goto_lookup0 G fuel C0 HC0 tbl Hb rw k J B k' Er Et Hk); auto.
      destruct (item_ps k J p d Hk Hit) as [Hp _]. apply (body_nt_declared p B Hp). eapply nth_error_In; eauto.
  Qed.

  Lemma slr_A3 k q la : ITs k q (length (body q)) la -> head q <> fresh_nt G ->
    find_action (t_action tbl) (Z.of_nat k) la = Some (Reduce q).
  Proof.
    intros [J [Hk [Hit Hla]]] Hnf.
    destruct (table_shape0 G fuel C0 HC0 tbl Hb) as [rw [Er _]].
    apply slr_act. exists rw. split; [exact Er|].
    destruct (slr_has G fuel C0 HC0 rw k J (q, length (body q)) Er Hk Hit) as [_ [Hrd _]].
    apply (Hrd la); auto. unfold is_complete. simpl. apply Nat.eqb_refl.
  Qed.

  Lemma slr_B0 (P : prod -> nat -> Prop) : P aug 0 ->
    (forall p d q, P p d -> nth_error (body p) d = Some (Nt (head q)) -> In q ps -> P q 0) ->
    forall p d, CIs 0 p d -> P p d.
  Proof.
    intros H0 Hcl p d [J [Hk Hit]]. rewrite (C_nth_0 G fuel C0 HC0) in Hk. inversion Hk; subst J.
    apply (closure0_P ps (fun x => P (fst x) (snd x))) with (I := [(aug_prod G, 0)]) (x := (p, d)); auto.
    - intros [p1 d1] q H1 Hd Hq. simpl. apply (Hcl p1 d1 q); auto.
    - intros x [Hx|[]]. subst x. exact H0.
  Qed.

  Lemma slr_B1 k X k' : trans tbl k X k' -> forall P : prod -> nat -> Prop,
    (forall p d, CIs k p d -> nth_error (body p) d = Some X -> P p (S d)) ->
    (forall p d q, P p d -> nth_error (body p) d = Some (Nt (head q)) -> In q ps -> P q 0) ->
    forall p d, CIs k' p d -> P p d.
  Proof.
    intros Ht P Hker Hcl p d [J2 [Hk2 Hit]].
    destruct (slr_trans_origin _ _ _ Ht) as [J [J' [Hk [Hk' [Hne Hset]]]]].
    rewrite Hk' in Hk2. inversion Hk2; subst J2. apply Hset in Hit.
    destruct (goto_nonempty_kernel G J X Hne) as [Eg _]. fold G' ps in Eg. rewrite Eg in Hit.
    apply (closure0_P ps (fun x => P (fst x) (snd x))) with (I := goto_kernel J X) (x := (p, d)); auto.
    - intros [p1 d1] q H1 Hd Hq. simpl. apply (Hcl p1 d1 q); auto.
    - intros [p1 n1] Hx. apply goto_kernel_items in Hx as [d1 [Hs [Hi Hn]]]. simpl in *. subst n1.
      apply Hker; auto. exists J. auto.
  Qed.

  Lemma slr_B2 k X k' : trans tbl k X k' -> exists p d, CIs k p d /\ nth_error (body p) d = Some X.
  Proof.
    intros Ht. destruct (slr_trans_origin _ _ _ Ht) as [J [J' [Hk [Hk' [Hne Hset]]]]].
    destruct (goto_nonempty_kernel G J X Hne) as [_ Hkn]. destruct (goto_kernel J X) as [|[p n] K] eqn:E; [congruence|].
    destruct (goto_kernel_items X J (p, n)) as [d [Hs [Hi Hn]]]; [rewrite E; now left|]. simpl in *.
    exists p, d. split; [exists J; auto|exact Hn].
  Qed.

  Lemma slr_B3 k X k' : trans tbl k X k' -> exists p d, CIs k' p d.
  Proof.
    intros Ht. destruct (slr_trans_origin _ _ _ Ht) as [J [J' [Hk [Hk' [Hne Hset]]]]].
    destruct (goto ps J X) as [|[p d] K] eqn:E; [congruence|].
    exists p, d, J'. split; auto. apply Hset. now left.
  Qed.

  Theorem slr_no_hang w : exists f, parse f tbl w <> Hang.
  Proof.
    apply (lr_no_hang G Hvalid Hgenerating tbl (map lp C0)
             (slr_table_ok G (proj1 (proj1 Hvalid)) fuel C0 HC0 [] tbl Hb)
             (slr_complete G Hvalid fuel C0 HC0 tbl Hb) ITs CIs).
    - intros k p d la [J [Hk [Hit _]]]. exists J. auto.
    - exact slr_A0.
    - exact slr_A1.
    - exact slr_A2.
    - exact slr_A3.
    - intros k p d [J [Hk Hit]]. exact (item_ps k J p d Hk Hit).
    - exact slr_B0.
    - exact slr_B1.
    - exact slr_B2.
    - exact slr_B3.
  Qed.
End TermSLR.

(** ** LALR(1) *)

Section TermLALR.
  Variable G : gram.
  Hypothesis Hvalid : valid_grammar G.
  Hypothesis Hgenerating : generating G.
  Variable fuel : nat.
  Variable C : list (list item1).
  Hypothesis HC : canonical1 fuel G = Some C.
  Variable tbl : table.
  Hypothesis Hb : build_lalr fuel G [] = BuiltOk tbl.

  Let c := ctx_of G.
  Let G' := augment G.
  Let ps := prods G'.
  Let nl := nullables G'.
  Let fe := firsts G'.
  Let aug := aug_prod G.
  Let reps := reps_of C.
  Let M (R : list item1) := merge_class C R.

  Definition ITl (k : nat) (p : prod) (d : nat) (la : look) : Prop :=
    exists R, nth_error reps k = Some R /\ In (p, d, la) (M R).
  Definition CIl (k : nat) (p : prod) (d : nat) : Prop :=
    exists R, nth_error reps k = Some R /\ core_in (p, d) R.

  Lemma lalr_act k a x : (exists r, lalr_raw fuel G = Some r /\ has (r_action r) (Z.of_nat k) a x) ->
    find_action (t_action tbl) (Z.of_nat k) a = Some x.
  Proof.
    intros [r [Er Hh]]. destruct (table_shapeL G fuel C HC tbl Hb) as [rw [Er' [Hsmall [Hwf Et]]]].
    rewrite Er in Er'. inversion Er'; subst rw. rewrite Et. cbn [t_action]. now apply lookup_from_cells.
  Qed.

  Lemma core_ps k R p d : nth_error reps k = Some R -> core_in (p, d) R -> In p ps /\ d <= length (body p).
  Proof.
    intros Hk [x [Hx Ex]]. pose proof (reps_nth_reach G fuel C HC k R Hk) as HR.
    destruct (reach1_spelled G R HR) as [l Hl]. destruct (Hl _ Hx) as [Hp [Hle _]]. rewrite Ex in Hp, Hle. auto.
  Qed.

  Lemma body_nt_declaredL p B : In p ps -> In (Nt B) (body p) -> In B (nonterms G).
  Proof.
    destruct Hvalid as [[_ [V2 V3]] _]. intros [Hp|Hp] HB.
    - subst p. simpl in HB. destruct HB as [HB|[]]. inversion HB; subst. exact V3.
    - eauto.
  Qed.

  Lemma lalr_trans_origin k X k' : trans tbl k X k' ->
    exists R R', nth_error reps k = Some R /\ nth_error reps k' = Some R' /\ goto1 c R X <> [] /\
      same_core R' (goto1 c R X) = true.
  Proof.
    intros Ht. destruct (table_shapeL G fuel C HC tbl Hb) as [rw [Er [Hsmall [Hwf Et]]]].
    assert (Hst : exists R, nth_error reps k = Some R /\ class_of reps (goto1 c R X) = Z.of_nat k').
    { destruct X as [t|B]; simpl in Ht.
      - apply find_action_In in Ht. rewrite Et in Ht. cbn [t_action] in Ht.
        apply resolve_cells_In in Ht as [l [H1 H2]].
        destruct (lalr_cells_sound G fuel C HC rw Er _ _ _ _ H1 H2) as [k0 [R [it [Ek [Hk0 [Hit [_ Htg]]]]]]].
        apply Nat2Z.inj in Ek. subst k0. exists R. split; [exact Hk0|]. symmetry. exact (Htg _ eq_refl).
      - apply find_goto_In in Ht. rewrite Et in Ht. cbn [t_goto] in Ht.
        destruct (rawL_gotos G fuel C HC rw _ _ _ Er Ht) as [k0 [R [Ek [Hk0 [E _]]]]].
        apply Nat2Z.inj in Ek. subst k0. exists R. split; [exact Hk0|]. symmetry. exact E. }
    destruct Hst as [R [Hk Hst]].
    destruct (class_of_spec _ _ _ Hst ltac:(lia)) as [Hne [k2 [R' [E2 [Hk2 Heq]]]]].
    apply Nat2Z.inj in E2. subst k2. exists R, R'. auto.
  Qed.

  Lemma lalr_A0 : ITl 0 aug 0 None.
  Proof.
    pose proof (reps_nth_0 G fuel C HC) as H0. fold reps in H0.
    eexists. split; [exact H0|]. apply merge_class_In. eexists. split; [exact (reps_nth_C G fuel C HC 0 _ H0)|].
    split; [apply same_core_refl|]. apply closure1_incl. now left.
  Qed.

  Lemma lalr_A1 k p d la q r : ITl k p d la -> nth_error (body p) d = Some (Nt (head q)) -> In q ps ->
    compatL G (skipn (S d) (body p)) la r -> ITl k q 0 (hd_error r).
  Proof.
    intros [R [Hk Hit]] Hd Hq Hc. exists R. split; [exact Hk|].
    apply (M_closed G Hvalid fuel C HC R (p, d, la) (head q) q (hd_error r) Hit); auto.
    exact (compat_la G Hvalid _ _ _ Hc).
  Qed.

  Lemma lalr_A2 k p d la X : ITl k p d la -> nth_error (body p) d = Some X ->
    exists k', trans tbl k X k' /\ ITl k' p (S d) la.
  Proof.
    intros [R [Hk Hit]] Hd.
    destruct (goto_stateL G Hvalid fuel C HC k R p d la X Hk Hit Hd) as [k' [R' [Hst [Hk' Hit']]]].
    exists k'. split; [|exists R'; auto].
    destruct (table_shapeL G fuel C HC tbl Hb) as [rw [Er [Hsmall [Hwf Et]]]].
    destruct X as [t|B]; simpl.
    - apply lalr_act. exists rw. split; [exact Er|].
      destruct (lalr_has G fuel C HC rw k R (p, d, la) Er Hk Hit) as [Hsh _].
      rewrite <- Hst. now apply Hsh.
    - apply (goto_lookupL G fuel C HC tbl Hb rw k R B k' Er Et Hk); auto.
      destruct (core_ps k R p d Hk (M_core C _ R Hit)) as [Hp _].
      apply (body_nt_declaredL p B Hp). eapply nth_error_In; eauto.
  Qed.

  Lemma lalr_A3 k q la : ITl k q (length (body q)) la -> head q <> fresh_nt G ->
    find_action (t_action tbl) (Z.of_nat k) la = Some (Reduce q).
  Proof.
    intros [R [Hk Hit]] Hnf.
    destruct (table_shapeL G fuel C HC tbl Hb) as [rw [Er _]].
    apply lalr_act. exists rw. split; [exact Er|].
    destruct (lalr_has G fuel C HC rw k R (q, length (body q), la) Er Hk Hit) as [_ [Hrd _]].
    apply Hrd; auto. unfold is_complete, core_of. simpl. apply Nat.eqb_refl.
  Qed.

  Lemma cl_cores (P : prod -> nat -> Prop) K :
    (forall p d q, P p d -> nth_error (body p) d = Some (Nt (head q)) -> In q ps -> P q 0) ->
    (forall x, In x K -> P (fst (core_of x)) (snd (core_of x))) ->
    forall y, core_in y (closure1 (c_nterms c) (c_nl c) (c_fe c) (c_ps c) K) -> P (fst y) (snd y).
  Proof.
    intros Hcl HK y [x [Hx Ex]]. subst y. unfold closure1 in Hx.
    apply (closure1_coresP (c_nl c) (c_fe c) (c_ps c) (fun y => P (fst y) (snd y))) with (fuel := S (length (c_ps c) * S (c_nterms c))) (I := K); auto.
    intros p d a B q Hp Hd _ Hq Hh. simpl in *. apply (Hcl p d q); auto. now rewrite Hh.
  Qed.

  Lemma lalr_B0 (P : prod -> nat -> Prop) : P aug 0 ->
    (forall p d q, P p d -> nth_error (body p) d = Some (Nt (head q)) -> In q ps -> P q 0) ->
    forall p d, CIl 0 p d -> P p d.
  Proof.
    intros H0 Hcl p d [R [Hk Hci]]. pose proof (reps_nth_0 G fuel C HC) as E0. fold reps in E0.
    rewrite E0 in Hk. inversion Hk; subst R.
    apply (cl_cores P [(aug_prod G, 0, None)] Hcl) with (y := (p, d)); auto.
    intros x [Hx|[]]. subst x. exact H0.
  Qed.

  Lemma lalr_B1 k X k' : trans tbl k X k' -> forall P : prod -> nat -> Prop,
    (forall p d, CIl k p d -> nth_error (body p) d = Some X -> P p (S d)) ->
    (forall p d q, P p d -> nth_error (body p) d = Some (Nt (head q)) -> In q ps -> P q 0) ->
    forall p d, CIl k' p d -> P p d.
  Proof.
    intros Ht P Hker Hcl p d [R2 [Hk2 Hci]].
    destruct (lalr_trans_origin _ _ _ Ht) as [R [R' [Hk [Hk' [Hne Hsame]]]]].
    rewrite Hk' in Hk2. inversion Hk2; subst R2. apply (same_core_spec _ _ Hsame) in Hci.
    destruct (goto1_nonempty_kernel G R X Hne) as [Eg _]. fold c in Eg. rewrite Eg in Hci.
    apply (cl_cores P (goto1_kernel R X) Hcl) with (y := (p, d)); auto.
    intros x Hx. apply goto1_kernel_items in Hx as [d1 [Hs [Hi Hn]]]. rewrite Hs.
    apply Hker; auto. exists R. split; auto. eexists. split; [exact Hi|reflexivity].
  Qed.

  Lemma lalr_B2 k X k' : trans tbl k X k' -> exists p d, CIl k p d /\ nth_error (body p) d = Some X.
  Proof.
    intros Ht. destruct (lalr_trans_origin _ _ _ Ht) as [R [R' [Hk [Hk' [Hne Hsame]]]]].
    destruct (goto1_nonempty_kernel G R X Hne) as [_ Hkn]. destruct (goto1_kernel R X) as [|x K] eqn:E; [congruence|].
    destruct (goto1_kernel_items X R x) as [d [Hs [Hi Hn]]]; [rewrite E; now left|].
    exists (fst (core_of x)), d. split; [|exact Hn]. exists R. split; auto. eexists. split; [exact Hi|reflexivity].
  Qed.

  Lemma lalr_B3 k X k' : trans tbl k X k' -> exists p d, CIl k' p d.
  Proof.
    intros Ht. destruct (lalr_trans_origin _ _ _ Ht) as [R [R' [Hk [Hk' [Hne Hsame]]]]].
    destruct (goto1 c R X) as [|y K] eqn:E; [congruence|].
    exists (fst (core_of y)), (snd (core_of y)), R'. split; auto.
    apply (same_core_spec _ _ Hsame). exists y. split; [now left|]. now destruct (core_of y).
  Qed.

  Theorem lalr_no_hang w : exists f, parse f tbl w <> Hang.
  Proof.
    apply (lr_no_hang G Hvalid Hgenerating tbl _
             (lalr_table_ok G (proj1 (proj1 Hvalid)) fuel C HC [] tbl Hb)
             (lalr_complete G Hvalid fuel C HC tbl Hb) ITl CIl).
    - intros k p d la [R [Hk Hit]]. exists R. split; auto. exact (M_core C _ R Hit).
    - exact lalr_A0.
    - exact lalr_A1.
    - exact lalr_A2.
    - exact lalr_A3.
    - intros k p d [R [Hk Hci]]. exact (core_ps k R p d Hk Hci).
    - exact lalr_B0.
    - exact lalr_B1.
    - exact lalr_B2.
    - exact lalr_B3.
  Qed.
End TermLALR.
