(** C11 — specification-level notions: parse trees, rightmost derivations, the stack
    invariant of an LR driver over a certified table. *)
From Coq Require Import List ZArith Bool Arith Lia.
From Algo.Grammar Require Import CFG.
From Algo.C11 Require Import Model.
Import ListNotations.

(** the grammar symbol at the root of a tree ([Leaf None] = a leaf for the endmarker and the
    nil node never occur in well-formed trees; they get a junk symbol) *)
Definition root (t : tree) : sym :=
  match t with
  | Leaf (Some a) => Tm a
  | Leaf None => Nt 0
  | Node p _ => Nt (head p)
  | TNil => Nt 0
  end.

(** parse trees of [G]: every internal node is labelled by a production of [G] whose body is
    the sequence of its children's root symbols *)
Inductive wf_tree (G : gram) : tree -> Prop :=
| wf_leaf a : wf_tree G (Leaf (Some a))
| wf_node p ch : In p (prods G) -> map root ch = body p -> Forall (wf_tree G) ch -> wf_tree G (Node p ch).

(** one rightmost derivation step with production [p]: the rewritten non-terminal is followed
    by terminals only *)
Inductive rm_step (G : gram) (p : prod) : list sym -> list sym -> Prop :=
| rm_intro u v : In p (prods G) ->
    rm_step G p (u ++ Nt (head p) :: map Tm v) (u ++ body p ++ map Tm v).

(** [rm_chain G [p1;...;pk] a b]: a =>rm(p1) ... =>rm(pk) b *)
Fixpoint rm_chain (G : gram) (ps : list prod) (a b : list sym) : Prop :=
  match ps with
  | [] => a = b
  | p :: r => exists c, rm_step G p a c /\ rm_chain G r c b
  end.

(** the productions [ps], in the order an LR parser emits them, are a rightmost derivation of
    [w] from the start symbol in reverse *)
Definition rightmost_reverse (G : gram) (ps : list prod) (w : list nat) : Prop :=
  rm_chain G (rev ps) [Nt (start G)] (map Tm w).

(** the state stack (top first) spells the symbols [xs] (top first) along certified shift/goto
    entries of the table, starting from state 0 *)
Inductive path (tbl : table) (lbl : list (list sym)) : list Z -> list sym -> Prop :=
| path_nil : path tbl lbl [0%Z] []
| path_cons t s st X xs :
    path tbl lbl (s :: st) xs -> edge_ok tbl lbl s X t = true -> In (s, X, t) (edges tbl) ->
    path tbl lbl (t :: s :: st) (X :: xs).
