(** C11 — the LR(1) CLOSURE of the model is closed (complete): its fuel suffices. *)
From Coq Require Import List ZArith Bool Arith Lia.
From Algo.Grammar Require Import CFG.
From Algo.C11 Require Import Model ModelPrec ModelSLR ModelLR1 Proofs ProofsLR0 ProofsSLR ProofsCLR ProofsChain ProofsChain2.
Import ListNotations.

Section Closed1.
  Variable nt : nat.
  Variable nl : list nat.
  Variable fe : fenv.
  Variable ps : list prod.
  Variable LA : list look.

  Definition las_of (i : item1) : list look :=
    first_la nl fe (skipn (S (snd (fst i))) (body (fst (fst i)))) (la_of i).

  Definition ok1 (I : list item1) : Prop := forall it, In it I -> In (fst (fst it)) ps /\ In (la_of it) LA.

  (** lookaheads computed for closure items stay in LA *)
  Hypothesis Hla : forall i, In (fst (fst i)) ps -> In (la_of i) LA -> incl (las_of i) LA.
  Hypothesis Hlen : length LA = S nt.

  Definition closed1 (S0 : list item1) : Prop :=
    forall it B p b, In it S0 -> dot_symbol (core_of it) = Some (Nt B) -> In p ps -> head p = B ->
      In b (las_of it) -> In (p, 0, b) S0.

  Definition ext1 (I J : list item1) : Prop :=
    exists ex, J = I ++ ex /\ forall e, In e ex -> ~ In e I /\ exists p b, e = (p, 0, b) /\ In p ps /\ In b LA.

  Lemma ext1_refl I : ext1 I I.
  Proof. exists []. rewrite app_nil_r. split; [reflexivity|intros e []]. Qed.

  Lemma ext1_add I J p b : ext1 I J -> In p ps -> In b LA -> ext1 I (add_item1 (p, 0, b) J).
  Proof.
    intros [ex [E Hx]] Hp Hb. unfold add_item1. destruct (mem_item1 (p, 0, b) J) eqn:Em; [exists ex; auto|].
    exists (ex ++ [(p, 0, b)]). split; [subst J; now rewrite app_assoc|].
    intros e He. apply in_app_or in He as [He|[He|[]]]; [now apply Hx|]. subst e.
    split; [|eauto]. intros Hin. assert (Hj : In (p, 0, b) J) by (subst J; apply in_or_app; now left).
    apply In_mem_item1 in Hj. congruence.
  Qed.

  Lemma ext1_step I J i : ext1 I J -> In (fst (fst i)) ps -> In (la_of i) LA -> ext1 I (step1 nl fe ps J i).
  Proof.
    intros HJ Hp Hl. unfold step1. destruct (dot_symbol (core_of i)) as [[a|B]|]; auto.
    fold (las_of i). pose proof (Hla i Hp Hl) as Hlas.
    assert (Hgen : forall l J', (forall p, In p l -> In p ps) -> ext1 I J' ->
      ext1 I (fold_left (fun J' p => if Nat.eqb (head p) B then fold_left (fun J'' b => add_item1 (p, 0, b) J'') (las_of i) J' else J') l J')).
    { induction l as [|p l IH]; intros J' Hl' HJ'; simpl; auto.
      apply IH; [intros q Hq; apply Hl'; now right|].
      destruct (Nat.eqb (head p) B); auto.
      assert (Hin : forall las J'', incl las LA -> ext1 I J'' -> ext1 I (fold_left (fun J'' b => add_item1 (p, 0, b) J'') las J'')).
      { induction las as [|b las IHl]; intros J'' Hs HJ''; simpl; auto.
        apply IHl; [intros x Hx; apply Hs; now right|]. apply ext1_add; auto; [apply Hl'|apply Hs]; now left. }
      apply Hin; auto. }
    apply Hgen; auto.
  Qed.

  Lemma ok1_ext I J : ok1 I -> ext1 I J -> ok1 J.
  Proof.
    intros HI [ex [E Hx]] it Hit. subst J. apply in_app_or in Hit as [Hit|Hit]; [now apply HI|].
    destruct (Hx it Hit) as [_ [p [b [Ee [Hp Hb]]]]]. subst it. unfold la_of. simpl. auto.
  Qed.

  Lemma ext1_pass I : ok1 I -> ext1 I (closure1_pass nl fe ps I).
  Proof.
    intros HI. rewrite closure1_pass_eq.
    assert (Hgen : forall l J, (forall i, In i l -> In (fst (fst i)) ps /\ In (la_of i) LA) -> ext1 I J -> ext1 I (fold_left (step1 nl fe ps) l J)).
    { induction l as [|i l IH]; intros J Hl HJ; simpl; auto.
      apply IH; [intros i' Hi'; apply Hl; now right|]. destruct (Hl i (or_introl eq_refl)). now apply ext1_step. }
    apply Hgen; [exact HI|apply ext1_refl].
  Qed.

  Lemma step1_adds J i B p b : dot_symbol (core_of i) = Some (Nt B) -> In p ps -> head p = B -> In b (las_of i) ->
    In (p, 0, b) (step1 nl fe ps J i).
  Proof.
    intros Hd Hp Hh Hb. unfold step1. rewrite Hd. fold (las_of i).
    apply (fold_establish _ (fun J' => In (p, 0, b) J') _ p Hp).
    - intros c0. rewrite Hh, Nat.eqb_refl.
      apply (fold_establish _ (fun J'' => In (p, 0, b) J'') _ b Hb).
      + intros c1. apply add_item1_has.
      + intros c1 b' Hc. now apply add_item1_incl.
    - intros c0 q Hc. destruct (Nat.eqb (head q) B); auto. now apply las_fold_incl.
  Qed.

  Lemma pass1_adds I it B p b : In it I -> dot_symbol (core_of it) = Some (Nt B) -> In p ps -> head p = B ->
    In b (las_of it) -> In (p, 0, b) (closure1_pass nl fe ps I).
  Proof.
    intros Hit Hd Hp Hh Hb. rewrite closure1_pass_eq.
    apply (fold_establish _ (fun J => In (p, 0, b) J) _ it Hit).
    - intros c0. eapply step1_adds; eauto.
    - intros c0 i' Hc. now apply step1_incl.
  Qed.

  Lemma stable_closed1 I : ok1 I -> length (closure1_pass nl fe ps I) = length I -> closed1 I.
  Proof.
    intros HI Hlen' it B p b Hit Hd Hp Hh Hb.
    pose proof (pass1_adds I it B p b Hit Hd Hp Hh Hb) as Hin.
    destruct (ext1_pass I HI) as [ex [E _]]. rewrite E in Hlen', Hin. rewrite app_length in Hlen'.
    destruct ex; [now rewrite app_nil_r in Hin|simpl in Hlen'; lia].
  Qed.

  Definition missing1 (I : list item1) : nat :=
    length (filter (fun pb => negb (mem_item1 (fst pb, 0, snd pb) I)) (list_prod ps LA)).

  Lemma pass1_progress I : ok1 I -> length (closure1_pass nl fe ps I) <> length I ->
    missing1 (closure1_pass nl fe ps I) < missing1 I.
  Proof.
    intros HI Hlen'. destruct (ext1_pass I HI) as [ex [E Hex]].
    destruct ex as [|e ex]; [rewrite E, app_nil_r in Hlen'; congruence|].
    destruct (Hex e (or_introl eq_refl)) as [Hn [p [b [Ee [Hp Hb]]]]]. subst e.
    unfold missing1. apply filter_length_lt.
    - intros [q c] Hf. simpl in *. apply negb_true_iff in Hf. apply negb_true_iff.
      destruct (mem_item1 (q, 0, c) I) eqn:Em; auto.
      apply mem_item1_In in Em. assert (Hj : In (q, 0, c) (closure1_pass nl fe ps I)) by (rewrite E; apply in_or_app; now left).
      apply In_mem_item1 in Hj. congruence.
    - exists (p, b). split; [now apply in_prod|]. simpl. split.
      + apply negb_true_iff. destruct (mem_item1 (p, 0, b) I) eqn:Em; auto. apply mem_item1_In in Em. contradiction.
      + apply negb_false_iff. apply In_mem_item1. rewrite E. apply in_or_app. right. now left.
  Qed.

  Lemma closure1_iter_closed fuel : forall I, ok1 I -> missing1 I < fuel ->
    closed1 (closure1_iter fuel nl fe ps I) /\ ok1 (closure1_iter fuel nl fe ps I).
  Proof.
    induction fuel as [|f IH]; intros I HI Hm; [lia|]. simpl.
    destruct (Nat.eqb_spec (length (closure1_pass nl fe ps I)) (length I)) as [E|E].
    - split; [now apply stable_closed1|exact HI].
    - apply IH; [eapply ok1_ext; eauto; now apply ext1_pass|]. pose proof (pass1_progress I HI E). lia.
  Qed.

  Theorem closure1_closed I : ok1 I -> closed1 (closure1 nt nl fe ps I) /\ ok1 (closure1 nt nl fe ps I).
  Proof.
    intros HI. apply closure1_iter_closed; auto. unfold missing1.
    assert (Hf : forall (A : Type) (f : A -> bool) l, length (filter f l) <= length l).
    { intros A f l. induction l as [|y l IHl]; simpl; auto. destruct (f y); simpl; lia. }
    pose proof (Hf _ (fun pb : prod * look => negb (mem_item1 (fst pb, 0, snd pb) I)) (list_prod ps LA)) as Hle.
    rewrite prod_length, Hlen in Hle. lia.
  Qed.
End Closed1.
