(** C11 — termination of the LR driver on EVERY input over the tables of the modelled canonical
    LR(1) construction (no precedence declarations), for valid grammars whose non-terminals all
    generate a terminal string.

    Route: (1) every item of a state on the driver's stack is semantically valid for the string
    spelled by the stack (S' =>* delta A z with the lookahead at the head of z): CLOSURE and GOTO
    preserve this, by soundness of the computed nullable set and FIRST sets and because every
    non-terminal generates; (2) hence the valid-prefix property: whenever ACTION has an entry for
    the current state and token, the input read so far followed by that token can be completed
    to a sentence; (3) by completeness the driver accepts that sentence, and up to the moment the
    token is shifted it makes the same moves on it as on the actual input; so the token is shifted
    after finitely many steps, and we conclude by induction on the remaining input.

    The hypothesis "every non-terminal generates" cannot be dropped: see [hang_G] at the end. *)
From Coq Require Import List ZArith Bool Arith Lia.
From Algo.Grammar Require Import CFG.
From Algo.C11 Require Import Model ModelPrec ModelSLR ModelLR1 Spec Proofs ProofsTerm ProofsOracle ProofsLR0 ProofsSLR ProofsCLR
  ProofsChain ProofsChain2 ProofsFuel ProofsGen ProofsClosure1 ProofsComplete.
Import ListNotations.

(** every declared non-terminal derives a terminal string (one half of "reduced") *)
Definition generating (G : gram) : Prop :=
  forall A, In A (nonterms G) -> exists x, derives G [Nt A] (map Tm x).

(** ** generic preservation lemmas for the fixpoint iterators *)

Lemma iter_n_pres {A} (P : A -> Prop) (f : A -> A) : (forall x, P x -> P (f x)) ->
  forall n x, P x -> P (iter_n n f x).
Proof. intros Hf. induction n as [|n IH]; intros x Hx; simpl; auto. Qed.

Lemma fix_size_pres {A} (P : A -> Prop) (size : A -> nat) (f : A -> A) : (forall x, P x -> P (f x)) ->
  forall n x, P x -> P (fix_size n size f x).
Proof.
  intros Hf. induction n as [|n IH]; intros x Hx; simpl; auto.
  destruct (Nat.eqb (size (f x)) (size x)); auto.
Qed.

Lemma fold_left_pres {A B} (P : A -> Prop) (f : A -> B -> A) (l : list B) :
  (forall x b, In b l -> P x -> P (f x b)) -> forall x, P x -> P (fold_left f l x).
Proof.
  induction l as [|b l IH]; intros Hf x Hx; simpl; auto.
  apply IH; [intros y b' Hb; apply Hf; now right|]. apply Hf; [now left|exact Hx].
Qed.

Lemma add_nat_In x a l : In x (add_nat a l) -> x = a \/ In x l.
Proof.
  destruct (in_dec Nat.eq_dec a l) as [Hin|Hin].
  - rewrite (proj1 (add_nat_spec a l) Hin). auto.
  - rewrite (proj2 (add_nat_spec a l) Hin). intros [H|H]; auto.
Qed.

Lemma fget_fadd_In : forall e B ts A a, In a (fget (fadd e B ts) A) -> In a (fget e A) \/ (A = B /\ In a ts).
Proof.
  induction e as [|[B' l] e IH]; intros B ts A a; simpl.
  - destruct (Nat.eqb_spec A B) as [E|E]; [|intros []].
    intros H. destruct (union_nat_spec ts []) as [_ [_ [_ [U4 _]]]]. destruct (U4 _ H) as [[]|H']. auto.
  - destruct (Nat.eqb_spec B B') as [E|E]; simpl.
    + subst B'. destruct (Nat.eqb_spec A B) as [E2|E2]; auto.
      intros H. destruct (union_nat_spec ts l) as [_ [_ [_ [U4 _]]]]. destruct (U4 _ H); auto.
    + destruct (Nat.eqb_spec A B') as [E2|E2]; auto.
Qed.

(** ** soundness of the computed nullable set and FIRST sets *)

Section NullFirstSound.
  Variable H : gram.
  Let ps := prods H.
  Let nl := nullables H.
  Let fe := firsts H.

  Definition nsound (l : list nat) : Prop := forall A, In A l -> derives H [Nt A] [].

  Lemma nullable_str_sound l b : nsound l -> nullable_str l b = true -> derives H b [].
  Proof.
    intros Hl. induction b as [|[a|A] r IH]; simpl; intros Hn.
    - apply derives_refl.
    - discriminate.
    - apply andb_true_iff in Hn as [H1 H2]. apply mem_nat_In in H1.
      change (Nt A :: r) with ([Nt A] ++ r). change (@nil (symbol nat nat)) with (@nil (symbol nat nat) ++ []).
      apply derives_app; auto.
  Qed.

  Lemma nullables_sound : nsound nl.
  Proof.
    unfold nl, nullables. apply iter_n_pres; [|intros A []].
    intros l Hl. unfold nullable_pass. apply fold_left_pres; auto.
    intros l' p Hp Hl'. destruct (nullable_str l' (body p)) eqn:E; auto.
    intros A HA. apply add_nat_In in HA as [HA|HA]; auto. subst A.
    eapply derives_trans; [apply derives_prod; exact Hp|]. now apply nullable_str_sound with (l := l').
  Qed.

  (** every string over declared symbols derives a terminal string *)
  Variable declared : sym -> Prop.
  Hypothesis Hgen : forall A, declared (Nt A) -> exists x, derives H [Nt A] (map Tm x).

  Lemma gen_str b : (forall X, In X b -> declared X) -> exists v, derives H b (map Tm v).
  Proof.
    induction b as [|X r IH]; intros Hb.
    - exists []. apply derives_refl.
    - destruct IH as [v Hv]; [intros Y HY; apply Hb; now right|].
      destruct X as [a|A].
      + exists (a :: v). simpl. now apply derives_cons.
      + destruct (Hgen A) as [x Hx]; [apply Hb; now left|].
        exists (x ++ v). rewrite map_app. change (Nt A :: r) with ([Nt A] ++ r). now apply derives_app.
  Qed.

  Hypothesis Hbody : forall p X, In p ps -> In X (body p) -> declared X.

  Definition fsound (e : fenv) : Prop :=
    forall A t, In t (fget e A) -> exists v, derives H [Nt A] (map Tm (t :: v)).

  Lemma first_str_sound e b t : fsound e -> (forall X, In X b -> declared X) ->
    In t (first_str nl e b) -> exists v, derives H b (map Tm (t :: v)).
  Proof.
    intros He. induction b as [|[a|A] r IH]; intros Hb Ht; simpl in Ht.
    - destruct Ht.
    - destruct Ht as [Ht|[]]. subst a.
      destruct (gen_str r) as [v Hv]; [intros Y HY; apply Hb; now right|].
      exists v. simpl. now apply derives_cons.
    - assert (Hr : forall X, In X r -> declared X) by (intros Y HY; apply Hb; now right).
      assert (HA : In t (fget e A) -> exists v, derives H (Nt A :: r) (map Tm (t :: v))).
      { intros Hin. destruct (He A t Hin) as [v1 Hv1]. destruct (gen_str r Hr) as [v2 Hv2].
        exists (v1 ++ v2). change (t :: v1 ++ v2) with ((t :: v1) ++ v2). rewrite map_app.
        change (Nt A :: r) with ([Nt A] ++ r). now apply derives_app. }
      destruct (mem_nat A nl) eqn:En; auto.
      destruct (union_nat_spec (fget e A) (first_str nl e r)) as [_ [_ [_ [U4 _]]]].
      destruct (U4 _ Ht) as [Ht'|Ht']; auto.
      destruct (IH Hr Ht') as [v Hv]. exists v.
      apply mem_nat_In in En. pose proof (nullables_sound A En) as HAe.
      exact (derives_app H [Nt A] [] r _ HAe Hv).
  Qed.

  Lemma firsts_sound : fsound fe.
  Proof.
    unfold fe, firsts. apply fix_size_pres; [|intros A t []].
    intros e He. unfold first_pass. apply fold_left_pres; auto.
    intros e' p Hp He' A t Ht. apply fget_fadd_In in Ht as [Ht|[EA Ht]]; auto. subst A.
    destruct (first_str_sound e' (body p) t He' (fun X HX => Hbody p X Hp HX) Ht) as [v Hv].
    exists v. eapply derives_trans; [apply derives_prod; exact Hp|exact Hv].
  Qed.

  (** lookaheads FIRST(beta a): the string [beta z] with [a] at the head of [z] derives a terminal
      string that starts with the computed lookahead *)
  Lemma first_la_sound beta la b z : (forall X, In X beta -> declared X) ->
    In b (first_la nl fe beta la) -> la = hd_error z ->
    exists z', derives H (beta ++ map Tm z) (map Tm z') /\ hd_error z' = b.
  Proof.
    intros Hb Hin Hla. unfold first_la in Hin.
    assert (Hf : In b (map Some (first_str nl fe beta)) -> exists z', derives H (beta ++ map Tm z) (map Tm z') /\ hd_error z' = b).
    { intros Hm. apply in_map_iff in Hm as [t [E Ht]]. subst b.
      destruct (first_str_sound fe beta t firsts_sound Hb Ht) as [v Hv].
      exists ((t :: v) ++ z). split; [|reflexivity]. rewrite map_app. apply derives_app; [exact Hv|apply derives_refl]. }
    destruct (nullable_str nl beta) eqn:En; auto.
    apply in_app_or in Hin as [Hin|[Hin|[]]]; auto. subst b.
    exists z. split; [|now rewrite Hla].
    refine (derives_app H beta [] (map Tm z) (map Tm z) _ (derives_refl H _)).
    eapply nullable_str_sound; [apply nullables_sound|exact En].
  Qed.
End NullFirstSound.

(** ** derivations of the augmented grammar *)

Lemma derives_unaug G a b : derives (augment G) a b -> ~ In (Nt (fresh_nt G)) a ->
  derives G a b /\ ~ In (Nt (fresh_nt G)) b.
Proof.
  induction 1 as [x y Hs| |x y z _ IH1 _ IH2]; intros Hn.
  - destruct Hs as [u v p Hp]. destruct Hp as [Hp|Hp].
    + exfalso. apply Hn. subst p. apply in_or_app. right. now left.
    + split.
      * apply derives_step. now constructor.
      * intros Hin. apply in_app_or in Hin as [Hin|Hin]; [apply Hn; apply in_or_app; now left|].
        apply in_app_or in Hin as [Hin|Hin].
        -- apply (fresh_not_in_bodies G p); [now right|exact Hin].
        -- apply Hn. apply in_or_app. right. now right.
  - split; [apply derives_refl|exact Hn].
  - destruct (IH1 Hn) as [H1 Hn1]. destruct (IH2 Hn1) as [H2 Hn2]. split; auto. eapply derives_trans; eauto.
Qed.

Lemma L_unaug G w : L (augment G) w -> L G w.
Proof.
  unfold L. intros Hd. apply derives_derivesN in Hd as [n Hn].
  inversion Hn as [a E|m a b c0 Hs Hd]; subst.
  - destruct w; discriminate.
  - inversion Hs as [u v p Hp E1 E2]. destruct u as [|? [|? ?]]; try discriminate.
    simpl in E1. inversion E1 as [[Eh Ev]]. subst v.
    assert (Ep : p = aug_prod G) by (apply fresh_head; [exact Hp|now rewrite Eh]). subst p.
    simpl in E2. subst b.
    apply derivesN_derives in Hd. apply derives_unaug in Hd as [Hd _]; [exact Hd|].
    intros [Hin|[]]. inversion Hin as [E]. pose proof (start_lt_fresh G). lia.
Qed.

(** ** an induction principle for the LR(1) CLOSURE *)

Section Closure1Ind.
  Variable nt : nat.
  Variable nl : list nat.
  Variable fe : fenv.
  Variable ps : list prod.
  Variable P : item1 -> Prop.
  Hypothesis Hrule : forall i q b, P i -> dot_symbol (core_of i) = Some (Nt (head q)) -> In q ps ->
    In b (first_la nl fe (skipn (S (snd (fst i))) (body (fst (fst i)))) (la_of i)) -> P (q, 0, b).

  Definition allP (J : list item1) : Prop := forall x, In x J -> P x.

  Lemma step1_P J i : allP J -> P i -> allP (step1 nl fe ps J i).
  Proof.
    intros HJ Hi. unfold step1. destruct (dot_symbol (core_of i)) as [[a|B]|] eqn:Ed; auto.
    set (las := first_la nl fe _ _).
    apply (fold_left_pres allP); auto.
    intros J' q Hq HJ'. destruct (Nat.eqb_spec (head q) B) as [E|E]; auto.
    assert (Hgen : forall l J0, (forall b, In b l -> In b las) -> allP J0 ->
              allP (fold_left (fun J'' b => add_item1 (q, 0, b) J'') l J0)).
    { induction l as [|b l IH]; intros J0 Hl HJ0; simpl; auto.
      apply IH; [intros b' Hb'; apply Hl; now right|].
      intros x Hx. apply add_item1_In in Hx as [Hx|Hx]; auto. subst x.
      apply (Hrule i q b Hi); auto; [now rewrite E|]. apply Hl. now left. }
    apply Hgen; auto.
  Qed.

  Lemma closure1_pass_P I : allP I -> allP (closure1_pass nl fe ps I).
  Proof.
    intros HI. rewrite closure1_pass_eq.
    assert (Hgen : forall l J, allP l -> allP J -> allP (fold_left (step1 nl fe ps) l J)).
    { induction l as [|i l IH]; intros J Hl HJ; simpl; auto.
      apply IH; [intros x Hx; apply Hl; now right|]. apply step1_P; auto. apply Hl. now left. }
    apply Hgen; auto.
  Qed.

  Lemma closure1_P I : allP I -> allP (closure1 nt nl fe ps I).
  Proof.
    unfold closure1. generalize (S (length ps * S nt)). intros fuel. revert I.
    induction fuel as [|f IH]; intros I HI; simpl; auto.
    destruct (Nat.eqb (length (closure1_pass nl fe ps I)) (length I)); auto.
    apply IH. now apply closure1_pass_P.
  Qed.
End Closure1Ind.

(** ** the main development *)

Section Term2.
  Variable G : gram.
  Hypothesis Hvalid : valid_grammar G.
  Hypothesis Hgenerating : generating G.
  Variable fuel : nat.
  Variable C : list (list item1).
  Hypothesis HC : canonical1 fuel G = Some C.
  Variable tbl : table.
  Hypothesis Hb : build_clr fuel G [] = BuiltOk tbl.

  Let c := ctx_of G.
  Let G' := augment G.
  Let ps := prods G'.
  Let nl := nullables G'.
  Let fe := firsts G'.
  Let aug := aug_prod G.
  Let S' := fresh_nt G.

  Definition declared (X : sym) : Prop :=
    match X with Tm _ => True | Nt A => In A (nonterms G) end.

  Lemma declared_gen A : declared (Nt A) -> exists x, derives G' [Nt A] (map Tm x).
  Proof. intros HA. destruct (Hgenerating A HA) as [x Hx]. exists x. now apply derives_aug. Qed.

  Lemma declared_body p X : In p ps -> In X (body p) -> declared X.
  Proof.
    destruct Hvalid as [[V1 [V2 V3]] _]. intros [Hp|Hp] HX.
    - subst p. simpl in HX. destruct HX as [HX|[]]. subst X. exact V3.
    - destruct X as [a|A]; [exact I|]. simpl. eauto.
  Qed.

  (** *** semantic validity of an LR(1) item for a viable prefix *)

  Definition valid (gamma : list sym) (it : item1) : Prop :=
    In (fst (fst it)) ps /\ snd (fst it) <= length (body (fst (fst it))) /\
    exists delta z, gamma = delta ++ firstn (snd (fst it)) (body (fst (fst it))) /\
      derives G' [Nt S'] (delta ++ Nt (head (fst (fst it))) :: map Tm z) /\ la_of it = hd_error z.

  Lemma valid_init : valid [] (aug, 0, None).
  Proof.
    unfold valid. cbn [fst snd]. split; [now left|]. split; [lia|].
    exists [], []. repeat split. apply derives_refl.
  Qed.

  Lemma nth_split_body (p : prod) d X : nth_error (body p) d = Some X ->
    body p = firstn d (body p) ++ X :: skipn (S d) (body p).
  Proof.
    intros Hn. rewrite <- (firstn_skipn d (body p)) at 1. f_equal.
    clear -Hn. revert d Hn. induction (body p) as [|y l IH]; intros [|d] Hn; simpl in *; try discriminate.
    - now inversion Hn.
    - now apply IH.
  Qed.

  Lemma valid_closure_rule gamma i q b : valid gamma i -> dot_symbol (core_of i) = Some (Nt (head q)) -> In q ps ->
    In b (first_la nl fe (skipn (S (snd (fst i))) (body (fst (fst i)))) (la_of i)) -> valid gamma (q, 0, b).
  Proof.
    destruct i as [[p d] la]. unfold valid, core_of, dot_symbol, la_of. cbn [fst snd].
    intros [Hp [Hd [delta [z [Eg [Hder Hla]]]]]] Hdot Hq Hin.
    split; [exact Hq|]. split; [lia|].
    assert (Hdecl : forall X, In X (skipn (S d) (body p)) -> declared X).
    { intros X HX. apply In_skipn in HX. exact (declared_body p X Hp HX). }
    destruct (first_la_sound G' declared declared_gen declared_body _ _ _ z Hdecl Hin Hla) as [z' [Hz' Hhd]].
    exists gamma, z'. split; [simpl; now rewrite app_nil_r|]. split; [|now rewrite Hhd].
    eapply derives_trans; [exact Hder|].
    eapply derives_trans.
    - apply derives_step. apply (step_intro G' delta (map Tm z) p Hp).
    - replace (delta ++ body p ++ map Tm z)
        with ((delta ++ firstn d (body p)) ++ (Nt (head q) :: skipn (S d) (body p) ++ map Tm z)).
      + rewrite Eg. apply derives_app; [apply derives_refl|]. apply derives_cons. exact Hz'.
      + rewrite (nth_split_body p d _ Hdot) at 3. rewrite <- !app_assoc. reflexivity.
  Qed.

  Lemma valid_goto_rule gamma p d la X : valid gamma (p, d, la) -> nth_error (body p) d = Some X ->
    valid (gamma ++ [X]) (p, S d, la).
  Proof.
    unfold valid, la_of. cbn [fst snd]. intros [Hp [Hd [delta [z [Eg [Hder Hla]]]]]] Hn.
    split; [exact Hp|]. split; [apply nth_error_Some; congruence|].
    exists delta, z. split; [|split; auto].
    rewrite (firstn_S_nth _ _ _ Hn), Eg. now rewrite app_assoc.
  Qed.

  Definition cl := closure1 (c_nterms c) (c_nl c) (c_fe c) (c_ps c).

  Lemma valid_cl gamma K : (forall x, In x K -> valid gamma x) -> forall x, In x (cl K) -> valid gamma x.
  Proof.
    intros HK. apply (closure1_P (c_nterms c) nl fe ps (valid gamma)); auto.
    intros i q b. apply valid_closure_rule.
  Qed.

  (** *** stacks that follow the GOTO function (symbols: top first) *)

  Inductive spath : list Z -> list sym -> Prop :=
  | sp_nil : spath [0%Z] []
  | sp_cons k I st xs X k' : spath (Z.of_nat k :: st) xs -> nth_error C k = Some I ->
      state_of1 C (goto1 c I X) = Z.of_nat k' -> spath (Z.of_nat k' :: Z.of_nat k :: st) (X :: xs).

  Lemma spath_valid st xs : spath st xs ->
    exists k I st', st = Z.of_nat k :: st' /\ nth_error C k = Some I /\ forall it, In it I -> valid (rev xs) it.
  Proof.
    induction 1 as [|k I st xs X k' Hp IH Hk Hst].
    - exists 0, (cl [(aug, 0, None)]), []. split; [reflexivity|]. split; [apply (C1_nth_0 G fuel C HC)|].
      apply valid_cl. intros x [Hx|[]]. subst x. apply valid_init.
    - destruct IH as [k0 [I0 [st0 [E [Hk0 Hv]]]]]. inversion E as [[E1 E2]]. apply Nat2Z.inj in E1. subst k0 st0.
      rewrite Hk in Hk0. inversion Hk0; subst I0. clear Hk0 E.
      destruct (state_of1_spec _ _ _ Hst ltac:(lia)) as [Hne [k2 [I2 [E2 [Hk2 Heq]]]]].
      apply Nat2Z.inj in E2. subst k2.
      exists k', I2, (Z.of_nat k :: st). split; [reflexivity|]. split; [exact Hk2|].
      intros it Hit. apply (itemset1_eqb_spec _ _ Heq) in Hit.
      destruct (goto1_nonempty_kernel G _ _ Hne) as [Eg _]. fold c in Eg. rewrite Eg in Hit.
      simpl rev. revert it Hit. apply valid_cl.
      intros [[p n] la] Hx. apply goto1_kernel_items in Hx as [d [Hd [Hi Hn]]].
      unfold core_of, la_of in *. cbn [fst snd] in *. subst n.
      apply valid_goto_rule; auto.
  Qed.

  Lemma spath_length st xs : spath st xs -> length st = S (length xs).
  Proof. induction 1; simpl; auto. Qed.

  Lemma spath_skipn n : forall st xs, spath st xs -> n <= length xs -> spath (skipn n st) (skipn n xs).
  Proof.
    induction n as [|n IH]; intros st xs Hp Hn; [exact Hp|].
    destruct Hp as [|k I st xs X k' Hp Hk Hst]; simpl in Hn; [lia|].
    simpl. apply IH; [exact Hp|lia].
  Qed.

  (** *** what the table entries come from *)

  Lemma act_origin s a x : find_action (t_action tbl) s a = Some x -> sound1 G C s a x.
  Proof.
    destruct (table_shape G fuel C HC tbl Hb) as [r [Er [_ [_ Et]]]].
    intros H. apply find_action_In in H. rewrite Et in H. cbn [t_action] in H.
    apply resolve_cells_In in H as [l [H1 H2]].
    destruct (clr_cells G fuel C HC r Er) as [Hok _]. exact (Hok _ _ _ _ H1 H2).
  Qed.

  Lemma goto_origin s A t : find_goto (t_goto tbl) s A = Some t ->
    exists k I, s = Z.of_nat k /\ nth_error C k = Some I /\ t = state_of1 C (goto1 c I (Nt A)) /\ (0 <= t)%Z.
  Proof.
    destruct (table_shape G fuel C HC tbl Hb) as [r [Er [_ [_ Et]]]].
    intros H. apply find_goto_In in H. rewrite Et in H. cbn [t_goto] in H.
    exact (raw1_gotos G fuel C HC r s A t Er H).
  Qed.

  Lemma tbl_ok : table_ok G tbl (map lp1 C) = true.
  Proof. exact (clr_table_ok G (proj1 (proj1 Hvalid)) fuel C HC [] tbl Hb). Qed.

  (** *** the invariant of the driver loop on input [w] *)

  Variable w : list nat.

  Definition DInv (cf : cfg) : Prop :=
    exists xs x, spath (fst (fst cf)) xs /\ w = x ++ snd (fst cf) /\ derives G' (rev xs) (map Tm x).

  Lemma DInv_init : DInv ([0%Z], w, []).
  Proof. exists [], []. simpl. repeat split; [constructor|apply derives_refl]. Qed.

  Lemma step_DInv cf cf' : DInv cf -> step tbl cf = inl cf' -> DInv cf' \/ dead cf'.
  Proof.
    destruct cf as [[st inp] out]. intros [xs [x [Hp [Ew Hd]]]]. cbn [fst snd] in *.
    destruct (spath_valid st xs Hp) as [k [I [st' [Est [Hk Hv]]]]]. subst st.
    unfold step. cbn [peek].
    destruct (find_action (t_action tbl) (Z.of_nat k) (hd_error inp)) as [[t|p|]|] eqn:Ea; try discriminate.
    - (* shift *)
      intros Hc. inversion Hc; subst cf'; clear Hc. left.
      destruct (act_origin _ _ _ Ea) as [k0 [I0 [it [Ek [Hk0 [Hit [Hcon Htgt]]]]]]].
      apply Nat2Z.inj in Ek. subst k0. rewrite Hk in Hk0. inversion Hk0; subst I0. clear Hk0.
      destruct Hcon as [[t' [Hdot [Ea' _]]]|[[_ [_ [_ [_ Ex]]]]|[_ [_ [_ Ex]]]]]; try discriminate.
      destruct inp as [|t0 y]; [discriminate|]. simpl in Ea'. inversion Ea'; subst t0. clear Ea'.
      specialize (Htgt t eq_refl). cbn in Htgt.
      destruct it as [[p d] la]. unfold core_of, dot_symbol in Hdot. cbn [fst snd] in Hdot.
      destruct (goto_state G Hvalid fuel C HC k I p d la (Tm t') Hk Hit Hdot) as [k' [I' [Hst _]]].
      exists (Tm t' :: xs), (x ++ [t']). cbn [fst snd tl]. split; [|split].
      + rewrite Htgt, Hst. eapply sp_cons; eauto.
      + now rewrite <- app_assoc.
      + simpl. rewrite map_app. apply derives_app; [exact Hd|apply derives_refl].
    - (* reduce *)
      intros Hc. inversion Hc; subst cf'; clear Hc.
      destruct (act_origin _ _ _ Ea) as [k0 [I0 [it [Ek [Hk0 [Hit [Hcon _]]]]]]].
      apply Nat2Z.inj in Ek. subst k0. rewrite Hk in Hk0. inversion Hk0; subst I0. clear Hk0.
      destruct Hcon as [[t' [_ [_ Ex]]]|[[_ [_ [_ [_ Ex]]]]|[Hcpl [Hnf [_ Ex]]]]]; try discriminate.
      inversion Ex; subst p. clear Ex.
      destruct (Hv it Hit) as [Hpin [_ [delta [z [Eg [Hder _]]]]]].
      destruct it as [[p d] la]. unfold is_complete, core_of in Hcpl. cbn [fst snd] in *.
      apply Nat.eqb_eq in Hcpl. subst d. rewrite firstn_all in Eg.
      set (n := length (body p)).
      assert (Exs : xs = rev (body p) ++ rev delta).
      { rewrite <- (rev_involutive xs), Eg. apply rev_app_distr. }
      assert (Hn : n <= length xs).
      { rewrite Exs, app_length, rev_length. unfold n. lia. }
      assert (Hsk : skipn n xs = rev delta).
      { rewrite Exs. unfold n. rewrite <- (rev_length (body p)). rewrite skipn_app, skipn_all, Nat.sub_diag. reflexivity. }
      pose proof (spath_skipn n _ _ Hp Hn) as Hp'. rewrite Hsk in Hp'.
      destruct (spath_valid _ _ Hp') as [k2 [I2 [st2 [Est2 [Hk2 _]]]]].
      unfold goto_or_err. rewrite Est2 in *. cbn [peek].
      destruct (find_goto (t_goto tbl) (Z.of_nat k2) (head p)) as [t|] eqn:Eg2.
      + left. destruct (goto_origin _ _ _ Eg2) as [k3 [I3 [Ek3 [Hk3 [Et Hpos]]]]].
        apply Nat2Z.inj in Ek3. subst k3. rewrite Hk2 in Hk3. inversion Hk3; subst I3. clear Hk3.
        exists (Nt (head p) :: rev delta), x. cbn [fst snd]. split; [|split; auto].
        * rewrite <- (Z2Nat.id t Hpos). eapply sp_cons; eauto. rewrite Z2Nat.id by exact Hpos. now rewrite Et.
        * simpl. rewrite rev_involutive.
          eapply derives_trans; [|exact Hd]. rewrite Eg.
          pose proof (step_intro G' delta [] p Hpin) as Hs. rewrite !app_nil_r in Hs.
          apply derives_step. exact Hs.
      + right. exists (Z.of_nat k2 :: st2). reflexivity.
  Qed.

  Lemma nsteps_DInv n : forall cf cf', DInv cf -> nsteps tbl n cf = inl cf' -> DInv cf' \/ dead cf'.
  Proof.
    induction n as [|n IH]; intros cf cf' HI H; simpl in H.
    - inversion H; subst. now left.
    - destruct (step tbl cf) as [c1|o] eqn:Es; [|discriminate].
      destruct (step_DInv _ _ HI Es) as [HI1|Hd1]; [eapply IH; eauto|].
      destruct n as [|n]; simpl in H.
      + inversion H; subst. now right.
      + destruct (step_dead G tbl _ tbl_ok _ Hd1) as [r [e Hr]]. rewrite Hr in H. discriminate.
  Qed.

  (** *** the valid-prefix property: an ACTION entry for the current state and token means that
      the consumed input followed by that token (or by nothing, for the endmarker) can be
      completed to a sentence *)

  Lemma vpp cf act : DInv cf ->
    find_action (t_action tbl) (peek (fst (fst cf))) (hd_error (snd (fst cf))) = Some act ->
    exists x z, w = x ++ snd (fst cf) /\ hd_error z = hd_error (snd (fst cf)) /\ L G (x ++ z).
  Proof.
    destruct cf as [[st inp] out]. intros [xs [x [Hp [Ew Hd]]]]. cbn [fst snd] in *.
    destruct (spath_valid st xs Hp) as [k [I [st' [Est [Hk Hv]]]]]. subst st. cbn [peek].
    intros Ea.
    destruct (act_origin _ _ _ Ea) as [k0 [I0 [it [Ek [Hk0 [Hit [Hcon _]]]]]]].
    apply Nat2Z.inj in Ek. subst k0. rewrite Hk in Hk0. inversion Hk0; subst I0. clear Hk0.
    destruct (Hv it Hit) as [Hpin [Hdle [delta [z0 [Eg [Hder Hla]]]]]].
    destruct it as [[p d] la]. unfold core_of, la_of, is_complete, dot_symbol in *. cbn [fst snd] in *.
    (* S' =>* delta (body p) z0 *)
    assert (Hder2 : derives G' [Nt S'] (delta ++ body p ++ map Tm z0)).
    { eapply derives_trans; [exact Hder|]. apply derives_step. now constructor. }
    assert (Hfin : forall v, derives G' (skipn d (body p)) (map Tm v) -> L G (x ++ v ++ z0)).
    { intros v Hv'. apply L_unaug. unfold L. change (start (augment G)) with S'.
      eapply derives_trans; [exact Hder2|].
      rewrite <- (firstn_skipn d (body p)) at 1. rewrite <- app_assoc, app_assoc, <- Eg.
      rewrite !map_app. apply derives_app; [exact Hd|]. apply derives_app; [exact Hv'|apply derives_refl]. }
    unfold contrib1, core_of, la_of, is_complete, dot_symbol in Hcon. cbn [fst snd] in Hcon.
    exists x. destruct Hcon as [[t' [Hdot [Ea' _]]]|[[Hcpl [_ [Hl [Ea' _]]]]|[Hcpl [_ [Ea' _]]]]].
    - (* shift *)
      destruct (gen_str G' declared declared_gen (skipn (S d) (body p))) as [v Hv'].
      { intros X HX. apply In_skipn in HX. exact (declared_body p X Hpin HX). }
      exists ((t' :: v) ++ z0). split; [exact Ew|]. split; [now rewrite Ea'|].
      apply Hfin. pose proof (nth_split_body p d _ Hdot) as Hsp.
      assert (Esk : skipn d (body p) = Tm t' :: skipn (S d) (body p)).
      { rewrite Hsp at 1. rewrite skipn_app, skipn_all2 by (rewrite firstn_length; lia).
        rewrite firstn_length. replace (d - Nat.min d (length (body p))) with 0 by lia. reflexivity. }
      rewrite Esk. simpl. now apply derives_cons.
    - (* accept *)
      apply Nat.eqb_eq in Hcpl. exists z0. split; [exact Ew|]. split; [now rewrite <- Hla, Hl, Ea'|].
      apply (Hfin []). subst d. rewrite skipn_all. apply derives_refl.
    - (* reduce *)
      apply Nat.eqb_eq in Hcpl. exists z0. split; [exact Ew|]. split; [now rewrite <- Hla, Ea'|].
      apply (Hfin []). subst d. rewrite skipn_all. apply derives_refl.
  Qed.

  (** *** the moves of the driver do not depend on the input behind the lookahead *)

  Lemma nsteps_len n : forall cf cf', nsteps tbl n cf = inl cf' -> length (snd (fst cf')) <= length (snd (fst cf)).
  Proof.
    induction n as [|n IH]; intros cf cf' H; simpl in H.
    - inversion H; subst. lia.
    - destruct (step tbl cf) as [c1|o] eqn:Es; [|discriminate]. apply IH in H.
      destruct cf as [[st inp] out]. unfold step in Es.
      destruct (find_action (t_action tbl) (peek st) (hd_error inp)) as [[t|p|]|]; inversion Es; subst c1;
        cbn [fst snd] in *; auto. destruct inp; simpl in *; lia.
  Qed.

  Lemma hd_error_app_cons {A} (u : list A) t y y' : hd_error (u ++ t :: y) = hd_error (u ++ t :: y').
  Proof. destruct u; reflexivity. Qed.

  Lemma nsteps_tail n : forall st0 u out0 t y st rem out,
    nsteps tbl n (st0, u ++ t :: y, out0) = inl (st, rem, out) ->
    length (t :: y) <= length rem ->
    exists u', rem = u' ++ t :: y /\
      forall y', nsteps tbl n (st0, u ++ t :: y', out0) = inl (st, u' ++ t :: y', out).
  Proof.
    induction n as [|n IH]; intros st0 u out0 t y st rem out H Hlen; simpl in H.
    - inversion H; subst. exists u. split; auto.
    - unfold step in H. cbn [nsteps]. unfold step.
      destruct (find_action (t_action tbl) (peek st0) (hd_error (u ++ t :: y))) as [[t0|p|]|] eqn:Ea; try discriminate.
      + destruct u as [|b u1].
        * exfalso. simpl in H. apply nsteps_len in H. cbn [fst snd] in H. simpl in Hlen. lia.
        * simpl in H. destruct (IH _ _ _ _ _ _ _ _ H Hlen) as [u' [E Hall]].
          exists u'. split; auto. intros y'. rewrite <- (hd_error_app_cons (b :: u1) t y y'), Ea. simpl. apply Hall.
      + destruct (IH _ _ _ _ _ _ _ _ H Hlen) as [u' [E Hall]].
        exists u'. split; auto. intros y'. rewrite <- (hd_error_app_cons u t y y'), Ea. apply Hall.
  Qed.

  Lemma nsteps_tail0 n st0 out0 t y st out u :
    nsteps tbl n (st0, u ++ t :: y, out0) = inl (st, t :: y, out) ->
    forall y', nsteps tbl n (st0, u ++ t :: y', out0) = inl (st, t :: y', out).
  Proof.
    intros H. destruct (nsteps_tail n _ _ _ _ _ _ _ _ H (le_n _)) as [u' [E Hall]].
    assert (u' = []).
    { apply (f_equal (@length _)) in E. rewrite app_length in E. simpl in E. destruct u'; [reflexivity|simpl in E; lia]. }
    subst u'. exact Hall.
  Qed.

  (** an accepting run must shift the current token first *)
  Lemma run_accept_shift f : forall st t z out evs, runc tbl f (st, t :: z, out) = Accepted evs ->
    exists n st1 out1 t1, nsteps tbl n (st, t :: z, out) = inl (st1, t :: z, out1) /\
      find_action (t_action tbl) (peek st1) (Some t) = Some (Shift t1).
  Proof.
    induction f as [|f IH]; intros st t z out evs H; [discriminate|].
    rewrite runc_S in H. unfold step in H. cbn [hd_error] in H.
    destruct (find_action (t_action tbl) (peek st) (Some t)) as [[t1|p|]|] eqn:Ea; try discriminate.
    - exists 0, st, out, t1. split; [reflexivity|exact Ea].
    - destruct (IH _ _ _ _ _ H) as [n [st1 [out1 [t1 [Hn Hs]]]]].
      exists (S n), st1, out1, t1. split; [|exact Hs]. cbn [nsteps]. unfold step. cbn [hd_error]. rewrite Ea. exact Hn.
    - exfalso. destruct (act_origin _ _ _ Ea) as [k0 [I0 [it [_ [_ [_ [Hcon _]]]]]]].
      destruct Hcon as [[t' [_ [_ Ex]]]|[[_ [_ [_ [Ea' _]]]]|[_ [_ [_ Ex]]]]]; discriminate.
  Qed.

  (** *** termination *)

  Lemma run_from_reached n0 cf f evs u :
    nsteps tbl n0 ([0%Z], u, []) = inl cf -> parse f tbl u = Accepted evs -> runc tbl f cf = Accepted evs.
  Proof.
    intros Hn Hpar.
    assert (Hnh : parse f tbl u <> Hang) by (rewrite Hpar; discriminate).
    pose proof (parse_fuel_irrelevant tbl u f (n0 + f) Hnh ltac:(lia)) as E.
    change (parse (n0 + f) tbl u) with (runc tbl (n0 + f) ([0%Z], u, [])) in E.
    rewrite runc_nsteps, Hn in E. now rewrite E.
  Qed.

  Lemma no_hang_aux m : forall n0 st inp out, length inp < m ->
    nsteps tbl n0 ([0%Z], w, []) = inl (st, inp, out) -> exists f, runc tbl f (st, inp, out) <> Hang.
  Proof.
    induction m as [|m IH]; intros n0 st inp out Hm Hn0; [lia|].
    destruct (nsteps_DInv n0 _ _ DInv_init Hn0) as [HI|Hdead].
    2:{ exists 1. rewrite runc_S. destruct (step_dead G tbl _ tbl_ok _ Hdead) as [r [e Hr]]. rewrite Hr. discriminate. }
    destruct (find_action (t_action tbl) (peek st) (hd_error inp)) as [act|] eqn:Ea.
    2:{ exists 1. rewrite runc_S. unfold step. rewrite Ea. discriminate. }
    destruct (vpp _ act HI Ea) as [x [z [Ew [Hz HL]]]]. cbn [fst snd] in *.
    destruct (clr_complete G Hvalid fuel C HC tbl Hb _ HL) as [f [evs Hpar]].
    destruct inp as [|t y].
    - destruct z; [|discriminate]. rewrite app_nil_r in Ew, Hpar. subst x.
      exists f. rewrite (run_from_reached n0 _ f evs w Hn0 Hpar). discriminate.
    - destruct z as [|t0 z]; [discriminate|]. simpl in Hz. inversion Hz; subst t0. clear Hz.
      rewrite Ew in Hn0.
      pose proof (nsteps_tail0 n0 _ _ _ _ _ _ _ Hn0 z) as Hn0z.
      pose proof (run_from_reached n0 _ f evs _ Hn0z Hpar) as Hacc.
      destruct (run_accept_shift f _ _ _ _ _ Hacc) as [n [st1 [out1 [t1 [Hn Hs]]]]].
      pose proof (nsteps_tail0 n st out t z st1 out1 [] Hn y) as Hny. cbn [app] in Hny.
      set (c2 := (t1 :: st1, y, EvTok (Some t) :: out1) : cfg).
      assert (Hstep : nsteps tbl (n + 1) (st, t :: y, out) = inl c2).
      { rewrite (nsteps_add tbl n 1 _ _ Hny). cbn [nsteps]. unfold step. cbn [hd_error tl]. rewrite Hs. reflexivity. }
      assert (Hreach : nsteps tbl (n0 + (n + 1)) ([0%Z], w, []) = inl c2).
      { rewrite Ew. rewrite (nsteps_add tbl n0 (n + 1) _ _ Hn0). exact Hstep. }
      assert (Hy : length y < m) by (simpl in Hm; lia).
      destruct (IH (n0 + (n + 1)) (t1 :: st1) y (EvTok (Some t) :: out1) Hy Hreach) as [f' Hf'].
      exists ((n + 1) + f'). rewrite runc_nsteps, Hstep. exact Hf'.
  Qed.

  Theorem clr_no_hang : exists f, parse f tbl w <> Hang.
  Proof. exact (no_hang_aux (S (length w)) 0 [0%Z] w [] (Nat.lt_succ_diag_r _) eq_refl). Qed.
End Term2.

(** ** "every non-terminal generates" cannot be dropped

    S -> d C,  C -> A Y M,  Y -> a,  M -> M c,  A -> A | b   (a b c d = 0 1 2 3; M generates nothing).
    The grammar is valid in the sense of CFG.Verify.  FIRST(M) is empty, so in the state reached by
    "d A" the item [C -> A . Y M, $] contributes no closure item [Y -> . a, _] at all, and the unit
    production A -> A is reduced on the lookahead a without any competing action: the modelled
    canonical LR(1) and LALR(1) constructions return the same conflict-free table, and the driver
    over it reduces A -> A forever on the input "d b a". *)
Definition hang_G : gram := mkGrammar [0; 1; 2; 3] [10; 11; 12; 13; 14]
  [mkProd 10 [Tm 3; Nt 11]; mkProd 11 [Nt 12; Nt 13; Nt 14]; mkProd 13 [Tm 0]; mkProd 14 [Nt 14; Tm 2];
   mkProd 12 [Nt 12]; mkProd 12 [Tm 1]] 10.

Definition hang_tbl : table := mkTable
  [(0%Z, Some 3, Shift 1); (1%Z, Some 1, Shift 3); (2%Z, None, Accept);
   (3%Z, Some 0, Reduce (mkProd 12 [Tm 1]));
   (4%Z, None, Reduce (mkProd 10 [Tm 3; Nt 11]));
   (5%Z, Some 0, Reduce (mkProd 12 [Nt 12]));
   (7%Z, None, Reduce (mkProd 11 [Nt 12; Nt 13; Nt 14]));
   (7%Z, Some 2, Shift 8);
   (8%Z, None, Reduce (mkProd 14 [Nt 14; Tm 2]));
   (8%Z, Some 2, Reduce (mkProd 14 [Nt 14; Tm 2]))]
  [(0%Z, 10, 2%Z); (1%Z, 11, 4%Z); (1%Z, 12, 5%Z); (5%Z, 13, 6%Z); (6%Z, 14, 7%Z)].

Lemma hang_G_valid : valid_grammar hang_G.
Proof.
  split; [split; [|split]|].
  - intros p c Hp Hc. simpl in Hp. repeat (destruct Hp as [Hp|Hp]; [subst p; simpl in Hc; intuition (try discriminate); match goal with E : Tm _ = Tm _ |- _ => inversion E; subst; simpl; tauto end|]). destruct Hp.
  - intros p A Hp Hc. simpl in Hp. repeat (destruct Hp as [Hp|Hp]; [subst p; simpl in Hc; intuition (try discriminate); match goal with E : Nt _ = Nt _ |- _ => inversion E; subst; simpl; tauto end|]). destruct Hp.
  - simpl. tauto.
  - intros A HA. simpl in HA.
    destruct HA as [<-|[<-|[<-|[<-|[<-|[]]]]]].
    + exists (mkProd 10 [Tm 3; Nt 11]). simpl. tauto.
    + exists (mkProd 11 [Nt 12; Nt 13; Nt 14]). simpl. tauto.
    + exists (mkProd 12 [Tm 1]). simpl. tauto.
    + exists (mkProd 13 [Tm 0]). simpl. tauto.
    + exists (mkProd 14 [Nt 14; Tm 2]). simpl. tauto.
Qed.

Lemma hang_G_built : build_clr 50 hang_G [] = BuiltOk hang_tbl /\ build_lalr 50 hang_G [] = BuiltOk hang_tbl.
Proof. split; vm_compute; reflexivity. Qed.

Lemma hang_loop f : forall out, run f hang_tbl [5%Z; 1%Z; 0%Z] [0] out = Hang.
Proof. induction f as [|f IH]; intros out; [reflexivity|]. cbn. apply IH. Qed.

Lemma hang_G_hangs f : parse f hang_tbl [3; 1; 0] = Hang.
Proof.
  destruct f as [|[|[|f]]]; try reflexivity. cbn. apply hang_loop.
Qed.
