(** C11 — completeness of the modelled LALR(1) construction (merge LR(1) states by core): over a
    conflict-free LALR table built without precedence declarations the driver accepts every
    sentence.  Additional ingredient: the cores of CLOSURE and GOTO do not depend on lookaheads. *)
From Coq Require Import List ZArith Bool Arith Lia.
From Algo.Grammar Require Import CFG.
From Algo.C11 Require Import Model ModelPrec ModelSLR ModelLR1 Spec Proofs ProofsTerm ProofsLR0 ProofsSLR ProofsCLR ProofsLALR
  ProofsChain ProofsChain2 ProofsFuel ProofsGen ProofsClosure1 ProofsComplete ProofsCompleteSLR.
Import ListNotations.

(** ** cores of closures are determined by the cores of the kernels *)

Section CoreDet.
  Variable nt : nat.
  Variable nl : list nat.
  Variable fe : fenv.
  Variable ps : list prod.

  (** whether a closure item gets any lookahead does not depend on the lookahead of its parent *)
  Lemma las_nonempty_indep p d a a' : las_of nl fe (p, d, a) <> [] -> las_of nl fe (p, d, a') <> [].
  Proof.
    unfold las_of, first_la, la_of. cbn [fst snd].
    destruct (nullable_str nl (skipn (S d) (body p))).
    - intros _ E. apply app_eq_nil in E as [_ E]. discriminate.
    - auto.
  Qed.

  (** a predicate on cores closed under the closure rule for parents that produce lookaheads *)
  Definition closedP (P : item -> Prop) : Prop :=
    forall p d a B q, P (p, d) -> nth_error (body p) d = Some (Nt B) -> las_of nl fe (p, d, a) <> [] ->
      In q ps -> head q = B -> P (q, 0).

  Lemma closed1_closedP I : closed1 nl fe ps I -> closedP (fun y => core_in y I).
  Proof.
    intros Hc p d a B q [x [Hx Ex]] Hd Hl Hq Hh.
    destruct x as [[p' d'] a']. unfold core_of in Ex. cbn [fst snd] in Ex. inversion Ex; subst p' d'.
    pose proof (las_nonempty_indep p d a a' Hl) as Hl'.
    destruct (las_of nl fe (p, d, a')) as [|b las] eqn:El; [congruence|].
    exists (q, 0, b). split; [|reflexivity].
    apply (Hc (p, d, a') B q b Hx); auto. rewrite El. now left.
  Qed.

  Lemma closure1_coresP (P : item -> Prop) : closedP P -> forall fuel I,
    (forall x, In x I -> P (core_of x)) -> forall x, In x (closure1_iter fuel nl fe ps I) -> P (core_of x).
  Proof.
    intros HP. induction fuel as [|f IH]; intros I HI; simpl; auto.
    destruct (Nat.eqb (length (closure1_pass nl fe ps I)) (length I)); auto.
    apply IH. rewrite closure1_pass_eq.
    assert (Hgen : forall l J, (forall i, In i l -> P (core_of i)) -> (forall x, In x J -> P (core_of x)) ->
                   forall x, In x (fold_left (step1 nl fe ps) l J) -> P (core_of x)).
    { induction l as [|i l IHl]; intros J Hl HJ; simpl; auto.
      apply IHl; [intros i' Hi'; apply Hl; now right|].
      pose proof (Hl i (or_introl eq_refl)) as Hi.
      unfold step1. destruct (dot_symbol (core_of i)) as [[a|B]|] eqn:Ed; auto.
      fold (las_of nl fe i).
      assert (Hq : forall l' J', (forall q, In q l' -> In q ps) -> (forall x, In x J' -> P (core_of x)) ->
        forall x, In x (fold_left (fun J' q => if Nat.eqb (head q) B then fold_left (fun J'' b => add_item1 (q, 0, b) J'') (las_of nl fe i) J' else J') l' J') -> P (core_of x)).
      { induction l' as [|q l' IHq]; intros J' Hl' HJ'; simpl; auto.
        apply IHq; [intros q' Hq'; apply Hl'; now right|].
        destruct (Nat.eqb_spec (head q) B) as [E|E]; auto.
        intros x Hx. apply las_fold_items2 in Hx as [Hx|[b [Hb Ex]]]; [now apply HJ'|].
        subst x. unfold core_of. cbn [fst snd].
        destruct i as [[p d] a0]. unfold core_of, dot_symbol in Ed, Hi. cbn [fst snd] in Ed, Hi.
        apply (HP p d a0 B q Hi Ed); auto; [|apply Hl'; now left].
        intros En. rewrite En in Hb. destruct Hb. }
      apply Hq; auto. }
    apply Hgen; auto.
  Qed.
End CoreDet.

Lemma same_core_complete I J : (forall y, core_in y I <-> core_in y J) -> same_core I J = true.
Proof.
  intros H. unfold same_core, itemset_eqb, subset_items. apply andb_true_iff.
  split; apply forallb_forall; intros y Hy; apply In_mem_item; apply cores_In; apply H; now apply cores_In.
Qed.

Section CompleteLALR.
  Variable G : gram.
  Hypothesis Hvalid : valid_grammar G.
  Variable fuel : nat.
  Variable C : list (list item1).
  Hypothesis HC : canonical1 fuel G = Some C.
  Variable tbl : table.
  Hypothesis Hb : build_lalr fuel G [] = BuiltOk tbl.

  Let c := ctx_of G.
  Let G' := augment G.
  Let ps := prods G'.
  Let nl := nullables G'.
  Let fe := firsts G'.
  Let LA : list look := None :: map Some (terms G).
  Let syms := symbols_of G'.
  Let aug := aug_prod G.
  Let reps := reps_of C.
  Let M (R : list item1) := merge_class C R.

  Lemma closure1_same_cores K1 K2 : ok1 ps LA K1 -> ok1 ps LA K2 -> (forall y, core_in y K1 <-> core_in y K2) ->
    forall y, core_in y (closure1 (c_nterms c) nl fe ps K1) -> core_in y (closure1 (c_nterms c) nl fe ps K2).
  Proof.
    intros H1 H2 Hs y [x [Hx Ex]]. subst y.
    destruct (closure1_closed (c_nterms c) nl fe ps LA (las_in_LA G Hvalid) (LA_len G) K2 H2) as [Hc2 _].
    apply (closure1_coresP nl fe ps (fun y => core_in y (closure1 (c_nterms c) nl fe ps K2)) (closed1_closedP nl fe ps _ Hc2)
             (S (length ps * S (c_nterms c))) K1); [|exact Hx].
    intros x0 Hx0. destruct (proj1 (Hs (core_of x0)) (ex_intro _ x0 (conj Hx0 eq_refl))) as [z [Hz Ez]].
    exists z. split; auto. now apply closure1_incl.
  Qed.

  Lemma kernel_same_cores I R X : (forall y, core_in y I -> core_in y R) ->
    forall y, core_in y (goto1_kernel I X) -> core_in y (goto1_kernel R X).
  Proof.
    intros Hs y [x [Hx Ex]]. subst y. destruct x as [[p n] a].
    apply goto1_kernel_items in Hx as [d [Hd [Hi Hn]]]. unfold core_of, la_of in *. cbn [fst snd] in *. subst n.
    destruct (Hs (p, d) (ex_intro _ (p, d, a) (conj Hi eq_refl))) as [[[p' d'] a'] [Hz Ez]].
    unfold core_of in Ez. cbn [fst snd] in Ez. inversion Ez; subst p' d'.
    exists (p, S d, a'). split; [|reflexivity].
    exact (goto1_kernel_has R X (p, d, a') Hz Hn).
  Qed.

  Lemma kernel_ok I X : ok1 ps LA I -> ok1 ps LA (goto1_kernel I X).
  Proof.
    intros HI [[p n] a] Hx. apply goto1_kernel_items in Hx as [d [_ [Hi _]]].
    unfold core_of, la_of in *. cbn [fst snd] in *. exact (HI _ Hi).
  Qed.

  (** GOTO of two states with the same cores have the same cores *)
  Lemma goto_same_cores I R X : reach1 G I -> reach1 G R -> (forall y, core_in y I <-> core_in y R) ->
    goto1 c I X <> [] -> goto1 c R X <> [] /\ forall y, core_in y (goto1 c I X) <-> core_in y (goto1 c R X).
  Proof.
    intros HI HR Hs Hne.
    destruct (reach1_closed G Hvalid I HI) as [_ HokI]. destruct (reach1_closed G Hvalid R HR) as [_ HokR].
    destruct (goto1_nonempty_kernel G I X Hne) as [EgI HkI].
    assert (HkR : goto1_kernel R X <> []).
    { destruct (goto1_kernel I X) as [|x K] eqn:E; [congruence|].
      destruct (kernel_same_cores I R X (fun y => proj1 (Hs y)) (core_of x)) as [z [Hz _]].
      - exists x. split; auto. rewrite E. now left.
      - intros En. rewrite En in Hz. destruct Hz. }
    assert (EgR : goto1 c R X = closure1 (c_nterms c) nl fe ps (goto1_kernel R X)).
    { unfold goto1. destruct (goto1_kernel R X); [congruence|reflexivity]. }
    split.
    - rewrite EgR. destruct (goto1_kernel R X) as [|z K] eqn:E; [congruence|].
      intros En. assert (Hin : In z (closure1 (c_nterms c) nl fe ps (z :: K))) by (apply closure1_incl; now left).
      rewrite En in Hin. destruct Hin.
    - intros y. unfold c in *. rewrite EgI, EgR. split; apply closure1_same_cores; auto using kernel_ok.
      + intros y0. split; apply kernel_same_cores; intros y1; apply Hs.
      + intros y0. split; apply kernel_same_cores; intros y1; apply Hs.
  Qed.
  (** *** the table *)

  Lemma h1L : forall p t, In p ps -> In (Tm t) (body p) -> In t (terms G').
  Proof.
    destruct Hvalid as [[V1 _] _]. intros p t [Hp|Hp] Ht; [subst p; simpl in Ht; destruct Ht as [Ht|[]]; discriminate|].
    simpl. eauto.
  Qed.

  Lemma table_shapeL : exists r, lalr_raw fuel G = Some r /\ small_cells (r_action r) /\ cells_wf (r_action r) /\
    tbl = mkTable (fst (resolve_cells [] (r_action r))) (r_goto r).
  Proof.
    unfold build_lalr in Hb. destruct (lalr_raw fuel G) as [r|] eqn:Er; [|discriminate].
    exists r. destruct (lalr_cells G fuel C HC r Er) as [Hwf _].
    assert (Hs : small_cells (r_action r)) by (apply finish_nil_ok; [apply Hwf|eauto]).
    repeat split; auto; try apply Hwf.
    unfold finish in Hb. simpl in Hb. destruct (resolve_cells [] (r_action r)) as [acts confl].
    destruct confl; [|discriminate]. now inversion Hb.
  Qed.

  Lemma lalr_has r k R it : lalr_raw fuel G = Some r -> nth_error reps k = Some R -> In it (M R) ->
    (forall t, dot_symbol (core_of it) = Some (Tm t) ->
       has (r_action r) (Z.of_nat k) (Some t) (Shift (class_of reps (goto1 c R (Tm t))))) /\
    (is_complete (core_of it) = true -> head (fst (fst it)) <> fresh_nt G ->
       has (r_action r) (Z.of_nat k) (la_of it) (Reduce (fst (fst it)))) /\
    (is_complete (core_of it) = true -> head (fst (fst it)) = fresh_nt G -> la_of it = None ->
       has (r_action r) (Z.of_nat k) None Accept).
  Proof.
    unfold lalr_raw. rewrite HC. intros Hr Hk Hit. inversion Hr; subst r; clear Hr. cbn [r_action].
    pose proof (combine_seq_nth Z.of_nat (reps_of C) 0 k R Hk) as Hidx. simpl in Hidx.
    set (tg := fun X => class_of (reps_of C) (goto1 (ctx_of G) R X)).
    assert (Hfold : forall (Q : list (Z * look * list action) -> Prop),
      (forall cells, Q (item1_actions G tg (Z.of_nat k) cells it)) ->
      (forall cells i0 tg0 it0, Q cells -> Q (item1_actions G tg0 i0 cells it0)) ->
      Q (fold_left (fun cells sR => fold_left (item1_actions G (fun X => class_of (reps_of C) (goto1 (ctx_of G) (snd sR) X)) (fst sR))
                                      (merge_class C (snd sR)) cells)
           (combine (map Z.of_nat (seq 0 (length (reps_of C)))) (reps_of C)) [])).
    { intros Q Hq Hp.
      apply (fold_establish _ Q _ (Z.of_nat k, R)); auto.
      - intros cells. cbn [fst snd]. apply (fold_establish _ Q _ it); auto.
      - intros c0 b' Hc0. apply fold_preserve; auto. }
    split; [|split].
    - intros t Hd. apply (Hfold (fun cells => has cells (Z.of_nat k) (Some t) (Shift (tg (Tm t))))).
      + intros cells. now apply ia_shift.
      + intros cells i0 tg0 it0. apply ia_mono.
    - intros Hc Hh. apply (Hfold (fun cells => has cells (Z.of_nat k) (la_of it) (Reduce (fst (fst it))))).
      + intros cells. now apply ia_reduce.
      + intros cells i0 tg0 it0. apply ia_mono.
    - intros Hc Hh Hl. apply (Hfold (fun cells => has cells (Z.of_nat k) None Accept)).
      + intros cells. now apply ia_accept.
      + intros cells i0 tg0 it0. apply ia_mono.
  Qed.

  Lemma goto_lookupL r k R B k' : lalr_raw fuel G = Some r -> tbl = mkTable (fst (resolve_cells [] (r_action r))) (r_goto r) ->
    nth_error reps k = Some R -> In B (nonterms G) -> class_of reps (goto1 c R (Nt B)) = Z.of_nat k' ->
    find_goto (t_goto tbl) (Z.of_nat k) B = Some (Z.of_nat k').
  Proof.
    intros Er Et Hk HB Hst. subst tbl. cbn [t_goto]. apply find_goto_unique.
    - unfold lalr_raw in Er. rewrite HC in Er. inversion Er; subst r; clear Er. cbn [r_goto].
      apply in_flat_map. exists (Z.of_nat k, R). split.
      + pose proof (combine_seq_nth Z.of_nat (reps_of C) 0 k R Hk) as Hidx. exact Hidx.
      + apply in_flat_map. exists B. split; auto. cbn [fst snd]. fold c reps. rewrite Hst.
        destruct (Z.of_nat k') eqn:E; [now left|now left|lia].
    - intros t' Hin. destruct (rawL_gotos G fuel C HC r _ _ _ Er Hin) as [k2 [R2 [E2 [Hk2 [Et' _]]]]].
      apply Nat2Z.inj in E2. subst k2. fold reps in Hk2. rewrite Hk in Hk2. inversion Hk2; subst R2. fold c reps in Et'. congruence.
  Qed.

  (** *** merged states *)

  Lemma M_member R x : In x (M R) -> exists I, In I C /\ same_core R I = true /\ In x I /\ reach1 G I.
  Proof.
    intros Hx. apply merge_class_In in Hx as [I [HI [He Hx]]]. exists I. repeat split; auto.
    exact (coll1_reach G C (proj1 (C1_coll G fuel C HC)) I HI).
  Qed.

  Lemma M_closed R : closed1 nl fe ps (M R).
  Proof.
    intros it B p b Hit Hd Hp Hh Hb0. destruct (M_member R it Hit) as [I [HI [He [HitI HrI]]]].
    destruct (reach1_closed G Hvalid I HrI) as [Hcl _].
    apply merge_class_In. exists I. repeat split; auto. now apply (Hcl it B p b).
  Qed.

  Lemma flip_cores R I : same_core R I = true -> forall y, core_in y I <-> core_in y R.
  Proof. intros He y. split; apply (same_core_spec R I He). Qed.

  Lemma goto_stateL k R p d la X : nth_error reps k = Some R -> In (p, d, la) (M R) -> nth_error (body p) d = Some X ->
    exists k' R', class_of reps (goto1 c R X) = Z.of_nat k' /\ nth_error reps k' = Some R' /\ In (p, S d, la) (M R').
  Proof.
    intros Hk Hit Hd. destruct (M_member R _ Hit) as [I [HI [He [HitI HrI]]]].
    pose proof (reps_nth_reach G fuel C HC k R Hk) as HrR.
    pose proof (reps_nth_C G fuel C HC k R Hk) as HRC.
    assert (HneI : goto1 c I X <> []) by (apply (goto1_nonempty G I X (p, d, la)); auto).
    destruct (goto_same_cores I R X HrI HrR (flip_cores R I He) HneI) as [HneR Hcores].
    destruct (reach1_spelled G I HrI) as [l Hl]. destruct (Hl _ HitI) as [Hp _]. unfold core_of in Hp. cbn [fst snd] in Hp.
    assert (HX : In X syms) by (apply (valid_syms_aug G (proj1 Hvalid) p X Hp); eapply nth_error_In; eauto).
    destruct (C1_coll G fuel C HC) as [_ Hcl].
    (* the GOTOs of R and of I are states of the LR(1) collection *)
    destruct (Hcl R X HRC HX) as [Hg|[kR HidxR]]; [contradiction|].
    apply index_of1_spec in HidxR as [_ [JR [HJR HeR]]]. rewrite Nat.sub_0_r in HJR.
    destruct (Hcl I X HI HX) as [Hg|[kI HidxI]]; [contradiction|].
    apply index_of1_spec in HidxI as [_ [JI [HJI HeI]]]. rewrite Nat.sub_0_r in HJI.
    pose proof (itemset1_eqb_spec _ _ HeR) as HsR. pose proof (itemset1_eqb_spec _ _ HeI) as HsI.
    (* the class of GOTO(R, X) exists *)
    destruct (reps_shape G fuel C HC) as [_ [_ [_ [_ Hcov]]]].
    destruct (Hcov JR (nth_error_In _ _ HJR)) as [R0 [HR0 He0]].
    assert (He0' : same_core R0 (goto1 c R X) = true).
    { apply same_core_complete. intros y. rewrite (same_core_spec _ _ He0 y).
      split; intros [x [Hx Ex]]; exists x; split; auto; now apply HsR. }
    destruct (class_index_complete (goto1 c R X) reps 0 (ex_intro _ R0 (conj HR0 He0'))) as [k' Hk'].
    assert (Hst : class_of reps (goto1 c R X) = Z.of_nat k').
    { unfold class_of. rewrite Hk'. destruct (goto1 c R X); [contradiction|reflexivity]. }
    destruct (class_of_spec _ _ _ Hst ltac:(lia)) as [_ [k2 [R' [E2 [HkR' HeR']]]]].
    apply Nat2Z.inj in E2. subst k2.
    exists k', R'. split; [exact Hst|]. split; [exact HkR'|].
    apply merge_class_In. exists JI. split; [eapply nth_error_In; eauto|]. split.
    - apply same_core_complete. intros y. rewrite (same_core_spec _ _ HeR' y), <- (Hcores y).
      split; intros [x [Hx Ex]]; exists x; split; auto; now apply HsI.
    - apply HsI. destruct (goto1_nonempty_kernel G I X HneI) as [Eg _]. unfold c. rewrite Eg. apply closure1_incl.
      exact (goto1_kernel_has I X (p, d, la) HitI Hd).
  Qed.

  (** *** the driver *)

  Definition P_genL (X : sym) (u : list nat) : Prop :=
    forall k R sigma p d la r out, nth_error reps k = Some R -> In (p, d, la) (M R) -> nth_error (body p) d = Some X ->
      compat G (skipn (S d) (body p)) la r ->
      exists k' out', class_of reps (goto1 c R X) = Z.of_nat k' /\
        reaches tbl (Z.of_nat k :: sigma, u ++ r, out) (Z.of_nat k' :: Z.of_nat k :: sigma, r, out').

  Definition P_gensL (b : list sym) (u : list nat) : Prop :=
    forall k R sigma p d la r out, nth_error reps k = Some R -> In (p, d, la) (M R) -> skipn d (body p) = b -> hd_error r = la ->
      exists pushed out' kt Rt,
        reaches tbl (Z.of_nat k :: sigma, u ++ r, out) (pushed ++ Z.of_nat k :: sigma, r, out') /\
        length pushed = length b /\ hd (Z.of_nat k) pushed = Z.of_nat kt /\
        nth_error reps kt = Some Rt /\ In (p, length (body p), la) (M Rt).

  Lemma big_stepL : (forall X u, gen G' X u -> P_genL X u) /\ (forall b u, gens G' b u -> P_gensL b u).
  Proof.
    destruct table_shapeL as [rw [Er [Hsmall [Hwf Et]]]].
    assert (Hact : forall k a x, has (r_action rw) (Z.of_nat k) a x -> find_action (t_action tbl) (Z.of_nat k) a = Some x).
    { intros k a x Hh. rewrite Et. cbn [t_action]. now apply lookup_from_cells. }
    apply gen_gens_ind.
    - intros t k R sigma p d la r out Hk Hit Hd Hc.
      destruct (goto_stateL k R p d la (Tm t) Hk Hit Hd) as [k' [R' [Hst [Hk' _]]]].
      exists k', (EvTok (Some t) :: out). split; [exact Hst|].
      apply reaches_step. unfold step. cbn [peek hd_error app].
      destruct (lalr_has rw k R (p, d, la) Er Hk Hit) as [Hsh _].
      rewrite (Hact k (Some t) _ (Hsh t Hd)). rewrite Hst. reflexivity.
    - intros q u Hq Hg IH k R sigma p d la r out Hk Hit Hd Hc.
      destruct (M_member R _ Hit) as [I [HI [He [HitI HrI]]]].
      destruct (reach1_spelled G I HrI) as [l Hl]. destruct (Hl _ HitI) as [Hp _]. unfold core_of in Hp. cbn [fst snd] in Hp.
      pose proof (compat_la G Hvalid _ _ _ Hc) as Hla.
      assert (Hq0 : In (q, 0, hd_error r) (M R)).
      { apply (M_closed R (p, d, la) (head q) q (hd_error r) Hit); auto. }
      destruct (IH k R sigma q 0 (hd_error r) r out Hk Hq0 eq_refl eq_refl)
        as [pushed [out1 [kt [Rt [Hr1 [Hlen [Hhd [Hkt Hcomp]]]]]]]].
      destruct (goto_stateL k R p d la (Nt (head q)) Hk Hit Hd) as [k' [R' [Hst [Hk' _]]]].
      exists k', (EvProd q :: out1). split; [exact Hst|].
      eapply reaches_trans; [exact Hr1|]. apply reaches_step. unfold step.
      rewrite peek_app_hd, Hhd.
      assert (Hnf : head q <> fresh_nt G).
      { intros E. apply (fresh_not_in_bodies G p Hp). rewrite <- E. eapply nth_error_In; eauto. }
      destruct (lalr_has rw kt Rt (q, length (body q), hd_error r) Er Hkt Hcomp) as [_ [Hrd _]].
      assert (Hcpl : is_complete (core_of (q, length (body q), hd_error r)) = true) by (unfold is_complete, core_of; simpl; apply Nat.eqb_refl).
      rewrite (Hact kt (hd_error r) _ (Hrd Hcpl Hnf)). cbn [fst snd].
      assert (Hsk : forall n, n = length pushed -> skipn n (pushed ++ Z.of_nat k :: sigma) = Z.of_nat k :: sigma).
      { intros n0 E0. subst n0. rewrite skipn_app, skipn_all, Nat.sub_diag. reflexivity. }
      match goal with |- context [skipn ?n0 (pushed ++ Z.of_nat k :: sigma)] => rewrite (Hsk n0 (eq_sym Hlen)) end. cbn [peek].
      assert (HB : In (head q) (nonterms G)).
      { destruct Hvalid as [[_ [V2 V3]] _]. apply nth_error_In in Hd.
        destruct Hp as [Hp|Hp]; [subst p; simpl in Hd; destruct Hd as [Hd|[]]; inversion Hd; exact V3|eauto]. }
      unfold goto_or_err. rewrite (goto_lookupL rw k R (head q) k' Er Et Hk HB Hst). reflexivity.
    - intros k R sigma p d la r out Hk Hit Hs Hr.
      destruct (M_member R _ Hit) as [I [HI [He [HitI HrI]]]].
      destruct (reach1_spelled G I HrI) as [l Hl]. destruct (Hl _ HitI) as [_ [Hle _]]. unfold core_of in Hle. cbn [fst snd] in Hle.
      assert (Ed : d = length (body p)).
      { apply (f_equal (@length _)) in Hs. rewrite skipn_length in Hs. simpl in Hs. lia. }
      exists [], out, k, R. simpl. subst d. repeat split; auto. apply reaches_refl.
    - intros X b u1 u2 Hg IH1 Hgs IH2 k R sigma p d la r out Hk Hit Hs Hr.
      apply skipn_cons_inv in Hs as [Hd Hs'].
      assert (Hc : compat G (skipn (S d) (body p)) la (u2 ++ r)) by (exists u2, r; rewrite Hs'; auto).
      destruct (IH1 k R sigma p d la (u2 ++ r) out Hk Hit Hd Hc) as [k1 [out1 [Hst1 Hr1]]].
      destruct (goto_stateL k R p d la X Hk Hit Hd) as [k1' [R1 [Hst1' [Hk1 Hit1]]]].
      assert (k1' = k1) by (apply Nat2Z.inj; congruence). subst k1'.
      destruct (IH2 k1 R1 (Z.of_nat k :: sigma) p (S d) la r out1 Hk1 Hit1 Hs' Hr)
        as [pushed [out2 [kt [Rt [Hr2 [Hlen [Hhd [Hkt Hcomp]]]]]]]].
      exists (pushed ++ [Z.of_nat k1]), out2, kt, Rt. repeat split; auto.
      + rewrite <- app_assoc. eapply reaches_trans; [exact Hr1|]. rewrite <- app_assoc. exact Hr2.
      + rewrite app_length. simpl. lia.
      + destruct pushed; simpl in *; auto.
  Qed.

  Theorem lalr_complete w : L G w -> exists f evs, parse f tbl w = Accepted evs.
  Proof.
    intros HL. destruct table_shapeL as [rw [Er [Hsmall [Hwf Et]]]].
    assert (Hgen : gen G' (Nt (start G)) w).
    { unfold L in HL. apply derives_aug in HL. apply derives_derivesN in HL as [n Hn].
      apply derivesN_gens in Hn. inversion Hn as [|X b u1 u2 Hg Hgs]; subst.
      inversion Hgs; subst. now rewrite app_nil_r. }
    pose proof (reps_nth_0 G fuel C HC) as H0. fold reps in H0.
    set (I0 := closure1 (c_nterms (ctx_of G)) (c_nl (ctx_of G)) (c_fe (ctx_of G)) (c_ps (ctx_of G)) [(aug_prod G, 0, None)]) in *.
    assert (HI0C : In I0 C) by (apply (reps_nth_C G fuel C HC 0 I0 H0)).
    assert (Hit0 : In (aug, 0, None) (M I0)).
    { apply merge_class_In. exists I0. split; auto. split; [apply same_core_refl|]. apply closure1_incl. now left. }
    assert (Hc0 : compat G (skipn 1 (body aug)) None []).
    { unfold compat. exists (@nil nat), (@nil nat). split; [reflexivity|]. split; constructor. }
    destruct (proj1 big_stepL _ _ Hgen 0 I0 [] aug 0 None [] [] H0 Hit0 eq_refl Hc0) as [k' [out' [Hst [n Hn]]]].
    destruct (goto_stateL 0 I0 aug 0 None (Nt (start G)) H0 Hit0 eq_refl) as [k'' [R'' [Hst' [Hk'' Hit'']]]].
    assert (k'' = k') by (apply Nat2Z.inj; congruence). subst k''.
    destruct (lalr_has rw k' R'' (aug, 1, None) Er Hk'' Hit'') as [_ [_ Hacc]].
    assert (Hfa : find_action (t_action tbl) (Z.of_nat k') None = Some Accept).
    { rewrite Et. cbn [t_action]. apply lookup_from_cells; auto; try (apply Hacc; reflexivity). }
    exists (n + 1), (rev out').
    change (parse (n + 1) tbl w) with (runc tbl (n + 1) ([0%Z], w, [])).
    rewrite runc_nsteps. rewrite app_nil_r in Hn. simpl Z.of_nat in Hn. rewrite Hn.
    rewrite runc_S. unfold step. cbn [peek hd_error]. rewrite Hfa. reflexivity.
  Qed.
End CompleteLALR.
