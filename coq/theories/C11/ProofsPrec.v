(** C11 — conflict resolution by precedence: what [resolveConflict] answers on the
    shift/reduce conflicts of the operator grammars, for every iteration order of the cell. *)
From Coq Require Import List ZArith Bool Arith Lia.
From Algo.Grammar Require Import CFG.
From Algo.C11 Require Import Model ModelPrec Proofs.
Import ListNotations.

Lemma precedence_from_assoc ls : forall i h k a,
  precedence_from i ls h = Some (k, a) -> i <= k /\ exists hs, nth_error ls (k - i) = Some (a, hs).
Proof.
  induction ls as [|[a' hs'] ls IH]; intros i h k a H; simpl in H; [discriminate|].
  match type of H with (if ?c then _ else _) = _ => destruct c end.
  - inversion H; subst. split; [lia|]. rewrite Nat.sub_diag. simpl. eauto.
  - apply IH in H as [Hle [hs Hn]]. split; [lia|]. exists hs.
    replace (k - i) with (S (k - S i)) by lia. exact Hn.
Qed.

Lemma precedence_same_level ls h1 h2 k a1 a2 :
  precedence ls h1 = Some (k, a1) -> precedence ls h2 = Some (k, a2) -> a1 = a2.
Proof.
  unfold precedence. intros H1 H2.
  apply precedence_from_assoc in H1 as [_ [hs1 E1]]. apply precedence_from_assoc in H2 as [_ [hs2 E2]].
  rewrite E1 in E2. now inversion E2.
Qed.

Lemma prod_eqb_refl p : prod_eqb p p = true.
Proof. unfold prod_eqb. now rewrite Nat.eqb_refl, str_eqb_refl. Qed.

Section PrecSR.
  Variable ls : levels.
  Variable o1 o2 : nat.     (* operator of the handle on the stack / lookahead operator *)
  Variable t : Z.
  Variable p : prod.
  Hypothesis Hp : first_terminal (body p) = Some o1.

  Definition sr_answer : option action :=
    match group_left ls o1 o2 with
    | Some true => Some (Reduce p)
    | Some false => Some (Shift t)
    | None => None
    end.

  Lemma handle_reduce : handle_of_action (Some o2) (Reduce p) = Some (HTerm (Some o1)).
  Proof. simpl. unfold handle_of_prod. now rewrite Hp. Qed.

  Lemma action_eqb_refl x : action_eqb x x = true.
  Proof. destruct x; simpl; auto using Z.eqb_refl, prod_eqb_refl. Qed.

  Lemma ohandle_eqb_refl h : ohandle_eqb h h = true.
  Proof.
    destruct h as [[[a|]|q]|]; simpl; auto using Nat.eqb_refl, prod_eqb_refl.
  Qed.

  Lemma compare_self x : compare ls x x = Some 0%Z.
  Proof. unfold compare, pair_eqb. now rewrite action_eqb_refl, ohandle_eqb_refl. Qed.

  Let hR : pair := (Reduce p, Some (HTerm (Some o1))).
  Let hS : pair := (Shift t, Some (HTerm (Some o2))).

  Lemma compare_RS :
    compare ls hR hS =
    match level_of_op ls o1, level_of_op ls o2 with
    | Some (k1, a1), Some (k2, _) =>
        if k1 <? k2 then Some 1%Z else if k2 <? k1 then Some (-1)%Z
        else match a1 with ANone => None | ALeft => Some 1%Z | ARight => Some (-1)%Z end
    | _, _ => None
    end.
  Proof.
    unfold compare, hR, hS, level_of_op. cbn [pair_eqb fst snd action_eqb andb is_reduce is_shift].
    destruct (precedence ls (Some (HTerm (Some o1)))) as [[k1 a1]|];
    destruct (precedence ls (Some (HTerm (Some o2)))) as [[k2 a2]|]; auto.
    all: try (destruct (k1 <? k2); auto; destruct (k2 <? k1); auto; destruct a1; reflexivity).
  Qed.

  Lemma compare_SR :
    compare ls hS hR =
    match level_of_op ls o2, level_of_op ls o1 with
    | Some (k2, a2), Some (k1, _) =>
        if k2 <? k1 then Some 1%Z else if k1 <? k2 then Some (-1)%Z
        else match a2 with ANone => None | ALeft => Some (-1)%Z | ARight => Some 1%Z end
    | _, _ => None
    end.
  Proof.
    unfold compare, hR, hS, level_of_op. cbn [pair_eqb fst snd action_eqb andb is_reduce is_shift].
    destruct (precedence ls (Some (HTerm (Some o2)))) as [[k2 a2]|];
    destruct (precedence ls (Some (HTerm (Some o1)))) as [[k1 a1]|]; auto.
    all: try (destruct (k2 <? k1); auto; destruct (k1 <? k2); auto; destruct a2; reflexivity).
  Qed.

  (** the shift/reduce conflict  ACTION[s, o2] = { shift t, reduce E -> E o1 E }  is resolved as the
      declaration prescribes, whichever action the iteration happens to visit first *)
  Theorem resolve_shift_reduce :
    resolve_conflict ls (Some o2) [Shift t; Reduce p] = sr_answer /\
    resolve_conflict ls (Some o2) [Reduce p; Shift t] = sr_answer.
  Proof.
    unfold resolve_conflict, sr_answer, group_left.
    cbn [map]. rewrite handle_reduce. cbn [handle_of_action].
    fold hR. fold hS. cbn [resolve_loop].
    rewrite !compare_self. cbn [Z.ltb Z.compare].
    rewrite compare_RS, compare_SR. unfold level_of_op.
    destruct (precedence ls (Some (HTerm (Some o1)))) as [[k1 a1]|] eqn:E1;
    destruct (precedence ls (Some (HTerm (Some o2)))) as [[k2 a2]|] eqn:E2; try (cbn; split; reflexivity).
    destruct (k1 <? k2) eqn:L12; destruct (k2 <? k1) eqn:L21; try (cbn; split; reflexivity).
    - apply Nat.ltb_lt in L12. apply Nat.ltb_lt in L21. lia.
    - apply Nat.ltb_ge in L12. apply Nat.ltb_ge in L21. assert (k1 = k2) by lia. subst k2.
      pose proof (precedence_same_level _ _ _ _ _ _ E1 E2). subst a2.
      destruct a1; cbn; split; reflexivity.
  Qed.

End PrecSR.
