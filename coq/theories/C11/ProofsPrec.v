(** C11 — conflict resolution by precedence: what [resolveConflict] answers on the
    shift/reduce conflicts of the operator grammars, for every iteration order of the cell. *)
From Coq Require Import List ZArith Bool Arith Lia.
From Algo.Grammar Require Import CFG.
From Algo.C11 Require Import Model ModelPrec Proofs.
Import ListNotations.

Lemma precedence_from_assoc ls : forall i h k a,
  precedence_from i ls h = Some (k, a) -> i <= k /\ exists hs, nth_error ls (k - i) = Some (a, hs).
Proof.
  induction ls as [|[a' hs'] ls IH]; intros i h k a H; simpl in H; [discriminate|].
  match type of H with (if ?c then _ else _) = _ => destruct c end.
  - inversion H; subst. split; [lia|]. rewrite Nat.sub_diag. simpl. eauto.
  - apply IH in H as [Hle [hs Hn]]. split; [lia|]. exists hs.
    replace (k - i) with (S (k - S i)) by lia. exact Hn.
Qed.

Lemma precedence_same_level ls h1 h2 k a1 a2 :
  precedence ls h1 = Some (k, a1) -> precedence ls h2 = Some (k, a2) -> a1 = a2.
Proof.
  unfold precedence. intros H1 H2.
  apply precedence_from_assoc in H1 as [_ [hs1 E1]]. apply precedence_from_assoc in H2 as [_ [hs2 E2]].
  rewrite E1 in E2. now inversion E2.
Qed.

Lemma prod_eqb_refl p : prod_eqb p p = true.
Proof. unfold prod_eqb. now rewrite Nat.eqb_refl, str_eqb_refl. Qed.

Section PrecSR.
  Variable ls : levels.
  Variable o1 o2 : nat.     (* operator of the handle on the stack / lookahead operator *)
  Variable t : Z.
  Variable p : prod.
  Hypothesis Hp : first_terminal (body p) = Some o1.

  Definition sr_answer : option action :=
    match group_left ls o1 o2 with
    | Some true => Some (Reduce p)
    | Some false => Some (Shift t)
    | None => None
    end.

  Lemma handle_reduce : handle_of_action (Some o2) (Reduce p) = Some (HTerm (Some o1)).
  Proof. simpl. unfold handle_of_prod. now rewrite Hp. Qed.

  Lemma action_eqb_refl x : action_eqb x x = true.
  Proof. destruct x; simpl; auto using Z.eqb_refl, prod_eqb_refl. Qed.

  Lemma ohandle_eqb_refl h : ohandle_eqb h h = true.
  Proof.
    destruct h as [[[a|]|q]|]; simpl; auto using Nat.eqb_refl, prod_eqb_refl.
  Qed.

  Lemma compare_self x : compare ls x x = Some 0%Z.
  Proof. unfold compare, pair_eqb. now rewrite action_eqb_refl, ohandle_eqb_refl. Qed.

  Let hR : pair := (Reduce p, Some (HTerm (Some o1))).
  Let hS : pair := (Shift t, Some (HTerm (Some o2))).

  Lemma compare_RS :
    compare ls hR hS =
    match level_of_op ls o1, level_of_op ls o2 with
    | Some (k1, a1), Some (k2, _) =>
        if k1 <? k2 then Some 1%Z else if k2 <? k1 then Some (-1)%Z
        else match a1 with ANone => None | ALeft => Some 1%Z | ARight => Some (-1)%Z end
    | _, _ => None
    end.
  Proof.
    unfold compare, hR, hS, level_of_op. cbn [pair_eqb fst snd action_eqb andb is_reduce is_shift].
    destruct (precedence ls (Some (HTerm (Some o1)))) as [[k1 a1]|];
    destruct (precedence ls (Some (HTerm (Some o2)))) as [[k2 a2]|]; auto.
    all: try (destruct (k1 <? k2); auto; destruct (k2 <? k1); auto; destruct a1; reflexivity).
  Qed.

  Lemma compare_SR :
    compare ls hS hR =
    match level_of_op ls o2, level_of_op ls o1 with
    | Some (k2, a2), Some (k1, _) =>
        if k2 <? k1 then Some 1%Z else if k1 <? k2 then Some (-1)%Z
        else match a2 with ANone => None | ALeft => Some (-1)%Z | ARight => Some 1%Z end
    | _, _ => None
    end.
  Proof.
    unfold compare, hR, hS, level_of_op. cbn [pair_eqb fst snd action_eqb andb is_reduce is_shift].
    destruct (precedence ls (Some (HTerm (Some o2)))) as [[k2 a2]|];
    destruct (precedence ls (Some (HTerm (Some o1)))) as [[k1 a1]|]; auto.
    all: try (destruct (k2 <? k1); auto; destruct (k1 <? k2); auto; destruct a2; reflexivity).
  Qed.

  (** the shift/reduce conflict  ACTION[s, o2] = { shift t, reduce E -> E o1 E }  is resolved as the
      declaration prescribes, whichever action the iteration happens to visit first *)
  Theorem resolve_shift_reduce :
    resolve_conflict ls (Some o2) [Shift t; Reduce p] = sr_answer /\
    resolve_conflict ls (Some o2) [Reduce p; Shift t] = sr_answer.
  Proof.
    unfold resolve_conflict, sr_answer, group_left.
    cbn [map]. rewrite handle_reduce. cbn [handle_of_action].
    fold hR. fold hS. cbn [resolve_loop].
    rewrite !compare_self. cbn [Z.ltb Z.compare].
    rewrite compare_RS, compare_SR. unfold level_of_op.
    destruct (precedence ls (Some (HTerm (Some o1)))) as [[k1 a1]|] eqn:E1;
    destruct (precedence ls (Some (HTerm (Some o2)))) as [[k2 a2]|] eqn:E2; try (cbn; split; reflexivity).
    destruct (k1 <? k2) eqn:L12; destruct (k2 <? k1) eqn:L21; try (cbn; split; reflexivity).
    - apply Nat.ltb_lt in L12. apply Nat.ltb_lt in L21. lia.
    - apply Nat.ltb_ge in L12. apply Nat.ltb_ge in L21. assert (k1 = k2) by lia. subst k2.
      pose proof (precedence_same_level _ _ _ _ _ _ E1 E2). subst a2.
      destruct a1; cbn; split; reflexivity.
  Qed.

End PrecSR.

(** ** Cells with any number of actions.

    [resolveConflict] keeps a running maximum w.r.t. [Compare].  When every action of the cell has
    a declared handle and different actions lie on different levels, [Compare] is a strict total
    order on the cell, no comparison fails, and the loop returns the action on the highest level
    (smallest index) — for every order in which the cell is enumerated. *)

Lemma handle_eqb_eq h k : handle_eqb h k = true -> h = k.
Proof.
  destruct h as [a|p], k as [b|q]; simpl; intros H; try discriminate.
  - apply look_eqb_eq in H. now subst.
  - apply prod_eqb_eq in H. now subst.
Qed.

Lemma ohandle_eqb_eq h k : ohandle_eqb h k = true -> h = k.
Proof.
  destruct h, k; simpl; intros H; try discriminate; auto. apply handle_eqb_eq in H. now subst.
Qed.

Section Many.
  Variable ls : levels.

  (** the level of a pair, when its handle is declared *)
  Definition plevel (p : pair) : option nat :=
    match precedence ls (snd p) with Some (k, _) => Some k | None => None end.

  Lemma compare_levels l r kl kr :
    plevel l = Some kl -> plevel r = Some kr -> kl <> kr ->
    compare ls l r = Some (if kl <? kr then 1%Z else (-1)%Z).
  Proof.
    unfold plevel, compare. intros Hl Hr Hne.
    destruct (pair_eqb l r) eqn:E.
    - exfalso. unfold pair_eqb in E. apply andb_true_iff in E as [_ E]. apply ohandle_eqb_eq in E.
      rewrite E in Hl. rewrite Hl in Hr. inversion Hr. contradiction.
    - destruct (precedence ls (snd l)) as [[k1 a1]|]; [|discriminate].
      destruct (precedence ls (snd r)) as [[k2 a2]|]; [|discriminate].
      inversion Hl; inversion Hr; subst.
      destruct (kl <? kr) eqn:L1; [reflexivity|].
      destruct (kr <? kl) eqn:L2; [reflexivity|].
      apply Nat.ltb_ge in L1. apply Nat.ltb_ge in L2. lia.
  Qed.

  Lemma pair_eqb_refl p : pair_eqb p p = true.
  Proof.
    unfold pair_eqb. destruct p as [x h]. simpl.
    assert (Ha : action_eqb x x = true) by (destruct x; simpl; auto using Z.eqb_refl, prod_eqb_refl).
    assert (Hh : ohandle_eqb h h = true).
    { destruct h as [[[a|]|q]|]; simpl; auto using Nat.eqb_refl, prod_eqb_refl. }
    now rewrite Ha, Hh.
  Qed.

  Lemma compare_refl p : compare ls p p = Some 0%Z.
  Proof. unfold compare. now rewrite pair_eqb_refl. Qed.

  (** declared, and injective levels, on a list of pairs *)
  Definition ranked (l : list pair) : Prop :=
    (forall p, In p l -> exists k, plevel p = Some k) /\
    (forall p q, In p l -> In q l -> plevel p = plevel q -> p = q).

  Lemma resolve_loop_min : forall ps mx, ranked (mx :: ps) ->
    exists m km, resolve_loop ls ps mx = Some m /\ In m (mx :: ps) /\ plevel m = Some km /\
      forall p kp, In p (mx :: ps) -> plevel p = Some kp -> km <= kp.
  Proof.
    induction ps as [|p ps IH]; intros mx [Hd Hinj].
    - destruct (Hd mx (or_introl eq_refl)) as [k Hk]. exists mx, k. simpl. repeat split; auto.
      intros q kq [Hq|[]] Hkq. subst q. rewrite Hk in Hkq. inversion Hkq. lia.
    - simpl. destruct (Hd mx (or_introl eq_refl)) as [km Hkm].
      destruct (Hd p (or_intror (or_introl eq_refl))) as [kp Hkp].
      destruct (Nat.eq_dec kp km) as [E|E].
      + (* same level: the same pair *)
        assert (Epm : p = mx) by (apply Hinj; simpl; auto; congruence). subst p.
        rewrite compare_refl. simpl.
        destruct (IH mx) as [m [k [H1 [H2 [H3 H4]]]]].
        { split; [intros q Hq; apply Hd; destruct Hq; simpl; auto|intros q r Hq Hr; apply Hinj; destruct Hq, Hr; simpl; auto]. }
        exists m, k. split; [exact H1|]. split; [destruct H2; simpl; auto|]. split; [exact H3|].
        intros q kq [Hq|[Hq|Hq]] Hkq; apply (H4 q kq); simpl; auto.
      + rewrite (compare_levels _ _ _ _ Hkp Hkm E).
        set (nm := if (0 <? (if (kp <? km)%nat then 1 else -1))%Z then p else mx).
        assert (Hnm : (nm = p /\ kp < km) \/ (nm = mx /\ km < kp)).
        { unfold nm. destruct (kp <? km) eqn:L; simpl.
          - left. apply Nat.ltb_lt in L. auto.
          - right. apply Nat.ltb_ge in L. split; auto. lia. }
        destruct (IH nm) as [m [k [H1 [H2 [H3 H4]]]]].
        { split.
          - intros q [Hq|Hq]; [|apply Hd; simpl; auto]. subst q. destruct Hnm as [[-> _]|[-> _]]; apply Hd; simpl; auto.
          - intros q r Hq Hr. apply Hinj.
            + destruct Hq as [Hq|Hq]; [subst q; destruct Hnm as [[-> _]|[-> _]]; simpl; auto|simpl; auto].
            + destruct Hr as [Hr|Hr]; [subst r; destruct Hnm as [[-> _]|[-> _]]; simpl; auto|simpl; auto]. }
        exists m, k. split; [exact H1|]. split; [|split; [exact H3|]].
        * destruct H2 as [H2|H2]; [subst m; destruct Hnm as [[-> _]|[-> _]]; simpl; auto|simpl; auto].
        * intros q kq Hq Hkq.
          assert (Hn : exists kn, plevel nm = Some kn /\ kn <= km /\ kn <= kp).
          { destruct Hnm as [[-> L]|[-> L]]; [exists kp|exists km]; repeat split; auto; lia. }
          destruct Hn as [kn [Hkn [L1 L2]]].
          pose proof (H4 nm kn (or_introl eq_refl) Hkn) as Hmin.
          destruct Hq as [Hq|[Hq|Hq]].
          -- subst q. rewrite Hkm in Hkq. inversion Hkq; subst. lia.
          -- subst q. rewrite Hkp in Hkq. inversion Hkq; subst. lia.
          -- apply (H4 q kq); simpl; auto.
  Qed.

  (** the level of an action of the cell ACTION[s,a] *)
  Definition alevel (a : look) (x : action) : option nat := plevel (x, handle_of_action a x).

  Definition ranked_cell (a : look) (l : list action) : Prop :=
    (forall x, In x l -> exists k, alevel a x = Some k) /\
    (forall x y, In x l -> In y l -> alevel a x = alevel a y -> x = y).

  Theorem resolve_conflict_max a l : l <> [] -> ranked_cell a l ->
    exists x k, resolve_conflict ls a l = Some x /\ In x l /\ alevel a x = Some k /\
      forall y ky, In y l -> alevel a y = Some ky -> k <= ky.
  Proof.
    intros Hne [Hd Hinj]. unfold resolve_conflict.
    destruct l as [|x0 l]; [congruence|]. cbn [map].
    set (f := fun x => (x, handle_of_action a x)).
    assert (Hr : ranked (f x0 :: map f (x0 :: l))).
    { split.
      - intros p Hp. assert (Hp' : In p (map f (x0 :: l))) by (destruct Hp as [Hp|Hp]; [subst; now left|exact Hp]).
        apply in_map_iff in Hp' as [x [E Hx]]. subst p. apply (Hd x Hx).
      - intros p q Hp Hq E.
        assert (Hp' : In p (map f (x0 :: l))) by (destruct Hp as [Hp|Hp]; [subst; now left|exact Hp]).
        assert (Hq' : In q (map f (x0 :: l))) by (destruct Hq as [Hq|Hq]; [subst; now left|exact Hq]).
        apply in_map_iff in Hp' as [x [Ex Hx]]. apply in_map_iff in Hq' as [y [Ey Hy]]. subst p q.
        f_equal. unfold f. rewrite (Hinj x y Hx Hy E). reflexivity. }
    destruct (resolve_loop_min _ _ Hr) as [m [k [H1 [H2 [H3 H4]]]]].
    change ((x0, handle_of_action a x0) :: map f l) with (map f (x0 :: l)).
    change (x0, handle_of_action a x0) with (f x0). rewrite H1.
    assert (H2' : In m (map f (x0 :: l))) by (destruct H2 as [H2|H2]; [subst; now left|exact H2]).
    apply in_map_iff in H2' as [x [Ex Hx]]. subst m.
    exists x, k. repeat split; auto.
    intros y ky Hy Hky. apply (H4 (f y) ky); [right; now apply in_map|exact Hky].
  Qed.

  (** hence the answer does not depend on the order (or multiplicity) in which the cell is enumerated *)
  Corollary resolve_conflict_order_independent a l l' :
    l <> [] -> ranked_cell a l -> (forall x, In x l <-> In x l') ->
    resolve_conflict ls a l = resolve_conflict ls a l'.
  Proof.
    intros Hne Hr Hsame.
    assert (Hne' : l' <> []).
    { destruct l as [|x l]; [congruence|]. intros E. subst l'. exact (proj1 (Hsame x) (or_introl eq_refl)). }
    assert (Hr' : ranked_cell a l').
    { destruct Hr as [Hd Hinj]. split.
      - intros x Hx. apply Hd. now apply Hsame.
      - intros x y Hx Hy. apply Hinj; now apply Hsame. }
    destruct (resolve_conflict_max a l Hne Hr) as [x [k [E1 [Hx [Hk Hmin]]]]].
    destruct (resolve_conflict_max a l' Hne' Hr') as [x' [k' [E1' [Hx' [Hk' Hmin']]]]].
    rewrite E1, E1'. f_equal. destruct Hr as [_ Hinj]. apply Hinj; auto; [now apply Hsame|].
    pose proof (Hmin x' k' (proj2 (Hsame x') Hx') Hk'). pose proof (Hmin' x k (proj1 (Hsame x) Hx) Hk).
    rewrite Hk, Hk'. f_equal. lia.
  Qed.
End Many.
