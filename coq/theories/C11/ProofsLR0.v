(** C11 — facts about the modelled LR(0) construction (CLOSURE, GOTO, Canonical):
    CLOSURE is extensive and only adds items [B -> . gamma] of productions of the grammar;
    the kernel of GOTO(I, X) consists of the items of I advanced over X; and every state of
    the canonical collection has an access string [l] such that the part before the dot of
    each of its items is a suffix of [l] — the invariant that makes the labels of [table_ok]
    exist for SLR tables. *)
From Coq Require Import List ZArith Bool Arith Lia.
From Algo.Grammar Require Import CFG.
From Algo.C11 Require Import Model ModelPrec ModelSLR Proofs.
Import ListNotations.

Lemma item_eqb_eq i j : item_eqb i j = true -> i = j.
Proof.
  destruct i as [p d], j as [q e]. unfold item_eqb. simpl. intros H.
  apply andb_true_iff in H as [H1 H2]. apply prod_eqb_eq in H1. apply Nat.eqb_eq in H2. now subst.
Qed.

Lemma mem_item_In i I : mem_item i I = true -> In i I.
Proof.
  unfold mem_item. intros H. apply existsb_exists in H as [j [Hj He]].
  apply item_eqb_eq in He. now subst.
Qed.

Lemma add_item_In x i I : In x (add_item i I) <-> In x I \/ (x = i /\ mem_item i I = false).
Proof.
  unfold add_item. destruct (mem_item i I) eqn:E.
  - split; [auto|]. intros [H|[_ H]]; [auto|discriminate].
  - rewrite in_app_iff. simpl. split.
    + intros [H|[H|[]]]; auto.
    + intros [H|[H _]]; auto.
Qed.

Lemma add_item_incl i I : incl I (add_item i I).
Proof. intros x Hx. apply add_item_In. now left. Qed.

(** ** CLOSURE *)

Section Closure.
  Variable ps : list prod.

  (** items that CLOSURE may add *)
  Definition fresh_item (x : item) : Prop := snd x = 0 /\ In (fst x) ps.

  Lemma inner_fold B : forall l J x,
    (forall p, In p l -> In p ps) ->
    In x (fold_left (fun J' p => if Nat.eqb (head p) B then add_item (p, 0) J' else J') l J) ->
    In x J \/ fresh_item x.
  Proof.
    induction l as [|p l IH]; intros J x Hl H; simpl in H; auto.
    apply IH in H; [|intros q Hq; apply Hl; now right].
    destruct H as [H|H]; auto.
    destruct (Nat.eqb (head p) B); auto.
    apply add_item_In in H as [H|[H _]]; auto.
    right. subst x. split; [reflexivity|apply Hl; now left].
  Qed.

  Lemma inner_fold_incl B : forall l J,
    incl J (fold_left (fun J' p => if Nat.eqb (head p) B then add_item (p, 0) J' else J') l J).
  Proof.
    induction l as [|p l IH]; intros J x Hx; simpl; auto.
    apply IH. destruct (Nat.eqb (head p) B); auto. now apply add_item_incl.
  Qed.

  Lemma closure_pass_items I x : In x (closure_pass ps I) -> In x I \/ fresh_item x.
  Proof.
    unfold closure_pass.
    assert (Hgen : forall l J, In x (fold_left (fun J i =>
       match dot_symbol i with
       | Some (Nt B) => fold_left (fun J' p => if Nat.eqb (head p) B then add_item (p, 0) J' else J') ps J
       | _ => J end) l J) -> In x J \/ fresh_item x).
    { induction l as [|i l IH]; intros J H; simpl in H; auto.
      apply IH in H as [H|H]; auto.
      destruct (dot_symbol i) as [[a|B]|]; auto.
      apply inner_fold in H; auto. }
    apply Hgen.
  Qed.

  Lemma closure_pass_incl I : incl I (closure_pass ps I).
  Proof.
    unfold closure_pass.
    assert (Hgen : forall l J, incl J (fold_left (fun J i =>
       match dot_symbol i with
       | Some (Nt B) => fold_left (fun J' p => if Nat.eqb (head p) B then add_item (p, 0) J' else J') ps J
       | _ => J end) l J)).
    { induction l as [|i l IH]; intros J x Hx; simpl; auto.
      apply IH. destruct (dot_symbol i) as [[a|B]|]; auto. now apply inner_fold_incl. }
    apply Hgen.
  Qed.

  Lemma closure_iter_items fuel : forall I x, In x (closure_iter fuel ps I) -> In x I \/ fresh_item x.
  Proof.
    induction fuel as [|f IH]; intros I x H; simpl in H; auto.
    destruct (Nat.eqb (length (closure_pass ps I)) (length I)); auto.
    apply IH in H as [H|H]; auto. now apply closure_pass_items.
  Qed.

  Lemma closure_iter_incl fuel : forall I, incl I (closure_iter fuel ps I).
  Proof.
    induction fuel as [|f IH]; intros I x Hx; simpl; auto.
    destruct (Nat.eqb (length (closure_pass ps I)) (length I)); auto.
    apply IH. now apply closure_pass_incl.
  Qed.

  (** CLOSURE(I) contains I, and everything else in it is an item [B -> . gamma] of the grammar *)
  Theorem closure_items I x : In x (closure ps I) -> In x I \/ fresh_item x.
  Proof. apply closure_iter_items. Qed.

  Theorem closure_incl I : incl I (closure ps I).
  Proof. apply closure_iter_incl. Qed.

  (** ** GOTO *)

  Lemma goto_kernel_items X : forall I x, In x (goto_kernel I X) ->
    exists d, snd x = S d /\ In (fst x, d) I /\ nth_error (body (fst x)) d = Some X.
  Proof.
    unfold goto_kernel. intros I.
    assert (Hgen : forall l J x,
      In x (fold_left (fun J i => if sym_eq_opt (dot_symbol i) X then add_item (fst i, S (snd i)) J else J) l J) ->
      In x J \/ exists d, snd x = S d /\ In (fst x, d) l /\ nth_error (body (fst x)) d = Some X).
    { induction l as [|i l IH]; intros J x H; simpl in H; auto.
      apply IH in H as [H|[d [H1 [H2 H3]]]].
      - destruct (sym_eq_opt (dot_symbol i) X) eqn:E; auto.
        apply add_item_In in H as [H|[H _]]; auto.
        right. subst x. exists (snd i). simpl. split; [reflexivity|]. split.
        + left. now destruct i.
        + unfold sym_eq_opt, dot_symbol in E. destruct (nth_error (body (fst i)) (snd i)) as [Y|]; [|discriminate].
          apply sym_eqb_eq in E. now subst.
      - right. exists d. repeat split; auto. now right. }
    intros x H. apply Hgen in H as [[]|H]. exact H.
  Qed.

  (** ** The access-string invariant *)

  Definition prefix_of (x : item) : list sym := firstn (snd x) (body (fst x)).

  (** every item of [I] is an item of the grammar whose part before the dot is a suffix of [l] *)
  Definition spelled (l : list sym) (I : list item) : Prop :=
    forall x, In x I -> In (fst x) ps /\ snd x <= length (body (fst x)) /\ exists pre, l = pre ++ prefix_of x.

  Lemma spelled_closure l I : spelled l I -> spelled l (closure ps I).
  Proof.
    intros H x Hx. apply closure_items in Hx as [Hx|[H0 Hp]]; auto.
    split; [exact Hp|]. split; [lia|]. exists l. unfold prefix_of. rewrite H0. simpl. now rewrite app_nil_r.
  Qed.

  Lemma firstn_S_nth {A} (l : list A) d X : nth_error l d = Some X -> firstn (S d) l = firstn d l ++ [X].
  Proof.
    revert l. induction d as [|d IH]; intros [|y l] H; simpl in H; try discriminate.
    - inversion H; subst. reflexivity.
    - simpl. f_equal. now apply IH.
  Qed.

  Lemma spelled_goto l I X : spelled l I -> spelled (l ++ [X]) (goto ps I X).
  Proof.
    intros H. unfold goto. destruct (goto_kernel I X) as [|k K] eqn:E.
    - intros x [].
    - apply spelled_closure. rewrite <- E. intros x Hx.
      apply goto_kernel_items in Hx as [d [Hd [Hin Hn]]].
      destruct (H _ Hin) as [Hp [Hle [pre Hl]]]. simpl in Hp, Hle, Hl.
      split; [exact Hp|]. split.
      + rewrite Hd. apply nth_error_Some. simpl. congruence.
      + exists pre. unfold prefix_of in *. simpl in Hl. rewrite Hd, (firstn_S_nth _ _ _ Hn), Hl.
        now rewrite app_assoc.
  Qed.

  Definition has_access_string (I : list item) : Prop := exists l, spelled l I.

  Lemma canonical_pass_access syms C :
    Forall has_access_string C -> Forall has_access_string (canonical_pass ps syms C).
  Proof.
    intros HC. unfold canonical_pass.
    assert (Hgen : forall l C', Forall has_access_string C' -> (forall I, In I l -> has_access_string I) ->
      Forall has_access_string (fold_left (fun C' I =>
        fold_left (fun C'' X =>
          match goto ps I X with
          | [] => C''
          | J => match index_of J C'' 0 with Some _ => C'' | None => C'' ++ [J] end
          end) syms C') l C')).
    { induction l as [|I l IH]; intros C' HC' Hl; simpl; auto.
      apply IH; [|intros J HJ; apply Hl; now right].
      destruct (Hl I (or_introl eq_refl)) as [lI HI].
      clear IH. revert C' HC'. induction syms as [|X syms IHs]; intros C' HC'; simpl; auto.
      apply IHs.
      destruct (goto ps I X) as [|j J] eqn:E; auto.
      destruct (index_of (j :: J) C' 0); auto.
      apply Forall_app. split; auto. constructor; [|constructor].
      exists (lI ++ [X]). rewrite <- E. now apply spelled_goto. }
    apply Hgen; auto. intros I HI. rewrite Forall_forall in HC. now apply HC.
  Qed.

  Lemma canonical_iter_access fuel syms : forall C C',
    Forall has_access_string C -> canonical_iter fuel ps syms C = Some C' -> Forall has_access_string C'.
  Proof.
    induction fuel as [|f IH]; intros C C' HC H; simpl in H; [discriminate|].
    destruct (Nat.eqb (length (canonical_pass ps syms C)) (length C)).
    - inversion H; now subst.
    - eapply IH; [|exact H]. now apply canonical_pass_access.
  Qed.
End Closure.

(** every state of the canonical LR(0) collection of the augmented grammar has an access
    string: a string [l] of grammar symbols such that for each item [A -> alpha . beta] of the
    state, [A -> alpha beta] is a production of the augmented grammar and [alpha] is a suffix of [l].
    Hence, in particular, the body of every complete item — every reduction the SLR table enters
    for the state — is a suffix of [l], which is what [table_ok] demands of a label. *)
Theorem canonical_states_have_access_strings fuel G C :
  canonical fuel G = Some C ->
  Forall (has_access_string (prods (augment G))) C.
Proof.
  unfold canonical. intros H. eapply canonical_iter_access; [|exact H].
  constructor; [|constructor]. exists []. apply spelled_closure.
  intros x [Hx|[]]. subst x. simpl. split; [now left|]. split; [lia|]. exists []. reflexivity.
Qed.
