(** C11 — the operator grammars E -> E op E | ( E ) | id with at most three operators:
    for every declaration of precedence levels and associativities the SLR parser built by
    the modelled construction + ResolveConflicts groups [id o1 id o2 id] as declared.
    Finite case analysis, decided by [vm_compute] on the model. *)
From Coq Require Import List ZArith Bool Arith Lia.
From Algo.Grammar Require Import CFG.
From Algo.C11 Require Import Model ModelPrec ModelSLR Proofs.
Import ListNotations.

(** symbols as the harness names them: E = 4, i = 8, l = 11, r = 17, operators p = 15, q = 16, t = 19 *)
Definition nE : nat := 4.
Definition tI : nat := 8.
Definition tL : nat := 11.
Definition tR : nat := 17.

Definition op_prod (o : nat) : prod := mkProd nE [Nt nE; Tm o; Nt nE].
Definition id_prod : prod := mkProd nE [Tm tI].

Definition expr_grammar (ops : list nat) : gram :=
  mkGrammar (tI :: tL :: tR :: ops) [nE]
            (map op_prod ops ++ [mkProd nE [Tm tL; Nt nE; Tm tR]; id_prod]) nE.

(** ** every declaration: ordered partitions of the operators into levels, times associativities *)

(** all ways of splitting a list into a non-empty chosen sublist and the rest *)
Fixpoint splits (l : list nat) : list (list nat * list nat) :=
  match l with
  | [] => [([], [])]
  | x :: r => flat_map (fun cr => [(x :: fst cr, snd cr); (fst cr, x :: snd cr)]) (splits r)
  end.

Fixpoint partitions (fuel : nat) (l : list nat) : list (list (list nat)) :=
  match fuel with
  | O => []
  | S f =>
      match l with
      | [] => [[]]
      | _ => flat_map (fun cr =>
               match fst cr with
               | [] => []
               | lv => map (cons lv) (partitions f (snd cr))
               end) (splits l)
      end
  end.

Fixpoint with_assocs (p : list (list nat)) : list levels :=
  match p with
  | [] => [[]]
  | lv :: r =>
      flat_map (fun rest =>
        map (fun a => (a, map (fun o => HTerm (Some o)) lv) :: rest) [ALeft; ARight; ANone]) (with_assocs r)
  end.

Definition assignments (ops : list nat) : list levels :=
  flat_map with_assocs (partitions (S (length ops)) ops).

(** ** expected trees *)

Definition leaf_id : tree := Node id_prod [Leaf (Some tI)].

Definition grouped (left : bool) (o1 o2 : nat) : tree :=
  if left
  then Node (op_prod o2) [Node (op_prod o1) [leaf_id; Leaf (Some o1); leaf_id]; Leaf (Some o2); leaf_id]
  else Node (op_prod o1) [leaf_id; Leaf (Some o1); Node (op_prod o2) [leaf_id; Leaf (Some o2); leaf_id]].

Fixpoint tree_eqb (t u : tree) : bool :=
  match t, u with
  | Leaf a, Leaf b => look_eqb a b
  | TNil, TNil => true
  | Node p c, Node q d =>
      prod_eqb p q &&
      (fix go (c d : list tree) : bool :=
         match c, d with
         | [], [] => true
         | x :: c', y :: d' => tree_eqb x y && go c' d'
         | _, _ => false
         end) c d
  | _, _ => false
  end.

Fixpoint tree_eqb_eq (t : tree) : forall u, tree_eqb t u = true -> t = u.
Proof.
  destruct t as [a|p c|]; intros [b|q d|]; simpl; intros H; try discriminate; try reflexivity.
  - apply look_eqb_eq in H. now subst.
  - apply andb_true_iff in H as [H1 H2]. apply prod_eqb_eq in H1. subst q. f_equal.
    revert d H2. induction c as [|x c IH]; intros [|y d] H2; try discriminate; try reflexivity.
    apply andb_true_iff in H2 as [H2 H3]. f_equal; [now apply tree_eqb_eq|now apply IH].
Qed.

(** ** the check, per declaration *)

Definition slr_fuel : nat := 60.
Definition run_fuel : nat := 200.

Definition pairs (ops : list nat) : list (nat * nat) := flat_map (fun a => map (fun b => (a, b)) ops) ops.

Definition check_pair (tbl : table) (ls : levels) (o : nat * nat) : bool :=
  match group_left ls (fst o) (snd o), parse run_fuel tbl [tI; fst o; tI; snd o; tI] with
  | Some b, Accepted evs => tree_eqb (ast_of evs) (grouped b (fst o) (snd o))
  | _, _ => false
  end.

Definition check_decl (ops : list nat) (ls : levels) : bool :=
  match build_slr slr_fuel (expr_grammar ops) ls with
  | BuiltOk tbl => forallb (check_pair tbl ls) (pairs ops)
  | BuiltConflict _ => existsb (fun o => match group_left ls (fst o) (snd o) with None => true | Some _ => false end) (pairs ops)
  | _ => false
  end.

Definition op_sets : list (list nat) := [[15]; [15; 16]; [15; 16; 19]].

Lemma all_declarations_checked :
  forallb (fun ops => forallb (check_decl ops) (assignments ops)) op_sets = true.
Proof. vm_compute. reflexivity. Qed.

(** number of declarations covered: 3 + 21 + 219 *)
Lemma assignments_count : map (fun ops => length (assignments ops)) op_sets = [3; 21; 219].
Proof. vm_compute. reflexivity. Qed.

Theorem prec_grouping ops ls o1 o2 :
  In ops op_sets -> In ls (assignments ops) -> In o1 ops -> In o2 ops ->
  match build_slr slr_fuel (expr_grammar ops) ls with
  | BuiltOk tbl =>
      exists b evs, group_left ls o1 o2 = Some b /\
        parse run_fuel tbl [tI; o1; tI; o2; tI] = Accepted evs /\
        ast_of evs = grouped b o1 o2
  | BuiltConflict _ => exists a b, In a ops /\ In b ops /\ group_left ls a b = None
  | _ => False
  end.
Proof.
  intros Hops Hls H1 H2.
  pose proof all_declarations_checked as Hall. rewrite forallb_forall in Hall.
  specialize (Hall _ Hops). rewrite forallb_forall in Hall. specialize (Hall _ Hls).
  unfold check_decl in Hall.
  destruct (build_slr slr_fuel (expr_grammar ops) ls) as [tbl|cells| |]; try discriminate.
  - rewrite forallb_forall in Hall.
    assert (Hin : In (o1, o2) (pairs ops)).
    { unfold pairs. apply in_flat_map. exists o1. split; auto. apply in_map_iff. eauto. }
    specialize (Hall _ Hin). unfold check_pair in Hall. simpl fst in Hall. simpl snd in Hall.
    destruct (group_left ls o1 o2) as [b|]; [|discriminate].
    destruct (parse run_fuel tbl [tI; o1; tI; o2; tI]) as [evs| |]; try discriminate.
    exists b, evs. repeat split; auto. now apply tree_eqb_eq.
  - apply existsb_exists in Hall as [[a b] [Hin Hn]].
    unfold pairs in Hin. apply in_flat_map in Hin as [a' [Ha Hin]].
    apply in_map_iff in Hin as [b' [E Hb]]. inversion E; subst a' b'.
    exists a, b. repeat split; auto. simpl in Hn. destruct (group_left ls a b); [discriminate|reflexivity].
Qed.
