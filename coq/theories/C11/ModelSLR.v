(** C11 — model of the LR(0) automaton (parser/lr/automaton.go: CLOSURE, GOTO, Canonical for
    LR(0) items over the augmented grammar, parser/lr/grammar.go: augment) and of the SLR(1)
    table construction (parser/lr/simple/parsing_table.go) including ResolveConflicts.
    No proofs in this file.

    Differences in representation, not in behaviour: item sets are duplicate-free lists;
    states are numbered in order of discovery (the Go code sorts the collection with
    cmpItemSet; the tie compares tables up to that renumbering / behaviourally); FIRST and
    FOLLOW are computed here by plain round-robin fixpoints. *)
From Coq Require Import List ZArith Bool Arith.
From Algo.Grammar Require Import CFG.
From Algo.C11 Require Import Model ModelPrec.
Import ListNotations.

(** ** Augmentation: a fresh start symbol S' and the production S' -> S *)

Definition sym_nts (b : list sym) : list nat :=
  flat_map (fun x => match x with Nt A => [A] | Tm _ => [] end) b.

Definition all_nts (G : gram) : list nat :=
  start G :: nonterms G ++ flat_map (fun p => head p :: sym_nts (body p)) (prods G).

Definition fresh_nt (G : gram) : nat := S (list_max (all_nts G)).

Definition aug_prod (G : gram) : prod := mkProd (fresh_nt G) [Nt (start G)].

Definition augment (G : gram) : gram :=
  mkGrammar (terms G) (fresh_nt G :: nonterms G) (aug_prod G :: prods G) (fresh_nt G).

(** ** LR(0) items *)

Definition item := (prod * nat)%type.

Definition item_eqb (i j : item) : bool := prod_eqb (fst i) (fst j) && Nat.eqb (snd i) (snd j).

Definition mem_item (i : item) (I : list item) : bool := existsb (item_eqb i) I.

Definition add_item (i : item) (I : list item) : list item := if mem_item i I then I else I ++ [i].

Definition dot_symbol (i : item) : option sym := nth_error (body (fst i)) (snd i).

Definition is_complete (i : item) : bool := Nat.eqb (snd i) (length (body (fst i))).

(** one pass of CLOSURE: for every item A -> alpha . B beta add all B -> . gamma *)
Definition closure_pass (ps : list prod) (I : list item) : list item :=
  fold_left (fun J i =>
    match dot_symbol i with
    | Some (Nt B) =>
        fold_left (fun J' p => if Nat.eqb (head p) B then add_item (p, 0) J' else J') ps J
    | _ => J
    end) I I.

Fixpoint closure_iter (fuel : nat) (ps : list prod) (I : list item) : list item :=
  match fuel with
  | O => I
  | S f =>
      let J := closure_pass ps I in
      if Nat.eqb (length J) (length I) then I else closure_iter f ps J
  end.

(** every pass that changes something adds a dot-0 item, of which there are |ps| *)
Definition closure (ps : list prod) (I : list item) : list item := closure_iter (S (length ps)) ps I.

Definition sym_eq_opt (o : option sym) (X : sym) : bool :=
  match o with Some Y => sym_eqb Y X | None => false end.

(** kernel of GOTO(I, X) *)
Definition goto_kernel (I : list item) (X : sym) : list item :=
  fold_left (fun J i => if sym_eq_opt (dot_symbol i) X then add_item (fst i, S (snd i)) J else J) I [].

Definition goto (ps : list prod) (I : list item) (X : sym) : list item :=
  match goto_kernel I X with
  | [] => []
  | K => closure ps K
  end.

Definition subset_items (I J : list item) : bool := forallb (fun i => mem_item i J) I.
Definition itemset_eqb (I J : list item) : bool := subset_items I J && subset_items J I.

Fixpoint index_of (J : list item) (C : list (list item)) (k : nat) : option nat :=
  match C with
  | [] => None
  | I0 :: r => if itemset_eqb I0 J then Some k else index_of J r (S k)
  end.

Definition symbols_of (G : gram) : list sym :=
  map Tm (terms G) ++ map Nt (nonterms G).

(** one pass of Canonical: add every non-empty GOTO(I, X) that is not yet in the collection *)
Definition canonical_pass (ps : list prod) (syms : list sym) (C : list (list item)) : list (list item) :=
  fold_left (fun C' I =>
    fold_left (fun C'' X =>
      match goto ps I X with
      | [] => C''
      | J => match index_of J C'' 0 with Some _ => C'' | None => C'' ++ [J] end
      end) syms C') C C.

Fixpoint canonical_iter (fuel : nat) (ps : list prod) (syms : list sym) (C : list (list item)) : option (list (list item)) :=
  match fuel with
  | O => None
  | S f =>
      let C' := canonical_pass ps syms C in
      if Nat.eqb (length C') (length C) then Some C else canonical_iter f ps syms C'
  end.

(** the canonical LR(0) collection of the augmented grammar; state 0 is CLOSURE({S' -> . S}) *)
Definition canonical (fuel : nat) (G : gram) : option (list (list item)) :=
  let G' := augment G in
  canonical_iter fuel (prods G') (symbols_of G') [closure (prods G') [(aug_prod G, 0)]].

(** ** nullable, FIRST, FOLLOW of the augmented grammar (round-robin fixpoints) *)

Definition mem_nat (a : nat) (l : list nat) : bool := existsb (Nat.eqb a) l.
Definition add_nat (a : nat) (l : list nat) : list nat := if mem_nat a l then l else a :: l.
Definition union_nat (l1 l2 : list nat) : list nat := fold_left (fun l a => add_nat a l) l1 l2.

Definition nullable_str (nl : list nat) (b : list sym) : bool :=
  forallb (fun x => match x with Nt A => mem_nat A nl | Tm _ => false end) b.

Definition nullable_pass (ps : list prod) (nl : list nat) : list nat :=
  fold_left (fun l p => if nullable_str l (body p) then add_nat (head p) l else l) ps nl.

Fixpoint iter_n {A} (n : nat) (f : A -> A) (x : A) : A :=
  match n with O => x | S k => iter_n k f (f x) end.

Definition nullables (G : gram) : list nat := iter_n (S (length (prods G))) (nullable_pass (prods G)) [].

Definition fenv := list (nat * list nat).   (* non-terminal -> terminals *)

Fixpoint fget (e : fenv) (A : nat) : list nat :=
  match e with [] => [] | (B, l) :: r => if Nat.eqb A B then l else fget r A end.

Fixpoint fadd (e : fenv) (A : nat) (ts : list nat) : fenv :=
  match e with
  | [] => [(A, union_nat ts [])]
  | (B, l) :: r => if Nat.eqb A B then (B, union_nat ts l) :: r else (B, l) :: fadd r A ts
  end.

(** FIRST of a string (terminals only; nullability is separate) *)
Fixpoint first_str (nl : list nat) (fe : fenv) (b : list sym) : list nat :=
  match b with
  | [] => []
  | Tm a :: _ => [a]
  | Nt A :: r => if mem_nat A nl then union_nat (fget fe A) (first_str nl fe r) else fget fe A
  end.

Definition first_pass (nl : list nat) (ps : list prod) (fe : fenv) : fenv :=
  fold_left (fun e p => fadd e (head p) (first_str nl e (body p))) ps fe.

Definition fenv_size (e : fenv) : nat := fold_left (fun k x => k + length (snd x)) e (length e).

Fixpoint fix_size {A} (fuel : nat) (size : A -> nat) (f : A -> A) (x : A) : A :=
  match fuel with
  | O => x
  | S k => let y := f x in if Nat.eqb (size y) (size x) then x else fix_size k size f y
  end.

Definition firsts (G : gram) : fenv :=
  let bound := S (length (prods G)) * S (length (terms G)) + 2 in
  fix_size bound fenv_size (first_pass (nullables G) (prods G)) [].

(** FOLLOW sets: terminals and the endmarker flag are kept in one list of lookaheads *)
Definition lenv := list (nat * list look).

Definition mem_look (a : look) (l : list look) : bool := existsb (look_eqb a) l.
Definition add_look (a : look) (l : list look) : list look := if mem_look a l then l else a :: l.
Definition union_look (l1 l2 : list look) : list look := fold_left (fun l a => add_look a l) l1 l2.

Fixpoint lget (e : lenv) (A : nat) : list look :=
  match e with [] => [] | (B, l) :: r => if Nat.eqb A B then l else lget r A end.

Fixpoint ladd (e : lenv) (A : nat) (ts : list look) : lenv :=
  match e with
  | [] => [(A, union_look ts [])]
  | (B, l) :: r => if Nat.eqb A B then (B, union_look ts l) :: r else (B, l) :: ladd r A ts
  end.

(** for A -> alpha B beta: FOLLOW(B) gets FIRST(beta), and FOLLOW(A) if beta is nullable *)
Fixpoint follow_body (nl : list nat) (fe : fenv) (A : nat) (b : list sym) (e : lenv) : lenv :=
  match b with
  | [] => e
  | Tm _ :: r => follow_body nl fe A r e
  | Nt B :: r =>
      let e1 := ladd e B (map Some (first_str nl fe r)) in
      let e2 := if nullable_str nl r then ladd e1 B (lget e1 A) else e1 in
      follow_body nl fe A r e2
  end.

Definition follow_pass (nl : list nat) (fe : fenv) (ps : list prod) (e : lenv) : lenv :=
  fold_left (fun e' p => follow_body nl fe (head p) (body p) e') ps e.

Definition lenv_size (e : lenv) : nat := fold_left (fun k x => k + length (snd x)) e (length e).

Definition follows (G : gram) : lenv :=
  let bound := S (length (prods G)) * (2 + length (terms G)) + 2 in
  fix_size bound lenv_size (follow_pass (nullables G) (firsts G) (prods G)) [(start G, [None])].

(** the FOLLOW iteration reached its fixpoint within its fuel: one more pass adds nothing
    (evaluated on every grammar by the check; hypothesis of the chain theorem) *)
Definition follow_fix_ok (G : gram) : bool :=
  Nat.eqb (lenv_size (follow_pass (nullables G) (firsts G) (prods G) (follows G))) (lenv_size (follows G)).

(** ** The SLR(1) table with action sets, before and after ResolveConflicts *)

Record raw_table := mkRaw {
  r_states : nat;
  r_action : list (Z * look * list action);
  r_goto : list (Z * nat * Z) }.

Definition mem_action (x : action) (l : list action) : bool := existsb (action_eqb x) l.

Fixpoint cell_add (cells : list (Z * look * list action)) (s : Z) (a : look) (x : action) : list (Z * look * list action) :=
  match cells with
  | [] => [(s, a, [x])]
  | (s', a', l) :: r =>
      if Z.eqb s s' && look_eqb a a'
      then (s', a', if mem_action x l then l else l ++ [x]) :: r
      else (s', a', l) :: cell_add r s a x
  end.

Definition state_of (C : list (list item)) (J : list item) : Z :=
  match J with
  | [] => (-1)%Z
  | _ => match index_of J C 0 with Some k => Z.of_nat k | None => (-1)%Z end
  end.

(** the actions contributed by one item of state [i] *)
Definition item_actions (G : gram) (ps : list prod) (fo : lenv) (C : list (list item)) (i : Z) (I : list item)
    (cells : list (Z * look * list action)) (it : item) : list (Z * look * list action) :=
  let c1 :=
    match dot_symbol it with
    | Some (Tm a) => cell_add cells i (Some a) (Shift (state_of C (goto ps I (Tm a))))
    | _ => cells
    end in
  if is_complete it then
    if Nat.eqb (head (fst it)) (fresh_nt G)
    then cell_add c1 i None Accept
    else fold_left (fun c a => cell_add c i a (Reduce (fst it))) (lget fo (head (fst it))) c1
  else c1.

Definition slr_raw (fuel : nat) (G : gram) : option raw_table :=
  match canonical fuel G with
  | None => None
  | Some C =>
      let G' := augment G in
      let ps := prods G' in
      let fo := follows G' in
      let idx := combine (map Z.of_nat (seq 0 (length C))) C in
      let acts := fold_left (fun cells sI =>
                    fold_left (item_actions G ps fo C (fst sI) (snd sI)) (snd sI) cells) idx [] in
      let gotos := flat_map (fun sI =>
                    flat_map (fun A =>
                      match state_of C (goto ps (snd sI) (Nt A)) with
                      | Zneg _ => []
                      | t => [(fst sI, A, t)]
                      end) (nonterms G)) idx in
      Some (mkRaw (length C) acts gotos)
  end.

(** ResolveConflicts: cells with several actions are resolved by precedence or reported *)
Inductive build_result := BuiltOk (t : table) | BuiltConflict (cells : list (Z * look)) | BuiltError | BuiltNoFuel.

Definition resolve_cells (ls : levels) (cells : list (Z * look * list action))
  : list (Z * look * action) * list (Z * look) :=
  fold_right (fun c acc =>
    let '(s, a, l) := c in
    match l with
    | [] => acc
    | [x] => ((s, a, x) :: fst acc, snd acc)
    | _ => match resolve_conflict ls a l with
           | Some x => ((s, a, x) :: fst acc, snd acc)
           | None => (fst acc, (s, a) :: snd acc)
           end
    end) ([], []) cells.

Definition build_slr (fuel : nat) (G : gram) (ls : levels) : build_result :=
  match slr_raw fuel G with
  | None => BuiltNoFuel
  | Some r =>
      if negb (levels_disjoint ls) then BuiltError else
      let '(acts, confl) := resolve_cells ls (r_action r) in
      match confl with
      | [] => BuiltOk (mkTable acts (r_goto r))
      | _ => BuiltConflict confl
      end
  end.

Definition slr_states (fuel : nat) (G : gram) : nat :=
  match slr_raw fuel G with Some r => r_states r | None => 0 end.
