(** C02 — specification: the abstract finite map, operation histories on a pair of tables (the
    second table is the sibling [Equal] is evaluated against), and the generic refinement argument:
    a table implementation that satisfies the per-operation lemmas of Section [Generic] produces,
    on every history and for every iteration oracle, the outputs of the abstract map. *)
From Coq Require Import List NArith Arith Bool Permutation Lia.
From Algo.C02 Require Import Model.
Import ListNotations.

Section Spec.
  Variables K V : Type.
  Variable eqb : K -> K -> bool.
  Variable eqv : V -> V -> bool.
  Hypothesis eqb_spec : forall a b, eqb a b = true <-> a = b.

  Lemma eqb_refl : forall a, eqb a a = true.
  Proof. intros; now apply eqb_spec. Qed.

  Lemma eqb_neq : forall a b, eqb a b = false <-> a <> b.
  Proof.
    intros a b; split; intros H.
    - intros E; apply eqb_spec in E; congruence.
    - destruct (eqb a b) eqn:E; auto. apply eqb_spec in E; contradiction.
  Qed.

  (** * association lists without duplicate keys *)
  Definition smap : Type := list (K * V).
  Definition keys (l : smap) : list K := map fst l.
  Definition s_get (s : smap) (k : K) : option V := b_get K V eqb s k.
  Definition s_rem (s : smap) (k : K) : smap := filter (fun kv => negb (eqb (fst kv) k)) s.
  Definition s_put (s : smap) (k : K) (v : V) : smap := (k, v) :: s_rem s k.

  Lemma s_get_In : forall l k v, s_get l k = Some v -> In (k, v) l.
  Proof.
    induction l as [|[k' v'] l IH]; simpl; intros k v H; [discriminate|].
    unfold s_get in *; simpl in H. destruct (eqb k' k) eqn:E.
    - apply eqb_spec in E; inversion H; subst; auto.
    - right; auto.
  Qed.

  Lemma s_get_None : forall l k, s_get l k = None <-> ~ In k (keys l).
  Proof.
    induction l as [|[k' v'] l IH]; simpl; intros k.
    - unfold s_get; simpl; tauto.
    - unfold s_get in *; simpl. destruct (eqb k' k) eqn:E.
      + apply eqb_spec in E; subst. split; [discriminate|]. intros H; exfalso; apply H; auto.
      + apply eqb_neq in E. rewrite IH. split; intros H; [intros [H1|H1]; [congruence|auto]|auto].
  Qed.

  Lemma In_keys : forall (l : smap) k v, In (k, v) l -> In k (keys l).
  Proof. intros l k v H. unfold keys. change k with (fst (k, v)). now apply in_map. Qed.

  Lemma In_s_get : forall l k v, NoDup (keys l) -> In (k, v) l -> s_get l k = Some v.
  Proof.
    induction l as [|[k' v'] l IH]; simpl; intros k v ND H; [contradiction|].
    inversion ND as [|? ? Hn ND']; subst. unfold s_get in *; simpl.
    destruct H as [H|H].
    - inversion H; subst. now rewrite eqb_refl.
    - destruct (eqb k' k) eqn:E.
      + apply eqb_spec in E; subst. exfalso; apply Hn. eapply In_keys; eauto.
      + auto.
  Qed.

  (** [l] lists, without repetition, exactly the graph of [f] *)
  Definition represents (l : smap) (f : K -> option V) : Prop :=
    NoDup (keys l) /\ forall k v, In (k, v) l <-> f k = Some v.

  Lemma represents_get : forall l, NoDup (keys l) -> represents l (s_get l).
  Proof.
    intros l ND; split; auto. intros k v; split; [now apply In_s_get | apply s_get_In].
  Qed.

  Lemma represents_ext : forall l f g, represents l f -> (forall k, f k = g k) -> represents l g.
  Proof. intros l f g [ND H] E; split; auto. intros k v; rewrite <- E; apply H. Qed.

  Lemma NoDup_keys_NoDup : forall l : smap, NoDup (keys l) -> NoDup l.
  Proof.
    induction l as [|[k v] l IH]; simpl; intros ND; [constructor|].
    inversion ND; subst. constructor; auto. intros H; eapply In_keys in H; auto.
  Qed.

  Lemma represents_perm : forall l l' f, represents l f -> represents l' f -> Permutation l l'.
  Proof.
    intros l l' f [ND H] [ND' H'].
    apply NoDup_Permutation; try now apply NoDup_keys_NoDup.
    intros [k v]. now rewrite H, H'.
  Qed.

  Lemma represents_length : forall l l' f, represents l f -> represents l' f -> length l = length l'.
  Proof. intros. eapply Permutation_length, represents_perm; eauto. Qed.

  Lemma represents_fun : forall l f k, represents l f -> f k = s_get l k.
  Proof.
    intros l f k [ND H]. destruct (f k) as [v|] eqn:E.
    - symmetry; apply In_s_get; auto. now apply H.
    - symmetry; apply s_get_None. intros HI. unfold keys in HI. apply in_map_iff in HI.
      destruct HI as [[k' v'] [E1 HI]]; simpl in E1; subst. apply H in HI; congruence.
  Qed.

  Lemma Permutation_keys_NoDup : forall l l' : smap, Permutation l l' -> NoDup (keys l) -> NoDup (keys l').
  Proof. intros l l' P. apply Permutation_NoDup. unfold keys. now apply Permutation_map. Qed.

  Lemma represents_permuted : forall l l' f, Permutation l l' -> represents l f -> represents l' f.
  Proof.
    intros l l' f P [ND H]; split; [eapply Permutation_keys_NoDup; eauto|].
    intros k v; rewrite <- H. split; apply Permutation_in; auto. now apply Permutation_sym.
  Qed.

  (** function-level operations *)
  Definition fupd (f : K -> option V) (k : K) (v : V) : K -> option V :=
    fun k' => if eqb k k' then Some v else f k'.
  Definition frem (f : K -> option V) (k : K) : K -> option V :=
    fun k' => if eqb k k' then None else f k'.

  Lemma keys_s_rem : forall s k k', In k' (keys (s_rem s k)) <-> In k' (keys s) /\ k' <> k.
  Proof.
    intros s k k'. unfold keys, s_rem. rewrite !in_map_iff. split.
    - intros [[a b] [E H]]; simpl in E; subst. apply filter_In in H. destruct H as [H1 H2]; simpl in H2.
      apply negb_true_iff, eqb_neq in H2. split; auto. exists (k', b); auto.
    - intros [[[a b] [E H]] N]; simpl in E; subst. exists (k', b); split; auto.
      apply filter_In; split; auto. simpl. now apply negb_true_iff, eqb_neq.
  Qed.

  Lemma NoDup_keys_s_rem : forall s k, NoDup (keys s) -> NoDup (keys (s_rem s k)).
  Proof.
    induction s as [|[a b] s IH]; simpl; intros k ND; [constructor|].
    inversion ND; subst. destruct (negb (eqb a k)); simpl; auto.
    constructor; auto. intros H; apply keys_s_rem in H. tauto.
  Qed.

  Lemma s_get_s_rem : forall s k k', s_get (s_rem s k) k' = frem (s_get s) k k'.
  Proof.
    induction s as [|[a b] s IH]; intros k k'; unfold frem, s_get in *; simpl.
    - now destruct (eqb k k').
    - destruct (eqb a k) eqn:E1; simpl.
      + apply eqb_spec in E1; subst. rewrite IH. destruct (eqb k k'); auto.
      + rewrite IH. destruct (eqb a k') eqn:E2; auto.
        apply eqb_spec in E2; subst. apply eqb_neq in E1.
        destruct (eqb k k') eqn:E3; auto. apply eqb_spec in E3; congruence.
  Qed.

  Lemma NoDup_keys_s_put : forall s k v, NoDup (keys s) -> NoDup (keys (s_put s k v)).
  Proof.
    intros s k v ND. unfold s_put; simpl. constructor; [|now apply NoDup_keys_s_rem].
    intros H; apply keys_s_rem in H; tauto.
  Qed.

  Lemma s_get_s_put : forall s k v k', s_get (s_put s k v) k' = fupd (s_get s) k v k'.
  Proof.
    intros. unfold s_put, fupd, s_get; simpl. destruct (eqb k k') eqn:E; auto.
    fold (s_get (s_rem s k) k'). rewrite s_get_s_rem. unfold frem. now rewrite E.
  Qed.

  Lemma s_rem_length : forall s k, NoDup (keys s) ->
      length (s_rem s k) + (match s_get s k with Some _ => 1 | None => 0 end) = length s.
  Proof.
    induction s as [|[a w] s IH]; simpl; intros k ND; auto.
    inversion ND as [|? ? Hn ND']; subst. unfold s_get in *; simpl. destruct (eqb a k) eqn:E; simpl.
    - apply eqb_spec in E; subst.
      assert (E0 : b_get K V eqb s k = None) by (now apply s_get_None).
      specialize (IH k ND'). rewrite E0 in IH. lia.
    - specialize (IH k ND'). lia.
  Qed.

  Lemma represents_fupd_length : forall l l' f k v,
      represents l f -> represents l' (fupd f k v) ->
      length l' = match f k with Some _ => length l | None => S (length l) end.
  Proof.
    intros l l' f k v R R'. pose proof R as [ND _].
    assert (Rp : represents (s_put l k v) (fupd f k v)).
    { eapply represents_ext; [apply represents_get; now apply NoDup_keys_s_put|].
      intros k'. rewrite s_get_s_put. unfold fupd. now rewrite <- (represents_fun l f k' R). }
    rewrite (represents_length _ _ _ R' Rp). simpl.
    pose proof (s_rem_length l k ND) as Hl. rewrite <- (represents_fun l f k R) in Hl.
    destruct (f k); lia.
  Qed.

  Lemma represents_frem_length : forall l l' f k,
      represents l f -> represents l' (frem f k) ->
      length l' + (match f k with Some _ => 1 | None => 0 end) = length l.
  Proof.
    intros l l' f k R R'. pose proof R as [ND _].
    assert (Rp : represents (s_rem l k) (frem f k)).
    { eapply represents_ext; [apply represents_get; now apply NoDup_keys_s_rem|].
      intros k'. rewrite s_get_s_rem. unfold frem. now rewrite <- (represents_fun l f k' R). }
    rewrite (represents_length _ _ _ R' Rp).
    pose proof (s_rem_length l k ND) as Hl. now rewrite <- (represents_fun l f k R) in Hl.
  Qed.

  (** [Equal] on abstract maps, with the user's [eqVal] *)
  Definition chk (f : K -> option V) (kv : K * V) : bool :=
    match f (fst kv) with Some v' => eqv (snd kv) v' | None => false end.
  Definition s_equal (a b : smap) : bool :=
    forallb (chk (s_get b)) a && forallb (chk (s_get a)) b.

  Lemma forallb_perm : forall (A : Type) (p : A -> bool) l l', Permutation l l' -> forallb p l = forallb p l'.
  Proof.
    intros A p l l' P. induction P; simpl; auto.
    - now rewrite IHP.
    - destruct (p x), (p y); auto.
    - congruence.
  Qed.

  Lemma forallb_ext' : forall (A : Type) (p q : A -> bool) l, (forall a, p a = q a) -> forallb p l = forallb q l.
  Proof. intros A p q l H. induction l; simpl; auto. now rewrite H, IHl. Qed.

  Lemma all_match_ok : forall (get : K -> res (option V)) (f : K -> option V) l,
      (forall k, get k = Ok (f k)) -> all_match K V eqv get l = Ok (forallb (chk f) l).
  Proof.
    intros get f l Hg. induction l as [|[k v] l IH]; simpl; auto.
    rewrite Hg; simpl. unfold chk at 1; simpl. destruct (f k) as [v'|]; simpl; auto.
    destruct (eqv v v'); simpl; auto.
  Qed.

  (** * histories *)
  Inductive op : Type :=
  | OPut (x : bool) (k : K) (v : V) | OGet (x : bool) (k : K) | ODelete (x : bool) (k : K)
  | ODeleteAll (x : bool) | OSize (x : bool) | OIsEmpty (x : bool) | OAll (x : bool) | OEqual (x : bool).

  Inductive out : Type :=
  | RUnit | RVal (o : option V) | RNat (n : nat) | RBool (b : bool) | RAll (l : list (K * V))
  | RFail (hang : bool).

  Definition sel {A : Type} (x : bool) (s : A * A) : A := if x then snd s else fst s.
  Definition setx {A : Type} (x : bool) (s : A * A) (a : A) : A * A := if x then (fst s, a) else (a, snd s).

  (** abstract run *)
  Definition s_step (s : smap * smap) (o : op) : (smap * smap) * out :=
    match o with
    | OPut x k v => (setx x s (s_put (sel x s) k v), RUnit)
    | OGet x k => (s, RVal (s_get (sel x s) k))
    | ODelete x k => (setx x s (s_rem (sel x s) k), RVal (s_get (sel x s) k))
    | ODeleteAll x => (setx x s [], RUnit)
    | OSize x => (s, RNat (length (sel x s)))
    | OIsEmpty x => (s, RBool (length (sel x s) =? 0))
    | OAll x => (s, RAll (sel x s))
    | OEqual x => (s, RBool (s_equal (sel x s) (sel (negb x) s)))
    end.

  Fixpoint s_run (s : smap * smap) (ops : list op) : list out :=
    match ops with
    | [] => []
    | o :: r => let (s', w) := s_step s o in w :: s_run s' r
    end.

  Definition run_spec (ops : list op) : list out := s_run ([], []) ops.

  Lemma s_run_length : forall ops s, length (s_run s ops) = length ops.
  Proof. induction ops as [|o r IH]; intros s; simpl; auto. destruct (s_step s o). simpl. now rewrite IH. Qed.

  Lemma run_spec_length : forall ops, length (run_spec ops) = length ops.
  Proof. intros. apply s_run_length. Qed.

  Definition out_match (a b : out) : Prop :=
    match a, b with
    | RAll l, RAll l' => Permutation l l'
    | RFail _, _ => False
    | _, _ => a = b
    end.
  Definition outs_match (a b : list out) : Prop := Forall2 out_match a b.

  Definition not_fail (w : out) : Prop := forall h, w <> RFail h.

  Lemma outs_match_no_fail : forall a b, outs_match a b -> Forall not_fail a.
  Proof.
    intros a b H. induction H as [|x y a b M _ IH]; constructor; auto.
    intros h E; subst. exact M.
  Qed.

  Lemma outs_match_length : forall a b, outs_match a b -> length a = length b.
  Proof. intros a b H. induction H; simpl; auto. Qed.

  (** run of the model; [orc i j] is the permutation drawn by the [j]-th [All()] of the [i]-th operation *)
  Variable hash : K -> N.
  Variables minlf maxlf : lf.
  Notation table := (table K V).

  Definition step (orc : nat -> list nat -> list nat) (s : table * table) (o : op) : res ((table * table) * out) :=
    match o with
    | OPut x k v => bind (put K V eqb hash maxlf (orc 0) (sel x s) k v) (fun t' => Ok (setx x s t', RUnit))
    | OGet x k => bind (get K V eqb hash (sel x s) k) (fun r => Ok (s, RVal r))
    | ODelete x k => bind (delete K V eqb hash minlf maxlf (orc 0) (sel x s) k)
                          (fun p => Ok (setx x s (fst p), RVal (snd p)))
    | ODeleteAll x => Ok (setx x s (delete_all K V (sel x s)), RUnit)
    | OSize x => Ok (s, RNat (size K V (sel x s)))
    | OIsEmpty x => Ok (s, RBool (is_empty K V (sel x s)))
    | OAll x => Ok (s, RAll (all K V (orc 0) (sel x s)))
    | OEqual x => bind (equal K V eqb eqv hash (orc 0) (orc 1) (sel x s) (sel (negb x) s))
                       (fun b => Ok (s, RBool b))
    end.

  Fixpoint run_from (orc : nat -> nat -> list nat -> list nat) (i : nat) (s : table * table) (ops : list op) : list out :=
    match ops with
    | [] => []
    | o :: r =>
        match step (orc i) s o with
        | Ok (s', w) => w :: run_from orc (S i) s' r
        | Panic => [RFail false]
        | Hang => [RFail true]
        end
    end.

  Definition run (orc : nat -> nat -> list nat -> list nat) (kd : kind) (cap : nat) (ops : list op) : list out :=
    match create K V kd cap with
    | Ok t => run_from orc 0 (t, t) ops
    | Panic => [RFail false]
    | Hang => [RFail true]
    end.

  Definition perm_oracle (shuf : list nat -> list nat) : Prop := forall l, Permutation (shuf l) l.

  (** * the generic refinement argument *)
  Section Generic.
    Variable Inv : table -> Prop.
    Variable Fun : table -> K -> option V.
    Hypothesis H_list : forall t shuf, Inv t -> perm_oracle shuf -> represents (all K V shuf t) (Fun t).
    Hypothesis H_size : forall t, Inv t -> size K V t = length (all K V (fun l => l) t).
    Hypothesis H_put : forall shuf t k v, Inv t -> perm_oracle shuf ->
        exists t', put K V eqb hash maxlf shuf t k v = Ok t' /\ Inv t' /\ forall k', Fun t' k' = fupd (Fun t) k v k'.
    Hypothesis H_get : forall t k, Inv t -> get K V eqb hash t k = Ok (Fun t k).
    Hypothesis H_delete : forall shuf t k, Inv t -> perm_oracle shuf ->
        exists t', delete K V eqb hash minlf maxlf shuf t k = Ok (t', Fun t k) /\ Inv t' /\
                   forall k', Fun t' k' = frem (Fun t) k k'.
    Hypothesis H_delete_all : forall t, Inv t -> Inv (delete_all K V t) /\ forall k, Fun (delete_all K V t) k = None.
    Hypothesis H_equal : forall s1 s2 t1 t2, Inv t1 -> Inv t2 ->
        equal K V eqb eqv hash s1 s2 t1 t2
        = equal_with K V eqv (all K V s1 t1) (all K V s2 t2) (get K V eqb hash t1) (get K V eqb hash t2).

    Definition Rel1 (t : table) (s : smap) : Prop :=
      Inv t /\ NoDup (keys s) /\ forall k, Fun t k = s_get s k.
    Definition Rel (t : table * table) (s : smap * smap) : Prop :=
      Rel1 (fst t) (fst s) /\ Rel1 (snd t) (snd s).

    Lemma Rel_sel : forall x t s, Rel t s -> Rel1 (sel x t) (sel x s).
    Proof. intros [] t s [A B]; simpl; auto. Qed.

    Lemma Rel_setx : forall x t s t' s', Rel t s -> Rel1 t' s' -> Rel (setx x t t') (setx x s s').
    Proof. intros [] t s t' s' [A B] C; split; simpl; auto. Qed.

    Lemma id_perm : perm_oracle (fun l => l).
    Proof. intros l; apply Permutation_refl. Qed.

    Lemma Rel1_perm : forall t s shuf, Rel1 t s -> perm_oracle shuf -> Permutation (all K V shuf t) s.
    Proof.
      intros t s shuf (I & ND & E) P. eapply represents_perm.
      - apply H_list; eauto.
      - eapply represents_ext; [apply represents_get; auto|]. intros k; now rewrite E.
    Qed.

    Lemma Rel1_size : forall t s, Rel1 t s -> size K V t = length s.
    Proof.
      intros t s R. rewrite H_size by apply R. apply Permutation_length.
      apply Rel1_perm; auto using id_perm.
    Qed.

    Lemma step_refines : forall orc t s o,
        Rel t s -> (forall j, perm_oracle (orc j)) ->
        exists t' w, step orc t o = Ok (t', w) /\ Rel t' (fst (s_step s o)) /\ out_match w (snd (s_step s o)).
    Proof.
      intros orc t s o R PO.
      destruct o as [x k v|x k|x k|x|x|x|x|x]; simpl.
      - (* Put *)
        pose proof (Rel_sel x _ _ R) as (I & ND & E).
        destruct (H_put (orc 0) (sel x t) k v I (PO 0)) as (t' & Hp & I' & F').
        rewrite Hp; simpl. do 2 eexists; split; [reflexivity|]. split; [|reflexivity].
        apply Rel_setx; auto. split; [auto|]. split; [now apply NoDup_keys_s_put|].
        intros k'. rewrite F', s_get_s_put. unfold fupd. now rewrite E.
      - (* Get *)
        pose proof (Rel_sel x _ _ R) as (I & ND & E).
        rewrite H_get by auto; simpl. do 2 eexists; split; [reflexivity|]. split; auto.
        simpl. now rewrite E.
      - (* Delete *)
        pose proof (Rel_sel x _ _ R) as (I & ND & E).
        destruct (H_delete (orc 0) (sel x t) k I (PO 0)) as (t' & Hp & I' & F').
        rewrite Hp; simpl. do 2 eexists; split; [reflexivity|]. split; [|simpl; now rewrite E].
        apply Rel_setx; auto. split; [auto|]. split; [now apply NoDup_keys_s_rem|].
        intros k'. rewrite F', s_get_s_rem. unfold frem. now rewrite E.
      - (* DeleteAll *)
        pose proof (Rel_sel x _ _ R) as (I & ND & E).
        destruct (H_delete_all _ I) as [I' F'].
        do 2 eexists; split; [reflexivity|]. split; [|reflexivity].
        apply Rel_setx; auto. split; [auto|]. split; [constructor|]. intros k. now rewrite F'.
      - (* Size *)
        do 2 eexists; split; [reflexivity|]. split; auto. simpl.
        now rewrite (Rel1_size _ _ (Rel_sel x _ _ R)).
      - (* IsEmpty *)
        do 2 eexists; split; [reflexivity|]. split; auto. simpl. unfold is_empty.
        now rewrite (Rel1_size _ _ (Rel_sel x _ _ R)).
      - (* All *)
        do 2 eexists; split; [reflexivity|]. split; auto. simpl.
        apply Rel1_perm; auto. now apply Rel_sel.
      - (* Equal *)
        pose proof (Rel_sel x _ _ R) as R1. pose proof (Rel_sel (negb x) _ _ R) as R2.
        pose proof R1 as (I1 & ND1 & E1). pose proof R2 as (I2 & ND2 & E2).
        rewrite H_equal by auto. unfold equal_with.
        rewrite (all_match_ok _ (Fun (sel (negb x) t))) by (intros; now apply H_get). simpl.
        assert (A1 : forallb (chk (Fun (sel (negb x) t))) (all K V (orc 0) (sel x t))
                     = forallb (chk (s_get (sel (negb x) s))) (sel x s)).
        { rewrite (forallb_perm _ _ _ _ (Rel1_perm _ _ _ R1 (PO 0))).
          apply forallb_ext'. intros kv. unfold chk. now rewrite E2. }
        assert (A2 : forallb (chk (Fun (sel x t))) (all K V (orc 1) (sel (negb x) t))
                     = forallb (chk (s_get (sel x s))) (sel (negb x) s)).
        { rewrite (forallb_perm _ _ _ _ (Rel1_perm _ _ _ R2 (PO 1))).
          apply forallb_ext'. intros kv. unfold chk. now rewrite E1. }
        rewrite A1. unfold s_equal.
        destruct (forallb (chk (s_get (sel (negb x) s))) (sel x s)); simpl.
        + rewrite (all_match_ok _ (Fun (sel x t))) by (intros; now apply H_get). simpl.
          rewrite A2. do 2 eexists; split; [reflexivity|]. split; [auto|reflexivity].
        + do 2 eexists; split; [reflexivity|]. split; [auto|reflexivity].
    Qed.

    Lemma run_from_refines : forall orc ops i t s,
        Rel t s -> (forall i j, perm_oracle (orc i j)) ->
        outs_match (run_from orc i t ops) (s_run s ops).
    Proof.
      intros orc ops. induction ops as [|o r IH]; intros i t s R PO; simpl; [constructor|].
      destruct (step_refines (orc i) t s o R (PO i)) as (t' & w & Hs & R' & M).
      rewrite Hs. destruct (s_step s o) as [s' w'] eqn:Es; simpl in *.
      constructor; auto. apply IH; auto.
    Qed.

    Theorem run_refines : forall orc kd cap ops t0,
        create K V kd cap = Ok t0 -> Inv t0 -> (forall k, Fun t0 k = None) ->
        (forall i j, perm_oracle (orc i j)) ->
        outs_match (run orc kd cap ops) (run_spec ops).
    Proof.
      intros orc kd cap ops t0 Hc I0 F0 PO. unfold run, run_spec. rewrite Hc.
      apply run_from_refines; auto.
      assert (R0 : Rel1 t0 []) by (split; [auto|split; [constructor|intros; now rewrite F0]]).
      split; exact R0.
    Qed.
  End Generic.

  (** the same argument for an invariant indexed by the number of operations executed so far
      (used for histories of bounded length) *)
  Section GenericI.
    Variable L : nat.
    Variable Inv : nat -> table -> Prop.
    Hypothesis H_mono : forall i t, Inv i t -> Inv (S i) t.
    Variable Fun : table -> K -> option V.
    Hypothesis H_list : forall i t shuf, Inv i t -> perm_oracle shuf -> represents (all K V shuf t) (Fun t).
    Hypothesis H_size : forall i t, Inv i t -> size K V t = length (all K V (fun l => l) t).
    Hypothesis H_put : forall i shuf t k v, i < L -> Inv i t -> perm_oracle shuf ->
        exists t', put K V eqb hash maxlf shuf t k v = Ok t' /\ Inv (S i) t' /\ forall k', Fun t' k' = fupd (Fun t) k v k'.
    Hypothesis H_get : forall i t k, Inv i t -> get K V eqb hash t k = Ok (Fun t k).
    Hypothesis H_delete : forall i shuf t k, i < L -> Inv i t -> perm_oracle shuf ->
        exists t', delete K V eqb hash minlf maxlf shuf t k = Ok (t', Fun t k) /\ Inv i t' /\
                   forall k', Fun t' k' = frem (Fun t) k k'.
    Hypothesis H_delete_all : forall i t, Inv i t -> Inv i (delete_all K V t) /\ forall k, Fun (delete_all K V t) k = None.
    Hypothesis H_equal : forall i s1 s2 t1 t2, Inv i t1 -> Inv i t2 ->
        equal K V eqb eqv hash s1 s2 t1 t2
        = equal_with K V eqv (all K V s1 t1) (all K V s2 t2) (get K V eqb hash t1) (get K V eqb hash t2).

    Definition Rel1I (i : nat) (t : table) (s : smap) : Prop :=
      Inv i t /\ NoDup (keys s) /\ forall k, Fun t k = s_get s k.
    Definition RelI (i : nat) (t : table * table) (s : smap * smap) : Prop :=
      Rel1I i (fst t) (fst s) /\ Rel1I i (snd t) (snd s).

    Lemma Rel1I_mono : forall i t s, Rel1I i t s -> Rel1I (S i) t s.
    Proof. intros i t s (A & B & C); split; auto. Qed.

    Lemma RelI_mono : forall i t s, RelI i t s -> RelI (S i) t s.
    Proof. intros i t s [A B]; split; now apply Rel1I_mono. Qed.

    Lemma RelI_sel : forall i x t s, RelI i t s -> Rel1I i (sel x t) (sel x s).
    Proof. intros i [] t s [A B]; simpl; auto. Qed.

    Lemma RelI_setx : forall i x t s t' s', RelI i t s -> Rel1I i t' s' -> RelI i (setx x t t') (setx x s s').
    Proof. intros i [] t s t' s' [A B] C; split; simpl; auto. Qed.

    Lemma id_permI : perm_oracle (fun l => l).
    Proof. intros l; apply Permutation_refl. Qed.

    Lemma Rel1I_perm : forall i t s shuf, Rel1I i t s -> perm_oracle shuf -> Permutation (all K V shuf t) s.
    Proof.
      intros i t s shuf (I & ND & E) P. eapply represents_perm.
      - apply (H_list i); eauto.
      - eapply represents_ext; [apply represents_get; auto|]. intros k; now rewrite E.
    Qed.

    Lemma Rel1I_size : forall i t s, Rel1I i t s -> size K V t = length s.
    Proof.
      intros i t s R. rewrite (H_size i) by apply R. apply Permutation_length.
      apply (Rel1I_perm i); auto using id_permI.
    Qed.

    Lemma stepI_refines : forall i orc t s o,
        i < L -> RelI i t s -> (forall j, perm_oracle (orc j)) ->
        exists t' w, step orc t o = Ok (t', w) /\ RelI (S i) t' (fst (s_step s o)) /\ out_match w (snd (s_step s o)).
    Proof.
      intros i orc t s o Hi R PO. pose proof (RelI_mono _ _ _ R) as RS.
      destruct o as [x k v|x k|x k|x|x|x|x|x]; simpl.
      - (* Put *)
        pose proof (RelI_sel _ x _ _ R) as (I & ND & E).
        destruct (H_put i (orc 0) (sel x t) k v Hi I (PO 0)) as (t' & Hp & I' & F').
        rewrite Hp; simpl. do 2 eexists; split; [reflexivity|]. split; [|reflexivity].
        apply RelI_setx; auto. split; [auto|]. split; [now apply NoDup_keys_s_put|].
        intros k'. rewrite F', s_get_s_put. unfold fupd. now rewrite E.
      - (* Get *)
        pose proof (RelI_sel _ x _ _ R) as (I & ND & E).
        rewrite (H_get i) by auto; simpl. do 2 eexists; split; [reflexivity|]. split; auto.
        simpl. now rewrite E.
      - (* Delete *)
        pose proof (RelI_sel _ x _ _ R) as (I & ND & E).
        destruct (H_delete i (orc 0) (sel x t) k Hi I (PO 0)) as (t' & Hp & I' & F').
        rewrite Hp; simpl. do 2 eexists; split; [reflexivity|]. split; [|simpl; now rewrite E].
        apply RelI_setx; auto. split; [auto|]. split; [now apply NoDup_keys_s_rem|].
        intros k'. rewrite F', s_get_s_rem. unfold frem. now rewrite E.
      - (* DeleteAll *)
        pose proof (RelI_sel _ x _ _ R) as (I & ND & E).
        destruct (H_delete_all i _ I) as [I' F'].
        do 2 eexists; split; [reflexivity|]. split; [|reflexivity].
        apply RelI_setx; auto. split; [auto|]. split; [constructor|]. intros k. now rewrite F'.
      - (* Size *)
        do 2 eexists; split; [reflexivity|]. split; auto. simpl.
        now rewrite (Rel1I_size _ _ _ (RelI_sel _ x _ _ R)).
      - (* IsEmpty *)
        do 2 eexists; split; [reflexivity|]. split; auto. simpl. unfold is_empty.
        now rewrite (Rel1I_size _ _ _ (RelI_sel _ x _ _ R)).
      - (* All *)
        do 2 eexists; split; [reflexivity|]. split; auto. simpl.
        apply (Rel1I_perm i); auto. now apply RelI_sel.
      - (* Equal *)
        pose proof (RelI_sel _ x _ _ R) as R1. pose proof (RelI_sel _ (negb x) _ _ R) as R2.
        pose proof R1 as (I1 & ND1 & E1). pose proof R2 as (I2 & ND2 & E2).
        rewrite (H_equal i) by auto. unfold equal_with.
        rewrite (all_match_ok _ (Fun (sel (negb x) t))) by (intros; now apply (H_get i)). simpl.
        assert (A1 : forallb (chk (Fun (sel (negb x) t))) (all K V (orc 0) (sel x t))
                     = forallb (chk (s_get (sel (negb x) s))) (sel x s)).
        { rewrite (forallb_perm _ _ _ _ (Rel1I_perm _ _ _ _ R1 (PO 0))).
          apply forallb_ext'. intros kv. unfold chk. now rewrite E2. }
        assert (A2 : forallb (chk (Fun (sel x t))) (all K V (orc 1) (sel (negb x) t))
                     = forallb (chk (s_get (sel x s))) (sel (negb x) s)).
        { rewrite (forallb_perm _ _ _ _ (Rel1I_perm _ _ _ _ R2 (PO 1))).
          apply forallb_ext'. intros kv. unfold chk. now rewrite E1. }
        rewrite A1. unfold s_equal.
        destruct (forallb (chk (s_get (sel (negb x) s))) (sel x s)); simpl.
        + rewrite (all_match_ok _ (Fun (sel x t))) by (intros; now apply (H_get i)). simpl.
          rewrite A2. do 2 eexists; split; [reflexivity|]. split; [auto|reflexivity].
        + do 2 eexists; split; [reflexivity|]. split; [auto|reflexivity].
    Qed.

    Lemma runI_from_refines : forall orc ops i t s,
        RelI i t s -> (forall i j, perm_oracle (orc i j)) -> i + length ops <= L ->
        outs_match (run_from orc i t ops) (s_run s ops).
    Proof.
      intros orc ops. induction ops as [|o r IH]; intros i t s R PO Hl; simpl; [constructor|].
      simpl in Hl.
      destruct (stepI_refines i (orc i) t s o ltac:(lia) R (PO i)) as (t' & w & Hs & R' & M).
      rewrite Hs. destruct (s_step s o) as [s' w'] eqn:Es; simpl in *.
      constructor; auto. apply IH; auto. lia.
    Qed.

    Theorem run_refines_bounded : forall orc kd cap ops t0,
        create K V kd cap = Ok t0 -> Inv 0 t0 -> (forall k, Fun t0 k = None) ->
        (forall i j, perm_oracle (orc i j)) -> length ops <= L ->
        outs_match (run orc kd cap ops) (run_spec ops).
    Proof.
      intros orc kd cap ops t0 Hc I0 F0 PO Hl. unfold run, run_spec. rewrite Hc.
      apply runI_from_refines; auto.
      assert (R0 : Rel1I 0 t0 []) by (split; [auto|split; [constructor|intros; now rewrite F0]]).
      split; exact R0.
    Qed.
  End GenericI.
End Spec.
