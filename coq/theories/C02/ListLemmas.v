(** C02 — list facts used by the table proofs: [upd], [nth_error], [concat], [flat_map] over [seq]. *)
From Coq Require Import List Arith Permutation Lia.
From Algo.C02 Require Import Model.
Import ListNotations.

Lemma upd_length : forall (A : Type) (l : list A) i x, length (upd l i x) = length l.
Proof. induction l; destruct i; simpl; auto. Qed.

Lemma nth_error_upd_eq : forall (A : Type) (l : list A) i x, i < length l -> nth_error (upd l i x) i = Some x.
Proof. induction l; destruct i; simpl; intros; try lia; auto. apply IHl; lia. Qed.

Lemma nth_error_upd_neq : forall (A : Type) (l : list A) i j x, i <> j -> nth_error (upd l i x) j = nth_error l j.
Proof. induction l; destruct i, j; simpl; intros; auto; try lia. Qed.

Lemma nth_error_upd : forall (A : Type) (l : list A) i j x,
    nth_error (upd l i x) j = if Nat.eqb i j then (if j <? length l then Some x else None) else nth_error l j.
Proof.
  intros. destruct (Nat.eqb_spec i j).
  - subst. destruct (Nat.ltb_spec j (length l)).
    + now apply nth_error_upd_eq.
    + apply nth_error_None. rewrite upd_length; lia.
  - now apply nth_error_upd_neq.
Qed.

Lemma nth_error_lt : forall (A : Type) (l : list A) i x, nth_error l i = Some x -> i < length l.
Proof. intros. apply nth_error_Some. congruence. Qed.

Lemma flat_map_nth_seq : forall (A : Type) (l : list (list A)),
    flat_map (fun i => nth i l []) (seq 0 (length l)) = concat l.
Proof.
  induction l as [|a l IH]; simpl; auto.
  f_equal. rewrite <- seq_shift, flat_map_concat_map, map_map, <- flat_map_concat_map. exact IH.
Qed.

Lemma flat_map_nth_seq_gen : forall (A B : Type) (f : A -> list B) (d : A) (l : list A),
    flat_map (fun i => f (nth i l d)) (seq 0 (length l)) = flat_map f l.
Proof.
  induction l as [|a l IH]; simpl; auto.
  f_equal. rewrite <- seq_shift, flat_map_concat_map, map_map, <- flat_map_concat_map. exact IH.
Qed.

Lemma NoDup_app_intro : forall (A : Type) (a b : list A),
    NoDup a -> NoDup b -> (forall x, In x a -> ~ In x b) -> NoDup (a ++ b).
Proof.
  induction a as [|x a IH]; simpl; intros b Ha Hb D; auto.
  inversion Ha; subst. constructor.
  - rewrite in_app_iff. intros [H|H]; [auto|]. eapply D; eauto.
  - apply IH; auto.
Qed.

Lemma NoDup_concat : forall (A : Type) (ls : list (list A)),
    (forall l, In l ls -> NoDup l) ->
    (forall i j li lj x, i <> j -> nth_error ls i = Some li -> nth_error ls j = Some lj -> In x li -> In x lj -> False) ->
    NoDup (concat ls).
Proof.
  induction ls as [|a ls IH]; simpl; intros H1 H2; [constructor|].
  apply NoDup_app_intro.
  - apply H1; auto.
  - apply IH; [intros; apply H1; auto|].
    intros i j li lj x N Hi Hj. apply (H2 (S i) (S j) li lj x); auto.
  - intros x Hx Hc. apply in_concat in Hc. destruct Hc as [l [Hl Hxl]].
    apply In_nth_error in Hl. destruct Hl as [j Hj].
    apply (H2 0 (S j) a l x); auto.
Qed.

Lemma concat_upd_length : forall (A : Type) (ls : list (list A)) i b b',
    nth_error ls i = Some b ->
    length (concat (upd ls i b')) + length b = length (concat ls) + length b'.
Proof.
  induction ls as [|a ls IH]; intros [|i] b b' H; simpl in *; try discriminate.
  - inversion H; subst. rewrite !app_length. lia.
  - rewrite !app_length. specialize (IH i b b' H). lia.
Qed.

Lemma concat_repeat_nil : forall (A : Type) n, concat (repeat (@nil A) n) = [].
Proof. induction n; simpl; auto. Qed.

Lemma nth_error_repeat_inv : forall (A : Type) (a x : A) n i, nth_error (repeat a n) i = Some x -> x = a /\ i < n.
Proof.
  intros A a x n i H. split.
  - apply nth_error_In in H. now apply repeat_spec in H.
  - apply nth_error_lt in H. now rewrite repeat_length in H.
Qed.

(** [fold_left] of a [bind]-step over a failed accumulator stays failed *)
Lemma reinsert_cons : forall (K V T : Type) (put : T -> K -> V -> res T) k v l nt,
    reinsert K V put ((k, v) :: l) nt = bind (put nt k v) (fun a => reinsert K V put l a).
Proof.
  intros. unfold reinsert. simpl.
  destruct (put nt k v) as [a| |]; simpl; auto.
  - induction l as [|[k' v'] l IH]; simpl; auto.
  - induction l as [|[k' v'] l IH]; simpl; auto.
Qed.

Lemma NoDup_app_l : forall (A : Type) (a b : list A), NoDup (a ++ b) -> NoDup a.
Proof.
  induction a as [|x a IH]; simpl; intros b H; [constructor|].
  inversion H; subst. constructor; [|eapply IH; eauto].
  intros Hx; apply H2. apply in_or_app; auto.
Qed.

Lemma nth_error_concat_length : forall (A : Type) (ls : list (list A)) i b,
    nth_error ls i = Some b -> length b <= length (concat ls).
Proof.
  induction ls as [|a l IHl]; intros [|i] b E; simpl in *; try discriminate.
  - inversion E; subst. rewrite app_length; lia.
  - rewrite app_length. specialize (IHl _ _ E). lia.
Qed.

Lemma upd_upd_same : forall (A : Type) (l : list A) i x y, upd (upd l i x) i y = upd l i y.
Proof. induction l; destruct i; simpl; intros; auto. now rewrite IHl. Qed.

Lemma upd_same : forall (A : Type) (l : list A) i x, nth_error l i = Some x -> upd l i x = l.
Proof.
  induction l; destruct i; simpl; intros; try discriminate; auto.
  - now inversion H.
  - now rewrite IHl.
Qed.
