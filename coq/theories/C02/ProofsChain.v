(** C02 — separate chaining (chain_hash_table.go): full refinement of the abstract map, for every
    hash function, every valid option set, every iteration oracle and every history. *)
From Coq Require Import List NArith Arith Bool Permutation Lia.
From Algo.C02 Require Import Model Arith ListLemmas Spec.
Import ListNotations.

Section Chain.
  Variables K V : Type.
  Variable eqb : K -> K -> bool.
  Variable eqv : V -> V -> bool.
  Variable hash : K -> N.
  Variables minlf maxlf : lf.
  Hypothesis eqb_spec : forall a b, eqb a b = true <-> a = b.

  Notation sc := (sc K V).
  Notation idx := (h_pow2 K hash).
  Notation s_get := (s_get K V eqb).
  Notation s_rem := (s_rem K V eqb).
  Notation keys := (keys K V).
  Notation represents := (represents K V).
  Notation fupd := (fupd K V eqb).
  Notation frem := (frem K V eqb).
  Notation perm_oracle := Spec.perm_oracle.

  (** ** buckets *)
  Lemma b_upd_None : forall b k v, b_upd K V eqb b k v = None <-> s_get b k = None.
  Proof.
    induction b as [|[a w] b IH]; simpl; intros k v; [tauto|].
    unfold Spec.s_get in *; simpl. destruct (eqb a k); [split; discriminate|].
    rewrite <- (IH k v). destruct (b_upd K V eqb b k v); split; congruence.
  Qed.

  Lemma b_upd_Some : forall b k v b', b_upd K V eqb b k v = Some b' ->
      keys b' = keys b /\ length b' = length b /\ forall k', s_get b' k' = fupd (s_get b) k v k'.
  Proof.
    induction b as [|[a w] b IH]; simpl; intros k v b' H; [discriminate|].
    destruct (eqb a k) eqn:E.
    - inversion H; subst. apply eqb_spec in E; subst. repeat split; auto.
      intros k'. unfold Spec.s_get, Spec.fupd; simpl. destruct (eqb k k'); auto.
    - destruct (b_upd K V eqb b k v) as [r'|] eqn:U; [|discriminate]. inversion H; subst.
      destruct (IH _ _ _ U) as (A & B & C). simpl. repeat split; try congruence.
      intros k'. unfold Spec.s_get in *; simpl. rewrite C. unfold Spec.fupd.
      destruct (eqb a k') eqn:E2; auto.
      apply eqb_spec in E2; subst. destruct (eqb k k') eqn:E3; auto.
      apply eqb_spec in E3; subst. rewrite (proj2 (eqb_spec k' k') eq_refl) in E. discriminate.
  Qed.

  Lemma s_rem_absent : forall b k, ~ In k (keys b) -> s_rem b k = b.
  Proof.
    induction b as [|[a w] b IH]; simpl; intros k H; auto.
    unfold Spec.s_rem in *; simpl. destruct (eqb a k) eqn:E; simpl.
    - apply eqb_spec in E; subst. exfalso; apply H; simpl; auto.
    - f_equal. apply IH. intros H'; apply H; simpl; auto.
  Qed.

  Lemma b_del_spec : forall b k, NoDup (keys b) -> b_del K V eqb b k = (s_rem b k, s_get b k).
  Proof.
    induction b as [|[a w] b IH]; simpl; intros k ND; auto.
    inversion ND as [|? ? Hn ND']; subst. unfold Spec.s_get, Spec.s_rem; simpl.
    destruct (eqb a k) eqn:E; simpl.
    - apply eqb_spec in E; subst. f_equal. symmetry. now apply s_rem_absent.
    - rewrite IH by auto. reflexivity.
  Qed.

  (** ** the table *)
  Definition sc_fun (t : sc) (k : K) : option V :=
    match nth_error (sc_b K V t) (idx (sc_m K V t) k) with Some b => s_get b k | None => None end.

  Record sc_inv0 (t : sc) : Prop := {
    i_len : length (sc_b K V t) = sc_m K V t;
    i_pow : exists e, sc_m K V t = 2 ^ e /\ 2 <= e;
    i_bkt : forall i b, nth_error (sc_b K V t) i = Some b ->
                        NoDup (keys b) /\ forall k, In k (keys b) -> idx (sc_m K V t) k = i;
    i_n : sc_n K V t = length (concat (sc_b K V t)) }.

  Lemma idx_lt : forall t k, sc_inv0 t -> idx (sc_m K V t) k < length (sc_b K V t).
  Proof. intros t k I. rewrite (i_len _ I). destruct (i_pow _ I) as (e & E & _). rewrite E. apply h_pow2_lt. Qed.

  Lemma sc_all_id : forall t, sc_all K V (fun l => l) t = concat (sc_b K V t).
  Proof. intros. unfold sc_all. apply flat_map_nth_seq. Qed.

  Lemma sc_all_perm : forall t shuf, perm_oracle shuf -> Permutation (sc_all K V shuf t) (concat (sc_b K V t)).
  Proof.
    intros t shuf P. rewrite <- sc_all_id. unfold sc_all. apply Permutation_flat_map. apply P.
  Qed.

  Lemma sc_represents_id : forall t, sc_inv0 t -> represents (concat (sc_b K V t)) (sc_fun t).
  Proof.
    intros t I. split.
    - unfold Spec.keys. rewrite concat_map. apply NoDup_concat.
      + intros l Hl. apply in_map_iff in Hl. destruct Hl as (b & E & Hb); subst.
        apply In_nth_error in Hb. destruct Hb as [i Hi]. apply (i_bkt _ I i b Hi).
      + intros i j li lj x N Hi Hj Hxi Hxj.
        rewrite nth_error_map in Hi, Hj.
        match type of Hi with option_map _ ?x = _ => destruct x as [bi|] eqn:Ei end; simpl in Hi; [|discriminate].
        match type of Hj with option_map _ ?x = _ => destruct x as [bj|] eqn:Ej end; simpl in Hj; [|discriminate].
        inversion Hi; inversion Hj; subst.
        apply N. rewrite <- (proj2 (i_bkt _ I i bi Ei) x Hxi). apply (proj2 (i_bkt _ I j bj Ej) x Hxj).
    - intros k v. unfold sc_fun. split.
      + intros H. apply in_concat in H. destruct H as (b & Hb & Hkv).
        apply In_nth_error in Hb. destruct Hb as [i Hi].
        destruct (i_bkt _ I i b Hi) as [ND Hidx].
        rewrite (Hidx k) by (eapply In_keys; eauto). rewrite Hi. apply In_s_get; auto.
      + destruct (nth_error (sc_b K V t) (idx (sc_m K V t) k)) as [b|] eqn:E; [|discriminate].
        intros H. apply s_get_In in H; auto. apply in_concat. exists b; split; auto.
        eapply nth_error_In; eauto.
  Qed.

  Lemma sc_represents : forall t shuf, sc_inv0 t -> perm_oracle shuf -> represents (sc_all K V shuf t) (sc_fun t).
  Proof.
    intros t shuf I P. eapply represents_permuted; [|apply sc_represents_id; auto].
    apply Permutation_sym, sc_all_perm; auto.
  Qed.

  Lemma sc_get_ok : forall t k, sc_inv0 t -> sc_get K V eqb hash t k = Ok (sc_fun t k).
  Proof.
    intros t k I. unfold sc_get, sc_fun. pose proof (idx_lt t k I) as L.
    destruct (nth_error (sc_b K V t) (idx (sc_m K V t) k)) eqn:E; auto.
    apply nth_error_None in E. lia.
  Qed.

  (** ** Put without resize *)
  Lemma sc_put_core_ok : forall t k v, sc_inv0 t ->
      exists t', sc_put_core K V eqb hash t k v = Ok t' /\ sc_inv0 t' /\
                 (forall k', sc_fun t' k' = fupd (sc_fun t) k v k') /\
                 sc_m K V t' = sc_m K V t /\
                 sc_n K V t' = match sc_fun t k with Some _ => sc_n K V t | None => S (sc_n K V t) end.
  Proof.
    intros t k v I. unfold sc_put_core. pose proof (idx_lt t k I) as L.
    set (i := idx (sc_m K V t) k) in *.
    destruct (nth_error (sc_b K V t) i) as [b|] eqn:Eb; [|apply nth_error_None in Eb; lia].
    destruct (i_bkt _ I i b Eb) as [NDb Hib].
    assert (Hfun : sc_fun t k = s_get b k) by (unfold sc_fun; fold i; now rewrite Eb).
    (* the new bucket, whichever branch *)
    assert (G : forall b' n',
               keys b' = keys b \/ (keys b' = k :: keys b /\ ~ In k (keys b)) ->
               (forall k', s_get b' k' = fupd (s_get b) k v k') ->
               n' + length b = sc_n K V t + length b' ->
               let t' := {| sc_b := upd (sc_b K V t) i b'; sc_m := sc_m K V t; sc_n := n' |} in
               sc_inv0 t' /\ (forall k', sc_fun t' k' = fupd (sc_fun t) k v k')).
    { intros b' n' Hk Hg Hn t'. split.
      - constructor; simpl.
        + rewrite upd_length. apply (i_len _ I).
        + apply (i_pow _ I).
        + intros j bj Hj. rewrite nth_error_upd in Hj. destruct (Nat.eqb_spec i j).
          * subst j. destruct (i <? length (sc_b K V t)); [|discriminate]. inversion Hj; subst bj.
            destruct Hk as [Hk|[Hk Hnk]]; rewrite Hk.
            -- split; auto.
            -- split; [constructor; auto|]. intros k' [H|H]; [subst; reflexivity|auto].
          * apply (i_bkt _ I j bj Hj).
        + pose proof (concat_upd_length _ (sc_b K V t) i b b' Eb). rewrite (i_n _ I) in Hn. lia.
      - intros k'. unfold sc_fun at 1; simpl. rewrite nth_error_upd.
        destruct (Nat.eqb_spec i (idx (sc_m K V t) k')) as [E|E].
        + rewrite <- E. destruct (Nat.ltb_spec i (length (sc_b K V t))); [|lia].
          rewrite Hg. unfold Spec.fupd, sc_fun. rewrite <- E, Eb. reflexivity.
        + unfold Spec.fupd. destruct (eqb k k') eqn:Ek.
          * apply eqb_spec in Ek; subst k'. contradiction.
          * reflexivity. }
    destruct (b_upd K V eqb b k v) as [b'|] eqn:U.
    - destruct (b_upd_Some _ _ _ _ U) as (A & B & C).
      destruct (G b' (sc_n K V t) (or_introl A) C ltac:(lia)) as [I' F'].
      eexists; split; [reflexivity|]. split; [exact I'|]. split; [exact F'|]. split; [reflexivity|].
      simpl. rewrite Hfun. destruct (s_get b k) eqn:Eg; auto.
      apply b_upd_None with (v := v) in Eg. congruence.
    - pose proof (proj1 (b_upd_None b k v) U) as Eg.
      assert (Hnk : ~ In k (keys b)) by (now apply s_get_None with (eqb := eqb)).
      destruct (G ((k, v) :: b) (S (sc_n K V t))) as [I' F'].
      + right; split; auto.
      + intros k'. unfold Spec.s_get, Spec.fupd; simpl. reflexivity.
      + simpl; lia.
      + eexists; split; [reflexivity|]. split; [exact I'|]. split; [exact F'|]. split; [reflexivity|].
        simpl. now rewrite Hfun, Eg.
  Qed.

  Lemma sc_put_noresize : forall d shuf t k v,
      lf_ge (sc_n K V t) (sc_m K V t) maxlf = false ->
      sc_put K V eqb hash maxlf d shuf t k v = sc_put_core K V eqb hash t k v.
  Proof. intros d shuf t k v H. destruct d; simpl; rewrite H; reflexivity. Qed.

  Lemma sc_n_length : forall t l, sc_inv0 t -> represents l (sc_fun t) -> sc_n K V t = length l.
  Proof.
    intros t l I R. rewrite (i_n _ I). eapply represents_length; eauto. apply sc_represents_id; auto.
  Qed.

  Lemma s_get_app : forall a b k, s_get (a ++ b) k = match s_get a k with Some v => Some v | None => s_get b k end.
  Proof.
    induction a as [|[x w] a IH]; simpl; intros b k; auto.
    unfold Spec.s_get in *; simpl. destruct (eqb x k); auto.
  Qed.

  (** ** the re-insertion loop of resize never needs a nested resize *)
  Lemma sc_reinsert_ok : forall d shuf rest pre acc,
      NoDup (keys (pre ++ rest)) -> sc_inv0 acc ->
      (forall k, sc_fun acc k = s_get pre k) ->
      (forall i, i < length (pre ++ rest) -> lf_ge i (sc_m K V acc) maxlf = false) ->
      exists t', reinsert K V (sc_put K V eqb hash maxlf d shuf) rest acc = Ok t' /\ sc_inv0 t' /\
                 (forall k, sc_fun t' k = s_get (pre ++ rest) k) /\ sc_m K V t' = sc_m K V acc.
  Proof.
    intros d shuf rest. induction rest as [|[k v] rest IH]; intros pre acc ND I F L.
    - exists acc. rewrite app_nil_r. split; [reflexivity|]. split; [exact I|]. split; [exact F|reflexivity].
    - rewrite reinsert_cons.
      assert (NDpre : NoDup (keys pre)).
      { unfold Spec.keys in *. rewrite map_app in ND. eapply NoDup_app_l. exact ND. }
      assert (Hn : sc_n K V acc = length pre).
      { apply sc_n_length; auto. eapply represents_ext; [apply represents_get; eauto|]. intros; now rewrite F. }
      rewrite sc_put_noresize by (rewrite Hn; apply L; rewrite app_length; simpl; lia).
      destruct (sc_put_core_ok acc k v I) as (t1 & H1 & I1 & F1 & M1 & _).
      rewrite H1; simpl.
      assert (Hk : ~ In k (keys pre)).
      { unfold Spec.keys in *. rewrite map_app in ND. simpl in ND. apply NoDup_remove_2 in ND.
        intros H; apply ND. apply in_or_app; auto. }
      destruct (IH (pre ++ [(k, v)]) t1) as (t' & H' & I' & F' & M').
      + now rewrite <- app_assoc.
      + exact I1.
      + intros k'. rewrite F1, s_get_app. unfold Spec.fupd. rewrite F.
        destruct (eqb k k') eqn:E.
        * apply eqb_spec in E; subst k'.
          rewrite (proj2 (s_get_None K V eqb eqb_spec pre k) Hk).
          unfold Spec.s_get; simpl. now rewrite (proj2 (eqb_spec k k) eq_refl).
        * destruct (s_get pre k'); auto. unfold Spec.s_get; simpl. now rewrite E.
      + intros i Hi. rewrite M1. apply L. now rewrite <- app_assoc in Hi.
      + exists t'. rewrite <- app_assoc in F'. simpl in F'.
        split; [exact H'|]. split; [exact I'|]. split; [exact F'|congruence].
  Qed.

  Lemma sc_new_ok : forall e, 2 <= e ->
      exists t, sc_new K V (2 ^ e) = Ok t /\ sc_inv0 t /\ (forall k, sc_fun t k = None) /\
                sc_m K V t = 2 ^ e /\ sc_n K V t = 0.
  Proof.
    intros e He. unfold sc_new.
    assert (L : 4 <= 2 ^ e).
    { change 4 with (2 ^ 2). apply Nat.pow_le_mono_r; lia. }
    unfold scMinM. destruct (Nat.ltb_spec (2 ^ e) 4); [lia|]. rewrite is_pow2_pow. simpl.
    eexists; split; [reflexivity|]. split; [|split; [|split; reflexivity]].
    - constructor; simpl.
      + apply repeat_length.
      + exists e; auto.
      + intros i b H0. apply nth_error_repeat_inv in H0. destruct H0; subst. split; [constructor|intros k []].
      + now rewrite concat_repeat_nil.
    - intros k. unfold sc_fun; simpl.
      destruct (nth_error (repeat [] (2 ^ e)) (idx (2 ^ e) k)) eqn:E; auto.
      apply nth_error_repeat_inv in E. destruct E; subst. reflexivity.
  Qed.

  Lemma sc_resize_ok : forall d shuf t e,
      sc_inv0 t -> perm_oracle shuf -> 2 <= e ->
      (forall i, i < sc_n K V t -> lf_ge i (2 ^ e) maxlf = false) ->
      exists t', sc_resize_with K V (sc_put K V eqb hash maxlf d shuf) shuf t (2 ^ e) = Ok t' /\ sc_inv0 t' /\
                 (forall k, sc_fun t' k = sc_fun t k) /\ sc_m K V t' = 2 ^ e /\ sc_n K V t' = sc_n K V t.
  Proof.
    intros d shuf t e I P He L. unfold sc_resize_with.
    assert (L4 : 4 <= 2 ^ e) by (change 4 with (2 ^ 2); apply Nat.pow_le_mono_r; lia).
    unfold scMinM. destruct (Nat.ltb_spec (2 ^ e) 4); [lia|].
    destruct (sc_new_ok e He) as (nt & Hn & In & Fn & Mn & Nn). rewrite Hn; simpl.
    pose proof (sc_represents t shuf I P) as R.
    destruct (sc_reinsert_ok d shuf (sc_all K V shuf t) [] nt) as (t' & H' & I' & F' & M').
    - simpl. apply R.
    - exact In.
    - intros k. rewrite Fn. reflexivity.
    - simpl. intros i Hi. rewrite Mn. apply L. now rewrite (sc_n_length t _ I R).
    - rewrite H'; simpl. simpl in F'.
      assert (Ft : forall k, sc_fun t' k = sc_fun t k).
      { intros k. rewrite F'. symmetry. apply represents_fun; auto. }
      set (t2 := {| sc_b := sc_b K V t'; sc_m := sc_m K V t'; sc_n := sc_n K V t' |}).
      assert (E2 : t2 = t') by (destruct t'; reflexivity).
      exists t2. rewrite E2. split; [reflexivity|]. split; [exact I'|]. split; [exact Ft|]. split; [congruence|].
      rewrite (sc_n_length t' (sc_all K V shuf t) I').
      + symmetry. apply sc_n_length; auto.
      + eapply represents_ext; [exact R|]. intros; now rewrite Ft.
  Qed.

  (** ** options and the load invariant that keeps resizes from nesting *)
  Definition valid_chain : Prop :=
    0 < lf_den maxlf /\ 0 < lf_den minlf /\
    lf_den maxlf <= lf_num maxlf * 4.                                      (* maxLF * minimum size >= 1 *)

  Definition sc_load (t : sc) : Prop :=
    sc_n K V t = 0 \/ (sc_n K V t - 1) * lf_den maxlf < lf_num maxlf * sc_m K V t.

  Definition sc_inv (t : sc) : Prop := sc_inv0 t /\ sc_load t.

  Hypothesis Hvalid : valid_chain.

  Lemma sc_put_ok : forall d shuf t k v, 1 <= d -> sc_inv t -> perm_oracle shuf ->
      exists t', sc_put K V eqb hash maxlf d shuf t k v = Ok t' /\ sc_inv t' /\
                 forall k', sc_fun t' k' = fupd (sc_fun t) k v k'.
  Proof.
    intros d shuf t k v Hd [I Ld] P. destruct Hvalid as (D1 & D2 & D3).
    destruct d as [|d]; [lia|]. simpl.
    destruct (i_pow _ I) as (e & Em & He).
    assert (M4 : 4 <= sc_m K V t).
    { rewrite Em. change 4 with (2 ^ 2). apply Nat.pow_le_mono_r; lia. }
    destruct (lf_ge (sc_n K V t) (sc_m K V t) maxlf) eqn:G.
    - (* grow *)
      apply lf_ge_true in G.
      destruct (sc_resize_ok d shuf t (S e) I P ltac:(lia)) as (t1 & H1 & I1 & F1 & M1 & N1).
      { intros i Hi. apply lf_ge_false. rewrite Nat.pow_succ_r', <- Em.
        destruct Ld as [Z|Ld]; [lia|]. nia. }
      replace (sc_m K V t + (sc_m K V t + 0)) with (2 ^ S e) by (rewrite Nat.pow_succ_r', Em; lia).
      rewrite H1; simpl.
      destruct (sc_put_core_ok t1 k v I1) as (t2 & H2 & I2 & F2 & M2 & N2).
      exists t2. split; [exact H2|]. split.
      + split; auto. right. rewrite M2, M1, Nat.pow_succ_r', <- Em.
        assert (sc_n K V t2 <= S (sc_n K V t)) by (rewrite N2, N1; destruct (sc_fun t1 k); lia).
        destruct Ld as [Z|Ld]; nia.
      + intros k'. rewrite F2. unfold Spec.fupd. now rewrite F1.
    - apply lf_ge_false in G. simpl.
      destruct (sc_put_core_ok t k v I) as (t2 & H2 & I2 & F2 & M2 & N2).
      exists t2. split; [exact H2|]. split; auto.
      split; auto. right. rewrite M2.
      assert (sc_n K V t2 <= S (sc_n K V t)) by (rewrite N2; destruct (sc_fun t k); lia).
      nia.
  Qed.

  (** the re-insertion loop of a shrink: the rebuilt table may grow again while entries are re-inserted
      (maxLF < 2*minLF); every step is an ordinary Put on a table that satisfies the invariant *)
  Lemma sc_reinsert_gen : forall d shuf rest pre acc,
      1 <= d -> perm_oracle shuf ->
      NoDup (keys (pre ++ rest)) -> sc_inv acc ->
      (forall k, sc_fun acc k = s_get pre k) ->
      exists t', reinsert K V (sc_put K V eqb hash maxlf d shuf) rest acc = Ok t' /\ sc_inv t' /\
                 (forall k, sc_fun t' k = s_get (pre ++ rest) k).
  Proof.
    intros d shuf rest. induction rest as [|[k v] rest IH]; intros pre acc Hd P ND I F.
    - exists acc. rewrite app_nil_r. split; [reflexivity|]. split; [exact I|exact F].
    - rewrite reinsert_cons.
      destruct (sc_put_ok d shuf acc k v Hd I P) as (t1 & H1 & I1 & F1). rewrite H1; simpl.
      assert (Hk : ~ In k (keys pre)).
      { unfold Spec.keys in *. rewrite map_app in ND. simpl in ND. apply NoDup_remove_2 in ND.
        intros H; apply ND. apply in_or_app; auto. }
      destruct (IH (pre ++ [(k, v)]) t1 Hd P) as (t' & H' & I' & F').
      + now rewrite <- app_assoc.
      + exact I1.
      + intros k'. rewrite F1, s_get_app. unfold Spec.fupd. rewrite F.
        destruct (eqb k k') eqn:E.
        * apply eqb_spec in E; subst k'.
          rewrite (proj2 (s_get_None K V eqb eqb_spec pre k) Hk).
          unfold Spec.s_get; simpl. now rewrite (proj2 (eqb_spec k k) eq_refl).
        * destruct (s_get pre k'); auto. unfold Spec.s_get; simpl. now rewrite E.
      + exists t'. rewrite <- app_assoc in F'. simpl in F'. split; [exact H'|]. split; [exact I'|exact F'].
  Qed.

  Lemma sc_resize_gen : forall d shuf t e,
      1 <= d -> sc_inv0 t -> perm_oracle shuf -> 2 <= e ->
      exists t', sc_resize_with K V (sc_put K V eqb hash maxlf d shuf) shuf t (2 ^ e) = Ok t' /\ sc_inv t' /\
                 (forall k, sc_fun t' k = sc_fun t k) /\ sc_n K V t' = sc_n K V t.
  Proof.
    intros d shuf t e Hd I P He. unfold sc_resize_with.
    assert (L4 : 4 <= 2 ^ e) by (change 4 with (2 ^ 2); apply Nat.pow_le_mono_r; lia).
    unfold scMinM. destruct (Nat.ltb_spec (2 ^ e) 4); [lia|].
    destruct (sc_new_ok e He) as (nt & Hn & In & Fn & Mn & Nn). rewrite Hn; simpl.
    pose proof (sc_represents t shuf I P) as R.
    destruct (sc_reinsert_gen d shuf (sc_all K V shuf t) [] nt Hd P) as (t' & H' & I' & F').
    - simpl. apply R.
    - split; auto. left; auto.
    - intros k. rewrite Fn. reflexivity.
    - rewrite H'; simpl. simpl in F'.
      assert (Ft : forall k, sc_fun t' k = sc_fun t k).
      { intros k. rewrite F'. symmetry. apply represents_fun; auto. }
      set (t2 := {| sc_b := sc_b K V t'; sc_m := sc_m K V t'; sc_n := sc_n K V t' |}).
      assert (E2 : t2 = t') by (destruct t'; reflexivity).
      exists t2. rewrite E2. split; [reflexivity|]. split; [exact I'|]. split; [exact Ft|].
      rewrite (sc_n_length t' (sc_all K V shuf t) (proj1 I')).
      + symmetry. apply sc_n_length; auto.
      + eapply represents_ext; [exact R|]. intros; now rewrite Ft.
  Qed.

  Lemma sc_delete_ok : forall d shuf t k, 1 <= d -> sc_inv t -> perm_oracle shuf ->
      exists t', sc_delete K V eqb hash minlf maxlf d shuf t k = Ok (t', sc_fun t k) /\ sc_inv t' /\
                 forall k', sc_fun t' k' = frem (sc_fun t) k k'.
  Proof.
    intros d shuf t k Hd [I Ld] P. destruct Hvalid as (D1 & D2 & D3).
    unfold sc_delete. pose proof (idx_lt t k I) as L.
    set (i := idx (sc_m K V t) k) in *.
    destruct (nth_error (sc_b K V t) i) as [b|] eqn:Eb; [|apply nth_error_None in Eb; lia].
    destruct (i_bkt _ I i b Eb) as [NDb Hib].
    assert (Hfun : sc_fun t k = s_get b k) by (unfold sc_fun; fold i; now rewrite Eb).
    rewrite b_del_spec by auto.
    set (n' := match s_get b k with Some _ => pred (sc_n K V t) | None => sc_n K V t end).
    set (t1 := {| sc_b := upd (sc_b K V t) i (s_rem b k); sc_m := sc_m K V t; sc_n := n' |}).
    assert (Hlen : length (s_rem b k) + (match s_get b k with Some _ => 1 | None => 0 end) = length b).
    { clear -NDb eqb_spec. induction b as [|[a w] b IH]; simpl; auto.
      inversion NDb; subst. unfold Spec.s_get in *; simpl. destruct (eqb a k) eqn:E; simpl.
      - apply eqb_spec in E; subst.
        assert (E0 : b_get K V eqb b k = None) by (now apply (s_get_None K V eqb eqb_spec)).
        specialize (IH H2). rewrite E0 in IH. lia.
      - specialize (IH H2). lia. }
    assert (I1 : sc_inv0 t1).
    { constructor; simpl.
      - rewrite upd_length. apply (i_len _ I).
      - apply (i_pow _ I).
      - intros j bj Hj. rewrite nth_error_upd in Hj. destruct (Nat.eqb_spec i j).
        + subst j. destruct (i <? length (sc_b K V t)); [|discriminate]. inversion Hj; subst bj. split.
          * now apply NoDup_keys_s_rem.
          * intros k' Hk'. apply keys_s_rem in Hk'; auto. apply Hib. tauto.
        + apply (i_bkt _ I j bj Hj).
      - pose proof (concat_upd_length _ (sc_b K V t) i b (s_rem b k) Eb) as CL.
        pose proof (i_n _ I) as Nn. unfold n'.
        pose proof (nth_error_concat_length _ _ _ _ Eb).
        destruct (s_get b k); lia. }
    assert (F1 : forall k', sc_fun t1 k' = frem (sc_fun t) k k').
    { intros k'. unfold sc_fun at 1; simpl. rewrite nth_error_upd.
      destruct (Nat.eqb_spec i (idx (sc_m K V t) k')) as [E|E].
      - rewrite <- E. destruct (Nat.ltb_spec i (length (sc_b K V t))); [|lia].
        rewrite s_get_s_rem by auto. unfold Spec.frem, sc_fun. rewrite <- E, Eb. reflexivity.
      - unfold Spec.frem. destruct (eqb k k') eqn:Ek.
        + apply eqb_spec in Ek; subst k'. contradiction.
        + reflexivity. }
    assert (Nle : n' <= sc_n K V t) by (unfold n'; destruct (s_get b k); lia).
    assert (Ld1 : sc_load t1).
    { unfold sc_load; simpl. destruct Ld as [Z|Ld]; [left; lia|]. right. nia. }
    destruct (lf_le n' (sc_m K V t) minlf) eqn:G; cbv beta iota.
    - (* shrink, when the halved size is not below the minimum *)
      unfold sc_resize.
      destruct (i_pow _ I) as (e & Em & He).
      destruct (Nat.eq_dec e 2) as [E2|E2].
      + (* m = 4: resize returns at once *)
        unfold sc_resize_with. rewrite Em, E2. simpl.
        exists t1. rewrite Hfun. split; [reflexivity|]. split; [split; auto|exact F1].
      + destruct e as [|e]; [lia|].
        assert (Hhalf : sc_m K V t / 2 = 2 ^ e).
        { rewrite Em, Nat.pow_succ_r', Nat.mul_comm, Nat.div_mul; lia. }
        rewrite Hhalf.
        destruct (sc_resize_gen d shuf t1 e Hd I1 P ltac:(lia)) as (t2 & H2 & I2 & F2 & N2).
        rewrite H2; simpl. exists t2. rewrite Hfun. split; auto. split; [exact I2|].
        intros k'. now rewrite F2, F1.
    - exists t1. rewrite Hfun. split; [reflexivity|]. split; [split; auto|exact F1].
  Qed.

  Lemma sc_delete_all_ok : forall t, sc_inv t ->
      sc_inv (sc_delete_all K V t) /\ forall k, sc_fun (sc_delete_all K V t) k = None.
  Proof.
    intros t [I Ld]. unfold sc_delete_all. split; [split|].
    - constructor; simpl.
      + apply repeat_length.
      + apply (i_pow _ I).
      + intros i b H. apply nth_error_repeat_inv in H. destruct H; subst. split; [constructor|intros k []].
      + now rewrite concat_repeat_nil.
    - left; reflexivity.
    - intros k. unfold sc_fun; simpl.
      destruct (nth_error (repeat [] (sc_m K V t)) (idx (sc_m K V t) k)) eqn:E; auto.
      apply nth_error_repeat_inv in E. destruct E; subst. reflexivity.
  Qed.

  Lemma sc_size_ok : forall t, sc_inv0 t -> sc_n K V t = length (sc_all K V (fun l => l) t).
  Proof. intros t I. rewrite sc_all_id. apply (i_n _ I). Qed.
End Chain.

(** * the refinement theorem for separate chaining *)
(** * the refinement theorem for separate chaining *)
Section ChainTop.
  Variables K V : Type.
  Variable eqb : K -> K -> bool.
  Variable eqv : V -> V -> bool.
  Variable hash : K -> N.
  Variables minlf maxlf : lf.
  Hypothesis eqb_spec : forall a b, eqb a b = true <-> a = b.
  Hypothesis Hvalid : valid_chain minlf maxlf.

  Definition valid_cap_chain (cap : nat) : Prop := cap = 0 \/ exists e, 2 <= e /\ cap = 2 ^ e.

  Definition ch_Inv (t : table K V) : Prop :=
    match t with TSC _ _ s => sc_inv K V hash maxlf s | _ => False end.
  Definition ch_Fun (t : table K V) (k : K) : option V :=
    match t with TSC _ _ s => sc_fun K V eqb hash s k | _ => None end.

  Theorem chain_refines : forall cap orc ops,
      valid_cap_chain cap -> (forall i j, perm_oracle (orc i j)) ->
      outs_match K V (run K V eqb eqv hash minlf maxlf orc Chain cap ops) (run_spec K V eqb eqv ops).
  Proof.
    intros cap orc ops Hcap PO.
    assert (Hc : exists e, 2 <= e /\ (if cap =? 0 then scMinM else cap) = 2 ^ e).
    { destruct Hcap as [Z|(e & He & E)].
      - subst. exists 2; split; auto.
      - exists e; split; auto. destruct (Nat.eqb_spec cap 0); auto.
        subst cap. pose proof (Nat.pow_nonzero 2 e); lia. }
    destruct Hc as (e & He & Ecap).
    destruct (sc_new_ok K V eqb hash e He) as (t0 & H0 & I0 & F0 & M0 & N0).
    apply (run_refines K V eqb eqv eqb_spec hash minlf maxlf ch_Inv ch_Fun) with (t0 := TSC K V t0).
    - intros [s| | |] shuf I P; try contradiction. apply sc_represents; auto. apply I.
    - intros [s| | |] I; try contradiction. simpl. apply sc_size_ok with (hash := hash); apply I.
    - intros shuf [s| | |] k v I P; try contradiction. unfold put.
      destruct (sc_put_ok K V eqb eqv hash minlf maxlf eqb_spec Hvalid depth shuf s k v) as (t' & H' & I' & F'); auto.
      { unfold depth; lia. }
      exists (TSC K V t'). rewrite H'. simpl. split; auto.
    - intros [s| | |] k I; try contradiction. simpl. apply sc_get_ok. apply I.
    - intros shuf [s| | |] k I P; try contradiction. unfold delete.
      destruct (sc_delete_ok K V eqb eqv hash minlf maxlf eqb_spec Hvalid depth shuf s k) as (t' & H' & I' & F'); auto.
      { unfold depth; lia. }
      exists (TSC K V t'). rewrite H'. simpl. split; auto.
    - intros [s| | |] I; try contradiction. simpl. apply sc_delete_all_ok; auto.
    - intros s1 s2 [a| | |] [b| | |] I1 I2; try contradiction. reflexivity.
    - simpl. rewrite Ecap, H0. reflexivity.
    - simpl. split; auto. left; auto.
    - intros k. simpl. apply F0.
    - exact PO.
  Qed.
End ChainTop.
