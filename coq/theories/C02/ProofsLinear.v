(** C02/C03 — linear probing (linear_hash_table.go): invariant (every entry is reachable from its home
    slot through occupied slots, keys are pairwise distinct, n counts the entries, the load stays
    below the bound), termination of every probe loop within [m] probes, and refinement of the
    abstract map — including the cluster re-insertion loop of Delete. *)
From Coq Require Import List NArith Arith Bool Permutation Lia.
From Algo.C02 Require Import Model Arith ListLemmas Spec ProofsProbe.
Import ListNotations.

(** * modular arithmetic of the probe sequence *)
Lemma mod_window_inj : forall a b m, a <= b < a + m -> a mod m = b mod m -> a = b.
Proof.
  intros a b m R E. assert (m <> 0) by lia.
  pose proof (Nat.div_mod a m H). pose proof (Nat.div_mod b m H).
  pose proof (Nat.mod_upper_bound a m H). pose proof (Nat.mod_upper_bound b m H).
  assert (b / m = a / m); [|nia].
  assert (a / m <= b / m) by (apply Nat.div_le_mono; lia).
  destruct (Nat.eq_dec (b / m) (a / m)); auto. nia.
Qed.

Lemma add_mod_shift : forall a b t m, m <> 0 -> a mod m = b mod m -> (a + t) mod m = (b + t) mod m.
Proof. intros. rewrite (Nat.add_mod a t m), (Nat.add_mod b t m) by auto. now rewrite H0. Qed.

Section Linear.
  Variables K V : Type.
  Variable eqb : K -> K -> bool.
  Variable eqv : V -> V -> bool.
  Variable hash : K -> N.
  Variables minlf maxlf : lf.
  Hypothesis eqb_spec : forall a b, eqb a b = true <-> a = b.

  Notation lp := (lp K V).
  Notation s_get := (s_get K V eqb).
  Notation keys := (keys K V).
  Notation represents := (represents K V).
  Notation fupd := (fupd K V eqb).
  Notation frem := (frem K V eqb).
  Notation perm_oracle := Spec.perm_oracle.
  Notation occ := (occ (K * V)).
  Notation emp := (emp (K * V)).
  Notation key_is := (key_is K V eqb).

  (** the probe sequence of key [k] in a table of [m] slots *)
  Definition P (m : nat) (k : K) : nat -> nat := lin_idx (h_pow2 K hash m k) m.

  Section FixM.
    Variable m : nat.
    Variable e2 : nat.
    Hypothesis Hm : m = 2 ^ e2.

    Lemma m_pos : m <> 0.
    Proof. rewrite Hm. apply Nat.pow_nonzero. lia. Qed.

    Lemma P_nat : forall k i, P m k i = (h_pow2 K hash m k + i) mod m.
    Proof.
      intros. unfold P. rewrite lin_idx_nat. destruct (Nat.eqb_spec i 0); auto.
      subst i. rewrite Nat.add_0_r. symmetry. apply Nat.mod_small. rewrite Hm. apply h_pow2_lt.
    Qed.

    Lemma P_lt : forall k i, P m k i < m.
    Proof. intros. rewrite P_nat. apply Nat.mod_upper_bound, m_pos. Qed.

    Lemma P_inj : forall k a b, a <= b < a + m -> P m k a = P m k b -> a = b.
    Proof.
      intros k a b R E. rewrite !P_nat in E.
      apply mod_window_inj in E; lia.
    Qed.

    Lemma P_inj' : forall k a b, a < m -> b < m -> P m k a = P m k b -> a = b.
    Proof.
      intros k a b Ha Hb E. destruct (le_lt_dec a b).
      - apply (P_inj k a b); auto; lia.
      - symmetry. apply (P_inj k b a); auto; lia.
    Qed.

    (** every slot is reached within any window of [m] consecutive probes *)
    Lemma P_surj : forall k i j, j < m -> exists i', i <= i' < i + m /\ P m k i' = j.
    Proof.
      intros k i j Hj. pose proof m_pos as M0.
      set (r := P m k i). assert (Hr : r < m) by apply P_lt.
      set (x := (j + m - r) mod m).
      exists (i + x). split.
      - pose proof (Nat.mod_upper_bound (j + m - r) m M0). fold x in H. lia.
      - rewrite P_nat. replace (h_pow2 K hash m k + (i + x)) with ((h_pow2 K hash m k + i) + x) by lia.
        rewrite Nat.add_mod by auto. rewrite <- (P_nat k i). fold r. unfold x.
        rewrite Nat.mod_mod by auto. rewrite Nat.add_mod_idemp_r by auto.
        replace (r + (j + m - r)) with (j + 1 * m) by lia.
        rewrite Nat.mod_add by auto. apply Nat.mod_small; auto.
    Qed.

    Lemma P_shift : forall k k' a b t, P m k a = P m k' b -> P m k (a + t) = P m k' (b + t).
    Proof.
      intros k k' a b t E. rewrite !P_nat in *. rewrite !Nat.add_assoc.
      apply add_mod_shift; auto. apply m_pos.
    Qed.

    Lemma P_window_NoDup : forall k i len, len <= m -> NoDup (map (P m k) (seq i len)).
    Proof.
      intros k i len. revert i. induction len as [|len IH]; intros i Hl; simpl; [constructor|].
      constructor; [|apply IH; lia].
      intros H. apply in_map_iff in H. destruct H as (x & E & Hx). apply in_seq in Hx.
      symmetry in E. apply P_inj in E; lia.
    Qed.
  End FixM.

  (** * slots and lists *)
  Definition at_ (es : list (option (K * V))) (j : nat) (k : K) (v : V) : Prop :=
    nth_error es j = Some (Some (k, v)).

  Definition lp_list (es : list (option (K * V))) : list (K * V) :=
    flat_map (fun o => match o with Some kv => [kv] | None => [] end) es.

  Lemma lp_all_id : forall t, lp_all K V (fun l => l) t = lp_list (lp_e K V t).
  Proof. intros. unfold lp_all, lp_list. apply flat_map_nth_seq_gen with (f := fun o => match o with Some kv => [kv] | None => [] end). Qed.

  Lemma lp_all_perm : forall t shuf, perm_oracle shuf -> Permutation (lp_all K V shuf t) (lp_list (lp_e K V t)).
  Proof. intros t shuf Pm. rewrite <- lp_all_id. unfold lp_all. apply Permutation_flat_map. apply Pm. Qed.

  Lemma In_lp_list : forall es k v, In (k, v) (lp_list es) <-> exists j, at_ es j k v.
  Proof.
    intros es k v. unfold lp_list, at_. rewrite in_flat_map. split.
    - intros (o & Ho & Hin). destruct o as [kv|]; simpl in Hin; [|contradiction].
      destruct Hin as [->|[]]. apply In_nth_error in Ho. exact Ho.
    - intros (j & Hj). exists (Some (k, v)). split; [eapply nth_error_In; eauto|simpl; auto].
  Qed.

  Lemma lp_list_length : forall es, length (lp_list es) = nonnil (K * V) es.
  Proof. induction es as [|[kv|] r IH]; simpl; auto. Qed.

  Definition distinct (es : list (option (K * V))) : Prop :=
    forall j j' k v v', at_ es j k v -> at_ es j' k v' -> j = j'.

  Lemma distinct_NoDup : forall es, distinct es -> NoDup (keys (lp_list es)).
  Proof.
    intros es D. unfold Spec.keys, lp_list. rewrite flat_map_concat_map, concat_map, map_map.
    apply NoDup_concat.
    - intros l Hl. apply in_map_iff in Hl. destruct Hl as ([kv|] & E & _); subst; simpl; repeat constructor; auto.
    - intros i j li lj x N Hi Hj Hxi Hxj. rewrite nth_error_map in Hi, Hj.
      destruct (nth_error es i) as [[[ki vi]|]|] eqn:Ei; simpl in Hi; inversion Hi; subst; simpl in Hxi; try contradiction.
      destruct (nth_error es j) as [[[kj vj]|]|] eqn:Ej; simpl in Hj; inversion Hj; subst; simpl in Hxj; try contradiction.
      destruct Hxi as [<-|[]]. destruct Hxj as [E|[]]. simpl in E. subst kj.
      apply N. eapply D; eauto.
  Qed.

  (** a duplicate-free slot array lists the graph of a function that is characterised slot-wise *)
  Lemma fun_by_slots : forall es (g : K -> option V),
      distinct es -> (forall k v, (exists j, at_ es j k v) <-> g k = Some v) ->
      forall k, s_get (lp_list es) k = g k.
  Proof.
    intros es g D H k. symmetry. apply represents_fun; auto. split; [now apply distinct_NoDup|].
    intros k' v'. rewrite In_lp_list. apply H.
  Qed.

  Lemma slots_of_fun : forall es k v, distinct es -> (s_get (lp_list es) k = Some v <-> exists j, at_ es j k v).
  Proof.
    intros es k v D. rewrite <- In_lp_list. split.
    - apply s_get_In; auto.
    - apply In_s_get; auto. now apply distinct_NoDup.
  Qed.

  Lemma at_upd : forall es j x j' k v,
      at_ (upd es j x) j' k v <-> (j' = j /\ j < length es /\ x = Some (k, v)) \/ (j' <> j /\ at_ es j' k v).
  Proof.
    intros es j x j' k v. unfold at_. rewrite nth_error_upd. destruct (Nat.eqb_spec j j') as [Ej|Nj].
    - subst j'. destruct (Nat.ltb_spec j (length es)) as [Lj|Lj].
      + split.
        * intros Hx; inversion Hx; auto.
        * intros [(_ & _ & ->)|[Nn _]]; [auto|congruence].
      + split; [discriminate|]. intros [(_ & Lx & _)|[Nn _]]; [lia|congruence].
    - split.
      * intros Hx; right; split; auto.
      * intros [(Ex & _)|[_ Hx]]; [congruence|auto].
  Qed.

  Lemma occ_upd_mono : forall es j x j', occ es j' -> j' <> j -> occ (upd es j x) j'.
  Proof. intros es j x j' [e He] N. exists e. rewrite nth_error_upd_neq; auto. Qed.

  Lemma occ_upd_same : forall es j e, j < length es -> occ (upd es j (Some e)) j.
  Proof. intros. exists e. now apply nth_error_upd_eq. Qed.

  Lemma occ_upd_inv : forall es j x j', occ (upd es j x) j' -> j' <> j -> occ es j'.
  Proof. intros es j x j' [e He] N. exists e. rewrite nth_error_upd_neq in He; auto. Qed.

  Lemma occ_not_emp : forall es j, occ es j -> emp es j -> False.
  Proof. intros es j [e He] Hn. unfold ProofsProbe.emp in Hn. congruence. Qed.

  (** * validity *)
  (** every entry is reachable from its home slot through occupied slots, except possibly through
      the one slot [G] (the gap opened by a deletion in progress; [G = m] means no gap) *)
  Definition wvalid (m : nat) (es : list (option (K * V))) (G : nat) : Prop :=
    forall j k v, at_ es j k v ->
      exists i, i < m /\ P m k i = j /\ forall i', i' < i -> P m k i' = G \/ occ es (P m k i').
  Definition valid (m : nat) (es : list (option (K * V))) : Prop := wvalid m es m.

  Section FixM2.
    Variable m : nat.
    Variable e2 : nat.
    Hypothesis Hm : m = 2 ^ e2.

    Lemma some_emp_ahead : forall es k i len,
        length es = m -> len <= m -> nonnil (K * V) es < len ->
        exists i1, i <= i1 < i + len /\ emp es (P m k i1).
    Proof.
      intros es k i len L Hl Hn.
      destruct (exists_emp (K * V) es (map (P m k) (seq i len))) as (j & Hj & Hemp).
      - eapply P_window_NoDup; eauto.
      - intros j Hj. apply in_map_iff in Hj. destruct Hj as (x & <- & _). rewrite L. eapply P_lt; eauto.
      - now rewrite map_length, seq_length.
      - apply in_map_iff in Hj. destruct Hj as (x & <- & Hx). apply in_seq in Hx. exists x; split; auto.
    Qed.

    (** the search loop of Get / Put / Delete on a valid table *)
    Lemma lp_lookup : forall es k,
        length es = m -> valid m es -> distinct es -> nonnil (K * V) es < m ->
        exists i o, probe_loop (P m k) (key_is k) es m 0 = Ok (i, P m k i, o) /\ i < m /\
                    (forall i', i' < i -> occ es (P m k i')) /\
                    match o with
                    | None => emp es (P m k i) /\ forall j v, ~ at_ es j k v
                    | Some (k', v) => k' = k /\ at_ es (P m k i) k v
                    end.
    Proof.
      intros es k L Hv D Hn.
      destruct (some_emp_ahead es k 0 m L (le_n _) Hn) as (iz & Rz & Hz).
      destruct (probe_loop_total (K * V) (P m k) (key_is k) es m 0) as (i & o & Hp & R & Hend & Hpass).
      - intros. rewrite L. eapply P_lt; eauto.
      - exists iz; split; auto. intros (e & He & _). unfold ProofsProbe.emp in Hz. congruence.
      - exists i, o. split; [exact Hp|]. split; [lia|]. split.
        + intros i' Hi. destruct (Hpass i' ltac:(lia)) as (e & He & _). exists e; auto.
        + destruct o as [[k' v]|]; simpl in Hend.
          * destruct Hend as [A B]. unfold Model.key_is in B; simpl in B. apply eqb_spec in B. subst. split; auto.
          * split; auto. intros j v Hat.
            destruct (Hv j k v Hat) as (ik & Hik & Ej & Hpre).
            destruct (lt_eq_lt_dec ik i) as [[Lt|Eq]|Gt].
            -- destruct (Hpass ik ltac:(lia)) as (e & He & Hs). rewrite Ej in He. unfold at_ in Hat.
               rewrite Hat in He. inversion He; subst. unfold Model.key_is in Hs; simpl in Hs.
               rewrite (proj2 (eqb_spec k k) eq_refl) in Hs. discriminate.
            -- subst ik. rewrite Ej in Hend. unfold at_ in Hat. congruence.
            -- destruct (Hpre i Gt) as [Hg|Ho].
               ++ pose proof (P_lt m e2 Hm k i). lia.
               ++ eapply occ_not_emp; eauto.
    Qed.

    (** the search loop of Put for a key that is not in the table: no validity needed *)
    Lemma lp_insert_absent : forall es k,
        length es = m -> nonnil (K * V) es < m -> (forall j v, ~ at_ es j k v) ->
        exists i, probe_loop (P m k) (key_is k) es m 0 = Ok (i, P m k i, None) /\ i < m /\
                  emp es (P m k i) /\ forall i', i' < i -> occ es (P m k i').
    Proof.
      intros es k L Hn Habs.
      destruct (some_emp_ahead es k 0 m L (le_n _) Hn) as (iz & Rz & Hz).
      destruct (probe_loop_total (K * V) (P m k) (key_is k) es m 0) as (i & o & Hp & R & Hend & Hpass).
      - intros. rewrite L. eapply P_lt; eauto.
      - exists iz; split; auto. intros (e & He & _). unfold ProofsProbe.emp in Hz. congruence.
      - destruct o as [[k' v]|]; simpl in Hend.
        + destruct Hend as [A B]. unfold Model.key_is in B; simpl in B. apply eqb_spec in B. subst.
          exfalso. eapply Habs; eauto.
        + exists i. split; [exact Hp|]. split; [lia|]. split; auto.
          intros i' Hi. destruct (Hpass i' ltac:(lia)) as (e & He & _). exists e; auto.
    Qed.
  End FixM2.

  Lemma occ_upd_some : forall es j e x, j < length es -> occ es x -> occ (upd es j (Some e)) x.
  Proof.
    intros es j e x L H. destruct (Nat.eq_dec x j); [subst; now apply occ_upd_same|now apply occ_upd_mono].
  Qed.

  (** writing [(k, v)] into a slot that is reachable for [k] and is the only place where [k] may be *)
  Lemma upd_insert : forall m es G j k v i,
      j < length es ->
      i < m -> P m k i = j -> (forall i', i' < i -> occ es (P m k i')) ->
      (forall a v', at_ es a k v' -> a = j) ->
      (forall k1 v1, at_ es j k1 v1 -> k1 = k) ->
      wvalid m es G -> distinct es ->
      wvalid m (upd es j (Some (k, v))) G /\ distinct (upd es j (Some (k, v))) /\
      forall k1 v1, (exists a, at_ (upd es j (Some (k, v))) a k1 v1) <-> fupd (s_get (lp_list es)) k v k1 = Some v1.
  Proof.
    intros m es G j k v i Lj Hi Ej Hpre Honly Hslot Hv D.
    split; [|split].
    - intros a k1 v1 Hat. apply at_upd in Hat. destruct Hat as [(Ea & _ & E)|[Na Hat]].
      + subst a. inversion E; subst k1 v1. exists i. split; auto. split; auto.
        intros i' Hi'. right. apply occ_upd_some; auto.
      + destruct (Hv a k1 v1 Hat) as (i1 & A & B & C). exists i1. split; auto. split; auto.
        intros i' Hi'. destruct (C i' Hi') as [Hg|Ho]; auto. right. apply occ_upd_some; auto.
    - intros a b k1 v1 v2 Ha Hb. apply at_upd in Ha. apply at_upd in Hb.
      destruct Ha as [(Ja & _ & Ea)|[Na Ha]], Hb as [(Jb & _ & Eb)|[Nb Hb]].
      + congruence.
      + inversion Ea; subst k1 v1. exfalso. apply Nb. eapply Honly; eauto.
      + inversion Eb; subst k1 v2. exfalso. apply Na. eapply Honly; eauto.
      + eapply D; eauto.
    - intros k1 v1. unfold Spec.fupd. destruct (eqb k k1) eqn:Ek.
      + apply eqb_spec in Ek. subst k1. split.
        * intros (a & Hat). apply at_upd in Hat. destruct Hat as [(_ & _ & E)|[Na Hat]].
          -- now inversion E.
          -- exfalso. apply Na. eapply Honly; eauto.
        * intros E. inversion E; subst v1. exists j. apply at_upd. left; auto.
      + assert (Nk : k <> k1) by (intros ->; rewrite (proj2 (eqb_spec k1 k1) eq_refl) in Ek; discriminate).
        rewrite slots_of_fun by auto. split.
        * intros (a & Hat). apply at_upd in Hat. destruct Hat as [(_ & _ & E)|[Na Hat]].
          -- inversion E; congruence.
          -- exists a; auto.
        * intros (a & Hat). exists a. apply at_upd. right. split; auto.
          intros ->. apply Nk. symmetry. eapply Hslot; eauto.
  Qed.

  (** * the table invariant *)
  Definition lp_fun (t : lp) (k : K) : option V := s_get (lp_list (lp_e K V t)) k.

  Record lp_inv0 (t : lp) : Prop := {
    l_len : length (lp_e K V t) = lp_m K V t;
    l_pow : exists e, lp_m K V t = 2 ^ e /\ 5 <= e;
    l_valid : valid (lp_m K V t) (lp_e K V t);
    l_dist : distinct (lp_e K V t);
    l_n : lp_n K V t = nonnil (K * V) (lp_e K V t) }.

  Lemma lp_represents_id : forall t, lp_inv0 t -> represents (lp_list (lp_e K V t)) (lp_fun t).
  Proof. intros t I. apply represents_get; auto. apply distinct_NoDup, (l_dist _ I). Qed.

  Lemma lp_represents : forall t shuf, lp_inv0 t -> perm_oracle shuf -> represents (lp_all K V shuf t) (lp_fun t).
  Proof.
    intros t shuf I Pm. eapply represents_permuted; [|apply lp_represents_id; auto].
    apply Permutation_sym, lp_all_perm; auto.
  Qed.

  Lemma lp_n_length : forall t l, lp_inv0 t -> represents l (lp_fun t) -> lp_n K V t = length l.
  Proof.
    intros t l I R. rewrite (l_n _ I), <- lp_list_length. eapply represents_length; eauto.
    apply lp_represents_id; auto.
  Qed.

  Lemma lp_get_ok : forall t k, lp_inv0 t -> lp_n K V t < lp_m K V t -> lp_get K V eqb hash t k = Ok (lp_fun t k).
  Proof.
    intros t k I Hn. destruct (l_pow _ I) as (e & Em & He).
    destruct (lp_lookup (lp_m K V t) e Em (lp_e K V t) k (l_len _ I) (l_valid _ I) (l_dist _ I)) as (i & o & Hp & Hi & Hpre & Ho).
    { rewrite <- (l_n _ I); auto. }
    unfold lp_get. unfold P in Hp. rewrite Hp. simpl. f_equal. unfold lp_fun.
    destruct o as [[k' v]|]; simpl.
    - destruct Ho as [-> Hat]. symmetry. apply slots_of_fun; [apply (l_dist _ I)|]. eexists; eauto.
    - destruct Ho as [_ Habs]. destruct (s_get (lp_list (lp_e K V t)) k) as [v|] eqn:E; auto.
      apply slots_of_fun in E; [|apply (l_dist _ I)]. destruct E as (j & Hj). exfalso; eapply Habs; eauto.
  Qed.

  Lemma lp_put_core_ok : forall t k v, lp_inv0 t -> lp_n K V t < lp_m K V t ->
      exists t', lp_put_core K V eqb hash t k v = Ok t' /\ lp_inv0 t' /\
                 (forall k', lp_fun t' k' = fupd (lp_fun t) k v k') /\
                 lp_m K V t' = lp_m K V t /\
                 lp_n K V t' = match lp_fun t k with Some _ => lp_n K V t | None => S (lp_n K V t) end.
  Proof.
    intros t k v I Hn. destruct (l_pow _ I) as (e & Em & He).
    pose proof (l_len _ I) as L. pose proof (l_valid _ I) as Hv. pose proof (l_dist _ I) as D.
    destruct (lp_lookup (lp_m K V t) e Em (lp_e K V t) k L Hv D) as (i & o & Hp & Hi & Hpre & Ho).
    { rewrite <- (l_n _ I); auto. }
    unfold lp_put_core. unfold P in Hp. rewrite Hp. simpl. fold (P (lp_m K V t) k) in *.
    set (j := P (lp_m K V t) k i) in *.
    assert (Lj : j < length (lp_e K V t)) by (rewrite L; eapply P_lt; eauto).
    destruct o as [[k' v0]|].
    - destruct Ho as [-> Hat].
      destruct (upd_insert (lp_m K V t) (lp_e K V t) (lp_m K V t) j k v i) as (Hv' & D' & F'); auto.
      { intros a v' Ha. eapply D; eauto. }
      { intros k1 v1 Ha. unfold at_ in *. congruence. }
      eexists; split; [reflexivity|]. split; [|split; [|split]]; simpl.
      + constructor; simpl; auto.
        * now rewrite upd_length.
        * exists e; auto.
        * pose proof (nonnil_upd (K * V) (lp_e K V t) j (Some (k, v)) (Some (k, v0)) Hat) as Hnn. simpl in Hnn. rewrite (l_n _ I). lia.
      + intros k'. unfold lp_fun; simpl. apply fun_by_slots; auto.
      + reflexivity.
      + unfold lp_fun. rewrite (proj2 (slots_of_fun _ k v0 D)); auto. eexists; eauto.
    - destruct Ho as [Hemp Habs].
      destruct (upd_insert (lp_m K V t) (lp_e K V t) (lp_m K V t) j k v i) as (Hv' & D' & F'); auto.
      { intros a v' Ha. exfalso; eapply Habs; eauto. }
      { intros k1 v1 Ha. unfold at_, ProofsProbe.emp in *. congruence. }
      eexists; split; [reflexivity|]. split; [|split; [|split]]; simpl.
      + constructor; simpl; auto.
        * now rewrite upd_length.
        * exists e; auto.
        * pose proof (nonnil_upd (K * V) (lp_e K V t) j (Some (k, v)) None Hemp) as Hnn. simpl in Hnn. rewrite (l_n _ I). lia.
      + intros k'. unfold lp_fun; simpl. apply fun_by_slots; auto.
      + reflexivity.
      + unfold lp_fun. destruct (s_get (lp_list (lp_e K V t)) k) as [v0|] eqn:E; auto.
        apply slots_of_fun in E; auto. destruct E as (a & Ha). exfalso; eapply Habs; eauto.
  Qed.

  (** * the cluster re-insertion loop of Delete *)
  (** [G = P m k iG] is the current gap, [i] the next probe index of the deleted key [k]; the slots
      strictly between are occupied by entries that are already back in reachable positions; every
      other entry is reachable except possibly through the gap. *)
  Record rehash_inv (m : nat) (k : K) (es : list (option (K * V))) (G iG i : nat) : Prop := {
    r_len : length es = m;
    r_G : P m k iG = G;
    r_gap : emp es G;
    r_iG : iG < i /\ i <= iG + m;
    r_run : forall i', iG < i' < i -> occ es (P m k i');
    r_wv : wvalid m es G;
    r_done : forall i' k' v', iG < i' < i -> at_ es (P m k i') k' v' ->
                              exists i2, i2 < m /\ P m k' i2 = P m k i' /\ forall i3, i3 < i2 -> occ es (P m k' i3);
    r_dist : distinct es }.

  Section FixM3.
    Variable m : nat.
    Variable e2 : nat.
    Hypothesis Hm : m = 2 ^ e2.

    Lemma rehash_exit : forall k es G iG i,
        rehash_inv m k es G iG i -> emp es (P m k i) -> valid m es.
    Proof.
      intros k es G iG i R Hemp j k' v' Hat.
      destruct (r_wv _ _ _ _ _ _ R j k' v' Hat) as (i2 & Hi2 & Ej & Hpre).
      exists i2. split; auto. split; auto. intros i3 Hi3. right.
      destruct (Hpre i3 Hi3) as [HG|Ho]; auto. exfalso.
      (* the path of the entry crosses the gap at i3 *)
      set (t := i2 - i3).
      assert (Hrun : forall t', 1 <= t' <= t -> occ es (P m k (iG + t'))).
      { intros t' Ht'. rewrite (P_shift m e2 Hm k k' iG i3 t') by (rewrite (r_G _ _ _ _ _ _ R); auto).
        destruct (Nat.eq_dec t' t) as [->|Nt].
        - unfold t. replace (i3 + (i2 - i3)) with i2 by lia. rewrite Ej. eexists; eauto.
        - destruct (Hpre (i3 + t') ltac:(unfold t in *; lia)) as [HG'|Ho']; auto.
          rewrite <- HG in HG'. apply (P_inj' m e2 Hm) in HG'; unfold t in *; lia. }
      destruct (r_iG _ _ _ _ _ _ R) as [A B].
      destruct (le_lt_dec i (iG + t)) as [Hle|Hlt].
      - (* the cursor is inside the occupied run: its slot cannot be empty *)
        specialize (Hrun (i - iG) ltac:(lia)). replace (iG + (i - iG)) with i in Hrun by lia.
        eapply occ_not_emp; eauto.
      - (* the entry was already re-inserted: its whole path is occupied *)
        assert (Es : P m k (iG + t) = j).
        { rewrite (P_shift m e2 Hm k k' iG i3 t) by (rewrite (r_G _ _ _ _ _ _ R); auto).
          unfold t. replace (i3 + (i2 - i3)) with i2 by lia. exact Ej. }
        destruct (r_done _ _ _ _ _ _ R (iG + t) k' v' ltac:(unfold t in *; lia)) as (i2' & Hi2' & E' & Hall).
        { now rewrite Es. }
        rewrite Es, <- Ej in E'. apply (P_inj' m e2 Hm) in E'; auto. subst i2'.
        specialize (Hall i3 Hi3). rewrite HG in Hall. eapply occ_not_emp; eauto. apply (r_gap _ _ _ _ _ _ R).
    Qed.

    (** one iteration: the entry at the cursor is taken out and put back; it lands in its old slot or in
        the gap, and then the cursor's slot becomes the gap *)
    Lemma rehash_step : forall k es G iG i k' v',
        rehash_inv m k es G iG i -> at_ es (P m k i) k' v' ->
        let c := P m k i in
        let es1 := upd es c None in
        exists i2, probe_loop (P m k') (key_is k') es1 m 0 = Ok (i2, P m k' i2, None) /\
          let es2 := upd es1 (P m k' i2) (Some (k', v')) in
          exists G' iG', rehash_inv m k es2 G' iG' (S i) /\ iG <= iG' /\
            nonnil (K * V) es2 = nonnil (K * V) es /\
            (forall k1 v1, (exists a, at_ es2 a k1 v1) <-> (exists a, at_ es a k1 v1)) /\
            (forall x, emp es x -> x <> G -> emp es2 x).
    Proof.
      intros k es G iG i k' v' R Hat c es1.
      fold c in Hat.
      pose proof (r_len _ _ _ _ _ _ R) as L. pose proof (r_dist _ _ _ _ _ _ R) as D.
      pose proof (r_gap _ _ _ _ _ _ R) as HGe. pose proof (r_G _ _ _ _ _ _ R) as EG.
      destruct (r_iG _ _ _ _ _ _ R) as [A B].
      assert (Lc : c < length es) by (rewrite L; eapply P_lt; eauto).
      assert (LG : G < length es) by (rewrite L, <- EG; eapply P_lt; eauto).
      assert (NcG : c <> G) by (intros E; rewrite E in Hat; unfold at_, ProofsProbe.emp in *; congruence).
      assert (L1 : length es1 = m) by (unfold es1; now rewrite upd_length).
      assert (Hc1 : emp es1 c) by (unfold es1, ProofsProbe.emp; now apply nth_error_upd_eq).
      assert (Hn1 : nonnil (K * V) es1 + 1 = nonnil (K * V) es).
      { pose proof (nonnil_upd (K * V) es c None (Some (k', v')) Hat) as Hnn. simpl in Hnn. fold es1 in Hnn. lia. }
      assert (Habs : forall j v, ~ at_ es1 j k' v).
      { intros j v Hj. unfold es1 in Hj. apply at_upd in Hj. destruct Hj as [(_ & _ & E)|[Nj Hj]]; [discriminate|].
        apply Nj. eapply D; eauto. }
      destruct (lp_insert_absent m e2 Hm es1 k' L1) as (i2 & Hp & Hi2 & Hemp2 & Hpre2); auto.
      { pose proof (nonnil_le (K * V) es). lia. }
      exists i2. split; [exact Hp|]. intros es2.
      destruct (r_wv _ _ _ _ _ _ R c k' v' Hat) as (ic & Hic & Ec & Hprec).
      (* where the entry lands *)
      assert (Hland : P m k' i2 = c \/ P m k' i2 = G).
      { destruct (lt_eq_lt_dec i2 ic) as [[Lt|Eq]|Gt].
        - right. destruct (Hprec i2 Lt) as [HG|Ho]; auto. exfalso.
          assert (Nc : P m k' i2 <> c) by (rewrite <- Ec; intros E; apply (P_inj' m e2 Hm) in E; lia).
          eapply occ_not_emp; [apply occ_upd_mono with (j := c) (x := None); eauto|exact Hemp2].
        - left. now subst.
        - exfalso. specialize (Hpre2 ic Gt). rewrite Ec in Hpre2. eapply occ_not_emp; eauto. }
      assert (Hocc1 : forall x, occ es1 x -> occ es x).
      { intros x Hx. destruct (Nat.eq_dec x c) as [->|Nx]; [exfalso; eapply occ_not_emp; eauto|].
        eapply occ_upd_inv; eauto. }
      destruct Hland as [Ela|Ela].
      - (* back into its own slot: the array is unchanged *)
        assert (E2 : es2 = es).
        { unfold es2, es1. rewrite Ela, upd_upd_same. now apply upd_same. }
        rewrite E2. exists G, iG. split; [|split; [lia|split; [reflexivity|split; [tauto|auto]]]].
        constructor; auto.
        + split; try lia. destruct (Nat.eq_dec i (iG + m)); [|lia]. exfalso. apply NcG. unfold c.
          subst i. rewrite <- EG. symmetry. replace (iG + m) with (iG + 1 * m) by lia.
          rewrite !(P_nat m e2 Hm). rewrite Nat.add_assoc, Nat.mod_add; auto. eapply m_pos; eauto.
        + intros i' Hi'. destruct (Nat.eq_dec i' i) as [->|Ni]; [eexists; eauto|]. apply (r_run _ _ _ _ _ _ R); lia.
        + apply (r_wv _ _ _ _ _ _ R).
        + intros i' k1 v1 Hi' Hat1. destruct (Nat.eq_dec i' i) as [->|Ni].
          * fold c in Hat1. unfold at_ in *. rewrite Hat in Hat1. inversion Hat1; subst k1 v1.
            exists i2. split; [exact Hi2|]. split; [exact Ela|]. intros i3 Hi3. apply Hocc1. auto.
          * apply (r_done _ _ _ _ _ _ R i' k1 v1); auto. lia.
      - (* into the gap; the cursor's slot is the new gap *)
        assert (Hat2 : forall a k1 v1, at_ es2 a k1 v1 <->
                         (a = G /\ k1 = k' /\ v1 = v') \/ (a <> G /\ a <> c /\ at_ es a k1 v1)).
        { intros a k1 v1. unfold es2. rewrite Ela, at_upd. unfold es1 at 2. rewrite at_upd.
          rewrite L1. split.
          - intros [(-> & _ & E)|(N1 & [(_ & _ & E)|(N2 & H)])]; [inversion E; auto|discriminate|auto].
          - intros [(-> & -> & ->)|(N1 & N2 & H)]; [left; repeat split; auto; lia|right; split; auto]. }
        assert (Hocc2 : forall x, occ es x -> x <> c -> occ es2 x).
        { intros x Hx Nx. unfold es2. rewrite Ela. apply occ_upd_some; [unfold es1; rewrite upd_length; auto|].
          unfold es1. apply occ_upd_mono; auto. }
        assert (HoccG : occ es2 G).
        { unfold es2. rewrite Ela. apply occ_upd_same. unfold es1. now rewrite upd_length. }
        exists c, i. split; [|split; [lia|split; [|split]]].
        + constructor.
          * unfold es2, es1. now rewrite !upd_length.
          * reflexivity.
          * unfold es2, ProofsProbe.emp. rewrite Ela, nth_error_upd_neq; auto.
          * lia.
          * intros; lia.
          * intros a k1 v1 Ha. apply Hat2 in Ha. destruct Ha as [(-> & -> & ->)|(N1 & N2 & Ha)].
            -- exists i2. split; auto. split; auto. intros i3 Hi3. right.
               specialize (Hpre2 i3 Hi3). apply Hocc2; [now apply Hocc1|].
               intros E. rewrite E in Hpre2. exact (occ_not_emp es1 c Hpre2 Hc1).
            -- destruct (r_wv _ _ _ _ _ _ R a k1 v1 Ha) as (i1 & Hi1 & E1 & Hp1).
               exists i1. split; auto. split; auto. intros i3 Hi3.
               destruct (Hp1 i3 Hi3) as [HG|Ho].
               ++ right. now rewrite HG.
               ++ destruct (Nat.eq_dec (P m k1 i3) c) as [Ec'|Nc']; [left; auto|right; apply Hocc2; auto].
          * intros; lia.
          * intros a b k1 v1 v2 Ha Hb. apply Hat2 in Ha. apply Hat2 in Hb.
            destruct Ha as [(-> & -> & ->)|(N1 & N2 & Ha)], Hb as [(-> & E1 & E2)|(N3 & N4 & Hb)]; auto.
            -- exfalso. apply N4. eapply D; eauto.
            -- subst k1. exfalso. apply N2. eapply D; eauto.
            -- eapply D; eauto.
        + pose proof (nonnil_upd (K * V) es1 (P m k' i2) (Some (k', v')) None Hemp2) as Hnn. simpl in Hnn.
          fold es2 in Hnn. lia.
        + intros k1 v1. split.
          * intros (a & Ha). apply Hat2 in Ha. destruct Ha as [(-> & -> & ->)|(N1 & N2 & Ha)]; eauto.
          * intros (a & Ha). destruct (Nat.eq_dec a c) as [->|Na].
            -- unfold at_ in *. rewrite Hat in Ha. inversion Ha; subst k1 v1. exists G. apply Hat2. left; auto.
            -- exists a. apply Hat2. right. split; [|split; auto].
               intros ->. unfold at_, ProofsProbe.emp in *. congruence.
        + intros x Hx Nx. unfold es2, ProofsProbe.emp. rewrite Ela, nth_error_upd_neq by auto.
          unfold es1. rewrite nth_error_upd_neq; auto.
          intros ->. unfold at_, ProofsProbe.emp in *. congruence.
    Qed.
  End FixM3.

  Lemma lp_put_noresize : forall d shuf t k v,
      lf_ge (lp_n K V t) (lp_m K V t) maxlf = false ->
      lp_put K V eqb hash maxlf d shuf t k v = lp_put_core K V eqb hash t k v.
  Proof. intros d shuf t k v H. destruct d; simpl; rewrite H; reflexivity. Qed.

  Lemma lf_ge_mono : forall a b m f, a <= b -> lf_ge b m f = false -> lf_ge a m f = false.
  Proof. intros a b m f Hab H. apply lf_ge_false in H. apply lf_ge_false. nia. Qed.

  Lemma at_nonnil_pos : forall es j k v, at_ es j k v -> 0 < nonnil (K * V) es.
  Proof.
    intros es j k v H. pose proof (nonnil_upd (K * V) es j None (Some (k, v)) H) as Hn. simpl in Hn. lia.
  Qed.

  Lemma lp_rehash_ok : forall fuel d shuf k e2 t G iG i iZ,
      lp_m K V t = 2 ^ e2 ->
      rehash_inv (lp_m K V t) k (lp_e K V t) G iG i -> lp_n K V t = nonnil (K * V) (lp_e K V t) ->
      lf_ge (pred (lp_n K V t)) (lp_m K V t) maxlf = false ->
      i <= iZ -> iZ < iG + lp_m K V t -> emp (lp_e K V t) (P (lp_m K V t) k iZ) -> iZ - i < fuel ->
      exists t', lp_rehash K V eqb hash maxlf d shuf (h_pow2 K hash (lp_m K V t) k) (lp_m K V t) fuel i t = Ok t' /\
         lp_m K V t' = lp_m K V t /\ length (lp_e K V t') = lp_m K V t /\
         valid (lp_m K V t) (lp_e K V t') /\ distinct (lp_e K V t') /\
         lp_n K V t' = nonnil (K * V) (lp_e K V t') /\ lp_n K V t' = lp_n K V t /\
         forall k1 v1, (exists a, at_ (lp_e K V t') a k1 v1) <-> (exists a, at_ (lp_e K V t) a k1 v1).
  Proof.
    induction fuel as [|f IH]; intros d shuf k e2 t G iG i iZ Hm R Hn Hlf Hi HiZ HZ Hf; [lia|].
    simpl. fold (P (lp_m K V t) k i).
    pose proof (r_len _ _ _ _ _ _ R) as L.
    destruct (nth_error (lp_e K V t) (P (lp_m K V t) k i)) as [[[k' v']|]|] eqn:En.
    - (* an entry: take it out and put it back *)
      destruct (rehash_step (lp_m K V t) e2 Hm k (lp_e K V t) G iG i k' v' R En) as (i2 & Hp & G' & iG' & R' & HiG & Hnn & Hcont & Hkeep).
      rewrite lp_put_noresize by (simpl; exact Hlf).
      unfold lp_put_core. cbn [lp_e lp_m lp_n].
      change (lin_idx (h_pow2 K hash (lp_m K V t) k') (lp_m K V t)) with (P (lp_m K V t) k').
      rewrite Hp. cbn [bind].
      set (t2 := {| lp_e := upd (upd (lp_e K V t) (P (lp_m K V t) k i) None) (P (lp_m K V t) k' i2) (Some (k', v'));
                    lp_m := lp_m K V t; lp_n := S (pred (lp_n K V t)) |}).
      pose proof (at_nonnil_pos _ _ _ _ En) as Hpos.
      assert (N2 : lp_n K V t2 = lp_n K V t) by (simpl; lia).
      assert (A1 : lp_n K V t2 = nonnil (K * V) (lp_e K V t2)) by (simpl; rewrite Hnn; lia).
      assert (A2 : lf_ge (pred (lp_n K V t2)) (lp_m K V t2) maxlf = false) by (simpl; exact Hlf).
      assert (A3 : S i <= iZ).
      { destruct (Nat.eq_dec iZ i); [|lia]. subst iZ. unfold ProofsProbe.emp in HZ. congruence. }
      assert (A4 : iZ < iG' + lp_m K V t2) by (simpl; lia).
      assert (A5 : emp (lp_e K V t2) (P (lp_m K V t2) k iZ)).
      { simpl. apply Hkeep; auto.
        rewrite <- (r_G _ _ _ _ _ _ R). intros E. destruct (r_iG _ _ _ _ _ _ R).
        symmetry in E. apply (P_inj (lp_m K V t) e2 Hm) in E; lia. }
      destruct (IH d shuf k e2 t2 G' iG' (S i) iZ Hm R' A1 A2 A3 A4 A5 ltac:(lia))
        as (t' & Hr & M' & L' & V' & D' & Nn' & Ne' & C').
      exists t'. simpl in *. split; [exact Hr|]. split; [auto|]. split; [auto|]. split; [auto|]. split; [auto|].
      split; [auto|]. split; [lia|]. intros k1 v1. rewrite C'. apply Hcont.
    - (* the end of the cluster *)
      exists t. split; [reflexivity|]. split; [auto|]. split; [auto|]. split; [|split; [apply (r_dist _ _ _ _ _ _ R)|]].
      + eapply rehash_exit; eauto.
      + split; auto. split; auto. tauto.
    - apply nth_error_None in En. rewrite L in En. pose proof (P_lt (lp_m K V t) e2 Hm k i). lia.
  Qed.

  (** * resize *)
  Lemma s_get_app' : forall a b k, s_get (a ++ b) k = match s_get a k with Some v => Some v | None => s_get b k end.
  Proof.
    induction a as [|[x w] a IH]; simpl; intros b k; auto.
    unfold Spec.s_get in *; simpl. destruct (eqb x k); auto.
  Qed.

  Lemma lp_reinsert_ok : forall d shuf rest pre acc,
      NoDup (keys (pre ++ rest)) -> lp_inv0 acc ->
      (forall k, lp_fun acc k = s_get pre k) ->
      length (pre ++ rest) < lp_m K V acc ->
      (forall i, i < length (pre ++ rest) -> lf_ge i (lp_m K V acc) maxlf = false) ->
      exists t', reinsert K V (lp_put K V eqb hash maxlf d shuf) rest acc = Ok t' /\ lp_inv0 t' /\
                 (forall k, lp_fun t' k = s_get (pre ++ rest) k) /\ lp_m K V t' = lp_m K V acc.
  Proof.
    intros d shuf rest. induction rest as [|[k v] rest IH]; intros pre acc ND I F Hlen L.
    - exists acc. rewrite app_nil_r. split; [reflexivity|]. split; [exact I|]. split; [exact F|reflexivity].
    - rewrite reinsert_cons.
      assert (NDpre : NoDup (keys pre)).
      { unfold Spec.keys in *. rewrite map_app in ND. eapply NoDup_app_l. exact ND. }
      assert (Hn : lp_n K V acc = length pre).
      { apply lp_n_length; auto. eapply represents_ext; [apply represents_get; eauto|]. intros; now rewrite F. }
      rewrite app_length in Hlen. simpl in Hlen.
      rewrite lp_put_noresize by (rewrite Hn; apply L; rewrite app_length; simpl; lia).
      destruct (lp_put_core_ok acc k v I ltac:(lia)) as (t1 & H1 & I1 & F1 & M1 & _).
      rewrite H1; simpl.
      assert (Hk : ~ In k (keys pre)).
      { unfold Spec.keys in *. rewrite map_app in ND. simpl in ND. apply NoDup_remove_2 in ND.
        intros H; apply ND. apply in_or_app; auto. }
      destruct (IH (pre ++ [(k, v)]) t1) as (t' & H' & I' & F' & M').
      + now rewrite <- app_assoc.
      + exact I1.
      + intros k'. rewrite F1, s_get_app'. unfold Spec.fupd. rewrite F.
        destruct (eqb k k') eqn:E.
        * apply eqb_spec in E; subst k'.
          rewrite (proj2 (s_get_None K V eqb eqb_spec pre k) Hk).
          unfold Spec.s_get; simpl. now rewrite (proj2 (eqb_spec k k) eq_refl).
        * destruct (s_get pre k'); auto. unfold Spec.s_get; simpl. now rewrite E.
      + rewrite M1, <- app_assoc, app_length. simpl. lia.
      + intros i Hi. rewrite M1. apply L. now rewrite <- app_assoc in Hi.
      + exists t'. rewrite <- app_assoc in F'. simpl in F'.
        split; [exact H'|]. split; [exact I'|]. split; [exact F'|congruence].
  Qed.

  Lemma lp_new_ok : forall e, 5 <= e ->
      exists t, lp_new K V (2 ^ e) = Ok t /\ lp_inv0 t /\ (forall k, lp_fun t k = None) /\
                lp_m K V t = 2 ^ e /\ lp_n K V t = 0.
  Proof.
    intros e He. unfold lp_new.
    assert (L : 32 <= 2 ^ e).
    { change 32 with (2 ^ 5). apply Nat.pow_le_mono_r; lia. }
    unfold lpMinM. destruct (Nat.ltb_spec (2 ^ e) 32); [lia|]. rewrite is_pow2_pow. simpl.
    assert (Hnone : forall j k v, ~ at_ (repeat None (2 ^ e)) j k v).
    { intros j k v H0. unfold at_ in H0. apply nth_error_repeat_inv in H0. destruct H0; discriminate. }
    eexists; split; [reflexivity|]. split; [|split; [|split; reflexivity]].
    - constructor; simpl.
      + apply repeat_length.
      + exists e; auto.
      + intros j k v H0. exfalso; eapply Hnone; eauto.
      + intros j j' k v v' H0. exfalso; eapply Hnone; eauto.
      + now rewrite nonnil_repeat.
    - intros k. unfold lp_fun; simpl.
      destruct (s_get (lp_list (repeat None (2 ^ e))) k) eqn:E; auto.
      apply s_get_In in E; auto. apply In_lp_list in E. destruct E as (j & Hj). exfalso; eapply Hnone; eauto.
  Qed.

  Lemma lp_resize_ok : forall d shuf t e,
      lp_inv0 t -> perm_oracle shuf -> 5 <= e -> lp_n K V t < 2 ^ e ->
      (forall i, i < lp_n K V t -> lf_ge i (2 ^ e) maxlf = false) ->
      exists t', lp_resize_with K V (lp_put K V eqb hash maxlf d shuf) shuf t (2 ^ e) = Ok t' /\ lp_inv0 t' /\
                 (forall k, lp_fun t' k = lp_fun t k) /\ lp_m K V t' = 2 ^ e /\ lp_n K V t' = lp_n K V t.
  Proof.
    intros d shuf t e I Pm He Hlt L. unfold lp_resize_with.
    assert (L32 : 32 <= 2 ^ e) by (change 32 with (2 ^ 5); apply Nat.pow_le_mono_r; lia).
    unfold lpMinM. destruct (Nat.ltb_spec (2 ^ e) 32); [lia|].
    destruct (lp_new_ok e He) as (nt & Hn & In & Fn & Mn & Nn). rewrite Hn; simpl.
    pose proof (lp_represents t shuf I Pm) as R.
    pose proof (lp_n_length t _ I R) as Hlen.
    destruct (lp_reinsert_ok d shuf (lp_all K V shuf t) [] nt) as (t' & H' & I' & F' & M').
    - simpl. apply R.
    - exact In.
    - intros k. rewrite Fn. reflexivity.
    - simpl. rewrite Mn. lia.
    - simpl. intros i Hi. rewrite Mn. apply L. lia.
    - rewrite H'; simpl. simpl in F'.
      assert (Ft : forall k, lp_fun t' k = lp_fun t k).
      { intros k. rewrite F'. symmetry. apply represents_fun; auto. }
      set (t2 := {| lp_e := lp_e K V t'; lp_m := lp_m K V t'; lp_n := lp_n K V t' |}).
      assert (E2 : t2 = t') by (destruct t'; reflexivity).
      exists t2. rewrite E2. split; [reflexivity|]. split; [exact I'|]. split; [exact Ft|]. split; [congruence|].
      rewrite (lp_n_length t' (lp_all K V shuf t) I'); [lia|].
      eapply represents_ext; [exact R|]. intros; now rewrite Ft.
  Qed.

  (** * options, load invariant, Put and Delete *)
  Definition valid_open : Prop :=
    0 < lf_den maxlf /\ 0 < lf_den minlf /\
    2 * lf_num maxlf <= lf_den maxlf /\                                   (* maxLF <= 1/2 *)
    lf_den maxlf <= lf_num maxlf * 31.                                     (* maxLF * minimum size >= 1 *)

  Definition lp_load (t : lp) : Prop :=
    lp_n K V t = 0 \/ (lp_n K V t - 1) * lf_den maxlf < lf_num maxlf * lp_m K V t.

  Definition lp_inv (t : lp) : Prop := lp_inv0 t /\ lp_load t.

  Hypothesis Hvalid : valid_open.

  Lemma lp_load_half : forall t, lp_inv t -> 2 * lp_n K V t <= lp_m K V t /\ 32 <= lp_m K V t.
  Proof.
    intros t [I Ld]. destruct Hvalid as (D1 & D2 & D3 & D4).
    destruct (l_pow _ I) as (e & Em & He).
    assert (M32 : 32 <= lp_m K V t).
    { rewrite Em. change 32 with (2 ^ 5). apply Nat.pow_le_mono_r; lia. }
    split; auto.
    assert (Ev : exists h, lp_m K V t = 2 * h).
    { destruct e as [|e]; [lia|]. exists (2 ^ e). rewrite Em, Nat.pow_succ_r'. reflexivity. }
    destruct Ev as (h & Eh). destruct Ld as [Z|Ld]; [lia|].
    assert (Hlt : 2 * (lp_n K V t - 1) < lp_m K V t).
    { apply Nat.mul_lt_mono_pos_r with (p := lf_den maxlf); auto.
      apply Nat.lt_le_trans with (2 * (lf_num maxlf * lp_m K V t)); [lia|].
      rewrite Nat.mul_assoc. rewrite (Nat.mul_comm (lp_m K V t)). apply Nat.mul_le_mono_r. exact D3. }
    lia.
  Qed.

  Lemma lp_put_ok : forall d shuf t k v, 1 <= d -> lp_inv t -> perm_oracle shuf ->
      exists t', lp_put K V eqb hash maxlf d shuf t k v = Ok t' /\ lp_inv t' /\
                 forall k', lp_fun t' k' = fupd (lp_fun t) k v k'.
  Proof.
    intros d shuf t k v Hd Hinv Pm. pose proof Hinv as [I Ld].
    destruct (lp_load_half t Hinv) as [Hhalf M32].
    destruct Hvalid as (D1 & D2 & D3 & D4).
    destruct d as [|d]; [lia|]. simpl.
    destruct (l_pow _ I) as (e & Em & He).
    destruct (lf_ge (lp_n K V t) (lp_m K V t) maxlf) eqn:G.
    - apply lf_ge_true in G.
      destruct (lp_resize_ok d shuf t (S e) I Pm ltac:(lia)) as (t1 & H1 & I1 & F1 & M1 & N1).
      { rewrite Nat.pow_succ_r', <- Em. lia. }
      { intros i Hi. apply lf_ge_false. rewrite Nat.pow_succ_r', <- Em.
        destruct Ld as [Z|Ld]; [lia|]. nia. }
      replace (lp_m K V t + (lp_m K V t + 0)) with (2 ^ S e) by (rewrite Nat.pow_succ_r', Em; lia).
      rewrite H1; simpl.
      destruct (lp_put_core_ok t1 k v I1) as (t2 & H2 & I2 & F2 & M2 & N2).
      { rewrite M1, N1, Nat.pow_succ_r', <- Em. lia. }
      exists t2. split; [exact H2|]. split.
      + split; auto. right. rewrite M2, M1, Nat.pow_succ_r', <- Em.
        assert (lp_n K V t2 <= S (lp_n K V t)) by (rewrite N2, N1; destruct (lp_fun t1 k); lia).
        destruct Ld as [Z|Ld]; nia.
      + intros k'. rewrite F2. unfold Spec.fupd. now rewrite F1.
    - apply lf_ge_false in G. simpl.
      destruct (lp_put_core_ok t k v I ltac:(lia)) as (t2 & H2 & I2 & F2 & M2 & N2).
      exists t2. split; [exact H2|]. split; auto.
      split; auto. right. rewrite M2.
      assert (lp_n K V t2 <= S (lp_n K V t)) by (rewrite N2; destruct (lp_fun t k); lia).
      nia.
  Qed.

  (** the re-insertion loop of a shrink: the rebuilt table may grow again while entries are re-inserted
      (maxLF < 2*minLF); every step is an ordinary Put on a table that satisfies the invariant *)
  Lemma lp_reinsert_gen : forall d shuf rest pre acc,
      1 <= d -> perm_oracle shuf ->
      NoDup (keys (pre ++ rest)) -> lp_inv acc ->
      (forall k, lp_fun acc k = s_get pre k) ->
      exists t', reinsert K V (lp_put K V eqb hash maxlf d shuf) rest acc = Ok t' /\ lp_inv t' /\
                 (forall k, lp_fun t' k = s_get (pre ++ rest) k).
  Proof.
    intros d shuf rest. induction rest as [|[k v] rest IH]; intros pre acc Hd P ND I F.
    - exists acc. rewrite app_nil_r. split; [reflexivity|]. split; [exact I|exact F].
    - rewrite reinsert_cons.
      destruct (lp_put_ok d shuf acc k v Hd I P) as (t1 & H1 & I1 & F1). rewrite H1; simpl.
      assert (Hk : ~ In k (keys pre)).
      { unfold Spec.keys in *. rewrite map_app in ND. simpl in ND. apply NoDup_remove_2 in ND.
        intros H; apply ND. apply in_or_app; auto. }
      destruct (IH (pre ++ [(k, v)]) t1 Hd P) as (t' & H' & I' & F').
      + now rewrite <- app_assoc.
      + exact I1.
      + intros k'. rewrite F1, s_get_app'. unfold Spec.fupd. rewrite F.
        destruct (eqb k k') eqn:E.
        * apply eqb_spec in E; subst k'.
          rewrite (proj2 (s_get_None K V eqb eqb_spec pre k) Hk).
          unfold Spec.s_get; simpl. now rewrite (proj2 (eqb_spec k k) eq_refl).
        * destruct (s_get pre k'); auto. unfold Spec.s_get; simpl. now rewrite E.
      + exists t'. rewrite <- app_assoc in F'. simpl in F'. split; [exact H'|]. split; [exact I'|exact F'].
  Qed.

  Lemma lp_resize_gen : forall d shuf t e,
      1 <= d -> lp_inv0 t -> perm_oracle shuf -> 5 <= e ->
      exists t', lp_resize_with K V (lp_put K V eqb hash maxlf d shuf) shuf t (2 ^ e) = Ok t' /\ lp_inv t' /\
                 (forall k, lp_fun t' k = lp_fun t k) /\ lp_n K V t' = lp_n K V t.
  Proof.
    intros d shuf t e Hd I Pm He. unfold lp_resize_with.
    assert (L32 : 32 <= 2 ^ e) by (change 32 with (2 ^ 5); apply Nat.pow_le_mono_r; lia).
    unfold lpMinM. destruct (Nat.ltb_spec (2 ^ e) 32); [lia|].
    destruct (lp_new_ok e He) as (nt & Hn & In & Fn & Mn & Nn). rewrite Hn; simpl.
    pose proof (lp_represents t shuf I Pm) as R.
    destruct (lp_reinsert_gen d shuf (lp_all K V shuf t) [] nt Hd Pm) as (t' & H' & I' & F').
    - simpl. apply R.
    - split; auto. left; auto.
    - intros k. rewrite Fn. reflexivity.
    - rewrite H'; simpl. simpl in F'.
      assert (Ft : forall k, lp_fun t' k = lp_fun t k).
      { intros k. rewrite F'. symmetry. apply represents_fun; auto. }
      set (t2 := {| lp_e := lp_e K V t'; lp_m := lp_m K V t'; lp_n := lp_n K V t' |}).
      assert (E2 : t2 = t') by (destruct t'; reflexivity).
      exists t2. rewrite E2. split; [reflexivity|]. split; [exact I'|]. split; [exact Ft|].
      rewrite (lp_n_length t' (lp_all K V shuf t) (proj1 I')).
      + symmetry. apply lp_n_length; auto.
      + eapply represents_ext; [exact R|]. intros; now rewrite Ft.
  Qed.

  Lemma frem_absent : forall (f : K -> option V) k k', f k = None -> frem f k k' = f k'.
  Proof.
    intros f k k' H. unfold Spec.frem. destruct (eqb k k') eqn:E; auto. apply eqb_spec in E. now subst.
  Qed.

  Lemma lp_delete_ok : forall d shuf t k, 1 <= d -> lp_inv t -> perm_oracle shuf ->
      exists t', lp_delete K V eqb hash minlf maxlf d shuf t k = Ok (t', lp_fun t k) /\ lp_inv t' /\
                 forall k', lp_fun t' k' = frem (lp_fun t) k k'.
  Proof.
    intros d shuf t k Hd Hinv Pm. pose proof Hinv as [I Ld].
    destruct (lp_load_half t Hinv) as [Hhalf M32].
    destruct Hvalid as (D1 & D2 & D3 & D4).
    destruct (l_pow _ I) as (e & Em & He).
    pose proof (l_len _ I) as L. pose proof (l_valid _ I) as Hv. pose proof (l_dist _ I) as D.
    pose proof (l_n _ I) as Nn.
    destruct (lp_lookup (lp_m K V t) e Em (lp_e K V t) k L Hv D) as (i0 & o & Hp & Hi0 & Hpre & Ho).
    { rewrite <- Nn. lia. }
    unfold lp_delete.
    change (lin_idx (h_pow2 K hash (lp_m K V t) k) (lp_m K V t)) with (P (lp_m K V t) k).
    rewrite Hp. cbn [bind].
    destruct o as [[k0 v0]|].
    - destruct Ho as [-> Hat].
      set (j0 := P (lp_m K V t) k i0) in *.
      set (es1 := upd (lp_e K V t) j0 None).
      set (t1 := {| lp_e := es1; lp_m := lp_m K V t; lp_n := pred (lp_n K V t) |}).
      assert (Hfun : lp_fun t k = Some v0).
      { unfold lp_fun. apply slots_of_fun; auto. eexists; eauto. }
      assert (Lj0 : j0 < length (lp_e K V t)) by (rewrite L; eapply P_lt; eauto).
      assert (Hnn1 : nonnil (K * V) es1 + 1 = nonnil (K * V) (lp_e K V t)).
      { pose proof (nonnil_upd (K * V) (lp_e K V t) j0 None (Some (k, v0)) Hat) as Hn. simpl in Hn. fold es1 in Hn. lia. }
      assert (Hat1 : forall a k1 v1, at_ es1 a k1 v1 <-> a <> j0 /\ at_ (lp_e K V t) a k1 v1).
      { intros a k1 v1. unfold es1. rewrite at_upd. split.
        - intros [(_ & _ & E)|H]; [discriminate|auto].
        - intros H; right; auto. }
      assert (R1 : rehash_inv (lp_m K V t1) k (lp_e K V t1) j0 i0 (S i0)).
      { simpl. constructor.
        - unfold es1. now rewrite upd_length.
        - reflexivity.
        - unfold es1, ProofsProbe.emp. now apply nth_error_upd_eq.
        - lia.
        - intros; lia.
        - intros a k1 v1 Ha. apply Hat1 in Ha. destruct Ha as [Na Ha].
          destruct (Hv a k1 v1 Ha) as (i1 & Hi1 & E1 & Hp1). exists i1. split; auto. split; auto.
          intros i' Hi'. destruct (Hp1 i' Hi') as [Hg|Ho'].
          + pose proof (P_lt (lp_m K V t) e Em k1 i'). lia.
          + destruct (Nat.eq_dec (P (lp_m K V t) k1 i') j0); [left; auto|right].
            unfold es1. apply occ_upd_mono; auto.
        - intros; lia.
        - intros a b k1 v1 v2 Ha Hb. apply Hat1 in Ha. apply Hat1 in Hb. eapply D; [apply Ha|apply Hb]. }
      destruct (some_emp_ahead (lp_m K V t) e Em (lp_e K V t) k (S i0) (lp_m K V t - 1) L) as (iZ & RZ & HZ); try lia.
      assert (HZ1 : emp (lp_e K V t1) (P (lp_m K V t1) k iZ)).
      { simpl. unfold es1, ProofsProbe.emp. rewrite nth_error_upd; auto.
        destruct (Nat.eqb_spec j0 (P (lp_m K V t) k iZ)); auto.
        destruct (Nat.ltb_spec (P (lp_m K V t) k iZ) (length (lp_e K V t))); auto.
        pose proof (P_lt (lp_m K V t) e Em k iZ). lia. }
      destruct (lp_rehash_ok (lp_m K V t) d shuf k e t1 j0 i0 (S i0) iZ) as (t2 & Hr & M2 & L2 & V2 & D2' & Nn2 & Ne2 & C2); auto.
      { simpl. lia. }
      { simpl. apply lf_ge_false. destruct Ld as [Z|Ld]; [lia|]. nia. }
      { lia. }
      { simpl. lia. }
      { simpl. lia. }
      change (lp_m K V t1) with (lp_m K V t) in *. change (lp_n K V t1) with (pred (lp_n K V t)) in *.
      change (lp_e K V t1) with es1 in *.
      fold t1. rewrite Hr. cbn [bind].
      assert (I2 : lp_inv0 t2).
      { constructor; auto; try congruence.
        - exists e. rewrite M2. auto.
        - rewrite M2. exact V2. }
      assert (F2 : forall k', lp_fun t2 k' = frem (lp_fun t) k k').
      { intros k'. unfold lp_fun at 1. apply fun_by_slots; auto.
        intros k1 v1. rewrite C2. simpl. unfold Spec.frem. split.
        - intros (a & Ha). apply Hat1 in Ha. destruct Ha as [Na Ha].
          destruct (eqb k k1) eqn:Ek.
          + apply eqb_spec in Ek. subst k1. exfalso. apply Na. eapply D; eauto.
          + unfold lp_fun. apply slots_of_fun; auto. eexists; eauto.
        - destruct (eqb k k1) eqn:Ek; [discriminate|]. intros Hf.
          unfold lp_fun in Hf. apply slots_of_fun in Hf; auto. destruct Hf as (a & Ha).
          exists a. apply Hat1. split; auto. intros ->. unfold at_ in *. rewrite Hat in Ha. inversion Ha; subst k1.
          rewrite (proj2 (eqb_spec k k) eq_refl) in Ek. discriminate. }
      assert (N2 : lp_n K V t2 = pred (lp_n K V t)) by (rewrite Ne2; reflexivity).
      assert (Ld2 : lp_load t2).
      { unfold lp_load. rewrite M2, N2. destruct Ld as [Z|Ld]; [left; lia|]. right.
        apply Nat.le_lt_trans with ((lp_n K V t - 1) * lf_den maxlf); [apply Nat.mul_le_mono_r; lia|exact Ld]. }
      rewrite Hfun.
      destruct (lf_le (lp_n K V t2) (lp_m K V t2) minlf) eqn:G; cbv beta iota.
      + unfold lp_resize. rewrite M2.
        destruct (Nat.eq_dec e 5) as [E5|E5].
        * unfold lp_resize_with. rewrite Em, E5. simpl.
          exists t2. split; [reflexivity|]. split; [split; auto|exact F2].
        * destruct e as [|e]; [lia|].
          assert (Hhalf2 : lp_m K V t / 2 = 2 ^ e).
          { rewrite Em, Nat.pow_succ_r', Nat.mul_comm, Nat.div_mul; lia. }
          rewrite Hhalf2.
          destruct (lp_resize_gen d shuf t2 e Hd I2 Pm ltac:(lia)) as (t3 & H3 & I3 & F3 & N3).
          rewrite H3. cbn [bind]. exists t3. split; [reflexivity|]. split; [exact I3|].
          intros k'. now rewrite F3, F2.
      + exists t2. split; [reflexivity|]. split; [split; auto|exact F2].
    - destruct Ho as [Hemp Habs].
      assert (Hfun : lp_fun t k = None).
      { unfold lp_fun. destruct (s_get (lp_list (lp_e K V t)) k) as [v0|] eqn:E; auto.
        apply slots_of_fun in E; auto. destruct E as (a & Ha). exfalso; eapply Habs; eauto. }
      exists t. rewrite Hfun. split; [reflexivity|]. split; [exact Hinv|].
      intros k'. symmetry. now apply frem_absent.
  Qed.

  Lemma lp_delete_all_ok : forall t, lp_inv t ->
      lp_inv (lp_delete_all K V t) /\ forall k, lp_fun (lp_delete_all K V t) k = None.
  Proof.
    intros t [I Ld]. unfold lp_delete_all.
    assert (Hnone : forall j k v, ~ at_ (repeat None (lp_m K V t)) j k v).
    { intros j k v H0. unfold at_ in H0. apply nth_error_repeat_inv in H0. destruct H0; discriminate. }
    split; [split|].
    - constructor; simpl.
      + apply repeat_length.
      + apply (l_pow _ I).
      + intros j k v H0. exfalso; eapply Hnone; eauto.
      + intros j j' k v v' H0. exfalso; eapply Hnone; eauto.
      + now rewrite nonnil_repeat.
    - left; reflexivity.
    - intros k. unfold lp_fun; simpl.
      destruct (s_get (lp_list (repeat None (lp_m K V t))) k) eqn:E; auto.
      apply s_get_In in E; auto. apply In_lp_list in E. destruct E as (j & Hj). exfalso; eapply Hnone; eauto.
  Qed.

  Lemma lp_size_ok : forall t, lp_inv0 t -> lp_n K V t = length (lp_all K V (fun l => l) t).
  Proof. intros t I. rewrite lp_all_id, lp_list_length. apply (l_n _ I). Qed.

  Lemma lp_get_ok' : forall t k, lp_inv t -> lp_get K V eqb hash t k = Ok (lp_fun t k).
  Proof. intros t k Hinv. destruct (lp_load_half t Hinv). apply lp_get_ok; [apply Hinv|lia]. Qed.
End Linear.

(** * the refinement theorem for linear probing *)
Section LinearTop.
  Variables K V : Type.
  Variable eqb : K -> K -> bool.
  Variable eqv : V -> V -> bool.
  Variable hash : K -> N.
  Variables minlf maxlf : lf.
  Hypothesis eqb_spec : forall a b, eqb a b = true <-> a = b.
  Hypothesis Hvalid : valid_open minlf maxlf.

  Definition valid_cap_linear (cap : nat) : Prop := cap = 0 \/ exists e, 5 <= e /\ cap = 2 ^ e.

  Definition li_Inv (t : table K V) : Prop :=
    match t with TLP _ _ s => lp_inv K V hash maxlf s | _ => False end.
  Definition li_Fun (t : table K V) (k : K) : option V :=
    match t with TLP _ _ s => lp_fun K V eqb s k | _ => None end.

  Theorem linear_refines : forall cap orc ops,
      valid_cap_linear cap -> (forall i j, perm_oracle (orc i j)) ->
      outs_match K V (run K V eqb eqv hash minlf maxlf orc Linear cap ops) (run_spec K V eqb eqv ops).
  Proof.
    intros cap orc ops Hcap PO.
    assert (Hc : exists e, 5 <= e /\ (if cap =? 0 then lpMinM else cap) = 2 ^ e).
    { destruct Hcap as [Z|(e & He & E)].
      - subst. exists 5; split; auto.
      - exists e; split; auto. destruct (Nat.eqb_spec cap 0); auto.
        subst cap. pose proof (Nat.pow_nonzero 2 e); lia. }
    destruct Hc as (e & He & Ecap).
    destruct (lp_new_ok K V eqb hash eqb_spec e He) as (t0 & H0 & I0 & F0 & M0 & N0).
    apply (run_refines K V eqb eqv eqb_spec hash minlf maxlf li_Inv li_Fun) with (t0 := TLP K V t0).
    - intros [|s| |] shuf I P; try contradiction. apply lp_represents with (hash := hash); auto. apply I.
    - intros [|s| |] I; try contradiction. simpl. apply lp_size_ok with (hash := hash); apply I.
    - intros shuf [|s| |] k v I P; try contradiction. unfold put.
      destruct (lp_put_ok K V eqb hash minlf maxlf eqb_spec Hvalid depth shuf s k v) as (t' & H' & I' & F'); auto.
      { unfold depth; lia. }
      exists (TLP K V t'). rewrite H'. simpl. split; auto.
    - intros [|s| |] k I; try contradiction. simpl. eapply lp_get_ok' with (minlf := minlf) (maxlf := maxlf); eauto.
    - intros shuf [|s| |] k I P; try contradiction. unfold delete.
      destruct (lp_delete_ok K V eqb eqv hash minlf maxlf eqb_spec Hvalid depth shuf s k) as (t' & H' & I' & F'); auto.
      { unfold depth; lia. }
      exists (TLP K V t'). rewrite H'. simpl. split; auto.
    - intros [|s| |] I; try contradiction. simpl. apply lp_delete_all_ok; auto.
    - intros s1 s2 [|a| |] [|b| |] I1 I2; try contradiction. reflexivity.
    - simpl. rewrite Ecap, H0. reflexivity.
    - simpl. split; auto. left; auto.
    - intros k. simpl. apply F0.
    - exact PO.
  Qed.
End LinearTop.
