(** C02/C03 — open addressing with soft deletion (quadratic_hash_table.go, double_hash_table.go):
    the part shared by both tables, for an abstract probe function [idx k i] of a table with [m]
    slots whose first [H] probes hit pairwise distinct slots.  Invariant: every entry (live or
    soft-deleted) is reachable from the start of its probe sequence through non-nil slots within
    [H] probes, keys are pairwise distinct among non-nil slots, and fewer than [H] slots are non-nil. *)
From Coq Require Import List NArith Arith Bool Permutation Lia.
From Algo.C02 Require Import Model Arith ListLemmas Spec ProofsProbe.
Import ListNotations.

Section Count.
  Variable E : Type.
  Variable p : E -> bool.
  Definition cnt1 (o : option E) : nat := match o with Some e => if p e then 1 else 0 | None => 0 end.
  Fixpoint count (es : list (option E)) : nat :=
    match es with [] => 0 | o :: r => cnt1 o + count r end.

  Lemma count_upd : forall es j x o, nth_error es j = Some o ->
      count (upd es j x) + cnt1 o = count es + cnt1 x.
  Proof.
    induction es as [|a r IH]; intros [|j] x o H; simpl in *; try discriminate.
    - inversion H; subst. lia.
    - specialize (IH j x o H). lia.
  Qed.

  Lemma count_repeat_none : forall n, count (repeat None n) = 0.
  Proof. induction n; simpl; auto. Qed.
End Count.

Section SoftCore.
  Variables K V : Type.
  Variable eqb : K -> K -> bool.
  Hypothesis eqb_spec : forall a b, eqb a b = true <-> a = b.

  Notation E := (ent K V).
  Notation occ := (occ E).
  Notation emp := (emp E).
  Notation s_get := (s_get K V eqb).
  Notation keys := (keys K V).
  Notation represents := (represents K V).
  Notation fupd := (fupd K V eqb).
  Notation frem := (frem K V eqb).

  Definition is_live (e : E) : bool := negb (e_d K V e).
  Definition is_tomb (e : E) : bool := e_d K V e.
  Definition nlive := count E is_live.
  Definition ntomb := count E is_tomb.

  Lemma nonnil_split : forall es, nonnil E es = nlive es + ntomb es.
  Proof.
    induction es as [|[e|] r IH]; unfold nlive, ntomb in *; simpl; auto.
    unfold is_live, is_tomb in *. destruct (e_d K V e); simpl; lia.
  Qed.

  Definition eat (es : list (option E)) (j : nat) (e : E) : Prop := nth_error es j = Some (Some e).

  Definition live_list (es : list (option E)) : list (K * V) :=
    flat_map (fun o => match o with Some e => if e_d K V e then [] else [(e_k K V e, e_v K V e)] | None => [] end) es.
  Definition sfun (es : list (option E)) (k : K) : option V := s_get (live_list es) k.

  Lemma live_list_length : forall es, length (live_list es) = nlive es.
  Proof.
    induction es as [|[e|] r IH]; unfold nlive in *; simpl; auto. unfold is_live in *.
    destruct (e_d K V e); simpl; rewrite ?app_length; simpl; lia.
  Qed.

  Lemma ents_all_id : forall es, ents_all K V (fun l => l) es = live_list es.
  Proof.
    intros. unfold ents_all, live_list.
    apply flat_map_nth_seq_gen with (f := fun o => match o with Some e => if e_d K V e then [] else [(e_k K V e, e_v K V e)] | None => [] end).
  Qed.

  Lemma ents_all_perm : forall es shuf, perm_oracle shuf -> Permutation (ents_all K V shuf es) (live_list es).
  Proof. intros es shuf Pm. rewrite <- ents_all_id. unfold ents_all. apply Permutation_flat_map. apply Pm. Qed.

  Lemma In_live_list : forall es k v,
      In (k, v) (live_list es) <-> exists j e, eat es j e /\ e_k K V e = k /\ e_v K V e = v /\ e_d K V e = false.
  Proof.
    intros es k v. unfold live_list, eat. rewrite in_flat_map. split.
    - intros (o & Ho & Hin). destruct o as [e|]; simpl in Hin; [|contradiction].
      destruct (e_d K V e) eqn:Ed; simpl in Hin; [contradiction|]. destruct Hin as [Hin|[]]. inversion Hin; subst.
      apply In_nth_error in Ho. destruct Ho as [j Hj]. exists j, e. auto.
    - intros (j & e & Hj & <- & <- & Ed). exists (Some e). split; [eapply nth_error_In; eauto|]. rewrite Ed. simpl; auto.
  Qed.

  Definition sdistinct (es : list (option E)) : Prop :=
    forall j j' e e', eat es j e -> eat es j' e' -> e_k K V e = e_k K V e' -> j = j'.

  Lemma sdistinct_NoDup : forall es, sdistinct es -> NoDup (keys (live_list es)).
  Proof.
    intros es D. unfold Spec.keys, live_list. rewrite flat_map_concat_map, concat_map, map_map.
    apply NoDup_concat.
    - intros l Hl. apply in_map_iff in Hl. destruct Hl as ([e|] & El & _); subst; simpl; [|constructor].
      destruct (e_d K V e); simpl; repeat constructor; auto.
    - intros i j li lj x N Hi Hj Hxi Hxj. rewrite nth_error_map in Hi, Hj.
      destruct (nth_error es i) as [[ei|]|] eqn:Ei; simpl in Hi; inversion Hi; subst; simpl in Hxi; try contradiction.
      destruct (nth_error es j) as [[ej|]|] eqn:Ej; simpl in Hj; inversion Hj; subst; simpl in Hxj; try contradiction.
      destruct (e_d K V ei); simpl in Hxi; [contradiction|]. destruct (e_d K V ej); simpl in Hxj; [contradiction|].
      destruct Hxi as [<-|[]]. destruct Hxj as [Ex|[]]. apply N. eapply D; eauto.
  Qed.

  Lemma sfun_slots : forall es k v, sdistinct es ->
      (sfun es k = Some v <-> exists j e, eat es j e /\ e_k K V e = k /\ e_v K V e = v /\ e_d K V e = false).
  Proof.
    intros es k v D. rewrite <- In_live_list. unfold sfun. split.
    - apply s_get_In; auto.
    - apply In_s_get; auto. now apply sdistinct_NoDup.
  Qed.

  Lemma sfun_by_slots : forall es (g : K -> option V), sdistinct es ->
      (forall k v, (exists j e, eat es j e /\ e_k K V e = k /\ e_v K V e = v /\ e_d K V e = false) <-> g k = Some v) ->
      forall k, sfun es k = g k.
  Proof.
    intros es g D Hg k. symmetry. apply represents_fun; auto. split; [now apply sdistinct_NoDup|].
    intros k' v'. rewrite In_live_list. apply Hg.
  Qed.

  Lemma srepresents : forall es, sdistinct es -> represents (live_list es) (sfun es).
  Proof. intros. apply represents_get; auto. now apply sdistinct_NoDup. Qed.

  Lemma eat_upd : forall es j x j' e,
      eat (upd es j x) j' e <-> (j' = j /\ j < length es /\ x = Some e) \/ (j' <> j /\ eat es j' e).
  Proof.
    intros es j x j' e. unfold eat. rewrite nth_error_upd. destruct (Nat.eqb_spec j j') as [Ej|Nj].
    - subst j'. destruct (Nat.ltb_spec j (length es)) as [Lj|Lj].
      + split.
        * intros Hx; inversion Hx; auto.
        * intros [(_ & _ & ->)|[Nn _]]; [auto|congruence].
      + split; [discriminate|]. intros [(_ & Lx & _)|[Nn _]]; [lia|congruence].
    - split.
      * intros Hx; right; split; auto.
      * intros [(Ex & _)|[_ Hx]]; [congruence|auto].
  Qed.

  Lemma occ_upd_some' : forall es j (e : E) x, j < length es -> occ es x -> occ (upd es j (Some e)) x.
  Proof.
    intros es j e x L [e0 He]. destruct (Nat.eq_dec x j) as [->|N].
    - exists e. now apply nth_error_upd_eq.
    - exists e0. rewrite nth_error_upd_neq; auto.
  Qed.

  Lemma occ_emp_False : forall es j, occ es j -> emp es j -> False.
  Proof. intros es j [e He] Hn. unfold ProofsProbe.emp in Hn. congruence. Qed.

  (** ** a table of [m] slots with probe function [idx] *)
  Variable m : nat.
  Variable idx : K -> nat -> nat.
  Variable H : nat.
  Hypothesis idx_lt : forall k i, idx k i < m.
  Hypothesis idx_window : forall k, NoDup (map (idx k) (seq 0 H)).
  Hypothesis H_le : H <= m.

  Definition svalid (es : list (option E)) : Prop :=
    forall j e, eat es j e ->
      exists i, i < H /\ idx (e_k K V e) i = j /\ forall i', i' < i -> occ es (idx (e_k K V e) i').

  Record sinv (es : list (option E)) : Prop := {
    s_len : length es = m;
    s_valid : svalid es;
    s_dist : sdistinct es;
    s_room : nonnil E es < H }.

  Lemma some_emp : forall es k, length es = m -> nonnil E es < H -> exists i, i < H /\ emp es (idx k i).
  Proof.
    intros es k L Hn.
    destruct (exists_emp E es (map (idx k) (seq 0 H))) as (j & Hj & Hemp); auto.
    - intros j Hj. apply in_map_iff in Hj. destruct Hj as (x & <- & _). rewrite L. apply idx_lt.
    - now rewrite map_length, seq_length.
    - apply in_map_iff in Hj. destruct Hj as (x & <- & Hx). apply in_seq in Hx. exists x; split; auto. lia.
  Qed.

  (** the search loop of Put and Delete: stops at the entry with an equal key, soft-deleted or not *)
  Lemma lookup_any : forall es k, sinv es ->
      exists i o, probe_loop (idx k) (ent_is K V eqb k) es m 0 = Ok (i, idx k i, o) /\ i < H /\
                  (forall i', i' < i -> occ es (idx k i')) /\
                  match o with
                  | None => emp es (idx k i) /\ forall j e, eat es j e -> e_k K V e <> k
                  | Some e => e_k K V e = k /\ eat es (idx k i) e
                  end.
  Proof.
    intros es k I. destruct (some_emp es k (s_len _ I) (s_room _ I)) as (iz & Hiz & Hz).
    destruct (probe_loop_total E (idx k) (ent_is K V eqb k) es m 0) as (i & o & Hp & R & Hend & Hpass).
    - intros. rewrite (s_len _ I). apply idx_lt.
    - exists iz; split; [lia|]. intros (e & He & _). unfold ProofsProbe.emp in Hz. congruence.
    - assert (Hi : i <= iz).
      { destruct (le_lt_dec i iz); auto. exfalso. destruct (Hpass iz ltac:(lia)) as (e & He & _).
        unfold ProofsProbe.emp in Hz. congruence. }
      exists i, o. split; [exact Hp|]. split; [lia|]. split.
      + intros i' Hi'. destruct (Hpass i' ltac:(lia)) as (e & He & _). exists e; auto.
      + destruct o as [e|]; simpl in Hend.
        * destruct Hend as [A B]. unfold ent_is in B. apply eqb_spec in B. split; auto.
        * split; auto. intros j e Hat Ek.
          destruct (s_valid _ I j e Hat) as (ik & Hik & Ej & Hpre). rewrite Ek in *.
          destruct (lt_eq_lt_dec ik i) as [[Lt|Eq]|Gt].
          -- destruct (Hpass ik ltac:(lia)) as (e' & He' & Hs). rewrite Ej in He'. unfold eat in Hat.
             rewrite Hat in He'. inversion He'; subst e'. unfold ent_is in Hs. rewrite Ek in Hs.
             rewrite (proj2 (eqb_spec k k) eq_refl) in Hs. discriminate.
          -- subst ik. rewrite Ej in Hend. unfold eat in Hat. congruence.
          -- eapply occ_emp_False; [apply (Hpre i Gt)|exact Hend].
  Qed.

  (** the search loop of Get: passes soft-deleted entries *)
  Lemma lookup_live : forall es k, sinv es ->
      exists i o, probe_loop (idx k) (ent_live_is K V eqb k) es m 0 = Ok (i, idx k i, o) /\
                  option_map (e_v K V) o = sfun es k.
  Proof.
    intros es k I. destruct (some_emp es k (s_len _ I) (s_room _ I)) as (iz & Hiz & Hz).
    destruct (probe_loop_total E (idx k) (ent_live_is K V eqb k) es m 0) as (i & o & Hp & R & Hend & Hpass).
    - intros. rewrite (s_len _ I). apply idx_lt.
    - exists iz; split; [lia|]. intros (e & He & _). unfold ProofsProbe.emp in Hz. congruence.
    - exists i, o. split; [exact Hp|]. destruct o as [e|]; simpl in *.
      + destruct Hend as [A B]. unfold ent_live_is in B. apply andb_true_iff in B. destruct B as [B1 B2].
        apply negb_true_iff in B1. apply eqb_spec in B2. symmetry. apply sfun_slots; [apply (s_dist _ I)|].
        exists (idx k i), e. auto.
      + destruct (sfun es k) as [v|] eqn:Ef; auto. exfalso.
        apply sfun_slots in Ef; [|apply (s_dist _ I)]. destruct Ef as (j & e & Hat & Ek & Ev & Ed).
        destruct (s_valid _ I j e Hat) as (ik & Hik & Ej & Hpre). rewrite Ek in *.
        destruct (lt_eq_lt_dec ik i) as [[Lt|Eq]|Gt].
        * destruct (Hpass ik ltac:(lia)) as (e' & He' & Hs). rewrite Ej in He'. unfold eat in Hat.
          rewrite Hat in He'. inversion He'; subst e'. unfold ent_live_is in Hs. rewrite Ek, Ed in Hs.
          rewrite (proj2 (eqb_spec k k) eq_refl) in Hs. discriminate.
        * subst ik. rewrite Ej in Hend. unfold eat in Hat. congruence.
        * eapply occ_emp_False; [apply (Hpre i Gt)|exact Hend].
  Qed.

  (** writing an entry for [k] into the slot found by [lookup_any] *)
  Lemma put_slot : forall es k v i o,
      sinv es -> i < H -> (forall i', i' < i -> occ es (idx k i')) ->
      match o with
      | None => emp es (idx k i) /\ forall j e, eat es j e -> e_k K V e <> k
      | Some e => e_k K V e = k /\ eat es (idx k i) e
      end ->
      let j := idx k i in
      let k0 := match o with Some e => e_k K V e | None => k end in
      let es' := upd es j (Some {| e_k := k0; e_v := v; e_d := false |}) in
      length es' = m /\ svalid es' /\ sdistinct es' /\
      (forall k', sfun es' k' = fupd (sfun es) k v k') /\
      nonnil E es' = nonnil E es + (match o with None => 1 | Some _ => 0 end) /\
      ntomb es' + (match o with Some e => if e_d K V e then 1 else 0 | None => 0 end) = ntomb es.
  Proof.
    intros es k v i o I Hi Hpre Ho j k0 es'.
    pose proof (s_len _ I) as L. pose proof (s_dist _ I) as D.
    assert (Lj : j < length es) by (rewrite L; apply idx_lt).
    assert (Ek0 : k0 = k) by (unfold k0; destruct o as [e|]; [apply Ho|reflexivity]).
    assert (Honly : forall a e, eat es a e -> e_k K V e = k -> a = j).
    { intros a e Ha Ek. destruct o as [e0|].
      - destruct Ho as [E0 H0]. eapply D; eauto. congruence.
      - destruct Ho as [_ Habs]. exfalso. eapply Habs; eauto. }
    assert (Hslot : forall e, eat es j e -> e_k K V e = k).
    { intros e Ha. destruct o as [e0|].
      - destruct Ho as [E0 H0]. unfold eat in *. fold j in H0. congruence.
      - destruct Ho as [Hn _]. unfold eat, ProofsProbe.emp in *. fold j in Hn. congruence. }
    assert (Hold : nth_error es j = Some o).
    { destruct o as [e0|]; [apply Ho|apply Ho]. }
    unfold es'. rewrite Ek0. clear es' Ek0.
    set (es' := upd es j (Some {| e_k := k; e_v := v; e_d := false |})).
    split; [unfold es'; now rewrite upd_length|]. split; [|split; [|split; [|split]]].
    - intros a e Ha. apply eat_upd in Ha. destruct Ha as [(Ea & _ & Ee)|[Na Ha]].
      + subst a. inversion Ee; subst e. simpl. exists i. split; auto. split; auto.
        intros i' Hi'. apply occ_upd_some'; auto.
      + destruct (s_valid _ I a e Ha) as (i1 & A & B & C). exists i1. split; auto. split; auto.
        intros i' Hi'. apply occ_upd_some'; auto.
    - intros a b ea eb Ha Hb Ek. apply eat_upd in Ha. apply eat_upd in Hb.
      destruct Ha as [(Ja & _ & Ea)|[Na Ha]], Hb as [(Jb & _ & Eb)|[Nb Hb]].
      + congruence.
      + inversion Ea; subst ea. simpl in Ek. exfalso. apply Nb. eapply Honly; eauto.
      + inversion Eb; subst eb. simpl in Ek. exfalso. apply Na. eapply Honly; eauto.
      + eapply D; eauto.
    - assert (D' : sdistinct es').
      { intros a b ea eb Ha Hb Ek. apply eat_upd in Ha. apply eat_upd in Hb.
        destruct Ha as [(Ja & _ & Ea)|[Na Ha]], Hb as [(Jb & _ & Eb)|[Nb Hb]].
        + congruence.
        + inversion Ea; subst ea. simpl in Ek. exfalso. apply Nb. eapply Honly; eauto.
        + inversion Eb; subst eb. simpl in Ek. exfalso. apply Na. eapply Honly; eauto.
        + eapply D; eauto. }
      apply sfun_by_slots; auto. intros k1 v1. unfold Spec.fupd. destruct (eqb k k1) eqn:Ek.
      + apply eqb_spec in Ek. subst k1. split.
        * intros (a & e & Ha & E1 & E2 & E3). apply eat_upd in Ha. destruct Ha as [(_ & _ & Ee)|[Na Ha]].
          -- inversion Ee; subst e. simpl in E2. now subst.
          -- exfalso. apply Na. eapply Honly; eauto.
        * intros Ev. inversion Ev; subst v1. exists j, {| e_k := k; e_v := v; e_d := false |}.
          split; [apply eat_upd; left; auto|simpl; auto].
      + assert (Nk : k <> k1) by (intros ->; rewrite (proj2 (eqb_spec k1 k1) eq_refl) in Ek; discriminate).
        rewrite sfun_slots by auto. split.
        * intros (a & e & Ha & E1 & E2 & E3). apply eat_upd in Ha. destruct Ha as [(_ & _ & Ee)|[Na Ha]].
          -- inversion Ee; subst e. simpl in E1. congruence.
          -- exists a, e. auto.
        * intros (a & e & Ha & E1 & E2 & E3). exists a, e. split; auto. apply eat_upd. right. split; auto.
          intros ->. apply Nk. rewrite <- E1. symmetry. now apply Hslot.
    - pose proof (nonnil_upd E es j (Some {| e_k := k; e_v := v; e_d := false |}) o Hold) as Hn.
      fold es' in Hn. destruct o; simpl in Hn; lia.
    - pose proof (count_upd E is_tomb es j (Some {| e_k := k; e_v := v; e_d := false |}) o Hold) as Hc.
      fold es' in Hc. unfold ntomb, is_tomb in *. unfold cnt1 in Hc. simpl in Hc. destruct o as [e|]; lia.
  Qed.

  (** soft deletion of the live entry found by [lookup_any] *)
  Lemma del_slot : forall es k i e,
      sinv es -> eat es (idx k i) e -> e_k K V e = k -> e_d K V e = false ->
      let es' := upd es (idx k i) (Some {| e_k := e_k K V e; e_v := e_v K V e; e_d := true |}) in
      length es' = m /\ svalid es' /\ sdistinct es' /\
      (forall k', sfun es' k' = frem (sfun es) k k') /\ sfun es k = Some (e_v K V e) /\
      nonnil E es' = nonnil E es /\ ntomb es' = S (ntomb es).
  Proof.
    intros es k i e I Hat Ek Ed es'. set (j := idx k i) in *.
    pose proof (s_len _ I) as L. pose proof (s_dist _ I) as D.
    assert (Lj : j < length es) by (rewrite L; apply idx_lt).
    assert (Hat' : forall a x, eat es' a x <->
              (a = j /\ x = {| e_k := e_k K V e; e_v := e_v K V e; e_d := true |}) \/ (a <> j /\ eat es a x)).
    { intros a x. unfold es'. rewrite eat_upd. split.
      - intros [(A & _ & B)|B]; [left; split; auto; now inversion B|auto].
      - intros [(A & B)|B]; [left; subst; auto|auto]. }
    assert (D' : sdistinct es').
    { intros a b ea eb Ha Hb Eab. apply Hat' in Ha. apply Hat' in Hb.
      destruct Ha as [(Ja & Ea)|[Na Ha]], Hb as [(Jb & Eb)|[Nb Hb]].
      - congruence.
      - subst ea. simpl in Eab. exfalso. apply Nb. symmetry. eapply D; eauto.
      - subst eb. simpl in Eab. exfalso. apply Na. eapply D; eauto.
      - eapply D; eauto. }
    split; [unfold es'; now rewrite upd_length|]. split; [|split; [exact D'|split; [|split; [|split]]]].
    - intros a x Ha. apply Hat' in Ha. destruct Ha as [(Ja & Ex)|[Na Ha]].
      + subst a x. simpl. destruct (s_valid _ I j e Hat) as (i1 & A & B & C). exists i1. split; auto. split; auto.
        intros i' Hi'. apply occ_upd_some'; auto.
      + destruct (s_valid _ I a x Ha) as (i1 & A & B & C). exists i1. split; auto. split; auto.
        intros i' Hi'. apply occ_upd_some'; auto.
    - apply sfun_by_slots; auto. intros k1 v1. unfold Spec.frem. destruct (eqb k k1) eqn:Ek1.
      + apply eqb_spec in Ek1. subst k1. split; [|discriminate].
        intros (a & x & Ha & E1 & E2 & E3). apply Hat' in Ha. destruct Ha as [(Ja & Ex)|[Na Ha]].
        * subst x. simpl in E3. discriminate.
        * exfalso. apply Na. eapply D; eauto. congruence.
      + rewrite sfun_slots by auto. split.
        * intros (a & x & Ha & E1 & E2 & E3). apply Hat' in Ha. destruct Ha as [(Ja & Ex)|[Na Ha]].
          -- subst x. simpl in E3. discriminate.
          -- exists a, x. auto.
        * intros (a & x & Ha & E1 & E2 & E3). exists a, x. split; auto. apply Hat'. right. split; auto.
          intros ->. unfold eat in *. rewrite Hat in Ha. inversion Ha; subst x.
          rewrite Ek in E1. subst k1. rewrite (proj2 (eqb_spec k k) eq_refl) in Ek1. discriminate.
    - apply sfun_slots; auto. exists j, e. auto.
    - pose proof (nonnil_upd E es j (Some {| e_k := e_k K V e; e_v := e_v K V e; e_d := true |}) (Some e) Hat) as Hn.
      fold es' in Hn. simpl in Hn. lia.
    - pose proof (count_upd E is_tomb es j (Some {| e_k := e_k K V e; e_v := e_v K V e; e_d := true |}) (Some e) Hat) as Hc.
      fold es' in Hc. unfold ntomb, is_tomb in *. unfold cnt1 in Hc. simpl in Hc. rewrite Ed in Hc. lia.
  Qed.

  Lemma sinv_empty : 0 < H -> sinv (repeat None m).
  Proof.
    intros HH.
    assert (Hnone : forall j e, ~ eat (repeat None m) j e).
    { intros j e H0. unfold eat in H0. apply nth_error_repeat_inv in H0. destruct H0; discriminate. }
    constructor.
    - apply repeat_length.
    - intros j e H0. exfalso; eapply Hnone; eauto.
    - intros j j' e e' H0. exfalso; eapply Hnone; eauto.
    - now rewrite nonnil_repeat.
  Qed.

  Lemma sfun_empty : forall k, sfun (repeat None m) k = None.
  Proof.
    intros k. destruct (sfun (repeat None m) k) eqn:Ef; auto. unfold sfun in Ef.
    apply s_get_In in Ef; auto. apply In_live_list in Ef. destruct Ef as (j & e & Hj & _).
    unfold eat in Hj. apply nth_error_repeat_inv in Hj. destruct Hj; discriminate.
  Qed.
End SoftCore.
