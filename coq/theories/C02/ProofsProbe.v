(** C02/C03 — the probe loop shared by the open-addressing tables: what a successful run says, and
    when it succeeds within its fuel.  Counting of non-nil slots and the pigeonhole argument. *)
From Coq Require Import List Arith Bool Lia.
From Algo.C02 Require Import Model ListLemmas.
Import ListNotations.

Section Probe.
  Variable E : Type.
  Variable idx : nat -> nat.
  Variable stop : E -> bool.
  Variable es : list (option E).

  Definition occ (j : nat) : Prop := exists e, nth_error es j = Some (Some e).
  Definition emp (j : nat) : Prop := nth_error es j = Some None.

  (** the loop passes index [i]: an entry that does not stop it *)
  Definition passes (i : nat) : Prop := exists e, nth_error es (idx i) = Some (Some e) /\ stop e = false.
  (** the loop ends at index [i] with result [o] *)
  Definition ends (i : nat) (o : option E) : Prop :=
    match o with
    | None => nth_error es (idx i) = Some None
    | Some e => nth_error es (idx i) = Some (Some e) /\ stop e = true
    end.

  Lemma probe_loop_sound : forall fuel i i1 j o,
      probe_loop idx stop es fuel i = Ok (i1, j, o) ->
      i <= i1 < i + fuel /\ j = idx i1 /\ ends i1 o /\ forall i', i <= i' < i1 -> passes i'.
  Proof.
    induction fuel as [|f IH]; simpl; intros i i1 j o H; [discriminate|].
    destruct (nth_error es (idx i)) as [[e|]|] eqn:En; try discriminate.
    - destruct (stop e) eqn:Es.
      + inversion H; subst. repeat split; auto; try lia; try (intros; lia).
      + apply IH in H. destruct H as (A & B & C & D). repeat split; auto; try lia.
        intros i' Hi. destruct (Nat.eq_dec i' i); [subst; exists e; auto|apply D; lia].
    - inversion H; subst. repeat split; auto; try lia; try (intros; lia).
  Qed.

  Lemma probe_loop_complete : forall fuel i i1 o,
      i <= i1 < i + fuel -> ends i1 o -> (forall i', i <= i' < i1 -> passes i') ->
      probe_loop idx stop es fuel i = Ok (i1, idx i1, o).
  Proof.
    induction fuel as [|f IH]; simpl; intros i i1 o R Hend Hp; [lia|].
    destruct (Nat.eq_dec i i1) as [->|N].
    - destruct o as [e|]; simpl in Hend.
      + destruct Hend as [A B]. now rewrite A, B.
      + now rewrite Hend.
    - destruct (Hp i ltac:(lia)) as (e & A & B). rewrite A, B. apply IH; auto; try lia.
      intros; apply Hp; lia.
  Qed.

  (** among indices [i .. i+fuel) whose slots are in range, the loop stops at the first one that does
      not pass *)
  Lemma probe_loop_total : forall fuel i,
      (forall i', idx i' < length es) ->
      (exists i1, i <= i1 < i + fuel /\ ~ passes i1) ->
      exists i1 o, probe_loop idx stop es fuel i = Ok (i1, idx i1, o) /\
                   i <= i1 < i + fuel /\ ends i1 o /\ forall i', i <= i' < i1 -> passes i'.
  Proof.
    induction fuel as [|f IH]; intros i Hr (i1 & R & Hn); [lia|]. simpl.
    destruct (nth_error es (idx i)) as [[e|]|] eqn:En.
    - destruct (stop e) eqn:Es.
      + exists i, (Some e). repeat split; auto; try lia; try (intros; lia).
      + destruct (Nat.eq_dec i i1) as [->|N]; [exfalso; apply Hn; exists e; auto|].
        destruct (IH (S i) Hr) as (i2 & o & A & B & C & D); [exists i1; split; auto; lia|].
        exists i2, o. repeat split; auto; try lia.
        intros i' Hi. destruct (Nat.eq_dec i' i); [subst; exists e; auto|apply D; lia].
    - exists i, None. repeat split; auto; try lia; try (intros; lia).
    - apply nth_error_None in En. specialize (Hr i). lia.
  Qed.
End Probe.

(** * counting occupied slots *)
Section Count.
  Variable E : Type.

  Fixpoint nonnil (es : list (option E)) : nat :=
    match es with [] => 0 | None :: r => nonnil r | Some _ :: r => S (nonnil r) end.

  Lemma nonnil_le : forall es, nonnil es <= length es.
  Proof. induction es as [|[e|] r IH]; simpl; lia. Qed.

  Lemma nonnil_repeat : forall n, nonnil (repeat None n) = 0.
  Proof. induction n; simpl; auto. Qed.

  Lemma nonnil_upd : forall es j x o, nth_error es j = Some o ->
      nonnil (upd es j x) + (match o with Some _ => 1 | None => 0 end)
      = nonnil es + (match x with Some _ => 1 | None => 0 end).
  Proof.
    induction es as [|a r IH]; intros [|j] x o H; simpl in *; try discriminate.
    - inversion H; subst. destruct o, x; simpl; lia.
    - specialize (IH j x o H). destruct a; simpl; lia.
  Qed.

  (** the occupied slot numbers, in order *)
  Fixpoint occ_from (i : nat) (es : list (option E)) : list nat :=
    match es with
    | [] => []
    | None :: r => occ_from (S i) r
    | Some _ :: r => i :: occ_from (S i) r
    end.

  Lemma occ_from_length : forall es i, length (occ_from i es) = nonnil es.
  Proof. induction es as [|[e|] r IH]; intros i; simpl; auto. Qed.

  Lemma occ_from_In : forall es i j e, nth_error es j = Some (Some e) -> In (i + j) (occ_from i es).
  Proof.
    induction es as [|a r IH]; intros i [|j] e H; simpl in *; try discriminate.
    - inversion H; subst. left; lia.
    - specialize (IH (S i) j e H). replace (i + S j) with (S i + j) by lia.
      destruct a; simpl; auto.
  Qed.

  (** pigeonhole: distinct slot numbers that are all occupied are at most [nonnil] many *)
  Lemma occupied_le_nonnil : forall es (l : list nat),
      NoDup l -> (forall j, In j l -> occ E es j) -> length l <= nonnil es.
  Proof.
    intros es l ND H. rewrite <- (occ_from_length es 0).
    apply NoDup_incl_length; auto.
    intros j Hj. destruct (H j Hj) as [e He]. apply (occ_from_In es 0 j e He).
  Qed.

  (** hence among more than [nonnil] distinct in-range slots one is nil *)
  Lemma exists_emp : forall es (l : list nat),
      NoDup l -> (forall j, In j l -> j < length es) -> nonnil es < length l ->
      exists j, In j l /\ emp E es j.
  Proof.
    intros es l ND Hr Hlt.
    destruct (existsb (fun j => match nth_error es j with Some None => true | _ => false end) l) eqn:Ex.
    - apply existsb_exists in Ex. destruct Ex as (j & Hj & Hn). exists j; split; auto.
      unfold emp. destruct (nth_error es j) as [[e|]|]; try discriminate; auto.
    - exfalso. assert (length l <= nonnil es); [|lia].
      apply occupied_le_nonnil; auto. intros j Hj.
      assert (Hf : (fun j => match nth_error es j with Some None => true | _ => false end) j = false).
      { destruct ((fun j => match nth_error es j with Some None => true | _ => false end) j) eqn:Q; auto.
        assert (existsb (fun j => match nth_error es j with Some None => true | _ => false end) l = true)
          by (apply existsb_exists; exists j; auto). congruence. }
      simpl in Hf. specialize (Hr j Hj). apply nth_error_Some in Hr. unfold occ.
      destruct (nth_error es j) as [[e|]|]; try discriminate; try congruence. exists e; auto.
  Qed.
End Count.
