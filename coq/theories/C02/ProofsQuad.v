(** C02/C03 — quadratic probing (quadratic_hash_table.go, after the fixes): invariant, termination of
    every probe loop within the fuel, and refinement of the abstract map.  The only fact taken as a
    hypothesis is the prime gap used by [smallestPrimeLargerThan] (Bertrand's postulate). *)
From Coq Require Import List NArith ZArith Znumtheory Arith Bool Permutation Lia.
From Algo.C02 Require Import Model Arith ListLemmas Spec ProofsProbe ProofsPrime ProofsSoft.
Import ListNotations.
Local Open Scope nat_scope.

Section Quad.
  Variables K V : Type.
  Variable eqb : K -> K -> bool.
  Variable eqv : V -> V -> bool.
  Variable hash : K -> N.
  Variables minlf maxlf : lf.
  Hypothesis eqb_spec : forall a b, eqb a b = true <-> a = b.

  Notation qp := (qp K V).
  Notation E := (ent K V).
  Notation s_get := (s_get K V eqb).
  Notation keys := (keys K V).
  Notation represents := (represents K V).
  Notation fupd := (fupd K V eqb).
  Notation frem := (frem K V eqb).
  Notation sfun := (sfun K V eqb).
  Notation nlive := (nlive K V).
  Notation ntomb := (ntomb K V).
  Notation live_list := (live_list K V).

  Definition qidx (m : nat) (k : K) : nat -> nat := quad_idx (h_mod K hash m k) m.
  Definition qH (m : nat) : nat := (m + 1) / 2.

  Lemma qidx_lt : forall m k i, m <> 0 -> qidx m k i < m.
  Proof.
    intros m k i Hm. unfold qidx. rewrite quad_idx_nat. destruct (i =? 0).
    - now apply h_mod_lt.
    - now apply Nat.mod_upper_bound.
  Qed.

  Lemma qH_le : forall m, qH m <= m.
  Proof.
    intros m. unfold qH. pose proof (Nat.div_mod (m + 1) 2 ltac:(lia)) as A.
    pose proof (Nat.mod_upper_bound (m + 1) 2 ltac:(lia)) as B. lia.
  Qed.

  Lemma qH_room : forall m x, 2 * x < m -> x < qH m.
  Proof.
    intros m x Hx. unfold qH. pose proof (Nat.div_mod (m + 1) 2 ltac:(lia)) as A.
    pose proof (Nat.mod_upper_bound (m + 1) 2 ltac:(lia)) as B. lia.
  Qed.

  Definition qinv (m : nat) := sinv K V m (qidx m) (qH m).

  Record qp_inv0 (t : qp) : Prop := {
    q_prime : is_prime (qp_m K V t) = true;
    q_min : 31 <= qp_m K V t;
    q_sinv : qinv (qp_m K V t) (qp_e K V t);
    q_n : qp_n K V t = nlive (qp_e K V t);
    q_t : qp_t K V t = ntomb (qp_e K V t) }.

  Definition qp_fun (t : qp) (k : K) : option V := sfun (qp_e K V t) k.

  Lemma q_window : forall t, qp_inv0 t -> forall k, NoDup (map (qidx (qp_m K V t) k) (seq 0 (qH (qp_m K V t)))).
  Proof.
    intros t I k. pose proof (q_min _ I). apply quad_window.
    - apply is_prime_sound, (q_prime _ I).
    - apply h_mod_lt; lia.
  Qed.

  Lemma q_lt : forall t, qp_inv0 t -> forall k i, qidx (qp_m K V t) k i < qp_m K V t.
  Proof. intros t I k i. pose proof (q_min _ I). apply qidx_lt; lia. Qed.

  Lemma q_nonnil : forall t, qp_inv0 t -> nonnil E (qp_e K V t) = qp_n K V t + qp_t K V t.
  Proof. intros t I. rewrite (q_n _ I), (q_t _ I). apply nonnil_split. Qed.

  Lemma qp_all_perm : forall t shuf, perm_oracle shuf -> Permutation (qp_all K V shuf t) (live_list (qp_e K V t)).
  Proof. intros. unfold qp_all. now apply ents_all_perm. Qed.

  Lemma qp_represents : forall t shuf, qp_inv0 t -> perm_oracle shuf -> represents (qp_all K V shuf t) (qp_fun t).
  Proof.
    intros t shuf I Pm. eapply represents_permuted; [apply Permutation_sym, qp_all_perm; auto|].
    apply srepresents; auto. apply (s_dist _ _ _ _ _ _ (q_sinv _ I)).
  Qed.

  Lemma qp_n_length : forall t l, qp_inv0 t -> represents l (qp_fun t) -> qp_n K V t = length l.
  Proof.
    intros t l I R. rewrite (q_n _ I), <- live_list_length. eapply represents_length; eauto.
    apply srepresents; auto. apply (s_dist _ _ _ _ _ _ (q_sinv _ I)).
  Qed.

  Lemma qp_size_ok : forall t, qp_inv0 t -> qp_n K V t = length (qp_all K V (fun l => l) t).
  Proof. intros t I. unfold qp_all. rewrite ents_all_id, live_list_length. apply (q_n _ I). Qed.

  Lemma qp_get_ok : forall t k, qp_inv0 t -> qp_get K V eqb hash t k = Ok (qp_fun t k).
  Proof.
    intros t k I.
    destruct (lookup_live K V eqb eqb_spec (qp_m K V t) (qidx (qp_m K V t)) (qH (qp_m K V t))
                (q_lt t I) (q_window t I) (qH_le _) (qp_e K V t) k (q_sinv _ I)) as (i & o & Hp & Ho).
    unfold qp_get. change (quad_idx (h_mod K hash (qp_m K V t) k) (qp_m K V t)) with (qidx (qp_m K V t) k).
    rewrite Hp. simpl. now rewrite Ho.
  Qed.

  (** the only entry with key [k] is soft-deleted: the map does not hold [k] *)
  Lemma tomb_absent : forall m es j e, qinv m es -> eat K V es j e -> e_d K V e = true -> sfun es (e_k K V e) = None.
  Proof.
    intros m es j e I Hat Ed. destruct (sfun es (e_k K V e)) as [v|] eqn:Ef; auto. exfalso.
    apply sfun_slots in Ef; auto; [|apply (s_dist _ _ _ _ _ _ I)].
    destruct Ef as (j' & e' & Hat' & Ek & _ & Ed').
    assert (j' = j) by (eapply (s_dist _ _ _ _ _ _ I); eauto). subst j'.
    unfold eat in *. rewrite Hat in Hat'. inversion Hat'; subst e'. congruence.
  Qed.

  Lemma key_absent : forall m es k, qinv m es -> (forall j e, eat K V es j e -> e_k K V e <> k) -> sfun es k = None.
  Proof.
    intros m es k I Habs. destruct (sfun es k) as [v|] eqn:Ef; auto. exfalso.
    apply sfun_slots in Ef; auto; [|apply (s_dist _ _ _ _ _ _ I)].
    destruct Ef as (j' & e' & Hat' & Ek & _). eapply Habs; eauto.
  Qed.

  Lemma qp_put_core_ok : forall t k v, qp_inv0 t ->
      nonnil E (qp_e K V t) + 1 < qH (qp_m K V t) ->
      exists t', qp_put_core K V eqb hash t k v = Ok t' /\ qp_inv0 t' /\
                 (forall k', qp_fun t' k' = fupd (qp_fun t) k v k') /\
                 qp_m K V t' = qp_m K V t /\
                 qp_n K V t' + qp_t K V t' <= qp_n K V t + qp_t K V t + 1 /\
                 qp_n K V t' <= S (qp_n K V t).
  Proof.
    intros t k v I Hroom. set (m := qp_m K V t) in *. set (es := qp_e K V t) in *.
    pose proof (q_sinv _ I) as SI. fold m es in SI.
    destruct (lookup_any K V eqb eqb_spec m (qidx m) (qH m) (q_lt t I) (q_window t I) (qH_le _) es k SI)
      as (i & o & Hp & Hi & Hpre & Ho).
    destruct (put_slot K V eqb eqb_spec m (qidx m) (qH m) (q_lt t I) (qH_le _) es k v i o SI Hi Hpre Ho)
      as (L' & V' & D' & F' & N' & T').
    unfold qp_put_core. fold m es.
    change (quad_idx (h_mod K hash m k) m) with (qidx m k). rewrite Hp. cbn [bind].
    set (es' := upd es (qidx m k i) (Some {| e_k := match o with Some e => e_k K V e | None => k end; e_v := v; e_d := false |})) in *.
    assert (SI' : qinv m es').
    { constructor; auto. rewrite N'. destruct o; lia. }
    assert (Hlen : nlive es' = match sfun es k with Some _ => nlive es | None => S (nlive es) end).
    { pose proof (srepresents K V eqb eqb_spec es (s_dist _ _ _ _ _ _ SI)) as R0.
      pose proof (srepresents K V eqb eqb_spec es' D') as R1.
      rewrite <- !live_list_length.
      eapply represents_fupd_length with (f := sfun es) (k := k) (v := v); eauto.
      eapply represents_ext; [exact R1|exact F']. }
    pose proof (nonnil_split K V es) as S0. pose proof (nonnil_split K V es') as S1.
    pose proof (q_n _ I) as Nn. pose proof (q_t _ I) as Tt. fold es in Nn, Tt.
    destruct o as [e|]; unfold ents_put_at.
    - destruct Ho as [Ek Hat]. fold es'.
      destruct (e_d K V e) eqn:Ed.
      + assert (Ef : sfun es k = None) by (rewrite <- Ek; eapply tomb_absent; eauto).
        rewrite Ef in Hlen.
        eexists; split; [reflexivity|]. split; [|split; [exact F'|split; [reflexivity|split; simpl; lia]]].
        constructor; simpl; auto; try apply I; lia.
      + assert (Ef : sfun es k = Some (e_v K V e)).
        { apply (proj2 (sfun_slots K V eqb eqb_spec es k (e_v K V e) (s_dist _ _ _ _ _ _ SI))). exists (qidx m k i), e. auto. }
        rewrite Ef in Hlen.
        eexists; split; [reflexivity|]. split; [|split; [exact F'|split; [reflexivity|split; simpl; lia]]].
        constructor; simpl; auto; try apply I; lia.
    - destruct Ho as [Hemp Habs]. fold es'.
      assert (Ef : sfun es k = None) by (eapply key_absent; eauto).
      rewrite Ef in Hlen.
      eexists; split; [reflexivity|]. split; [|split; [exact F'|split; [reflexivity|split; simpl; lia]]].
      constructor; simpl; auto; try apply I; lia.
  Qed.

  Lemma qp_put_noresize : forall d shuf t k v,
      lf_ge (qp_n K V t + qp_t K V t + 1) (qp_m K V t) maxlf = false ->
      qp_put K V eqb hash maxlf d shuf t k v = qp_put_core K V eqb hash t k v.
  Proof. intros d shuf t k v H. destruct d; simpl; rewrite H; reflexivity. Qed.

  Lemma s_get_app'' : forall a b k, s_get (a ++ b) k = match s_get a k with Some v => Some v | None => s_get b k end.
  Proof.
    induction a as [|[x w] a IH]; simpl; intros b k; auto.
    unfold Spec.s_get in *; simpl. destruct (eqb x k); auto.
  Qed.

  (** options *)
  Definition valid_soft : Prop :=
    0 < lf_den maxlf /\ 0 < lf_den minlf /\
    2 * lf_num maxlf <= lf_den maxlf /\                                   (* maxLF <= 1/2 *)
    lf_den maxlf <= lf_num maxlf * 31.                                     (* maxLF * minimum size >= 1 *)
  Hypothesis Hvalid : valid_soft.

  (** [k * den < num * m] leaves room for [k] entries among the first (m+1)/2 probes *)
  Lemma load_room : forall x m, x * lf_den maxlf < lf_num maxlf * m -> x < qH m.
  Proof.
    intros x m Hx. destruct Hvalid as (D1 & D2 & D3 & D4). apply qH_room.
    apply Nat.mul_lt_mono_pos_r with (p := lf_den maxlf); auto.
    apply Nat.lt_le_trans with (2 * (lf_num maxlf * m)); [lia|].
    rewrite Nat.mul_assoc, (Nat.mul_comm m). apply Nat.mul_le_mono_r. exact D3.
  Qed.

  (** the re-insertion loop of resize: a fresh table, [n] live entries with pairwise distinct keys,
      and [n * den < num * m]: no nested resize, everything fits *)
  Lemma qp_reinsert_ok : forall d shuf rest pre acc,
      NoDup (keys (pre ++ rest)) -> qp_inv0 acc -> qp_t K V acc = 0 ->
      (forall k, qp_fun acc k = s_get pre k) ->
      length (pre ++ rest) * lf_den maxlf < lf_num maxlf * qp_m K V acc ->
      exists t', reinsert K V (qp_put K V eqb hash maxlf d shuf) rest acc = Ok t' /\ qp_inv0 t' /\ qp_t K V t' = 0 /\
                 (forall k, qp_fun t' k = s_get (pre ++ rest) k) /\ qp_m K V t' = qp_m K V acc.
  Proof.
    intros d shuf rest. induction rest as [|[k v] rest IH]; intros pre acc ND I T0 F L.
    - exists acc. rewrite app_nil_r. split; [reflexivity|]. split; [exact I|]. split; [exact T0|]. split; [exact F|reflexivity].
    - rewrite reinsert_cons.
      assert (NDpre : NoDup (keys pre)).
      { unfold Spec.keys in *. rewrite map_app in ND. eapply NoDup_app_l. exact ND. }
      assert (Hn : qp_n K V acc = length pre).
      { apply qp_n_length; auto. eapply represents_ext; [apply represents_get; eauto|]. intros; now rewrite F. }
      rewrite app_length in L. simpl in L.
      assert (Hlt : (qp_n K V acc + qp_t K V acc + 1) * lf_den maxlf < lf_num maxlf * qp_m K V acc).
      { rewrite Hn, T0. nia. }
      rewrite qp_put_noresize by (apply lf_ge_false; exact Hlt).
      destruct (qp_put_core_ok acc k v I) as (t1 & H1 & I1 & F1 & M1 & N1 & _).
      { rewrite (q_nonnil _ I). apply load_room. exact Hlt. }
      rewrite H1; simpl.
      assert (Hk : ~ In k (keys pre)).
      { unfold Spec.keys in *. rewrite map_app in ND. simpl in ND. apply NoDup_remove_2 in ND.
        intros H; apply ND. apply in_or_app; auto. }
      assert (F1' : forall k', qp_fun t1 k' = s_get (pre ++ [(k, v)]) k').
      { intros k'. rewrite F1, s_get_app''. unfold Spec.fupd. rewrite F.
        destruct (eqb k k') eqn:E.
        * apply eqb_spec in E; subst k'.
          rewrite (proj2 (s_get_None K V eqb eqb_spec pre k) Hk).
          unfold Spec.s_get; simpl. now rewrite (proj2 (eqb_spec k k) eq_refl).
        * destruct (s_get pre k'); auto. unfold Spec.s_get; simpl. now rewrite E. }
      assert (T1 : qp_t K V t1 = 0).
      { (* n1 = |pre|+1 and n1 + t1 <= n + t + 1 *)
        assert (NDk : NoDup (keys (pre ++ [(k, v)]))).
        { replace (pre ++ (k, v) :: rest) with ((pre ++ [(k, v)]) ++ rest) in ND by (rewrite <- app_assoc; reflexivity).
          unfold Spec.keys in *. rewrite map_app in ND. eapply NoDup_app_l. exact ND. }
        assert (Hn1 : qp_n K V t1 = length (pre ++ [(k, v)])).
        { apply qp_n_length; auto. eapply represents_ext; [apply represents_get; eauto|]. intros; now rewrite F1'. }
        rewrite app_length in Hn1. simpl in Hn1. lia. }
      destruct (IH (pre ++ [(k, v)]) t1) as (t' & H' & I' & T' & F' & M'); auto.
      + now rewrite <- app_assoc.
      + rewrite M1, <- app_assoc, app_length. simpl. lia.
      + exists t'. rewrite <- app_assoc in F'. simpl in F'.
        split; [exact H'|]. split; [exact I'|]. split; [exact T'|]. split; [exact F'|congruence].
  Qed.

  Lemma qp_new_ok : forall p, is_prime p = true -> 31 <= p ->
      exists t, qp_new K V p = Ok t /\ qp_inv0 t /\ (forall k, qp_fun t k = None) /\
                qp_m K V t = p /\ qp_n K V t = 0 /\ qp_t K V t = 0.
  Proof.
    intros p Hp H31. unfold qp_new, qpMinM. destruct (Nat.ltb_spec p 31); [lia|]. rewrite Hp. simpl.
    eexists; split; [reflexivity|]. split; [|split; [|auto]].
    - constructor; simpl; auto.
      + apply sinv_empty. unfold qH. apply Nat.div_str_pos. lia.
      + unfold ProofsSoft.nlive. now rewrite count_repeat_none.
      + unfold ProofsSoft.ntomb. now rewrite count_repeat_none.
    - intros k. unfold qp_fun; simpl. now apply sfun_empty.
  Qed.

  Lemma qp_resize_ok : forall d shuf t m',
      qp_inv0 t -> perm_oracle shuf -> 31 <= m' ->
      (exists p, m' <= p < m' + (m' + 2) /\ is_prime p = true) ->
      (forall p, m' <= p -> is_prime p = true -> qp_n K V t * lf_den maxlf < lf_num maxlf * p) ->
      exists t', qp_resize_with K V (qp_put K V eqb hash maxlf d shuf) shuf t m' = Ok t' /\ qp_inv0 t' /\
                 (forall k, qp_fun t' k = qp_fun t k) /\ m' <= qp_m K V t' /\
                 qp_n K V t' = qp_n K V t /\ qp_t K V t' = 0.
  Proof.
    intros d shuf t m' I Pm H31 (p0 & Hp0 & Pp0) L. unfold qp_resize_with, qpMinM.
    destruct (Nat.ltb_spec m' 31); [lia|].
    unfold smallest_prime_ge. destruct (next_prime_total (m' + 2) m' p0 Hp0 Pp0) as (p & Hnp).
    rewrite Hnp. cbn [bind]. apply next_prime_spec in Hnp. destruct Hnp as [Pp Rp].
    destruct (qp_new_ok p Pp ltac:(lia)) as (nt & Hn & In & Fn & Mn & Nn & Tn). rewrite Hn; cbn [bind].
    pose proof (qp_represents t shuf I Pm) as R.
    pose proof (qp_n_length t _ I R) as Hlen.
    assert (A1 : NoDup (keys ([] ++ qp_all K V shuf t))) by (simpl; apply R).
    assert (A2 : forall k, qp_fun nt k = s_get [] k) by (intros k; rewrite Fn; reflexivity).
    assert (A3 : length ([] ++ qp_all K V shuf t) * lf_den maxlf < lf_num maxlf * qp_m K V nt).
    { simpl. rewrite Mn, <- Hlen. apply L; [lia|exact Pp]. }
    destruct (qp_reinsert_ok d shuf (qp_all K V shuf t) [] nt A1 In Tn A2 A3) as (t' & H' & I' & T' & F' & M').
    rewrite H'; cbn [bind]. simpl in F'.
      assert (Ft : forall k, qp_fun t' k = qp_fun t k).
      { intros k. rewrite F'. symmetry. apply represents_fun; auto. }
      set (t2 := {| qp_e := qp_e K V t'; qp_m := qp_m K V t'; qp_n := qp_n K V t'; qp_t := qp_t K V t' |}).
      assert (E2 : t2 = t') by (destruct t'; reflexivity).
      exists t2. rewrite E2. split; [reflexivity|]. split; [exact I'|]. split; [exact Ft|]. split; [lia|]. split; [|exact T'].
      rewrite (qp_n_length t' (qp_all K V shuf t) I'); [lia|].
      eapply represents_ext; [exact R|]. intros; now rewrite Ft.
  Qed.

  (** * the load invariant, Put and Delete *)
  Definition qp_load (t : qp) : Prop :=
    (qp_n K V t + qp_t K V t) * lf_den maxlf < lf_num maxlf * qp_m K V t.
  Definition qp_inv (t : qp) : Prop := qp_inv0 t /\ qp_load t.

  (** Put needs a prime in [2m, 4m+1] only when it grows, i.e. when the live entries alone reach the limit *)
  Lemma qp_put_ok : forall d shuf t k v, 1 <= d -> qp_inv t -> perm_oracle shuf ->
      (lf_ge (qp_n K V t + 1) (qp_m K V t) maxlf = true ->
       exists p, 2 * qp_m K V t <= p < 2 * qp_m K V t + (2 * qp_m K V t + 2) /\ is_prime p = true) ->
      exists t', qp_put K V eqb hash maxlf d shuf t k v = Ok t' /\ qp_inv t' /\
                 (forall k', qp_fun t' k' = fupd (qp_fun t) k v k') /\ qp_n K V t' <= S (qp_n K V t).
  Proof.
    intros d shuf t k v Hd [I Ld] Pm Hg. unfold qp_load in Ld.
    destruct Hvalid as (D1 & D2 & D3 & D4). pose proof (q_min _ I) as M31.
    destruct d as [|d]; [lia|]. simpl.
    destruct (lf_ge (qp_n K V t + qp_t K V t + 1) (qp_m K V t) maxlf) eqn:G.
    - destruct (lf_ge (qp_n K V t + 1) (qp_m K V t) maxlf) eqn:G2.
      + (* the live entries alone reach the limit: grow *)
        destruct (qp_resize_ok d shuf t (2 * qp_m K V t) I Pm ltac:(lia)) as (t1 & H1 & I1 & F1 & M1 & N1 & T1).
        { apply Hg. reflexivity. }
        { intros p Hp _. apply Nat.lt_le_trans with (lf_num maxlf * (2 * qp_m K V t)); [nia|apply Nat.mul_le_mono_l; lia]. }
        replace (qp_m K V t + (qp_m K V t + 0)) with (2 * qp_m K V t) by lia.
        rewrite H1; cbn [bind].
        assert (L1 : (qp_n K V t1 + qp_t K V t1 + 1) * lf_den maxlf < lf_num maxlf * qp_m K V t1).
        { rewrite N1, T1. apply Nat.lt_le_trans with (lf_num maxlf * (2 * qp_m K V t)); [|apply Nat.mul_le_mono_l; lia]. nia. }
        destruct (qp_put_core_ok t1 k v I1) as (t2 & H2 & I2 & F2 & M2 & N2 & B2).
        { rewrite (q_nonnil _ I1). apply load_room. exact L1. }
        exists t2. split; [exact H2|]. split.
        * split; auto. unfold qp_load. rewrite M2. nia.
        * split; [intros k'; rewrite F2; unfold Spec.fupd; now rewrite F1|lia].
      + (* soft-deleted entries fill the table: rehash in place *)
        apply lf_ge_false in G2.
        destruct (qp_resize_ok d shuf t (qp_m K V t) I Pm M31) as (t1 & H1 & I1 & F1 & M1 & N1 & T1).
        { exists (qp_m K V t). split; [lia|apply (q_prime _ I)]. }
        { intros p Hp _. apply Nat.lt_le_trans with (lf_num maxlf * qp_m K V t); [nia|apply Nat.mul_le_mono_l; lia]. }
        rewrite H1; cbn [bind].
        assert (L1 : (qp_n K V t1 + qp_t K V t1 + 1) * lf_den maxlf < lf_num maxlf * qp_m K V t1).
        { rewrite N1, T1. apply Nat.lt_le_trans with (lf_num maxlf * qp_m K V t); [|apply Nat.mul_le_mono_l; lia]. nia. }
        destruct (qp_put_core_ok t1 k v I1) as (t2 & H2 & I2 & F2 & M2 & N2 & B2).
        { rewrite (q_nonnil _ I1). apply load_room. exact L1. }
        exists t2. split; [exact H2|]. split.
        * split; auto. unfold qp_load. rewrite M2. nia.
        * split; [intros k'; rewrite F2; unfold Spec.fupd; now rewrite F1|lia].
    - apply lf_ge_false in G. cbn [bind].
      destruct (qp_put_core_ok t k v I) as (t2 & H2 & I2 & F2 & M2 & N2 & B2).
      { rewrite (q_nonnil _ I). apply load_room. exact G. }
      exists t2. split; [exact H2|]. split; [|split; auto].
      split; auto. unfold qp_load. rewrite M2. nia.
  Qed.

  (** the primes asked for by a growing Put while at most [N] entries are live *)
  Definition gap_for (N : nat) : Prop :=
    forall n m, n <= N -> 31 <= m -> lf_ge (n + 1) m maxlf = true ->
                exists p, 2 * m <= p < 2 * m + (2 * m + 2) /\ is_prime p = true.

  (** the re-insertion loop of a shrink: the rebuilt table may grow again while entries are re-inserted
      (maxLF < 2*minLF, or e.g. (3/16, 3/8) at m = 107); every step is an ordinary Put on a table that
      satisfies the invariant *)
  Lemma qp_reinsert_gen : forall d shuf rest pre acc,
      1 <= d -> perm_oracle shuf -> gap_for (length (pre ++ rest)) ->
      NoDup (keys (pre ++ rest)) -> qp_inv acc ->
      (forall k, qp_fun acc k = s_get pre k) ->
      exists t', reinsert K V (qp_put K V eqb hash maxlf d shuf) rest acc = Ok t' /\ qp_inv t' /\
                 (forall k, qp_fun t' k = s_get (pre ++ rest) k).
  Proof.
    intros d shuf rest. induction rest as [|[k v] rest IH]; intros pre acc Hd P Hg ND I F.
    - exists acc. rewrite app_nil_r. split; [reflexivity|]. split; [exact I|exact F].
    - rewrite reinsert_cons.
      assert (NDpre : NoDup (keys pre)).
      { unfold Spec.keys in *. rewrite map_app in ND. eapply NoDup_app_l. exact ND. }
      assert (Hn : qp_n K V acc = length pre).
      { apply qp_n_length; [apply I|]. eapply represents_ext; [apply represents_get; eauto|]. intros; now rewrite F. }
      destruct (qp_put_ok d shuf acc k v Hd I P) as (t1 & H1 & I1 & F1 & _).
      { intros G. apply (Hg (qp_n K V acc)); auto.
        - rewrite Hn, app_length. lia.
        - apply (q_min _ (proj1 I)). }
      rewrite H1; simpl.
      assert (Hk : ~ In k (keys pre)).
      { unfold Spec.keys in *. rewrite map_app in ND. simpl in ND. apply NoDup_remove_2 in ND.
        intros H; apply ND. apply in_or_app; auto. }
      destruct (IH (pre ++ [(k, v)]) t1 Hd P) as (t' & H' & I' & F').
      + now rewrite <- app_assoc.
      + now rewrite <- app_assoc.
      + exact I1.
      + intros k'. rewrite F1, s_get_app''. unfold Spec.fupd. rewrite F.
        destruct (eqb k k') eqn:E.
        * apply eqb_spec in E; subst k'.
          rewrite (proj2 (s_get_None K V eqb eqb_spec pre k) Hk).
          unfold Spec.s_get; simpl. now rewrite (proj2 (eqb_spec k k) eq_refl).
        * destruct (s_get pre k'); auto. unfold Spec.s_get; simpl. now rewrite E.
      + exists t'. rewrite <- app_assoc in F'. simpl in F'. split; [exact H'|]. split; [exact I'|exact F'].
  Qed.

  Lemma qp_resize_gen : forall d shuf t m',
      1 <= d -> qp_inv0 t -> perm_oracle shuf -> 31 <= m' -> gap_for (qp_n K V t) ->
      (exists p, m' <= p < m' + (m' + 2) /\ is_prime p = true) ->
      exists t', qp_resize_with K V (qp_put K V eqb hash maxlf d shuf) shuf t m' = Ok t' /\ qp_inv t' /\
                 (forall k, qp_fun t' k = qp_fun t k) /\ qp_n K V t' = qp_n K V t.
  Proof.
    intros d shuf t m' Hd I Pm H31 Hg (p0 & Hp0 & Pp0). unfold qp_resize_with, qpMinM.
    destruct Hvalid as (D1 & D2 & D3 & D4).
    destruct (Nat.ltb_spec m' 31); [lia|].
    unfold smallest_prime_ge. destruct (next_prime_total (m' + 2) m' p0 Hp0 Pp0) as (p & Hnp).
    rewrite Hnp. cbn [bind]. apply next_prime_spec in Hnp. destruct Hnp as [Pp Rp].
    destruct (qp_new_ok p Pp ltac:(lia)) as (nt & Hn & In & Fn & Mn & Nn & Tn). rewrite Hn; cbn [bind].
    pose proof (qp_represents t shuf I Pm) as R.
    pose proof (qp_n_length t _ I R) as Hlen.
    destruct (qp_reinsert_gen d shuf (qp_all K V shuf t) [] nt Hd Pm) as (t' & H' & I' & F').
    - simpl. now rewrite <- Hlen.
    - simpl. apply R.
    - split; auto. unfold qp_load. rewrite Nn, Tn, Mn. simpl. nia.
    - intros k. rewrite Fn. reflexivity.
    - rewrite H'; cbn [bind]. simpl in F'.
      assert (Ft : forall k, qp_fun t' k = qp_fun t k).
      { intros k. rewrite F'. symmetry. apply represents_fun; auto. }
      set (t2 := {| qp_e := qp_e K V t'; qp_m := qp_m K V t'; qp_n := qp_n K V t'; qp_t := qp_t K V t' |}).
      assert (E2 : t2 = t') by (destruct t'; reflexivity).
      exists t2. rewrite E2. split; [reflexivity|]. split; [exact I'|]. split; [exact Ft|].
      rewrite (qp_n_length t' (qp_all K V shuf t) (proj1 I')); [lia|].
      eapply represents_ext; [exact R|]. intros; now rewrite Ft.
  Qed.

  Lemma frem_absent' : forall (f : K -> option V) k k', f k = None -> frem f k k' = f k'.
  Proof.
    intros f k k' H. unfold Spec.frem. destruct (eqb k k') eqn:E; auto. apply eqb_spec in E. now subst.
  Qed.

  Lemma qp_delete_ok : forall d shuf t k, 1 <= d -> qp_inv t -> perm_oracle shuf -> gap_for (qp_n K V t) ->
      exists t', qp_delete K V eqb hash minlf maxlf d shuf t k = Ok (t', qp_fun t k) /\ qp_inv t' /\
                 (forall k', qp_fun t' k' = frem (qp_fun t) k k') /\ qp_n K V t' <= qp_n K V t.
  Proof.
    intros d shuf t k Hd Hinv Pm Hgf. pose proof Hinv as [I Ld]. unfold qp_load in Ld.
    destruct Hvalid as (D1 & D2 & D3 & D4). pose proof (q_min _ I) as M31.
    set (m := qp_m K V t) in *. set (es := qp_e K V t) in *.
    pose proof (q_sinv _ I) as SI. fold m es in SI.
    destruct (lookup_any K V eqb eqb_spec m (qidx m) (qH m) (q_lt t I) (q_window t I) (qH_le _) es k SI)
      as (i & o & Hp & Hi & Hpre & Ho).
    unfold qp_delete. fold m es.
    change (quad_idx (h_mod K hash m k) m) with (qidx m k). rewrite Hp. cbn [bind].
    destruct o as [e|].
    - destruct Ho as [Ek Hat]. destruct (e_d K V e) eqn:Ed.
      + assert (Ef : qp_fun t k = None) by (unfold qp_fun; fold es; rewrite <- Ek; eapply tomb_absent; eauto).
        exists t. rewrite Ef. split; [reflexivity|]. split; [exact Hinv|]. split; [intros k'; symmetry; now apply frem_absent'|lia].
      + destruct (del_slot K V eqb eqb_spec m (qidx m) (qH m) (q_lt t I) (qH_le _) es k i e SI Hat Ek Ed)
          as (L' & V' & D' & F' & Fk & N' & T').
        set (es' := upd es (qidx m k i) (Some {| e_k := e_k K V e; e_v := e_v K V e; e_d := true |})) in *.
        set (t1 := {| qp_e := es'; qp_m := m; qp_n := pred (qp_n K V t); qp_t := S (qp_t K V t) |}).
        assert (Hlen : nlive es' + 1 = nlive es).
        { pose proof (srepresents K V eqb eqb_spec es (s_dist _ _ _ _ _ _ SI)) as R0.
          pose proof (srepresents K V eqb eqb_spec es' D') as R1.
          assert (Hl : length (live_list es') + (match sfun es k with Some _ => 1 | None => 0 end) = length (live_list es)).
          { eapply represents_frem_length; eauto. eapply represents_ext; [exact R1|exact F']. }
          rewrite Fk in Hl. now rewrite !live_list_length in Hl. }
        pose proof (q_n _ I) as Nn. pose proof (q_t _ I) as Tt. fold es in Nn, Tt.
        assert (I1 : qp_inv0 t1).
        { constructor; simpl; try apply I.
          - constructor; auto. rewrite N'. apply (s_room _ _ _ _ _ _ SI).
          - lia.
          - lia. }
        assert (Ld1 : qp_load t1).
        { unfold qp_load; simpl. fold m. replace (pred (qp_n K V t) + S (qp_t K V t)) with (qp_n K V t + qp_t K V t) by lia. exact Ld. }
        assert (F1 : forall k', qp_fun t1 k' = frem (qp_fun t) k k') by (intros k'; apply F').
        assert (Efk : qp_fun t k = Some (e_v K V e)) by exact Fk.
        rewrite Efk. fold t1.
        change (qp_n K V t1) with (pred (qp_n K V t)). change (qp_m K V t1) with m.
        destruct (lf_le (pred (qp_n K V t)) m minlf) eqn:G; cbv beta iota.
        * unfold qp_resize.
          destruct (Nat.ltb_spec (m / 2) 31) as [Hsmall|Hbig].
          -- unfold qp_resize_with, qpMinM. destruct (Nat.ltb_spec (m / 2) 31); [|lia]. cbn [bind].
             exists t1. split; [reflexivity|]. split; [split; auto|split; [exact F1|simpl; lia]].
          -- assert (Hm2 : m <= 2 * (m / 2) + 1).
             { pose proof (Nat.div_mod m 2 ltac:(lia)). pose proof (Nat.mod_upper_bound m 2 ltac:(lia)). lia. }
             destruct (qp_resize_gen d shuf t1 (m / 2) Hd I1 Pm Hbig) as (t2 & H2 & I2 & F2 & N2).
             { intros n0 m0 Hn0. apply Hgf. simpl in Hn0. lia. }
             { exists m. split; [|apply (q_prime _ I)]. assert (m / 2 <= m) by (apply Nat.div_le_upper_bound; lia). lia. }
             rewrite H2; cbn [bind]. exists t2. split; [reflexivity|]. split; [exact I2|].
             split; [intros k'; now rewrite F2, F1|]. rewrite N2. simpl. lia.
        * exists t1. split; [reflexivity|]. split; [split; auto|split; [exact F1|simpl; lia]].
    - destruct Ho as [Hemp Habs].
      assert (Ef : qp_fun t k = None) by (unfold qp_fun; fold es; eapply key_absent; eauto).
      exists t. rewrite Ef. split; [reflexivity|]. split; [exact Hinv|]. split; [intros k'; symmetry; now apply frem_absent'|lia].
  Qed.

  Lemma qp_delete_all_ok : forall t, qp_inv t ->
      qp_inv (qp_delete_all K V t) /\ forall k, qp_fun (qp_delete_all K V t) k = None.
  Proof.
    intros t [I Ld]. destruct Hvalid as (D1 & D2 & D3 & D4). pose proof (q_min _ I) as M31.
    unfold qp_delete_all. split; [split|].
    - constructor; simpl; try apply I.
      + apply sinv_empty. unfold qH. apply Nat.div_str_pos. lia.
      + unfold ProofsSoft.nlive. now rewrite count_repeat_none.
      + unfold ProofsSoft.ntomb. now rewrite count_repeat_none.
    - unfold qp_load; simpl. nia.
    - intros k. unfold qp_fun; simpl. now apply sfun_empty.
  Qed.
End Quad.

(** * the refinement theorems for quadratic probing *)
Definition valid_cap_prime (cap : nat) : Prop := cap = 0 \/ (31 <= cap /\ is_prime cap = true).

(** primes in [n, 2n+1] for every n up to B *)
Definition prime_gap_upto (B : nat) : Prop :=
  forall n, 31 <= n <= B -> exists p, n <= p < n + (n + 2) /\ is_prime p = true.

Section QuadTop.
  Variables K V : Type.
  Variable eqb : K -> K -> bool.
  Variable eqv : V -> V -> bool.
  Variable hash : K -> N.
  Variables minlf maxlf : lf.
  Hypothesis eqb_spec : forall a b, eqb a b = true <-> a = b.
  Hypothesis Hvalid : valid_soft minlf maxlf.

  (** A Put grows the table only when (n+1)/m >= maxLF, and n is at most the number of operations so
      far: a history of at most L operations only asks for primes in [2m, 4m+1] with 2m <= 2*L/maxLF. *)
  Variables B L : nat.
  Hypothesis HgapB : prime_gap_upto B.
  Hypothesis HL : 2 * lf_den maxlf * L <= lf_num maxlf * B.

  Definition qu_InvI (i : nat) (t : table K V) : Prop :=
    match t with TQP _ _ s => qp_inv K V hash maxlf s /\ qp_n K V s <= i | _ => False end.
  Definition qu_Fun (t : table K V) (k : K) : option V :=
    match t with TQP _ _ s => qp_fun K V eqb s k | _ => None end.

  Theorem quad_refines_gen : forall cap orc ops,
      valid_cap_prime cap -> (forall i j, perm_oracle (orc i j)) -> length ops <= L ->
      outs_match K V (run K V eqb eqv hash minlf maxlf orc Quadratic cap ops) (run_spec K V eqb eqv ops).
  Proof.
    intros cap orc ops Hcap PO HlenL.
    assert (Hc : 31 <= (if cap =? 0 then qpMinM else cap) /\ is_prime (if cap =? 0 then qpMinM else cap) = true).
    { destruct Hcap as [Z|(H31 & Hp)].
      - subst. simpl. split; [unfold qpMinM; lia|reflexivity].
      - destruct (Nat.eqb_spec cap 0); [lia|auto]. }
    destruct Hc as (H31 & Hp).
    destruct (qp_new_ok K V eqb hash eqb_spec _ Hp H31) as (t0 & H0 & I0 & F0 & M0 & N0 & T0).
    pose proof Hvalid as (D1 & D2 & D3 & D4).
    assert (Hnum : 0 < lf_num maxlf) by nia.
    apply run_refines_bounded with (L := L) (Inv := qu_InvI) (Fun := qu_Fun) (t0 := TQP K V t0); auto.
    - intros i [| |s|] I; try contradiction. destruct I as [I Hn]. split; auto.
    - intros i [| |s|] shuf I P; try contradiction. apply qp_represents with (hash := hash); auto. apply I.
    - intros i [| |s|] I; try contradiction. simpl. apply qp_size_ok with (hash := hash); apply I.
    - intros i shuf [| |s|] k v Hi I P; try contradiction. destruct I as [I Hn]. unfold put.
      destruct (qp_put_ok K V eqb eqv hash minlf maxlf eqb_spec Hvalid depth shuf s k v) as (t' & H' & I' & F' & N'); auto.
      { unfold depth; lia. }
      { intros G. apply lf_ge_true in G. apply HgapB. pose proof (q_min _ _ _ _ (proj1 I)) as M31. split; [lia|].
        apply Nat.mul_le_mono_pos_l with (p := lf_num maxlf); auto.
        apply Nat.le_trans with (2 * lf_den maxlf * L); [|exact HL].
        apply Nat.le_trans with (2 * ((qp_n K V s + 1) * lf_den maxlf)); [lia|].
        replace (2 * lf_den maxlf * L) with (2 * (L * lf_den maxlf)) by lia.
        apply Nat.mul_le_mono_l. apply Nat.mul_le_mono_r. lia. }
      exists (TQP K V t'). rewrite H'. simpl. split; auto. split; auto. split; auto. lia.
    - intros i [| |s|] k I; try contradiction. simpl. apply qp_get_ok; auto. apply I.
    - intros i shuf [| |s|] k Hi I P; try contradiction. destruct I as [I Hn]. unfold delete.
      destruct (qp_delete_ok K V eqb eqv hash minlf maxlf eqb_spec Hvalid depth shuf s k) as (t' & H' & I' & F' & N'); auto.
      { unfold depth; lia. }
      { intros n0 m0 Hn0 M0' G. apply lf_ge_true in G. apply HgapB. split; [lia|].
        apply Nat.mul_le_mono_pos_l with (p := lf_num maxlf); auto.
        apply Nat.le_trans with (2 * lf_den maxlf * L); [|exact HL].
        apply Nat.le_trans with (2 * ((n0 + 1) * lf_den maxlf)); [lia|].
        replace (2 * lf_den maxlf * L) with (2 * (L * lf_den maxlf)) by lia.
        apply Nat.mul_le_mono_l. apply Nat.mul_le_mono_r. lia. }
      exists (TQP K V t'). rewrite H'. simpl. split; auto. split; auto. split; auto. lia.
    - intros i [| |s|] I; try contradiction. destruct I as [I Hn]. simpl.
      destruct (qp_delete_all_ok K V eqb hash minlf maxlf eqb_spec Hvalid s I) as [A Bq]. split; auto. split; auto. simpl. lia.
    - intros i s1 s2 [| |a|] [| |b|] I1 I2; try contradiction. reflexivity.
    - simpl. rewrite H0. reflexivity.
    - simpl. split; [|lia]. split; auto. unfold qp_load. rewrite N0, T0. simpl. nia.
  Qed.
End QuadTop.

Definition prime_gap : Prop := forall n, 31 <= n -> exists p, n <= p < n + (n + 2) /\ is_prime p = true.

(** unbounded histories, under the prime-gap hypothesis *)
Theorem quad_refines : forall (K V : Type) (eqb : K -> K -> bool) (eqv : V -> V -> bool) (hash : K -> N) (minlf maxlf : lf),
    (forall a b, eqb a b = true <-> a = b) -> valid_soft minlf maxlf -> prime_gap ->
    forall cap orc ops, valid_cap_prime cap -> (forall i j, perm_oracle (orc i j)) ->
    outs_match K V (run K V eqb eqv hash minlf maxlf orc Quadratic cap ops) (run_spec K V eqb eqv ops).
Proof.
  intros K V eqb eqv hash minlf maxlf He Hv Hg cap orc ops Hc PO.
  apply (quad_refines_gen K V eqb eqv hash minlf maxlf He Hv (2 * lf_den maxlf * length ops) (length ops)); auto.
  - intros n Hn. apply Hg. lia.
  - destruct Hv as (D1 & D2 & D3 & D4). assert (0 < lf_num maxlf) by nia. nia.
Qed.
