(** C02/C03 — double hashing (double_hash_table.go, after the fixes): invariant, termination of every
    probe loop within the fuel, and refinement of the abstract map.  Same structure as ProofsQuad.v:
    the probe sequence h1 + i*h2 of a prime-sized table visits all m slots, so the occupancy bound is
    (live + soft-deleted) < m.  The only hypothesis is the prime gap of [smallestPrimeLargerThan]. *)
From Coq Require Import List NArith ZArith Znumtheory Arith Bool Permutation Lia.
From Algo.C02 Require Import Model Arith ListLemmas Spec ProofsProbe ProofsPrime ProofsSoft ProofsQuad.
Import ListNotations.
Local Open Scope nat_scope.

(** options of the double-hashing theorems: maxLF <= 1/2, maxLF*31 >= 1 (any minLF) *)
Definition valid_dbl (minlf maxlf : lf) : Prop :=
  0 < lf_den maxlf /\ 0 < lf_den minlf /\
  2 * lf_num maxlf <= lf_den maxlf /\
  lf_den maxlf <= lf_num maxlf * 31.

Section Double.
  Variables K V : Type.
  Variable eqb : K -> K -> bool.
  Variable eqv : V -> V -> bool.
  Variable hash : K -> N.
  Variables minlf maxlf : lf.
  Hypothesis eqb_spec : forall a b, eqb a b = true <-> a = b.

  Notation dh := (dh K V).
  Notation E := (ent K V).
  Notation s_get := (s_get K V eqb).
  Notation keys := (keys K V).
  Notation represents := (represents K V).
  Notation fupd := (fupd K V eqb).
  Notation frem := (frem K V eqb).
  Notation sfun := (sfun K V eqb).
  Notation nlive := (nlive K V).
  Notation ntomb := (ntomb K V).
  Notation live_list := (live_list K V).

  Definition didx (m : nat) (k : K) : nat -> nat := dbl_idx (h_mod K hash m k) (dh_h2 K hash m m k) m.
  Definition dH (m : nat) : nat := m.

  Lemma didx_lt : forall m k i, m <> 0 -> didx m k i < m.
  Proof.
    intros m k i Hm. unfold didx. rewrite dbl_idx_nat. destruct (i =? 0).
    - now apply h_mod_lt.
    - now apply Nat.mod_upper_bound.
  Qed.

  Lemma dH_le : forall m, dH m <= m.
  Proof. intros; unfold dH; lia. Qed.

  Definition dinv (m : nat) := sinv K V m (didx m) (dH m).

  Record dh_inv0 (t : dh) : Prop := {
    d_prime : is_prime (dh_m K V t) = true;
    d_min : 31 <= dh_m K V t;
    d_sinv : dinv (dh_m K V t) (dh_e K V t);
    d_n : dh_n K V t = nlive (dh_e K V t);
    d_t : dh_t K V t = ntomb (dh_e K V t);
    d_p : dh_p K V t = dh_m K V t }.

  Definition dh_fun (t : dh) (k : K) : option V := sfun (dh_e K V t) k.

  Lemma d_window : forall t, dh_inv0 t -> forall k, NoDup (map (didx (dh_m K V t) k) (seq 0 (dH (dh_m K V t)))).
  Proof.
    intros t I k. pose proof (d_min _ I). pose proof (is_prime_sound _ (d_prime _ I)) as Hp.
    unfold dH. apply dbl_window; auto.
    - apply h_mod_lt; lia.
    - now apply dh_h2_ok.
  Qed.

  Lemma d_lt : forall t, dh_inv0 t -> forall k i, didx (dh_m K V t) k i < dh_m K V t.
  Proof. intros t I k i. pose proof (d_min _ I). apply didx_lt; lia. Qed.

  Lemma d_nonnil : forall t, dh_inv0 t -> nonnil E (dh_e K V t) = dh_n K V t + dh_t K V t.
  Proof. intros t I. rewrite (d_n _ I), (d_t _ I). apply nonnil_split. Qed.

  Lemma dh_all_perm : forall t shuf, perm_oracle shuf -> Permutation (dh_all K V shuf t) (live_list (dh_e K V t)).
  Proof. intros. unfold dh_all. now apply ents_all_perm. Qed.

  Lemma dh_represents : forall t shuf, dh_inv0 t -> perm_oracle shuf -> represents (dh_all K V shuf t) (dh_fun t).
  Proof.
    intros t shuf I Pm. eapply represents_permuted; [apply Permutation_sym, dh_all_perm; auto|].
    apply srepresents; auto. apply (s_dist _ _ _ _ _ _ (d_sinv _ I)).
  Qed.

  Lemma dh_n_length : forall t l, dh_inv0 t -> represents l (dh_fun t) -> dh_n K V t = length l.
  Proof.
    intros t l I R. rewrite (d_n _ I), <- live_list_length. eapply represents_length; eauto.
    apply srepresents; auto. apply (s_dist _ _ _ _ _ _ (d_sinv _ I)).
  Qed.

  Lemma dh_size_ok : forall t, dh_inv0 t -> dh_n K V t = length (dh_all K V (fun l => l) t).
  Proof. intros t I. unfold dh_all. rewrite ents_all_id, live_list_length. apply (d_n _ I). Qed.

  Lemma dh_get_ok : forall t k, dh_inv0 t -> dh_get K V eqb hash t k = Ok (dh_fun t k).
  Proof.
    intros t k I.
    destruct (lookup_live K V eqb eqb_spec (dh_m K V t) (didx (dh_m K V t)) (dH (dh_m K V t))
                (d_lt t I) (d_window t I) (dH_le _) (dh_e K V t) k (d_sinv _ I)) as (i & o & Hp & Ho).
    unfold dh_get, dh_idx. rewrite (d_p _ I).
    change (dbl_idx (h_mod K hash (dh_m K V t) k) (dh_h2 K hash (dh_m K V t) (dh_m K V t) k) (dh_m K V t)) with (didx (dh_m K V t) k).
    rewrite Hp. simpl. now rewrite Ho.
  Qed.

  (** the only entry with key [k] is soft-deleted: the map does not hold [k] *)
  Lemma tomb_absent_d : forall m es j e, dinv m es -> eat K V es j e -> e_d K V e = true -> sfun es (e_k K V e) = None.
  Proof.
    intros m es j e I Hat Ed. destruct (sfun es (e_k K V e)) as [v|] eqn:Ef; auto. exfalso.
    apply sfun_slots in Ef; auto; [|apply (s_dist _ _ _ _ _ _ I)].
    destruct Ef as (j' & e' & Hat' & Ek & _ & Ed').
    assert (j' = j) by (eapply (s_dist _ _ _ _ _ _ I); eauto). subst j'.
    unfold eat in *. rewrite Hat in Hat'. inversion Hat'; subst e'. congruence.
  Qed.

  Lemma key_absent_d : forall m es k, dinv m es -> (forall j e, eat K V es j e -> e_k K V e <> k) -> sfun es k = None.
  Proof.
    intros m es k I Habs. destruct (sfun es k) as [v|] eqn:Ef; auto. exfalso.
    apply sfun_slots in Ef; auto; [|apply (s_dist _ _ _ _ _ _ I)].
    destruct Ef as (j' & e' & Hat' & Ek & _). eapply Habs; eauto.
  Qed.

  Lemma dh_put_core_ok : forall t k v, dh_inv0 t ->
      nonnil E (dh_e K V t) + 1 < dH (dh_m K V t) ->
      exists t', dh_put_core K V eqb hash t k v = Ok t' /\ dh_inv0 t' /\
                 (forall k', dh_fun t' k' = fupd (dh_fun t) k v k') /\
                 dh_m K V t' = dh_m K V t /\
                 dh_n K V t' + dh_t K V t' <= dh_n K V t + dh_t K V t + 1 /\
                 dh_n K V t' <= S (dh_n K V t).
  Proof.
    intros t k v I Hroom. set (m := dh_m K V t) in *. set (es := dh_e K V t) in *.
    pose proof (d_sinv _ I) as SI. fold m es in SI.
    destruct (lookup_any K V eqb eqb_spec m (didx m) (dH m) (d_lt t I) (d_window t I) (dH_le _) es k SI)
      as (i & o & Hp & Hi & Hpre & Ho).
    destruct (put_slot K V eqb eqb_spec m (didx m) (dH m) (d_lt t I) (dH_le _) es k v i o SI Hi Hpre Ho)
      as (L' & V' & D' & F' & N' & T').
    unfold dh_put_core, dh_idx. rewrite (d_p _ I). fold m es.
    change (dbl_idx (h_mod K hash m k) (dh_h2 K hash m m k) m) with (didx m k). rewrite Hp. cbn [bind].
    set (es' := upd es (didx m k i) (Some {| e_k := match o with Some e => e_k K V e | None => k end; e_v := v; e_d := false |})) in *.
    assert (SI' : dinv m es').
    { constructor; auto. rewrite N'. destruct o; lia. }
    assert (Hlen : nlive es' = match sfun es k with Some _ => nlive es | None => S (nlive es) end).
    { pose proof (srepresents K V eqb eqb_spec es (s_dist _ _ _ _ _ _ SI)) as R0.
      pose proof (srepresents K V eqb eqb_spec es' D') as R1.
      rewrite <- !live_list_length.
      eapply represents_fupd_length with (f := sfun es) (k := k) (v := v); eauto.
      eapply represents_ext; [exact R1|exact F']. }
    pose proof (nonnil_split K V es) as S0. pose proof (nonnil_split K V es') as S1.
    pose proof (d_n _ I) as Nn. pose proof (d_t _ I) as Tt. fold es in Nn, Tt.
    destruct o as [e|]; unfold ents_put_at.
    - destruct Ho as [Ek Hat]. fold es'.
      destruct (e_d K V e) eqn:Ed.
      + assert (Ef : sfun es k = None) by (rewrite <- Ek; eapply tomb_absent_d; eauto).
        rewrite Ef in Hlen.
        eexists; split; [reflexivity|]. split; [|split; [exact F'|split; [reflexivity|split; simpl; lia]]].
        constructor; simpl; auto; try apply I; lia.
      + assert (Ef : sfun es k = Some (e_v K V e)).
        { apply (proj2 (sfun_slots K V eqb eqb_spec es k (e_v K V e) (s_dist _ _ _ _ _ _ SI))). exists (didx m k i), e. auto. }
        rewrite Ef in Hlen.
        eexists; split; [reflexivity|]. split; [|split; [exact F'|split; [reflexivity|split; simpl; lia]]].
        constructor; simpl; auto; try apply I; lia.
    - destruct Ho as [Hemp Habs]. fold es'.
      assert (Ef : sfun es k = None) by (eapply key_absent_d; eauto).
      rewrite Ef in Hlen.
      eexists; split; [reflexivity|]. split; [|split; [exact F'|split; [reflexivity|split; simpl; lia]]].
      constructor; simpl; auto; try apply I; lia.
  Qed.

  Lemma dh_put_noresize : forall d shuf t k v,
      lf_ge (dh_n K V t + dh_t K V t) (dh_m K V t) maxlf = false ->
      dh_put K V eqb hash maxlf d shuf t k v = dh_put_core K V eqb hash t k v.
  Proof. intros d shuf t k v H. destruct d; simpl; rewrite H; reflexivity. Qed.

  Lemma s_get_app_d : forall a b k, s_get (a ++ b) k = match s_get a k with Some v => Some v | None => s_get b k end.
  Proof.
    induction a as [|[x w] a IH]; simpl; intros b k; auto.
    unfold Spec.s_get in *; simpl. destruct (eqb x k); auto.
  Qed.

  Hypothesis Hvalid : valid_dbl minlf maxlf.

  (** [x * den < num * m] leaves room for one more entry among the m probes *)
  Lemma load_room_d : forall x m, 2 <= m -> x * lf_den maxlf < lf_num maxlf * m -> x + 1 < dH m.
  Proof.
    intros x m Hm Hx. destruct Hvalid as (D1 & D2 & D3 & D4). unfold dH.
    assert (2 * x < m); [|lia].
    apply Nat.mul_lt_mono_pos_r with (p := lf_den maxlf); auto.
    apply Nat.lt_le_trans with (2 * (lf_num maxlf * m)); [lia|].
    rewrite Nat.mul_assoc, (Nat.mul_comm m). apply Nat.mul_le_mono_r. exact D3.
  Qed.

  (** the re-insertion loop of resize: a fresh table, [n] live entries with pairwise distinct keys,
      and [n * den < num * m]: no nested resize, everything fits *)
  Lemma dh_reinsert_ok : forall d shuf rest pre acc,
      NoDup (keys (pre ++ rest)) -> dh_inv0 acc -> dh_t K V acc = 0 ->
      (forall k, dh_fun acc k = s_get pre k) ->
      length (pre ++ rest) * lf_den maxlf < lf_num maxlf * dh_m K V acc + lf_den maxlf ->
      exists t', reinsert K V (dh_put K V eqb hash maxlf d shuf) rest acc = Ok t' /\ dh_inv0 t' /\ dh_t K V t' = 0 /\
                 (forall k, dh_fun t' k = s_get (pre ++ rest) k) /\ dh_m K V t' = dh_m K V acc.
  Proof.
    intros d shuf rest. induction rest as [|[k v] rest IH]; intros pre acc ND I T0 F L.
    - exists acc. rewrite app_nil_r. split; [reflexivity|]. split; [exact I|]. split; [exact T0|]. split; [exact F|reflexivity].
    - rewrite reinsert_cons.
      assert (NDpre : NoDup (keys pre)).
      { unfold Spec.keys in *. rewrite map_app in ND. eapply NoDup_app_l. exact ND. }
      assert (Hn : dh_n K V acc = length pre).
      { apply dh_n_length; auto. eapply represents_ext; [apply represents_get; eauto|]. intros; now rewrite F. }
      rewrite app_length in L. simpl in L.
      assert (Hlt : (dh_n K V acc + dh_t K V acc) * lf_den maxlf < lf_num maxlf * dh_m K V acc).
      { rewrite Hn, T0. nia. }
      rewrite dh_put_noresize by (apply lf_ge_false; exact Hlt).
      destruct (dh_put_core_ok acc k v I) as (t1 & H1 & I1 & F1 & M1 & N1 & _).
      { rewrite (d_nonnil _ I). apply load_room_d; [pose proof (d_min _ I); lia|exact Hlt]. }
      rewrite H1; simpl.
      assert (Hk : ~ In k (keys pre)).
      { unfold Spec.keys in *. rewrite map_app in ND. simpl in ND. apply NoDup_remove_2 in ND.
        intros H; apply ND. apply in_or_app; auto. }
      assert (F1' : forall k', dh_fun t1 k' = s_get (pre ++ [(k, v)]) k').
      { intros k'. rewrite F1, s_get_app_d. unfold Spec.fupd. rewrite F.
        destruct (eqb k k') eqn:E.
        * apply eqb_spec in E; subst k'.
          rewrite (proj2 (s_get_None K V eqb eqb_spec pre k) Hk).
          unfold Spec.s_get; simpl. now rewrite (proj2 (eqb_spec k k) eq_refl).
        * destruct (s_get pre k'); auto. unfold Spec.s_get; simpl. now rewrite E. }
      assert (T1 : dh_t K V t1 = 0).
      { (* n1 = |pre|+1 and n1 + t1 <= n + t + 1 *)
        assert (NDk : NoDup (keys (pre ++ [(k, v)]))).
        { replace (pre ++ (k, v) :: rest) with ((pre ++ [(k, v)]) ++ rest) in ND by (rewrite <- app_assoc; reflexivity).
          unfold Spec.keys in *. rewrite map_app in ND. eapply NoDup_app_l. exact ND. }
        assert (Hn1 : dh_n K V t1 = length (pre ++ [(k, v)])).
        { apply dh_n_length; auto. eapply represents_ext; [apply represents_get; eauto|]. intros; now rewrite F1'. }
        rewrite app_length in Hn1. simpl in Hn1. lia. }
      destruct (IH (pre ++ [(k, v)]) t1) as (t' & H' & I' & T' & F' & M'); auto.
      + now rewrite <- app_assoc.
      + rewrite M1, <- app_assoc, app_length. simpl. lia.
      + exists t'. rewrite <- app_assoc in F'. simpl in F'.
        split; [exact H'|]. split; [exact I'|]. split; [exact T'|]. split; [exact F'|congruence].
  Qed.

  Lemma dh_new_ok : forall p, is_prime p = true -> 31 <= p ->
      exists t, dh_new K V p = Ok t /\ dh_inv0 t /\ (forall k, dh_fun t k = None) /\
                dh_m K V t = p /\ dh_n K V t = 0 /\ dh_t K V t = 0.
  Proof.
    intros p Hp H31. unfold dh_new, dhMinM. destruct (Nat.ltb_spec p 31); [lia|]. rewrite Hp, (largest_prime_le_prime p Hp). cbn [negb orb].
    eexists; split; [reflexivity|]. split; [|split; [|auto]].
    - constructor; simpl; auto.
      + apply sinv_empty. unfold dH. lia.
      + unfold ProofsSoft.nlive. now rewrite count_repeat_none.
      + unfold ProofsSoft.ntomb. now rewrite count_repeat_none.
    - intros k. unfold dh_fun; simpl. now apply sfun_empty.
  Qed.

  Lemma dh_resize_ok : forall d shuf t m',
      dh_inv0 t -> perm_oracle shuf -> 31 <= m' ->
      (exists p, m' <= p < m' + (m' + 2) /\ is_prime p = true) ->
      (forall p, m' <= p -> is_prime p = true -> dh_n K V t * lf_den maxlf < lf_num maxlf * p + lf_den maxlf) ->
      exists t', dh_resize_with K V (dh_put K V eqb hash maxlf d shuf) shuf t m' = Ok t' /\ dh_inv0 t' /\
                 (forall k, dh_fun t' k = dh_fun t k) /\ m' <= dh_m K V t' /\
                 dh_n K V t' = dh_n K V t /\ dh_t K V t' = 0.
  Proof.
    intros d shuf t m' I Pm H31 (p0 & Hp0 & Pp0) L. unfold dh_resize_with, dhMinM.
    destruct (Nat.ltb_spec m' 31); [lia|].
    unfold smallest_prime_ge. destruct (next_prime_total (m' + 2) m' p0 Hp0 Pp0) as (p & Hnp).
    rewrite Hnp. cbn [bind]. apply next_prime_spec in Hnp. destruct Hnp as [Pp Rp].
    destruct (dh_new_ok p Pp ltac:(lia)) as (nt & Hn & In & Fn & Mn & Nn & Tn). rewrite Hn; cbn [bind].
    pose proof (dh_represents t shuf I Pm) as R.
    pose proof (dh_n_length t _ I R) as Hlen.
    assert (A1 : NoDup (keys ([] ++ dh_all K V shuf t))) by (simpl; apply R).
    assert (A2 : forall k, dh_fun nt k = s_get [] k) by (intros k; rewrite Fn; reflexivity).
    assert (A3 : length ([] ++ dh_all K V shuf t) * lf_den maxlf < lf_num maxlf * dh_m K V nt + lf_den maxlf).
    { simpl. rewrite Mn, <- Hlen. apply L; [lia|exact Pp]. }
    destruct (dh_reinsert_ok d shuf (dh_all K V shuf t) [] nt A1 In Tn A2 A3) as (t' & H' & I' & T' & F' & M').
    rewrite H'; cbn [bind]. simpl in F'.
      assert (Ft : forall k, dh_fun t' k = dh_fun t k).
      { intros k. rewrite F'. symmetry. apply represents_fun; auto. }
      set (t2 := {| dh_e := dh_e K V t'; dh_m := dh_m K V t'; dh_n := dh_n K V t'; dh_t := dh_t K V t' |}).
      assert (E2 : t2 = t') by (destruct t'; reflexivity).
      exists t2. rewrite E2. split; [reflexivity|]. split; [exact I'|]. split; [exact Ft|]. split; [lia|]. split; [|exact T'].
      rewrite (dh_n_length t' (dh_all K V shuf t) I'); [lia|].
      eapply represents_ext; [exact R|]. intros; now rewrite Ft.
  Qed.

  (** * the load invariant, Put and Delete *)
  Definition dh_load (t : dh) : Prop :=
    (dh_n K V t + dh_t K V t) * lf_den maxlf < lf_num maxlf * dh_m K V t + lf_den maxlf.
  Definition dh_inv (t : dh) : Prop := dh_inv0 t /\ dh_load t.

  Lemma dh_put_ok : forall d shuf t k v, 1 <= d -> dh_inv t -> perm_oracle shuf ->
      (lf_ge (dh_n K V t) (dh_m K V t) maxlf = true ->
       exists p, 2 * dh_m K V t <= p < 2 * dh_m K V t + (2 * dh_m K V t + 2) /\ is_prime p = true) ->
      exists t', dh_put K V eqb hash maxlf d shuf t k v = Ok t' /\ dh_inv t' /\
                 (forall k', dh_fun t' k' = fupd (dh_fun t) k v k') /\ dh_n K V t' <= S (dh_n K V t).
  Proof.
    intros d shuf t k v Hd [I Ld] Pm Hg. unfold dh_load in Ld.
    pose proof Hvalid as (D1 & D2 & D3 & D4). pose proof (d_min _ I) as M31.
    destruct d as [|d]; [lia|]. simpl.
    assert (Dm : lf_den maxlf <= lf_num maxlf * dh_m K V t).
    { apply Nat.le_trans with (lf_num maxlf * 31); auto. apply Nat.mul_le_mono_l. lia. }
    destruct (lf_ge (dh_n K V t + dh_t K V t) (dh_m K V t) maxlf) eqn:G.
    - destruct (lf_ge (dh_n K V t) (dh_m K V t) maxlf) eqn:G2.
      + (* the live entries alone reach the limit: grow *)
        destruct (dh_resize_ok d shuf t (2 * dh_m K V t) I Pm ltac:(lia)) as (t1 & H1 & I1 & F1 & M1 & N1 & T1).
        { apply Hg. reflexivity. }
        { intros p Hp _. apply Nat.lt_le_trans with (lf_num maxlf * (2 * dh_m K V t) + lf_den maxlf); [nia|].
          apply Nat.add_le_mono_r. apply Nat.mul_le_mono_l; lia. }
        replace (dh_m K V t + (dh_m K V t + 0)) with (2 * dh_m K V t) by lia.
        rewrite H1; cbn [bind].
        assert (L1 : (dh_n K V t1 + dh_t K V t1) * lf_den maxlf < lf_num maxlf * dh_m K V t1).
        { rewrite N1, T1. apply Nat.lt_le_trans with (lf_num maxlf * (2 * dh_m K V t)); [|apply Nat.mul_le_mono_l; lia]. nia. }
        destruct (dh_put_core_ok t1 k v I1) as (t2 & H2 & I2 & F2 & M2 & N2 & B2).
        { rewrite (d_nonnil _ I1). apply load_room_d; [pose proof (d_min _ I1); lia|exact L1]. }
        exists t2. split; [exact H2|]. split.
        * split; auto. unfold dh_load. rewrite M2. nia.
        * split; [intros k'; rewrite F2; unfold Spec.fupd; now rewrite F1|lia].
      + (* soft-deleted entries fill the table: rehash in place *)
        apply lf_ge_false in G2.
        destruct (dh_resize_ok d shuf t (dh_m K V t) I Pm M31) as (t1 & H1 & I1 & F1 & M1 & N1 & T1).
        { exists (dh_m K V t). split; [lia|apply (d_prime _ I)]. }
        { intros p Hp _. apply Nat.lt_le_trans with (lf_num maxlf * dh_m K V t + lf_den maxlf); [nia|].
          apply Nat.add_le_mono_r. apply Nat.mul_le_mono_l; lia. }
        rewrite H1; cbn [bind].
        assert (L1 : (dh_n K V t1 + dh_t K V t1) * lf_den maxlf < lf_num maxlf * dh_m K V t1).
        { rewrite N1, T1. apply Nat.lt_le_trans with (lf_num maxlf * dh_m K V t); [|apply Nat.mul_le_mono_l; lia]. nia. }
        destruct (dh_put_core_ok t1 k v I1) as (t2 & H2 & I2 & F2 & M2 & N2 & B2).
        { rewrite (d_nonnil _ I1). apply load_room_d; [pose proof (d_min _ I1); lia|exact L1]. }
        exists t2. split; [exact H2|]. split.
        * split; auto. unfold dh_load. rewrite M2. nia.
        * split; [intros k'; rewrite F2; unfold Spec.fupd; now rewrite F1|lia].
    - apply lf_ge_false in G. cbn [bind].
      destruct (dh_put_core_ok t k v I) as (t2 & H2 & I2 & F2 & M2 & N2 & B2).
      { rewrite (d_nonnil _ I). apply load_room_d; [lia|exact G]. }
      exists t2. split; [exact H2|]. split; [|split; auto].
      split; auto. unfold dh_load. rewrite M2. nia.
  Qed.

  (** the primes asked for by a growing Put while at most [N] entries are live *)
  Definition gap_for_d (N : nat) : Prop :=
    forall n m, n <= N -> 31 <= m -> lf_ge n m maxlf = true ->
                exists p, 2 * m <= p < 2 * m + (2 * m + 2) /\ is_prime p = true.

  Lemma dh_reinsert_gen : forall d shuf rest pre acc,
      1 <= d -> perm_oracle shuf -> gap_for_d (length (pre ++ rest)) ->
      NoDup (keys (pre ++ rest)) -> dh_inv acc ->
      (forall k, dh_fun acc k = s_get pre k) ->
      exists t', reinsert K V (dh_put K V eqb hash maxlf d shuf) rest acc = Ok t' /\ dh_inv t' /\
                 (forall k, dh_fun t' k = s_get (pre ++ rest) k).
  Proof.
    intros d shuf rest. induction rest as [|[k v] rest IH]; intros pre acc Hd P Hg ND I F.
    - exists acc. rewrite app_nil_r. split; [reflexivity|]. split; [exact I|exact F].
    - rewrite reinsert_cons.
      assert (NDpre : NoDup (keys pre)).
      { unfold Spec.keys in *. rewrite map_app in ND. eapply NoDup_app_l. exact ND. }
      assert (Hn : dh_n K V acc = length pre).
      { apply dh_n_length; [apply I|]. eapply represents_ext; [apply represents_get; eauto|]. intros; now rewrite F. }
      destruct (dh_put_ok d shuf acc k v Hd I P) as (t1 & H1 & I1 & F1 & _).
      { intros G. apply (Hg (dh_n K V acc)); auto.
        - rewrite Hn, app_length. lia.
        - apply (d_min _ (proj1 I)). }
      rewrite H1; simpl.
      assert (Hk : ~ In k (keys pre)).
      { unfold Spec.keys in *. rewrite map_app in ND. simpl in ND. apply NoDup_remove_2 in ND.
        intros H; apply ND. apply in_or_app; auto. }
      destruct (IH (pre ++ [(k, v)]) t1 Hd P) as (t' & H' & I' & F').
      + now rewrite <- app_assoc.
      + now rewrite <- app_assoc.
      + exact I1.
      + intros k'. rewrite F1, s_get_app_d. unfold Spec.fupd. rewrite F.
        destruct (eqb k k') eqn:E.
        * apply eqb_spec in E; subst k'.
          rewrite (proj2 (s_get_None K V eqb eqb_spec pre k) Hk).
          unfold Spec.s_get; simpl. now rewrite (proj2 (eqb_spec k k) eq_refl).
        * destruct (s_get pre k'); auto. unfold Spec.s_get; simpl. now rewrite E.
      + exists t'. rewrite <- app_assoc in F'. simpl in F'. split; [exact H'|]. split; [exact I'|exact F'].
  Qed.

  Lemma dh_resize_gen : forall d shuf t m',
      1 <= d -> dh_inv0 t -> perm_oracle shuf -> 31 <= m' -> gap_for_d (dh_n K V t) ->
      (exists p, m' <= p < m' + (m' + 2) /\ is_prime p = true) ->
      exists t', dh_resize_with K V (dh_put K V eqb hash maxlf d shuf) shuf t m' = Ok t' /\ dh_inv t' /\
                 (forall k, dh_fun t' k = dh_fun t k) /\ dh_n K V t' = dh_n K V t.
  Proof.
    intros d shuf t m' Hd I Pm H31 Hg (p0 & Hp0 & Pp0). unfold dh_resize_with, dhMinM.
    destruct Hvalid as (D1 & D2 & D3 & D4).
    destruct (Nat.ltb_spec m' 31); [lia|].
    unfold smallest_prime_ge. destruct (next_prime_total (m' + 2) m' p0 Hp0 Pp0) as (p & Hnp).
    rewrite Hnp. cbn [bind]. apply next_prime_spec in Hnp. destruct Hnp as [Pp Rp].
    destruct (dh_new_ok p Pp ltac:(lia)) as (nt & Hn & In & Fn & Mn & Nn & Tn). rewrite Hn; cbn [bind].
    pose proof (dh_represents t shuf I Pm) as R.
    pose proof (dh_n_length t _ I R) as Hlen.
    destruct (dh_reinsert_gen d shuf (dh_all K V shuf t) [] nt Hd Pm) as (t' & H' & I' & F').
    - simpl. now rewrite <- Hlen.
    - simpl. apply R.
    - split; auto. unfold dh_load. rewrite Nn, Tn, Mn. simpl. lia.
    - intros k. rewrite Fn. reflexivity.
    - rewrite H'; cbn [bind]. simpl in F'.
      assert (Ft : forall k, dh_fun t' k = dh_fun t k).
      { intros k. rewrite F'. symmetry. apply represents_fun; auto. }
      set (t2 := {| dh_e := dh_e K V t'; dh_m := dh_m K V t'; dh_p := dh_p K V t'; dh_n := dh_n K V t'; dh_t := dh_t K V t' |}).
      assert (E2 : t2 = t') by (destruct t'; reflexivity).
      exists t2. rewrite E2. split; [reflexivity|]. split; [exact I'|]. split; [exact Ft|].
      rewrite (dh_n_length t' (dh_all K V shuf t) (proj1 I')); [lia|].
      eapply represents_ext; [exact R|]. intros; now rewrite Ft.
  Qed.

  Lemma frem_absent_d : forall (f : K -> option V) k k', f k = None -> frem f k k' = f k'.
  Proof.
    intros f k k' H. unfold Spec.frem. destruct (eqb k k') eqn:E; auto. apply eqb_spec in E. now subst.
  Qed.

  Lemma dh_delete_ok : forall d shuf t k, 1 <= d -> dh_inv t -> perm_oracle shuf -> gap_for_d (dh_n K V t) ->
      exists t', dh_delete K V eqb hash minlf maxlf d shuf t k = Ok (t', dh_fun t k) /\ dh_inv t' /\
                 (forall k', dh_fun t' k' = frem (dh_fun t) k k') /\ dh_n K V t' <= dh_n K V t.
  Proof.
    intros d shuf t k Hd Hinv Pm Hgf. pose proof Hinv as [I Ld]. unfold dh_load in Ld.
    destruct Hvalid as (D1 & D2 & D3 & D4). pose proof (d_min _ I) as M31.
    set (m := dh_m K V t) in *. set (es := dh_e K V t) in *.
    pose proof (d_sinv _ I) as SI. fold m es in SI.
    destruct (lookup_any K V eqb eqb_spec m (didx m) (dH m) (d_lt t I) (d_window t I) (dH_le _) es k SI)
      as (i & o & Hp & Hi & Hpre & Ho).
    unfold dh_delete, dh_idx. rewrite (d_p _ I). fold m es.
    change (dbl_idx (h_mod K hash m k) (dh_h2 K hash m m k) m) with (didx m k). rewrite Hp. cbn [bind].
    destruct o as [e|].
    - destruct Ho as [Ek Hat]. destruct (e_d K V e) eqn:Ed.
      + assert (Ef : dh_fun t k = None) by (unfold dh_fun; fold es; rewrite <- Ek; eapply tomb_absent_d; eauto).
        exists t. rewrite Ef. split; [reflexivity|]. split; [exact Hinv|]. split; [intros k'; symmetry; now apply frem_absent_d|lia].
      + destruct (del_slot K V eqb eqb_spec m (didx m) (dH m) (d_lt t I) (dH_le _) es k i e SI Hat Ek Ed)
          as (L' & V' & D' & F' & Fk & N' & T').
        set (es' := upd es (didx m k i) (Some {| e_k := e_k K V e; e_v := e_v K V e; e_d := true |})) in *.
        set (t1 := {| dh_e := es'; dh_m := m; dh_p := m; dh_n := pred (dh_n K V t); dh_t := S (dh_t K V t) |}).
        assert (Hlen : nlive es' + 1 = nlive es).
        { pose proof (srepresents K V eqb eqb_spec es (s_dist _ _ _ _ _ _ SI)) as R0.
          pose proof (srepresents K V eqb eqb_spec es' D') as R1.
          assert (Hl : length (live_list es') + (match sfun es k with Some _ => 1 | None => 0 end) = length (live_list es)).
          { eapply represents_frem_length; eauto. eapply represents_ext; [exact R1|exact F']. }
          rewrite Fk in Hl. now rewrite !live_list_length in Hl. }
        pose proof (d_n _ I) as Nn. pose proof (d_t _ I) as Tt. fold es in Nn, Tt.
        assert (I1 : dh_inv0 t1).
        { constructor; simpl; try apply I.
          - constructor; auto. rewrite N'. apply (s_room _ _ _ _ _ _ SI).
          - lia.
          - lia.
          - reflexivity. }
        assert (Ld1 : dh_load t1).
        { unfold dh_load; simpl. fold m. replace (pred (dh_n K V t) + S (dh_t K V t)) with (dh_n K V t + dh_t K V t) by lia. exact Ld. }
        assert (F1 : forall k', dh_fun t1 k' = frem (dh_fun t) k k') by (intros k'; apply F').
        assert (Efk : dh_fun t k = Some (e_v K V e)) by exact Fk.
        rewrite Efk. fold t1.
        change (dh_n K V t1) with (pred (dh_n K V t)). change (dh_m K V t1) with m.
        destruct (lf_le (pred (dh_n K V t)) m minlf) eqn:G; cbv beta iota.
        * unfold dh_resize.
          destruct (Nat.ltb_spec (m / 2) 31) as [Hsmall|Hbig].
          -- unfold dh_resize_with, dhMinM. destruct (Nat.ltb_spec (m / 2) 31); [|lia]. cbn [bind].
             exists t1. split; [reflexivity|]. split; [split; auto|split; [exact F1|simpl; lia]].
          -- assert (Hm2 : m <= 2 * (m / 2) + 1).
             { pose proof (Nat.div_mod m 2 ltac:(lia)). pose proof (Nat.mod_upper_bound m 2 ltac:(lia)). lia. }
             destruct (dh_resize_gen d shuf t1 (m / 2) Hd I1 Pm Hbig) as (t2 & H2 & I2 & F2 & N2).
             { intros n0 m0 Hn0. apply Hgf. simpl in Hn0. lia. }
             { exists m. split; [|apply (d_prime _ I)]. assert (m / 2 <= m) by (apply Nat.div_le_upper_bound; lia). lia. }
             rewrite H2; cbn [bind]. exists t2. split; [reflexivity|]. split; [exact I2|].
             split; [intros k'; now rewrite F2, F1|]. rewrite N2. simpl. lia.
        * exists t1. split; [reflexivity|]. split; [split; auto|split; [exact F1|simpl; lia]].
    - destruct Ho as [Hemp Habs].
      assert (Ef : dh_fun t k = None) by (unfold dh_fun; fold es; eapply key_absent_d; eauto).
      exists t. rewrite Ef. split; [reflexivity|]. split; [exact Hinv|]. split; [intros k'; symmetry; now apply frem_absent_d|lia].
  Qed.

  Lemma dh_delete_all_ok : forall t, dh_inv t ->
      dh_inv (dh_delete_all K V t) /\ forall k, dh_fun (dh_delete_all K V t) k = None.
  Proof.
    intros t [I Ld]. destruct Hvalid as (D1 & D2 & D3 & D4). pose proof (d_min _ I) as M31.
    unfold dh_delete_all. split; [split|].
    - constructor; simpl; try apply I.
      + apply sinv_empty. unfold dH. lia.
      + unfold ProofsSoft.nlive. now rewrite count_repeat_none.
      + unfold ProofsSoft.ntomb. now rewrite count_repeat_none.
    - unfold dh_load; simpl. nia.
    - intros k. unfold dh_fun; simpl. now apply sfun_empty.
  Qed.
End Double.

(** * the refinement theorems for double hashing *)
Section DoubleTop.
  Variables K V : Type.
  Variable eqb : K -> K -> bool.
  Variable eqv : V -> V -> bool.
  Variable hash : K -> N.
  Variables minlf maxlf : lf.
  Hypothesis eqb_spec : forall a b, eqb a b = true <-> a = b.
  Hypothesis Hvalid : valid_dbl minlf maxlf.
  Variables B L : nat.
  Hypothesis HgapB : prime_gap_upto B.
  Hypothesis HL : 2 * lf_den maxlf * L <= lf_num maxlf * B.

  Definition du_InvI (i : nat) (t : table K V) : Prop :=
    match t with TDH _ _ s => dh_inv K V hash maxlf s /\ dh_n K V s <= i | _ => False end.
  Definition du_Fun (t : table K V) (k : K) : option V :=
    match t with TDH _ _ s => dh_fun K V eqb s k | _ => None end.

  Theorem double_refines_gen : forall cap orc ops,
      valid_cap_prime cap -> (forall i j, perm_oracle (orc i j)) -> length ops <= L ->
      outs_match K V (run K V eqb eqv hash minlf maxlf orc Double cap ops) (run_spec K V eqb eqv ops).
  Proof.
    intros cap orc ops Hcap PO HlenL.
    assert (Hc : 31 <= (if cap =? 0 then dhMinM else cap) /\ is_prime (if cap =? 0 then dhMinM else cap) = true).
    { destruct Hcap as [Z|(H31 & Hp)].
      - subst. simpl. split; [unfold dhMinM; lia|reflexivity].
      - destruct (Nat.eqb_spec cap 0); [lia|auto]. }
    destruct Hc as (H31 & Hp).
    destruct (dh_new_ok K V eqb hash eqb_spec _ Hp H31) as (t0 & H0 & I0 & F0 & M0 & N0 & T0).
    pose proof Hvalid as (D1 & D2 & D3 & D4).
    assert (Hnum : 0 < lf_num maxlf) by nia.
    apply run_refines_bounded with (L := L) (Inv := du_InvI) (Fun := du_Fun) (t0 := TDH K V t0); auto.
    - intros i [| | |s] I; try contradiction. destruct I as [I Hn]. split; auto.
    - intros i [| | |s] shuf I P; try contradiction. apply dh_represents with (hash := hash); auto. apply I.
    - intros i [| | |s] I; try contradiction. simpl. apply dh_size_ok with (hash := hash); apply I.
    - intros i shuf [| | |s] k v Hi I P; try contradiction. destruct I as [I Hn]. unfold put.
      destruct (dh_put_ok K V eqb eqv hash minlf maxlf eqb_spec Hvalid depth shuf s k v) as (t' & H' & I' & F' & N'); auto.
      { unfold depth; lia. }
      { intros G. apply lf_ge_true in G. apply HgapB. pose proof (d_min _ _ _ _ (proj1 I)) as M31. split; [lia|].
        apply Nat.mul_le_mono_pos_l with (p := lf_num maxlf); auto.
        apply Nat.le_trans with (2 * lf_den maxlf * L); [|exact HL].
        apply Nat.le_trans with (2 * (dh_n K V s * lf_den maxlf)); [lia|].
        replace (2 * lf_den maxlf * L) with (2 * (L * lf_den maxlf)) by lia.
        apply Nat.mul_le_mono_l. apply Nat.mul_le_mono_r. lia. }
      exists (TDH K V t'). rewrite H'. simpl. split; auto. split; auto. split; auto. lia.
    - intros i [| | |s] k I; try contradiction. simpl. apply dh_get_ok; auto. apply I.
    - intros i shuf [| | |s] k Hi I P; try contradiction. destruct I as [I Hn]. unfold delete.
      destruct (dh_delete_ok K V eqb eqv hash minlf maxlf eqb_spec Hvalid depth shuf s k) as (t' & H' & I' & F' & N'); auto.
      { unfold depth; lia. }
      { intros n0 m0 Hn0 M0' G. apply lf_ge_true in G. apply HgapB. split; [lia|].
        apply Nat.mul_le_mono_pos_l with (p := lf_num maxlf); auto.
        apply Nat.le_trans with (2 * lf_den maxlf * L); [|exact HL].
        apply Nat.le_trans with (2 * (n0 * lf_den maxlf)); [lia|].
        replace (2 * lf_den maxlf * L) with (2 * (L * lf_den maxlf)) by lia.
        apply Nat.mul_le_mono_l. apply Nat.mul_le_mono_r. lia. }
      exists (TDH K V t'). rewrite H'. simpl. split; auto. split; auto. split; auto. lia.
    - intros i [| | |s] I; try contradiction. destruct I as [I Hn]. simpl.
      destruct (dh_delete_all_ok K V eqb hash minlf maxlf eqb_spec Hvalid s I) as [A Bq]. split; auto. split; auto. simpl. lia.
    - intros i s1 s2 [| | |a] [| | |b] I1 I2; try contradiction. reflexivity.
    - simpl. rewrite H0. reflexivity.
    - simpl. split; [|lia]. split; auto. unfold dh_load. rewrite N0, T0. simpl. lia.
  Qed.
End DoubleTop.

Theorem double_refines : forall (K V : Type) (eqb : K -> K -> bool) (eqv : V -> V -> bool) (hash : K -> N) (minlf maxlf : lf),
    (forall a b, eqb a b = true <-> a = b) -> valid_dbl minlf maxlf -> prime_gap ->
    forall cap orc ops, valid_cap_prime cap -> (forall i j, perm_oracle (orc i j)) ->
    outs_match K V (run K V eqb eqv hash minlf maxlf orc Double cap ops) (run_spec K V eqb eqv ops).
Proof.
  intros K V eqb eqv hash minlf maxlf He Hv Hg cap orc ops Hc PO.
  apply (double_refines_gen K V eqb eqv hash minlf maxlf He Hv (2 * lf_den maxlf * length ops) (length ops)); auto.
  - intros n Hn. apply Hg. lia.
  - destruct Hv as (D1 & D2 & D3 & D4). assert (0 < lf_num maxlf) by nia. nia.
Qed.
