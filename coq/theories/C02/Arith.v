(** C02 — the binary ([N]) computations of the model restated over [nat], and bounds of the indices. *)
From Coq Require Import List NArith Arith Bool Lia.
From Algo.C02 Require Import Model.

Lemma lf_ge_nat : forall n m f, lf_ge n m f = (lf_num f * m <=? n * lf_den f).
Proof.
  intros. unfold lf_ge. apply eq_true_iff_eq. rewrite N.leb_le, Nat.leb_le.
  rewrite <- !Nat2N.inj_mul. lia.
Qed.

Lemma lf_le_nat : forall n m f, lf_le n m f = (n * lf_den f <=? lf_num f * m).
Proof.
  intros. unfold lf_le. apply eq_true_iff_eq. rewrite N.leb_le, Nat.leb_le.
  rewrite <- !Nat2N.inj_mul. lia.
Qed.

Lemma lf_ge_true : forall n m f, lf_ge n m f = true <-> lf_num f * m <= n * lf_den f.
Proof. intros. rewrite lf_ge_nat. apply Nat.leb_le. Qed.
Lemma lf_ge_false : forall n m f, lf_ge n m f = false <-> n * lf_den f < lf_num f * m.
Proof. intros. rewrite lf_ge_nat. apply Nat.leb_gt. Qed.
Lemma lf_le_true : forall n m f, lf_le n m f = true <-> n * lf_den f <= lf_num f * m.
Proof. intros. rewrite lf_le_nat. apply Nat.leb_le. Qed.
Lemma lf_le_false : forall n m f, lf_le n m f = false <-> lf_num f * m < n * lf_den f.
Proof. intros. rewrite lf_le_nat. apply Nat.leb_gt. Qed.

Lemma to_nat_mod : forall a M, N.to_nat (N.of_nat a mod N.of_nat M) = a mod M.
Proof. intros. rewrite N2Nat.inj_mod, !Nat2N.id. reflexivity. Qed.

Section Idx.
  Variables K V : Type.

  Lemma lin_idx_nat : forall h1 M i, lin_idx h1 M i = if i =? 0 then h1 else (h1 + i) mod M.
  Proof. intros. unfold lin_idx. destruct (i =? 0); auto. now rewrite <- Nat2N.inj_add, to_nat_mod. Qed.

  Lemma quad_idx_nat : forall h1 M i, quad_idx h1 M i = if i =? 0 then h1 else (h1 + i * i) mod M.
  Proof.
    intros. unfold quad_idx. destruct (i =? 0); auto.
    now rewrite <- Nat2N.inj_mul, <- Nat2N.inj_add, to_nat_mod.
  Qed.

  Lemma dbl_idx_nat : forall h1 h2 M i, dbl_idx h1 h2 M i = if i =? 0 then h1 else (h1 + i * h2) mod M.
  Proof.
    intros. unfold dbl_idx. destruct (i =? 0); auto.
    now rewrite <- Nat2N.inj_mul, <- Nat2N.inj_add, to_nat_mod.
  Qed.

  Variable hash : K -> N.

  Lemma h_mod_lt : forall m k, m <> 0 -> h_mod K hash m k < m.
  Proof.
    intros m k Hm. unfold h_mod.
    assert (H : (mix (hash k) mod N.of_nat m < N.of_nat m)%N) by (apply N.mod_lt; lia).
    lia.
  Qed.

  Lemma h_pow2_lt : forall e k, h_pow2 K hash (2 ^ e) k < 2 ^ e.
  Proof.
    intros e k. unfold h_pow2.
    replace (N.of_nat (2 ^ e) - 1)%N with (N.ones (N.of_nat e)).
    2:{ rewrite N.ones_equiv, Nat2N.inj_pow. simpl. lia. }
    rewrite N.land_ones.
    assert (H : (mix (hash k) mod 2 ^ N.of_nat e < 2 ^ N.of_nat e)%N).
    { apply N.mod_lt. apply N.pow_nonzero. lia. }
    assert (E : N.of_nat (2 ^ e) = (2 ^ N.of_nat e)%N) by (rewrite Nat2N.inj_pow; reflexivity).
    lia.
  Qed.
End Idx.

Lemma is_pow2_pow : forall e, is_pow2 (2 ^ e) = true.
Proof.
  intros e. unfold is_pow2. apply N.eqb_eq.
  replace (N.of_nat (2 ^ e) - 1)%N with (N.ones (N.of_nat e)).
  2:{ rewrite N.ones_equiv, Nat2N.inj_pow. simpl. lia. }
  rewrite N.land_ones. rewrite Nat2N.inj_pow. apply N.mod_same. apply N.pow_nonzero. simpl; lia.
Qed.
