(** C02 / C03 — executable model of the four hash tables of /repo/symboltable
    (chain_hash_table.go, linear_hash_table.go, quadratic_hash_table.go, double_hash_table.go,
    hash_table.go), as they are after the fix: commits 0443612 (n++ on revival), e67178f
    (tombstone counter t, rehash in place) and 09f3594 (quadratic Put counts the new entry).

    Transcription conventions.
    - Keys and values are arbitrary types [K], [V]; [eqb]/[eqv] are the user's eqKey/eqVal,
      [hash : K -> N] is the user's hash function (any function: FNV, identity, constant ...).
    - [int] sizes are [nat]; hash values are [N] (uint64 never overflows in [mix], which only
      shifts right; products [i*i], [i*h2] stay far below 2^64 for tables below 2^31 slots).
    - float32 load factors are rationals [num/den]; [n/m >= f] is [num*m <= n*den].  Products and
      remainders are evaluated in binary [N] (the extracted model must not build unary numbers of
      the size of [i*i]); C02/Arith.v restates them over [nat].
    - Slices are lists; an index out of range is the result [Panic]; probe loops
      ([for i = next(); entries[i] != nil; i = next()]) run on fuel [m] and fuel exhaustion is
      the result [Hang] (C03: "returns after a number of probes bounded by the capacity").
    - [All()] iterates the slots in the order [shuf [0;...;m-1]]; [shuf] is the random
      permutation drawn by [shuffle] (an oracle argument of every operation that iterates).
    - [resize] calls [Put] of a fresh table, which may itself resize: the nesting depth is a
      fuel [d]; its exhaustion is [Panic] (proved unreachable under valid options).
    No proofs in this file. *)
From Coq Require Export List NArith Arith Bool.
Export ListNotations.

Inductive res (A : Type) : Type := Ok (a : A) | Panic | Hang.
Arguments Ok {A} a.
Arguments Panic {A}.
Arguments Hang {A}.

Definition bind {A B : Type} (r : res A) (f : A -> res B) : res B :=
  match r with Ok a => f a | Panic => Panic | Hang => Hang end.

(** load factors as rationals *)
Record lf : Type := { lf_num : nat; lf_den : nat }.
(** [float32(n)/float32(m) >= f] *)
Definition lf_ge (n m : nat) (f : lf) : bool :=
  N.leb (N.of_nat (lf_num f) * N.of_nat m) (N.of_nat n * N.of_nat (lf_den f)).
(** [float32(n)/float32(m) <= f] *)
Definition lf_le (n m : nat) (f : lf) : bool :=
  N.leb (N.of_nat n * N.of_nat (lf_den f)) (N.of_nat (lf_num f) * N.of_nat m).

Fixpoint upd {A : Type} (l : list A) (i : nat) (x : A) : list A :=
  match l, i with
  | [], _ => []
  | _ :: t, O => x :: t
  | a :: t, S j => a :: upd t j x
  end.

(** * hash_table.go *)

(** [h ^= (h >> 20) ^ (h >> 12) ^ (h >> 7) ^ (h >> 4)] *)
Definition mix (h : N) : N :=
  N.lxor h (N.lxor (N.lxor (N.lxor (N.shiftr h 20) (N.shiftr h 12)) (N.shiftr h 7)) (N.shiftr h 4)).

(** [n&(n-1) == 0] *)
Definition is_pow2 (n : nat) : bool := N.eqb (N.land (N.of_nat n) (N.of_nat n - 1)) 0.

Definition small_primes : list nat :=
  [2; 3; 5; 7; 11; 13; 17; 19; 23; 29; 31; 37; 41; 43; 47; 53; 59; 61; 67; 71; 73; 79; 83; 89; 97].

(** [for i := 2; i*i <= n; i++ { if n%i == 0 { return false } }; return true] *)
Fixpoint trial (fuel i n : nat) : bool :=
  match fuel with
  | O => true
  | S f => if n <? i * i then true else if n mod i =? 0 then false else trial f (S i) n
  end.

Definition is_prime (n : nat) : bool :=
  if n <=? 1 then false
  else if existsb (Nat.eqb n) small_primes then true
  else if n <=? 100 then false
  else trial n 2 n.

(** [for p := n; p >= 2; p-- { if isPrime(p) { return p } }; return -1] ([None] is -1) *)
Fixpoint largest_prime_le (n : nat) : option nat :=
  match n with
  | O => None
  | S n' => if n <? 2 then None else if is_prime n then Some n else largest_prime_le n'
  end.

(** [for p := n; ; p++ { if isPrime(p) { return p } }] — on fuel; by Bertrand's postulate
    [n+2] candidates always suffice, fuel exhaustion is [Hang]. *)
Fixpoint next_prime (fuel p : nat) : res nat :=
  match fuel with
  | O => Hang
  | S f => if is_prime p then Ok p else next_prime f (S p)
  end.
Definition smallest_prime_ge (n : nat) : res nat := next_prime (n + 2) n.

(** the probe loop shared by the three open-addressing tables:
    [for i = next(); entries[i] != nil && !stop(entries[i]); i = next() {}] on fuel.
    Result: the number of calls of [next()] made so far minus one, the slot reached, and its
    content ([None] for a nil slot). *)
Fixpoint probe_loop {E : Type} (idx : nat -> nat) (stop : E -> bool) (es : list (option E))
         (fuel i : nat) : res (nat * nat * option E) :=
  match fuel with
  | O => Hang
  | S f =>
      let j := idx i in
      match nth_error es j with
      | None => Panic
      | Some None => Ok (i, j, None)
      | Some (Some e) => if stop e then Ok (i, j, Some e) else probe_loop idx stop es f (S i)
      end
  end.

Section Tables.
  Variables K V : Type.
  Variable eqb : K -> K -> bool.      (* eqKey *)
  Variable eqv : V -> V -> bool.      (* eqVal *)
  Variable hash : K -> N.             (* hashKey *)
  Variables minlf maxlf : lf.         (* MinLoadFactor, MaxLoadFactor after defaulting *)

  (** [h & (M-1)] and [h % M] of the mixed hash *)
  Definition h_pow2 (m : nat) (k : K) : nat := N.to_nat (N.land (mix (hash k)) (N.of_nat m - 1)).
  Definition h_mod (m : nat) (k : K) : nat := N.to_nat (N.modulo (mix (hash k)) (N.of_nat m)).

  (** [AllMatch(func(key, val) { v, ok := other.Get(key); return ok && eqVal(val, v) })] *)
  Fixpoint all_match (get : K -> res (option V)) (l : list (K * V)) : res bool :=
    match l with
    | [] => Ok true
    | (k, v) :: r =>
        bind (get k) (fun o =>
          match o with
          | Some v' => if eqv v v' then all_match get r else Ok false
          | None => Ok false
          end)
    end.

  Definition equal_with (all1 all2 : list (K * V)) (get1 get2 : K -> res (option V)) : res bool :=
    bind (all_match get2 all1) (fun b => if b then all_match get1 all2 else Ok false).

  (** re-insertion loop of every [resize]: [for key, val := range ht.All() { newHT.Put(key, val) }] *)
  Definition reinsert {T : Type} (put : T -> K -> V -> res T) (l : list (K * V)) (nt : T) : res T :=
    fold_left (fun acc kv => bind acc (fun a => put a (fst kv) (snd kv))) l (Ok nt).

  (** ** chain_hash_table.go *)
  Local Notation bucket := (list (K * V)%type).
  Record sc : Type := { sc_b : list bucket; sc_m : nat; sc_n : nat }.
  Definition scMinM : nat := 4.

  Definition sc_new (cap : nat) : res sc :=
    if (cap <? scMinM) || negb (is_pow2 cap) then Panic
    else Ok {| sc_b := repeat [] cap; sc_m := cap; sc_n := 0 |}.

  Fixpoint b_get (b : bucket) (k : K) : option V :=
    match b with
    | [] => None
    | (k', v') :: r => if eqb k' k then Some v' else b_get r k
    end.

  (** the update loop of Put: [Some] chain when the key was found (value replaced in place) *)
  Fixpoint b_upd (b : bucket) (k : K) (v : V) : option bucket :=
    match b with
    | [] => None
    | (k', v') :: r =>
        if eqb k' k then Some ((k', v) :: r)
        else match b_upd r k v with Some r' => Some ((k', v') :: r') | None => None end
    end.

  (** [_delete] *)
  Fixpoint b_del (b : bucket) (k : K) : bucket * option V :=
    match b with
    | [] => ([], None)
    | (k', v') :: r =>
        if eqb k' k then (r, Some v')
        else let (r', o) := b_del r k in ((k', v') :: r', o)
    end.

  Definition sc_all (shuf : list nat -> list nat) (t : sc) : list (K * V) :=
    flat_map (fun i => nth i (sc_b t) []) (shuf (seq 0 (length (sc_b t)))).

  Definition sc_put_core (t : sc) (k : K) (v : V) : res sc :=
    let i := h_pow2 (sc_m t) k in
    match nth_error (sc_b t) i with
    | None => Panic
    | Some b =>
        match b_upd b k v with
        | Some b' => Ok {| sc_b := upd (sc_b t) i b'; sc_m := sc_m t; sc_n := sc_n t |}
        | None => Ok {| sc_b := upd (sc_b t) i ((k, v) :: b); sc_m := sc_m t; sc_n := S (sc_n t) |}
        end
    end.

  Definition sc_resize_with (put : sc -> K -> V -> res sc) (shuf : list nat -> list nat)
             (t : sc) (m' : nat) : res sc :=
    if m' <? scMinM then Ok t
    else bind (sc_new m') (fun nt =>
         bind (reinsert put (sc_all shuf t) nt) (fun nt' =>
         Ok {| sc_b := sc_b nt'; sc_m := sc_m nt'; sc_n := sc_n nt' |})).

  Fixpoint sc_put (d : nat) (shuf : list nat -> list nat) (t : sc) (k : K) (v : V) : res sc :=
    bind (if lf_ge (sc_n t) (sc_m t) maxlf
          then match d with
               | O => Panic
               | S d' => sc_resize_with (sc_put d' shuf) shuf t (2 * sc_m t)
               end
          else Ok t)
         (fun t1 => sc_put_core t1 k v).

  Definition sc_resize (d : nat) (shuf : list nat -> list nat) (t : sc) (m' : nat) : res sc :=
    sc_resize_with (sc_put d shuf) shuf t m'.

  Definition sc_get (t : sc) (k : K) : res (option V) :=
    match nth_error (sc_b t) (h_pow2 (sc_m t) k) with
    | None => Panic
    | Some b => Ok (b_get b k)
    end.

  Definition sc_delete (d : nat) (shuf : list nat -> list nat) (t : sc) (k : K) : res (sc * option V) :=
    let i := h_pow2 (sc_m t) k in
    match nth_error (sc_b t) i with
    | None => Panic
    | Some b =>
        let (b', o) := b_del b k in
        let n' := match o with Some _ => pred (sc_n t) | None => sc_n t end in
        let t1 := {| sc_b := upd (sc_b t) i b'; sc_m := sc_m t; sc_n := n' |} in
        bind (if lf_le n' (sc_m t) minlf then sc_resize d shuf t1 (sc_m t / 2) else Ok t1)
             (fun t2 => Ok (t2, o))
    end.

  Definition sc_delete_all (t : sc) : sc :=
    {| sc_b := repeat [] (sc_m t); sc_m := sc_m t; sc_n := 0 |}.

  Definition sc_equal (shuf1 shuf2 : list nat -> list nat) (t1 t2 : sc) : res bool :=
    equal_with (sc_all shuf1 t1) (sc_all shuf2 t2) (sc_get t1) (sc_get t2).

  (** ** linear_hash_table.go *)
  Record lp : Type := { lp_e : list (option (K * V)); lp_m : nat; lp_n : nat }.
  Definition lpMinM : nat := 32.

  Definition lp_new (cap : nat) : res lp :=
    if (cap <? lpMinM) || negb (is_pow2 cap) then Panic
    else Ok {| lp_e := repeat None cap; lp_m := cap; lp_n := 0 |}.

  (** the closure returned by [probe]: i-th call of [next()] *)
  Definition lin_idx (h1 M i : nat) : nat :=
    if i =? 0 then h1 else N.to_nat ((N.of_nat h1 + N.of_nat i) mod N.of_nat M).

  Definition key_is (k : K) (e : K * V) : bool := eqb (fst e) k.

  Definition lp_all (shuf : list nat -> list nat) (t : lp) : list (K * V) :=
    flat_map (fun i => match nth i (lp_e t) None with Some kv => [kv] | None => [] end)
             (shuf (seq 0 (length (lp_e t)))).

  Definition lp_put_core (t : lp) (k : K) (v : V) : res lp :=
    bind (probe_loop (lin_idx (h_pow2 (lp_m t) k) (lp_m t)) (key_is k) (lp_e t) (lp_m t) 0)
         (fun r =>
            match r with
            | (_, j, None) =>
                Ok {| lp_e := upd (lp_e t) j (Some (k, v)); lp_m := lp_m t; lp_n := S (lp_n t) |}
            | (_, j, Some (k', _)) =>
                Ok {| lp_e := upd (lp_e t) j (Some (k', v)); lp_m := lp_m t; lp_n := lp_n t |}
            end).

  Definition lp_resize_with (put : lp -> K -> V -> res lp) (shuf : list nat -> list nat)
             (t : lp) (m' : nat) : res lp :=
    if m' <? lpMinM then Ok t
    else bind (lp_new m') (fun nt =>
         bind (reinsert put (lp_all shuf t) nt) (fun nt' =>
         Ok {| lp_e := lp_e nt'; lp_m := lp_m nt'; lp_n := lp_n nt' |})).

  Fixpoint lp_put (d : nat) (shuf : list nat -> list nat) (t : lp) (k : K) (v : V) : res lp :=
    bind (if lf_ge (lp_n t) (lp_m t) maxlf
          then match d with
               | O => Panic
               | S d' => lp_resize_with (lp_put d' shuf) shuf t (2 * lp_m t)
               end
          else Ok t)
         (fun t1 => lp_put_core t1 k v).

  Definition lp_resize (d : nat) (shuf : list nat -> list nat) (t : lp) (m' : nat) : res lp :=
    lp_resize_with (lp_put d shuf) shuf t m'.

  Definition lp_get (t : lp) (k : K) : res (option V) :=
    bind (probe_loop (lin_idx (h_pow2 (lp_m t) k) (lp_m t)) (key_is k) (lp_e t) (lp_m t) 0)
         (fun r => Ok (option_map snd (snd r))).

  (** second loop of Delete: re-hash all subsequent entries of the cluster.  [h1], [M] are the
      values captured by the closure [next] when Delete started; [i] counts its calls. *)
  Fixpoint lp_rehash (d : nat) (shuf : list nat -> list nat) (h1 M : nat) (fuel i : nat) (t : lp) : res lp :=
    match fuel with
    | O => Hang
    | S f =>
        let j := lin_idx h1 M i in
        match nth_error (lp_e t) j with
        | None => Panic
        | Some None => Ok t
        | Some (Some (k', v')) =>
            bind (lp_put d shuf {| lp_e := upd (lp_e t) j None; lp_m := lp_m t; lp_n := pred (lp_n t) |} k' v')
                 (fun t' => lp_rehash d shuf h1 M f (S i) t')
        end
    end.

  Definition lp_delete (d : nat) (shuf : list nat -> list nat) (t : lp) (k : K) : res (lp * option V) :=
    let h1 := h_pow2 (lp_m t) k in
    let M := lp_m t in
    bind (probe_loop (lin_idx h1 M) (key_is k) (lp_e t) M 0)
         (fun r =>
            match r with
            | (_, _, None) => Ok (t, None)
            | (i, j, Some (_, v)) =>
                let t1 := {| lp_e := upd (lp_e t) j None; lp_m := lp_m t; lp_n := pred (lp_n t) |} in
                bind (lp_rehash d shuf h1 M M (S i) t1) (fun t2 =>
                bind (if lf_le (lp_n t2) (lp_m t2) minlf then lp_resize d shuf t2 (lp_m t2 / 2) else Ok t2)
                     (fun t3 => Ok (t3, Some v)))
            end).

  Definition lp_delete_all (t : lp) : lp :=
    {| lp_e := repeat None (lp_m t); lp_m := lp_m t; lp_n := 0 |}.

  Definition lp_equal (shuf1 shuf2 : list nat -> list nat) (t1 t2 : lp) : res bool :=
    equal_with (lp_all shuf1 t1) (lp_all shuf2 t2) (lp_get t1) (lp_get t2).

  (** ** quadratic_hash_table.go and double_hash_table.go (soft deletion) *)
  Record ent : Type := { e_k : K; e_v : V; e_d : bool }.

  Definition ent_is (k : K) (e : ent) : bool := eqb (e_k e) k.
  Definition ent_live_is (k : K) (e : ent) : bool := negb (e_d e) && eqb (e_k e) k.

  Definition ents_all (shuf : list nat -> list nat) (es : list (option ent)) : list (K * V) :=
    flat_map (fun i => match nth i es None with
                       | Some e => if e_d e then [] else [(e_k e, e_v e)]
                       | None => []
                       end)
             (shuf (seq 0 (length es))).

  (** what Put does with the slot found by its probe loop: new entry in a nil slot, or
      overwrite/revive the entry with an equal key.  Returns entries, n, t. *)
  Definition ents_put_at (es : list (option ent)) (n t : nat) (j : nat) (o : option ent) (k : K) (v : V)
    : list (option ent) * nat * nat :=
    match o with
    | None => (upd es j (Some {| e_k := k; e_v := v; e_d := false |}), S n, t)
    | Some e =>
        (upd es j (Some {| e_k := e_k e; e_v := v; e_d := false |}),
         (if e_d e then S n else n), (if e_d e then pred t else t))
    end.

  (** *** quadratic *)
  Record qp : Type := { qp_e : list (option ent); qp_m : nat; qp_n : nat; qp_t : nat }.
  Definition qpMinM : nat := 31.

  Definition qp_new (cap : nat) : res qp :=
    if (cap <? qpMinM) || negb (is_prime cap) then Panic
    else Ok {| qp_e := repeat None cap; qp_m := cap; qp_n := 0; qp_t := 0 |}.

  Definition quad_idx (h1 M i : nat) : nat :=
    if i =? 0 then h1 else N.to_nat ((N.of_nat h1 + N.of_nat i * N.of_nat i) mod N.of_nat M).

  Definition qp_all (shuf : list nat -> list nat) (t : qp) : list (K * V) := ents_all shuf (qp_e t).

  Definition qp_put_core (t : qp) (k : K) (v : V) : res qp :=
    bind (probe_loop (quad_idx (h_mod (qp_m t) k) (qp_m t)) (ent_is k) (qp_e t) (qp_m t) 0)
         (fun r =>
            match r with
            | (_, j, o) =>
                match ents_put_at (qp_e t) (qp_n t) (qp_t t) j o k v with
                | (es, n, tb) => Ok {| qp_e := es; qp_m := qp_m t; qp_n := n; qp_t := tb |}
                end
            end).

  Definition qp_resize_with (put : qp -> K -> V -> res qp) (shuf : list nat -> list nat)
             (t : qp) (m' : nat) : res qp :=
    if m' <? qpMinM then Ok t
    else bind (smallest_prime_ge m') (fun p =>
         bind (qp_new p) (fun nt =>
         bind (reinsert put (qp_all shuf t) nt) (fun nt' =>
         Ok {| qp_e := qp_e nt'; qp_m := qp_m nt'; qp_n := qp_n nt'; qp_t := qp_t nt' |}))).

  Fixpoint qp_put (d : nat) (shuf : list nat -> list nat) (t : qp) (k : K) (v : V) : res qp :=
    bind (if lf_ge (qp_n t + qp_t t + 1) (qp_m t) maxlf
          then match d with
               | O => Panic
               | S d' =>
                   if lf_ge (qp_n t + 1) (qp_m t) maxlf
                   then qp_resize_with (qp_put d' shuf) shuf t (2 * qp_m t)
                   else qp_resize_with (qp_put d' shuf) shuf t (qp_m t)
               end
          else Ok t)
         (fun t1 => qp_put_core t1 k v).

  Definition qp_resize (d : nat) (shuf : list nat -> list nat) (t : qp) (m' : nat) : res qp :=
    qp_resize_with (qp_put d shuf) shuf t m'.

  Definition qp_get (t : qp) (k : K) : res (option V) :=
    bind (probe_loop (quad_idx (h_mod (qp_m t) k) (qp_m t)) (ent_live_is k) (qp_e t) (qp_m t) 0)
         (fun r => Ok (option_map e_v (snd r))).

  Definition qp_delete (d : nat) (shuf : list nat -> list nat) (t : qp) (k : K) : res (qp * option V) :=
    bind (probe_loop (quad_idx (h_mod (qp_m t) k) (qp_m t)) (ent_is k) (qp_e t) (qp_m t) 0)
         (fun r =>
            match r with
            | (_, _, None) => Ok (t, None)
            | (_, j, Some e) =>
                if e_d e then Ok (t, None)
                else
                  let t1 := {| qp_e := upd (qp_e t) j (Some {| e_k := e_k e; e_v := e_v e; e_d := true |});
                               qp_m := qp_m t; qp_n := pred (qp_n t); qp_t := S (qp_t t) |} in
                  bind (if lf_le (qp_n t1) (qp_m t1) minlf then qp_resize d shuf t1 (qp_m t1 / 2) else Ok t1)
                       (fun t2 => Ok (t2, Some (e_v e)))
            end).

  Definition qp_delete_all (t : qp) : qp :=
    {| qp_e := repeat None (qp_m t); qp_m := qp_m t; qp_n := 0; qp_t := 0 |}.

  Definition qp_equal (shuf1 shuf2 : list nat -> list nat) (t1 t2 : qp) : res bool :=
    equal_with (qp_all shuf1 t1) (qp_all shuf2 t2) (qp_get t1) (qp_get t2).

  (** *** double hashing *)
  Record dh : Type := { dh_e : list (option ent); dh_m : nat; dh_p : nat; dh_n : nat; dh_t : nat }.
  Definition dhMinM : nat := 31.

  Definition dh_new (cap : nat) : res dh :=
    if (cap <? dhMinM) || negb (is_prime cap) then Panic
    else match largest_prime_le cap with
         | None => Panic
         | Some p => Ok {| dh_e := repeat None cap; dh_m := cap; dh_p := p; dh_n := 0; dh_t := 0 |}
         end.

  (** [h2 = P - (h % P); if gcd(M, h2) != 1 { h2++ }] *)
  Definition dh_h2 (M P : nat) (k : K) : nat :=
    let h2 := P - N.to_nat (N.modulo (mix (hash k)) (N.of_nat P)) in
    if Nat.gcd M h2 =? 1 then h2 else S h2.

  Definition dbl_idx (h1 h2 M i : nat) : nat :=
    if i =? 0 then h1 else N.to_nat ((N.of_nat h1 + N.of_nat i * N.of_nat h2) mod N.of_nat M).

  Definition dh_idx (t : dh) (k : K) : nat -> nat :=
    dbl_idx (h_mod (dh_m t) k) (dh_h2 (dh_m t) (dh_p t) k) (dh_m t).

  Definition dh_all (shuf : list nat -> list nat) (t : dh) : list (K * V) := ents_all shuf (dh_e t).

  Definition dh_put_core (t : dh) (k : K) (v : V) : res dh :=
    bind (probe_loop (dh_idx t k) (ent_is k) (dh_e t) (dh_m t) 0)
         (fun r =>
            match r with
            | (_, j, o) =>
                match ents_put_at (dh_e t) (dh_n t) (dh_t t) j o k v with
                | (es, n, tb) => Ok {| dh_e := es; dh_m := dh_m t; dh_p := dh_p t; dh_n := n; dh_t := tb |}
                end
            end).

  Definition dh_resize_with (put : dh -> K -> V -> res dh) (shuf : list nat -> list nat)
             (t : dh) (m' : nat) : res dh :=
    if m' <? dhMinM then Ok t
    else bind (smallest_prime_ge m') (fun p =>
         bind (dh_new p) (fun nt =>
         bind (reinsert put (dh_all shuf t) nt) (fun nt' =>
         Ok {| dh_e := dh_e nt'; dh_m := dh_m nt'; dh_p := dh_p nt'; dh_n := dh_n nt'; dh_t := dh_t nt' |}))).

  Fixpoint dh_put (d : nat) (shuf : list nat -> list nat) (t : dh) (k : K) (v : V) : res dh :=
    bind (if lf_ge (dh_n t + dh_t t) (dh_m t) maxlf
          then match d with
               | O => Panic
               | S d' =>
                   if lf_ge (dh_n t) (dh_m t) maxlf
                   then dh_resize_with (dh_put d' shuf) shuf t (2 * dh_m t)
                   else dh_resize_with (dh_put d' shuf) shuf t (dh_m t)
               end
          else Ok t)
         (fun t1 => dh_put_core t1 k v).

  Definition dh_resize (d : nat) (shuf : list nat -> list nat) (t : dh) (m' : nat) : res dh :=
    dh_resize_with (dh_put d shuf) shuf t m'.

  Definition dh_get (t : dh) (k : K) : res (option V) :=
    bind (probe_loop (dh_idx t k) (ent_live_is k) (dh_e t) (dh_m t) 0)
         (fun r => Ok (option_map e_v (snd r))).

  Definition dh_delete (d : nat) (shuf : list nat -> list nat) (t : dh) (k : K) : res (dh * option V) :=
    bind (probe_loop (dh_idx t k) (ent_is k) (dh_e t) (dh_m t) 0)
         (fun r =>
            match r with
            | (_, _, None) => Ok (t, None)
            | (_, j, Some e) =>
                if e_d e then Ok (t, None)
                else
                  let t1 := {| dh_e := upd (dh_e t) j (Some {| e_k := e_k e; e_v := e_v e; e_d := true |});
                               dh_m := dh_m t; dh_p := dh_p t; dh_n := pred (dh_n t); dh_t := S (dh_t t) |} in
                  bind (if lf_le (dh_n t1) (dh_m t1) minlf then dh_resize d shuf t1 (dh_m t1 / 2) else Ok t1)
                       (fun t2 => Ok (t2, Some (e_v e)))
            end).

  Definition dh_delete_all (t : dh) : dh :=
    {| dh_e := repeat None (dh_m t); dh_m := dh_m t; dh_p := dh_p t; dh_n := 0; dh_t := 0 |}.

  Definition dh_equal (shuf1 shuf2 : list nat -> list nat) (t1 t2 : dh) : res bool :=
    equal_with (dh_all shuf1 t1) (dh_all shuf2 t2) (dh_get t1) (dh_get t2).

  (** ** uniform interface (theorems and extracted driver) *)
  Inductive kind : Type := Chain | Linear | Quadratic | Double.
  Inductive table : Type := TSC (t : sc) | TLP (t : lp) | TQP (t : qp) | TDH (t : dh).

  (** depth allowed for nested resizes (one resize inside a resize; never needed, see proofs) *)
  Definition depth : nat := 2.

  Definition rmap {A B : Type} (f : A -> B) (r : res A) : res B := bind r (fun a => Ok (f a)).

  (** [New…HashTable(hashKey, eqKey, eqVal, HashOpts{InitialCap: cap})]; [cap = 0] selects the default *)
  Definition create (kd : kind) (cap : nat) : res table :=
    match kd with
    | Chain => rmap TSC (sc_new (if cap =? 0 then scMinM else cap))
    | Linear => rmap TLP (lp_new (if cap =? 0 then lpMinM else cap))
    | Quadratic => rmap TQP (qp_new (if cap =? 0 then qpMinM else cap))
    | Double => rmap TDH (dh_new (if cap =? 0 then dhMinM else cap))
    end.

  Definition put (shuf : list nat -> list nat) (t : table) (k : K) (v : V) : res table :=
    match t with
    | TSC t => rmap TSC (sc_put depth shuf t k v)
    | TLP t => rmap TLP (lp_put depth shuf t k v)
    | TQP t => rmap TQP (qp_put depth shuf t k v)
    | TDH t => rmap TDH (dh_put depth shuf t k v)
    end.

  Definition get (t : table) (k : K) : res (option V) :=
    match t with
    | TSC t => sc_get t k | TLP t => lp_get t k | TQP t => qp_get t k | TDH t => dh_get t k
    end.

  Definition delete (shuf : list nat -> list nat) (t : table) (k : K) : res (table * option V) :=
    match t with
    | TSC t => rmap (fun r => (TSC (fst r), snd r)) (sc_delete depth shuf t k)
    | TLP t => rmap (fun r => (TLP (fst r), snd r)) (lp_delete depth shuf t k)
    | TQP t => rmap (fun r => (TQP (fst r), snd r)) (qp_delete depth shuf t k)
    | TDH t => rmap (fun r => (TDH (fst r), snd r)) (dh_delete depth shuf t k)
    end.

  Definition delete_all (t : table) : table :=
    match t with
    | TSC t => TSC (sc_delete_all t) | TLP t => TLP (lp_delete_all t)
    | TQP t => TQP (qp_delete_all t) | TDH t => TDH (dh_delete_all t)
    end.

  Definition size (t : table) : nat :=
    match t with TSC t => sc_n t | TLP t => lp_n t | TQP t => qp_n t | TDH t => dh_n t end.

  Definition is_empty (t : table) : bool := size t =? 0.

  Definition all (shuf : list nat -> list nat) (t : table) : list (K * V) :=
    match t with
    | TSC t => sc_all shuf t | TLP t => lp_all shuf t | TQP t => qp_all shuf t | TDH t => dh_all shuf t
    end.

  (** [t1.Equal(t2)]: a table of another implementation is never equal (type assertion fails) *)
  Definition equal (shuf1 shuf2 : list nat -> list nat) (t1 t2 : table) : res bool :=
    match t1, t2 with
    | TSC a, TSC b => sc_equal shuf1 shuf2 a b
    | TLP a, TLP b => lp_equal shuf1 shuf2 a b
    | TQP a, TQP b => qp_equal shuf1 shuf2 a b
    | TDH a, TDH b => dh_equal shuf1 shuf2 a b
    | _, _ => Ok false
    end.
End Tables.
