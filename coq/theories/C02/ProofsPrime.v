(** C02/C03 — number theory of the prime-sized tables: [isPrime] (trial division) is sound, the first
    (m+1)/2 quadratic probes of a prime-sized table hit distinct slots, and a double-hashing probe
    sequence with a step that is not a multiple of the prime size visits all m slots. *)
From Coq Require Import List ZArith Znumtheory Arith Bool Lia.
From Algo.C02 Require Import Model Arith.
Import ListNotations.
Local Open Scope nat_scope.

(** * trial division *)
Lemma trial_sound : forall fuel i n,
    2 <= i -> trial fuel i n = true -> n < (i + fuel) * (i + fuel) ->
    (forall d, 2 <= d < i -> n mod d <> 0) ->
    forall d, 2 <= d -> d * d <= n -> n mod d <> 0.
Proof.
  induction fuel as [|f IH]; intros i n Hi Ht Hb Hsmall d Hd Hdd.
  - apply Hsmall. split; auto. rewrite Nat.add_0_r in Hb. nia.
  - simpl in Ht. destruct (Nat.ltb_spec n (i * i)) as [Hlt|Hge].
    + apply Hsmall. split; auto. nia.
    + destruct (Nat.eqb_spec (n mod i) 0) as [E|E]; [discriminate|].
      apply (IH (S i) n ltac:(lia) Ht); auto.
      * replace (S i + f) with (i + S f) by lia. exact Hb.
      * intros d' Hd'. destruct (Nat.eq_dec d' i); [subst; auto|apply Hsmall; lia].
Qed.

Lemma small_primes_trial : forallb (fun p => trial p 2 p) small_primes = true.
Proof. vm_compute. reflexivity. Qed.

Lemma is_prime_no_divisor : forall n, is_prime n = true ->
    1 < n /\ forall d, 2 <= d -> d * d <= n -> n mod d <> 0.
Proof.
  intros n H. unfold is_prime in H.
  destruct (Nat.leb_spec n 1) as [|Hn]; [discriminate|]. split; auto.
  assert (Ht : trial n 2 n = true).
  { destruct (existsb (Nat.eqb n) small_primes) eqn:Ex.
    - apply existsb_exists in Ex. destruct Ex as (p & Hp & E). apply Nat.eqb_eq in E. subst p.
      pose proof small_primes_trial as F. rewrite forallb_forall in F. apply (F n Hp).
    - destruct (Nat.leb_spec n 100); [discriminate|auto]. }
  apply (trial_sound n 2 n); auto; try lia; try nia.
Qed.

Lemma no_divisor_prime : forall n,
    1 < n -> (forall d, 2 <= d -> d * d <= n -> n mod d <> 0) -> prime (Z.of_nat n).
Proof.
  intros n Hn Hnd. apply prime_alt. split; [lia|].
  intros z Hz Hdiv.
  set (d := Z.to_nat z). assert (Ed : z = Z.of_nat d) by (unfold d; lia).
  assert (Hd : 2 <= d < n) by lia.
  assert (Hmod : n mod d = 0).
  { apply Z.mod_divide in Hdiv; [|lia]. rewrite Ed, <- Nat2Z.inj_mod in Hdiv. lia. }
  assert (Hq : n = d * (n / d)) by (apply Nat.div_exact; lia).
  set (q := n / d) in *.
  destruct (le_lt_dec (d * d) n) as [Hle|Hgt].
  - apply (Hnd d); auto; lia.
  - assert (Hq2 : 2 <= q) by nia.
    apply (Hnd q); auto; [nia|].
    rewrite Hq at 1. apply Nat.mod_mul. lia.
Qed.

Lemma is_prime_sound : forall n, is_prime n = true -> prime (Z.of_nat n).
Proof. intros n H. destruct (is_prime_no_divisor n H). now apply no_divisor_prime. Qed.

(** * windows of pairwise distinct probe slots *)
Lemma NoDup_map_seq : forall (f : nat -> nat) len s,
    (forall i j, s <= i -> i < j -> j < s + len -> f i <> f j) -> NoDup (map f (seq s len)).
Proof.
  induction len as [|len IH]; intros s H; simpl; [constructor|].
  constructor.
  - intros Hin. apply in_map_iff in Hin. destruct Hin as (j & E & Hj). apply in_seq in Hj.
    apply (H s j); auto; lia.
  - apply IH. intros i j A B C. apply H; lia.
Qed.

Lemma mod_eq_divide : forall a b m : nat, m <> 0 -> a <= b -> a mod m = b mod m ->
    (Z.of_nat m | Z.of_nat b - Z.of_nat a)%Z.
Proof.
  intros a b m Hm Hab E. apply Z.mod_divide; [lia|].
  rewrite Zminus_mod, <- !Nat2Z.inj_mod, E, Z.sub_diag. apply Z.mod_0_l. lia.
Qed.

Lemma quad_window : forall m h1, prime (Z.of_nat m) -> h1 < m ->
    NoDup (map (quad_idx h1 m) (seq 0 ((m + 1) / 2))).
Proof.
  intros m h1 Hp Hh. assert (Hm : 1 < m) by (destruct Hp; lia).
  apply NoDup_map_seq. intros i j _ Hij Hj.
  assert (Hj2 : 2 * j < m + 1).
  { pose proof (Nat.div_mod (m + 1) 2 ltac:(lia)). pose proof (Nat.mod_upper_bound (m + 1) 2 ltac:(lia)). lia. }
  rewrite !quad_idx_nat.
  assert (Q : forall x, (if x =? 0 then h1 else (h1 + x * x) mod m) = (h1 + x * x) mod m).
  { intros x. destruct (Nat.eqb_spec x 0); auto. subst. rewrite Nat.add_0_r. symmetry. now apply Nat.mod_small. }
  rewrite !Q. intros E.
  apply mod_eq_divide in E; try lia; [|nia].
  replace (Z.of_nat (h1 + j * j) - Z.of_nat (h1 + i * i))%Z
    with ((Z.of_nat j - Z.of_nat i) * (Z.of_nat j + Z.of_nat i))%Z in E by nia.
  apply prime_mult in E; auto. destruct E as [E|E]; apply Z.divide_pos_le in E; lia.
Qed.

Lemma dbl_window : forall m h1 h2, prime (Z.of_nat m) -> h1 < m -> ~ (Z.of_nat m | Z.of_nat h2)%Z ->
    NoDup (map (dbl_idx h1 h2 m) (seq 0 m)).
Proof.
  intros m h1 h2 Hp Hh Hnd. assert (Hm : 1 < m) by (destruct Hp; lia).
  apply NoDup_map_seq. intros i j _ Hij Hj. simpl in Hj.
  rewrite !dbl_idx_nat.
  assert (Q : forall x, (if x =? 0 then h1 else (h1 + x * h2) mod m) = (h1 + x * h2) mod m).
  { intros x. destruct (Nat.eqb_spec x 0); auto. subst. simpl. rewrite Nat.add_0_r. symmetry. now apply Nat.mod_small. }
  rewrite !Q. intros E.
  apply mod_eq_divide in E; try lia; [|nia].
  replace (Z.of_nat (h1 + j * h2) - Z.of_nat (h1 + i * h2))%Z
    with ((Z.of_nat j - Z.of_nat i) * Z.of_nat h2)%Z in E by nia.
  apply prime_mult in E; auto. destruct E as [E|E]; [|contradiction].
  apply Z.divide_pos_le in E; lia.
Qed.

(** the step of double hashing is never a multiple of the prime size *)
Lemma dh_h2_ok : forall (K : Type) (hash : K -> N) m k, prime (Z.of_nat m) ->
    ~ (Z.of_nat m | Z.of_nat (dh_h2 K hash m m k))%Z.
Proof.
  intros K hash m k Hp. assert (Hm : 1 < m) by (destruct Hp; lia).
  unfold dh_h2. set (r := N.to_nat (mix (hash k) mod N.of_nat m)).
  assert (Hr : r < m).
  { unfold r. assert ((mix (hash k) mod N.of_nat m < N.of_nat m)%N) by (apply N.mod_lt; lia). lia. }
  set (h2 := m - r). assert (Hh2 : 1 <= h2 <= m) by (unfold h2; lia).
  destruct (Nat.eqb_spec (Nat.gcd m h2) 1) as [G|G].
  - intros D. assert (Hdn : Nat.divide m h2).
    { apply Z.mod_divide in D; [|lia]. rewrite <- Nat2Z.inj_mod in D. apply Nat.mod_divide; lia. }
    assert (Nat.divide m (Nat.gcd m h2)) by (apply Nat.gcd_greatest; auto; apply Nat.divide_refl).
    rewrite G in H. apply Nat.divide_1_r in H. lia.
  - (* gcd <> 1 with m prime: h2 = m, and m+1 is not a multiple of m *)
    assert (E : h2 = m).
    { destruct (Nat.eq_dec h2 m); auto. exfalso. apply G.
      set (g := Nat.gcd m h2).
      destruct (Nat.gcd_divide_l m h2) as [q1 Hq1]. destruct (Nat.gcd_divide_r m h2) as [q2 Hq2]. fold g in Hq1, Hq2.
      assert (Dz : (Z.of_nat g | Z.of_nat m)%Z) by (exists (Z.of_nat q1); lia).
      apply prime_divisors in Dz; auto.
      destruct Dz as [Dz|[Dz|[Dz|Dz]]]; try lia.
      assert (g = m) by lia. assert (m <= h2); [|lia].
      destruct q2; [lia|]. nia. }
    rewrite E. intros D. apply Z.mod_divide in D; [|lia]. rewrite <- Nat2Z.inj_mod in D.
    replace (S m) with (1 + 1 * m) in D by lia. rewrite Nat.mod_add in D by lia.
    rewrite Nat.mod_small in D; lia.
Qed.

(** * the prime search of resize *)
Lemma next_prime_spec : forall fuel p q, next_prime fuel p = Ok q -> is_prime q = true /\ p <= q < p + fuel.
Proof.
  induction fuel as [|f IH]; simpl; intros p q H; [discriminate|].
  destruct (is_prime p) eqn:E.
  - inversion H; subst. split; auto. lia.
  - apply IH in H. destruct H. split; auto. lia.
Qed.

Lemma next_prime_total : forall fuel p q, p <= q < p + fuel -> is_prime q = true ->
    exists q', next_prime fuel p = Ok q'.
Proof.
  induction fuel as [|f IH]; simpl; intros p q R Hq; [lia|].
  destruct (is_prime p) eqn:E; [eexists; reflexivity|].
  apply (IH (S p) q); auto. destruct (Nat.eq_dec p q); [subst; congruence|lia].
Qed.

Lemma largest_prime_le_prime : forall n, is_prime n = true -> largest_prime_le n = Some n.
Proof.
  intros n H. destruct n as [|n]; [discriminate|]. simpl largest_prime_le.
  destruct (Nat.ltb_spec (S n) 2) as [L|L].
  - destruct n; [discriminate|lia].
  - now rewrite H.
Qed.

(** the prime gap needed by [smallestPrimeLargerThan] for the small sizes 31..128, by direct computation
    with the model's own functions (C02/ProofsGap.v covers everything above 100 up to 2^31) *)
Definition gap_ok (n : nat) : bool := match next_prime (n + 2) n with Ok _ => true | _ => false end.

Lemma gap_ok_sound : forall n, gap_ok n = true -> exists p, n <= p < n + (n + 2) /\ is_prime p = true.
Proof.
  intros n H. unfold gap_ok in H. destruct (next_prime (n + 2) n) as [p| |] eqn:E; try discriminate.
  apply next_prime_spec in E. exists p. tauto.
Qed.

Lemma gap_upto_128 : forallb gap_ok (seq 31 98) = true.
Proof. vm_compute. reflexivity. Qed.

Lemma prime_gap_upto_128 : forall n, 31 <= n <= 128 -> exists p, n <= p < n + (n + 2) /\ is_prime p = true.
Proof.
  intros n Hn. apply gap_ok_sound. pose proof gap_upto_128 as F. rewrite forallb_forall in F.
  apply F. apply in_seq. lia.
Qed.

Lemma is_prime_odd : forall p, is_prime p = true -> 3 <= p -> p = 2 * (p / 2) + 1.
Proof.
  intros p Hp H3. destruct (is_prime_no_divisor p Hp) as [_ Hd].
  pose proof (Nat.div_mod p 2 ltac:(lia)) as E. pose proof (Nat.mod_upper_bound p 2 ltac:(lia)) as U.
  destruct (Nat.eq_dec (p mod 2) 0) as [Z|Z]; [|lia].
  destruct (le_lt_dec 4 p) as [L|L].
  - exfalso. apply (Hd 2); auto; lia.
  - assert (p = 3) by lia. subst. discriminate.
Qed.
