(** C02/C03 — the prime gap needed by [smallestPrimeLargerThan], checked by computation up to a bound:
    trial division over binary numbers ([N]), proved to agree with the model's [is_prime] (which
    computes over unary [nat]), applied to a chain of about 30 primes by [vm_compute]. *)
From Coq Require Import List NArith Arith Bool Lia.
From Algo.C02 Require Import Model Arith ProofsPrime ProofsQuad.
Import ListNotations.
Local Open Scope nat_scope.

(** * trial division over N *)
Fixpoint trialN (fuel : nat) (i n : N) : bool :=
  match fuel with
  | O => true
  | S f => if (n <? i * i)%N then true else if (n mod i =? 0)%N then false else trialN f (N.succ i) n
  end.

Lemma ltb_of_nat : forall a b, (N.of_nat a <? N.of_nat b)%N = (a <? b).
Proof. intros. apply eq_true_iff_eq. rewrite N.ltb_lt, Nat.ltb_lt. lia. Qed.

Lemma eqb0_of_nat : forall a, (N.of_nat a =? 0)%N = (a =? 0).
Proof. intros. apply eq_true_iff_eq. rewrite N.eqb_eq, Nat.eqb_eq. lia. Qed.

Lemma trialN_nat : forall f i n, trialN f (N.of_nat i) (N.of_nat n) = trial f i n.
Proof.
  induction f as [|f IH]; intros i n; simpl; auto.
  rewrite <- Nat2N.inj_mul, ltb_of_nat. destruct (n <? i * i); auto.
  rewrite <- Nat2N.inj_mod, eqb0_of_nat. destruct (n mod i =? 0); auto.
  rewrite <- Nat2N.inj_succ. apply IH.
Qed.

(** the result of trial division does not depend on the fuel once the fuel covers the square root *)
Lemma trial_fuel : forall f f' i n,
    n < (i + f) * (i + f) -> n < (i + f') * (i + f') -> trial f i n = trial f' i n.
Proof.
  induction f as [|f IH]; intros f' i n H1 H2.
  - rewrite Nat.add_0_r in H1. destruct f'; simpl; auto.
    destruct (Nat.ltb_spec n (i * i)); auto; lia.
  - destruct f' as [|f'].
    + rewrite Nat.add_0_r in H2. simpl. destruct (Nat.ltb_spec n (i * i)); auto; lia.
    + simpl. destruct (n <? i * i); auto. destruct (n mod i =? 0); auto.
      apply IH.
      * replace (S i + f) with (i + S f) by lia. exact H1.
      * replace (S i + f') with (i + S f') by lia. exact H2.
Qed.

Definition primeN (p : N) : bool := trialN (S (N.to_nat (N.sqrt p))) 2 p.

Lemma primeN_sound : forall p : nat, 100 < p -> primeN (N.of_nat p) = true -> is_prime p = true.
Proof.
  intros p Hp H. unfold primeN in H. change 2%N with (N.of_nat 2) in H. rewrite trialN_nat in H.
  assert (Ht : trial p 2 p = true).
  { rewrite <- H. apply trial_fuel; [nia|].
    pose proof (N.sqrt_spec (N.of_nat p) ltac:(lia)) as [_ Hs].
    set (r := N.sqrt (N.of_nat p)) in *.
    assert (Hr : p < (S (N.to_nat r)) * (S (N.to_nat r))).
    { assert (E : N.of_nat ((S (N.to_nat r)) * (S (N.to_nat r))) = (N.succ r * N.succ r)%N).
      { rewrite Nat2N.inj_mul. replace (N.of_nat (S (N.to_nat r))) with (N.succ r) by lia. reflexivity. }
      lia. }
    nia. }
  unfold is_prime. destruct (Nat.leb_spec p 1); [lia|].
  destruct (existsb (Nat.eqb p) small_primes); auto.
  destruct (Nat.leb_spec p 100); [lia|auto].
Qed.

(** * a chain of primes p_1 < p_2 < ... with p_(j+1) <= 2*p_j + 3: [down] finds the largest prime in
    [lo, 2*lo+1]; it covers every n in [lo, p] (n <= p < 2n+2), and the chain restarts at p+1.  About
    log2 B primality tests in all. *)
Fixpoint down (fuel : nat) (cur lo : N) : option N :=
  match fuel with
  | O => None
  | S f => if primeN cur then Some cur else if (cur <=? lo)%N then None else down f (N.pred cur) lo
  end.

Lemma down_spec : forall fuel cur lo p, down fuel cur lo = Some p -> (lo <= cur)%N ->
    (lo <= p <= cur)%N /\ primeN p = true.
Proof.
  induction fuel as [|f IH]; intros cur lo p H Hle; simpl in H; [discriminate|].
  destruct (primeN cur) eqn:Pc.
  - inversion H; subst. split; auto. lia.
  - destruct (N.leb_spec cur lo); [discriminate|].
    apply IH in H; [|lia]. destruct H as [A Bq]. split; auto. lia.
Qed.

Fixpoint chain (fuel : nat) (lo B : N) : bool :=
  match fuel with
  | O => false
  | S f =>
      if (B <? lo)%N then true
      else match down 1000 (lo + lo + 1) lo with
           | Some p => chain f (N.succ p) B
           | None => false
           end
  end.

Lemma chain_sound : forall fuel lo B, chain fuel lo B = true ->
    forall n, (lo <= n <= B)%N -> exists p, (n <= p)%N /\ (p < n + n + 2)%N /\ primeN p = true.
Proof.
  induction fuel as [|f IH]; intros lo B H n Hn; cbn [chain] in H; [discriminate|].
  destruct (N.ltb_spec B lo); [lia|].
  destruct (down 1000 (lo + lo + 1) lo) as [p|] eqn:Ed; [|discriminate].
  apply down_spec in Ed; [|lia]. destruct Ed as [A Pp].
  destruct (N.le_gt_cases n p).
  - exists p. repeat split; auto; lia.
  - apply (IH _ _ H); lia.
Qed.

(** the bound: 2^31 slots *)
Definition gap_boundN : N := 2147483648.
Definition gap_bound : nat := N.to_nat gap_boundN.

Lemma gap_bound_N : N.of_nat gap_bound = gap_boundN.
Proof. apply N2Nat.id. Qed.
Global Opaque gap_bound.

Lemma chain_gap_bound : chain 64 101 gap_boundN = true.
Proof. vm_compute. reflexivity. Qed.

Theorem prime_gap_checked : prime_gap_upto gap_bound.
Proof.
  intros n Hn.
  assert (HN : (N.of_nat n <= gap_boundN)%N) by (rewrite <- gap_bound_N; lia).
  destruct (le_lt_dec n 100) as [Hs|Hb].
  - apply prime_gap_upto_128. lia.
  - destruct (chain_sound _ _ _ chain_gap_bound (N.of_nat n)) as (p & A & Bq & C).
    { split; [lia|exact HN]. }
    exists (N.to_nat p). split; [lia|].
    apply primeN_sound; [lia|]. now rewrite N2Nat.id.
Qed.
