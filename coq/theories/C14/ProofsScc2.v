(** C14 — StronglyConnectedComponents (Kosaraju as coded): ids <-> mutual reachability. *)
From Algo.C14 Require Import Spec ProofsBasic ProofsTrav ProofsKosaraju ProofsKosaraju1.

Section Scc.
  Variable g : graph.
  Hypothesis W : wf g.
  Hypothesis D : g_dir g = true.
  Let n := g_n g.

  Definition rev_edges : list edge :=
    flat_map (fun v => map (fun e => (e_b e, e_a e, e_w e)) (adj_edges g v)) (seq 0 n).

  Lemma reverse_mk : reverse g = mk_graph true n rev_edges.
  Proof. reflexivity. Qed.

  Lemma edge_rel_dir u v : edge_rel g u v <-> exists e, In e (adj_edges g u) /\ e_b e = v.
  Proof.
    unfold edge_rel, adjv. rewrite D, in_map_iff. simpl. split; intros [e [A B]]; exists e; auto.
  Qed.

  Lemma reverse_edge u v : edge_rel (reverse g) u v <-> edge_rel g v u.
  Proof.
    rewrite reverse_mk, mk_graph_edge_rel, edge_rel_dir. split.
    - intros [e' [Hin [_ [[Ea Eb]|[F _]]]]]; [|discriminate].
      unfold rev_edges in Hin. apply in_flat_map in Hin. destruct Hin as [a [_ Hin]].
      apply in_map_iff in Hin. destruct Hin as [e [<- He]].
      unfold e_a, e_b in Ea, Eb. simpl in Ea, Eb.
      destruct W as [_ Ha]. destruct (Ha a e He) as [_ [_ C]]. rewrite D in C.
      exists e. split; [|exact Ea]. fold (e_a e) in Eb. rewrite <- Eb, C. exact He.
    - intros [e [He Eb]].
      destruct W as [Hl Ha]. destruct (Ha v e He) as [A [B C]]. rewrite D in C.
      exists (e_b e, e_a e, e_w e). split; [|split].
      + unfold rev_edges. apply in_flat_map. exists v. split.
        * apply in_seq. fold n. unfold n. rewrite <- C. lia.
        * apply in_map_iff. exists e. auto.
      + split; unfold e_a, e_b; simpl; auto.
      + left. unfold e_a, e_b. simpl. split; auto.
  Qed.

  Lemma reverse_reach u v : reach (reverse g) u v <-> reach g v u.
  Proof.
    split.
    - induction 1 as [x|a b c E R IH]; [constructor|].
      eapply reach_snoc; eauto. now apply reverse_edge.
    - induction 1 as [x|a b c E R IH]; [constructor|].
      eapply reach_snoc; eauto. now apply reverse_edge.
  Qed.

  Theorem scc_correct :
    exists c, strongly_connected_components g = Ok c /\ length (snd c) = n /\
      forall v w, v < n -> w < n ->
                  getn (snd c) v < fst c /\
                  (getn (snd c) v = getn (snd c) w <-> mutually_reachable g v w).
  Proof.
    unfold strongly_connected_components.
    assert (Wr : wf (reverse g)) by (rewrite reverse_mk; apply wf_mk_graph).
    assert (Nr : g_n (reverse g) = n) by (rewrite reverse_mk; apply mk_graph_n).
    destruct (first_pass (reverse g) Wr) as [o [Eo [Hcov FP]]]. rewrite Eo.
    rewrite Nr in Hcov.
    apply (second_pass_correct g W (reverse_post_order o)).
    - intros v Hv. now apply Hcov.
    - intros v Hv. now apply Hcov.
    - intros l1 r l2 Eq w Rrw Nwr.
      assert (Hr : r < n) by (apply Hcov; rewrite Eq; apply in_or_app; right; now left).
      assert (Hw : w < n) by (eapply reach_lt; eauto).
      destruct (FP l1 r l2 w Eq) as [y' [Hy [M1 M2]]].
      + now rewrite Nr.
      + now apply reverse_reach.
      + intros R. apply Nwr. now apply reverse_reach.
      + exists y'. split; auto. split; now apply reverse_reach.
  Qed.
End Scc.
