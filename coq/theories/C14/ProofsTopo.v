(** C14 — cycles versus topological orders. *)
From Algo.C14 Require Import Spec ProofsBasic.

Lemma chain_pos_lt g order :
  (forall u w, edge_rel g u w -> pos_of u order < pos_of w order) ->
  forall t x y, chain g (x :: y :: t) -> pos_of x order < pos_of (last (x :: y :: t) x) order.
Proof.
  intros H. induction t as [|z t IH]; intros x y [E C].
  - simpl. auto.
  - specialize (IH y z C). apply H in E.
    change (last (x :: y :: z :: t) x) with (last (y :: z :: t) x).
    rewrite (last_cons_default (z :: t) y x y). lia.
Qed.

(** a graph that has a topological order has no cycle *)
Theorem topo_acyclic g order : topological_order g order -> acyclic g.
Proof.
  intros [_ H] c [a [b [t [-> [Hl Hc]]]]].
  pose proof (chain_pos_lt g order H t a b Hc) as P. rewrite Hl in P. lia.
Qed.

Corollary cycle_no_topo g c order : is_cycle g c -> ~ topological_order g order.
Proof. intros C T. exact (topo_acyclic g order T c C). Qed.
