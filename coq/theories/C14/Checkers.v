(** C14 — executable certificate checkers and independent reference algorithms.
    The checkers are proved sound in ProofsCheck*.v (unbounded, for every graph); they are
    extracted and run on the outputs of the model AND of the Go implementation.  The reference
    algorithms (Floyd–Warshall, Kruskal) are independent oracles used by the driver only. *)
From Algo.C14 Require Export Model.

Definition has_edge (g : graph) (u w : nat) : bool :=
  (u <? g_n g) && existsb (Nat.eqb w) (adjv g u).

(** consecutive vertices are joined by an edge *)
Fixpoint chain_ok (g : graph) (p : list nat) : bool :=
  match p with
  | a :: (b :: _) as t => has_edge g a b && chain_ok g t
  | _ => true
  end.

(** [p] is a path from [s] to [v] in [g] (a single vertex is the empty path from s to s) *)
Definition check_path (g : graph) (s v : nat) (p : list nat) : bool :=
  match p with
  | [] => false
  | a :: _ => (a =? s) && (last p a =? v) && (s <? g_n g) && chain_ok g p
  end.

(** a cycle as returned by DirectedCycle: at least one edge, closed *)
Definition check_cycle (g : graph) (c : list nat) : bool :=
  match c with
  | a :: _ :: _ => (last c a =? a) && chain_ok g c
  | _ => false
  end.

Fixpoint pos_of (v : nat) (l : list nat) : nat :=
  match l with
  | [] => 0
  | x :: t => if x =? v then 0 else S (pos_of v t)
  end.

Fixpoint nodupb (l : list nat) : bool :=
  match l with
  | [] => true
  | x :: t => negb (existsb (Nat.eqb x) t) && nodupb t
  end.

(** [order] lists every vertex exactly once and every edge goes forward in it *)
Definition check_topo (g : graph) (order : list nat) : bool :=
  (length order =? g_n g) && forallb (fun v => v <? g_n g) order && nodupb order &&
  forallb (fun u => forallb (fun w => pos_of u order <? pos_of w order) (adjv g u)) (seq 0 (g_n g)).

(** reachability by the model's (proved) recursive DFS *)
Definition reach_from (g : graph) (s : nat) : list bool :=
  match paths_of g SDFS s with
  | Ok p => p_vis p
  | _ => repeat false (g_n g)
  end.

(** ids characterise mutual reachability *)
Definition check_scc (g : graph) (ids : list nat) : bool :=
  let n := g_n g in
  let R := map (reach_from g) (seq 0 n) in
  (length ids =? n) &&
  forallb (fun v => forallb (fun w =>
             Bool.eqb (getn ids v =? getn ids w)
                      (getb (nth v R []) w && getb (nth w R []) v)) (seq 0 n)) (seq 0 n).

(** ids characterise undirected reachability (same test; on an undirected graph reachability
    is symmetric) *)
Definition check_cc (g : graph) (ids : list nat) : bool := check_scc g ids.

(** ** shortest-path-tree certificate: out[v] = PathTo(v) = Some (path, dist) | None *)
Definition edge_in (g : graph) (e : edge) : bool :=
  (e_a e <? g_n g) && existsb (edge_eqb e) (adj_edges g (e_a e)).

Fixpoint echain (g : graph) (a : nat) (p : list edge) (v : nat) : bool :=
  match p with
  | [] => a =? v
  | e :: t => (e_a e =? a) && edge_in g e && echain g (e_b e) t v
  end.

Definition out_dist (out : list (option (list edge * Z))) (v : nat) : option Z :=
  match nth v out None with
  | None => None
  | Some pd => Some (snd pd)
  end.

Definition check_spt (g : graph) (s : nat) (out : list (option (list edge * Z))) : bool :=
  let n := g_n g in
  (length out =? n) && (s <? n) &&
  (match out_dist out s with Some d => (d =? 0)%Z | None => false end) &&
  forallb (fun u => forallb (fun e =>
             match out_dist out u with
             | None => true
             | Some du => match out_dist out (e_b e) with
                          | None => false
                          | Some dw => (dw <=? du + e_w e)%Z
                          end
             end) (adj_edges g u)) (seq 0 n) &&
  forallb (fun v => match nth v out None with
                    | None => true
                    | Some pd => echain g s (fst pd) v && (weight_of (fst pd) =? snd pd)%Z
                    end) (seq 0 n).

(** ** quick-find labelling of an undirected edge list *)
Definition relabel (lab : list nat) (a b : nat) : list nat :=
  let la := getn lab a in let lb := getn lab b in
  map (fun x => if x =? lb then la else x) lab.

Definition labels (n : nat) (es : list edge) : list nat :=
  fold_left (fun lab e => relabel lab (e_a e) (e_b e)) es (seq 0 n).

(** acyclic: every edge joins two different classes of the edges before it *)
Fixpoint forest_from (lab : list nat) (es : list edge) : bool :=
  match es with
  | [] => true
  | e :: t => negb (getn lab (e_a e) =? getn lab (e_b e)) && forest_from (relabel lab (e_a e) (e_b e)) t
  end.

Definition all_edges (g : graph) : list edge := flat_map (adj_edges g) (seq 0 (g_n g)).

(** minimum-spanning-forest certificate: the edges are graph edges, acyclic, and every graph
    edge (a,b,w) has its end points joined by forest edges of weight <= w (for w large this is
    "spanning", in general it is the cycle property). *)
Definition check_msf (g : graph) (es : list edge) : bool :=
  let n := g_n g in
  forallb (fun e => edge_in g e && (e_b e <? n)) es &&
  forest_from (seq 0 n) es &&
  forallb (fun e =>
     let lab := labels n (filter (fun f => (e_w f <=? e_w e)%Z) es) in
     getn lab (e_a e) =? getn lab (e_b e)) (all_edges g).

(** * independent references (not used by any theorem) *)
Definition omin (a b : option Z) : option Z :=
  match a, b with
  | None, x => x
  | x, None => x
  | Some x, Some y => Some (Z.min x y)
  end.
Definition oadd (a b : option Z) : option Z :=
  match a, b with
  | Some x, Some y => Some (x + y)%Z
  | _, _ => None
  end.

(** Floyd–Warshall; [unit = true] counts edges instead of adding weights *)
Definition fw_init (g : graph) (unit : bool) : list (list (option Z)) :=
  map (fun i => fold_left (fun row e =>
                   let j := nbr (g_dir g) i e in
                   upd row j (omin (nth j row None) (Some (if unit then 1%Z else e_w e))))
                 (adj_edges g i) (upd (repeat None (g_n g)) i (Some 0%Z)))
      (seq 0 (g_n g)).

Fixpoint map2 {A B C} (f : A -> B -> C) (l : list A) (m : list B) : list C :=
  match l, m with
  | a :: l', b :: m' => f a b :: map2 f l' m'
  | _, _ => []
  end.

Definition fw_step (d : list (list (option Z))) (k : nat) : list (list (option Z)) :=
  let rowk := nth k d [] in
  map (fun rowi => let dik := nth k rowi None in
                   map2 (fun dij dkj => omin dij (oadd dik dkj)) rowi rowk) d.

Definition floyd_warshall (g : graph) (unit : bool) : list (list (option Z)) :=
  fold_left fw_step (seq 0 (g_n g)) (fw_init g unit).

(** Kruskal: weight of a minimum spanning forest *)
Fixpoint insert_edge (e : edge) (l : list edge) : list edge :=
  match l with
  | [] => [e]
  | f :: t => if (e_w e <=? e_w f)%Z then e :: l else f :: insert_edge e t
  end.

Definition kruskal (g : graph) : list edge * Z :=
  let sorted := fold_right insert_edge [] (all_edges g) in
  let r := fold_left (fun (acc : list nat * list edge) e =>
                        let lab := fst acc in
                        if getn lab (e_a e) =? getn lab (e_b e) then acc
                        else (relabel lab (e_a e) (e_b e), e :: snd acc))
                     sorted (seq 0 (g_n g), []) in
  (rev (snd r), weight_of (snd r)).
