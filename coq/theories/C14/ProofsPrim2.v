(** C14 — Prim (eager, abstract indexed priority queue): the model terminates and returns a
    minimum spanning forest. *)
From Algo.C14 Require Import Spec ProofsBasic ProofsTrav ProofsSpt ProofsMsf1 ProofsMsf2 ProofsDijkstra ProofsPrim1.
Local Open Scope Z_scope.

Section Prim.
  Variable g : graph.
  Hypothesis W : wf g.
  Hypothesis D : g_dir g = false.
  Hypothesis HB : Both g.
  Let n := g_n g.

  Lemma adj_und v e : In e (adj_edges g v) ->
    (v < n)%nat /\ (nbr false v e < n)%nat /\ gedge g e /\
    ((e_a e = v /\ e_b e = nbr false v e) \/ (e_a e = nbr false v e /\ e_b e = v)).
  Proof.
    intros H. destruct W as [Hl Ha]. destruct (Ha v e H) as [A [B C]]. rewrite D in C.
    assert (Hv : (v < n)%nat).
    { unfold n. rewrite <- Hl. unfold adj_edges in H. destruct (Nat.ltb_spec v (length (g_adj g))); auto.
      rewrite nth_overflow in H; auto. destruct H. }
    assert (G : gedge g e) by (apply (HB v e H)).
    unfold nbr. destruct (Nat.eqb_spec v (e_a e)) as [E|NE].
    - repeat split; auto.
    - destruct C as [C|C]; [congruence|]. repeat split; auto.
  Qed.

  (** * light paths *)
  Definition Lc (c : Z) (a b : nat) : Prop :=
    exists e, In e (adj_edges g a) /\ nbr false a e = b /\ e_w e <= c.

  Lemma Lc_sym c a b : Lc c a b -> Lc c b a.
  Proof.
    intros [e [He [Eb Hw]]]. exists e.
    destruct (adj_und a e He) as [_ [_ [G C]]]. rewrite Eb in C.
    destruct (HB a e He) as [Ba Bb].
    destruct C as [[Ea Ebb]|[Ea Ebb]].
    - split; [rewrite <- Ebb; exact Bb|]. split; auto. unfold nbr.
      destruct (Nat.eqb_spec b (e_a e)); congruence.
    - split; [rewrite <- Ea; exact Ba|]. split; auto. unfold nbr.
      rewrite Ea, Nat.eqb_refl. exact Ebb.
  Qed.

  Inductive lreach (c : Z) : nat -> nat -> Prop :=
  | lr_refl : forall a, lreach c a a
  | lr_step : forall a z b, Lc c a z -> lreach c z b -> lreach c a b.

  Lemma lreach_trans c a b d : lreach c a b -> lreach c b d -> lreach c a d.
  Proof. induction 1; auto. intros. eapply lr_step; eauto. Qed.

  Lemma lreach_snoc c a b d : lreach c a b -> Lc c b d -> lreach c a d.
  Proof. intros R L. eapply lreach_trans; eauto. eapply lr_step; eauto. constructor. Qed.

  Lemma lreach_sym c a b : lreach c a b -> lreach c b a.
  Proof.
    induction 1 as [a|a z b L R IH]; [constructor|].
    eapply lreach_snoc; eauto. now apply Lc_sym.
  Qed.

  Lemma first_visited c vis : forall x b, lreach c x b -> getb vis b = true -> getb vis x = false ->
    exists q' q, lreach c x q' /\ getb vis q' = false /\ Lc c q' q /\ getb vis q = true /\ lreach c q b.
  Proof.
    intros x b R. induction R as [a|a z b L R IH]; intros Gb Gx; [congruence|].
    destruct (getb vis z) eqn:Gz.
    - exists a, z. split; [constructor|]. auto.
    - destruct (IH Gb eq_refl) as [q' [q [R1 [G1 [L1 [G2 R2]]]]]].
      exists q', q. split; [eapply lr_step; eauto|]. auto.
  Qed.

  (** * the invariant *)
  Definition fmask (vis : list bool) (eT : list edge) (v : nat) : edge :=
    if getb vis v then nth v eT zero_edge else zero_edge.

  Record PI (st : mst) (T : list edge) (ex : edge -> Prop) : Prop := {
    p_lv : length (m_vis st) = n;
    p_le : length (m_edgeTo st) = n;
    p_ld : length (m_dist st) = n;
    p_pq : forall i k, In (i, k) (m_pq st) ->
        (i < n)%nat /\ getb (m_vis st) i = false /\ geto (m_dist st) i = Some k /\
        gedge g (nth i (m_edgeTo st) zero_edge) /\ e_w (nth i (m_edgeTo st) zero_edge) = k /\
        exists u, getb (m_vis st) u = true /\
                  ((e_a (nth i (m_edgeTo st) zero_edge) = u /\ e_b (nth i (m_edgeTo st) zero_edge) = i) \/
                   (e_a (nth i (m_edgeTo st) zero_edge) = i /\ e_b (nth i (m_edgeTo st) zero_edge) = u));
    p_dist : forall z k, getb (m_vis st) z = false -> geto (m_dist st) z = Some k -> In (z, k) (m_pq st);
    p_key : forall y e, getb (m_vis st) y = true -> In e (adj_edges g y) ->
                        getb (m_vis st) (nbr false y e) = false -> ~ ex e ->
                        exists k, In (nbr false y e, k) (m_pq st) /\ k <= e_w e;
    p_zero : forall z, getb (m_vis st) z = false -> (forall k, ~ In (z, k) (m_pq st)) ->
                       nth z (m_edgeTo st) zero_edge = zero_edge;
    p_T1 : forall e, In e T -> gedge g e /\ getb (m_vis st) (e_a e) = true /\ getb (m_vis st) (e_b e) = true;
    p_T2 : rsf T;
    p_T3 : Permutation T (filter nz (map (fmask (m_vis st) (m_edgeTo st)) (seq 0 n)));
    p_light : forall c a b, getb (m_vis st) a = true -> getb (m_vis st) b = true ->
                            lreach c a b -> uconn (tle c T) a b }.

  (** end points of an adjacency edge, seen from any visited end *)
  Lemma other_end v e y : In e (adj_edges g v) -> In e (adj_edges g y) ->
    (y = v /\ nbr false y e = nbr false v e) \/ (y = nbr false v e /\ nbr false y e = v).
  Proof.
    intros Hv Hy.
    destruct (adj_und v e Hv) as [_ [_ [_ Cv]]]. destruct (adj_und y e Hy) as [_ [_ [_ Cy]]].
    destruct Cv as [[A B]|[A B]]; destruct Cy as [[A' B']|[A' B']]; try (left; split; congruence);
      try (right; split; congruence).
  Qed.

  Lemma relax_ok st T ex ex' v e :
    PI st T ex -> getb (m_vis st) v = true -> In e (adj_edges g v) ->
    (forall x, ~ ex' x -> ~ ex x \/ x = e) ->
    PI (prim_relax false v st e) T ex'.
  Proof.
    intros I Gv He Hex.
    destruct (adj_und v e He) as [Hvn [Hwn [Ge Ce]]].
    unfold prim_relax. set (w := nbr false v e) in *.
    destruct (getb (m_vis st) w) eqn:Gw.
    - (* other end already on the tree *)
      destruct I as [A1 A2 A3 A4 A5 A6 A7 A8 A9 A10 A11]. constructor; auto.
      intros y e' Gy He' Gn Nex. destruct (Hex e' Nex) as [Nold| ->]; [eauto|].
      exfalso. destruct (other_end v e y He He') as [[_ E]|[_ E]]; rewrite E in Gn; fold w in Gn; congruence.
    - destruct (lt_inf (e_w e) (geto (m_dist st) w)) eqn:Lt.
      + (* improvement *)
        assert (Lw : (w < length (m_dist st))%nat) by (rewrite (p_ld _ _ _ I); auto).
        assert (Gd : forall x, geto (upd (m_dist st) w (Some (e_w e))) x =
                               if (x =? w)%nat then Some (e_w e) else geto (m_dist st) x).
        { intros x. apply geto_upd. auto. }
        assert (Ge' : forall x, nth x (upd (m_edgeTo st) w e) zero_edge =
                                if (x =? w)%nat then e else nth x (m_edgeTo st) zero_edge).
        { intros x. rewrite nth_upd. rewrite (p_le _ _ _ I), (proj2 (Nat.ltb_lt _ _) Hwn), andb_true_r. reflexivity. }
        constructor; cbn [m_vis m_edgeTo m_dist m_pq].
        * apply (p_lv _ _ _ I).
        * rewrite upd_length. apply (p_le _ _ _ I).
        * rewrite upd_length. apply (p_ld _ _ _ I).
        * intros i k Hin. apply in_pq_upsert in Hin. rewrite Gd, Ge'.
          destruct Hin as [[-> ->]|[Hne Hin]].
          -- rewrite Nat.eqb_refl.
             split; [exact Hwn|]. split; [exact Gw|]. split; [reflexivity|]. split; [exact Ge|].
             split; [reflexivity|]. exists v. split; [exact Gv|].
             destruct Ce as [[A B]|[A B]]; [left|right]; split; auto.
          -- rewrite (proj2 (Nat.eqb_neq i w) Hne). apply (p_pq _ _ _ I); auto.
        * intros z k Gz. rewrite Gd. destruct (Nat.eqb_spec z w) as [->|Hne].
          -- intros E. injection E as <-. apply in_pq_upsert. now left.
          -- intros E. apply in_pq_upsert. right. split; auto. apply (p_dist _ _ _ I); auto.
        * intros y e' Gy He' Gn Nex.
          assert (Key : forall k, In (w, k) (m_pq st) -> e_w e < k).
          { intros k Hk. destruct (p_pq _ _ _ I w k Hk) as [_ [_ [Dk _]]]. rewrite Dk in Lt.
            simpl in Lt. now apply Z.ltb_lt. }
          destruct (Hex e' Nex) as [Nold| ->].
          -- destruct (p_key _ _ _ I y e' Gy He' Gn Nold) as [k [Hk Le]].
             destruct (Nat.eq_dec (nbr false y e') w) as [E|NE].
             ++ rewrite E in *. exists (e_w e). split; [apply in_pq_upsert; now left|].
                specialize (Key k Hk). lia.
             ++ exists k. split; auto. apply in_pq_upsert. right. auto.
          -- destruct (other_end v e y He He') as [[_ E]|[Ey E]].
             ++ rewrite E. fold w. exists (e_w e). split; [apply in_pq_upsert; now left|lia].
             ++ exfalso. rewrite E in Gn. congruence.
        * intros z Gz Hno. rewrite Ge'.
          destruct (Nat.eqb_spec z w) as [->|Hne].
          -- exfalso. apply (Hno (e_w e)). apply in_pq_upsert. now left.
          -- apply (p_zero _ _ _ I); auto. intros k Hk. apply (Hno k). apply in_pq_upsert. right. auto.
        * apply (p_T1 _ _ _ I).
        * apply (p_T2 _ _ _ I).
        * assert (E : map (fmask (m_vis st) (upd (m_edgeTo st) w e)) (seq 0 n) =
                      map (fmask (m_vis st) (m_edgeTo st)) (seq 0 n)).
          { apply map_ext. intros x. unfold fmask. rewrite Ge'.
            destruct (Nat.eqb_spec x w) as [->|]; auto. now rewrite Gw. }
          rewrite E. apply (p_T3 _ _ _ I).
        * apply (p_light _ _ _ I).
      + (* no improvement *)
        destruct (geto (m_dist st) w) as [dw|] eqn:Dw; [|discriminate]. simpl in Lt. apply Z.ltb_ge in Lt.
        pose proof (p_dist _ _ _ I w dw Gw Dw) as Hq.
        destruct I as [A1 A2 A3 A4 A5 A6 A7 A8 A9 A10 A11]. constructor; auto.
        intros y e' Gy He' Gn Nex. destruct (Hex e' Nex) as [Nold| ->]; [eauto|].
        destruct (other_end v e y He He') as [[_ E]|[_ E]].
        * rewrite E. fold w. exists dw. split; auto.
        * exfalso. rewrite E in Gn. congruence.
  Qed.

  Lemma relax_vis v st e : m_vis (prim_relax false v st e) = m_vis st.
  Proof.
    unfold prim_relax. destruct (getb (m_vis st) (nbr false v e)); auto.
    destruct (lt_inf _ _); auto.
  Qed.

  Lemma relax_all v : forall es st T,
      PI st T (fun x => In x es) -> getb (m_vis st) v = true ->
      (forall e, In e es -> In e (adj_edges g v)) ->
      PI (fold_left (prim_relax false v) es st) T (fun _ => False) /\
      m_vis (fold_left (prim_relax false v) es st) = m_vis st.
  Proof.
    induction es as [|e t IH]; intros st T I Gv Hin; simpl.
    - split; auto.
    - assert (I' : PI (prim_relax false v st e) T (fun x => In x t)).
      { eapply relax_ok; eauto.
        - apply Hin. now left.
        - intros x Nx. destruct (edge_eq_dec x e) as [->|NE]; auto. left. intros [E|Hi]; auto. }
      destruct (IH _ T I') as [A B].
      + now rewrite relax_vis.
      + intros x Hx. apply Hin. now right.
      + split; auto. now rewrite B, relax_vis.
  Qed.

  Lemma tle_cons_incl c t T e : In e (tle c T) -> In e (tle c (t :: T)).
  Proof.
    unfold tle. simpl. intros H. destruct (e_w t <=? c); [now right|auto].
  Qed.

  Lemma getb_upd_true vis x : (x < length vis)%nat -> getb (upd vis x true) x = true.
  Proof. intros H. rewrite getb_upd, Nat.eqb_refl. simpl. now rewrite (proj2 (Nat.ltb_lt _ _) H). Qed.

  Lemma getb_upd_false vis x z : getb (upd vis x true) z = false -> getb vis z = false.
  Proof. intros H. destruct (getb vis z) eqn:G; auto. apply (sub_upd vis x) in G. congruence. Qed.

  (** extracting the minimum of a non-empty queue: a new tree edge *)
  Lemma extract_ok st T x k :
    PI st T (fun _ => False) -> pq_min (m_pq st) = Some (x, k) ->
    PI {| m_vis := upd (m_vis st) x true; m_edgeTo := m_edgeTo st; m_dist := m_dist st;
          m_pq := pq_remove (m_pq st) x |}
       (nth x (m_edgeTo st) zero_edge :: T) (fun e => In e (adj_edges g x)) /\
    getb (m_vis st) x = false /\ (x < n)%nat.
  Proof.
    intros I Hm. destruct (pq_min_some _ _ _ Hm) as [Hin Hmin].
    destruct (p_pq _ _ _ I x k Hin) as [Hxn [Gx [Dx [Gt [Wt [u [Gu Ends]]]]]]].
    set (t := nth x (m_edgeTo st) zero_edge) in *.
    split; [|auto].
    assert (Lx : (x < length (m_vis st))%nat) by (rewrite (p_lv _ _ _ I); auto).
    assert (Gx' : getb (upd (m_vis st) x true) x = true) by now apply getb_upd_true.
    assert (Hux : u <> x) by (intros ->; congruence).
    assert (Tnz : nz t = true).
    { unfold nz. apply negb_true_iff. apply edge_eqb_neq. intros E. rewrite E in Ends.
      unfold e_a, e_b, zero_edge in Ends. simpl in Ends. destruct Ends as [[A B]|[A B]]; congruence. }
    (* the new edge is light whenever a light path leaves x towards the old tree *)
    assert (ClaimX : forall c b, getb (m_vis st) b = true -> lreach c x b -> uconn (tle c (t :: T)) x b).
    { intros c b Gb R.
      destruct (first_visited c (m_vis st) x b R Gb Gx) as [q' [q [R1 [G1 [L1 [G2 R2]]]]]].
      destruct (Lc_sym _ _ _ L1) as [e0 [He0 [Ne0 We0]]].
      destruct (p_key _ _ _ I q e0 G2 He0) as [kq [Hq Lq]]; [rewrite Ne0; exact G1|tauto|].
      rewrite Ne0 in Hq. specialize (Hmin _ _ Hq).
      assert (Kc : k <= c) by lia.
      assert (Tin : In t (tle c (t :: T))).
      { unfold tle. simpl. rewrite Wt. rewrite (proj2 (Z.leb_le k c) Kc). now left. }
      assert (Uxu : uconn (tle c (t :: T)) x u).
      { destruct Ends as [[A B]|[A B]]; rewrite <- A, <- B; [apply uc_sym|]; now apply uc_edge. }
      assert (Lux : Lc c u x).
      { exists t. destruct (HB _ _ Gt) as [Ba Bb].
        destruct Ends as [[A B]|[A B]].
        - split; [rewrite <- A; exact Ba|]. split; [|lia]. unfold nbr. rewrite A, Nat.eqb_refl. exact B.
        - split; [rewrite <- B; exact Bb|]. split; [|lia]. unfold nbr. rewrite A.
          rewrite (proj2 (Nat.eqb_neq u x) Hux). reflexivity. }
      assert (Ruq : lreach c u q).
      { eapply lr_step; [exact Lux|]. eapply lreach_snoc; eauto. }
      eapply uc_trans; [exact Uxu|].
      eapply uc_trans.
      - eapply uconn_incl; [apply tle_cons_incl|]. apply (p_light _ _ _ I c u q); auto.
      - eapply uconn_incl; [apply tle_cons_incl|]. apply (p_light _ _ _ I c q b); auto. }
    constructor; cbn [m_vis m_edgeTo m_dist m_pq].
    - rewrite upd_length. apply (p_lv _ _ _ I).
    - apply (p_le _ _ _ I).
    - apply (p_ld _ _ _ I).
    - intros i k' Hi. apply in_pq_remove in Hi. destruct Hi as [Hi Hne].
      destruct (p_pq _ _ _ I i k' Hi) as [A [B [C0 [E [F [u' [Gu' En']]]]]]].
      split; [auto|]. split.
      { rewrite getb_upd. rewrite (proj2 (Nat.eqb_neq i x) Hne). exact B. }
      split; [auto|]. split; [auto|]. split; [auto|].
      exists u'. split; [apply sub_upd; exact Gu'|exact En'].
    - intros z k' Gz Dz. apply in_pq_remove. split.
      + apply (p_dist _ _ _ I); auto. eapply getb_upd_false; eauto.
      + intros ->. congruence.
    - intros y e Gy He Gn Nex.
      destruct (Nat.eq_dec y x) as [->|Hne]; [contradiction|].
      rewrite getb_upd, (proj2 (Nat.eqb_neq y x) Hne) in Gy. simpl in Gy.
      destruct (p_key _ _ _ I y e Gy He) as [k' [Hk Le]]; [eapply getb_upd_false; eauto|tauto|].
      exists k'. split; auto. apply in_pq_remove. split; auto. intros E. rewrite E in Gn. congruence.
    - intros z Gz Hno.
      assert (Hzx : z <> x) by (intros ->; congruence).
      apply (p_zero _ _ _ I); [eapply getb_upd_false; eauto|].
      intros k' Hk. apply (Hno k'). apply in_pq_remove. auto.
    - intros e [<-|He].
      + split; [exact Gt|].
        destruct Ends as [[A B]|[A B]]; rewrite A, B; split; auto; apply sub_upd; auto.
      + destruct (p_T1 _ _ _ I e He) as [A [B C0]]. split; auto. split; apply sub_upd; auto.
    - split; [|apply (p_T2 _ _ _ I)].
      intros R.
      destruct (uconn_closed (fun v => getb (m_vis st) v = true) T _ _
                  (fun e He => proj2 (p_T1 _ _ _ I e He)) R) as [E|[A B]].
      + destruct Ends as [[A B]|[A B]]; congruence.
      + destruct Ends as [[A' B']|[A' B']]; congruence.
    - eapply perm_trans; [apply perm_skip; apply (p_T3 _ _ _ I)|].
      apply (perm_insert (fmask (m_vis st) (m_edgeTo st)) _ x t).
      + apply seq_NoDup.
      + apply in_seq. lia.
      + unfold fmask. now rewrite Gx.
      + unfold fmask. now rewrite Gx'.
      + exact Tnz.
      + intros y Hy. unfold fmask. rewrite getb_upd, (proj2 (Nat.eqb_neq y x) Hy). reflexivity.
    - intros c a b Ga Gb R.
      destruct (Nat.eq_dec a x) as [->|Ha]; destruct (Nat.eq_dec b x) as [->|Hb].
      + apply uc_refl.
      + rewrite getb_upd, (proj2 (Nat.eqb_neq b x) Hb) in Gb. simpl in Gb. now apply ClaimX.
      + rewrite getb_upd, (proj2 (Nat.eqb_neq a x) Ha) in Ga. simpl in Ga.
        apply uc_sym. apply ClaimX; auto. now apply lreach_sym.
      + rewrite getb_upd, (proj2 (Nat.eqb_neq a x) Ha) in Ga.
        rewrite getb_upd, (proj2 (Nat.eqb_neq b x) Hb) in Gb. simpl in *.
        eapply uconn_incl; [apply tle_cons_incl|]. apply (p_light _ _ _ I); auto.
  Qed.

  (** starting a new tree at an unvisited vertex when the queue is empty *)
  Lemma root_ok st T s :
    PI st T (fun _ => False) -> m_pq st = [] -> getb (m_vis st) s = false -> (s < n)%nat ->
    PI {| m_vis := upd (m_vis st) s true; m_edgeTo := m_edgeTo st;
          m_dist := upd (m_dist st) s (Some 0); m_pq := [] |}
       T (fun e => In e (adj_edges g s)).
  Proof.
    intros I Hq Gs Hs.
    assert (Ls : (s < length (m_vis st))%nat) by (rewrite (p_lv _ _ _ I); auto).
    assert (Gs' : getb (upd (m_vis st) s true) s = true) by now apply getb_upd_true.
    assert (NoCross : forall y e, getb (m_vis st) y = true -> In e (adj_edges g y) ->
                                  getb (m_vis st) (nbr false y e) = false -> False).
    { intros y e Gy He Gn. destruct (p_key _ _ _ I y e Gy He Gn) as [k [Hk _]]; [tauto|].
      rewrite Hq in Hk. destruct Hk. }
    assert (Isolated : forall c b, getb (m_vis st) b = true -> lreach c s b -> False).
    { intros c b Gb R.
      destruct (first_visited c (m_vis st) s b R Gb Gs) as [q' [q [_ [G1 [L1 [G2 _]]]]]].
      destruct (Lc_sym _ _ _ L1) as [e0 [He0 [Ne0 _]]].
      apply (NoCross q e0 G2 He0). now rewrite Ne0. }
    constructor; cbn [m_vis m_edgeTo m_dist m_pq].
    - rewrite upd_length. apply (p_lv _ _ _ I).
    - apply (p_le _ _ _ I).
    - rewrite upd_length. apply (p_ld _ _ _ I).
    - intros i k [].
    - intros z k Gz Dz. exfalso.
      assert (z <> s) by (intros ->; congruence).
      rewrite geto_upd in Dz; [|rewrite (p_ld _ _ _ I); auto].
      rewrite (proj2 (Nat.eqb_neq z s) H) in Dz.
      pose proof (p_dist _ _ _ I z k (getb_upd_false _ _ _ Gz) Dz) as Hin. rewrite Hq in Hin. destruct Hin.
    - intros y e Gy He Gn Nex. exfalso.
      destruct (Nat.eq_dec y s) as [->|Hne]; [contradiction|].
      rewrite getb_upd, (proj2 (Nat.eqb_neq y s) Hne) in Gy. simpl in Gy.
      apply (NoCross y e Gy He). eapply getb_upd_false; eauto.
    - intros z Gz _. apply (p_zero _ _ _ I); [eapply getb_upd_false; eauto|].
      intros k Hk. rewrite Hq in Hk. destruct Hk.
    - intros e He. destruct (p_T1 _ _ _ I e He) as [A [B C0]]. split; auto. split; apply sub_upd; auto.
    - apply (p_T2 _ _ _ I).
    - assert (E : map (fmask (upd (m_vis st) s true) (m_edgeTo st)) (seq 0 n) =
                  map (fmask (m_vis st) (m_edgeTo st)) (seq 0 n)).
      { apply map_ext. intros y. unfold fmask. rewrite getb_upd.
        destruct (Nat.eqb_spec y s) as [->|]; simpl; auto.
        rewrite (proj2 (Nat.ltb_lt _ _) Ls), Gs.
        apply (p_zero _ _ _ I); auto. intros k Hk. rewrite Hq in Hk. destruct Hk. }
      rewrite E. apply (p_T3 _ _ _ I).
    - intros c a b Ga Gb R.
      destruct (Nat.eq_dec a s) as [->|Ha]; destruct (Nat.eq_dec b s) as [->|Hb].
      + apply uc_refl.
      + exfalso. rewrite getb_upd, (proj2 (Nat.eqb_neq b s) Hb) in Gb. simpl in Gb. apply (Isolated c b Gb R).
      + exfalso. rewrite getb_upd, (proj2 (Nat.eqb_neq a s) Ha) in Ga. simpl in Ga.
        apply (Isolated c a Ga). now apply lreach_sym.
      + rewrite getb_upd, (proj2 (Nat.eqb_neq a s) Ha) in Ga.
        rewrite getb_upd, (proj2 (Nat.eqb_neq b s) Hb) in Gb. simpl in *.
        apply (p_light _ _ _ I); auto.
  Qed.

  Lemma prim_loop_ok : forall fuel st T,
      PI st T (fun _ => False) -> (cf (m_vis st) <= fuel)%nat ->
      exists st' T', prim_loop g fuel st = Some st' /\ PI st' T' (fun _ => False) /\
                     m_pq st' = [] /\ sub (m_vis st) (m_vis st').
  Proof.
    induction fuel as [|f IH]; intros st T I Hf.
    - simpl. destruct (pq_min (m_pq st)) as [[x k]|] eqn:Hm.
      + exfalso. destruct (extract_ok st T x k I Hm) as [_ [Gx Hx]].
        assert (S (cf (upd (m_vis st) x true)) = cf (m_vis st)).
        { apply cf_upd; auto. rewrite (p_lv _ _ _ I). auto. } lia.
      + exists st, T. split; auto. split; auto. split; [now apply pq_min_none|apply sub_refl].
    - simpl. destruct (pq_min (m_pq st)) as [[x k]|] eqn:Hm.
      + destruct (extract_ok st T x k I Hm) as [I' [Gx Hx]].
        rewrite D.
        set (st1 := {| m_vis := upd (m_vis st) x true; m_edgeTo := m_edgeTo st; m_dist := m_dist st;
                       m_pq := pq_remove (m_pq st) x |}) in *.
        assert (Gx1 : getb (m_vis st1) x = true).
        { simpl. apply getb_upd_true. rewrite (p_lv _ _ _ I). auto. }
        destruct (relax_all x (adj_edges g x) st1 _ I' Gx1) as [I'' Ev]; auto.
        destruct (IH _ _ I'') as [st' [T' [E [J [Q S']]]]].
        { rewrite Ev. simpl.
          assert (S (cf (upd (m_vis st) x true)) = cf (m_vis st)).
          { apply cf_upd; auto. rewrite (p_lv _ _ _ I). auto. } lia. }
        exists st', T'. split; auto. split; auto. split; auto.
        eapply sub_trans; [|exact S']. rewrite Ev. simpl. apply sub_upd.
      + exists st, T. split; auto. split; auto. split; [now apply pq_min_none|apply sub_refl].
  Qed.

  Lemma prim_ok st T s :
    PI st T (fun _ => False) -> m_pq st = [] -> getb (m_vis st) s = false -> (s < n)%nat ->
    exists st' T', prim g s st = Some st' /\ PI st' T' (fun _ => False) /\ m_pq st' = [] /\
                   sub (m_vis st) (m_vis st') /\ getb (m_vis st') s = true.
  Proof.
    intros I Hq Gs Hs. unfold prim. fold n. rewrite Hq.
    destruct n as [|f] eqn:En; [lia|]. simpl. rewrite D.
    rewrite Nat.eqb_refl. simpl.
    pose proof (root_ok st T s I Hq Gs) as I1. rewrite En in I1. specialize (I1 Hs).
    set (st1 := {| m_vis := upd (m_vis st) s true; m_edgeTo := m_edgeTo st;
                   m_dist := upd (m_dist st) s (Some 0); m_pq := [] |}) in *.
    assert (Ls : (s < length (m_vis st))%nat) by (rewrite (p_lv _ _ _ I); fold n; lia).
    assert (G1 : getb (m_vis st1) s = true) by (simpl; now apply getb_upd_true).
    destruct (relax_all s (adj_edges g s) st1 T I1 G1) as [I2 Ev]; auto.
    destruct (prim_loop_ok f _ T I2) as [st' [T' [E [J [Q S']]]]].
    { rewrite Ev. simpl.
      assert (S (cf (upd (m_vis st) s true)) = cf (m_vis st)) by (apply cf_upd; auto).
      pose proof (cf_le_length (m_vis st)). rewrite (p_lv _ _ _ I) in H0. fold n in H0. lia. }
    exists st', T'. split; [exact E|]. split; auto. split; auto. split.
    - eapply sub_trans; [|exact S']. rewrite Ev. simpl. apply sub_upd.
    - apply S'. rewrite Ev. exact G1.
  Qed.

  Lemma prim_roots_ok : forall vs st T,
      PI st T (fun _ => False) -> m_pq st = [] -> (forall v, In v vs -> (v < n)%nat) ->
      exists st' T', prim_roots g vs st = Some st' /\ PI st' T' (fun _ => False) /\ m_pq st' = [] /\
                     sub (m_vis st) (m_vis st') /\ (forall v, In v vs -> getb (m_vis st') v = true).
  Proof.
    induction vs as [|v vs IH]; intros st T I Hq Hlt; simpl.
    - exists st, T. split; auto. split; auto. split; auto. split; [apply sub_refl|]. intros v [].
    - assert (Hlt' : forall x, In x vs -> (x < n)%nat) by (intros x Hx; apply Hlt; now right).
      destruct (getb (m_vis st) v) eqn:Gv.
      + destruct (IH st T I Hq Hlt') as [st' [T' [E [J [Q [S1 V]]]]]].
        exists st', T'. split; auto. split; auto. split; auto. split; auto.
        intros x [<-|Hx]; auto.
      + destruct (prim_ok st T v I Hq Gv) as [sm [Tm [Em [Jm [Qm [Sm Gm]]]]]]; [apply Hlt; now left|].
        rewrite Em.
        destruct (IH sm Tm Jm Qm Hlt') as [st' [T' [E [J [Q [S1 V]]]]]].
        exists st', T'. split; auto. split; auto. split; auto. split; [eapply sub_trans; eauto|].
        intros x [<-|Hx]; auto.
  Qed.
End Prim.
