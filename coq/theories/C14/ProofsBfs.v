(** C14 — BFS returns a path with the fewest edges. *)
From Algo.C14 Require Import Spec ProofsBasic ProofsTrav ProofsReach.

Lemma tp_det e s v l : tp e s v l -> forall l', tp e s v l' -> l = l'.
Proof.
  induction 1 as [|v l Hne H IH]; intros l' H'.
  - inversion H'; subst; auto. congruence.
  - inversion H'; subst; [congruence|]. f_equal. auto.
Qed.

Lemma walk_sound e s : forall fuel v acc r,
    walk fuel e s v acc = Some r -> exists l, tp e s v l /\ r = l ++ acc.
Proof.
  induction fuel as [|f IH]; intros v acc r H; simpl in H.
  - destruct (Nat.eqb_spec v s) as [->|]; [|discriminate]. injection H as <-.
    exists [s]. split; [constructor|reflexivity].
  - destruct (Nat.eqb_spec v s) as [->|Hne].
    + injection H as <-. exists [s]. split; [constructor|reflexivity].
    + destruct (IH _ _ _ H) as [l [A B]]. exists (l ++ [v]). split; [now constructor|].
      now rewrite <- app_assoc.
Qed.

Section Bfs.
  Variable g : graph.
  Hypothesis W : wf g.
  Variable s : nat.
  Hypothesis Hs : s < g_n g.
  Let n := g_n g.

  Notation p_pre := (fun (_ : nat) (x : list nat) => x).
  Notation p_edg := (fun (v w : nat) (e : list nat) => upd e w v).
  Notation bscan := (scan p_pre p_edg true).
  Notation bloop := (iter_loop p_pre p_pre p_edg (adjv g) true).

  Definition lvl (dep : nat -> nat) (c : list nat) (d : nat) : Prop := forall x, In x c -> dep x = d.

  Definition BC (dep : nat -> nat) (vis : list bool) (e : list nat) : Prop :=
    length vis = n /\ length e = n /\ dep s = 0 /\
    forall x, getb vis x = true ->
              exists l, tp e s x l /\ length l = S (dep x) /\ (forall y, In y l -> getb vis y = true).

  Definition nbrs_ok (dep : nat -> nat) (vis : list bool) (x : nat) : Prop :=
    forall y, In y (adjv g x) -> getb vis y = true /\ dep y <= S (dep x).

  Definition SI dep vis e (c : list nat) (v : nat) (done : list nat) : Prop :=
    BC dep vis e /\ getb vis v = true /\ (forall x, In x c -> getb vis x = true) /\
    (exists c1 c2, c = c1 ++ c2 /\ lvl dep c1 (dep v) /\ lvl dep c2 (S (dep v))) /\
    (forall x, getb vis x = true -> ~ In x c -> x <> v -> dep x <= dep v /\ nbrs_ok dep vis x) /\
    (forall y, In y done -> getb vis y = true /\ dep y <= S (dep v)).

  Definition BI dep vis e (c : list nat) : Prop :=
    BC dep vis e /\ (forall x, In x c -> getb vis x = true) /\
    match c with
    | [] => True
    | v :: c' => exists c1 c2, c' = c1 ++ c2 /\ lvl dep c1 (dep v) /\ lvl dep c2 (S (dep v))
    end /\
    (forall x, getb vis x = true -> ~ In x c ->
               (forall q, In q c -> dep x <= dep q) /\ nbrs_ok dep vis x).

  Lemma bc_s_visited dep vis e x : BC dep vis e -> getb vis x = true -> getb vis s = true.
  Proof.
    intros [_ [_ [_ H]]] G. destruct (H x G) as [l [A [_ C]]]. apply C. eapply tp_in_s; eauto.
  Qed.

  Lemma scan_si v : forall ws done vis e c dep,
      SI dep vis e c v done -> (forall w, In w ws -> In w (adjv g v)) ->
      exists dep', SI dep' (fst (fst (bscan v ws (vis, e) c))) (snd (fst (bscan v ws (vis, e) c)))
                      (snd (bscan v ws (vis, e) c)) v (done ++ ws).
  Proof.
    induction ws as [|w ws IH]; intros done vis e c dep HS Hin; simpl.
    - exists dep. now rewrite app_nil_r.
    - assert (Hin' : forall x, In x ws -> In x (adjv g v)) by (intros x Hx; apply Hin; now right).
      assert (Hwv : In w (adjv g v)) by (apply Hin; now left).
      assert (Hw : w < n) by (eapply adj_lt; eauto).
      replace (done ++ w :: ws) with ((done ++ [w]) ++ ws) by (rewrite <- app_assoc; reflexivity).
      destruct HS as [HB [Gv [Hc [[c1 [c2 [Ec [L1 L2]]]] [HF HD]]]]].
      destruct (getb vis w) eqn:Gw.
      + (* already visited: its depth is at most one more than v's *)
        apply (IH (done ++ [w]) vis e c dep); auto. split; [auto|]. split; [auto|]. split; [auto|].
        split; [exists c1, c2; auto|]. split; [auto|].
        intros y Hy. apply in_app_or in Hy. destruct Hy as [Hy|[<-|[]]]; auto.
        split; auto.
        destruct (Nat.eq_dec w v) as [->|Hne]; [lia|].
        destruct (in_dec Nat.eq_dec w c) as [Hi|Hi].
        * rewrite Ec in Hi. apply in_app_or in Hi. destruct Hi as [Hi|Hi].
          -- rewrite (L1 _ Hi). lia.
          -- rewrite (L2 _ Hi). lia.
        * destruct (HF w Gw Hi Hne). lia.
      + (* newly discovered *)
        set (dep' := fun x => if x =? w then S (dep v) else dep x).
        assert (Dold : forall x, getb vis x = true -> dep' x = dep x).
        { intros x Gx. unfold dep'. destruct (Nat.eqb_spec x w) as [->|]; auto. congruence. }
        assert (Dw : dep' w = S (dep v)) by (unfold dep'; now rewrite Nat.eqb_refl).
        destruct HB as [Hlv [Hle [Ds Htp]]].
        assert (Gs : getb vis s = true).
        { destruct (Htp v Gv) as [l [A [_ C]]]. apply C. eapply tp_in_s; eauto. }
        assert (Gw' : getb (upd vis w true) w = true).
        { rewrite getb_upd, Nat.eqb_refl. simpl. destruct (Nat.ltb_spec w (length vis)); auto. lia. }
        apply (IH (done ++ [w]) (upd vis w true) (upd e w v) (c ++ [w]) dep'); auto.
        split.
        { (* BC *)
          split; [now rewrite upd_length|]. split; [now rewrite upd_length|].
          split; [rewrite Dold; auto|].
          intros x Gx. rewrite getb_upd in Gx.
          destruct (Nat.eq_dec x w) as [->|Hne].
          - destruct (Htp v Gv) as [l [A [B C]]].
            exists (l ++ [w]). split.
            + constructor.
              * intros ->. congruence.
              * unfold getn. rewrite nth_upd_same; [|lia]. apply tp_upd; auto.
                intros Hi. specialize (C _ Hi). congruence.
            + split.
              * rewrite app_length. simpl. rewrite Dw. lia.
              * intros y Hy. apply in_app_or in Hy. destruct Hy as [Hy|[<-|[]]]; auto.
                apply sub_upd. auto.
          - rewrite (proj2 (Nat.eqb_neq x w) Hne) in Gx. simpl in Gx.
            destruct (Htp x Gx) as [l [A [B C]]].
            exists l. split.
            + apply tp_upd; auto. intros Hi. specialize (C _ Hi). congruence.
            + split; [rewrite Dold; auto|]. intros y Hy. apply sub_upd. auto. }
        split; [apply sub_upd; auto|].
        split.
        { intros x Hx. apply in_app_or in Hx. destruct Hx as [Hx|[<-|[]]]; auto.
          apply sub_upd. auto. }
        split.
        { exists c1, (c2 ++ [w]). split; [rewrite Ec; now rewrite app_assoc|].
          rewrite (Dold v Gv). split.
          - intros x Hx. rewrite Dold; auto. apply Hc. rewrite Ec. apply in_or_app. now left.
          - intros x Hx. apply in_app_or in Hx. destruct Hx as [Hx|[<-|[]]]; auto.
            rewrite Dold; auto. apply Hc. rewrite Ec. apply in_or_app. now right. }
        split.
        { intros x Gx Hni Hne.
          assert (x <> w) by (intros ->; apply Hni; apply in_or_app; right; now left).
          rewrite getb_upd in Gx. rewrite (proj2 (Nat.eqb_neq x w) H) in Gx. simpl in Gx.
          assert (Hni' : ~ In x c) by (intros Hi; apply Hni; apply in_or_app; now left).
          destruct (HF x Gx Hni' Hne) as [A B].
          rewrite (Dold x Gx), (Dold v Gv). split; auto.
          intros y Hy. destruct (B y Hy) as [B1 B2]. split; [apply sub_upd; auto|].
          rewrite (Dold y B1), ?(Dold x Gx). auto. }
        { intros y Hy. apply in_app_or in Hy. destruct Hy as [Hy|[<-|[]]].
          - destruct (HD y Hy) as [A B]. split; [apply sub_upd; auto|].
            rewrite (Dold y A), (Dold v Gv). auto.
          - split; auto. rewrite Dw, (Dold v Gv). lia. }
  Qed.

  Lemma bfs_loop : forall fuel vis e c st',
      bloop fuel (vis, e) c = Some st' -> (exists dep, BI dep vis e c) ->
      exists dep', BI dep' (fst st') (snd st') [].
  Proof.
    induction fuel as [|f IH]; intros vis e c st' E [dep HB].
    - destruct c; simpl in E; [|discriminate]. injection E as <-. eauto.
    - destruct c as [|v c']; simpl in E; [injection E as <-; eauto|].
      destruct HB as [HC [Hc [[c1 [c2 [Ec [L1 L2]]]] HF]]].
      assert (HS : SI dep vis e c' v []).
      { split; [auto|]. split; [apply Hc; now left|]. split; [intros x Hx; apply Hc; now right|].
        split; [exists c1, c2; auto|]. split.
        - intros x Gx Hni Hne. destruct (HF x Gx) as [A B].
          + intros [->|Hi]; auto.
          + split; auto. apply A. now left.
        - intros y []. }
      destruct (scan_si v (adjv g v) [] vis e c' dep HS) as [dep' HS']; auto.
      simpl in HS'.
      set (r := bscan v (adjv g v) (vis, e) c') in *.
      destruct (fst r) as [vis1 e1] eqn:Er. simpl in *.
      apply (IH vis1 e1 (snd r) st'); auto.
      exists dep'.
      destruct HS' as [HC' [Gv [Hc' [[a1 [a2 [Ea [M1 M2]]]] [HF' HD']]]]].
      split; [auto|]. split; [auto|]. split.
      + destruct (snd r) as [|q rest] eqn:Eq; auto.
        destruct a1 as [|q1 a1'].
        * simpl in Ea. subst a2. exists rest, []. split; [now rewrite app_nil_r|].
          split; [|intros x []].
          intros x Hx. rewrite (M2 x (or_intror Hx)), (M2 q (or_introl eq_refl)). reflexivity.
        * simpl in Ea. injection Ea as <- ->. exists a1', a2.
          assert (dep' q = dep' v) by (apply M1; now left).
          split; auto. split.
          -- intros x Hx. rewrite H. apply M1. now right.
          -- intros x Hx. rewrite H. now apply M2.
      + intros x Gx Hni.
        destruct (Nat.eq_dec x v) as [->|Hne].
        * split.
          -- intros q Hq. rewrite Ea in Hq. apply in_app_or in Hq. destruct Hq as [Hq|Hq].
             ++ rewrite (M1 q Hq). lia.
             ++ rewrite (M2 q Hq). lia.
          -- intros y Hy. apply HD'. auto.
        * destruct (HF' x Gx Hni Hne) as [A B]. split; auto.
          intros q Hq. rewrite Ea in Hq. apply in_app_or in Hq. destruct Hq as [Hq|Hq].
          -- rewrite (M1 q Hq). lia.
          -- rewrite (M2 q Hq). lia.
  Qed.

  Lemma chain_dep dep vis : (forall x, getb vis x = true -> nbrs_ok dep vis x) ->
    forall t a, chain g (a :: t) -> getb vis a = true -> dep (last (a :: t) a) <= dep a + length t.
  Proof.
    intros H. induction t as [|b t IH]; intros a Hc Ga.
    - simpl. lia.
    - destruct Hc as [E Hc]. destruct (H a Ga b E) as [Gb Db].
      change (last (a :: b :: t) a) with (last (b :: t) a).
      rewrite (last_cons_default t b a b).
      specialize (IH b Hc Gb). simpl length. lia.
  Qed.

  Theorem bfs_fewest_edges p v l :
    paths_of g SBFS s = Ok p -> paths_to p v = Ok (Some l) ->
    forall l', is_path g s v l' -> length l <= length l'.
  Proof.
    intros Ep Et l' [Hh [Hl Hch]].
    unfold paths_of in Ep. fold n in Ep. rewrite (proj2 (Nat.ltb_lt s n) Hs) in Ep.
    destruct (traverse _ _ _ _ _ _ _ _) as [[vis e]|] eqn:Et0; [|discriminate].
    injection Ep as <-. simpl in Et0. unfold iter in Et0. simpl in Et0.
    destruct (bfs_loop _ _ _ _ _ Et0) as [dep [HC [_ [_ HF]]]].
    { exists (fun _ => 0).
      assert (Gs : getb (upd (repeat false n) s true) s = true).
      { rewrite getb_upd, Nat.eqb_refl. simpl. rewrite repeat_length.
        destruct (Nat.ltb_spec s n); auto. lia. }
      split.
      - split; [now rewrite upd_length, repeat_length|]. split; [apply repeat_length|].
        split; auto. intros x Gx. rewrite getb_upd in Gx.
        destruct (Nat.eq_dec x s) as [->|Hne].
        + exists [s]. split; [constructor|]. split; auto. intros y [<-|[]]. auto.
        + rewrite (proj2 (Nat.eqb_neq x s) Hne) in Gx. simpl in Gx.
          rewrite getb_repeat_false in Gx. discriminate.
      - split; [intros x [<-|[]]; auto|]. split; [exists [], []; repeat split; intros x []|].
        intros x Gx Hni. exfalso. rewrite getb_upd in Gx.
        destruct (Nat.eq_dec x s) as [->|Hne]; [apply Hni; now left|].
        rewrite (proj2 (Nat.eqb_neq x s) Hne) in Gx. simpl in Gx.
        rewrite getb_repeat_false in Gx. discriminate. }
    simpl in *.
    unfold paths_to in Et. simpl in Et.
    destruct (length vis <=? v); [discriminate|].
    destruct (getb vis v) eqn:Gv; [|discriminate].
    destruct (walk (length vis) e s v []) as [l0|] eqn:Ew; [|discriminate].
    injection Et as <-.
    destruct (walk_sound _ _ _ _ _ _ Ew) as [l1 [T1 ->]]. rewrite app_nil_r.
    destruct HC as [_ [_ [Ds Htp]]].
    destruct (Htp v Gv) as [l2 [T2 [Len _]]].
    rewrite (tp_det _ _ _ _ T1 _ T2), Len.
    destruct l' as [|a t]; [discriminate|]. injection Hh as ->.
    assert (Gs : getb vis s = true).
    { destruct (Htp v Gv) as [l3 [A [_ C]]]. apply C. eapply tp_in_s; eauto. }
    pose proof (chain_dep dep vis (fun x Gx => proj2 (HF x Gx (fun F => F))) t s Hch Gs) as D.
    rewrite Hl, Ds in D. simpl. lia.
  Qed.
End Bfs.

(** the first clause of the property, at full strength *)
Theorem paths_full g s sg : wf g -> s < g_n g ->
  exists p, paths_of g sg s = Ok p /\
    forall v, v < g_n g ->
      match paths_to p v with
      | Ok (Some l) => is_path g s v l /\
                       (sg = SBFS -> forall l', is_path g s v l' -> length l <= length l')
      | Ok None => ~ reach g s v
      | _ => False
      end.
Proof.
  intros W Hs. destruct (paths_correct g W s Hs sg) as [p [E [A [B C]]]].
  exists p. split; auto. intros v Hv.
  destruct (getb (p_vis p) v) eqn:G.
  - apply (A v Hv) in G. destruct (B v Hv G) as [l [El [P _]]]. rewrite El. split; auto.
    intros Hsg l' P'. subst sg. eapply (bfs_fewest_edges g W s Hs p v l); eauto.
  - assert (NR : ~ reach g s v) by (intros R; apply (A v Hv) in R; congruence).
    rewrite (C v Hv NR). exact NR.
Qed.
