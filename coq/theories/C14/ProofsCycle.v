(** C14 — DirectedCycle: terminates, returns a genuine cycle iff one exists. *)
From Algo.C14 Require Import Spec ProofsBasic ProofsTrav.

Section Cycle.
  Variable g : graph.
  Hypothesis W : wf g.
  Let n := g_n g.

  Lemma AL : forall v w, In w (adjv g v) -> w < n.
  Proof. intros v w H. eapply wf_adjv_lt; eauto. Qed.

  (** a walk with at least one edge *)
  Definition reachp (u v : nat) : Prop := exists w, edge_rel g u w /\ reach g w v.

  Definition fin (st : dcst) (u : nat) : Prop :=
    getb (dc_vis st) u = true /\ getb (dc_on st) u = false.

  (** the recursion stack, current vertex first: each entry was entered from the next one *)
  Fixpoint stack_ok (e : list nat) (stk : list nat) : Prop :=
    match stk with
    | a :: (b :: _) as t => getn e a = b /\ edge_rel g b a /\ stack_ok e t
    | _ => True
    end.

  Record Inv (st : dcst) (stk : list nat) : Prop := {
    i_lv : length (dc_vis st) = n;
    i_le : length (dc_edgeTo st) = n;
    i_lo : length (dc_on st) = n;
    i_cyc : dc_cycle st = None;
    i_on : forall u, getb (dc_on st) u = true <-> In u stk;
    i_onvis : forall u, In u stk -> getb (dc_vis st) u = true;
    i_nd : NoDup stk;
    i_stk : stack_ok (dc_edgeTo st) stk;
    i_closed : forall u w, fin st u -> edge_rel g u w -> fin st w;
    i_acyc : forall u, fin st u -> ~ reachp u u }.

  Lemma fin_reach st stk u x : Inv st stk -> fin st u -> reach g u x -> fin st x.
  Proof.
    intros I F R. induction R as [v|a b c E R IH]; auto. apply IH. eapply i_closed; eauto.
  Qed.

  Lemma stack_ok_upd e stk w x : ~ In w stk -> stack_ok e stk -> stack_ok (upd e w x) stk.
  Proof.
    induction stk as [|a [|b t] IH]; simpl; auto.
    intros Hn [H1 [H2 H3]]. split.
    - unfold getn. rewrite nth_upd_other; auto.
    - split; auto. apply IH; auto.
  Qed.

  Lemma stack_ok_tail e a stk : stack_ok e (a :: stk) -> stack_ok e stk.
  Proof. destruct stk; simpl; tauto. Qed.

  Lemma walk_stack e w : forall fuel rest x acc,
      stack_ok e (x :: rest) -> In w (x :: rest) -> length rest <= fuel -> chain g (x :: acc) ->
      exists acc', cyc_walk fuel e w x acc = Some acc' /\ chain g (w :: acc') /\
                   last (w :: acc') w = last (x :: acc) x.
  Proof.
    induction fuel as [|f IH]; intros rest x acc Hs Hin Hl Hc.
    - destruct rest; [|simpl in Hl; lia]. destruct Hin as [ ->|[]].
      simpl. rewrite Nat.eqb_refl. eauto.
    - simpl. destruct (Nat.eqb_spec x w) as [->|Hne]; [eauto|].
      destruct Hin as [->|Hin]; [congruence|].
      destruct rest as [|b rest']; [destruct Hin|].
      destruct Hs as [H1 [H2 H3]]. rewrite H1.
      destruct (IH rest' b (x :: acc)) as [acc' [E [C L]]]; auto.
      { simpl in Hl. lia. }
      { split; auto. }
      exists acc'. split; [exact E|]. split; [exact C|].
      transitivity (last (b :: x :: acc) b); [exact L|].
      change (last (b :: x :: acc) b) with (last (x :: acc) b).
      apply last_cons_default.
  Qed.

  Lemma dc_loop_cycle rec v c : forall ws st,
      dc_cycle st = Some c -> exists sb, dc_loop rec v ws st = Some sb /\ dc_cycle sb = Some c.
  Proof.
    intros [|w ws] st H; simpl.
    - eexists. split; [reflexivity|]. simpl. auto.
    - rewrite H. eauto.
  Qed.

  Definition good (st st' : dcst) (stk : list nat) : Prop :=
    Inv st' stk /\ sub (dc_vis st) (dc_vis st') /\ (forall u, fin st u -> fin st' u) /\
    cf (dc_vis st') <= cf (dc_vis st).

  Definition found (st' : dcst) : Prop := exists c, dc_cycle st' = Some c /\ is_cycle g c.

  Lemma dc_dfs_spec : forall fuel v st stk,
      Inv st stk -> v < n -> getb (dc_vis st) v = false ->
      match stk with p :: _ => getn (dc_edgeTo st) v = p /\ edge_rel g p v | [] => True end ->
      cf (dc_vis st) <= fuel ->
      exists st', dc_dfs (adjv g) fuel v st = Some st' /\
                  ((good st st' stk /\ fin st' v /\ cf (dc_vis st') < cf (dc_vis st)) \/ found st').
  Proof.
    induction fuel as [|f IH]; intros v st stk I Hv Gv Hp Hcf.
    - exfalso. assert (S (cf (upd (dc_vis st) v true)) = cf (dc_vis st)).
      { apply cf_upd; auto. rewrite (i_lv _ _ I). auto. } lia.
    - simpl.
      set (st1 := {| dc_vis := upd (dc_vis st) v true; dc_edgeTo := dc_edgeTo st;
                     dc_on := upd (dc_on st) v true; dc_cycle := dc_cycle st |}).
      assert (Hcf1 : S (cf (dc_vis st1)) = cf (dc_vis st)).
      { simpl. apply cf_upd; auto. rewrite (i_lv _ _ I). auto. }
      assert (Hnotin : ~ In v stk).
      { intros Hi. apply (i_onvis _ _ I) in Hi. congruence. }
      assert (Fin1 : forall u, fin st u -> fin st1 u).
      { intros u [A B]. split; simpl.
        - apply sub_upd. auto.
        - rewrite getb_upd. destruct (Nat.eqb_spec u v) as [->|]; simpl; auto. congruence. }
      assert (Fin1' : forall u, fin st1 u -> fin st u).
      { intros u [A B]. simpl in *. rewrite getb_upd in A, B.
        destruct (Nat.eq_dec u v) as [Heq|Hne].
        - subst u. rewrite Nat.eqb_refl in B. simpl in B.
          rewrite (i_lo _ _ I) in B. destruct (Nat.ltb_spec v n); [discriminate|lia].
        - rewrite (proj2 (Nat.eqb_neq u v) Hne) in A, B. simpl in *. split; auto. }
      assert (I1 : Inv st1 (v :: stk)).
      { destruct I. constructor; simpl; auto.
        - now rewrite upd_length.
        - now rewrite upd_length.
        - intros u. rewrite getb_upd. destruct (Nat.eqb_spec u v) as [->|Hne]; simpl.
          + rewrite i_lo0. destruct (Nat.ltb_spec v n); [|lia]. tauto.
          + rewrite i_on0. split; auto. intros [->|]; auto. congruence.
        - intros u [<-|Hu].
          + rewrite getb_upd, Nat.eqb_refl. simpl. rewrite i_lv0. destruct (Nat.ltb_spec v n); auto; lia.
          + apply sub_upd. auto.
        - constructor; auto.
        - destruct stk as [|p t]; simpl; auto. destruct Hp. auto.
        - intros u w Fu E. apply Fin1. apply Fin1' in Fu. eapply i_closed0; eauto. }
      (* the loop over the remaining neighbours *)
      assert (L : forall ws sa,
                 (forall w, In w ws -> In w (adjv g v)) ->
                 Inv sa (v :: stk) -> cf (dc_vis sa) <= f ->
                 (forall x, In x (adjv g v) -> In x ws \/ fin sa x) ->
                 exists sb, dc_loop (dc_dfs (adjv g) f) v ws sa = Some sb /\
                            ((good sa sb stk /\ fin sb v) \/ found sb)).
      { induction ws as [|w ws IHws]; intros sa Hin Ia Hc Hdone.
        - simpl. eexists. split; [reflexivity|]. left.
          set (sb := {| dc_vis := dc_vis sa; dc_edgeTo := dc_edgeTo sa;
                        dc_on := upd (dc_on sa) v false; dc_cycle := dc_cycle sa |}).
          assert (Onv : getb (dc_on sa) v = true) by (apply (i_on _ _ Ia); now left).
          assert (Visv : getb (dc_vis sa) v = true) by (apply (i_onvis _ _ Ia); now left).
          assert (Fsb : forall u, fin sb u <-> fin sa u \/ u = v).
          { intros u. unfold fin. simpl. rewrite getb_upd.
            destruct (Nat.eqb_spec u v) as [->|Hne]; simpl.
            - rewrite (i_lo _ _ Ia). destruct (Nat.ltb_spec v n); [|lia]. intuition.
            - intuition. }
          assert (Nv : ~ In v stk) by (pose proof (i_nd _ _ Ia) as N; inversion N; auto).
          split; [|apply Fsb; now right].
          unfold good.
          split; [|split; [apply sub_refl|split; [intros u Fu; apply Fsb; now left|unfold sb; simpl; lia]]].
          destruct Ia. constructor; simpl; auto.
          + now rewrite upd_length.
          + intros u. rewrite getb_upd. destruct (Nat.eqb_spec u v) as [->|Hne]; simpl.
            * rewrite i_lo0. destruct (Nat.ltb_spec v n); [|lia]. split; [discriminate|tauto].
            * rewrite i_on0. split; [intros [->|]; [congruence|auto]|intros; now right].
          + intros u Hu. apply i_onvis0. now right.
          + inversion i_nd0; auto.
          + eapply stack_ok_tail; eauto.
          + intros u w Fu E. apply Fsb. left. apply Fsb in Fu. destruct Fu as [Fu| ->].
            * eapply i_closed0; eauto.
            * destruct (Hdone w E) as [[]|Fw]. auto.
          + intros u Fu. apply Fsb in Fu. destruct Fu as [Fu| ->]; auto.
            intros [w [E R]].
            assert (Fw : fin sa w) by (destruct (Hdone w E) as [[]|Fw]; auto).
            assert (Fv : fin sa v).
            { clear -Fw R i_closed0. induction R as [x|a b c E R IH]; auto.
              apply IH. eapply i_closed0; eauto. }
            destruct Fv. congruence.
        - assert (Hin' : forall x, In x ws -> In x (adjv g v)) by (intros x Hx; apply Hin; now right).
          assert (Hwv : In w (adjv g v)) by (apply Hin; now left).
          assert (Hw : w < n) by (eapply AL; eauto).
          simpl. rewrite (i_cyc _ _ Ia).
          destruct (getb (dc_vis sa) w) eqn:Gw; simpl.
          + destruct (getb (dc_on sa) w) eqn:Ow.
            * (* back edge: cycle detected *)
              assert (Hws : In w (v :: stk)) by (apply (i_on _ _ Ia); auto).
              destruct (walk_stack (dc_edgeTo sa) w (length (dc_vis sa)) stk v []) as [acc [E [C La]]]; auto.
              { apply (i_stk _ _ Ia). }
              { rewrite (i_lv _ _ Ia).
                pose proof (i_nd _ _ Ia) as N. inversion N; subst.
                assert (length stk <= n); [|lia].
                rewrite <- (seq_length n 0). apply NoDup_incl_length; auto.
                intros x Hx. apply in_seq. assert (In x (v :: stk)) by now right.
                apply (i_onvis _ _ Ia) in H. apply getb_lt in H. rewrite (i_lv _ _ Ia) in H. lia. }
              { simpl. auto. }
              rewrite E.
              destruct (dc_loop_cycle (dc_dfs (adjv g) f) v (v :: w :: acc) ws
                          {| dc_vis := dc_vis sa; dc_edgeTo := dc_edgeTo sa; dc_on := dc_on sa;
                             dc_cycle := Some (v :: w :: acc) |}) as [sb [Eb Cb]]; auto.
              exists sb. split; auto. right. exists (v :: w :: acc). split; auto.
              exists v, w, acc. split; auto. split.
              -- change (last (v :: w :: acc) v) with (last (w :: acc) v).
                 rewrite (last_cons_default acc w v w). rewrite La. reflexivity.
              -- split; auto.
            * (* already finished *)
              destruct (IHws sa) as [sb [Eb R]]; auto.
              { intros x Hx. destruct (Hdone x Hx) as [[->|Hi]|Fx]; auto. right. split; auto. }
              exists sb. auto.
          + (* tree edge *)
            set (sm0 := {| dc_vis := dc_vis sa; dc_edgeTo := upd (dc_edgeTo sa) w v;
                           dc_on := dc_on sa; dc_cycle := None |}).
            assert (Nws : ~ In w (v :: stk)).
            { intros Hi. apply (i_onvis _ _ Ia) in Hi. congruence. }
            assert (Sk : stack_ok (upd (dc_edgeTo sa) w v) (v :: stk))
              by (apply stack_ok_upd; auto; apply (i_stk _ _ Ia)).
            assert (Im0 : Inv sm0 (v :: stk)).
            { destruct Ia. constructor; auto.
              simpl. now rewrite upd_length. }
            destruct (IH w sm0 (v :: stk) Im0) as [sm [Em R]]; simpl; auto.
            { split; auto. unfold getn. rewrite nth_upd_same; auto. rewrite (i_le _ _ Ia). auto. }
            rewrite Em. destruct R as [[[Im [Sm [Fm Cm]]] [Fw Cw]]|[c [Cc Ic]]].
            * simpl in *.
              destruct (IHws sm) as [sb [Eb R]]; auto; try lia.
              { intros x Hx. destruct (Hdone x Hx) as [[->|Hi]|Fx]; auto. }
              exists sb. split; auto. destruct R as [[[Ib [Sb [Fb Cb]]] Fv]|Fd]; [left|right; auto].
              split; auto. split; auto. split; [eapply sub_trans; eauto|]. split; [auto|lia].
            * destruct (dc_loop_cycle (dc_dfs (adjv g) f) v c ws sm Cc) as [sb [Eb Cb]].
              exists sb. split; auto. right. exists c. auto. }
      destruct (L (adjv g v) st1) as [sb [Eb R]]; auto.
      { lia. }
      exists sb. split; auto. destruct R as [[[Ib [Sb [Fb Cb]]] Fv]|Fd]; [left|right; auto].
      split; [|split; auto; lia].
      split; auto. split; [eapply sub_trans; [apply sub_upd|exact Sb]|]. split; [auto|lia].
  Qed.

  Lemma dc_roots_found c : forall vs st,
      dc_cycle st = Some c -> dc_roots (adjv g) n vs st = Some st.
  Proof.
    induction vs as [|x vs IH]; intros st H; simpl; auto.
    rewrite H, andb_false_r. auto.
  Qed.

  Lemma dc_roots_spec : forall vs st,
      (Inv st [] \/ found st) -> (forall v, In v vs -> v < n) ->
      exists st', dc_roots (adjv g) n vs st = Some st' /\
                  ((Inv st' [] /\ sub (dc_vis st) (dc_vis st') /\
                    (forall v, In v vs -> getb (dc_vis st') v = true)) \/ found st').
  Proof.
    induction vs as [|v vs IH]; intros st HI Hlt; simpl.
    - exists st. split; auto. destruct HI; auto. left. split; auto. split; [apply sub_refl|]. intros v [].
    - assert (Hlt' : forall x, In x vs -> x < n) by (intros x Hx; apply Hlt; now right).
      destruct HI as [I|[c [Cc Ic]]].
      + rewrite (i_cyc _ _ I). rewrite andb_true_r.
        destruct (getb (dc_vis st) v) eqn:Gv; simpl.
        * destruct (IH st (or_introl I) Hlt') as [st' [E R]]. exists st'. split; auto.
          destruct R as [[I' [S' V']]|F]; auto. left. split; auto. split; auto.
          intros x [<-|Hx]; auto.
        * assert (Hvn : v < n) by (apply Hlt; now left).
          assert (Hcfn : cf (dc_vis st) <= n) by (rewrite <- (i_lv _ _ I); apply cf_le_length).
          destruct (dc_dfs_spec n v st [] I Hvn Gv Logic.I Hcfn) as [sm [Em R]].
          rewrite Em.
          destruct R as [[[Im [Sm [Fm Cm]]] [Fv _]]|Fd].
          -- destruct (IH sm (or_introl Im) Hlt') as [st' [E R]]. exists st'. split; auto.
             destruct R as [[I' [S' V']]|F]; auto. left. split; auto.
             split; [eapply sub_trans; eauto|].
             intros x [<-|Hx]; auto. apply S'. destruct Fv. auto.
          -- destruct Fd as [c [Cc Ic]]. exists sm. split; [now apply (dc_roots_found c)|].
             right. exists c. auto.
      + rewrite Cc. rewrite andb_false_r.
        exists st. split; [now apply (dc_roots_found c)|]. right. exists c. auto.
  Qed.

  Theorem dc_correct :
    exists r, directed_cycle g = Ok r /\
              match r with Some c => is_cycle g c | None => acyclic g end.
  Proof.
    unfold directed_cycle. fold n.
    set (st0 := {| dc_vis := repeat false n; dc_edgeTo := repeat 0 n; dc_on := repeat false n;
                   dc_cycle := None |}).
    assert (I0 : Inv st0 []).
    { constructor; simpl; auto using repeat_length.
      all: try (intros u; rewrite getb_repeat_false; split; [discriminate|intros []]).
      all: try (now constructor).
      all: try (intros u w [A _]; simpl in A; rewrite getb_repeat_false in A; discriminate).
      all: try (intros u [A _]; simpl in A; rewrite getb_repeat_false in A; discriminate). }
    destruct (dc_roots_spec (seq 0 n) st0 (or_introl I0)) as [st' [E R]].
    { intros v Hv. apply in_seq in Hv. lia. }
    rewrite E. eexists. split; [reflexivity|].
    destruct R as [[I' [_ V']]|[c [Cc Ic]]].
    - rewrite (i_cyc _ _ I').
      intros c [a [b [t [-> [Hl Hc]]]]].
      destruct Hc as [E1 Hc].
      destruct (edge_rel_lt g a b W E1) as [Ha _]. fold n in Ha.
      assert (Fa : fin st' a).
      { split; [apply V'; apply in_seq; lia|].
        destruct (getb (dc_on st') a) eqn:O; auto. apply (i_on _ _ I') in O. destruct O. }
      apply (i_acyc _ _ I' a Fa). exists b. split; auto.
      pose proof (chain_reach g t b Hc) as R.
      change (last (a :: b :: t) a) with (last (b :: t) a) in Hl.
      rewrite (last_cons_default t b a b) in Hl. now rewrite Hl in R.
    - rewrite Cc. auto.
  Qed.
End Cycle.
