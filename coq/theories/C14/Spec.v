(** C14 — specification vocabulary: edges, reachability, paths, cycles, topological orders,
    spanning forests, shortest paths.  Definitions only. *)
From Algo.C14 Require Export Model Checkers.
From Coq Require Export Permutation Lia.

(** ** well-formed graphs (every graph built by [new_graph]/[add_edge] is well-formed) *)
Definition edge_ok (d : bool) (n : nat) (v : nat) (e : edge) : Prop :=
  e_a e < n /\ e_b e < n /\ (if d then e_a e = v else (e_a e = v \/ e_b e = v)).

Definition wf (g : graph) : Prop :=
  length (g_adj g) = g_n g /\
  forall v e, In e (adj_edges g v) -> edge_ok (g_dir g) (g_n g) v e.

(** ** unweighted view *)
Definition edge_rel (g : graph) (u w : nat) : Prop := In w (adjv g u).

Inductive reach (g : graph) : nat -> nat -> Prop :=
| reach_refl : forall v, reach g v v
| reach_step : forall u v w, edge_rel g u v -> reach g v w -> reach g u w.

(** consecutive vertices joined by edges *)
Fixpoint chain (g : graph) (p : list nat) : Prop :=
  match p with
  | a :: (b :: _) as t => edge_rel g a b /\ chain g t
  | _ => True
  end.

(** [p] = s ... v is a real path of [g] *)
Definition is_path (g : graph) (s v : nat) (p : list nat) : Prop :=
  hd_error p = Some s /\ last p s = v /\ chain g p.

(** a closed walk with at least one edge *)
Definition is_cycle (g : graph) (c : list nat) : Prop :=
  exists a b t, c = a :: b :: t /\ last c a = a /\ chain g c.

Definition acyclic (g : graph) : Prop := forall c, ~ is_cycle g c.

(** every vertex exactly once, every edge forward *)
Definition topological_order (g : graph) (order : list nat) : Prop :=
  Permutation order (seq 0 (g_n g)) /\
  forall u w, edge_rel g u w -> pos_of u order < pos_of w order.

Definition mutually_reachable (g : graph) (v w : nat) : Prop := reach g v w /\ reach g w v.

(** ** weighted view: paths as edge lists *)
Definition gedge (g : graph) (e : edge) : Prop := In e (adj_edges g (e_a e)).

(** [epath g a p v]: the edges of [p] are graph edges chained from [a] to [v] *)
Fixpoint epath (g : graph) (a : nat) (p : list edge) (v : nat) : Prop :=
  match p with
  | [] => a = v
  | e :: t => e_a e = a /\ gedge g e /\ epath g (e_b e) t v
  end.

(** ** undirected edge lists: connectivity, forests *)
Inductive uconn (es : list edge) : nat -> nat -> Prop :=
| uc_refl : forall v, uconn es v v
| uc_edge : forall e, In e es -> uconn es (e_a e) (e_b e)
| uc_sym : forall u v, uconn es u v -> uconn es v u
| uc_trans : forall u v w, uconn es u v -> uconn es v w -> uconn es u w.

(** no edge whose end points stay connected when (one copy of) it is removed *)
Definition forest (es : list edge) : Prop :=
  forall l1 e l2, es = l1 ++ e :: l2 -> ~ uconn (l1 ++ l2) (e_a e) (e_b e).

(** [es] is a spanning forest of the undirected graph [g]: graph edges, acyclic, same
    connectivity as [g] *)
Definition spanning_forest (g : graph) (es : list edge) : Prop :=
  (forall e, In e es -> gedge g e /\ e_a e < g_n g /\ e_b e < g_n g) /\
  forest es /\
  (forall u v, u < g_n g -> v < g_n g -> (uconn es u v <-> reach g u v)).
