(** C14 — basic facts: arrays, well-formedness of constructed graphs, adjacency in terms of the
    edge list, and soundness of the simple checkers (paths, cycles, topological orders). *)
From Algo.C14 Require Import Spec.

(** * arrays *)
Lemma upd_length {A} (l : list A) i x : length (upd l i x) = length l.
Proof. revert i; induction l as [|h t IH]; intros [|i]; simpl; auto. Qed.

Lemma nth_upd_same {A} (l : list A) i x d : i < length l -> nth i (upd l i x) d = x.
Proof.
  revert i; induction l as [|h t IH]; intros [|i] H; simpl in *; try lia; auto.
  apply IH; lia.
Qed.

Lemma nth_upd_other {A} (l : list A) i j x d : i <> j -> nth j (upd l i x) d = nth j l d.
Proof.
  revert i j; induction l as [|h t IH]; intros [|i] [|j] H; simpl; auto; try congruence.
Qed.

Lemma nth_upd {A} (l : list A) i j x d :
  nth j (upd l i x) d = if (j =? i) && (i <? length l) then x else nth j l d.
Proof.
  destruct (Nat.eqb_spec j i) as [->|Hne]; simpl.
  - destruct (Nat.ltb_spec i (length l)) as [Hlt|Hge].
    + now apply nth_upd_same.
    + rewrite !nth_overflow; auto. now rewrite upd_length.
  - apply nth_upd_other; auto.
Qed.

Lemma upd_overflow {A} (l : list A) i x : length l <= i -> upd l i x = l.
Proof.
  revert i; induction l as [|h t IH]; intros [|i] H; simpl in *; auto; try lia.
  f_equal. apply IH. lia.
Qed.

Lemma getb_upd l i j x :
  getb (upd l i x) j = if (j =? i) && (i <? length l) then x else getb l j.
Proof. apply nth_upd. Qed.

Lemma getb_lt l i : getb l i = true -> i < length l.
Proof.
  unfold getb. intros H. destruct (Nat.ltb_spec i (length l)); auto.
  rewrite nth_overflow in H; auto. discriminate.
Qed.

Lemma nth_repeat {A} (x : A) n i d : i < n -> nth i (repeat x n) d = x.
Proof. revert i; induction n; intros [|i] H; simpl; auto; try lia. apply IHn. lia. Qed.

Lemma getb_repeat_false n i : getb (repeat false n) i = false.
Proof.
  unfold getb. destruct (Nat.ltb_spec i n).
  - now apply nth_repeat.
  - apply nth_overflow. now rewrite repeat_length.
Qed.

(** * well-formed graphs *)
Lemma wf_new d n : wf (new_graph d n).
Proof.
  split; simpl.
  - apply repeat_length.
  - intros v e. unfold adj_edges. simpl.
    destruct (Nat.ltb_spec v n).
    + rewrite nth_repeat; auto. intros [].
    + rewrite nth_overflow; [intros []|now rewrite repeat_length].
Qed.

Lemma app_at_length adj i e : length (app_at adj i e) = length adj.
Proof. apply upd_length. Qed.

Lemma app_at_nth adj i e v :
  nth v (app_at adj i e) [] = if (v =? i) && (i <? length adj) then nth i adj [] ++ [e] else nth v adj [].
Proof. unfold app_at. apply nth_upd. Qed.

Lemma wf_add_edge g e : wf g -> wf (add_edge g e).
Proof.
  intros [Hl Ha]. unfold add_edge.
  destruct (Nat.ltb_spec (e_a e) (g_n g)) as [Ha1|]; simpl; [|split; auto].
  destruct (Nat.ltb_spec (e_b e) (g_n g)) as [Hb1|]; simpl; [|split; auto].
  split; simpl.
  - destruct (g_dir g); now rewrite ?app_at_length.
  - intros v e'. unfold adj_edges. simpl.
    destruct (g_dir g) eqn:D.
    + rewrite app_at_nth.
      destruct ((v =? e_a e) && (e_a e <? length (g_adj g))) eqn:C.
      * apply andb_prop in C. destruct C as [C _]. apply Nat.eqb_eq in C. subst v.
        intros H. apply in_app_or in H. destruct H as [H|[<-|[]]].
        -- exact (Ha _ _ H).
        -- repeat split; auto.
      * intros H. exact (Ha _ _ H).
    + rewrite app_at_nth, app_at_length.
      assert (Hold : forall v0 e0, In e0 (nth v0 (app_at (g_adj g) (e_a e) e) []) ->
                                   e_a e0 < g_n g /\ e_b e0 < g_n g /\ (e_a e0 = v0 \/ e_b e0 = v0)).
      { intros v0 e0. rewrite app_at_nth.
        destruct ((v0 =? e_a e) && (e_a e <? length (g_adj g))) eqn:C.
        - apply andb_prop in C. destruct C as [C _]. apply Nat.eqb_eq in C. subst v0.
          intros H. apply in_app_or in H. destruct H as [H|[<-|[]]].
          + exact (Ha _ _ H).
          + repeat split; auto.
        - intros H. exact (Ha _ _ H). }
      destruct ((v =? e_b e) && (e_b e <? length (g_adj g))) eqn:C.
      * apply andb_prop in C. destruct C as [C _]. apply Nat.eqb_eq in C. subst v.
        intros H. apply in_app_or in H. destruct H as [H|[<-|[]]].
        -- now apply Hold.
        -- repeat split; auto.
      * apply Hold.
Qed.

Lemma wf_mk_graph d n es : wf (mk_graph d n es).
Proof.
  unfold mk_graph. generalize (wf_new d n). generalize (new_graph d n).
  induction es as [|e t IH]; simpl; intros g H; auto.
  apply IH. now apply wf_add_edge.
Qed.

Lemma add_edge_n g e : g_n (add_edge g e) = g_n g.
Proof. unfold add_edge. destruct (_ && _); auto. Qed.
Lemma add_edge_dir g e : g_dir (add_edge g e) = g_dir g.
Proof. unfold add_edge. destruct (_ && _); auto. Qed.

Lemma mk_graph_n d n es : g_n (mk_graph d n es) = n.
Proof.
  unfold mk_graph. change n with (g_n (new_graph d n)) at 2. generalize (new_graph d n).
  induction es as [|e t IH]; simpl; intros g; auto. rewrite IH. apply add_edge_n.
Qed.
Lemma mk_graph_dir d n es : g_dir (mk_graph d n es) = d.
Proof.
  unfold mk_graph. change d with (g_dir (new_graph d n)) at 2. generalize (new_graph d n).
  induction es as [|e t IH]; simpl; intros g; auto. rewrite IH. apply add_edge_dir.
Qed.

Lemma wf_adjv_lt g v w : wf g -> In w (adjv g v) -> v < g_n g /\ w < g_n g.
Proof.
  intros [Hl Ha] H. unfold adjv in H. apply in_map_iff in H. destruct H as [e [<- He]].
  assert (Hv : v < g_n g).
  { rewrite <- Hl. unfold adj_edges in He. destruct (Nat.ltb_spec v (length (g_adj g))); auto.
    rewrite nth_overflow in He; auto. destruct He. }
  split; auto. destruct (Ha _ _ He) as [H1 [H2 H3]].
  unfold nbr. destruct (g_dir g); auto. destruct (v =? e_a e); auto.
Qed.

Lemma edge_rel_lt g u w : wf g -> edge_rel g u w -> u < g_n g /\ w < g_n g.
Proof. apply wf_adjv_lt. Qed.

(** adjacency in terms of the edge list given to [mk_graph] *)
Definition edge_valid (n : nat) (e : edge) : Prop := e_a e < n /\ e_b e < n.

Lemma adjv_add_edge g e u w : wf g ->
  (In w (adjv (add_edge g e) u) <->
   In w (adjv g u) \/
   (edge_valid (g_n g) e /\ ((e_a e = u /\ e_b e = w) \/ (g_dir g = false /\ e_b e = u /\ e_a e = w)))).
Proof.
  intros [Hl Ha]. unfold add_edge, edge_valid.
  destruct (Nat.ltb_spec (e_a e) (g_n g)) as [Ha1|Ha1]; simpl; [|intuition lia].
  destruct (Nat.ltb_spec (e_b e) (g_n g)) as [Hb1|Hb1]; simpl; [|intuition lia].
  unfold adjv, adj_edges. simpl.
  destruct (g_dir g) eqn:D.
  - rewrite app_at_nth.
    destruct (Nat.eqb_spec u (e_a e)) as [->|Hne]; simpl.
    + rewrite Hl. destruct (Nat.ltb_spec (e_a e) (g_n g)); [|lia].
      rewrite map_app, in_app_iff. simpl. unfold nbr at 2. intuition (try congruence; try lia).
    + intuition (try congruence; try lia).
  - rewrite app_at_nth, app_at_length, Hl.
    rewrite (proj2 (Nat.ltb_lt _ _) Hb1), andb_true_r.
    rewrite !app_at_nth, Hl, (proj2 (Nat.ltb_lt _ _) Ha1), !andb_true_r.
    unfold nbr.
    destruct (Nat.eqb_spec u (e_b e)) as [->|Hne].
    + rewrite map_app, in_app_iff. simpl.
      destruct (Nat.eqb_spec (e_b e) (e_a e)) as [Heq|Hne2].
      * rewrite Heq. rewrite map_app, in_app_iff. simpl. rewrite Nat.eqb_refl.
        intuition (try congruence; try lia).
      * intuition (try congruence; try lia).
    + destruct (Nat.eqb_spec u (e_a e)) as [->|Hne2].
      * rewrite map_app, in_app_iff. simpl. rewrite Nat.eqb_refl. intuition (try congruence; try lia).
      * intuition (try congruence; try lia).
Qed.

Theorem mk_graph_edge_rel d n es u w :
  edge_rel (mk_graph d n es) u w <->
  exists e, In e es /\ edge_valid n e /\
            ((e_a e = u /\ e_b e = w) \/ (d = false /\ e_b e = u /\ e_a e = w)).
Proof.
  unfold edge_rel, mk_graph.
  assert (G : forall g, wf g -> g_n g = n -> g_dir g = d ->
            (In w (adjv (fold_left add_edge es g) u) <->
             In w (adjv g u) \/ exists e, In e es /\ edge_valid n e /\
               ((e_a e = u /\ e_b e = w) \/ (d = false /\ e_b e = u /\ e_a e = w)))).
  { induction es as [|e t IH]; simpl; intros g Hw Hn Hd.
    - split; [auto|]. intros [H|[e [[] _]]]; auto.
    - rewrite IH; [|now apply wf_add_edge|now rewrite add_edge_n|now rewrite add_edge_dir].
      rewrite adjv_add_edge; auto. rewrite Hn, Hd. split.
      + intros [[H|[Hv H]]|[e' [Hin H]]]; auto.
        * right. exists e. auto.
        * right. exists e'. auto.
      + intros [H|[e' [[<-|Hin] H]]]; auto.
        right. exists e'. auto. }
  rewrite G; [|apply wf_new|reflexivity|reflexivity].
  split; [intros [H|H]; auto|auto].
  exfalso. unfold adjv, adj_edges in H. simpl in H.
  destruct (Nat.ltb_spec u n).
  - rewrite nth_repeat in H; auto.
  - rewrite nth_overflow in H; auto. now rewrite repeat_length.
Qed.

(** * reachability, basic facts *)
Lemma reach_trans g u v w : reach g u v -> reach g v w -> reach g u w.
Proof. induction 1; auto. intros. eapply reach_step; eauto. Qed.

Lemma reach_snoc g u v w : reach g u v -> edge_rel g v w -> reach g u w.
Proof. intros H E. eapply reach_trans; eauto. eapply reach_step; eauto. constructor. Qed.

Lemma reach_lt g u v : wf g -> u < g_n g -> reach g u v -> v < g_n g.
Proof. intros W H R. induction R; auto. apply IHR. eapply edge_rel_lt; eauto. Qed.

(** * simple checkers *)
Lemma has_edge_true g u w : has_edge g u w = true -> edge_rel g u w.
Proof.
  unfold has_edge. intros H. apply andb_prop in H. destruct H as [_ H].
  apply existsb_exists in H. destruct H as [x [H1 H2]]. apply Nat.eqb_eq in H2. now subst.
Qed.

Lemma chain_ok_true g p : chain_ok g p = true -> chain g p.
Proof.
  induction p as [|a [|b t] IH]; simpl; auto.
  intros H. apply andb_prop in H. destruct H as [H1 H2]. split.
  - now apply has_edge_true.
  - now apply IH.
Qed.

Theorem check_path_sound g s v p : check_path g s v p = true -> is_path g s v p.
Proof.
  unfold check_path, is_path. destruct p as [|a t]; [discriminate|].
  intros H. repeat (apply andb_prop in H; destruct H as [H ?]).
  apply Nat.eqb_eq in H. subst a. apply Nat.eqb_eq in H2.
  split; [reflexivity|]. split; auto. now apply chain_ok_true.
Qed.

Theorem check_cycle_sound g c : check_cycle g c = true -> is_cycle g c.
Proof.
  unfold check_cycle, is_cycle. destruct c as [|a [|b t]]; try discriminate.
  intros H. apply andb_prop in H. destruct H as [H1 H2]. apply Nat.eqb_eq in H1.
  exists a, b, t. split; auto. split; auto. now apply chain_ok_true.
Qed.

(** a path proves reachability, and conversely *)
Lemma last_cons_default {A} (l : list A) a d d' : last (a :: l) d = last (a :: l) d'.
Proof. revert a. induction l as [|b t IH]; intros a; simpl; auto. apply IH. Qed.

Lemma chain_reach g p a : chain g (a :: p) -> reach g a (last (a :: p) a).
Proof.
  revert a. induction p as [|b t IH]; intros a H.
  - constructor.
  - destruct H as [H1 H2]. eapply reach_step; eauto.
    change (last (a :: b :: t) a) with (last (b :: t) a).
    rewrite (last_cons_default t b a b). now apply IH.
Qed.

Lemma is_path_reach g s v p : is_path g s v p -> reach g s v.
Proof.
  intros [H1 [H2 H3]]. destruct p as [|a t]; [discriminate|]. injection H1 as ->.
  rewrite <- H2. now apply chain_reach.
Qed.

Lemma reach_is_path g s v : reach g s v -> exists p, is_path g s v p.
Proof.
  induction 1 as [v|u v w E R [p [H1 [H2 H3]]]].
  - exists [v]. repeat split.
  - destruct p as [|a t]; [discriminate|]. injection H1 as ->.
    exists (u :: v :: t). split; [reflexivity|]. split.
    + rewrite <- H2. change (last (u :: v :: t) u) with (last (v :: t) u). apply last_cons_default.
    + split; auto.
Qed.

Lemma nodupb_true l : nodupb l = true -> NoDup l.
Proof.
  induction l as [|x t IH]; simpl; intros H; constructor.
  - apply andb_prop in H. destruct H as [H _]. intros Hin.
    apply negb_true_iff in H. apply Bool.not_true_iff_false in H. apply H.
    apply existsb_exists. exists x. split; auto. apply Nat.eqb_refl.
  - apply IH. apply andb_prop in H. tauto.
Qed.

Theorem check_topo_sound g order : wf g -> check_topo g order = true -> topological_order g order.
Proof.
  unfold check_topo, topological_order. intros W H.
  repeat (apply andb_prop in H; destruct H as [H ?]).
  apply Nat.eqb_eq in H. apply nodupb_true in H1.
  rewrite forallb_forall in H2, H0. split.
  - apply NoDup_Permutation_bis; auto.
    + rewrite seq_length. lia.
    + intros x Hx. apply in_seq. specialize (H2 _ Hx). apply Nat.ltb_lt in H2. lia.
  - intros u w E. destruct (edge_rel_lt _ _ _ W E) as [Hu _].
    specialize (H0 u). rewrite forallb_forall in H0.
    apply Nat.ltb_lt. apply H0; auto. apply in_seq. lia.
Qed.
