(** C14 — Dijkstra (eager, abstract indexed priority queue): for non-negative weights the
    model terminates within its fuel and its PathTo answers pass [check_spt]; hence they are the
    minimum distances with real paths of exactly that weight. *)
From Algo.C14 Require Import Spec ProofsBasic ProofsSpt.
Local Open Scope Z_scope.

(** * the abstract priority queue *)
Lemma pq_min_none q : pq_min q = None -> q = [].
Proof.
  destruct q as [|x t]; auto. simpl. destruct (pq_min t) as [y|]; [|discriminate].
  destruct (snd y <? snd x); discriminate.
Qed.

Lemma pq_min_some q v k : pq_min q = Some (v, k) ->
  In (v, k) q /\ forall i k', In (i, k') q -> k <= k'.
Proof.
  revert v k. induction q as [|[xv xk] t IH]; intros v k H; simpl in H; [discriminate|].
  destruct (pq_min t) as [[yv yk]|] eqn:E.
  - destruct (IH yv yk eq_refl) as [A B]. simpl in H.
    destruct (Z.ltb_spec yk xk); injection H as Hv Hk; subst v k.
    + split; [now right|]. intros i k' [Hx|Hi]; [injection Hx as _ Hx; lia|eauto].
    + split; [now left|]. intros i k' [Hx|Hi]; [injection Hx as _ Hx; lia|].
      specialize (B _ _ Hi). lia.
  - injection H as Hv Hk; subst v k. apply pq_min_none in E. subst t. split; [now left|].
    intros i k' [Hx|[]]. injection Hx as _ Hx. lia.
Qed.

Lemma in_pq_remove q v i k : In (i, k) (pq_remove q v) <-> In (i, k) q /\ i <> v.
Proof.
  unfold pq_remove. rewrite filter_In. simpl. rewrite negb_true_iff, Nat.eqb_neq. tauto.
Qed.

Lemma in_pq_upsert q i k j k' :
  In (j, k') (pq_upsert q i k) <-> (j = i /\ k' = k) \/ (j <> i /\ In (j, k') q).
Proof.
  unfold pq_upsert. destruct (pq_contains q i) eqn:C.
  - unfold pq_change. rewrite in_map_iff. split.
    + intros [[a b] [E Hin]]. simpl in E. destruct (Nat.eqb_spec a i) as [->|Hne].
      * injection E as <- <-. now left.
      * injection E as <- <-. right. auto.
    + intros [[-> ->]|[Hne Hin]].
      * unfold pq_contains in C. apply existsb_exists in C. destruct C as [[a b] [Hin E]].
        simpl in E. apply Nat.eqb_eq in E. subst a. exists (i, b). simpl. rewrite Nat.eqb_refl. auto.
      * exists (j, k'). simpl. rewrite (proj2 (Nat.eqb_neq j i) Hne). auto.
  - unfold pq_insert. rewrite in_app_iff. simpl. split.
    + intros [Hin|[E|[]]].
      * right. split; auto. intros ->.
        assert (pq_contains q i = true); [|congruence].
        unfold pq_contains. apply existsb_exists. exists (i, k'). simpl. rewrite Nat.eqb_refl. auto.
      * injection E as <- <-. now left.
    + intros [[-> ->]|[Hne Hin]]; auto.
Qed.

(** * tree paths through [edgeTo] *)
Lemma edge_eqb_refl e : edge_eqb e e = true.
Proof. unfold edge_eqb. now rewrite !Nat.eqb_refl, Z.eqb_refl. Qed.

Lemma edge_eqb_neq e f : e <> f -> edge_eqb e f = false.
Proof.
  intros H. destruct (edge_eqb e f) eqn:E; auto. apply edge_eqb_eq in E. contradiction.
Qed.

Inductive tpe (eT : list edge) (s : nat) : nat -> list edge -> Prop :=
| tpe_root : nth s eT zero_edge = zero_edge -> tpe eT s s []
| tpe_step : forall v e p, nth v eT zero_edge = e -> e <> zero_edge ->
                           tpe eT s (e_a e) p -> tpe eT s v (p ++ [e]).

Lemma spt_walk_tpe eT s : forall v p, tpe eT s v p -> forall fuel acc,
      (length p <= fuel)%nat -> spt_walk fuel eT (nth v eT zero_edge) acc = Some (p ++ acc).
Proof.
  induction 1 as [H0|v e p Hn Hz H IH]; intros fuel acc Hl.
  - rewrite H0. destruct fuel; simpl; reflexivity.
  - rewrite Hn. rewrite app_length in Hl. simpl in Hl.
    destruct fuel as [|f]; [lia|]. simpl. rewrite (edge_eqb_neq _ _ Hz).
    rewrite IH; [|lia]. now rewrite <- app_assoc.
Qed.

Lemma tpe_upd eT s w x : forall v p, tpe eT s v p -> v <> w -> s <> w ->
      (forall e, In e p -> e_a e <> w) -> tpe (upd eT w x) s v p.
Proof.
  induction 1 as [H0|v e p Hn Hz H IH]; intros Hv Hs Hp.
  - constructor. rewrite nth_upd_other; auto.
  - constructor; auto.
    + rewrite nth_upd_other; auto.
    + apply IH; auto.
      * apply Hp. apply in_or_app. right. now left.
      * intros e' He'. apply Hp. apply in_or_app. now left.
Qed.

Lemma epath_snoc g : forall p a v e, epath g a p v -> e_a e = v -> gedge g e -> epath g a (p ++ [e]) (e_b e).
Proof.
  induction p as [|x t IH]; intros a v e H Ea Ge; simpl in *.
  - subst. auto.
  - destruct H as [H1 [H2 H3]]. split; auto. split; auto. eapply IH; eauto.
Qed.

Lemma weight_snoc p e : weight_of (p ++ [e]) = weight_of p + e_w e.
Proof. induction p as [|x t IH]; simpl; lia. Qed.

Lemma epath_echain g : wf g -> forall p a v, epath g a p v -> echain g a p v = true.
Proof.
  intros W. induction p as [|e t IH]; intros a v H; simpl in *.
  - now apply Nat.eqb_eq.
  - destruct H as [H1 [H2 H3]]. rewrite (proj2 (Nat.eqb_eq _ _) H1). simpl.
    rewrite (IH _ _ H3), andb_true_r. unfold edge_in.
    destruct (gedge_lt g e W H2) as [A _]. rewrite (proj2 (Nat.ltb_lt _ _) A). simpl.
    apply existsb_exists. exists e. split; auto. apply edge_eqb_refl.
Qed.

Lemma geto_upd l i j x : (i < length l)%nat ->
  geto (upd l i x) j = if (j =? i)%nat then x else geto l j.
Proof.
  intros H. unfold geto. rewrite nth_upd. rewrite (proj2 (Nat.ltb_lt _ _) H), andb_true_r. reflexivity.
Qed.

Lemma geto_lt l i d : geto l i = Some d -> (i < length l)%nat.
Proof.
  unfold geto. intros H. destruct (Nat.ltb_spec i (length l)); auto.
  rewrite nth_overflow in H; auto. discriminate.
Qed.

Lemma edge_eq_dec (e f : edge) : {e = f} + {e <> f}.
Proof. repeat decide equality. Qed.

Section Dij.
  Variable g : graph.
  Hypothesis W : wf g.
  Hypothesis D : g_dir g = true.
  Hypothesis Hnn : forall v e, In e (adj_edges g v) -> 0 <= e_w e.
  Variable s : nat.
  Let n := g_n g.
  Hypothesis Hs : (s < n)%nat.

  Lemma adj_dir v e : In e (adj_edges g v) -> e_a e = v /\ (v < n)%nat /\ (e_b e < n)%nat /\ gedge g e.
  Proof.
    intros H. destruct W as [_ Ha]. destruct (Ha v e H) as [A [B C]]. rewrite D in C.
    subst v. repeat split; auto.
  Qed.

  Record DI (st : spt) (S : list nat) (top : Z) (ex : edge -> Prop) : Prop := {
    d_ld : length (sp_dist st) = n;
    d_le : length (sp_edgeTo st) = n;
    d_pq : forall i k, In (i, k) (sp_pq st) ->
                       (i < n)%nat /\ geto (sp_dist st) i = Some k /\ ~ In i S /\ top <= k;
    d_nd : NoDup S;
    d_S : forall u, In u S -> (u < n)%nat /\ exists du, geto (sp_dist st) u = Some du /\ du <= top;
    d_cover : forall v d, geto (sp_dist st) v = Some d -> In v S \/ exists k, In (v, k) (sp_pq st);
    d_s : geto (sp_dist st) s = Some 0;
    d_root : nth s (sp_edgeTo st) zero_edge = zero_edge;
    d_nonneg : forall v d, geto (sp_dist st) v = Some d -> 0 <= d;
    d_relaxed : forall u du e, In u S -> geto (sp_dist st) u = Some du -> In e (adj_edges g u) -> ~ ex e ->
                               exists dw, geto (sp_dist st) (e_b e) = Some dw /\ dw <= du + e_w e;
    d_tree : forall v d, geto (sp_dist st) v = Some d ->
        exists p S1 S2, tpe (sp_edgeTo st) s v p /\ epath g s p v /\ weight_of p = d /\
                        S = S1 ++ S2 /\ ~ In v S2 /\ (In v S -> In v S1) /\
                        (forall e, In e p -> In (e_a e) S2) /\ (length p <= length S2)%nat }.

  Lemma DI_ex st S top ex ex' : (forall x, ~ ex' x -> ~ ex x) -> DI st S top ex -> DI st S top ex'.
  Proof. intros H [A B C D0 E F G0 H0 I J K]. constructor; auto. intros. eapply J; eauto. Qed.

  (** relaxing one edge of the current vertex [v] (already moved to the settled list) *)
  Lemma relax_ok st S top ex ex' v e :
    DI st S top ex -> In v S -> geto (sp_dist st) v = Some top -> In e (adj_edges g v) ->
    (forall x, ~ ex' x -> ~ ex x \/ x = e) ->
    DI (dij_relax st e) S top ex' /\ geto (sp_dist (dij_relax st e)) v = Some top.
  Proof.
    intros I Hv Dv He Hex.
    destruct (adj_dir v e He) as [Ea [Hvn [Hb Ge]]].
    pose proof (Hnn v e He) as Hw.
    unfold dij_relax. rewrite Ea, Dv.
    destruct (lt_inf (top + e_w e) (geto (sp_dist st) (e_b e))) eqn:Lt.
    - (* the edge improves e_b e *)
      set (b := e_b e) in *. set (d := top + e_w e) in *.
      assert (Top0 : 0 <= top) by (eapply (d_nonneg _ _ _ _ I); eauto).
      assert (HbS : ~ In b S).
      { intros Hi. destruct (d_S _ _ _ _ I b Hi) as [_ [db [Db Le]]].
        rewrite Db in Lt. simpl in Lt. apply Z.ltb_lt in Lt. unfold d in Lt. lia. }
      assert (Hbs : b <> s).
      { intros E. rewrite E, (d_s _ _ _ _ I) in Lt. simpl in Lt. apply Z.ltb_lt in Lt. unfold d in Lt. lia. }
      assert (Hbv : b <> v) by (intros E; apply HbS; now rewrite E).
      assert (Lb : (b < length (sp_dist st))%nat) by (rewrite (d_ld _ _ _ _ I); auto).
      assert (Gd : forall x, geto (upd (sp_dist st) b (Some d)) x =
                             if (x =? b)%nat then Some d else geto (sp_dist st) x).
      { intros x. apply geto_upd. auto. }
      split; [|simpl; rewrite Gd, (proj2 (Nat.eqb_neq v b)); auto].
      constructor; simpl.
      + rewrite upd_length. apply (d_ld _ _ _ _ I).
      + rewrite upd_length. apply (d_le _ _ _ _ I).
      + intros i k Hin. apply in_pq_upsert in Hin. rewrite Gd.
        destruct Hin as [[-> ->]|[Hne Hin]].
        * rewrite Nat.eqb_refl. repeat split; auto. unfold d. lia.
        * rewrite (proj2 (Nat.eqb_neq i b) Hne). apply (d_pq _ _ _ _ I); auto.
      + apply (d_nd _ _ _ _ I).
      + intros u Hu. destruct (d_S _ _ _ _ I u Hu) as [A [du [B C]]]. split; auto.
        exists du. rewrite Gd. rewrite (proj2 (Nat.eqb_neq u b)); [auto|]. intros ->. auto.
      + intros x dx. rewrite Gd. destruct (Nat.eqb_spec x b) as [->|Hne].
        * intros _. right. exists d. apply in_pq_upsert. now left.
        * intros Hx. destruct (d_cover _ _ _ _ I x dx Hx) as [A|[k A]]; auto.
          right. exists k. apply in_pq_upsert. right. auto.
      + rewrite Gd. rewrite (proj2 (Nat.eqb_neq s b)); [|auto]. apply (d_s _ _ _ _ I).
      + rewrite nth_upd_other; auto. apply (d_root _ _ _ _ I).
      + intros x dx. rewrite Gd. destruct (Nat.eqb_spec x b).
        * intros E. injection E as <-. unfold d. lia.
        * apply (d_nonneg _ _ _ _ I).
      + intros u du e' Hu Du He' Nex. rewrite Gd in Du.
        assert (Hub : u <> b) by (intros ->; auto).
        rewrite (proj2 (Nat.eqb_neq u b) Hub) in Du. rewrite Gd.
        destruct (Hex e' Nex) as [Nold| ->].
        * destruct (d_relaxed _ _ _ _ I u du e' Hu Du He' Nold) as [dw [Dw Le]].
          destruct (Nat.eqb_spec (e_b e') b) as [Eb|Nb].
          -- exists d. split; auto. rewrite Eb in Dw. fold b in Dw. rewrite Dw in Lt. simpl in Lt.
             apply Z.ltb_lt in Lt. lia.
          -- exists dw. auto.
        * fold b. rewrite Nat.eqb_refl. exists d. split; auto.
          destruct (adj_dir u e He') as [Ea' _]. rewrite Ea in Ea'. subst u.
          rewrite Dv in Du. injection Du as <-. unfold d. lia.
      + intros x dx. rewrite Gd. destruct (Nat.eqb_spec x b) as [->|Hne].
        * intros E. injection E as <-.
          destruct (d_tree _ _ _ _ I v top Dv) as [p [S1 [S2 [T1 [T2 [T3 [T4 [T5 [T6 [T7 T8]]]]]]]]]].
          exists (p ++ [e]), [], S.
          split.
          { constructor.
            - apply nth_upd_same. rewrite (d_le _ _ _ _ I). auto.
            - intros Ez. rewrite Ez in Ea. unfold b in Hbv. rewrite Ez in Hbv.
              unfold e_a, e_b, zero_edge in *. simpl in *. congruence.
            - rewrite Ea. apply tpe_upd; auto.
              intros e' He'. specialize (T7 e' He'). intros E. apply HbS. rewrite T4.
              apply in_or_app. right. now rewrite <- E. }
          split. { fold b. apply epath_snoc with (v := v); auto. }
          split. { rewrite weight_snoc, T3. reflexivity. }
          split. { reflexivity. }
          split. { exact HbS. }
          split. { intros F. destruct (HbS F). }
          split.
          { intros e' He'. apply in_app_or in He'. destruct He' as [He'|[<-|[]]].
            - rewrite T4. apply in_or_app. right. auto.
            - now rewrite Ea. }
          { rewrite app_length. simpl. rewrite T4, app_length.
            assert (length S1 > 0)%nat; [|lia].
            specialize (T6 Hv). destruct S1; [destruct T6|simpl; lia]. }
        * intros Hx.
          destruct (d_tree _ _ _ _ I x dx Hx) as [p [S1 [S2 [T1 [T2 [T3 [T4 [T5 [T6 [T7 T8]]]]]]]]]].
          exists p, S1, S2. split; [|split; [|split; [|split; [|split; [|split; [|split]]]]]]; auto.
          apply tpe_upd; auto.
          intros e' He'. specialize (T7 e' He'). intros E. apply HbS. rewrite T4. apply in_or_app. right. now rewrite <- E.
    - (* no improvement: the edge is already relaxed *)
      split; [|exact Dv].
      destruct I as [A B C D0 E F G0 H0 I0 J K]. constructor; auto.
      intros u du e' Hu Du He' Nex.
      destruct (Hex e' Nex) as [Nold| ->]; [eapply J; eauto|].
      destruct (adj_dir u e He') as [Ea' _]. rewrite Ea in Ea'. subst u.
      rewrite Dv in Du. injection Du as <-.
      destruct (geto (sp_dist st) (e_b e)) as [db|]; [|discriminate].
      simpl in Lt. apply Z.ltb_ge in Lt. exists db. split; auto.
  Qed.

  Lemma relax_all v : forall es st S top,
      DI st S top (fun x => In x es) -> In v S -> geto (sp_dist st) v = Some top ->
      (forall e, In e es -> In e (adj_edges g v)) ->
      DI (fold_left dij_relax es st) S top (fun _ => False) /\
      geto (sp_dist (fold_left dij_relax es st)) v = Some top.
  Proof.
    induction es as [|e t IH]; intros st S top I Hv Dv Hin; simpl.
    - split; auto.
    - destruct (relax_ok st S top (fun x => In x (e :: t)) (fun x => In x t) v e) as [I' Dv']; auto.
      { apply Hin. now left. }
      { intros x Nx. destruct (edge_eq_dec x e) as [->|NE]; auto. left. intros [E|Hi]; auto. }
      apply IH; auto. intros x Hx. apply Hin. now right.
  Qed.

  (** extracting the minimum: it joins the settled list *)
  Lemma extract_ok st S top v k :
    DI st S top (fun _ => False) -> pq_min (sp_pq st) = Some (v, k) ->
    DI {| sp_edgeTo := sp_edgeTo st; sp_dist := sp_dist st; sp_pq := pq_remove (sp_pq st) v |}
       (v :: S) k (fun x => In x (adj_edges g v)) /\
    geto (sp_dist st) v = Some k /\ ~ In v S /\ (v < n)%nat.
  Proof.
    intros I Hm. destruct (pq_min_some _ _ _ Hm) as [Hin Hmin].
    destruct (d_pq _ _ _ _ I v k Hin) as [Hvn [Dv [HvS Htop]]].
    split; [|auto].
    constructor; simpl.
    - apply (d_ld _ _ _ _ I).
    - apply (d_le _ _ _ _ I).
    - intros i k' Hi. apply in_pq_remove in Hi. destruct Hi as [Hi Hne].
      destruct (d_pq _ _ _ _ I i k' Hi) as [A [B [C0 E]]]. repeat split; auto.
      + intros [F|F]; auto.
      + eapply Hmin; eauto.
    - constructor; auto. apply (d_nd _ _ _ _ I).
    - intros u [<-|Hu].
      + split; auto. exists k. split; auto. lia.
      + destruct (d_S _ _ _ _ I u Hu) as [A [du [B C0]]]. split; auto. exists du. split; auto. lia.
    - intros x dx Hx. destruct (d_cover _ _ _ _ I x dx Hx) as [A|[k' A]].
      + left. now right.
      + destruct (Nat.eq_dec x v) as [->|Hne]; [left; now left|].
        right. exists k'. apply in_pq_remove. auto.
    - apply (d_s _ _ _ _ I).
    - apply (d_root _ _ _ _ I).
    - apply (d_nonneg _ _ _ _ I).
    - intros u du e [<-|Hu] Du He Nex; [contradiction|].
      eapply (d_relaxed _ _ _ _ I); eauto.
    - intros x dx Hx.
      destruct (d_tree _ _ _ _ I x dx Hx) as [p [S1 [S2 [T1 [T2 [T3 [T4 [T5 [T6 [T7 T8]]]]]]]]]].
      exists p, (v :: S1), S2.
      split; [auto|]. split; [auto|]. split; [auto|]. split; [simpl; now rewrite T4|].
      split; [auto|]. split; [|auto].
      intros [<-|F]; [now left|right; auto].
  Qed.

  Lemma settled_bound st S top ex : DI st S top ex -> (length S <= n)%nat.
  Proof.
    intros I. rewrite <- (seq_length n 0). apply NoDup_incl_length; [apply (d_nd _ _ _ _ I)|].
    intros u Hu. apply in_seq. destruct (d_S _ _ _ _ I u Hu). lia.
  Qed.

  Lemma dij_loop_ok : forall fuel st S top,
      DI st S top (fun _ => False) -> (n <= fuel + length S)%nat ->
      exists st' S' top', dij_loop g fuel st = Some st' /\
                          DI st' S' top' (fun _ => False) /\ sp_pq st' = [].
  Proof.
    induction fuel as [|f IH]; intros st S top I Hf.
    - simpl. destruct (pq_min (sp_pq st)) as [[v k]|] eqn:Hm.
      + exfalso. destruct (extract_ok st S top v k I Hm) as [I' _].
        pose proof (settled_bound _ _ _ _ I'). simpl in *. lia.
      + exists st, S, top. split; auto. split; auto. now apply pq_min_none.
    - simpl. destruct (pq_min (sp_pq st)) as [[v k]|] eqn:Hm.
      + destruct (extract_ok st S top v k I Hm) as [I' [Dv [HvS Hvn]]].
        destruct (relax_all v (adj_edges g v) _ (v :: S) k I') as [I'' _]; simpl; auto.
        apply (IH _ (v :: S) k I''). simpl. lia.
      + exists st, S, top. split; auto. split; auto. now apply pq_min_none.
  Qed.

  Definition spt_out (t : spt) : list (option (list edge * Z)) :=
    map (fun v => match path_to t v with Ok x => x | _ => None end) (seq 0 n).

  Lemma nth_map_seq' {A} (f : nat -> A) m v d : (v < m)%nat -> nth v (map f (seq 0 m)) d = f v.
  Proof.
    intros H. rewrite (nth_indep _ d (f 0%nat)); [|now rewrite map_length, seq_length].
    rewrite map_nth. now rewrite seq_nth.
  Qed.

  Theorem dijkstra_passes :
    exists t, shortest_path_tree g s = Ok t /\ check_spt g s (spt_out t) = true /\
              forall v, (v < n)%nat -> exists r, path_to t v = Ok r.
  Proof.
    unfold shortest_path_tree. fold n. rewrite (proj2 (Nat.ltb_lt s n) Hs).
    set (st0 := {| sp_edgeTo := repeat zero_edge n; sp_dist := upd (repeat None n) s (Some 0);
                   sp_pq := [(s, 0)] |}).
    assert (G0 : forall x, geto (sp_dist st0) x = if (x =? s)%nat then Some 0 else None).
    { intros x. simpl. rewrite geto_upd; [|now rewrite repeat_length].
      destruct (x =? s)%nat; auto. unfold geto. destruct (Nat.ltb_spec x n).
      - now apply nth_repeat.
      - apply nth_overflow. now rewrite repeat_length. }
    assert (I0 : DI st0 [] 0 (fun _ => False)).
    { constructor.
      - simpl. now rewrite upd_length, repeat_length.
      - simpl. apply repeat_length.
      - intros i k [E|[]]. injection E as <- <-. rewrite G0, Nat.eqb_refl. repeat split; auto. lia.
      - constructor.
      - intros u [].
      - intros x dx. rewrite G0. destruct (Nat.eqb_spec x s) as [->|]; [|discriminate].
        intros E. injection E as <-. right. exists 0. now left.
      - rewrite G0, Nat.eqb_refl. reflexivity.
      - simpl. now apply nth_repeat.
      - intros x dx. rewrite G0. destruct (x =? s)%nat; [|discriminate]. intros E. injection E as <-. lia.
      - intros u du e [].
      - intros x dx. rewrite G0. destruct (Nat.eqb_spec x s) as [->|]; [|discriminate].
        intros E. injection E as <-. exists [], [], [].
        split; [constructor; simpl; now apply nth_repeat|].
        split; [reflexivity|]. split; [reflexivity|]. split; [reflexivity|].
        split; [intros []|]. split; [intros []|]. split; [intros e []|]. simpl. lia. }
    destruct (dij_loop_ok n st0 [] 0 I0) as [t [S [top [E [I Hq]]]]]; [simpl; lia|].
    change (dij_loop g n st0) with (dij_loop g n st0) in E. rewrite E.
    exists t. split; [reflexivity|].
    (* PathTo on the final tree *)
    assert (HP : forall v, (v < n)%nat ->
               match geto (sp_dist t) v with
               | None => path_to t v = Ok None
               | Some d => exists p, path_to t v = Ok (Some (p, d)) /\ epath g s p v /\ weight_of p = d
               end).
    { intros v Hv. unfold path_to. rewrite (d_ld _ _ _ _ I).
      destruct (Nat.leb_spec n v); [lia|].
      destruct (geto (sp_dist t) v) as [d|] eqn:Dv; auto.
      destruct (d_tree _ _ _ _ I v d Dv) as [p [S1 [S2 [T1 [T2 [T3 [T4 [T5 [T6 [T7 T8]]]]]]]]]].
      exists p. rewrite (spt_walk_tpe _ _ _ _ T1 n []).
      - rewrite app_nil_r. auto.
      - pose proof (settled_bound _ _ _ _ I). rewrite T4, app_length in H0. lia. }
    assert (OD : forall v, (v < n)%nat -> out_dist (spt_out t) v = geto (sp_dist t) v).
    { intros v Hv. unfold out_dist, spt_out. rewrite nth_map_seq'; auto.
      specialize (HP v Hv). destruct (geto (sp_dist t) v) as [d|].
      - destruct HP as [p [-> _]]. reflexivity.
      - rewrite HP. reflexivity. }
    split.
    - unfold check_spt. fold n.
      assert (L1 : length (spt_out t) = n) by (unfold spt_out; now rewrite map_length, seq_length).
      rewrite L1, Nat.eqb_refl, (proj2 (Nat.ltb_lt s n) Hs). simpl.
      rewrite (OD s Hs), (d_s _ _ _ _ I). simpl.
      apply andb_true_intro. split.
      + apply forallb_forall. intros u Hu. apply in_seq in Hu.
        apply forallb_forall. intros e He.
        destruct (adj_dir u e He) as [Ea [Hun [Hb Ge]]].
        rewrite (OD u Hun), (OD (e_b e) Hb).
        destruct (geto (sp_dist t) u) as [du|] eqn:Du; auto.
        assert (HuS : In u S).
        { destruct (d_cover _ _ _ _ I u du Du) as [A|[k A]]; auto. rewrite Hq in A. destruct A. }
        destruct (d_relaxed _ _ _ _ I u du e HuS Du He (fun F => F)) as [dw [Dw Le]].
        rewrite Dw. now apply Z.leb_le.
      + apply forallb_forall. intros v Hv. apply in_seq in Hv.
        unfold spt_out. rewrite nth_map_seq'; [|lia].
        assert (Hvn : (v < n)%nat) by lia. specialize (HP v Hvn).
        destruct (geto (sp_dist t) v) as [d|].
        * destruct HP as [p [-> [P1 P2]]]. simpl.
          rewrite (epath_echain g W p s v P1). simpl. now apply Z.eqb_eq.
        * rewrite HP. reflexivity.
    - intros v Hv. specialize (HP v Hv). destruct (geto (sp_dist t) v) as [d|].
      + destruct HP as [p [-> _]]. eauto.
      + rewrite HP. eauto.
  Qed.

  (** clause 7 of the property, at full strength *)
  Theorem dijkstra_correct :
    exists t, shortest_path_tree g s = Ok t /\
      forall v, (v < n)%nat ->
        match path_to t v with
        | Ok (Some (p, dist)) => epath g s p v /\ weight_of p = dist /\
                                 forall p', epath g s p' v -> dist <= weight_of p'
        | Ok None => ~ reach g s v
        | _ => False
        end.
  Proof.
    destruct dijkstra_passes as [t [E [Hc Hok]]]. exists t. split; auto.
    intros v Hv. destruct (check_spt_sound g s _ W Hc) as [_ K]. specialize (K v Hv).
    unfold spt_out in K. rewrite nth_map_seq' in K; auto.
    destruct (Hok v Hv) as [r Er]. rewrite Er in *.
    destruct r as [[p d]|]; auto.
    intros R. destruct (reach_epath g W D s v R) as [p P]. exact (K p P).
  Qed.
End Dij.

(** the adjacency lists of a constructed graph only hold edges of the given list *)
Lemma adj_edges_add g e v x : In x (adj_edges (add_edge g e) v) -> In x (adj_edges g v) \/ x = e.
Proof.
  unfold add_edge. destruct ((e_a e <? g_n g)%nat && (e_b e <? g_n g)%nat); auto.
  unfold adj_edges. simpl. destruct (g_dir g).
  - rewrite app_at_nth. destruct (_ && _)%bool eqn:C; auto.
    apply andb_prop in C. destruct C as [C _]. apply Nat.eqb_eq in C. subst v.
    intros H. apply in_app_or in H. destruct H as [H|[<-|[]]]; auto.
  - rewrite !app_at_nth, app_at_length.
    destruct (Nat.eqb_spec v (e_b e)) as [->|N1]; simpl.
    + destruct (e_b e <? length (g_adj g))%nat; simpl.
      * intros H. apply in_app_or in H. destruct H as [H|[<-|[]]]; auto.
        revert H. destruct (Nat.eqb_spec (e_b e) (e_a e)) as [E|N2]; simpl; auto.
        destruct (e_a e <? length (g_adj g))%nat; auto.
        intros H. apply in_app_or in H. destruct H as [H|[<-|[]]]; auto. rewrite E. auto.
      * destruct (Nat.eqb_spec (e_b e) (e_a e)) as [E|N2]; simpl; auto.
        destruct (e_a e <? length (g_adj g))%nat; auto.
        intros H. apply in_app_or in H. destruct H as [H|[<-|[]]]; auto. rewrite E. auto.
    + destruct (Nat.eqb_spec v (e_a e)) as [->|N2]; simpl; auto.
      destruct (e_a e <? length (g_adj g))%nat; auto.
      intros H. apply in_app_or in H. destruct H as [H|[<-|[]]]; auto.
Qed.

Lemma adj_edges_mk d n es v x : In x (adj_edges (mk_graph d n es) v) -> In x es.
Proof.
  unfold mk_graph.
  assert (G : forall es g, In x (adj_edges (fold_left add_edge es g) v) ->
                           In x (adj_edges g v) \/ In x es).
  { induction es0 as [|e t IH]; intros g0 H; simpl in *; auto.
    destruct (IH _ H) as [A|A]; auto. destruct (adj_edges_add _ _ _ _ A) as [B|B]; auto. }
  intros H. destruct (G es _ H) as [A|A]; auto.
  exfalso. unfold adj_edges in A. simpl in A. destruct (Nat.ltb_spec v n).
  - rewrite nth_repeat in A; auto.
  - rewrite nth_overflow in A; auto. now rewrite repeat_length.
Qed.
