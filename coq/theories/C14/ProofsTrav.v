(** C14 — the three traversals: termination (fuel sufficiency), the visited set, and generic
    invariant rules for the visitor state. Everything here is independent of the graph record:
    [adjf] is any adjacency function whose neighbours are below [n]. *)
From Algo.C14 Require Import Spec ProofsBasic.

Ltac splits := repeat match goal with |- _ /\ _ => split end.

Definition sub (a b : list bool) : Prop := forall i, getb a i = true -> getb b i = true.

Lemma sub_refl a : sub a a. Proof. intros i H; auto. Qed.
Lemma sub_trans a b c : sub a b -> sub b c -> sub a c.
Proof. intros H1 H2 i H. auto. Qed.

Lemma sub_upd vis v : sub vis (upd vis v true).
Proof.
  intros i H. rewrite getb_upd. destruct ((i =? v) && (v <? length vis)); auto.
Qed.

(** number of unvisited vertices *)
Fixpoint cf (l : list bool) : nat :=
  match l with [] => 0 | b :: t => (if b then 0 else 1) + cf t end.

Lemma cf_le_length l : cf l <= length l.
Proof. induction l as [|[] t IH]; simpl; lia. Qed.

Lemma cf_upd l v : getb l v = false -> v < length l -> S (cf (upd l v true)) = cf l.
Proof.
  revert v. induction l as [|b t IH]; intros [|v] H Hl; simpl in *; try lia.
  - unfold getb in H. simpl in H. subst b. reflexivity.
  - unfold getb in H. simpl in H. rewrite <- (IH v); auto; lia.
Qed.

Lemma cf_repeat_false n : cf (repeat false n) = n.
Proof. induction n; simpl; auto. Qed.

Section Trav.
  Context {St : Type}.
  Variables (pre post : nat -> St -> St) (edg : nat -> nat -> St -> St).
  Variable adjf : nat -> list nat.
  Variable n : nat.
  Hypothesis adj_lt : forall v w, In w (adjf v) -> w < n.

  Notation tst := (list bool * St)%type.
  Notation dfs := (dfs pre post edg adjf).
  Notation dfs_loop := (dfs_loop edg).
  Notation scan := (scan pre edg).
  Notation iter_loop := (iter_loop pre post edg adjf).
  Notation iter := (iter pre post edg adjf).

  (** "every vertex visited by this call has all its neighbours visited at the end" *)
  Definition closed_new (old new : list bool) : Prop :=
    forall u, getb new u = true -> getb old u = false -> forall w, In w (adjf u) -> getb new w = true.

  (** ** recursive DFS: visited set (partial correctness) *)
  Lemma dfs_vis_p : forall fuel v (st st' : tst),
      dfs fuel v st = Some st' -> length (fst st) = n -> v < n ->
      length (fst st') = n /\ sub (fst st) (fst st') /\ getb (fst st') v = true /\
      closed_new (fst st) (fst st') /\ cf (fst st') <= cf (upd (fst st) v true).
  Proof.
    induction fuel as [|f IH]; intros v st st' E Hlen Hv; [discriminate|].
    simpl in E.
    set (st1 := (upd (fst st) v true, pre v (snd st))) in *.
    assert (L : forall ws (sa sb : tst),
               (forall w, In w ws -> In w (adjf v)) ->
               dfs_loop (dfs f) v ws sa = Some sb -> length (fst sa) = n ->
               length (fst sb) = n /\ sub (fst sa) (fst sb) /\
               (forall w, In w ws -> getb (fst sb) w = true) /\
               closed_new (fst sa) (fst sb) /\ cf (fst sb) <= cf (fst sa)).
    { induction ws as [|w ws IHws]; intros sa sb Hin El Hl; simpl in El.
      - injection El as <-. splits; auto using sub_refl.
        intros u H1 H2. congruence.
      - destruct (getb (fst sa) w) eqn:Gw.
        + assert (Hin' : forall x, In x ws -> In x (adjf v)) by (intros x Hx; apply Hin; now right).
          destruct (IHws sa sb Hin') as [H1 [H2 [H3 [H4 H5]]]]; auto.
          splits; auto. intros x [<-|Hx]; auto.
        + destruct (dfs f w (fst sa, edg v w (snd sa))) as [sm|] eqn:Em; [|discriminate].
          assert (Hw : w < n) by (apply (adj_lt v); apply Hin; now left).
          destruct (IH w _ sm Em) as [H1 [H2 [H3 [H4 H5]]]]; simpl; auto. simpl in *.
          assert (Hin' : forall x, In x ws -> In x (adjf v)) by (intros x Hx; apply Hin; now right).
          destruct (IHws sm sb Hin') as [H1' [H2' [H3' [H4' H5']]]]; auto.
          split; [auto|]. split; [eapply sub_trans; eauto|].
          split; [intros x [<-|Hx]; auto|]. split.
          * intros u Hu1 Hu2 x Hx.
            destruct (getb (fst sm) u) eqn:Gu.
            -- apply H2'. eapply H4; eauto.
            -- eapply H4'; eauto.
          * assert (S (cf (upd (fst sa) w true)) = cf (fst sa)) by (apply cf_upd; auto; lia). lia. }
    destruct (dfs_loop (dfs f) v (adjf v) st1) as [sb|] eqn:El; [|discriminate].
    injection E as <-. simpl.
    destruct (L (adjf v) st1 sb) as [H1 [H2 [H3 [H4 H5]]]]; auto.
    { unfold st1. simpl. now rewrite upd_length. }
    assert (Gv1 : getb (fst st1) v = true).
    { unfold st1. simpl. rewrite getb_upd, Nat.eqb_refl. simpl.
      destruct (Nat.ltb_spec v (length (fst st))); auto. lia. }
    split; [auto|]. split; [eapply sub_trans; [apply sub_upd|]; exact H2|].
    split; [auto|]. split; [|exact H5].
    - intros u Hu1 Hu2 x Hx.
      destruct (getb (fst st1) u) eqn:Gu.
      + unfold st1 in Gu. simpl in Gu. rewrite getb_upd in Gu.
        destruct (Nat.eqb_spec u v) as [->|Hne]; simpl in Gu; [|congruence].
        now apply H3.
      + eapply H4; eauto.
  Qed.

  (** ** recursive DFS: fuel = number of unvisited vertices suffices *)
  Lemma dfs_term : forall fuel v (st : tst),
      length (fst st) = n -> v < n -> getb (fst st) v = false -> cf (fst st) <= fuel ->
      exists st', dfs fuel v st = Some st'.
  Proof.
    induction fuel as [|f IH]; intros v st Hlen Hv Hunv Hcf.
    - exfalso. assert (S (cf (upd (fst st) v true)) = cf (fst st)) by (apply cf_upd; auto; lia). lia.
    - simpl.
      set (st1 := (upd (fst st) v true, pre v (snd st))).
      assert (Hcf1 : S (cf (fst st1)) = cf (fst st)) by (apply cf_upd; auto; lia).
      assert (L : forall ws (sa : tst),
                 (forall w, In w ws -> In w (adjf v)) ->
                 length (fst sa) = n -> cf (fst sa) <= f ->
                 exists sb, dfs_loop (dfs f) v ws sa = Some sb).
      { induction ws as [|w ws IHws]; intros sa Hin Hl Hc; simpl.
        - eauto.
        - destruct (getb (fst sa) w) eqn:Gw.
          + apply IHws; auto. intros x Hx. apply Hin. now right.
          + assert (Hw : w < n) by (apply (adj_lt v); apply Hin; now left).
            destruct (IH w (fst sa, edg v w (snd sa))) as [sm E]; simpl; auto.
            rewrite E.
            destruct (dfs_vis_p _ _ _ _ E) as [H1 [H2 [H3 [H4 H5]]]]; simpl; auto. simpl in *.
            assert (S (cf (upd (fst sa) w true)) = cf (fst sa)) by (apply cf_upd; auto; lia).
            apply IHws; auto; try lia. }
      destruct (L (adjf v) st1) as [sb E]; auto.
      { unfold st1. simpl. now rewrite upd_length. }
      { lia. }
      rewrite E. eauto.
  Qed.

  (** ** invariant rule for the recursive DFS *)
  Section DfsRule.
    Variable J : tst -> Prop.
    Variable Pv : nat -> tst -> Prop.
    Hypothesis Hpre : forall vis s v,
        J (vis, s) -> length vis = n -> getb vis v = false -> v < n -> Pv v (vis, s) ->
        J (upd vis v true, pre v s).
    Hypothesis Hedge : forall vis s v w,
        J (vis, s) -> length vis = n -> getb vis v = true -> getb vis w = false -> In w (adjf v) ->
        J (vis, edg v w s) /\ Pv w (vis, edg v w s).
    Hypothesis Hpost : forall vis s v,
        J (vis, s) -> length vis = n -> getb vis v = true ->
        (forall w, In w (adjf v) -> getb vis w = true) -> J (vis, post v s).

    Lemma dfs_rule : forall fuel v (st st' : tst),
        dfs fuel v st = Some st' ->
        length (fst st) = n -> v < n -> getb (fst st) v = false ->
        J st -> Pv v st -> J st'.
    Proof.
      induction fuel as [|f IH]; intros v st st' E Hlen Hv Hunv HJ HP; [discriminate|].
      simpl in E.
      set (st1 := (upd (fst st) v true, pre v (snd st))) in *.
      assert (Gv1 : getb (fst st1) v = true).
      { unfold st1. simpl. rewrite getb_upd, Nat.eqb_refl. simpl.
        destruct (Nat.ltb_spec v (length (fst st))); auto. lia. }
      assert (L : forall ws (sa sb : tst),
                 (forall w, In w ws -> In w (adjf v)) ->
                 dfs_loop (dfs f) v ws sa = Some sb ->
                 length (fst sa) = n -> getb (fst sa) v = true -> J sa ->
                 J sb /\ length (fst sb) = n /\ sub (fst sa) (fst sb) /\
                 (forall w, In w ws -> getb (fst sb) w = true)).
      { induction ws as [|w ws IHws]; intros sa sb Hin El Hl Gv HJa; simpl in El.
        - injection El as <-. splits; auto using sub_refl.
        - destruct (getb (fst sa) w) eqn:Gw.
          + assert (Hin' : forall x, In x ws -> In x (adjf v)) by (intros x Hx; apply Hin; now right).
          destruct (IHws sa sb Hin') as [H1 [H2 [H3 H4]]]; auto.
            splits; auto. intros x [<-|Hx]; auto.
          + destruct (dfs f w (fst sa, edg v w (snd sa))) as [sm|] eqn:Em; [|discriminate].
            destruct sa as [visa sa]. simpl in *.
            assert (Hwin : In w (adjf v)) by (apply Hin; now left).
            destruct (Hedge visa sa v w) as [HJe HPe]; auto.
            assert (Hw : w < n) by (apply (adj_lt v); apply Hin; now left).
            assert (HJm : J sm) by (eapply (IH w _ sm Em); simpl; eauto).
            (* visited facts of the recursive call *)
            destruct (dfs_vis_p _ _ _ _ Em) as [Vm1 [Vm2 [Vm3 _]]]; simpl; auto. simpl in *.
            assert (Hin' : forall x, In x ws -> In x (adjf v)) by (intros x Hx; apply Hin; now right).
          destruct (IHws sm sb Hin') as [H1 [H2 [H3 H4]]]; auto.
            split; [auto|]. split; [auto|]. split; [eapply sub_trans; eauto|].
            intros x [<-|Hx]; auto. }
      destruct (dfs_loop (dfs f) v (adjf v) st1) as [sb|] eqn:El; [|discriminate].
      injection E as <-.
      destruct (L (adjf v) st1 sb) as [H1 [H2 [H3 H4]]]; auto.
      { unfold st1. simpl. now rewrite upd_length. }
      { unfold st1. destruct st as [vis s]. simpl in *. apply Hpre; auto. }
      destruct sb as [visb sb]. simpl in *. apply Hpost; auto.
    Qed.
  End DfsRule.

  (** ** iterative traversals (stack: DFSi, queue: BFS) *)
  Lemma in_push q c w x : In x (push q c w) <-> x = w \/ In x c.
  Proof.
    unfold push. destruct q; simpl.
    - rewrite in_app_iff. simpl. intuition.
    - intuition.
  Qed.

  Lemma length_push q c w : length (push q c w) = S (length c).
  Proof. unfold push. destruct q; simpl; auto. rewrite app_length. simpl. lia. Qed.

  Lemma scan_vis q v : forall ws (st : tst) c,
      length (fst st) = n -> (forall w, In w ws -> w < n) ->
      let r := scan q v ws st c in
      length (fst (fst r)) = n /\ sub (fst st) (fst (fst r)) /\
      (forall w, In w ws -> getb (fst (fst r)) w = true) /\
      (forall u, getb (fst (fst r)) u = true -> getb (fst st) u = true \/ In u (snd r)) /\
      (forall x, In x c -> In x (snd r)) /\
      (forall x, In x (snd r) -> In x c \/ getb (fst (fst r)) x = true) /\
      length (snd r) + cf (fst (fst r)) = length c + cf (fst st).
  Proof.
    induction ws as [|w ws IH]; intros st c Hl Hlt; simpl.
    - splits; auto using sub_refl.
    - assert (Hlt' : forall x, In x ws -> x < n) by (intros x Hx; apply Hlt; now right).
      destruct (getb (fst st) w) eqn:Gw.
      + destruct (IH st c) as [H1 [H2 [H3 [H4 [H5 [H6 H7]]]]]]; auto.
        splits; auto. intros x [<-|Hx]; auto.
      + assert (Hw : w < n) by (apply Hlt; now left).
        set (st1 := (upd (fst st) w true, edg v w (pre w (snd st)))).
        destruct (IH st1 (push q c w)) as [H1 [H2 [H3 [H4 [H5 [H6 H7]]]]]]; auto.
        { unfold st1. simpl. now rewrite upd_length. }
        assert (Gw1 : getb (fst st1) w = true).
        { unfold st1. simpl. rewrite getb_upd, Nat.eqb_refl. simpl.
          destruct (Nat.ltb_spec w (length (fst st))); auto. lia. }
        split; [auto|]. split; [eapply sub_trans; [apply sub_upd|]; exact H2|].
        split; [intros x [<-|Hx]; auto|].
        split.
        { intros u Hu. destruct (H4 u Hu) as [G|G]; auto.
          unfold st1 in G. simpl in G. rewrite getb_upd in G.
          destruct (Nat.eqb_spec u w) as [->|Hne]; simpl in G; auto.
          right. apply H5. apply in_push. now left. }
        split; [intros x Hx; apply H5; apply in_push; now right|].
        split.
        { intros x Hx. destruct (H6 x Hx) as [G|G]; auto.
          apply in_push in G. destruct G as [->|G]; auto. }
        rewrite H7, length_push. unfold st1. simpl.
        assert (S (cf (upd (fst st) w true)) = cf (fst st)) by (apply cf_upd; auto; lia). lia.
  Qed.

  (** every vertex that is in the container or gets visited has all its neighbours visited at the end *)
  Lemma iter_loop_vis q : forall fuel (st : tst) c,
      length (fst st) = n -> (forall x, In x c -> x < n /\ getb (fst st) x = true) ->
      length c + cf (fst st) <= fuel ->
      exists st', iter_loop q fuel st c = Some st' /\
                  length (fst st') = n /\ sub (fst st) (fst st') /\
                  (forall u, getb (fst st') u = true -> getb (fst st) u = false \/ In u c ->
                             forall w, In w (adjf u) -> getb (fst st') w = true).
  Proof.
    induction fuel as [|f IH]; intros st c Hl Hc Hf.
    - destruct c; simpl in *; [|lia]. exists st. splits; auto using sub_refl.
      intros u Hu [G|[]]. congruence.
    - destruct c as [|v c']; simpl.
      + exists st. splits; auto using sub_refl. intros u Hu [G|[]]. congruence.
      + destruct (scan_vis q v (adjf v) (fst st, post v (snd st)) c') as [H1 [H2 [H3 [H4 [H5 [H6 H7]]]]]]; auto.
        { apply adj_lt. }
        simpl in *.
        set (r := scan q v (adjf v) (fst st, post v (snd st)) c') in *.
        destruct (IH (fst r) (snd r)) as [st' [E [A [B C]]]]; auto.
        { intros x Hx. destruct (H6 x Hx) as [G|G].
          - destruct (Hc x (or_intror G)) as [G1 G2]. split; auto.
          - split; auto. apply getb_lt in G. lia. }
        { lia. }
        exists st'. split; [exact E|]. split; [auto|]. split; [eapply sub_trans; eauto|].
        intros u Hu Hor x Hx.
        destruct (Nat.eq_dec u v) as [->|Hne].
        * apply B. now apply H3.
        * destruct (getb (fst (fst r)) u) eqn:Gu.
          -- apply (C u Hu); auto. right.
             destruct Hor as [G|[G|G]]; [|congruence|now apply H5].
             destruct (H4 u Gu) as [G'|G']; auto. congruence.
          -- apply (C u Hu); auto.
  Qed.

  Lemma iter_vis q : forall s (st : tst),
      length (fst st) = n -> s < n -> getb (fst st) s = false ->
      exists st', iter q n s st = Some st' /\
                  length (fst st') = n /\ sub (fst st) (fst st') /\ getb (fst st') s = true /\
                  closed_new (fst st) (fst st').
  Proof.
    intros s st Hl Hs Hu. unfold iter.
    assert (Gs : getb (upd (fst st) s true) s = true).
    { rewrite getb_upd, Nat.eqb_refl. simpl. destruct (Nat.ltb_spec s (length (fst st))); auto. lia. }
    destruct (iter_loop_vis q n (upd (fst st) s true, pre s (snd st)) [s]) as [st' [E [A [B C]]]]; simpl.
    - now rewrite upd_length.
    - intros x [<-|[]]. auto.
    - assert (S (cf (upd (fst st) s true)) = cf (fst st)) by (apply cf_upd; auto; lia).
      pose proof (cf_le_length (fst st)). lia.
    - exists st'. split; [exact E|]. split; [auto|]. simpl in *.
      split; [eapply sub_trans; [apply sub_upd|]; exact B|]. split; [now apply B|].
      intros u H1 H2 w Hw. apply (C u H1); auto.
      rewrite getb_upd. destruct (Nat.eqb_spec u s) as [->|Hne]; simpl; auto.
  Qed.

  (** ** invariant rule for the iterative traversals *)
  Section IterRule.
    Variable J : tst -> Prop.
    Hypothesis Hpost : forall vis s v,
        J (vis, s) -> length vis = n -> getb vis v = true -> J (vis, post v s).
    Hypothesis Hvisit : forall vis s v w,
        J (vis, s) -> length vis = n -> getb vis v = true -> getb vis w = false -> In w (adjf v) ->
        J (upd vis w true, edg v w (pre w s)).

    Lemma scan_rule q v : forall ws (st : tst) c,
        (forall w, In w ws -> In w (adjf v)) ->
        length (fst st) = n -> getb (fst st) v = true -> J st -> J (fst (scan q v ws st c)).
    Proof.
      induction ws as [|w ws IH]; intros st c Hin Hl Gv HJ; simpl; auto.
      assert (Hin' : forall x, In x ws -> In x (adjf v)) by (intros x Hx; apply Hin; now right).
      destruct (getb (fst st) w) eqn:Gw; auto.
      apply IH; simpl; auto.
      - now rewrite upd_length.
      - now apply sub_upd.
      - destruct st as [vis s]. simpl in *. apply Hvisit; auto.
    Qed.

    Lemma iter_loop_rule q : forall fuel (st st' : tst) c,
        iter_loop q fuel st c = Some st' ->
        length (fst st) = n -> (forall x, In x c -> getb (fst st) x = true) -> J st -> J st'.
    Proof.
      induction fuel as [|f IH]; intros st st' c E Hl Hc HJ.
      - destruct c; simpl in E; [|discriminate]. now injection E as <-.
      - destruct c as [|v c']; simpl in E; [now injection E as <-|].
        destruct (scan_vis q v (adjf v) (fst st, post v (snd st)) c') as [H1 [H2 [H3 [H4 [H5 [H6 H7]]]]]]; auto.
        { apply adj_lt. }
        simpl in *.
        eapply IH; eauto.
        + intros x Hx. destruct (H6 x Hx) as [G|G]; auto.
        + apply scan_rule; simpl; auto.
          destruct st as [vis s]. simpl in *. apply Hpost; auto.
    Qed.
  End IterRule.
End Trav.
