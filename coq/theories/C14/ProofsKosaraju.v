(** C14 — Kosaraju, second pass: if the processing order puts, for every root r and every vertex w
    that r reaches but that does not reach r, some vertex of w's strongly connected component
    before r, then the ids computed by the DFS passes over that order characterise mutual
    reachability.  (What remains open for the full theorem is that the reverse post-order of the
    reversed graph has this property.) *)
From Algo.C14 Require Import Spec ProofsBasic ProofsTrav ProofsReach ProofsScc.

Section Second.
  Variable g : graph.
  Hypothesis W : wf g.
  Let n := g_n g.
  Variable order : list nat.
  Hypothesis Hlt : forall v, In v order -> v < n.
  Hypothesis Hall : forall v, v < n -> In v order.
  Hypothesis HP : forall l1 r l2, order = l1 ++ r :: l2 ->
      forall w, reach g r w -> ~ reach g w r ->
                exists w', In w' l1 /\ reach g w w' /\ reach g w' w.

  Notation c_post := (fun (_ : nat) (c : comps) => c).
  Notation c_edg := (fun (_ _ : nat) (c : comps) => c).
  Notation cdfs := (dfs cc_pre c_post c_edg (adjv g)).

  Definition kclosed (vis : list bool) : Prop :=
    forall u w, getb vis u = true -> edge_rel g u w -> getb vis w = true.

  Lemma kclosed_reach vis u w : kclosed vis -> reach g u w -> getb vis u = true -> getb vis w = true.
  Proof. intros C R. induction R as [v|a b c E R IH]; auto. intros G. apply IH. eapply C; eauto. Qed.

  Lemma reach_dec u r : u < n -> r < n -> {reach g u r} + {~ reach g u r}.
  Proof.
    intros Hu Hr. destruct (getb (reach_from g u) r) eqn:E.
    - left. now apply reach_from_spec.
    - right. intros R. apply (reach_from_spec g u r W Hu Hr) in R. congruence.
  Qed.

  Definition KI (vis : list bool) (cnt : nat) (ids : list nat) : Prop :=
    length vis = n /\ length ids = n /\ kclosed vis /\
    (forall v, getb vis v = true -> getn ids v < cnt) /\
    (forall v w, getb vis v = true -> getb vis w = true ->
                 (getn ids v = getn ids w <-> mutually_reachable g v w)).

  Lemma k_root vis cnt ids l1 r l2 :
    order = l1 ++ r :: l2 -> (forall x, In x l1 -> getb vis x = true) ->
    KI vis cnt ids -> getb vis r = false ->
    exists vis' ids', cdfs n r (vis, (cnt, ids)) = Some (vis', (cnt, ids')) /\
                      KI vis' (S cnt) ids' /\ sub vis vis' /\ getb vis' r = true.
  Proof.
    intros Eo Hpre [Hlv [Hli [Hcl [Hlt' Hiff]]]] Gr.
    assert (Hr : r < n) by (apply Hlt; rewrite Eo; apply in_or_app; right; now left).
    pose proof (ProofsReach.adj_lt g W) as AL. fold n in AL.
    destruct (dfs_term cc_pre c_post c_edg (adjv g) n AL n r (vis, (cnt, ids))) as [[vis' [cnt' ids']] E];
      simpl; auto.
    { rewrite <- Hlv. apply cf_le_length. }
    destruct (dfs_vis_p _ _ _ _ n AL _ _ _ _ E) as [A [B [C [D _]]]]; simpl in *; auto.
    set (J := fun st : list bool * comps =>
                fst (snd st) = cnt /\ length (snd (snd st)) = n /\ sub vis (fst st) /\
                (forall u, getb vis u = true -> getn (snd (snd st)) u = getn ids u) /\
                (forall u, getb (fst st) u = true -> getb vis u = false ->
                           getn (snd (snd st)) u = cnt /\ reach g r u)).
    assert (HJ : J (vis', (cnt', ids'))).
    { apply (dfs_rule cc_pre c_post c_edg (adjv g) n AL J (fun v _ => reach g r v))
        with (fuel := n) (v := r) (st := (vis, (cnt, ids))); auto.
      - intros vis0 [c0 ids0] v [J1 [J2 [J3 [J4 J5]]]] Hl0 G0 Hv P. simpl in *. subst c0.
        unfold J. simpl. split; auto. split; [now rewrite upd_length|].
        split; [eapply sub_trans; [exact J3|apply sub_upd]|]. split.
        + intros u Gu. unfold getn. rewrite nth_upd_other; [now apply J4|].
          intros ->. apply J3 in Gu. congruence.
        + intros u Gu Gu'. rewrite getb_upd in Gu.
          destruct (Nat.eq_dec u v) as [->|Hne].
          * split; auto. unfold getn. rewrite nth_upd_same; auto. lia.
          * rewrite (proj2 (Nat.eqb_neq u v) Hne) in Gu. simpl in Gu.
            destruct (J5 u Gu Gu') as [K1 K2]. split; auto.
            unfold getn. rewrite nth_upd_other; auto.
      - intros vis0 [c0 ids0] v w J0 Hl0 Gv Gw Hin. split; auto.
        destruct J0 as [J1 [J2 [J3 [J4 J5]]]]. simpl in *.
        destruct (getb vis v) eqn:Gov.
        + exfalso. assert (getb vis w = true) by (eapply Hcl; eauto). apply J3 in H. congruence.
        + destruct (J5 v Gv Gov) as [_ R]. eapply reach_snoc; eauto.
      - unfold J. simpl. split; auto. split; auto. split; [apply sub_refl|]. split; auto.
        intros u G1 G2. congruence.
      - simpl. constructor. }
    destruct HJ as [J1 [J2 [J3 [J4 J5]]]]. simpl in *. subst cnt'.
    exists vis', ids'. split; [exact E|]. split; [|split; auto].
    assert (Cl' : kclosed vis').
    { intros u w Gu Euw. destruct (getb vis u) eqn:Gou.
      - apply B. eapply Hcl; eauto.
      - eapply D; eauto. }
    (* a newly visited vertex reaches the root back: otherwise a vertex of its component was
       processed earlier and the (closed) old visited set would contain it *)
    assert (Back : forall u, getb vis' u = true -> getb vis u = false -> reach g r u /\ reach g u r).
    { intros u Gu Gou. destruct (J5 u Gu Gou) as [_ R]. split; auto.
      assert (Hu : u < n) by (apply getb_lt in Gu; lia).
      destruct (reach_dec u r Hu Hr) as [Y|N]; auto. exfalso.
      destruct (HP l1 r l2 Eo u R N) as [w' [Hin [R1 R2]]].
      assert (getb vis u = true) by (eapply kclosed_reach; eauto). congruence. }
    split; [auto|]. split; [auto|]. split; [auto|]. split.
    - intros v Gv. destruct (getb vis v) eqn:Gov.
      + rewrite J4; auto. specialize (Hlt' v Gov). lia.
      + destruct (J5 v Gv Gov) as [K _]. lia.
    - intros v w Gv Gw. unfold mutually_reachable.
      destruct (getb vis v) eqn:Gov; destruct (getb vis w) eqn:Gow.
      + rewrite !J4; auto. apply (Hiff v w Gov Gow).
      + destruct (J5 w Gw Gow) as [K R]. rewrite K, (J4 v Gov). specialize (Hlt' v Gov). split; [lia|].
        intros [Rvw _]. exfalso.
        assert (getb vis w = true) by (eapply (kclosed_reach vis v w); eauto). congruence.
      + destruct (J5 v Gv Gov) as [K R]. rewrite K, (J4 w Gow). specialize (Hlt' w Gow). split; [lia|].
        intros [_ Rwv]. exfalso.
        assert (getb vis v = true) by (eapply (kclosed_reach vis w v); eauto). congruence.
      + destruct (J5 v Gv Gov) as [K1 _]. destruct (J5 w Gw Gow) as [K2 _]. rewrite K1, K2.
        destruct (Back v Gv Gov) as [B1 B2]. destruct (Back w Gw Gow) as [B3 B4].
        split; auto. intros _. split; eapply reach_trans; eauto.
  Qed.

  Lemma k_loop : forall vs l1 vis cnt ids,
      order = l1 ++ vs -> (forall x, In x l1 -> getb vis x = true) -> KI vis cnt ids ->
      exists vis' cnt' ids',
        roots_loop (cdfs n) cc_after vs (vis, (cnt, ids)) = Some (vis', (cnt', ids')) /\
        KI vis' cnt' ids' /\ (forall x, In x order -> getb vis' x = true).
  Proof.
    induction vs as [|v vs IH]; intros l1 vis cnt ids Eo Hpre HK; simpl.
    - exists vis, cnt, ids. split; auto. split; auto. intros x Hx. apply Hpre.
      now rewrite Eo, app_nil_r in Hx.
    - assert (Eo' : order = (l1 ++ [v]) ++ vs) by (rewrite <- app_assoc; exact Eo).
      destruct (getb vis v) eqn:Gv.
      + apply (IH (l1 ++ [v])); auto. intros x Hx. apply in_app_or in Hx.
        destruct Hx as [Hx|[<-|[]]]; auto.
      + destruct (k_root vis cnt ids l1 v vs Eo Hpre HK Gv) as [vis1 [ids1 [E1 [K1 [S1 G1]]]]].
        rewrite E1. simpl. unfold cc_after at 1. simpl.
        apply (IH (l1 ++ [v])); auto. intros x Hx. apply in_app_or in Hx.
        destruct Hx as [Hx|[<-|[]]]; auto.
  Qed.

  Theorem second_pass_correct :
    exists c, comps_over g order = Ok c /\ length (snd c) = n /\
      forall v w, v < n -> w < n ->
                  getn (snd c) v < fst c /\
                  (getn (snd c) v = getn (snd c) w <-> mutually_reachable g v w).
  Proof.
    unfold comps_over. fold n.
    assert (K0 : KI (repeat false n) 0 (repeat 0 n)).
    { split; [apply repeat_length|]. split; [apply repeat_length|]. split.
      - intros u w G. rewrite getb_repeat_false in G. discriminate.
      - split.
        + intros v G. rewrite getb_repeat_false in G. discriminate.
        + intros v w G. rewrite getb_repeat_false in G. discriminate. }
    destruct (k_loop order [] (repeat false n) 0 (repeat 0 n) eq_refl (fun x (F : In x []) => match F with end) K0)
      as [vis [cnt [ids [E [K V]]]]].
    rewrite E. eexists. split; [reflexivity|]. simpl.
    destruct K as [_ [Hli [_ [Hl Hiff]]]]. split; [exact Hli|]. intros v w Hv Hw.
    assert (Gv : getb vis v = true) by (apply V; auto).
    assert (Gw : getb vis w = true) by (apply V; auto).
    split; [apply Hl; exact Gv|apply Hiff; assumption].
  Qed.
End Second.
