(** C14 — Paths: the three traversals visit exactly the reachable vertices, and [To v]
    reconstructs a real path (termination of the reconstruction loop included). *)
From Algo.C14 Require Import Spec ProofsBasic ProofsTrav.

(** the chain of [edgeTo] links from [v] back to [s], as the list s ... v *)
Inductive tp (e : list nat) (s : nat) : nat -> list nat -> Prop :=
| tp_root : tp e s s [s]
| tp_step : forall v l, v <> s -> tp e s (getn e v) l -> tp e s v (l ++ [v]).

Lemma tp_in_s e s v l : tp e s v l -> In s l.
Proof. induction 1; simpl; auto. apply in_or_app. auto. Qed.

Lemma tp_nonempty e s v l : tp e s v l -> l <> [].
Proof. destruct 1; try discriminate. destruct l; discriminate. Qed.

Lemma tp_last e s v l : tp e s v l -> last l s = v.
Proof. destruct 1; simpl; auto. apply last_last. Qed.

Lemma tp_hd e s v l : tp e s v l -> hd_error l = Some s.
Proof.
  induction 1; simpl; auto. destruct l; simpl in *; auto. discriminate.
Qed.

Lemma tp_upd e s v l w x : tp e s v l -> ~ In w l -> tp (upd e w x) s v l.
Proof.
  induction 1 as [|v l Hne H IH]; intros Hn.
  - constructor.
  - constructor; auto.
    assert (w <> v) by (intros ->; apply Hn; apply in_or_app; right; now left).
    unfold getn. rewrite nth_upd_other; auto.
    apply IH. intros Hin. apply Hn. apply in_or_app. now left.
Qed.

Lemma walk_tp e s : forall v l, tp e s v l -> forall fuel acc,
      length l <= S fuel -> walk fuel e s v acc = Some (l ++ acc).
Proof.
  induction 1 as [|v l Hne H IH]; intros fuel acc Hlen.
  - destruct fuel; simpl; rewrite Nat.eqb_refl; reflexivity.
  - rewrite app_length in Hlen. simpl in Hlen.
    assert (l <> []) by (eapply tp_nonempty; eauto).
    destruct fuel as [|f].
    { destruct l; simpl in *; [congruence|lia]. }
    simpl. destruct (Nat.eqb_spec v s); [congruence|].
    rewrite IH; [|lia]. now rewrite <- app_assoc.
Qed.

Lemma chain_snoc g l a b d : l <> [] -> last l d = a -> chain g l -> edge_rel g a b -> chain g (l ++ [b]).
Proof.
  induction l as [|x [|y t] IH]; intros Hne Hl H E.
  - congruence.
  - simpl in *. subst. auto.
  - destruct H as [H1 H2]. split; auto.
    apply IH; auto. discriminate.
Qed.

Lemma NoDup_snoc {A} (l : list A) w : NoDup l -> ~ In w l -> NoDup (l ++ [w]).
Proof.
  induction 1 as [|x t Hx Ht IH]; intros Hn; simpl.
  - constructor; [intros []|constructor].
  - constructor.
    + intros Hin. apply in_app_or in Hin. destruct Hin as [Hin|[<-|[]]]; auto.
      apply Hn. now left.
    + apply IH. intros Hin. apply Hn. now right.
Qed.

Lemma nodup_bound (l : list nat) n : NoDup l -> (forall x, In x l -> x < n) -> length l <= n.
Proof.
  intros H1 H2. rewrite <- (seq_length n 0). apply NoDup_incl_length; auto.
  intros x Hx. apply in_seq. specialize (H2 x Hx). lia.
Qed.

Section Paths.
  Variable g : graph.
  Hypothesis W : wf g.
  Variable s : nat.
  Hypothesis Hs : s < g_n g.
  Let n := g_n g.

  Lemma adj_lt : forall v w, In w (adjv g v) -> w < n.
  Proof. intros v w H. eapply wf_adjv_lt; eauto. Qed.

  (** tree invariant on (visited, edgeTo) *)
  Definition TI (st : list bool * list nat) : Prop :=
    length (snd st) = n /\
    forall v, getb (fst st) v = true ->
              exists l, tp (snd st) s v l /\ NoDup l /\ (forall x, In x l -> getb (fst st) x = true) /\
                        chain g l.

  Lemma ti_edge vis e v w : TI (vis, e) -> getb vis w = false -> TI (vis, upd e w v).
  Proof.
    intros [Hl H] Gw. split; simpl in *; [now rewrite upd_length|].
    intros u Gu. destruct (H u Gu) as [l [A [B [C D]]]].
    exists l. splits; auto. apply tp_upd; auto.
    intros Hin. specialize (C _ Hin). congruence.
  Qed.

  Lemma ti_mark vis e w :
    TI (vis, e) -> length vis = n -> w < n -> getb vis w = false ->
    (w = s \/ (w <> s /\ getb vis (getn e w) = true /\ edge_rel g (getn e w) w)) ->
    TI (upd vis w true, e).
  Proof.
    intros [Hl H] Hlv Hw Gw Hp. split; auto. simpl in *.
    intros u Gu. rewrite getb_upd in Gu.
    destruct (Nat.eq_dec u w) as [Heq|Hne];
      [subst u; clear Gu | rewrite (proj2 (Nat.eqb_neq u w) Hne) in Gu; simpl in Gu].
    - destruct Hp as [->|[Hne [Gp Ep]]].
      + exists [s]. splits.
        * constructor.
        * constructor; [intros []|constructor].
        * intros x [<-|[]]. rewrite getb_upd, Nat.eqb_refl. simpl.
          destruct (Nat.ltb_spec s (length vis)); auto. lia.
        * simpl. auto.
      + destruct (H _ Gp) as [l [A [B [C D]]]].
        exists (l ++ [w]). splits.
        * constructor; auto.
        * apply NoDup_snoc; auto. intros Hin. specialize (C _ Hin). congruence.
        * intros x Hx. apply in_app_or in Hx. destruct Hx as [Hx|[<-|[]]].
          -- apply sub_upd. auto.
          -- rewrite getb_upd, Nat.eqb_refl. simpl.
             destruct (Nat.ltb_spec w (length vis)); auto. lia.
        * apply (chain_snoc g l (getn e w) w s); auto.
          -- eapply tp_nonempty; eauto.
          -- eapply tp_last; eauto.
    - destruct (H u Gu) as [l [A [B [C D]]]].
      exists l. splits; auto. intros x Hx. apply sub_upd. auto.
  Qed.

  Definition PV (v : nat) (st : list bool * list nat) : Prop :=
    v = s \/ (v <> s /\ getb (fst st) (getn (snd st) v) = true /\ edge_rel g (getn (snd st) v) v).

  Lemma ti_s_visited vis e v : TI (vis, e) -> getb vis v = true -> getb vis s = true.
  Proof.
    intros [_ H] G. destruct (H v G) as [l [A [_ [C _]]]]. apply C. eapply tp_in_s; eauto.
  Qed.

  Lemma pv_after_edge vis e v w :
    TI (vis, e) -> getb vis v = true -> getb vis w = false -> In w (adjv g v) ->
    PV w (vis, upd e w v).
  Proof.
    intros T Gv Gw Hin. right. simpl.
    assert (w <> s).
    { intros ->. rewrite (ti_s_visited _ _ _ T Gv) in Gw. discriminate. }
    assert (Hw : w < n) by (eapply adj_lt; eauto).
    destruct T as [Hl _]. simpl in Hl.
    unfold getn. rewrite nth_upd_same; [|lia]. auto.
  Qed.

  Notation p_pre := (fun (_ : nat) (x : list nat) => x).
  Notation p_edg := (fun (v w : nat) (e : list nat) => upd e w v).

  Lemma trav_paths sg :
    exists vis e,
      traverse p_pre p_pre p_edg (adjv g) sg n s (repeat false n, repeat 0 n) = Some (vis, e) /\
      length vis = n /\ getb vis s = true /\
      closed_new (adjv g) (repeat false n) vis /\ TI (vis, e).
  Proof.
    assert (T0 : TI (repeat false n, repeat 0 n)).
    { split; simpl; [apply repeat_length|]. intros v G. rewrite getb_repeat_false in G. discriminate. }
    assert (L0 : length (repeat false n) = n) by apply repeat_length.
    destruct sg; simpl.
    - (* recursive DFS *)
      destruct (dfs_term p_pre p_pre p_edg (adjv g) n adj_lt n s (repeat false n, repeat 0 n))
        as [[vis e] E]; simpl; auto.
      { apply getb_repeat_false. }
      { rewrite cf_repeat_false. lia. }
      exists vis, e. split; [exact E|].
      destruct (dfs_vis_p _ _ _ _ n adj_lt _ _ _ _ E) as [A [B [C [D _]]]]; simpl; auto.
      simpl in *. splits; auto.
      apply (dfs_rule p_pre p_pre p_edg (adjv g) n adj_lt TI PV) with (fuel := n) (v := s)
                                                                    (st := (repeat false n, repeat 0 n)); auto.
      + intros vis0 e0 v T Hl G Hv P. apply ti_mark; auto.
      + intros vis0 e0 v w T Hl Gv Gw Hin. split.
        * apply ti_edge; auto.
        * apply pv_after_edge; auto.
      + simpl. apply getb_repeat_false.
      + now left.
    - (* iterative DFS *)
      destruct (iter_vis p_pre p_pre p_edg (adjv g) n adj_lt false s (repeat false n, repeat 0 n))
        as [[vis e] [E [A [B [C D]]]]]; simpl; auto.
      { apply getb_repeat_false. }
      exists vis, e. split; [exact E|]. simpl in *. splits; auto.
      unfold iter in E. simpl in E.
      apply (iter_loop_rule p_pre p_pre p_edg (adjv g) n adj_lt TI) with (q := false) (fuel := n)
             (st := (upd (repeat false n) s true, repeat 0 n)) (c := [s]); auto.
      + intros vis0 e0 v w T Hl Gv Gw Hin.
        assert (Hw : w < n) by (eapply adj_lt; eauto).
        apply ti_mark; auto.
        * apply ti_edge; auto.
        * apply (pv_after_edge vis0 e0 v w); auto.
      + simpl. now rewrite upd_length.
      + simpl. intros x [<-|[]]. rewrite getb_upd, Nat.eqb_refl. simpl.
        rewrite repeat_length. destruct (Nat.ltb_spec s n); auto. lia.
      + apply ti_mark; auto. apply getb_repeat_false.
    - (* BFS *)
      destruct (iter_vis p_pre p_pre p_edg (adjv g) n adj_lt true s (repeat false n, repeat 0 n))
        as [[vis e] [E [A [B [C D]]]]]; simpl; auto.
      { apply getb_repeat_false. }
      exists vis, e. split; [exact E|]. simpl in *. splits; auto.
      unfold iter in E. simpl in E.
      apply (iter_loop_rule p_pre p_pre p_edg (adjv g) n adj_lt TI) with (q := true) (fuel := n)
             (st := (upd (repeat false n) s true, repeat 0 n)) (c := [s]); auto.
      + intros vis0 e0 v w T Hl Gv Gw Hin.
        assert (Hw : w < n) by (eapply adj_lt; eauto).
        apply ti_mark; auto.
        * apply ti_edge; auto.
        * apply (pv_after_edge vis0 e0 v w); auto.
      + simpl. now rewrite upd_length.
      + simpl. intros x [<-|[]]. rewrite getb_upd, Nat.eqb_refl. simpl.
        rewrite repeat_length. destruct (Nat.ltb_spec s n); auto. lia.
      + apply ti_mark; auto. apply getb_repeat_false.
  Qed.

  (** a visited set that contains [s] and is closed under edges contains everything reachable *)
  Lemma closed_reach vis : getb vis s = true -> closed_new (adjv g) (repeat false n) vis ->
                           forall v, reach g s v -> getb vis v = true.
  Proof.
    intros Gs Hc v R.
    assert (G : forall a b, reach g a b -> getb vis a = true -> getb vis b = true).
    { clear Gs R. intros a b R. induction R as [a|a b c E R IH]; auto.
      intros Ga. apply IH. apply (Hc a); auto. apply getb_repeat_false. }
    eapply G; eauto.
  Qed.

  Theorem paths_correct sg :
    exists p, paths_of g sg s = Ok p /\
      (forall v, v < n -> (getb (p_vis p) v = true <-> reach g s v)) /\
      (forall v, v < n -> reach g s v ->
                 exists l, paths_to p v = Ok (Some l) /\ is_path g s v l /\ NoDup l) /\
      (forall v, v < n -> ~ reach g s v -> paths_to p v = Ok None).
  Proof.
    destruct (trav_paths sg) as [vis [e [E [Hl [Gs [Hc [He HT]]]]]]].
    unfold paths_of. fold n. rewrite (proj2 (Nat.ltb_lt s n) Hs). rewrite E.
    eexists. split; [reflexivity|]. simpl in *.
    assert (Hpath : forall v, getb vis v = true ->
               exists l, walk n e s v [] = Some l /\ is_path g s v l /\ NoDup l).
    { intros v G. destruct (HT v G) as [l [A [B [C D]]]].
      exists l. split.
      - rewrite (walk_tp e s v l A n []); [now rewrite app_nil_r|].
        assert (length l <= n); [|lia].
        apply nodup_bound; auto. intros x Hx. specialize (C x Hx). apply getb_lt in C. lia.
      - split; auto. split; [eapply tp_hd; eauto|]. split; auto. eapply tp_last; eauto. }
    assert (Hiff : forall v, getb vis v = true <-> reach g s v).
    { intros v. split.
      - intros G. destruct (Hpath v G) as [l [_ [P _]]]. eapply is_path_reach; eauto.
      - apply closed_reach; auto. }
    split; [intros v _; apply Hiff|]. split.
    - intros v Hv R. unfold paths_to. simpl. rewrite Hl.
      destruct (Nat.leb_spec n v); [lia|].
      rewrite (proj2 (Hiff v) R).
      destruct (Hpath v (proj2 (Hiff v) R)) as [l [Wk [P N]]]. rewrite Wk. eauto.
    - intros v Hv NR. unfold paths_to. simpl. rewrite Hl.
      destruct (Nat.leb_spec n v); [lia|].
      destruct (getb vis v) eqn:G; auto. exfalso. apply NR. now apply Hiff.
  Qed.
End Paths.
