(** C14 — Topological: on an acyclic graph the reverse DFS post-order is a topological order. *)
From Algo.C14 Require Import Spec ProofsBasic ProofsTrav ProofsTopo ProofsCycle.

Section RuleStk.
  Context {St : Type}.
  Variables (pre post : nat -> St -> St) (edg : nat -> nat -> St -> St).
  Variable adjf : nat -> list nat.
  Variable n : nat.
  Hypothesis adj_lt : forall v w, In w (adjf v) -> w < n.
  Notation tst := (list bool * St)%type.

  (** invariant rule for the recursive DFS with the (ghost) recursion stack *)
  Variable J : list nat -> tst -> Prop.
  Hypothesis Hpre : forall stk vis s v,
      J stk (vis, s) -> length vis = n -> getb vis v = false -> v < n ->
      match stk with [] => True | p :: _ => In v (adjf p) end ->
      J (v :: stk) (upd vis v true, pre v s).
  Hypothesis Hedge : forall stk vis s v w,
      J (v :: stk) (vis, s) -> length vis = n -> getb vis w = false -> In w (adjf v) ->
      J (v :: stk) (vis, edg v w s).
  Hypothesis Hpost : forall stk vis s v,
      J (v :: stk) (vis, s) -> length vis = n -> getb vis v = true ->
      (forall w, In w (adjf v) -> getb vis w = true) -> J stk (vis, post v s).

  Lemma dfs_rule_stk : forall fuel v stk (st st' : tst),
      dfs pre post edg adjf fuel v st = Some st' ->
      length (fst st) = n -> v < n -> getb (fst st) v = false ->
      match stk with [] => True | p :: _ => In v (adjf p) end ->
      J stk st -> J stk st'.
  Proof.
    induction fuel as [|f IH]; intros v stk st st' E Hlen Hv Hunv Hp HJ; [discriminate|].
    simpl in E.
    set (st1 := (upd (fst st) v true, pre v (snd st))) in *.
    assert (Gv1 : getb (fst st1) v = true).
    { unfold st1. simpl. rewrite getb_upd, Nat.eqb_refl. simpl.
      destruct (Nat.ltb_spec v (length (fst st))); auto. lia. }
    assert (L : forall ws (sa sb : tst),
               (forall w, In w ws -> In w (adjf v)) ->
               dfs_loop edg (dfs pre post edg adjf f) v ws sa = Some sb ->
               length (fst sa) = n -> getb (fst sa) v = true -> J (v :: stk) sa ->
               J (v :: stk) sb /\ length (fst sb) = n /\ sub (fst sa) (fst sb) /\
               (forall w, In w ws -> getb (fst sb) w = true)).
    { induction ws as [|w ws IHws]; intros sa sb Hin El Hl Gv HJa; simpl in El.
      - injection El as <-. split; auto. split; auto. split; [apply sub_refl|]. intros w [].
      - assert (Hin' : forall x, In x ws -> In x (adjf v)) by (intros x Hx; apply Hin; now right).
        destruct (getb (fst sa) w) eqn:Gw.
        + destruct (IHws sa sb Hin') as [H1 [H2 [H3 H4]]]; auto.
          split; auto. split; auto. split; auto. intros x [<-|Hx]; auto.
        + destruct (dfs pre post edg adjf f w (fst sa, edg v w (snd sa))) as [sm|] eqn:Em; [|discriminate].
          destruct sa as [visa sa]. simpl in *.
          assert (Hwin : In w (adjf v)) by (apply Hin; now left).
          assert (Hw : w < n) by (eapply adj_lt; eauto).
          assert (HJm : J (v :: stk) sm).
          { eapply (IH w (v :: stk) _ sm Em); simpl; auto. }
          destruct (dfs_vis_p pre post edg adjf n adj_lt _ _ _ _ Em) as [Vm1 [Vm2 [Vm3 _]]]; simpl; auto.
          simpl in *.
          destruct (IHws sm sb Hin') as [H1 [H2 [H3 H4]]]; auto.
          split; auto. split; auto. split; [eapply sub_trans; eauto|].
          intros x [<-|Hx]; auto. }
    destruct (dfs_loop edg (dfs pre post edg adjf f) v (adjf v) st1) as [sb|] eqn:El; [|discriminate].
    injection E as <-.
    destruct (L (adjf v) st1 sb) as [H1 [H2 [H3 H4]]]; auto.
    { unfold st1. simpl. now rewrite upd_length. }
    { unfold st1. destruct st as [vis s]. simpl in *. apply Hpre; auto. }
    destruct sb as [visb sb]. simpl in *. apply Hpost; auto.
  Qed.
End RuleStk.

Section Orders.
  Variable g : graph.
  Hypothesis W : wf g.
  Hypothesis Acy : acyclic g.
  Let n := g_n g.

  Notation o_edg := (fun (_ _ : nat) (o : orders) => o).
  Notation odfs := (dfs ord_pre ord_post o_edg (adjv g)).

  (** recursion stack, current first: each entry was entered from the next one *)
  Fixpoint sc (stk : list nat) : Prop :=
    match stk with
    | a :: (b :: _) as t => edge_rel g b a /\ sc t
    | _ => True
    end.

  Lemma sc_reach : forall stk a x, sc (a :: stk) -> In x (a :: stk) -> reach g x a.
  Proof.
    induction stk as [|b t IH]; intros a x H [<-|Hx]; try constructor.
    - destruct Hx.
    - destruct H as [E H]. eapply reach_snoc; [|exact E]. apply IH; auto.
  Qed.

  Definition JO (stk : list nat) (st : list bool * orders) : Prop :=
    let vis := fst st in let rp := o_rpost (snd st) in
    (forall u, getb vis u = true -> In u rp \/ In u stk) /\
    (forall u, In u stk -> getb vis u = true /\ ~ In u rp) /\
    NoDup stk /\ sc stk /\
    (forall u, In u rp -> getb vis u = true) /\ NoDup rp /\
    (forall u w, In u rp -> edge_rel g u w -> In w rp /\ pos_of u rp < pos_of w rp).

  Lemma pos_of_cons v x l : pos_of x (v :: l) = if v =? x then 0 else S (pos_of x l).
  Proof. reflexivity. Qed.

  Lemma no_back_edge v w : edge_rel g v w -> reach g w v -> False.
  Proof.
    intros E R. destruct (reach_is_path g w v R) as [p [H1 [H2 H3]]].
    destruct p as [|a t]; [discriminate|]. injection H1 as ->.
    apply (Acy (v :: w :: t)). exists v, w, t. split; auto. split.
    - change (last (v :: w :: t) v) with (last (w :: t) v).
      rewrite (last_cons_default t w v w). exact H2.
    - split; auto.
  Qed.

  Lemma odfs_rule : forall v (st st' : list bool * orders),
      odfs n v st = Some st' -> length (fst st) = n -> v < n -> getb (fst st) v = false ->
      JO [] st -> JO [] st'.
  Proof.
    intros v st st' E Hl Hv Gv HJ.
    apply (dfs_rule_stk ord_pre ord_post o_edg (adjv g) n (AL g W) JO) with (fuel := n) (v := v) (stk := [])
                                                                          (st := st); auto.
    - (* pre *)
      intros stk vis o u [G [S [D [C [R [P T]]]]]] Hlv Gu Hu Hp. unfold JO in *. simpl in *.
      split; [|split; [|split; [|split; [|split; [|split]]]]]; auto.
      + intros x Gx. rewrite getb_upd in Gx.
        destruct (Nat.eq_dec x u) as [->|Hne]; [right; now left|].
        rewrite (proj2 (Nat.eqb_neq x u) Hne) in Gx. simpl in Gx.
        destruct (G x Gx) as [Hi|Hi]; [now left|right; now right].
      + intros x [<-|Hx].
        * split.
          -- rewrite getb_upd, Nat.eqb_refl. simpl. rewrite Hlv. destruct (Nat.ltb_spec u n); auto. lia.
          -- intros Hi. apply R in Hi. congruence.
        * destruct (S x Hx). split; auto. apply sub_upd. auto.
      + constructor; auto. intros Hi. apply S in Hi. destruct Hi. congruence.
      + destruct stk as [|p t]; simpl; auto.
      + intros x Hx. apply sub_upd. auto.
    - (* post *)
      intros stk vis o u [G [S [D [C [R [P T]]]]]] Hlv Gu Hn. unfold JO in *. simpl in *.
      assert (Nu : ~ In u (o_rpost o)) by (apply (S u); now left).
      split; [|split; [|split; [|split; [|split; [|split]]]]].
      + intros x Gx. destruct (G x Gx) as [Hi|[Heq|Hi]]; [left; now right|left; left; exact Heq|right; exact Hi].
      + intros x Hx. destruct (S x (or_intror Hx)) as [A B]. split; auto.
        intros [->|Hi]; auto. inversion D; auto.
      + inversion D; auto.
      + destruct stk as [|p t]; simpl in *; tauto.
      + intros x [<-|Hx]; auto.
      + constructor; auto.
      + assert (Hnb : forall w, edge_rel g u w -> In w (o_rpost o) /\ w <> u).
        { intros w Ew. destruct (G w (Hn w Ew)) as [Hi|Hi].
          - split; auto. intros ->. auto.
          - exfalso. apply (no_back_edge u w Ew). apply (sc_reach stk u w); auto. }
        intros x w [<-|Hx] Ew.
        * destruct (Hnb w Ew) as [Hi Hne]. split; [now right|].
          rewrite ?pos_of_cons, Nat.eqb_refl. rewrite (proj2 (Nat.eqb_neq u w)); [lia|auto].
        * destruct (T x w Hx Ew) as [Hi Hlt]. split; [now right|].
          rewrite ?pos_of_cons.
          rewrite (proj2 (Nat.eqb_neq u x)); [|intros ->; auto].
          rewrite (proj2 (Nat.eqb_neq u w)); [|intros ->; auto]. lia.
  Qed.

  Lemma oroots : forall vs (st : list bool * orders),
      JO [] st -> length (fst st) = n -> (forall v, In v vs -> v < n) ->
      exists st', roots_loop (odfs n) (fun o => o) vs st = Some st' /\
                  JO [] st' /\ length (fst st') = n /\ sub (fst st) (fst st') /\
                  (forall v, In v vs -> getb (fst st') v = true).
  Proof.
    induction vs as [|v vs IH]; intros st HJ Hl Hlt; simpl.
    - exists st. split; auto. split; auto. split; auto. split; [apply sub_refl|]. intros v [].
    - assert (Hlt' : forall x, In x vs -> x < n) by (intros x Hx; apply Hlt; now right).
      destruct (getb (fst st) v) eqn:Gv.
      + destruct (IH st HJ Hl Hlt') as [st' [E [A [B [C D]]]]]. exists st'.
        split; auto. split; auto. split; auto. split; auto. intros x [<-|Hx]; auto.
      + assert (Hv : v < n) by (apply Hlt; now left).
        destruct (dfs_term ord_pre ord_post o_edg (adjv g) n (AL g W) n v st) as [sm Em]; auto.
        { rewrite <- Hl. apply cf_le_length. }
        rewrite Em.
        destruct (dfs_vis_p _ _ _ _ n (AL g W) _ _ _ _ Em) as [V1 [V2 [V3 _]]]; auto.
        assert (Jm : JO [] sm) by (eapply odfs_rule; eauto).
        destruct sm as [vism om]. simpl in *.
        destruct (IH (vism, om) Jm V1 Hlt') as [st' [E [A [B [C D]]]]]. exists st'.
        split; auto. split; auto. split; auto. split; [eapply sub_trans; eauto|].
        intros x [<-|Hx]; auto.
  Qed.

  Theorem orders_topological :
    exists o, orders_of g SDFS = Ok o /\ topological_order g (reverse_post_order o).
  Proof.
    unfold orders_of. fold n. simpl.
    set (o0 := {| o_prerank := repeat 0 n; o_postrank := repeat 0 n; o_rpre := []; o_rpost := [] |}).
    destruct (oroots (seq 0 n) (repeat false n, o0)) as [[vis o] [E [HJ [Hl [_ V]]]]].
    - unfold JO. simpl. split; [|split; [|split; [|split; [|split; [|split]]]]]; auto; try (now constructor).
      all: try (intros u G; rewrite getb_repeat_false in G; discriminate).
      all: try (now intros u []).
      all: try (now intros u w []).
    - apply repeat_length.
    - intros v Hv. apply in_seq in Hv. lia.
    - change (traverse ord_pre ord_post (fun (_ _ : nat) (o : orders) => o) (adjv g) SDFS n)
        with (odfs n).
      rewrite E. exists o. split; auto.
      destruct HJ as [G [_ [_ [_ [R [P T]]]]]]. simpl in *.
      unfold reverse_post_order. split.
      + apply NoDup_Permutation; auto using seq_NoDup.
        intros x. rewrite in_seq. split.
        * intros Hx. apply R in Hx. apply getb_lt in Hx. lia.
        * intros Hx. destruct (G x) as [Hi|[]]; auto. apply V. apply in_seq. lia.
      + intros u w Euw. destruct (edge_rel_lt g u w W Euw) as [Hu _].
        apply T; auto. destruct (G u) as [Hi|[]]; auto. apply V. apply in_seq. fold n in Hu. lia.
  Qed.
End Orders.

(** Topological at full strength *)
Theorem topological_correct g : wf g ->
  exists r, topological g = Ok r /\
            match r with
            | Some (o, _) => topological_order g o /\ acyclic g
            | None => ~ acyclic g
            end.
Proof.
  intros W. unfold topological.
  destruct (dc_correct g W) as [r [E H]]. rewrite E.
  destruct r as [c|].
  - eexists. split; [reflexivity|]. intros A. exact (A c H).
  - destruct (orders_topological g W H) as [o [Eo T]]. rewrite Eo.
    eexists. split; [reflexivity|]. simpl. auto.
Qed.
