(** C14 — Prim: final theorem. *)
From Algo.C14 Require Import Spec ProofsBasic ProofsTrav ProofsSpt ProofsScc ProofsMsf1 ProofsMsf2 ProofsDijkstra ProofsPrim1 ProofsPrim2.

Lemma map_nth_seq {A} (d : A) : forall l, map (fun v => nth v l d) (seq 0 (length l)) = l.
Proof.
  induction l as [|a l IH]; simpl; auto. f_equal.
  rewrite <- seq_shift, map_map. exact IH.
Qed.

Section Final.
  Variable g : graph.
  Hypothesis W : wf g.
  Hypothesis D : g_dir g = false.
  Hypothesis HB : Both g.
  Hypothesis Hsym : forall u w, edge_rel g u w -> edge_rel g w u.
  Let n := g_n g.

  Theorem prim_parts :
    exists f, minimum_spanning_tree g = Ok (f, weight_of f) /\
              (forall e, In e f -> gedge g e /\ e_a e < n /\ e_b e < n) /\
              sf [] f /\
              (forall e, In e (all_edges g) -> uconn (tle (e_w e) f) (e_a e) (e_b e)).
  Proof.
    unfold minimum_spanning_tree. fold n.
    set (st0 := {| m_vis := repeat false n; m_edgeTo := repeat zero_edge n; m_dist := repeat None n;
                   m_pq := [] |}).
    assert (I0 : PI g st0 [] (fun _ => False)).
    { constructor; simpl; try apply repeat_length.
      - intros i k [].
      - intros z k _ H. unfold geto in H. destruct (Nat.ltb_spec z n).
        + rewrite nth_repeat in H; auto. discriminate.
        + rewrite nth_overflow in H; [discriminate|now rewrite repeat_length].
      - intros y e G0. rewrite getb_repeat_false in G0. discriminate.
      - intros z _ _. destruct (Nat.ltb_spec z n).
        + now apply nth_repeat.
        + apply nth_overflow. now rewrite repeat_length.
      - intros e [].
      - exact I.
      - assert (E : forall l, filter nz (map (fmask (repeat false n) (repeat zero_edge n)) l) = []).
        { induction l as [|x l IH]; simpl; auto. unfold fmask at 1. rewrite getb_repeat_false.
          unfold nz at 1. rewrite edge_eqb_refl. simpl. exact IH. }
        rewrite E. constructor.
      - intros c a b G0. rewrite getb_repeat_false in G0. discriminate. }
    destruct (prim_roots_ok g W D HB (seq 0 n) st0 [] I0 eq_refl) as [st [T [E [J [Q [_ V]]]]]].
    { intros v Hv. apply in_seq in Hv. lia. }
    fold n in E. rewrite E.
    set (f := filter (fun e => negb (edge_eqb e zero_edge)) (m_edgeTo st)).
    exists f. split; [reflexivity|].
    (* the ghost tree is a permutation of Edges() *)
    assert (PT : Permutation T f).
    { eapply perm_trans; [apply (p_T3 _ _ _ _ J)|]. fold n.
      assert (Em : map (fmask (m_vis st) (m_edgeTo st)) (seq 0 n) = m_edgeTo st).
      { rewrite <- (map_nth_seq zero_edge (m_edgeTo st)) at 2. rewrite (p_le _ _ _ _ J). fold n.
        apply map_ext_in. intros v Hv. unfold fmask. rewrite (V v Hv). reflexivity. }
      rewrite Em. apply Permutation_refl. }
    assert (InT : forall e, In e f <-> In e T).
    { intros e. split; apply Permutation_in; [apply Permutation_sym|]; exact PT. }
    assert (Rg : forall e, In e T -> gedge g e /\ e_a e < n /\ e_b e < n).
    { intros e He. destruct (p_T1 _ _ _ _ J e He) as [A [B C]]. split; auto.
      apply getb_lt in B, C. rewrite (p_lv _ _ _ _ J) in B, C. auto. }
    split; [|split].
    - intros e He. apply Rg. now apply InT.
    - apply forest_sf. apply (forest_perm (rev T)).
      + eapply perm_trans; [apply Permutation_sym, Permutation_rev|exact PT].
      + apply (sf_forest n).
        * intros e He. apply in_rev in He. destruct (Rg e He) as [_ [A B]]. auto.
        * apply rsf_sf. apply (p_T2 _ _ _ _ J).
    - intros e He. apply all_edges_in in He; auto. destruct He as [v He].
      destruct (adj_und g W D HB v e He) as [Hv [Hw [_ C]]].
      assert (R : lreach g (e_w e) v (nbr false v e)).
      { eapply lr_step; [|constructor]. exists e. split; auto. split; auto. lia. }
      assert (U : uconn (tle (e_w e) T) v (nbr false v e)).
      { apply (p_light _ _ _ _ J); auto; apply V; apply in_seq; fold n; lia. }
      assert (U' : uconn (tle (e_w e) f) v (nbr false v e)).
      { eapply uconn_incl; [|exact U]. intros x Hx. unfold tle in *. apply filter_In in Hx.
        apply filter_In. destruct Hx. split; auto. now apply InT. }
      destruct C as [[A B]|[A B]]; rewrite A, B; auto. now apply uc_sym.
  Qed.

  Theorem prim_correct :
    exists f, minimum_spanning_tree g = Ok (f, weight_of f) /\
              spanning_forest g f /\
              forall f', spanning_forest g f' -> (weight_of f <= weight_of f')%Z.
  Proof.
    destruct prim_parts as [f [E [P1 [P2 P3]]]]. exists f. split; auto.
    now apply (msf_of_parts g W D Hsym f).
  Qed.
End Final.

Theorem prim_correct_mk n es :
  exists f, minimum_spanning_tree (mk_graph false n es) = Ok (f, weight_of f) /\
            spanning_forest (mk_graph false n es) f /\
            forall f', spanning_forest (mk_graph false n es) f' -> (weight_of f <= weight_of f')%Z.
Proof.
  apply prim_correct.
  - apply wf_mk_graph.
  - apply mk_graph_dir.
  - apply both_mk.
  - intros u w. apply mk_graph_sym.
Qed.
