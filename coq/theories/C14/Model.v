(** C14 — executable model of graph/{graph,undirected,directed,weighted_undirected,
    weighted_directed}.go.

    Transcription conventions.
    - Vertices are [nat]; weights are [Z] (the harness uses integer weights <= 2^20, so every
      float64 sum is exact); [math.MaxFloat64] in [distTo] is [None].
    - One graph record covers the four Go graph types: the adjacency list of a vertex holds the
      edge structs exactly as Go appends them (an undirected edge is appended to both
      end points, a self-loop twice to the same list); unweighted edges carry weight 0.
      [AddEdge] ignores edges with an end point out of range, as the Go code does.
    - The three traversals are written once, parametrised by the visitor callbacks
      (state type [St], [pre]/[post]/[edg]); all visitors used by the library return true.
    - [traverseDFS] is recursive in Go; here it runs on fuel (recursion depth). The iterative
      traversals run on fuel (number of pops). [list.Stack] is a list used at its head, and
      [list.Queue] is an abstract FIFO list (the block structure of the real queue is C18's
      subject; chains/stars across the block size 1024 are part of the correspondence).
    - Out-of-fuel is the distinguished result [Hang]/[None]; index-out-of-range is [Panic].
      Fuel sufficiency is proved in Proofs*.v.
    - The indexed binary heap behind Prim/Dijkstra is an abstract indexed priority queue
      (association list; [Delete] extracts the first entry of minimum key). Justification: C05
      proves that the heap returns *an* entry of minimum key; which one among equal keys is
      tie-breaking that no statement of C14 depends on (the theorems about MST/SPT go through
      proved checkers, and the distances are unique). No proofs in this file. *)
From Coq Require Export List ZArith Bool Arith.
Export ListNotations.

Inductive res (A : Type) := Ok (a : A) | Panic | Hang.
Arguments Ok {A} a.
Arguments Panic {A}.
Arguments Hang {A}.

(** * arrays *)
Fixpoint upd {A} (l : list A) (i : nat) (x : A) : list A :=
  match l, i with
  | [], _ => []
  | _ :: t, O => x :: t
  | h :: t, S i' => h :: upd t i' x
  end.

Definition getb (l : list bool) (i : nat) : bool := nth i l false.
Definition getn (l : list nat) (i : nat) : nat := nth i l 0.

(** * graphs *)
Definition edge := (nat * nat * Z)%type.
Definition e_a (e : edge) : nat := fst (fst e).   (* v / from *)
Definition e_b (e : edge) : nat := snd (fst e).   (* w / to *)
Definition e_w (e : edge) : Z := snd e.
Definition zero_edge : edge := (0, 0, 0%Z).
Definition edge_eqb (e f : edge) : bool :=
  (e_a e =? e_a f) && (e_b e =? e_b f) && (e_w e =? e_w f)%Z.

Record graph := { g_dir : bool; g_n : nat; g_adj : list (list edge) }.

Definition new_graph (d : bool) (n : nat) : graph :=
  {| g_dir := d; g_n := n; g_adj := repeat [] n |}.

Definition app_at (adj : list (list edge)) (i : nat) (e : edge) : list (list edge) :=
  upd adj i (nth i adj [] ++ [e]).

(** [AddEdge] *)
Definition add_edge (g : graph) (e : edge) : graph :=
  if (e_a e <? g_n g) && (e_b e <? g_n g) then
    {| g_dir := g_dir g; g_n := g_n g;
       g_adj := if g_dir g then app_at (g_adj g) (e_a e) e
                else app_at (app_at (g_adj g) (e_a e) e) (e_b e) e |}
  else g.

Definition mk_graph (d : bool) (n : nat) (es : list edge) : graph :=
  fold_left add_edge es (new_graph d n).

Definition adj_edges (g : graph) (v : nat) : list edge := nth v (g_adj g) [].

(** [e.Other(v)] for undirected edges (the [-1] branch is unreachable for edges of [adj[v]]),
    [e.To()] for directed ones. *)
Definition nbr (d : bool) (v : nat) (e : edge) : nat :=
  if d then e_b e else if v =? e_a e then e_b e else e_a e.

Definition adjv (g : graph) (v : nat) : list nat := map (nbr (g_dir g) v) (adj_edges g v).

(** [Reverse] *)
Definition reverse (g : graph) : graph :=
  fold_left add_edge
    (flat_map (fun v => map (fun e => (e_b e, e_a e, e_w e)) (adj_edges g v)) (seq 0 (g_n g)))
    (new_graph true (g_n g)).

(** * the three traversals *)
Inductive strat := SDFS | SDFSi | SBFS.

Section Trav.
  Context {St : Type}.
  Variables (pre post : nat -> St -> St) (edg : nat -> nat -> St -> St).
  Variable adjf : nat -> list nat.

  Definition tst := (list bool * St)%type.

  (** the [for _, w := range g.adj[v]] loop of [traverseDFS] *)
  Fixpoint dfs_loop (rec : nat -> tst -> option tst) (v : nat) (ws : list nat) (st : tst)
    : option tst :=
    match ws with
    | [] => Some st
    | w :: ws' =>
        if getb (fst st) w then dfs_loop rec v ws' st
        else match rec w (fst st, edg v w (snd st)) with
             | None => None
             | Some st' => dfs_loop rec v ws' st'
             end
    end.

  Fixpoint dfs (fuel : nat) (v : nat) (st : tst) : option tst :=
    match fuel with
    | O => None
    | S f =>
        match dfs_loop (dfs f) v (adjf v) (upd (fst st) v true, pre v (snd st)) with
        | None => None
        | Some st' => Some (fst st', post v (snd st'))
        end
    end.

  (** [traverseDFSi] (q = false: stack) and [traverseBFS] (q = true: queue); both containers
      are popped at the head of the list. *)
  Definition push (q : bool) (c : list nat) (w : nat) : list nat :=
    if q then c ++ [w] else w :: c.

  Fixpoint scan (q : bool) (v : nat) (ws : list nat) (st : tst) (c : list nat) : tst * list nat :=
    match ws with
    | [] => (st, c)
    | w :: ws' =>
        if getb (fst st) w then scan q v ws' st c
        else scan q v ws' (upd (fst st) w true, edg v w (pre w (snd st))) (push q c w)
    end.

  Fixpoint iter_loop (q : bool) (fuel : nat) (st : tst) (c : list nat) : option tst :=
    match c with
    | [] => Some st
    | v :: c' =>
        match fuel with
        | O => None
        | S f =>
            let r := scan q v (adjf v) (fst st, post v (snd st)) c' in
            iter_loop q f (fst r) (snd r)
        end
    end.

  Definition iter (q : bool) (fuel : nat) (s : nat) (st : tst) : option tst :=
    iter_loop q fuel (upd (fst st) s true, pre s (snd st)) [s].

  (** fuel [n] = number of vertices: recursion depth / number of pops never exceeds it *)
  Definition traverse (sg : strat) (n : nat) (s : nat) (st : tst) : option tst :=
    match sg with
    | SDFS => dfs n s st
    | SDFSi => iter false n s st
    | SBFS => iter true n s st
    end.

  (** [for v := 0; v < g.V(); v++ { if !visited[v] { traverse(v); after } }] and the loop over
      [order] of Kosaraju *)
  Fixpoint roots_loop (trav : nat -> tst -> option tst) (after : St -> St) (vs : list nat)
           (st : tst) : option tst :=
    match vs with
    | [] => Some st
    | v :: vs' =>
        if getb (fst st) v then roots_loop trav after vs' st
        else match trav v st with
             | None => None
             | Some st' => roots_loop trav after vs' (fst st', after (snd st'))
             end
    end.
End Trav.

(** * Traverse with recording visitors (what a caller of the public [Traverse] observes) *)
Inductive event := EPre (v : nat) | EPost (v : nat) | EEdge (v w : nat).

Definition traverse_events (g : graph) (sg : strat) (s : nat) : res (list bool * list event) :=
  if s <? g_n g then
    match traverse (fun v l => EPre v :: l) (fun v l => EPost v :: l) (fun v w l => EEdge v w :: l)
                   (adjv g) sg (g_n g) s (repeat false (g_n g), []) with
    | None => Hang
    | Some (vis, ev) => Ok (vis, rev ev)
    end
  else Ok (repeat false (g_n g), []).

(** * Paths *)
Record paths := { p_s : nat; p_vis : list bool; p_edgeTo : list nat }.

Definition paths_of (g : graph) (sg : strat) (s : nat) : res paths :=
  let n := g_n g in
  if s <? n then
    match traverse (fun _ x => x) (fun _ x => x) (fun v w e => upd e w v) (adjv g) sg n s
                   (repeat false n, repeat 0 n) with
    | None => Hang
    | Some (vis, e) => Ok {| p_s := s; p_vis := vis; p_edgeTo := e |}
    end
  else Ok {| p_s := s; p_vis := repeat false n; p_edgeTo := repeat 0 n |}.

(** [for x := v; x != p.s; x = p.edgeTo[x] { push x }; push s], then pop everything *)
Fixpoint walk (fuel : nat) (e : list nat) (s x : nat) (acc : list nat) : option (list nat) :=
  if x =? s then Some (s :: acc)
  else match fuel with
       | O => None
       | S f => walk f e s (getn e x) (x :: acc)
       end.

Definition paths_to (p : paths) (v : nat) : res (option (list nat)) :=
  if length (p_vis p) <=? v then Panic
  else if getb (p_vis p) v then
    match walk (length (p_vis p)) (p_edgeTo p) (p_s p) v [] with
    | None => Hang
    | Some l => Ok (Some l)
    end
  else Ok None.

(** * Orders (the order lists are kept most-recent-first, so [o_rpost] is ReversePostOrder) *)
Record orders := { o_prerank : list nat; o_postrank : list nat;
                   o_rpre : list nat; o_rpost : list nat }.

Definition ord_pre (v : nat) (o : orders) : orders :=
  {| o_prerank := upd (o_prerank o) v (length (o_rpre o)); o_postrank := o_postrank o;
     o_rpre := v :: o_rpre o; o_rpost := o_rpost o |}.
Definition ord_post (v : nat) (o : orders) : orders :=
  {| o_prerank := o_prerank o; o_postrank := upd (o_postrank o) v (length (o_rpost o));
     o_rpre := o_rpre o; o_rpost := v :: o_rpost o |}.

Definition orders_of (g : graph) (sg : strat) : res orders :=
  let n := g_n g in
  match roots_loop (traverse ord_pre ord_post (fun _ _ o => o) (adjv g) sg n) (fun o => o)
                   (seq 0 n)
                   (repeat false n, {| o_prerank := repeat 0 n; o_postrank := repeat 0 n;
                                       o_rpre := []; o_rpost := [] |}) with
  | None => Hang
  | Some (_, o) => Ok o
  end.

Definition pre_order (o : orders) := rev (o_rpre o).
Definition post_order (o : orders) := rev (o_rpost o).
Definition reverse_post_order (o : orders) := o_rpost o.

(** * ConnectedComponents / StronglyConnectedComponents: (count, id) *)
Definition comps := (nat * list nat)%type.
Definition cc_pre (v : nat) (c : comps) : comps := (fst c, upd (snd c) v (fst c)).
Definition cc_after (c : comps) : comps := (S (fst c), snd c).

Definition comps_over (g : graph) (order : list nat) : res comps :=
  let n := g_n g in
  match roots_loop (dfs cc_pre (fun _ c => c) (fun _ _ c => c) (adjv g) n) cc_after order
                   (repeat false n, (0, repeat 0 n)) with
  | None => Hang
  | Some (_, c) => Ok c
  end.

Definition connected_components (g : graph) : res comps := comps_over g (seq 0 (g_n g)).

Definition strongly_connected_components (g : graph) : res comps :=
  match orders_of (reverse g) SDFS with
  | Ok o => comps_over g (reverse_post_order o)
  | Panic => Panic
  | Hang => Hang
  end.

(** [Components()] *)
Definition components (c : comps) : list (list nat) :=
  map (fun i => filter (fun v => getn (snd c) v =? i) (seq 0 (length (snd c)))) (seq 0 (fst c)).

(** * DirectedCycle *)
Record dcst := { dc_vis : list bool; dc_edgeTo : list nat; dc_on : list bool;
                 dc_cycle : option (list nat) }.

(** [for x := v; x != w; x = c.edgeTo[x] { push x }]: accumulates most-recent-first *)
Fixpoint cyc_walk (fuel : nat) (e : list nat) (w x : nat) (acc : list nat) : option (list nat) :=
  if x =? w then Some acc
  else match fuel with
       | O => None
       | S f => cyc_walk f e w (getn e x) (x :: acc)
       end.

Fixpoint dc_loop (rec : nat -> dcst -> option dcst) (v : nat) (ws : list nat) (st : dcst)
  : option dcst :=
  match ws with
  | [] => Some {| dc_vis := dc_vis st; dc_edgeTo := dc_edgeTo st;
                  dc_on := upd (dc_on st) v false; dc_cycle := dc_cycle st |}
  | w :: ws' =>
      match dc_cycle st with
      | Some _ => Some st                                (* short circuit: plain return *)
      | None =>
          if negb (getb (dc_vis st) w) then
            match rec w {| dc_vis := dc_vis st; dc_edgeTo := upd (dc_edgeTo st) w v;
                           dc_on := dc_on st; dc_cycle := None |} with
            | None => None
            | Some st' => dc_loop rec v ws' st'
            end
          else if getb (dc_on st) w then
            match cyc_walk (length (dc_vis st)) (dc_edgeTo st) w v [] with
            | None => None
            | Some acc =>
                (* pushes: acc (oldest first = v ...), then w, then v; popped in reverse *)
                dc_loop rec v ws' {| dc_vis := dc_vis st; dc_edgeTo := dc_edgeTo st;
                                     dc_on := dc_on st; dc_cycle := Some (v :: w :: acc) |}
            end
          else dc_loop rec v ws' st
      end
  end.

Fixpoint dc_dfs (adjf : nat -> list nat) (fuel : nat) (v : nat) (st : dcst) : option dcst :=
  match fuel with
  | O => None
  | S f =>
      dc_loop (dc_dfs adjf f) v (adjf v)
              {| dc_vis := upd (dc_vis st) v true; dc_edgeTo := dc_edgeTo st;
                 dc_on := upd (dc_on st) v true; dc_cycle := dc_cycle st |}
  end.

Fixpoint dc_roots (adjf : nat -> list nat) (n : nat) (vs : list nat) (st : dcst) : option dcst :=
  match vs with
  | [] => Some st
  | v :: vs' =>
      if negb (getb (dc_vis st) v) && (match dc_cycle st with None => true | Some _ => false end)
      then match dc_dfs adjf n v st with
           | None => None
           | Some st' => dc_roots adjf n vs' st'
           end
      else dc_roots adjf n vs' st
  end.

(** [DirectedCycle().Cycle()]; reading the result is a projection: since fix 73bbe49 every call
    returns the same cycle (before, the first call drained the stack and later calls returned
    an empty path with ok = true) *)
Definition directed_cycle (g : graph) : res (option (list nat)) :=
  let n := g_n g in
  match dc_roots (adjv g) n (seq 0 n)
                 {| dc_vis := repeat false n; dc_edgeTo := repeat 0 n; dc_on := repeat false n;
                    dc_cycle := None |} with
  | None => Hang
  | Some st => Ok (dc_cycle st)
  end.

(** * Topological: (order, rank) *)
Fixpoint rank_of (order : list nat) (i : nat) (rank : list nat) : list nat :=
  match order with
  | [] => rank
  | v :: t => rank_of t (S i) (upd rank v i)
  end.

Definition topological (g : graph) : res (option (list nat * list nat)) :=
  match directed_cycle g with
  | Ok (Some _) => Ok None
  | Ok None =>
      match orders_of g SDFS with
      | Ok o => let order := reverse_post_order o in
                Ok (Some (order, rank_of order 0 (repeat 0 (g_n g))))
      | Panic => Panic
      | Hang => Hang
      end
  | Panic => Panic
  | Hang => Hang
  end.

(** * abstract indexed priority queue *)
Definition pq := list (nat * Z).
Definition pq_contains (q : pq) (i : nat) : bool := existsb (fun x => fst x =? i) q.
Definition pq_insert (q : pq) (i : nat) (k : Z) : pq := q ++ [(i, k)].
Definition pq_change (q : pq) (i : nat) (k : Z) : pq :=
  map (fun x => if fst x =? i then (i, k) else x) q.
Fixpoint pq_min (q : pq) : option (nat * Z) :=
  match q with
  | [] => None
  | x :: t => match pq_min t with
              | None => Some x
              | Some y => if (snd y <? snd x)%Z then Some y else Some x
              end
  end.
Definition pq_remove (q : pq) (i : nat) : pq := filter (fun x => negb (fst x =? i)) q.
Definition pq_upsert (q : pq) (i : nat) (k : Z) : pq :=
  if pq_contains q i then pq_change q i k else pq_insert q i k.

Definition geto (l : list (option Z)) (i : nat) : option Z := nth i l None.
(** [x < d] where [d = None] is MaxFloat64 *)
Definition lt_inf (x : Z) (d : option Z) : bool :=
  match d with None => true | Some y => (x <? y)%Z end.

(** * Prim (eager), minimum spanning forest *)
Record mst := { m_vis : list bool; m_edgeTo : list edge; m_dist : list (option Z); m_pq : pq }.

Definition prim_relax (d : bool) (v : nat) (st : mst) (e : edge) : mst :=
  let w := nbr d v e in
  if getb (m_vis st) w then st
  else if lt_inf (e_w e) (geto (m_dist st) w) then
    {| m_vis := m_vis st; m_edgeTo := upd (m_edgeTo st) w e;
       m_dist := upd (m_dist st) w (Some (e_w e)); m_pq := pq_upsert (m_pq st) w (e_w e) |}
  else st.

Fixpoint prim_loop (g : graph) (fuel : nat) (st : mst) : option mst :=
  match pq_min (m_pq st) with
  | None => Some st
  | Some (v, _) =>
      match fuel with
      | O => None
      | S f =>
          prim_loop g f
            (fold_left (prim_relax (g_dir g) v) (adj_edges g v)
               {| m_vis := upd (m_vis st) v true; m_edgeTo := m_edgeTo st; m_dist := m_dist st;
                  m_pq := pq_remove (m_pq st) v |})
      end
  end.

Definition prim (g : graph) (s : nat) (st : mst) : option mst :=
  prim_loop g (g_n g)
    {| m_vis := m_vis st; m_edgeTo := m_edgeTo st; m_dist := upd (m_dist st) s (Some 0%Z);
       m_pq := pq_insert (m_pq st) s 0%Z |}.

Fixpoint prim_roots (g : graph) (vs : list nat) (st : mst) : option mst :=
  match vs with
  | [] => Some st
  | v :: vs' =>
      if getb (m_vis st) v then prim_roots g vs' st
      else match prim g v st with
           | None => None
           | Some st' => prim_roots g vs' st'
           end
  end.

Definition weight_of (es : list edge) : Z := fold_right (fun e a => (e_w e + a)%Z) 0%Z es.

(** [MinimumSpanningTree().Edges()] and [.Weight()] *)
Definition minimum_spanning_tree (g : graph) : res (list edge * Z) :=
  let n := g_n g in
  match prim_roots g (seq 0 n)
          {| m_vis := repeat false n; m_edgeTo := repeat zero_edge n; m_dist := repeat None n;
             m_pq := [] |} with
  | None => Hang
  | Some st => let es := filter (fun e => negb (edge_eqb e zero_edge)) (m_edgeTo st) in
               Ok (es, weight_of es)
  end.

(** * Dijkstra (eager), shortest path tree *)
Record spt := { sp_edgeTo : list edge; sp_dist : list (option Z); sp_pq : pq }.

Definition dij_relax (st : spt) (e : edge) : spt :=
  match geto (sp_dist st) (e_a e) with
  | None => st
  | Some dv =>
      let dist := (dv + e_w e)%Z in
      if lt_inf dist (geto (sp_dist st) (e_b e)) then
        {| sp_edgeTo := upd (sp_edgeTo st) (e_b e) e;
           sp_dist := upd (sp_dist st) (e_b e) (Some dist);
           sp_pq := pq_upsert (sp_pq st) (e_b e) dist |}
      else st
  end.

Fixpoint dij_loop (g : graph) (fuel : nat) (st : spt) : option spt :=
  match pq_min (sp_pq st) with
  | None => Some st
  | Some (v, _) =>
      match fuel with
      | O => None
      | S f =>
          dij_loop g f
            (fold_left dij_relax (adj_edges g v)
               {| sp_edgeTo := sp_edgeTo st; sp_dist := sp_dist st;
                  sp_pq := pq_remove (sp_pq st) v |})
      end
  end.

(** [ShortestPathTree(s)]; an out-of-range source indexes [distTo] out of range *)
Definition shortest_path_tree (g : graph) (s : nat) : res spt :=
  let n := g_n g in
  if s <? n then
    match dij_loop g n {| sp_edgeTo := repeat zero_edge n;
                          sp_dist := upd (repeat None n) s (Some 0%Z);
                          sp_pq := [(s, 0%Z)] |} with
    | None => Hang
    | Some st => Ok st
    end
  else Panic.

(** [for e := edgeTo[v]; e != zero; e = edgeTo[e.From()] { push e }], then pop everything *)
Fixpoint spt_walk (fuel : nat) (edgeTo : list edge) (e : edge) (acc : list edge)
  : option (list edge) :=
  if edge_eqb e zero_edge then Some acc
  else match fuel with
       | O => None
       | S f => spt_walk f edgeTo (nth (e_a e) edgeTo zero_edge) (e :: acc)
       end.

(** [PathTo(v)]: [Some (path, dist)] or [None] *)
Definition path_to (t : spt) (v : nat) : res (option (list edge * Z)) :=
  if length (sp_dist t) <=? v then Panic
  else match geto (sp_dist t) v with
       | None => Ok None
       | Some d =>
           match spt_walk (length (sp_dist t)) (sp_edgeTo t) (nth v (sp_edgeTo t) zero_edge) [] with
           | None => Hang
           | Some p => Ok (Some (p, d))
           end
       end.
