(** C14 — ConnectedComponents: the ids characterise undirected reachability. *)
From Algo.C14 Require Import Spec ProofsBasic ProofsTrav ProofsReach ProofsScc.

Section CC.
  Variable g : graph.
  Hypothesis W : wf g.
  Hypothesis Hsym : forall u w, edge_rel g u w -> edge_rel g w u.
  Let n := g_n g.

  Lemma reach_sym u w : reach g u w -> reach g w u.
  Proof.
    induction 1 as [v|a b c E R IH]; [constructor|].
    eapply reach_snoc; eauto.
  Qed.

  Notation c_post := (fun (_ : nat) (c : comps) => c).
  Notation c_edg := (fun (_ _ : nat) (c : comps) => c).
  Notation cdfs := (dfs cc_pre c_post c_edg (adjv g)).

  Definition closed (vis : list bool) : Prop :=
    forall u w, getb vis u = true -> edge_rel g u w -> getb vis w = true.

  Lemma closed_reach_in vis u w : closed vis -> reach g u w -> getb vis u = true -> getb vis w = true.
  Proof. intros C R. induction R as [v|a b c E R IH]; auto. intros G. apply IH. eapply C; eauto. Qed.

  Definition RI (vis : list bool) (cnt : nat) (ids : list nat) : Prop :=
    length vis = n /\ length ids = n /\ closed vis /\
    (forall v, getb vis v = true -> getn ids v < cnt) /\
    (forall v w, getb vis v = true -> getb vis w = true -> (getn ids v = getn ids w <-> reach g v w)).

  Lemma cc_root vis cnt ids r :
    RI vis cnt ids -> r < n -> getb vis r = false ->
    exists vis' ids', cdfs n r (vis, (cnt, ids)) = Some (vis', (cnt, ids')) /\
                      RI vis' (S cnt) ids' /\ sub vis vis' /\ getb vis' r = true.
  Proof.
    intros [Hlv [Hli [Hcl [Hlt Hiff]]]] Hr Gr.
    pose proof (adj_lt g W) as AL. fold n in AL.
    destruct (dfs_term cc_pre c_post c_edg (adjv g) n AL n r (vis, (cnt, ids))) as [[vis' [cnt' ids']] E];
      simpl; auto.
    { rewrite <- Hlv. apply cf_le_length. }
    destruct (dfs_vis_p _ _ _ _ n AL _ _ _ _ E) as [A [B [C [D _]]]]; simpl in *; auto.
    (* what the visitor state looks like afterwards *)
    set (J := fun st : list bool * comps =>
                fst (snd st) = cnt /\ length (snd (snd st)) = n /\ sub vis (fst st) /\
                (forall u, getb vis u = true -> getn (snd (snd st)) u = getn ids u) /\
                (forall u, getb (fst st) u = true -> getb vis u = false ->
                           getn (snd (snd st)) u = cnt /\ reach g r u)).
    assert (HJ : J (vis', (cnt', ids'))).
    { apply (dfs_rule cc_pre c_post c_edg (adjv g) n AL J (fun v _ => reach g r v))
        with (fuel := n) (v := r) (st := (vis, (cnt, ids))); auto.
      - intros vis0 [c0 ids0] v [J1 [J2 [J3 [J4 J5]]]] Hl0 G0 Hv P. simpl in *. subst c0.
        unfold J. simpl. split; auto. split; [now rewrite upd_length|].
        split; [eapply sub_trans; [exact J3|apply sub_upd]|]. split.
        + intros u Gu. unfold getn. rewrite nth_upd_other; [now apply J4|].
          intros ->. apply J3 in Gu. congruence.
        + intros u Gu Gu'. rewrite getb_upd in Gu.
          destruct (Nat.eq_dec u v) as [->|Hne].
          * split; auto. unfold getn. rewrite nth_upd_same; auto. lia.
          * rewrite (proj2 (Nat.eqb_neq u v) Hne) in Gu. simpl in Gu.
            destruct (J5 u Gu Gu') as [K1 K2]. split; auto.
            unfold getn. rewrite nth_upd_other; auto.
      - intros vis0 [c0 ids0] v w J0 Hl0 Gv Gw Hin. split; auto.
        destruct J0 as [J1 [J2 [J3 [J4 J5]]]]. simpl in *.
        destruct (getb vis v) eqn:Gov.
        + exfalso. assert (getb vis w = true) by (eapply Hcl; eauto). apply J3 in H. congruence.
        + destruct (J5 v Gv Gov) as [_ R]. eapply reach_snoc; eauto.
      - unfold J. simpl. split; auto. split; auto. split; [apply sub_refl|]. split; auto.
        intros u G1 G2. congruence.
      - simpl. constructor. }
    destruct HJ as [J1 [J2 [J3 [J4 J5]]]]. simpl in *. subst cnt'.
    exists vis', ids'. split; [exact E|]. split; [|split; auto].
    (* the newly visited vertices are exactly the ones reachable from r *)
    assert (Cl' : closed vis').
    { intros u w Gu Euw. destruct (getb vis u) eqn:Gou.
      - apply B. eapply Hcl; eauto.
      - eapply D; eauto. }
    assert (Rnew : forall u, reach g r u -> getb vis' u = true /\ getb vis u = false).
    { intros u R. split.
      - eapply closed_reach_in; eauto.
      - destruct (getb vis u) eqn:Gu; auto. exfalso.
        assert (getb vis r = true) by (eapply (closed_reach_in vis u r); auto using reach_sym).
        congruence. }
    split; [auto|]. split; [auto|]. split; [auto|]. split.
    - intros v Gv. destruct (getb vis v) eqn:Gov.
      + rewrite J4; auto. specialize (Hlt v Gov). lia.
      + destruct (J5 v Gv Gov) as [K _]. lia.
    - intros v w Gv Gw.
      destruct (getb vis v) eqn:Gov; destruct (getb vis w) eqn:Gow.
      + rewrite !J4; auto.
      + destruct (J5 w Gw Gow) as [K R]. rewrite K, (J4 v Gov). specialize (Hlt v Gov). split; [lia|].
        intros Rvw. exfalso.
        assert (getb vis w = true) by (eapply (closed_reach_in vis v w); eauto). congruence.
      + destruct (J5 v Gv Gov) as [K R]. rewrite K, (J4 w Gow). specialize (Hlt w Gow). split; [lia|].
        intros Rvw. exfalso.
        assert (getb vis v = true) by (eapply (closed_reach_in vis w v); auto using reach_sym). congruence.
      + destruct (J5 v Gv Gov) as [K1 R1]. destruct (J5 w Gw Gow) as [K2 R2]. rewrite K1, K2.
        split; auto. intros _. eapply reach_trans; [apply reach_sym; exact R1|exact R2].
  Qed.

  Lemma cc_loop : forall vs vis cnt ids,
      RI vis cnt ids -> (forall v, In v vs -> v < n) ->
      exists vis' cnt' ids',
        roots_loop (cdfs n) cc_after vs (vis, (cnt, ids)) = Some (vis', (cnt', ids')) /\
        RI vis' cnt' ids' /\ sub vis vis' /\ (forall v, In v vs -> getb vis' v = true).
  Proof.
    induction vs as [|v vs IH]; intros vis cnt ids HR Hlt; simpl.
    - exists vis, cnt, ids. split; auto. split; auto. split; [apply sub_refl|]. intros v [].
    - assert (Hlt' : forall x, In x vs -> x < n) by (intros x Hx; apply Hlt; now right).
      destruct (getb vis v) eqn:Gv.
      + destruct (IH vis cnt ids HR Hlt') as [vis' [cnt' [ids' [E [R [S1 S2]]]]]].
        exists vis', cnt', ids'. split; auto. split; auto. split; auto.
        intros x [<-|Hx]; auto.
      + destruct (cc_root vis cnt ids v HR) as [vis1 [ids1 [E1 [R1 [S1 G1]]]]]; auto.
        { apply Hlt. now left. }
        rewrite E1. simpl. unfold cc_after at 1. simpl.
        destruct (IH vis1 (S cnt) ids1 R1 Hlt') as [vis' [cnt' [ids' [E [R [S2 S3]]]]]].
        exists vis', cnt', ids'. split; auto. split; auto. split; [eapply sub_trans; eauto|].
        intros x [<-|Hx]; auto.
  Qed.

  Theorem cc_correct :
    exists c, connected_components g = Ok c /\ length (snd c) = n /\
      forall v w, v < n -> w < n ->
                  getn (snd c) v < fst c /\ (getn (snd c) v = getn (snd c) w <-> reach g v w).
  Proof.
    unfold connected_components, comps_over. fold n.
    destruct (cc_loop (seq 0 n) (repeat false n) 0 (repeat 0 n)) as [vis [cnt [ids [E [R [_ S]]]]]].
    - split; [apply repeat_length|]. split; [apply repeat_length|]. split.
      + intros u w G. rewrite getb_repeat_false in G. discriminate.
      + split.
        * intros v G. rewrite getb_repeat_false in G. discriminate.
        * intros v w G. rewrite getb_repeat_false in G. discriminate.
    - intros v Hv. apply in_seq in Hv. lia.
    - rewrite E. eexists. split; [reflexivity|]. simpl.
      destruct R as [_ [Hli [_ [Hlt Hiff]]]]. split; auto.
      intros v w Hv Hw.
      assert (Gv : getb vis v = true) by (apply S; apply in_seq; lia).
      assert (Gw : getb vis w = true) by (apply S; apply in_seq; lia).
      split; auto.
  Qed.
End CC.

Theorem cc_correct_mk n es :
  exists c, connected_components (mk_graph false n es) = Ok c /\ length (snd c) = n /\
    forall v w, v < n -> w < n ->
                getn (snd c) v < fst c /\
                (getn (snd c) v = getn (snd c) w <-> reach (mk_graph false n es) v w).
Proof.
  pose proof (cc_correct (mk_graph false n es) (wf_mk_graph false n es) (mk_graph_sym n es)) as H.
  rewrite mk_graph_n in H. exact H.
Qed.
