(** C14 — soundness of the shortest-path-tree certificate checker [check_spt]. *)
From Algo.C14 Require Import Spec ProofsBasic.
Local Open Scope Z_scope.

Lemma edge_eqb_eq e f : edge_eqb e f = true -> e = f.
Proof.
  unfold edge_eqb. intros H. apply andb_prop in H. destruct H as [H H3].
  apply andb_prop in H. destruct H as [H1 H2].
  apply Nat.eqb_eq in H1, H2. apply Z.eqb_eq in H3.
  destruct e as [[a b] w], f as [[a' b'] w']. unfold e_a, e_b, e_w in *. simpl in *. congruence.
Qed.

Lemma edge_in_true g e : edge_in g e = true -> gedge g e /\ (e_a e < g_n g)%nat.
Proof.
  unfold edge_in, gedge. intros H. apply andb_prop in H. destruct H as [H1 H2].
  apply Nat.ltb_lt in H1. split; auto.
  apply existsb_exists in H2. destruct H2 as [f [Hin Heq]]. apply edge_eqb_eq in Heq. now subst.
Qed.

Lemma echain_true g : forall p a v, echain g a p v = true -> epath g a p v.
Proof.
  induction p as [|e t IH]; intros a v H; simpl in *.
  - now apply Nat.eqb_eq.
  - apply andb_prop in H. destruct H as [H H3]. apply andb_prop in H. destruct H as [H1 H2].
    apply Nat.eqb_eq in H1. apply edge_in_true in H2. split; auto. split; [tauto|]. now apply IH.
Qed.

Lemma gedge_lt g e : wf g -> gedge g e -> (e_a e < g_n g)%nat /\ (e_b e < g_n g)%nat.
Proof.
  intros [Hl Ha] H. unfold gedge in H. destruct (Ha _ _ H) as [A [B _]]. auto.
Qed.

Section Spt.
  Variable g : graph.
  Hypothesis W : wf g.
  Variable s : nat.
  Variable out : list (option (list edge * Z)).
  Hypothesis Hck : check_spt g s out = true.

  Lemma spt_parts :
    length out = g_n g /\ (s < g_n g)%nat /\ out_dist out s = Some 0 /\
    (forall u e, (u < g_n g)%nat -> In e (adj_edges g u) -> forall du, out_dist out u = Some du ->
                 exists dw, out_dist out (e_b e) = Some dw /\ dw <= du + e_w e) /\
    (forall v p d, (v < g_n g)%nat -> nth v out None = Some (p, d) ->
                   epath g s p v /\ weight_of p = d).
  Proof.
    pose proof Hck as K. unfold check_spt in K.
    repeat (apply andb_prop in K; destruct K as [K ?]).
    apply Nat.eqb_eq in K. apply Nat.ltb_lt in H2.
    split; auto. split; auto. split.
    - destruct (out_dist out s); [|discriminate]. apply Z.eqb_eq in H1. now subst.
    - rewrite forallb_forall in H0, H. split.
      + intros u e Hu He du Hdu.
        assert (Iu : In u (seq 0 (g_n g))) by (apply in_seq; lia).
        specialize (H0 u Iu). rewrite forallb_forall in H0. specialize (H0 e He).
        rewrite Hdu in H0. destruct (out_dist out (e_b e)) as [dw|]; [|discriminate].
        exists dw. split; auto. now apply Z.leb_le.
      + intros v p d Hv Hn.
        assert (Iv : In v (seq 0 (g_n g))) by (apply in_seq; lia).
        specialize (H v Iv). rewrite Hn in H. simpl in H.
        apply andb_prop in H. destruct H as [A B]. split.
        * now apply echain_true.
        * now apply Z.eqb_eq.
  Qed.

  Lemma spt_lower : forall p a v, epath g a p v -> forall da, out_dist out a = Some da ->
      exists dv, out_dist out v = Some dv /\ dv <= da + weight_of p.
  Proof.
    destruct spt_parts as [_ [_ [_ [Hrel _]]]].
    induction p as [|e t IH]; intros a v H da Hda; simpl in *.
    - subst. exists da. split; auto. lia.
    - destruct H as [Ea [Ge Ht]]. subst a.
      destruct (gedge_lt g e W Ge) as [La Lb].
      destruct (Hrel (e_a e) e La Ge da Hda) as [dw [Hdw Hle]].
      destruct (IH _ _ Ht dw Hdw) as [dv [Hdv Hle2]].
      exists dv. split; auto. lia.
  Qed.

  Theorem check_spt_sound_sec :
    (s < g_n g)%nat /\
    forall v, (v < g_n g)%nat ->
      match nth v out None with
      | Some (p, d) => epath g s p v /\ weight_of p = d /\
                       forall p', epath g s p' v -> d <= weight_of p'
      | None => forall p', ~ epath g s p' v
      end.
  Proof.
    destruct spt_parts as [Hl [Hs [H0 [_ Hp]]]]. split; auto.
    intros v Hv. destruct (nth v out None) as [[p d]|] eqn:En.
    - destruct (Hp v p d Hv En) as [A B]. split; auto. split; auto.
      intros p' P'. destruct (spt_lower p' s v P' 0 H0) as [dv [Hdv Hle]].
      unfold out_dist in Hdv. rewrite En in Hdv. simpl in Hdv. injection Hdv as <-. lia.
    - intros p' P'. destruct (spt_lower p' s v P' 0 H0) as [dv [Hdv _]].
      unfold out_dist in Hdv. rewrite En in Hdv. discriminate.
  Qed.
End Spt.

Theorem check_spt_sound g s out : wf g -> check_spt g s out = true ->
  (s < g_n g)%nat /\
  forall v, (v < g_n g)%nat ->
    match nth v out None with
    | Some (p, d) => epath g s p v /\ weight_of p = d /\
                     forall p', epath g s p' v -> d <= weight_of p'
    | None => forall p', ~ epath g s p' v
    end.
Proof. intros W H. exact (check_spt_sound_sec g W s out H). Qed.

(** edge paths and reachability coincide on directed graphs *)
Lemma epath_reach g : wf g -> g_dir g = true -> forall p a v, epath g a p v -> reach g a v.
Proof.
  intros W D. induction p as [|e t IH]; intros a v H; simpl in H.
  - subst. constructor.
  - destruct H as [Ea [Ge Ht]]. subst a. eapply reach_step; [|apply IH; eauto].
    unfold edge_rel, adjv. rewrite D. apply in_map_iff. exists e. split; auto.
Qed.

Lemma reach_epath g : wf g -> g_dir g = true -> forall a v, reach g a v -> exists p, epath g a p v.
Proof.
  intros W D a v R. induction R as [v|a b c E R [p IH]].
  - exists []. reflexivity.
  - unfold edge_rel, adjv in E. rewrite D in E. apply in_map_iff in E.
    destruct E as [e [Eb He]]. simpl in Eb.
    destruct W as [Hl Ha]. destruct (Ha _ _ He) as [_ [_ Hd]]. rewrite D in Hd.
    exists (e :: p). simpl. split; auto. split.
    + unfold gedge. now rewrite Hd.
    + unfold nbr in Eb. now rewrite Eb.
Qed.
