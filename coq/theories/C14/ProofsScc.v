(** C14 — soundness of the component checker [check_scc] (and [check_cc]). *)
From Algo.C14 Require Import Spec ProofsBasic ProofsTrav ProofsReach.

Lemma reach_from_spec g s v : wf g -> s < g_n g -> v < g_n g ->
  (getb (reach_from g s) v = true <-> reach g s v).
Proof.
  intros W Hs Hv. unfold reach_from.
  destruct (paths_correct g W s Hs SDFS) as [p [E [H _]]]. rewrite E. now apply H.
Qed.

Lemma nth_map_seq {A} (f : nat -> A) n v d : v < n -> nth v (map f (seq 0 n)) d = f v.
Proof.
  intros H. rewrite (nth_indep _ d (f 0)); [|now rewrite map_length, seq_length].
  rewrite map_nth. now rewrite seq_nth.
Qed.

Theorem check_scc_sound g ids : wf g -> check_scc g ids = true ->
  length ids = g_n g /\
  forall v w, v < g_n g -> w < g_n g ->
              (getn ids v = getn ids w <-> mutually_reachable g v w).
Proof.
  intros W H. unfold check_scc in H. apply andb_prop in H. destruct H as [Hl H].
  apply Nat.eqb_eq in Hl. split; auto.
  intros v w Hv Hw. rewrite forallb_forall in H.
  assert (Iv : In v (seq 0 (g_n g))) by (apply in_seq; lia).
  assert (Iw : In w (seq 0 (g_n g))) by (apply in_seq; lia).
  specialize (H v Iv). rewrite forallb_forall in H. specialize (H w Iw).
  rewrite !nth_map_seq in H; auto.
  apply Bool.eqb_prop in H. unfold mutually_reachable.
  rewrite <- (reach_from_spec g v w), <- (reach_from_spec g w v); auto.
  rewrite <- andb_true_iff, <- H. symmetry. apply Nat.eqb_eq.
Qed.

(** on an undirected graph reachability is symmetric, so the same checker certifies
    ConnectedComponents ids *)
Lemma mk_graph_sym n es u w :
  edge_rel (mk_graph false n es) u w -> edge_rel (mk_graph false n es) w u.
Proof.
  rewrite !mk_graph_edge_rel. intros [e [H1 [H2 [[A B]|[_ [A B]]]]]]; exists e; auto 6.
Qed.

Lemma reach_sym_mk n es u w :
  reach (mk_graph false n es) u w -> reach (mk_graph false n es) w u.
Proof.
  induction 1 as [v|a b c E R IH]; [constructor|].
  eapply reach_snoc; eauto. now apply mk_graph_sym.
Qed.

Theorem check_cc_sound n es ids : check_cc (mk_graph false n es) ids = true ->
  length ids = n /\
  forall v w, v < n -> w < n ->
              (getn ids v = getn ids w <-> reach (mk_graph false n es) v w).
Proof.
  intros H. destruct (check_scc_sound _ _ (wf_mk_graph false n es) H) as [A B].
  rewrite mk_graph_n in *. split; auto. intros v w Hv Hw.
  rewrite (B v w Hv Hw). unfold mutually_reachable. split; [tauto|].
  intros R. split; auto. now apply reach_sym_mk.
Qed.
