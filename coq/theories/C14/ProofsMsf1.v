(** C14 — quick-find labelling of an undirected edge list: labels characterise connectivity,
    and the number of classes (fixpoints of the labelling) counts forest edges. *)
From Algo.C14 Require Import Spec ProofsBasic.

Definition inrange (n : nat) (es : list edge) : Prop :=
  forall e, In e es -> e_a e < n /\ e_b e < n.

Lemma uconn_incl es es' u v : (forall e, In e es -> In e es') -> uconn es u v -> uconn es' u v.
Proof.
  intros H R. induction R.
  - apply uc_refl.
  - apply uc_edge. auto.
  - apply uc_sym. auto.
  - eapply uc_trans; eauto.
Qed.

Lemma uconn_nil u v : uconn [] u v -> u = v.
Proof. induction 1; auto; try congruence. destruct H. Qed.

Lemma uconn_range n es u v : inrange n es -> uconn es u v -> u = v \/ (u < n /\ v < n).
Proof.
  intros H R. induction R.
  - now left.
  - right. apply H. auto.
  - destruct IHR as [->|[A B]]; auto.
  - destruct IHR1 as [->|[A B]]; auto. destruct IHR2 as [<-|[C D]]; auto.
Qed.

(** adding an edge whose end points are already connected changes nothing *)
Lemma uconn_redundant es e u v :
  uconn es (e_a e) (e_b e) -> uconn (e :: es) u v -> uconn es u v.
Proof.
  intros H R. induction R.
  - apply uc_refl.
  - destruct H0 as [<-|Hi]; auto. now apply uc_edge.
  - now apply uc_sym.
  - eapply uc_trans; eauto.
Qed.

(** labels as a total function: vertices out of range are their own class *)
Definition labf (n : nat) (lab : list nat) (u : nat) : nat :=
  if u <? n then getn lab u else u.

Record LI (n : nat) (lab : list nat) (es : list edge) : Prop := {
  li_len : length lab = n;
  li_lt : forall u, u < n -> getn lab u < n;
  li_idem : forall u, u < n -> getn lab (getn lab u) = getn lab u;
  li_iff : forall u v, labf n lab u = labf n lab v <-> uconn es u v }.

Lemma getn_seq n u : u < n -> getn (seq 0 n) u = u.
Proof. intros H. unfold getn. now rewrite seq_nth. Qed.

Lemma LI_init n : LI n (seq 0 n) [].
Proof.
  constructor.
  - apply seq_length.
  - intros u H. now rewrite getn_seq.
  - intros u H. rewrite (getn_seq n u H). now apply getn_seq.
  - intros u v.
    assert (E : forall x, labf n (seq 0 n) x = x).
    { intros x. unfold labf. destruct (Nat.ltb_spec x n); auto. now apply getn_seq. }
    rewrite !E. split; [intros ->; apply uc_refl|apply uconn_nil].
Qed.

Lemma getn_relabel lab a b u : u < length lab ->
  getn (relabel lab a b) u = if getn lab u =? getn lab b then getn lab a else getn lab u.
Proof.
  intros H. unfold relabel, getn. cbv zeta.
  set (f := fun x => if x =? nth b lab 0 then nth a lab 0 else x).
  rewrite (nth_indep (map f lab) 0 (f 0)).
  - rewrite map_nth. reflexivity.
  - now rewrite map_length.
Qed.

Lemma labf_relabel n lab a b u : length lab = n ->
  labf n (relabel lab a b) u =
  if u <? n then (if getn lab u =? getn lab b then getn lab a else getn lab u) else u.
Proof.
  intros H. unfold labf. destruct (Nat.ltb_spec u n); auto. apply getn_relabel. lia.
Qed.

Lemma LI_step n lab es e :
  LI n lab es -> e_a e < n -> e_b e < n -> LI n (relabel lab (e_a e) (e_b e)) (e :: es).
Proof.
  intros [Hl Hlt Hid Hiff] Ha Hb.
  set (a := e_a e) in *. set (b := e_b e) in *.
  assert (Lf : forall u, u < n -> labf n lab u = getn lab u).
  { intros u H. unfold labf. now rewrite (proj2 (Nat.ltb_lt u n) H). }
  constructor.
  - unfold relabel. now rewrite map_length.
  - intros u Hu. rewrite getn_relabel; [|lia].
    destruct (getn lab u =? getn lab b); auto.
  - intros u Hu. rewrite (getn_relabel lab a b u); [|lia].
    destruct (Nat.eqb_spec (getn lab u) (getn lab b)) as [E|NE].
    + rewrite getn_relabel; [|rewrite Hl; auto]. rewrite Hid; auto.
      destruct (Nat.eqb_spec (getn lab a) (getn lab b)); auto.
    + rewrite getn_relabel; [|rewrite Hl; auto]. rewrite Hid; auto.
      destruct (Nat.eqb_spec (getn lab u) (getn lab b)); [contradiction|auto].
  - assert (Old : forall u v, uconn es u v -> uconn (e :: es) u v).
    { intros u v. apply uconn_incl. intros x Hx. now right. }
    assert (Eab : uconn (e :: es) a b) by (apply uc_edge; now left).
    intros u v. rewrite !labf_relabel; auto. split.
    + (* equal new labels -> connected *)
      destruct (Nat.ltb_spec u n) as [Hu|Hu]; destruct (Nat.ltb_spec v n) as [Hv|Hv].
      * destruct (Nat.eqb_spec (getn lab u) (getn lab b)) as [Eu|Nu];
          destruct (Nat.eqb_spec (getn lab v) (getn lab b)) as [Ev|Nv]; intros H.
        -- apply Old. apply Hiff. rewrite !Lf; auto. congruence.
        -- (* u ~ b, a ~ v *)
           eapply uc_trans; [apply Old; apply Hiff; rewrite !Lf; eauto|].
           eapply uc_trans; [apply uc_sym; exact Eab|].
           apply Old. apply Hiff. rewrite !Lf; auto.
        -- eapply uc_trans; [apply Old; apply Hiff; rewrite !Lf; eauto|].
           eapply uc_trans; [exact Eab|].
           apply Old. apply Hiff. rewrite !Lf; auto.
        -- apply Old. apply Hiff. rewrite !Lf; auto.
      * intros H. exfalso.
        assert (getn lab a < n) by auto. assert (getn lab u < n) by auto.
        destruct (getn lab u =? getn lab b); lia.
      * intros H. exfalso.
        assert (getn lab a < n) by auto. assert (getn lab v < n) by auto.
        destruct (getn lab v =? getn lab b); lia.
      * intros ->. apply uc_refl.
    + (* connected -> equal new labels *)
      intros R. rewrite <- !labf_relabel; auto.
      induction R as [x|x Hx|x y R IH|x y z R1 IH1 R2 IH2]; auto; try congruence.
      destruct Hx as [<-|Hx].
      * fold a b. rewrite !labf_relabel; auto.
        rewrite (proj2 (Nat.ltb_lt a n) Ha), (proj2 (Nat.ltb_lt b n) Hb), Nat.eqb_refl.
        destruct (getn lab a =? getn lab b); auto.
      * assert (E : labf n lab (e_a x) = labf n lab (e_b x)) by (apply Hiff; now apply uc_edge).
        rewrite !labf_relabel; auto. unfold labf in E.
        destruct (Nat.ltb_spec (e_a x) n) as [H1|H1]; destruct (Nat.ltb_spec (e_b x) n) as [H2|H2].
        -- now rewrite E.
        -- exfalso. pose proof (Hlt _ H1). lia.
        -- exfalso. pose proof (Hlt _ H2). lia.
        -- exact E.
Qed.

Lemma LI_ext n lab es es' :
  (forall u v, uconn es u v <-> uconn es' u v) -> LI n lab es -> LI n lab es'.
Proof.
  intros H [A B C D]. constructor; auto. intros u v. rewrite D. apply H.
Qed.

Definition relabel_all (es : list edge) (lab : list nat) : list nat :=
  fold_left (fun lab e => relabel lab (e_a e) (e_b e)) es lab.

Lemma inrange_cons n e es : inrange n (e :: es) -> (e_a e < n /\ e_b e < n) /\ inrange n es.
Proof. intros H. split; [apply H; now left|]. intros x Hx. apply H. now right. Qed.

Lemma relabel_all_LI n : forall es lab acc,
    inrange n es -> LI n lab acc -> LI n (relabel_all es lab) (rev es ++ acc).
Proof.
  induction es as [|e t IH]; intros lab acc Hr HL; simpl; auto.
  apply inrange_cons in Hr. destruct Hr as [[Ha Hb] Hr].
  rewrite <- app_assoc. simpl. apply IH; auto. now apply LI_step.
Qed.

Lemma labels_LI n es : inrange n es -> LI n (labels n es) es.
Proof.
  intros Hr. apply (LI_ext n _ (rev es ++ [])).
  - intros u v. rewrite app_nil_r. split; apply uconn_incl; intros e; rewrite <- in_rev; auto.
  - apply (relabel_all_LI n es (seq 0 n) []); auto. apply LI_init.
Qed.

(** * counting classes: fixpoints of the labelling *)
Definition fixc (n : nat) (lab : list nat) : nat :=
  length (filter (fun u => getn lab u =? u) (seq 0 n)).

Lemma filter_one (P P' : nat -> bool) l x :
  NoDup l -> In x l -> P x = true -> P' x = false ->
  (forall y, In y l -> y <> x -> P' y = P y) ->
  S (length (filter P' l)) = length (filter P l).
Proof.
  induction l as [|y t IH]; intros N Hin Px P'x Hy; [destruct Hin|].
  inversion N as [|? ? Hnt Nt]; subst. simpl. destruct Hin as [->|Hin].
  - rewrite Px, P'x. simpl. f_equal.
    assert (E : filter P' t = filter P t).
    { apply filter_ext_in. intros z Hz. apply Hy; [now right|]. intros ->. auto. }
    now rewrite E.
  - assert (y <> x) by (intros ->; auto).
    rewrite (Hy y (or_introl eq_refl) H).
    destruct (P y); simpl; [f_equal|]; apply IH; auto; intros z Hz; apply Hy; now right.
Qed.

Lemma relabel_same lab a b : getn lab a = getn lab b -> relabel lab a b = lab.
Proof.
  intros H. unfold relabel. cbv zeta. rewrite H.
  rewrite <- (map_id lab) at 2. apply map_ext. intros x.
  destruct (Nat.eqb_spec x (getn lab b)); auto.
Qed.

Lemma fixc_step n lab es a b :
  LI n lab es -> a < n -> b < n -> getn lab a <> getn lab b ->
  S (fixc n (relabel lab a b)) = fixc n lab.
Proof.
  intros [Hl Hlt Hid Hiff] Ha Hb Hne. unfold fixc.
  apply (filter_one _ _ _ (getn lab b)).
  - apply seq_NoDup.
  - apply in_seq. pose proof (Hlt b Hb). lia.
  - rewrite Hid; auto. apply Nat.eqb_refl.
  - rewrite getn_relabel; [|rewrite Hl; auto]. rewrite Hid; auto. rewrite Nat.eqb_refl.
    apply Nat.eqb_neq. exact Hne.
  - intros y Hy Hyb. apply in_seq in Hy. rewrite getn_relabel; [|lia].
    destruct (Nat.eqb_spec (getn lab y) (getn lab b)) as [E|NE]; auto.
    (* y carries b's label but is not the representative: not a fixpoint before or after *)
    rewrite E. rewrite (proj2 (Nat.eqb_neq (getn lab b) y)); [|auto].
    apply Nat.eqb_neq. intros Hy2.
    (* y = lab a would mean lab y = lab a (idempotence), contradicting lab y = lab b *)
    apply Hne. rewrite <- E, <- Hy2. rewrite Hid; auto.
Qed.

Lemma fixc_init n : fixc n (seq 0 n) = n.
Proof.
  unfold fixc. rewrite <- (seq_length n 0) at 2. f_equal.
  assert (E : forall l, (forall u, In u l -> u < n) ->
                        filter (fun u => getn (seq 0 n) u =? u) l = l).
  { induction l as [|x t IH]; intros H; simpl; auto.
    rewrite getn_seq; [|apply H; now left]. rewrite Nat.eqb_refl. f_equal. apply IH.
    intros u Hu. apply H. now right. }
  apply E. intros u Hu. apply in_seq in Hu. lia.
Qed.

(** sequential forest: every edge joins two different classes of the edges before it *)
Fixpoint sf (acc : list edge) (es : list edge) : Prop :=
  match es with
  | [] => True
  | e :: t => ~ uconn acc (e_a e) (e_b e) /\ sf (e :: acc) t
  end.

Lemma labf_in n lab u : u < n -> labf n lab u = getn lab u.
Proof. intros H. unfold labf. now rewrite (proj2 (Nat.ltb_lt u n) H). Qed.

Lemma forest_from_sf n : forall es lab acc,
    inrange n es -> LI n lab acc -> forest_from lab es = true -> sf acc es.
Proof.
  induction es as [|e t IH]; intros lab acc Hr HL H; simpl in *; auto.
  apply inrange_cons in Hr. destruct Hr as [[Ha Hb] Hr].
  apply andb_prop in H. destruct H as [H1 H2]. apply negb_true_iff, Nat.eqb_neq in H1. split.
  - intros R. apply (li_iff _ _ _ HL) in R. rewrite !labf_in in R; auto.
  - eapply IH; eauto. now apply LI_step.
Qed.

Lemma fixc_sf n : forall es lab acc,
    inrange n es -> LI n lab acc -> sf acc es ->
    fixc n (relabel_all es lab) + length es = fixc n lab.
Proof.
  induction es as [|e t IH]; intros lab acc Hr HL H; simpl in *; [lia|].
  apply inrange_cons in Hr. destruct Hr as [[Ha Hb] Hr]. destruct H as [H1 H2].
  assert (Hne : getn lab (e_a e) <> getn lab (e_b e)).
  { intros E. apply H1. apply (li_iff _ _ _ HL). now rewrite !labf_in. }
  pose proof (fixc_step n lab acc _ _ HL Ha Hb Hne).
  rewrite <- (IH (relabel lab (e_a e) (e_b e)) (e :: acc)) in H; auto; [lia|now apply LI_step].
Qed.

Lemma fixc_any n : forall es lab acc,
    inrange n es -> LI n lab acc -> fixc n lab <= fixc n (relabel_all es lab) + length es.
Proof.
  induction es as [|e t IH]; intros lab acc Hr HL; simpl in *; [lia|].
  apply inrange_cons in Hr. destruct Hr as [[Ha Hb] Hr].
  specialize (IH (relabel lab (e_a e) (e_b e)) (e :: acc) Hr (LI_step _ _ _ _ HL Ha Hb)).
  destruct (Nat.eq_dec (getn lab (e_a e)) (getn lab (e_b e))) as [E|NE].
  - rewrite (relabel_same _ _ _ E) in *. lia.
  - pose proof (fixc_step n lab acc _ _ HL Ha Hb NE). lia.
Qed.

Lemma NoDup_map_inj_on {A B} (f : A -> B) l :
  (forall x y, In x l -> In y l -> f x = f y -> x = y) -> NoDup l -> NoDup (map f l).
Proof.
  induction l as [|a t IH]; intros Hi N; simpl; [constructor|].
  inversion N; subst. constructor.
  - intros Hin. apply in_map_iff in Hin. destruct Hin as [y [E Hy]].
    assert (y = a) by (apply Hi; auto; [now right|now left]). subst. auto.
  - apply IH; auto. intros x y Hx Hy. apply Hi; now right.
Qed.

(** a finer connectivity relation has at least as many classes *)
Lemma fixc_finer n labA A labB B :
  LI n labA A -> LI n labB B -> (forall u v, uconn A u v -> uconn B u v) ->
  fixc n labB <= fixc n labA.
Proof.
  intros HA HB Hsub. unfold fixc.
  set (FB := filter (fun u => getn labB u =? u) (seq 0 n)).
  set (FA := filter (fun u => getn labA u =? u) (seq 0 n)).
  rewrite <- (map_length (getn labA) FB).
  apply NoDup_incl_length.
  - apply NoDup_map_inj_on; [|apply NoDup_filter, seq_NoDup].
    intros x y Hx Hy E. unfold FB in Hx, Hy. apply filter_In in Hx, Hy.
    destruct Hx as [Hx Fx], Hy as [Hy Fy]. apply in_seq in Hx, Hy. apply Nat.eqb_eq in Fx, Fy.
    assert (R : uconn A x y). { apply (li_iff _ _ _ HA). rewrite !labf_in; auto; lia. }
    apply Hsub in R. apply (li_iff _ _ _ HB) in R. rewrite !labf_in in R; try lia.
  - intros z Hz. apply in_map_iff in Hz. destruct Hz as [x [<- Hx]].
    unfold FB in Hx. apply filter_In in Hx. destruct Hx as [Hx _]. apply in_seq in Hx.
    unfold FA. apply filter_In. split.
    + apply in_seq. pose proof (li_lt _ _ _ HA x). lia.
    + apply Nat.eqb_eq. apply (li_idem _ _ _ HA). lia.
Qed.

(** the main counting facts, for edge lists in range *)
Lemma labels_eq n es : labels n es = relabel_all es (seq 0 n).
Proof. reflexivity. Qed.

Lemma count_forest n es : inrange n es -> sf [] es -> fixc n (labels n es) + length es = n.
Proof.
  intros Hr H. rewrite labels_eq. rewrite (fixc_sf n es (seq 0 n) []); auto using LI_init, fixc_init.
Qed.

Lemma count_any n es : inrange n es -> n <= fixc n (labels n es) + length es.
Proof.
  intros Hr. rewrite <- (fixc_init n) at 1. rewrite labels_eq.
  apply (fixc_any n es (seq 0 n) []); auto using LI_init.
Qed.

(** a forest inside a coarser edge set has at most as many edges *)
Lemma forest_size_le n A B :
  inrange n A -> inrange n B -> sf [] A -> (forall u v, uconn A u v -> uconn B u v) ->
  length A <= length B.
Proof.
  intros HA HB FA Hsub.
  pose proof (count_forest n A HA FA). pose proof (count_any n B HB).
  pose proof (fixc_finer n _ A _ B (labels_LI n A HA) (labels_LI n B HB) Hsub). lia.
Qed.
