(** C14 — Kosaraju, first pass: the reverse DFS post-order of a graph puts, before every vertex x,
    a member of the strongly connected component of every y that reaches x without being reached
    by it. *)
From Algo.C14 Require Import Spec ProofsBasic ProofsTrav ProofsOrders.

Section First.
  Variable g : graph.
  Hypothesis W : wf g.
  Let n := g_n g.

  Notation o_edg := (fun (_ _ : nat) (o : orders) => o).
  Notation odfs := (dfs ord_pre ord_post o_edg (adjv g)).

  (** a path whose intermediate vertices are all in F *)
  Inductive reachF (F : list nat) : nat -> nat -> Prop :=
  | rf_edge : forall x a, edge_rel g x a -> reachF F x a
  | rf_step : forall x z a, edge_rel g x z -> In z F -> reachF F z a -> reachF F x a.

  Lemma reachF_reach F x a : reachF F x a -> reach g x a.
  Proof.
    induction 1.
    - eapply reach_step; eauto. constructor.
    - eapply reach_step; eauto.
  Qed.

  Lemma reachF_last F x a : reachF F x a -> exists f, (f = x \/ In f F) /\ edge_rel g f a.
  Proof.
    induction 1 as [x a E|x z a E Hz R [f [Hf Ef]]].
    - exists x. auto.
    - exists f. split; auto. destruct Hf as [->|Hf]; auto.
  Qed.

  Lemma reachF_split F v x a :
    reachF (v :: F) x a -> reachF F x a \/ x = v \/ reachF F x v.
  Proof.
    induction 1 as [x a E|x z a E Hz R IH].
    - left. now constructor.
    - destruct Hz as [<-|Hz].
      + right. right. now constructor.
      + destruct IH as [IH|[->|IH]].
        * left. eapply rf_step; eauto.
        * right. right. now constructor.
        * right. right. eapply rf_step; eauto.
  Qed.

  Lemma first_exit F : forall y t, reach g y t -> In y F -> ~ In t F ->
                                   exists p, ~ In p F /\ reachF F y p.
  Proof.
    intros y t R. induction R as [v|a b c E R IH]; intros Hy Ht; [contradiction|].
    destruct (in_dec Nat.eq_dec b F) as [Hb|Hb].
    - destruct (IH Hb Ht) as [p [Hp Rp]]. exists p. split; auto. eapply rf_step; eauto.
    - exists b. split; auto. now constructor.
  Qed.

  Definition mutual (y y' : nat) : Prop := reach g y y' /\ reach g y' y.

  Definition JK (stk : list nat) (st : list bool * orders) : Prop :=
    let vis := fst st in let F := o_rpost (snd st) in
    (forall u, getb vis u = true -> In u F \/ In u stk) /\
    (forall u, In u stk -> getb vis u = true /\ ~ In u F) /\
    NoDup stk /\ sc g stk /\
    (forall u, In u F -> getb vis u = true) /\ NoDup F /\
    (forall x z, In x F -> edge_rel g x z -> In z F \/ In z stk) /\
    (forall x a, In x F -> In a stk -> reachF F x a -> reach g a x) /\
    (forall l1 x l2 y, F = l1 ++ x :: l2 -> getb vis y = true -> reach g y x -> ~ reach g x y ->
        (exists y', In y' l1 /\ mutual y y') \/ (exists y', In y' stk /\ mutual y y')).

  Lemma kdfs_rule : forall v (st st' : list bool * orders),
      odfs n v st = Some st' -> length (fst st) = n -> v < n -> getb (fst st) v = false ->
      JK [] st -> JK [] st'.
  Proof.
    intros v st st' E Hl Hv Gv HJ.
    apply (dfs_rule_stk ord_pre ord_post o_edg (adjv g) n (ProofsCycle.AL g W) JK)
      with (fuel := n) (v := v) (stk := []) (st := st); auto.
    - (* push *)
      intros stk vis o u [G [S [D [C [R [P [Y [Y3 Z]]]]]]]] Hlv Gu Hu Hp. unfold JK in *. simpl in *.
      assert (Gu' : getb (upd vis u true) u = true).
      { rewrite getb_upd, Nat.eqb_refl. simpl. rewrite Hlv. destruct (Nat.ltb_spec u n); auto. lia. }
      assert (NuF : ~ In u (o_rpost o)) by (intros Hi; apply R in Hi; congruence).
      assert (NuS : ~ In u stk) by (intros Hi; apply S in Hi; destruct Hi; congruence).
      split.
      { intros x Gx. rewrite getb_upd in Gx.
        destruct (Nat.eq_dec x u) as [->|Hne]; [right; now left|].
        rewrite (proj2 (Nat.eqb_neq x u) Hne) in Gx. simpl in Gx.
        destruct (G x Gx) as [Hi|Hi]; [now left|right; now right]. }
      split.
      { intros x [<-|Hx]; [split; auto|]. destruct (S x Hx) as [A B]. split; [apply sub_upd; exact A|exact B]. }
      split. { constructor; auto. }
      split. { destruct stk as [|p t]; simpl; auto. }
      split. { intros x Hx. apply sub_upd. auto. }
      split. { auto. }
      split. { intros x z Hx Exz. destruct (Y x z Hx Exz) as [Hi|Hi]; [left; exact Hi|right; right; exact Hi]. }
      split.
      { intros x a Hx [<-|Ha] Rf; [|eauto].
        exfalso. destruct (reachF_last (o_rpost o) _ _ Rf) as [f [Hf Ef]].
        assert (Hf' : In f (o_rpost o)) by (destruct Hf as [->|Hf]; auto).
        destruct (Y f u Hf' Ef); auto. }
      { intros l1 x l2 y EF Gy Ryx Nxy. rewrite getb_upd in Gy.
        destruct (Nat.eq_dec y u) as [->|Hne].
        - right. exists u. split; [now left|]. split; constructor.
        - rewrite (proj2 (Nat.eqb_neq y u) Hne) in Gy. simpl in Gy.
          destruct (Z l1 x l2 y EF Gy Ryx Nxy) as [L|[y' [Hy' M]]]; [left; exact L|].
          right. exists y'. split; [right; exact Hy'|exact M]. }
    - (* pop / post *)
      intros stk vis o u [G [S [D [C [R [P [Y [Y3 Z]]]]]]]] Hlv Gu Hn. unfold JK in *. simpl in *.
      assert (Nu : ~ In u (o_rpost o)) by (apply (S u); now left).
      assert (NuS : ~ In u stk) by (inversion D; auto).
      assert (Anc : forall a, In a stk -> reach g a u).
      { intros a Ha. apply (sc_reach g stk u a); auto. now right. }
      split.
      { intros x Gx. destruct (G x Gx) as [Hi|[Heq|Hi]]; [left; now right|left; left; exact Heq|right; exact Hi]. }
      split.
      { intros x Hx. destruct (S x (or_intror Hx)) as [A B]. split; auto.
        intros [->|Hi]; auto. }
      split. { inversion D; auto. }
      split. { destruct stk as [|p t]; simpl in *; tauto. }
      split. { intros x [<-|Hx]; auto. }
      split. { constructor; auto. }
      split.
      { intros x z [<-|Hx] Exz.
        - destruct (G z (Hn z Exz)) as [Hi|[Heq|Hi]]; [left; now right|left; left; exact Heq|right; exact Hi].
        - destruct (Y x z Hx Exz) as [Hi|[Heq|Hi]]; [left; now right|left; left; exact Heq|right; exact Hi]. }
      split.
      { intros x a Hx Ha Rf.
        destruct (reachF_split (o_rpost o) _ _ _ Rf) as [R1|[->|R1]].
        - destruct Hx as [<-|Hx]; [now apply Anc|]. apply (Y3 x a Hx (or_intror Ha) R1).
        - now apply Anc.
        - destruct Hx as [<-|Hx]; [now apply Anc|].
          eapply reach_trans; [apply Anc; exact Ha|]. apply (Y3 x u Hx (or_introl eq_refl) R1). }
      { intros l1 x l2 y EF Gy Ryx Nxy.
        destruct l1 as [|h l1'].
        - (* x = u is the vertex being finished *)
          simpl in EF. injection EF as <- <-. right.
          destruct (G y Gy) as [Hy|[<-|Hy]].
          + destruct (first_exit (o_rpost o) y u Ryx Hy Nu) as [p [Hp Rp]].
            destruct (reachF_last (o_rpost o) _ _ Rp) as [f [Hf Ef]].
            assert (Hf' : In f (o_rpost o)) by (destruct Hf as [->|Hf]; auto).
            destruct (Y f p Hf' Ef) as [Hi|Hi]; [contradiction|].
            assert (Rpy : reach g p y) by (apply (Y3 y p Hy Hi Rp)).
            destruct Hi as [<-|Hi]; [contradiction|].
            exists p. split; auto. split; auto. apply (reachF_reach (o_rpost o)); exact Rp.
          + exfalso. apply Nxy. constructor.
          + exists y. split; auto. split; constructor.
        - simpl in EF. injection EF as <- EF.
          destruct (Z l1' x l2 y EF Gy Ryx Nxy) as [[y' [Hy' M]]|[y' [[<-|Hy'] M]]].
          + left. exists y'. split; auto. now right.
          + left. exists u. split; auto. now left.
          + right. exists y'. auto. }
  Qed.

  Lemma kroots : forall vs (st : list bool * orders),
      JK [] st -> length (fst st) = n -> (forall v, In v vs -> v < n) ->
      exists st', roots_loop (odfs n) (fun o => o) vs st = Some st' /\
                  JK [] st' /\ length (fst st') = n /\ sub (fst st) (fst st') /\
                  (forall v, In v vs -> getb (fst st') v = true).
  Proof.
    induction vs as [|v vs IH]; intros st HJ Hl Hlt; simpl.
    - exists st. split; auto. split; auto. split; auto. split; [apply sub_refl|]. intros v [].
    - assert (Hlt' : forall x, In x vs -> x < n) by (intros x Hx; apply Hlt; now right).
      destruct (getb (fst st) v) eqn:Gv.
      + destruct (IH st HJ Hl Hlt') as [st' [E [A [B [C D]]]]]. exists st'.
        split; auto. split; auto. split; auto. split; auto. intros x [<-|Hx]; auto.
      + assert (Hv : v < n) by (apply Hlt; now left).
        destruct (dfs_term ord_pre ord_post o_edg (adjv g) n (ProofsCycle.AL g W) n v st) as [sm Em]; auto.
        { rewrite <- Hl. apply cf_le_length. }
        rewrite Em.
        destruct (dfs_vis_p _ _ _ _ n (ProofsCycle.AL g W) _ _ _ _ Em) as [V1 [V2 [V3 _]]]; auto.
        assert (Jm : JK [] sm) by (eapply kdfs_rule; eauto).
        destruct sm as [vism om]. simpl in *.
        destruct (IH (vism, om) Jm V1 Hlt') as [st' [E [A [B [C D]]]]]. exists st'.
        split; auto. split; auto. split; auto. split; [eapply sub_trans; eauto|].
        intros x [<-|Hx]; auto.
  Qed.

  Theorem first_pass :
    exists o, orders_of g SDFS = Ok o /\
      (forall v, In v (reverse_post_order o) <-> v < n) /\
      forall l1 x l2 y, reverse_post_order o = l1 ++ x :: l2 -> y < n ->
                        reach g y x -> ~ reach g x y -> exists y', In y' l1 /\ mutual y y'.
  Proof.
    unfold orders_of. fold n. simpl.
    set (o0 := {| o_prerank := repeat 0 n; o_postrank := repeat 0 n; o_rpre := []; o_rpost := [] |}).
    destruct (kroots (seq 0 n) (repeat false n, o0)) as [[vis o] [E [HJ [Hl [_ V]]]]].
    - unfold JK. simpl.
      split; [intros u G0; rewrite getb_repeat_false in G0; discriminate|].
      split; [intros u []|]. split; [constructor|]. split; [exact I|].
      split; [intros u []|]. split; [constructor|].
      split; [intros x z []|]. split; [intros x a []|].
      intros l1 x l2 y EF. destruct l1; discriminate.
    - apply repeat_length.
    - intros v Hv. apply in_seq in Hv. lia.
    - change (traverse ord_pre ord_post (fun (_ _ : nat) (o : orders) => o) (adjv g) SDFS n)
        with (odfs n).
      rewrite E. exists o. split; auto.
      destruct HJ as [G [_ [_ [_ [R [P [_ [_ Z]]]]]]]]. simpl in *. unfold reverse_post_order.
      split.
      + intros v. split.
        * intros Hv. apply R in Hv. apply getb_lt in Hv. lia.
        * intros Hv. destruct (G v) as [Hi|[]]; auto. apply V. apply in_seq. lia.
      + intros l1 x l2 y EF Hy Ryx Nxy.
        assert (Gy : getb vis y = true) by (apply V; apply in_seq; lia).
        destruct (Z l1 x l2 y EF Gy Ryx Nxy) as [L|[y' [[] _]]]. exact L.
  Qed.
End First.
