(** C14 — Prim, preliminaries: structure of undirected constructed graphs, light paths, reversed
    sequential forests, permutation invariance. *)
From Algo.C14 Require Import Spec ProofsBasic ProofsSpt ProofsMsf1 ProofsMsf2 ProofsDijkstra.

(** * every edge struct of an undirected constructed graph sits in both adjacency lists *)
Definition Both (g : graph) : Prop :=
  forall v e, In e (adj_edges g v) -> In e (adj_edges g (e_a e)) /\ In e (adj_edges g (e_b e)).

Lemma add_mono g e v x : In x (adj_edges g v) -> In x (adj_edges (add_edge g e) v).
Proof.
  unfold add_edge. destruct ((e_a e <? g_n g) && (e_b e <? g_n g)); auto.
  unfold adj_edges. simpl. intros H. destruct (g_dir g).
  - rewrite app_at_nth. destruct (_ && _) eqn:C; auto.
    apply andb_prop in C. destruct C as [C _]. apply Nat.eqb_eq in C. subst v. apply in_or_app. now left.
  - rewrite !app_at_nth, app_at_length.
    destruct ((v =? e_b e) && (e_b e <? length (g_adj g))) eqn:C1.
    + apply andb_prop in C1. destruct C1 as [C1 _]. apply Nat.eqb_eq in C1. subst v.
      apply in_or_app. left.
      destruct ((e_b e =? e_a e) && (e_a e <? length (g_adj g))) eqn:C2; auto.
      apply andb_prop in C2. destruct C2 as [C2 _]. apply Nat.eqb_eq in C2. rewrite <- C2.
      apply in_or_app. now left.
    + destruct ((v =? e_a e) && (e_a e <? length (g_adj g))) eqn:C2; auto.
      apply andb_prop in C2. destruct C2 as [C2 _]. apply Nat.eqb_eq in C2. subst v.
      apply in_or_app. now left.
Qed.

Lemma add_self g e : wf g -> g_dir g = false -> e_a e < g_n g -> e_b e < g_n g ->
  In e (adj_edges (add_edge g e) (e_a e)) /\ In e (adj_edges (add_edge g e) (e_b e)).
Proof.
  intros [Hl _] D Ha Hb. unfold add_edge.
  rewrite (proj2 (Nat.ltb_lt _ _) Ha), (proj2 (Nat.ltb_lt _ _) Hb). simpl.
  unfold adj_edges. simpl. rewrite D. rewrite !app_at_nth, app_at_length, Hl.
  rewrite (proj2 (Nat.ltb_lt _ _) Ha), (proj2 (Nat.ltb_lt _ _) Hb), !Nat.eqb_refl. simpl.
  split.
  - destruct (e_a e =? e_b e); simpl; [apply in_or_app; right; now left|].
    apply in_or_app; right; now left.
  - apply in_or_app. right. now left.
Qed.

Lemma both_add g e : wf g -> g_dir g = false -> Both g -> Both (add_edge g e).
Proof.
  intros W D B v x Hx.
  destruct ((e_a e <? g_n g) && (e_b e <? g_n g)) eqn:C.
  - apply andb_prop in C. destruct C as [Ca Cb]. apply Nat.ltb_lt in Ca, Cb.
    destruct (adj_edges_add _ _ _ _ Hx) as [Ho| ->].
    + destruct (B v x Ho). split; now apply add_mono.
    + apply add_self; auto.
  - assert (E : add_edge g e = g) by (unfold add_edge; now rewrite C).
    rewrite E in *. exact (B v x Hx).
Qed.

Lemma both_mk n es : Both (mk_graph false n es).
Proof.
  unfold mk_graph.
  assert (G : forall es g, wf g -> g_dir g = false -> Both g -> Both (fold_left add_edge es g)).
  { induction es0 as [|e t IH]; intros g0 W D B; simpl; auto.
    apply IH; [now apply wf_add_edge|now rewrite add_edge_dir|now apply both_add]. }
  apply G; [apply wf_new|reflexivity|].
  intros v e H. exfalso. unfold adj_edges in H. simpl in H. destruct (Nat.ltb_spec v n).
  - rewrite nth_repeat in H; auto.
  - rewrite nth_overflow in H; auto. now rewrite repeat_length.
Qed.

(** * reversed sequential forests (newest edge first) *)
Fixpoint rsf (T : list edge) : Prop :=
  match T with
  | [] => True
  | e :: t => ~ uconn t (e_a e) (e_b e) /\ rsf t
  end.

Lemma sf_snoc : forall l acc e,
    sf acc l -> ~ uconn (l ++ acc) (e_a e) (e_b e) -> sf acc (l ++ [e]).
Proof.
  induction l as [|x t IH]; intros acc e H N; simpl in *.
  - split; auto.
  - destruct H as [H1 H2]. split; auto. apply IH; auto.
    intros R. apply N. eapply uconn_incl; [|exact R].
    intros y Hy. apply in_app_or in Hy. destruct Hy as [Hy|[<-|Hy]].
    + right. apply in_or_app. now left.
    + now left.
    + right. apply in_or_app. now right.
Qed.

Lemma rsf_sf T : rsf T -> sf [] (rev T).
Proof.
  induction T as [|e t IH]; simpl; auto. intros [N R].
  apply sf_snoc; auto. intros C. apply N. eapply uconn_incl; [|exact C].
  intros y Hy. rewrite app_nil_r in Hy. now apply in_rev.
Qed.

Lemma uconn_closed (P : nat -> Prop) T a b :
  (forall e, In e T -> P (e_a e) /\ P (e_b e)) -> uconn T a b -> a = b \/ (P a /\ P b).
Proof.
  intros H R. induction R.
  - now left.
  - right. auto.
  - destruct IHR as [->|[A B]]; auto.
  - destruct IHR1 as [->|[A B]]; auto. destruct IHR2 as [<-|[C D]]; auto.
Qed.

(** * permutation invariance *)
Lemma weight_perm l l' : Permutation l l' -> weight_of l = weight_of l'.
Proof. induction 1; simpl; lia. Qed.

Lemma forest_perm l l' : Permutation l l' -> forest l -> forest l'.
Proof.
  intros P F l1 e l2 E R. subst l'.
  destruct (Permutation_vs_elt_inv _ _ _ P) as [m1 [m2 ->]].
  apply Permutation_app_inv in P.
  apply (F m1 e m2 eq_refl). eapply uconn_incl; [|exact R].
  intros x Hx. eapply Permutation_in; [apply Permutation_sym; exact P|exact Hx].
Qed.

Lemma perm_filter {A} (f : A -> bool) l l' : Permutation l l' -> Permutation (filter f l) (filter f l').
Proof.
  induction 1; simpl; auto.
  - destruct (f x); auto.
  - destruct (f x), (f y); auto. constructor.
  - eapply perm_trans; eauto.
Qed.

Definition nz (e : edge) : bool := negb (edge_eqb e zero_edge).

(** changing a masked-out position to a non-zero edge adds exactly that edge *)
Lemma perm_insert (f f' : nat -> edge) x t : forall l,
    NoDup l -> In x l -> f x = zero_edge -> f' x = t -> nz t = true ->
    (forall y, y <> x -> f' y = f y) ->
    Permutation (t :: filter nz (map f l)) (filter nz (map f' l)).
Proof.
  induction l as [|y l IH]; intros N Hin Fx F'x Ht Hy; [destruct Hin|].
  inversion N as [|? ? Hn N']; subst. simpl. destruct Hin as [->|Hin].
  - rewrite Fx. unfold nz at 1. rewrite edge_eqb_refl. simpl. rewrite Ht.
    constructor.
    assert (E : map f' l = map f l).
    { apply map_ext_in. intros z Hz. apply Hy. intros ->. auto. }
    rewrite E. apply Permutation_refl.
  - assert (y <> x) by (intros ->; auto). rewrite (Hy y H).
    destruct (nz (f y)).
    + eapply perm_trans; [apply perm_swap|]. constructor. apply IH; auto.
    + apply IH; auto.
Qed.
