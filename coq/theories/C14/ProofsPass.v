(** C14 — the model's Kosaraju and Prim outputs always pass the proved checkers. *)
From Algo.C14 Require Import Spec ProofsBasic ProofsTrav ProofsReach ProofsScc ProofsSpt ProofsMsf1 ProofsMsf2
     ProofsDijkstra ProofsScc2 ProofsPrim1 ProofsPrim2 ProofsPrim3.

Lemma check_scc_complete g ids : wf g -> length ids = g_n g ->
  (forall v w, v < g_n g -> w < g_n g -> (getn ids v = getn ids w <-> mutually_reachable g v w)) ->
  check_scc g ids = true.
Proof.
  intros W Hl H. unfold check_scc. rewrite Hl, Nat.eqb_refl. simpl.
  apply forallb_forall. intros v Hv. apply forallb_forall. intros w Hw.
  apply in_seq in Hv, Hw. rewrite !nth_map_seq; try lia.
  apply Bool.eqb_true_iff. apply Bool.eq_iff_eq_true.
  rewrite Nat.eqb_eq, andb_true_iff, (H v w), !reach_from_spec; auto; try lia. reflexivity.
Qed.

Theorem scc_passes n es :
  exists c, strongly_connected_components (mk_graph true n es) = Ok c /\
            check_scc (mk_graph true n es) (snd c) = true.
Proof.
  destruct (scc_correct _ (wf_mk_graph true n es) (mk_graph_dir true n es)) as [c [E [Hl H]]].
  exists c. split; auto. apply check_scc_complete; auto using wf_mk_graph.
  intros v w Hv Hw. apply H; auto.
Qed.

Lemma sf_forest_from n : forall es lab acc,
    inrange n es -> LI n lab acc -> sf acc es -> forest_from lab es = true.
Proof.
  induction es as [|e t IH]; intros lab acc Hr HL H; simpl in *; auto.
  apply inrange_cons in Hr. destruct Hr as [[Ha Hb] Hr]. destruct H as [H1 H2].
  apply andb_true_intro. split.
  - apply negb_true_iff, Nat.eqb_neq. intros E. apply H1.
    apply (li_iff _ _ _ HL). now rewrite !labf_in.
  - eapply IH; eauto. now apply LI_step.
Qed.

Lemma check_msf_complete g T : wf g -> g_dir g = false ->
  (forall e, In e T -> gedge g e /\ e_a e < g_n g /\ e_b e < g_n g) ->
  sf [] T ->
  (forall e, In e (all_edges g) -> uconn (tle (e_w e) T) (e_a e) (e_b e)) ->
  check_msf g T = true.
Proof.
  intros W D P1 P2 P3. unfold check_msf.
  assert (RT : inrange (g_n g) T) by (intros e He; destruct (P1 e He) as [_ [A B]]; auto).
  apply andb_true_intro. split; [apply andb_true_intro; split|].
  - apply forallb_forall. intros e He. destruct (P1 e He) as [G0 [A B]].
    rewrite (proj2 (Nat.ltb_lt _ _) B), andb_true_r. unfold edge_in.
    rewrite (proj2 (Nat.ltb_lt _ _) A). simpl. apply existsb_exists. exists e. split; auto.
    apply edge_eqb_refl.
  - eapply sf_forest_from; eauto. apply LI_init.
  - apply forallb_forall. intros e He. apply Nat.eqb_eq.
    destruct (all_edges_range g W e He) as [A B].
    assert (RF : inrange (g_n g) (tle (e_w e) T)).
    { intros x Hx. apply RT. unfold tle in Hx. apply filter_In in Hx. tauto. }
    pose proof (proj2 (li_iff _ _ _ (labels_LI _ _ RF) (e_a e) (e_b e)) (P3 e He)) as L.
    rewrite !labf_in in L; auto.
Qed.

Theorem prim_passes n es :
  exists f, minimum_spanning_tree (mk_graph false n es) = Ok (f, weight_of f) /\
            check_msf (mk_graph false n es) f = true.
Proof.
  destruct (prim_parts _ (wf_mk_graph false n es) (mk_graph_dir false n es) (both_mk n es))
    as [f [E [P1 [P2 P3]]]].
  exists f. split; auto. apply check_msf_complete; auto using wf_mk_graph, mk_graph_dir.
Qed.
