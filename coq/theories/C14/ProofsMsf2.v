(** C14 — soundness of the minimum-spanning-forest certificate checker [check_msf]:
    an accepted edge set is a spanning forest of minimum total weight (any integer weights). *)
From Algo.C14 Require Import Spec ProofsBasic ProofsSpt ProofsScc ProofsMsf1.

(** * forests: sequential versus "no edge is redundant" *)
Lemma sf_incl : forall es acc acc',
    (forall e, In e acc -> In e acc') -> sf acc' es -> sf acc es.
Proof.
  induction es as [|e t IH]; intros acc acc' Hi H; simpl in *; auto.
  destruct H as [H1 H2]. split.
  - intros R. apply H1. eapply uconn_incl; eauto.
  - apply (IH _ (e :: acc')); auto. intros x [<-|Hx]; [now left|right; auto].
Qed.

Lemma sf_filter (P : edge -> bool) : forall es acc, sf acc es -> sf acc (filter P es).
Proof.
  induction es as [|e t IH]; intros acc H; simpl in *; auto.
  destruct H as [H1 H2]. destruct (P e); simpl.
  - split; auto.
  - apply (sf_incl _ acc (e :: acc)); auto. intros x Hx. now right.
Qed.

Lemma forest_sf es : forest es -> sf [] es.
Proof.
  intros F.
  assert (G : forall es acc,
             (forall l1 e l2, es = l1 ++ e :: l2 -> ~ uconn (acc ++ l1) (e_a e) (e_b e)) -> sf acc es).
  { induction es0 as [|e t IH]; intros acc H; simpl; auto. split.
    - specialize (H [] e t eq_refl). now rewrite app_nil_r in H.
    - apply IH. intros l1 e' l2 E R. apply (H (e :: l1) e' l2); [simpl; now rewrite E|].
      eapply uconn_incl; [|exact R]. intros x Hx. apply in_app_or in Hx. apply in_or_app.
      destruct Hx as [[<-|Hx]|Hx]; [right; now left|now left|right; now right]. }
  apply G. intros l1 e l2 E R. apply (F l1 e l2 E).
  eapply uconn_incl; [|exact R]. intros x Hx. simpl in Hx. apply in_or_app. now left.
Qed.

Lemma sf_forest n es : inrange n es -> sf [] es -> forest es.
Proof.
  intros Hr Sf l1 e l2 E R.
  set (Rm := l1 ++ l2) in *.
  assert (HrR : inrange n Rm).
  { intros x Hx. apply Hr. rewrite E. unfold Rm in Hx. apply in_app_or in Hx. apply in_or_app.
    destruct Hx; [now left|right; now right]. }
  assert (S1 : forall u v, uconn es u v -> uconn Rm u v).
  { intros u v C. apply (uconn_redundant Rm e); auto.
    eapply uconn_incl; [|exact C]. intros x Hx. rewrite E in Hx. apply in_app_or in Hx.
    unfold Rm. destruct Hx as [Hx|[<-|Hx]]; [right; apply in_or_app; now left|now left|
                                             right; apply in_or_app; now right]. }
  pose proof (count_forest n es Hr Sf) as C1.
  pose proof (count_any n Rm HrR) as C2.
  pose proof (fixc_finer n _ es _ Rm (labels_LI n es Hr) (labels_LI n Rm HrR) S1) as C3.
  assert (length es = S (length Rm)).
  { rewrite E. unfold Rm. rewrite !app_length. simpl. lia. }
  lia.
Qed.

(** * weights: domination of the threshold counts implies domination of the sums *)
Local Open Scope Z_scope.

Definition cnt_le (t : Z) (es : list edge) : nat := length (filter (fun e => e_w e <=? t) es).
Definition cnt_gt (t : Z) (es : list edge) : nat := length (filter (fun e => negb (e_w e <=? t)) es).

Lemma cnt_split t es : (cnt_le t es + cnt_gt t es = length es)%nat.
Proof.
  unfold cnt_le, cnt_gt. induction es as [|e l IH]; simpl; auto.
  destruct (e_w e <=? t); simpl; lia.
Qed.

Fixpoint capsum (L : Z) (K : nat) (es : list edge) : Z :=
  match es with
  | [] => 0
  | e :: t => Z.min (Z.of_nat K) (e_w e - L) + capsum L K t
  end.

Lemma capsum_S L K es :
  capsum L (S K) es = capsum L K es + Z.of_nat (cnt_gt (L + Z.of_nat K) es).
Proof.
  unfold cnt_gt. induction es as [|e t IH]; simpl; auto.
  rewrite IH. destruct (Z.leb_spec (e_w e) (L + Z.of_nat K)); simpl negb; cbv iota.
  - simpl length. lia.
  - simpl length. lia.
Qed.

Lemma capsum_full L K es :
  (forall e, In e es -> L <= e_w e <= L + Z.of_nat K) ->
  capsum L K es = weight_of es - L * Z.of_nat (length es).
Proof.
  induction es as [|e t IH]; intros H; simpl; [lia|].
  rewrite IH; [|intros x Hx; apply H; now right].
  specialize (H e (or_introl eq_refl)). lia.
Qed.

Definition wmin (es : list edge) : Z := fold_right (fun e m => Z.min (e_w e) m) 0 es.
Definition wmax (es : list edge) : Z := fold_right (fun e m => Z.max (e_w e) m) 0 es.

Lemma wbounds es e : In e es -> wmin es <= e_w e <= wmax es.
Proof.
  induction es as [|x t IH]; intros []; simpl.
  - subst. lia.
  - specialize (IH H). lia.
Qed.

Lemma capsum_0 L es : (forall e, In e es -> L <= e_w e) -> capsum L 0 es = 0.
Proof.
  induction es as [|e t IH]; intros H; simpl; auto.
  rewrite IH; [|intros x Hx; apply H; now right]. specialize (H e (or_introl eq_refl)). lia.
Qed.

Lemma weight_dominated A B :
  length A = length B -> (forall t, (cnt_le t B <= cnt_le t A)%nat) ->
  weight_of A <= weight_of B.
Proof.
  intros Hlen Hd.
  set (L := Z.min (wmin A) (wmin B)). set (U := Z.max (wmax A) (wmax B)).
  set (K := Z.to_nat (U - L)).
  assert (HA : forall e, In e A -> L <= e_w e <= L + Z.of_nat K).
  { intros e He. pose proof (wbounds A e He). unfold K, L, U. lia. }
  assert (HB : forall e, In e B -> L <= e_w e <= L + Z.of_nat K).
  { intros e He. pose proof (wbounds B e He). unfold K, L, U. lia. }
  assert (C : forall k, capsum L k A <= capsum L k B).
  { induction k as [|k IH].
    - rewrite !capsum_0; [lia| |]; intros e He; [apply HB in He|apply HA in He]; lia.
    - rewrite !capsum_S.
      pose proof (cnt_split (L + Z.of_nat k) A). pose proof (cnt_split (L + Z.of_nat k) B).
      specialize (Hd (L + Z.of_nat k)). lia. }
  specialize (C K). rewrite (capsum_full L K A HA), (capsum_full L K B HB) in C.
  rewrite Hlen in C. lia.
Qed.

Local Close Scope Z_scope.

Lemma uconn_map A B u v :
  (forall e, In e A -> uconn B (e_a e) (e_b e)) -> uconn A u v -> uconn B u v.
Proof.
  intros H R. induction R.
  - apply uc_refl.
  - auto.
  - now apply uc_sym.
  - eapply uc_trans; eauto.
Qed.

Section Msf.
  Variable g : graph.
  Hypothesis W : wf g.
  Hypothesis D : g_dir g = false.
  Hypothesis Hsym : forall u w, edge_rel g u w -> edge_rel g w u.
  Let n := g_n g.

  Lemma adj_edges_lt v e : In e (adj_edges g v) -> v < n.
  Proof.
    intros H. destruct W as [Hl _]. unfold n. rewrite <- Hl. unfold adj_edges in H.
    destruct (Nat.ltb_spec v (length (g_adj g))); auto. rewrite nth_overflow in H; auto. destruct H.
  Qed.

  Lemma all_edges_in e : In e (all_edges g) <-> exists v, In e (adj_edges g v).
  Proof.
    unfold all_edges. rewrite in_flat_map. split.
    - intros [v [_ H]]. eauto.
    - intros [v H]. exists v. split; auto. apply in_seq. pose proof (adj_edges_lt v e H). fold n. lia.
  Qed.

  Lemma gedge_all e : gedge g e -> In e (all_edges g).
  Proof. intros H. apply all_edges_in. eauto. Qed.

  Lemma all_edges_range : inrange n (all_edges g).
  Proof.
    intros e H. apply all_edges_in in H. destruct H as [v H].
    destruct W as [_ Ha]. destruct (Ha v e H) as [A [B _]]. auto.
  Qed.

  Lemma edge_uconn u w : edge_rel g u w -> uconn (all_edges g) u w.
  Proof.
    intros H. unfold edge_rel, adjv in H. apply in_map_iff in H. destruct H as [e [E He]].
    assert (Hi : In e (all_edges g)) by (apply all_edges_in; eauto).
    destruct W as [_ Ha]. destruct (Ha u e He) as [_ [_ C]]. rewrite D in C, E. simpl in E.
    destruct (Nat.eqb_spec u (e_a e)) as [->|Hne].
    - subst w. now apply uc_edge.
    - destruct C as [C|C]; [congruence|]. subst. apply uc_sym. now apply uc_edge.
  Qed.

  Lemma reach_uconn u v : reach g u v -> uconn (all_edges g) u v.
  Proof.
    induction 1 as [v|a b c E R IH]; [apply uc_refl|].
    eapply uc_trans; eauto. now apply edge_uconn.
  Qed.

  Lemma all_edge_rel e : In e (all_edges g) -> edge_rel g (e_a e) (e_b e).
  Proof.
    intros H. apply all_edges_in in H. destruct H as [v H].
    destruct W as [_ Ha]. destruct (Ha v e H) as [_ [_ C]]. rewrite D in C.
    assert (Ev : edge_rel g v (nbr false v e)).
    { unfold edge_rel, adjv. rewrite D. apply in_map. exact H. }
    unfold nbr in Ev.
    destruct (Nat.eqb_spec v (e_a e)) as [->|Hne]; auto.
    destruct C as [C|C]; [congruence|]. subst v. apply Hsym. exact Ev.
  Qed.

  Lemma reach_sym' u v : reach g u v -> reach g v u.
  Proof.
    induction 1 as [v|a b c E R IH]; [constructor|].
    eapply reach_snoc; eauto.
  Qed.

  Lemma uconn_reach u v : uconn (all_edges g) u v -> reach g u v.
  Proof.
    induction 1.
    - constructor.
    - eapply reach_step; [apply all_edge_rel; auto|constructor].
    - now apply reach_sym'.
    - eapply reach_trans; eauto.
  Qed.

  Definition tle (t : Z) (es : list edge) : list edge := filter (fun f => (e_w f <=? t)%Z) es.

  Lemma tle_incl t es e : In e (tle t es) -> In e es.
  Proof. unfold tle. intros H. apply filter_In in H. tauto. Qed.

  Lemma tle_mono t t' es e : (t <= t')%Z -> In e (tle t es) -> In e (tle t' es).
  Proof.
    unfold tle. intros Ht H. apply filter_In in H. destruct H as [H1 H2]. apply filter_In.
    split; auto. apply Z.leb_le in H2. apply Z.leb_le. lia.
  Qed.

  Lemma inrange_sub es es' : (forall e, In e es' -> In e es) -> inrange n es -> inrange n es'.
  Proof. intros H R e He. apply R. auto. Qed.

  Theorem msf_of_parts T :
    (forall e, In e T -> gedge g e /\ e_a e < n /\ e_b e < n) ->
    sf [] T ->
    (forall e, In e (all_edges g) -> uconn (tle (e_w e) T) (e_a e) (e_b e)) ->
    spanning_forest g T /\
    forall T', spanning_forest g T' -> (weight_of T <= weight_of T')%Z.
  Proof.
    intros P1 P2 P3.
    assert (RT : inrange n T) by (intros e He; destruct (P1 e He) as [_ [A B]]; auto).
    assert (TG : forall u v, uconn T u v -> uconn (all_edges g) u v).
    { intros u v. apply uconn_incl. intros e He. apply gedge_all. apply P1. auto. }
    assert (GT : forall u v, uconn (all_edges g) u v -> uconn T u v).
    { intros u v. apply uconn_map. intros e He.
      eapply uconn_incl; [|apply (P3 e He)]. apply tle_incl. }
    assert (SF : spanning_forest g T).
    { split; [exact P1|]. split; [eapply sf_forest; eauto|].
      intros u v Hu Hv. split.
      - intros R. apply uconn_reach. auto.
      - intros R. apply GT. now apply reach_uconn. }
    split; auto.
    intros T' [Q1 [Q2 Q3]].
    assert (RT' : inrange n T') by (intros e He; destruct (Q1 e He) as [_ [A B]]; auto).
    assert (S' : sf [] T') by now apply forest_sf.
    (* same connectivity, hence the same number of edges *)
    assert (E1 : forall u v, uconn T u v -> uconn T' u v).
    { intros u v R. destruct (uconn_range n T u v RT R) as [->|[Hu Hv]]; [apply uc_refl|].
      apply Q3; auto. apply uconn_reach. auto. }
    assert (E2 : forall u v, uconn T' u v -> uconn T u v).
    { intros u v R. destruct (uconn_range n T' u v RT' R) as [->|[Hu Hv]]; [apply uc_refl|].
      apply GT. apply reach_uconn. apply Q3; auto. }
    pose proof (forest_size_le n T T' RT RT' P2 E1) as L1.
    pose proof (forest_size_le n T' T RT' RT S' E2) as L2.
    apply weight_dominated; [lia|].
    intros t. unfold cnt_le. fold (tle t T') (tle t T).
    apply (forest_size_le n).
    - eapply inrange_sub; [apply tle_incl|auto].
    - eapply inrange_sub; [apply tle_incl|auto].
    - unfold tle. now apply sf_filter.
    - intros u v. apply uconn_map. intros e He.
      assert (He' : In e T') by (eapply tle_incl; eauto).
      assert (Hw : (e_w e <= t)%Z).
      { unfold tle in He. apply filter_In in He. destruct He as [_ He]. now apply Z.leb_le. }
      assert (Hg : In e (all_edges g)) by (apply gedge_all; apply Q1; auto).
      eapply uconn_incl; [|apply (P3 e Hg)]. intros x Hx. eapply tle_mono; eauto.
  Qed.

  Variable T : list edge.
  Hypothesis Hck : check_msf g T = true.

  Lemma msf_parts :
    (forall e, In e T -> gedge g e /\ e_a e < n /\ e_b e < n) /\
    sf [] T /\
    (forall e, In e (all_edges g) -> uconn (tle (e_w e) T) (e_a e) (e_b e)).
  Proof.
    pose proof Hck as K. unfold check_msf in K. fold n in K.
    apply andb_prop in K. destruct K as [K K3]. apply andb_prop in K. destruct K as [K1 K2].
    rewrite forallb_forall in K1, K3.
    assert (P1 : forall e, In e T -> gedge g e /\ e_a e < n /\ e_b e < n).
    { intros e He. specialize (K1 e He). apply andb_prop in K1. destruct K1 as [A B].
      destruct (edge_in_true g e A) as [A1 A2]. split; auto. split; auto. now apply Nat.ltb_lt. }
    assert (RT : inrange n T) by (intros e He; destruct (P1 e He) as [_ [A B]]; auto).
    split; auto. split.
    - eapply forest_from_sf; eauto. apply LI_init.
    - intros e He. specialize (K3 e He). apply Nat.eqb_eq in K3.
      destruct (all_edges_range e He) as [Ha Hb].
      assert (RF : inrange n (tle (e_w e) T)) by (eapply inrange_sub; [apply tle_incl|auto]).
      apply (li_iff _ _ _ (labels_LI n _ RF)). rewrite !labf_in; auto.
  Qed.

  Theorem check_msf_sound_sec :
    spanning_forest g T /\
    forall T', spanning_forest g T' -> (weight_of T <= weight_of T')%Z.
  Proof. destruct msf_parts as [P1 [P2 P3]]. now apply msf_of_parts. Qed.
End Msf.

Theorem check_msf_sound n es T :
  check_msf (mk_graph false n es) T = true ->
  spanning_forest (mk_graph false n es) T /\
  forall T', spanning_forest (mk_graph false n es) T' -> (weight_of T <= weight_of T')%Z.
Proof.
  intros H. apply check_msf_sound_sec; auto.
  - apply wf_mk_graph.
  - apply mk_graph_dir.
  - intros u w. apply mk_graph_sym.
Qed.
