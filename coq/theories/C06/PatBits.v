(** C06 — bit-level facts about the zero padded bit strings of the Patricia trie:
    [pbit] by bytes, the specification of [diffpos], bit order = lexicographic order, and
    "equal as padded bit strings = equal" for keys without a trailing 0x00 byte.
    Facts about single bytes are established by exhaustive evaluation over 0..255 ([vm_compute]). *)
From Coq Require Import List NArith ZArith Bool Lia.
From Algo.C06 Require Import Spec SpecFacts ModelPat PatInv.
Import ListNotations.
Open Scope Z_scope.

Definition bytes_ok (k : key) : Prop := Forall (fun x => (x < 256)%N) k.

(** no trailing zero byte *)
Fixpoint ntz (k : key) : Prop :=
  match k with
  | [] => True
  | [c] => c <> 0%N
  | _ :: k' => ntz k'
  end.

(** keys the Patricia encoding can represent faithfully *)
Definition kvalid (k : key) : Prop := bytes_ok k /\ ntz k /\ k <> [].

(** ** pbit by bytes *)
Lemma pbit_nil : forall pos, pbit [] pos = false.
Proof.
  intros pos. unfold pbit, kbit, klen. simpl.
  destruct (Z.gtb_spec pos 0); auto. destruct (Z.leb_spec pos 0); auto. lia.
Qed.

Lemma pbit_cons : forall c k pos, 1 <= pos ->
  pbit (c :: k) pos = if pos <=? 8 then N.testbit c (Z.to_N (8 - pos)) else pbit k (pos - 8).
Proof.
  intros c k pos H. unfold pbit, kbit, klen. cbn [length]. rewrite Nat2Z.inj_succ.
  destruct (Z.leb_spec pos 8) as [LE|GT].
  - destruct (Z.gtb_spec pos (8 * Z.succ (Z.of_nat (length k)))); [lia|].
    destruct (Z.leb_spec pos 0); [lia|].
    replace ((pos - 1) / 8) with 0 by (symmetry; apply Z.div_small; lia).
    rewrite (Z.mod_small (pos - 1) 8) by lia. change (Z.to_nat 0) with 0%nat. cbn [nth].
    now replace (7 - (pos - 1)) with (8 - pos) by lia.
  - destruct (Z.gtb_spec pos (8 * Z.succ (Z.of_nat (length k)))) as [BIG|IN].
    + destruct (Z.gtb_spec (pos - 8) (8 * Z.of_nat (length k))); [reflexivity | lia].
    + destruct (Z.leb_spec pos 0); [lia|].
      destruct (Z.gtb_spec (pos - 8) (8 * Z.of_nat (length k))); [lia|].
      destruct (Z.leb_spec (pos - 8) 0); [lia|].
      replace (pos - 1) with ((pos - 8 - 1) + 1 * 8) by lia.
      rewrite Z.div_add, Z.mod_add by lia.
      assert (Q : 0 <= (pos - 8 - 1) / 8) by (apply Z.div_pos; lia).
      replace (Z.to_nat ((pos - 8 - 1) / 8 + 1)) with (S (Z.to_nat ((pos - 8 - 1) / 8))) by lia.
      reflexivity.
Qed.

(** ** single bytes, by exhaustive evaluation *)
Definition bbit (u : N) (q : nat) : bool := N.testbit u (N.of_nat (8 - q)).
Definition bytes256 : list N := map N.of_nat (seq 0 256).

Definition agree_before (u v : N) (q : nat) : bool :=
  forallb (fun q' => Bool.eqb (bbit u q') (bbit v q')) (seq 1 (q - 1)).

(** the first differing bit decides the order *)
Definition tbl_order (u v : N) : bool :=
  forallb (fun q => implb (agree_before u v q && negb (bbit u q) && bbit v q) (u <? v)%N) (seq 1 8).

(** 9 - size (u xor v) is the first differing bit *)
Definition tbl_diff (u v : N) : bool :=
  (u =? v)%N ||
  (let q := (9 - N.to_nat (N.size (N.lxor u v)))%nat in
   (1 <=? q)%nat && (q <=? 8)%nat && agree_before u v q && negb (Bool.eqb (bbit u q) (bbit v q))).

Lemma byte_tables : forallb (fun u => forallb (fun v => tbl_order u v && tbl_diff u v) bytes256) bytes256 = true.
Proof. vm_compute. reflexivity. Qed.

Lemma in_bytes256 : forall u, (u < 256)%N -> In u bytes256.
Proof.
  intros u H. unfold bytes256. apply in_map_iff. exists (N.to_nat u). split; [apply N2Nat.id|].
  apply in_seq. lia.
Qed.

Lemma byte_tbl : forall u v, (u < 256)%N -> (v < 256)%N -> tbl_order u v = true /\ tbl_diff u v = true.
Proof.
  intros u v Hu Hv. pose proof byte_tables as T. rewrite forallb_forall in T.
  specialize (T u (in_bytes256 u Hu)). rewrite forallb_forall in T.
  specialize (T v (in_bytes256 v Hv)). now apply andb_true_iff in T.
Qed.

Lemma agree_before_intro : forall u v q,
  (forall q', (1 <= q' < q)%nat -> bbit u q' = bbit v q') -> agree_before u v q = true.
Proof.
  intros u v q H. unfold agree_before. apply forallb_forall. intros q' I. apply in_seq in I.
  rewrite H by lia. apply Bool.eqb_reflx.
Qed.

Lemma agree_before_elim : forall u v q q',
  agree_before u v q = true -> (1 <= q' < q)%nat -> bbit u q' = bbit v q'.
Proof.
  intros u v q q' H I. unfold agree_before in H. rewrite forallb_forall in H.
  apply Bool.eqb_prop. apply H. apply in_seq. lia.
Qed.

Lemma byte_order : forall u v q, (u < 256)%N -> (v < 256)%N -> (1 <= q <= 8)%nat ->
  (forall q', (1 <= q' < q)%nat -> bbit u q' = bbit v q') -> bbit u q = false -> bbit v q = true -> (u < v)%N.
Proof.
  intros u v q Hu Hv Hq A B0 B1. destruct (byte_tbl u v Hu Hv) as [T _]. unfold tbl_order in T.
  rewrite forallb_forall in T. assert (I : In q (seq 1 8)) by (apply in_seq; lia). specialize (T q I).
  rewrite (agree_before_intro u v q A), B0, B1 in T. simpl in T. now apply N.ltb_lt.
Qed.

Lemma byte_diff : forall u v, (u < 256)%N -> (v < 256)%N -> u <> v ->
  let q := (9 - N.to_nat (N.size (N.lxor u v)))%nat in
  (1 <= q <= 8)%nat /\ (forall q', (1 <= q' < q)%nat -> bbit u q' = bbit v q') /\ bbit u q <> bbit v q.
Proof.
  intros u v Hu Hv NE q. destruct (byte_tbl u v Hu Hv) as [_ T]. unfold tbl_diff in T. fold q in T.
  apply orb_true_iff in T as [T | T]; [apply N.eqb_eq in T; contradiction|].
  apply andb_true_iff in T as [T D]. apply andb_true_iff in T as [T A]. apply andb_true_iff in T as [Q1 Q2].
  apply Nat.leb_le in Q1, Q2. split; [lia|]. split.
  - intros q' I. now apply (agree_before_elim u v q q' A).
  - apply negb_true_iff in D. intros E. rewrite E in D. now rewrite Bool.eqb_reflx in D.
Qed.

Lemma byte_eq : forall u v, (u < 256)%N -> (v < 256)%N ->
  (forall q, (1 <= q <= 8)%nat -> bbit u q = bbit v q) -> u = v.
Proof.
  intros u v Hu Hv H. destruct (N.eq_dec u v) as [E|NE]; auto.
  destruct (byte_diff u v Hu Hv NE) as [Q [_ D]]. exfalso. apply D. now apply H.
Qed.

(** pbit of the first byte in terms of [bbit] *)
Lemma pbit_head : forall c k q, (1 <= q <= 8)%nat -> pbit (c :: k) (Z.of_nat q) = bbit c q.
Proof.
  intros c k q H. rewrite pbit_cons by lia. destruct (Z.leb_spec (Z.of_nat q) 8); [|lia].
  unfold bbit. f_equal. lia.
Qed.

Lemma pbit_tail : forall c k pos, 1 <= pos -> pbit (c :: k) (pos + 8) = pbit k pos.
Proof.
  intros c k pos H. rewrite pbit_cons by lia. destruct (Z.leb_spec (pos + 8) 8); [lia|]. f_equal. lia.
Qed.

Lemma bbit_zero : forall q, bbit 0 q = false.
Proof. intros. unfold bbit. apply N.bits_0. Qed.

(** ** bit order is lexicographic order *)
Lemma lex_of_bits : forall x y b, bytes_ok x -> bytes_ok y -> 1 <= b ->
  (forall pos, 1 <= pos < b -> pbit x pos = pbit y pos) -> pbit x b = false -> pbit y b = true -> klt x y.
Proof.
  induction x as [|u x IH]; intros y b Bx By Hb A X0 Y1.
  - destruct y as [|v y]; [rewrite pbit_nil in Y1; discriminate | apply klt_nil_cons].
  - destruct y as [|v y]; [rewrite pbit_nil in Y1; discriminate|].
    inversion Bx as [|? ? Hu Bx']; subst. inversion By as [|? ? Hv By']; subst.
    destruct (Z.leb_spec b 8) as [LE|GT].
    + apply klt_cons_lt. apply (byte_order u v (Z.to_nat b)); auto; try lia.
      * intros q' I. rewrite <- (pbit_head u x q'), <- (pbit_head v y q') by lia. apply A. lia.
      * rewrite <- (pbit_head u x) by lia. now rewrite Z2Nat.id by lia.
      * rewrite <- (pbit_head v y) by lia. now rewrite Z2Nat.id by lia.
    + assert (E : u = v).
      { apply byte_eq; auto. intros q I. rewrite <- (pbit_head u x q), <- (pbit_head v y q) by lia. apply A. lia. }
      subst v. apply klt_cons_same. apply (IH y (b - 8)); auto; try lia.
      * intros pos I. rewrite <- (pbit_tail u x pos), <- (pbit_tail u y pos) by lia. apply A. lia.
      * rewrite <- (pbit_tail u x) by lia. now replace (b - 8 + 8) with b by lia.
      * rewrite <- (pbit_tail u y) by lia. now replace (b - 8 + 8) with b by lia.
Qed.

(** ** DiffPos *)
Definition differ (u v : N) (i : Z) : Z := (i + 1) * 8 - Z.of_N (N.size (N.lxor u v)) + 1.

Lemma diffpos_nil_nil : forall i, diffpos_aux [] [] i = 0.
Proof. reflexivity. Qed.
Lemma diffpos_nil_cons : forall v y i,
  diffpos_aux [] (v :: y) i = if (0 =? v)%N then diffpos_aux [] y (i + 1) else differ 0 v i.
Proof. reflexivity. Qed.
Lemma diffpos_cons_nil : forall u x i,
  diffpos_aux (u :: x) [] i = if (u =? 0)%N then diffpos_aux x [] (i + 1) else differ u 0 i.
Proof. reflexivity. Qed.
Lemma diffpos_cons_cons : forall u x v y i,
  diffpos_aux (u :: x) (v :: y) i = if (u =? v)%N then diffpos_aux x y (i + 1) else differ u v i.
Proof. reflexivity. Qed.

(** what a result of DiffPos means *)
Definition dp_spec (x y : key) (i r : Z) : Prop :=
  (r = 0 /\ forall pos, 1 <= pos -> pbit x pos = pbit y pos) \/
  (exists d, 1 <= d /\ r = 8 * i + d /\
             (forall pos, 1 <= pos < d -> pbit x pos = pbit y pos) /\ pbit x d <> pbit y d).

(** one step: the heads [u], [v] (0 for an exhausted string) and the rest *)
Lemma dp_step : forall (x y x' y' : key) u v i r,
  (u < 256)%N -> (v < 256)%N -> 0 <= i ->
  (forall pos, 1 <= pos -> pbit x pos = if pos <=? 8 then N.testbit u (Z.to_N (8 - pos)) else pbit x' (pos - 8)) ->
  (forall pos, 1 <= pos -> pbit y pos = if pos <=? 8 then N.testbit v (Z.to_N (8 - pos)) else pbit y' (pos - 8)) ->
  (if (u =? v)%N then dp_spec x' y' (i + 1) r else r = differ u v i) ->
  dp_spec x y i r.
Proof.
  intros x y x' y' u v i r Hu Hv Hi PX PY H.
  assert (HD : forall c (k k' : key) q, (1 <= q <= 8)%nat ->
            (forall pos, 1 <= pos -> pbit k pos = if pos <=? 8 then N.testbit c (Z.to_N (8 - pos)) else pbit k' (pos - 8)) ->
            pbit k (Z.of_nat q) = bbit c q).
  { intros c k k' q Q P. rewrite P by lia. destruct (Z.leb_spec (Z.of_nat q) 8); [|lia]. unfold bbit. f_equal. lia. }
  destruct (N.eqb_spec u v) as [->|NE].
  - destruct H as [[R A] | [d [D1 [R [A D]]]]].
    + left. split; auto. intros pos P. rewrite PX, PY by lia. destruct (pos <=? 8) eqn:E; auto.
      apply A. apply Z.leb_gt in E. lia.
    + right. exists (d + 8). split; [lia|]. split; [lia|]. split.
      * intros pos P. rewrite PX, PY by lia. destruct (Z.leb_spec pos 8); auto. apply A. lia.
      * rewrite PX, PY by lia. destruct (Z.leb_spec (d + 8) 8); [lia|]. now replace (d + 8 - 8) with d by lia.
  - right. destruct (byte_diff u v Hu Hv NE) as [Q [A D]].
    set (q := (9 - N.to_nat (N.size (N.lxor u v)))%nat) in *.
    exists (Z.of_nat q). split; [lia|]. split.
    + rewrite H. unfold differ, q. lia.
    + split.
      * intros pos P. replace pos with (Z.of_nat (Z.to_nat pos)) by lia.
        rewrite (HD u x x'), (HD v y y') by (auto; lia). apply A. lia.
      * rewrite (HD u x x'), (HD v y y') by (auto; lia). exact D.
Qed.

Lemma pbit_nil_step : forall pos, 1 <= pos ->
  pbit [] pos = if pos <=? 8 then N.testbit 0 (Z.to_N (8 - pos)) else pbit [] (pos - 8).
Proof. intros. rewrite !pbit_nil, N.bits_0. now destruct (pos <=? 8). Qed.

Lemma diffpos_aux_spec : forall x y i, bytes_ok x -> bytes_ok y -> 0 <= i -> dp_spec x y i (diffpos_aux x y i).
Proof.
  assert (B0 : (0 < 256)%N) by lia.
  induction x as [|u x IHx].
  - induction y as [|v y IHy]; intros i Bx By Hi.
    + left. split; auto.
    + inversion By as [|? ? Hv By']; subst. rewrite diffpos_nil_cons.
      apply (dp_step [] (v :: y) [] y 0%N v i); auto using pbit_nil_step.
      * intros pos P. now apply pbit_cons.
      * destruct (0 =? v)%N; auto. apply IHy; auto. lia.
  - intros y i Bx By Hi. inversion Bx as [|? ? Hu Bx']; subst. destruct y as [|v y].
    + rewrite diffpos_cons_nil.
      apply (dp_step (u :: x) [] x [] u 0%N i); auto using pbit_nil_step.
      * intros pos P. now apply pbit_cons.
      * destruct (u =? 0)%N; auto. apply IHx; auto. lia.
    + inversion By as [|? ? Hv By']; subst. rewrite diffpos_cons_cons.
      apply (dp_step (u :: x) (v :: y) x y u v i); auto.
      * intros pos P. now apply pbit_cons.
      * intros pos P. now apply pbit_cons.
      * destruct (u =? v)%N; auto. apply IHx; auto. lia.
Qed.

Lemma diffpos_spec : forall x y, bytes_ok x -> bytes_ok y ->
  (diffpos x y = 0 /\ forall pos, 1 <= pos -> pbit x pos = pbit y pos) \/
  (1 <= diffpos x y /\ (forall pos, 1 <= pos < diffpos x y -> pbit x pos = pbit y pos) /\
   pbit x (diffpos x y) <> pbit y (diffpos x y)).
Proof.
  intros x y Bx By. unfold diffpos. destruct (diffpos_aux_spec x y 0 Bx By (Z.le_refl 0)) as [[R A] | [d [D1 [R [A D]]]]].
  - left. auto.
  - right. rewrite R. replace (8 * 0 + d) with d by lia. auto.
Qed.

(** ** keys without trailing zero bytes are determined by their padded bits *)
Lemma all_zero_bits : forall y, bytes_ok y -> (forall pos, 1 <= pos -> pbit y pos = false) -> Forall (fun c => c = 0%N) y.
Proof.
  induction y as [|v y IH]; intros B H; constructor.
  - inversion B as [|? ? Hv B']; subst. apply byte_eq; auto; [lia|]. intros q Q.
    rewrite <- (pbit_head v y q) by lia. rewrite bbit_zero. apply H. lia.
  - inversion B as [|? ? Hv B']; subst. apply IH; auto. intros pos P.
    rewrite <- (pbit_tail v y pos) by lia. apply H. lia.
Qed.

Lemma ntz_zeros : forall y, Forall (fun c => c = 0%N) y -> ntz y -> y = [].
Proof.
  induction y as [|v y IH]; intros Z N; auto. inversion Z as [|? ? Zv Z']; subst.
  destruct y as [|w y]; [simpl in N; congruence|]. specialize (IH Z' N). discriminate.
Qed.

Lemma ntz_tail : forall u x, ntz (u :: x) -> ntz x.
Proof. intros u [|w x] H; simpl in *; auto. Qed.

Lemma padded_eq_eq : forall x y, bytes_ok x -> bytes_ok y -> ntz x -> ntz y ->
  (forall pos, 1 <= pos -> pbit x pos = pbit y pos) -> x = y.
Proof.
  induction x as [|u x IH]; intros y Bx By Nx Ny H.
  - symmetry. apply ntz_zeros; auto. apply all_zero_bits; auto. intros pos P. rewrite <- H by lia. apply pbit_nil.
  - destruct y as [|v y].
    + apply ntz_zeros; auto. apply all_zero_bits; auto. intros pos P. rewrite H by lia. apply pbit_nil.
    + inversion Bx as [|? ? Hu Bx']; subst. inversion By as [|? ? Hv By']; subst.
      assert (E : u = v).
      { apply byte_eq; auto. intros q Q. rewrite <- (pbit_head u x q), <- (pbit_head v y q) by lia. apply H. lia. }
      subst v. f_equal. apply IH; eauto using ntz_tail.
      intros pos P. rewrite <- (pbit_tail u x pos), <- (pbit_tail u y pos) by lia. apply H. lia.
Qed.

(** for representable keys DiffPos is 0 only on equal keys *)
Lemma diffpos_valid : forall x y, kvalid x -> kvalid y -> x <> y ->
  1 <= diffpos x y /\ (forall pos, 1 <= pos < diffpos x y -> pbit x pos = pbit y pos) /\
  pbit x (diffpos x y) <> pbit y (diffpos x y).
Proof.
  intros x y [Bx [Nx _]] [By [Ny _]] NE. destruct (diffpos_spec x y Bx By) as [[_ A] | H]; auto.
  exfalso. apply NE. now apply padded_eq_eq.
Qed.
