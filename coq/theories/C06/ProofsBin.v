(** C06 — the binary trie model refines the sorted-map specification: structure part
    (abstraction function, invariant, Put / Get / Delete). *)
From Coq Require Import List NArith ZArith Bool Lia Sorted.
From Algo.C06 Require Import Spec SpecFacts Model.
Import ListNotations.

Section Proofs.
  Context {V : Type}.
  Notation node := (node V).
  Notation smap := (smap V).

  (** ** abstraction function: the key-values below a node, keys relative to the node's level *)
  Definition self (c : byte) (v : option V) : smap :=
    match v with Some x => [([c], x)] | None => [] end.

  Fixpoint contents (n : node) : smap :=
    match n with
    | Nil => []
    | Node c v l r => self c v ++ map (consk c) (contents l) ++ contents r
    end.

  (** ** invariant: sibling chains strictly increasing, no non-terminal leaf *)
  Definition above (lo : option byte) (c : byte) : Prop :=
    match lo with Some x => (x < c)%N | None => True end.

  Fixpoint wfb (lo : option byte) (n : node) : Prop :=
    match n with
    | Nil => True
    | Node c v l r => above lo c /\ wfb None l /\ wfb (Some c) r /\ (v = None -> l <> Nil)
    end.

  Definition starts (P : byte -> Prop) (e : key * V) : Prop :=
    match fst e with [] => False | c :: _ => P c end.

  Lemma wfb_lower : forall lo c n, wfb (Some c) n -> above lo c -> wfb lo n.
  Proof.
    intros lo c [|c' v l r]; simpl; auto. intros [H1 H2] H3. split; auto.
    destruct lo; simpl in *; auto. lia.
  Qed.

  Lemma wfb_none : forall lo n, wfb lo n -> wfb None n.
  Proof. intros lo [|c' v l r]; simpl; auto. intros [H1 H2]. split; auto. Qed.

  Lemma starts_weaken : forall (P Q : byte -> Prop) (m : smap),
    (forall c, P c -> Q c) -> Forall (starts P) m -> Forall (starts Q) m.
  Proof.
    intros P Q m H F. rewrite Forall_forall in *. intros e He. specialize (F e He).
    unfold starts in *. destruct (fst e); auto.
  Qed.

  Lemma starts_consk : forall (P : byte -> Prop) c (m : smap), P c -> Forall (starts P) (map (consk c) m).
  Proof. intros. apply Forall_forall. intros e He. apply in_map_iff in He as [e' [<- _]]. exact H. Qed.

  Lemma starts_self : forall (P : byte -> Prop) c v, P c -> Forall (starts P) (self c v).
  Proof. intros P c [x|] H; simpl; auto. Qed.

  Lemma contents_starts : forall n lo, wfb lo n -> Forall (starts (above lo)) (contents n).
  Proof.
    induction n as [|c v l IHl r IHr]; intros lo H; simpl; auto.
    destruct H as [H1 [H2 [H3 H4]]]. apply Forall_app. split; [now apply starts_self|].
    apply Forall_app. split; [now apply starts_consk|].
    apply starts_weaken with (P := above (Some c)); auto.
    intros c' Hc. simpl in Hc. destruct lo; simpl in *; auto. lia.
  Qed.

  Lemma contents_keys_nonempty : forall n lo e, wfb lo n -> In e (contents n) -> fst e <> [].
  Proof.
    intros n lo e H I. apply contents_starts in H. rewrite Forall_forall in H. apply H in I.
    unfold starts in I. destruct (fst e); auto. discriminate.
  Qed.

  Lemma sorted_map_consk : forall c (m : smap), sorted m -> sorted (map (consk c) m).
  Proof.
    induction m as [|e m IH]; simpl; intros S; [constructor|].
    apply sorted_cons_inv in S as [S F]. constructor; [apply IH; exact S|].
    rewrite Forall_forall in *. intros x Hx. apply in_map_iff in Hx as [x' [<- Hx]].
    unfold elt, consk. simpl. apply klt_cons_same. now apply F.
  Qed.

  Lemma contents_sorted : forall n lo, wfb lo n -> sorted (contents n).
  Proof.
    induction n as [|c v l IHl r IHr]; intros lo H; simpl; [constructor|].
    destruct H as [H1 [H2 [H3 H4]]].
    pose proof (contents_starts _ _ H3) as SR. rewrite Forall_forall in SR.
    apply sorted_app; [destruct v; repeat constructor | |].
    - apply sorted_app; [apply sorted_map_consk; eauto | eauto |].
      intros e1 e2 I1 I2. apply in_map_iff in I1 as [e' [<- I1]]. apply SR in I2.
      unfold elt, starts, consk in *. simpl in *. destruct (fst e2); [contradiction|]. now apply klt_cons_lt.
    - intros e1 e2 I1 I2. destruct v as [x|]; simpl in I1; [|contradiction]. destruct I1 as [<- | []].
      apply in_app_or in I2 as [I2 | I2].
      + apply in_map_iff in I2 as [e' [<- I2]]. pose proof (contents_keys_nonempty _ _ _ H2 I2) as NE.
        unfold elt, consk. simpl. apply klt_cons_same. destruct (fst e'); [congruence | apply klt_nil_cons].
      + apply SR in I2. unfold elt, starts in *. simpl in *. destruct (fst e2); [contradiction|]. now apply klt_cons_lt.
  Qed.

  Lemma sget_none_starts : forall (P : byte -> Prop) k ks (m : smap),
    Forall (starts P) m -> ~ P k -> sget (k :: ks) m = None.
  Proof.
    intros P k ks m F H. apply sget_none. intros e He E. rewrite Forall_forall in F. apply F in He.
    unfold starts in He. rewrite E in He. contradiction.
  Qed.

  Lemma sget_nil_contents : forall n lo, wfb lo n -> sget [] (contents n) = None.
  Proof.
    intros. apply sget_none. intros e He. eapply contents_keys_nonempty; eauto.
  Qed.

  Lemma keqb_cons_same : forall c a b, keqb (c :: a) (c :: b) = keqb a b.
  Proof. intros. unfold keqb. simpl. now rewrite N.compare_refl. Qed.

  Lemma keqb_cons_neq : forall c c' a b, c <> c' -> keqb (c :: a) (c' :: b) = false.
  Proof. intros. apply keqb_neq. congruence. Qed.

  Lemma sget_self : forall k ks c (v : option V),
    sget (k :: ks) (self c v) = if (c =? k)%N then match ks with [] => v | _ => None end else None.
  Proof.
    intros k ks c [x|]; simpl.
    - destruct (N.eqb_spec c k) as [->|NE].
      + rewrite keqb_cons_same. destruct ks; reflexivity.
      + rewrite keqb_cons_neq; auto.
    - destruct (c =? k)%N; destruct ks; reflexivity.
  Qed.

  Lemma sget_consk_neq : forall k ks c (m : smap), c <> k -> sget (k :: ks) (map (consk c) m) = None.
  Proof.
    intros. apply sget_none. intros e He E. apply in_map_iff in He as [e' [<- _]]. simpl in E. congruence.
  Qed.

  (** the sget of a node's contents, by cases on the first byte *)
  Lemma sget_node : forall lo c v l r k ks, wfb lo (Node c v l r) ->
    sget (k :: ks) (contents (Node c v l r)) =
      if (k <? c)%N then None
      else if (c =? k)%N then match v, ks with Some x, [] => Some x | _, _ => sget ks (contents l) end
      else sget (k :: ks) (contents r).
  Proof.
    intros lo c v l r k ks [H1 [H2 [H3 H4]]]. simpl. rewrite !sget_app, sget_self.
    pose proof (contents_starts _ _ H3) as SR.
    destruct (N.ltb_spec k c) as [LT|GE].
    - assert (NE : (c =? k)%N = false) by (apply N.eqb_neq; lia). rewrite NE.
      rewrite sget_consk_neq by lia. apply sget_none_starts with (P := above (Some c)); auto. simpl. lia.
    - destruct (N.eqb_spec c k) as [->|NE].
      + rewrite sget_map_consk.
        assert (RN : sget (k :: ks) (contents r) = None).
        { apply sget_none_starts with (P := above (Some k)); auto. simpl. lia. }
        rewrite RN. destruct ks as [|k2 ks].
        * rewrite (sget_nil_contents _ _ H2). destruct v; reflexivity.
        * destruct (sget (k2 :: ks) (contents l)); destruct v; reflexivity.
      + rewrite sget_consk_neq by auto. reflexivity.
  Qed.

  (** ** Get *)
  Lemma b_get_correct : forall k n lo, wfb lo n -> b_get k n = sget k (contents n).
  Proof.
    induction k as [|k ks IHk]; intros n lo H.
    - simpl. symmetry. eapply sget_nil_contents; eauto.
    - revert lo H. induction n as [|c v l IHl r IHr]; intros lo H; [reflexivity|].
      rewrite (sget_node lo) by exact H. destruct H as [H1 [H2 [H3 H4]]].
      change (b_get (k :: ks) (Node c v l r))
        with (if (k <? c)%N then None
              else if (c =? k)%N then match v, ks with Some x, [] => Some x | _, _ => b_get ks l end
              else b_get (k :: ks) r).
      destruct (k <? c)%N; auto. destruct (c =? k)%N.
      + rewrite (IHk l None H2). reflexivity.
      + apply (IHr (Some c)); auto.
  Qed.

  Lemma sput_head_eq : forall k (v x : V) (m : smap), sput k v ((k, x) :: m) = (k, v) :: m.
  Proof. intros. simpl. now rewrite lex_cmp_refl. Qed.

  Lemma sput_nonempty : forall k (v : V) (m : smap), sput k v m <> [].
  Proof. intros k v [|[k' v'] m]; simpl; [discriminate|]. destruct (lex_cmp k k'); discriminate. Qed.

  (** ** Put *)
  Definition b_fresh (k : byte) (ks : key) (val : V) (right : node) : node * bool :=
    match ks with
    | [] => (Node k (Some val) Nil right, true)
    | _ :: _ => let (l, a) := b_put ks val Nil in (Node k None l right, a)
    end.

  Lemma b_put_nil : forall k ks val, b_put (k :: ks) val Nil = b_fresh k ks val Nil.
  Proof. reflexivity. Qed.

  Lemma b_put_node : forall k ks val c v l r,
    b_put (k :: ks) val (Node c v l r) =
      if (k <? c)%N then b_fresh k ks val (Node c v l r)
      else if (c =? k)%N then
        match ks with
        | [] => (Node c (Some val) l r, negb (is_some v))
        | _ :: _ => let (l', a) := b_put ks val l in (Node c v l' r, a)
        end
      else let (r', a) := b_put (k :: ks) val r in (Node c v l r', a).
  Proof. reflexivity. Qed.

  Definition put_ok (key : key) (val : V) (lo : option byte) (n : node) : Prop :=
    let (n', added) := b_put key val n in
    wfb lo n' /\ contents n' = sput key val (contents n) /\
    added = negb (is_some (sget key (contents n))).

  Lemma contents_nil_inv : forall n lo, wfb lo n -> contents n <> [] -> n <> Nil.
  Proof. intros n lo H C E. subst. now apply C. Qed.

  Lemma b_put_correct : forall key val n lo,
    key <> [] -> wfb lo n -> above lo (hd 0%N key) -> put_ok key val lo n.
  Proof.
    induction key as [|k ks IHk]; intros val n lo NE H A; [congruence|]. simpl in A.
    (* the fresh chain *)
    assert (FRESH : forall lo' right, above lo' k -> wfb (Some k) right ->
              let (n', added) := b_fresh k ks val right in
              wfb lo' n' /\ contents n' = ((k :: ks), val) :: contents right /\ added = true).
    { intros lo' right A' HR. unfold b_fresh. destruct ks as [|k2 ks2].
      - simpl. repeat split; auto. discriminate.
      - specialize (IHk val Nil None). unfold put_ok in IHk.
        destruct (b_put (k2 :: ks2) val Nil) as [l a].
        destruct IHk as [W [C E]]; simpl; auto; try discriminate.
        simpl in C, E. repeat split; auto.
        + intros _. eapply contents_nil_inv; eauto. rewrite C. discriminate.
        + rewrite C. reflexivity. }
    revert lo H A. induction n as [|c v l IHl r IHr]; intros lo H A; unfold put_ok.
    - rewrite b_put_nil. specialize (FRESH lo Nil A I). destruct (b_fresh k ks val Nil) as [n' added].
      destruct FRESH as [W [C E]]. simpl. repeat split; auto.
    - rewrite b_put_node. pose proof H as [H1 [H2 [H3 H4]]].
      rewrite (sget_node lo) by exact H.
      destruct (N.ltb_spec k c) as [LT|GE].
      + assert (W2 : wfb (Some k) (Node c v l r)). { simpl. repeat split; auto. }
        specialize (FRESH lo _ A W2). destruct (b_fresh k ks val (Node c v l r)) as [n' added].
        destruct FRESH as [W [C E]]. repeat split; auto.
        rewrite C. symmetry. apply sput_lt_all.
        pose proof (contents_starts _ _ W2) as SR. rewrite Forall_forall in *. intros e He. apply SR in He.
        unfold starts in He. simpl in He. destruct (fst e) as [|c' k'] eqn:E2; [contradiction|].
        now apply klt_cons_lt.
      + destruct (N.eqb_spec c k) as [->|NEQ].
        * (* same byte: descend or mark *)
          pose proof (contents_starts _ _ H3) as SR.
          assert (RGT : Forall (fun e : key * V => klt (k :: ks) (fst e)) (contents r)).
          { rewrite Forall_forall in *. intros e He. apply SR in He. unfold starts in He. simpl in He.
            destruct (fst e); [contradiction|]. now apply klt_cons_lt. }
          destruct ks as [|k2 ks2].
          -- simpl. repeat split; auto; try discriminate.
             ++ destruct v as [x|]; cbn [self app].
                ** now rewrite sput_head_eq.
                ** symmetry. apply sput_lt_all. apply Forall_app. split; auto.
                   apply Forall_forall. intros e He. apply in_map_iff in He as [e' [<- He]].
                   pose proof (contents_keys_nonempty _ _ _ H2 He) as NE2. simpl.
                   apply klt_cons_same. destruct (fst e'); [congruence | apply klt_nil_cons].
             ++ destruct v; [reflexivity | do 2 f_equal; symmetry; exact (sget_nil_contents _ _ H2)].
          -- specialize (IHk val l None). unfold put_ok in IHk.
             destruct (b_put (k2 :: ks2) val l) as [l' a].
             destruct IHk as [W [C E]]; simpl; auto; try discriminate.
             repeat split; auto.
             ++ intros _. eapply contents_nil_inv; eauto. rewrite C. apply sput_nonempty.
             ++ simpl. rewrite C. rewrite (app_assoc (self k v) (map (consk k) (contents l)) (contents r)).
                rewrite sput_app_lt by exact RGT. rewrite sput_app_gt.
                ** now rewrite sput_map_consk, <- app_assoc.
                ** destruct v; simpl; auto. constructor; auto. simpl. apply klt_cons_same. apply klt_nil_cons.
             ++ rewrite E. destruct v; reflexivity.
        * (* larger byte: go right *)
          specialize (IHr (Some c) H3). unfold put_ok in IHr.
          assert (A2 : above (Some c) k) by (simpl; lia). specialize (IHr A2).
          destruct (b_put (k :: ks) val r) as [r' a]. destruct IHr as [W [C E]].
          repeat split; auto.
          simpl. rewrite C. rewrite (app_assoc (self c v) (map (consk c) (contents l)) (contents r)).
          rewrite sput_app_gt; [now rewrite <- app_assoc|].
          apply Forall_app. split.
          -- destruct v; simpl; auto. constructor; auto. simpl. apply klt_cons_lt. lia.
          -- apply Forall_forall. intros e He. apply in_map_iff in He as [e' [<- He]]. simpl. apply klt_cons_lt. lia.
  Qed.

  (** ** Delete *)
  Lemma b_delete_node : forall k ks c v l r,
    b_delete (k :: ks) (Node c v l r) =
      if (k <? c)%N then (Node c v l r, @None V)
      else if (c =? k)%N then
        let '(v', l', res) :=
          match ks with
          | [] => match v with Some x => (None, l, Some x) | None => (v, l, None) end
          | _ :: _ => let (l', res) := b_delete ks l in (v, l', res)
          end in
        if is_nil l' && negb (is_some v') then (r, res) else (Node c v' l' r, res)
      else let (r', res) := b_delete (k :: ks) r in (Node c v l r', res).
  Proof. reflexivity. Qed.

  Definition delete_ok (key : key) (lo : option byte) (n : node) : Prop :=
    let (n', res) := b_delete key n in
    wfb lo n' /\ contents n' = sdel key (contents n) /\ res = sget key (contents n).

  Lemma is_nil_true : forall n : node, is_nil n = true -> n = Nil.
  Proof. intros []; simpl; auto. discriminate. Qed.

  Lemma sdel_node_mid : forall k ks (L R : smap),
    (forall e, In e R -> fst e <> k :: ks) ->
    sdel (k :: ks) (map (consk k) L ++ R) = map (consk k) (sdel ks L) ++ R.
  Proof.
    intros k ks L R HR. destruct (sget ks L) as [x|] eqn:E.
    - rewrite sdel_app_in by (exists x; now rewrite sget_map_consk). now rewrite sdel_map_consk.
    - pose proof (sget_none_inv _ _ E) as NI.
      rewrite sdel_app_notin.
      + rewrite (sdel_notin _ R) by exact HR. now rewrite (sdel_notin _ L) by exact NI.
      + intros e He EQ. apply in_map_iff in He as [e' [<- He]]. simpl in EQ. injection EQ as EQ.
        now apply (NI e').
  Qed.

  Lemma b_delete_correct : forall key n lo, key <> [] -> wfb lo n -> delete_ok key lo n.
  Proof.
    induction key as [|k ks IHk]; intros n lo NE H; [congruence|].
    revert lo H. induction n as [|c v l IHl r IHr]; intros lo H; unfold delete_ok.
    - simpl. auto.
    - rewrite b_delete_node. pose proof H as [H1 [H2 [H3 H4]]].
      rewrite (sget_node lo) by exact H.
      pose proof (contents_starts _ _ H3) as SR.
      destruct (N.ltb_spec k c) as [LT|GE].
      + repeat split; auto. symmetry. apply sdel_notin. intros e He E.
        assert (W2 : wfb (Some k) (Node c v l r)) by (simpl; repeat split; auto).
        pose proof (contents_starts _ _ W2) as SN2. rewrite Forall_forall in SN2. apply SN2 in He.
        unfold starts in He. rewrite E in He. simpl in He. lia.
      + destruct (N.eqb_spec c k) as [->|NEQ].
        * assert (RN : forall e, In e (contents r) -> fst e <> k :: ks).
          { intros e He E. rewrite Forall_forall in SR. apply SR in He. unfold starts in He.
            rewrite E in He. simpl in He. lia. }
          destruct ks as [|k2 ks2].
          -- destruct v as [x|].
             ++ cbn [is_some negb]. rewrite andb_true_r. destruct (is_nil l) eqn:EN.
                ** apply is_nil_true in EN. subst l. cbn [contents self map app sdel]. rewrite keqb_refl.
                   repeat split; auto. eapply wfb_lower; eauto.
                ** cbn [contents self map app sdel]. rewrite keqb_refl. repeat split; auto.
                   intros _ EL. subst l. discriminate.
             ++ cbn [is_some negb]. rewrite andb_true_r. destruct (is_nil l) eqn:EN.
                ** apply is_nil_true in EN. exfalso. now apply H4.
                ** repeat split; auto.
                   --- cbn [contents self app]. rewrite sdel_node_mid by exact RN.
                       rewrite (sdel_notin [] (contents l)); auto.
                       intros e He. exact (contents_keys_nonempty _ _ _ H2 He).
                   --- symmetry. exact (sget_nil_contents _ _ H2).
          -- specialize (IHk l None). unfold delete_ok in IHk.
             destruct (b_delete (k2 :: ks2) l) as [l' res].
             destruct IHk as [W [C E]]; auto; try discriminate.
             assert (CE : self k v ++ map (consk k) (contents l') ++ contents r
                          = sdel (k :: k2 :: ks2) (contents (Node k v l r))).
             { cbn [contents]. rewrite sdel_app_notin.
               - rewrite sdel_node_mid by exact RN. now rewrite C.
               - intros e He EQ. destruct v; simpl in He; [|contradiction]. destruct He as [<- | []]. discriminate. }
             assert (RE : res = match v with Some _ | _ => sget (k2 :: ks2) (contents l) end)
               by (destruct v; exact E).
             destruct (is_nil l' && negb (is_some v)) eqn:PR.
             ++ apply andb_true_iff in PR as [PR1 PR2]. apply is_nil_true in PR1. subst l'.
                destruct v; [discriminate|].
                repeat split; auto; try (eapply wfb_lower; eauto); try (rewrite <- CE; reflexivity).
             ++ repeat split; auto. intros EV EL. subst v l'. discriminate.
        * specialize (IHr (Some c) H3). unfold delete_ok in IHr.
          destruct (b_delete (k :: ks) r) as [r' res]. destruct IHr as [W [C E]].
          repeat split; auto.
          cbn [contents]. rewrite C.
          rewrite (app_assoc (self c v) (map (consk c) (contents l)) (contents r)).
          rewrite sdel_app_notin; [now rewrite <- app_assoc|].
          intros e He EQ. apply in_app_or in He as [He | He].
          -- destruct v; simpl in He; [|contradiction]. destruct He as [<- | []]. simpl in EQ. congruence.
          -- apply in_map_iff in He as [e' [<- He]]. simpl in EQ. congruence.
  Qed.
End Proofs.
