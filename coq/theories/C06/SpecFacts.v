(** C06 — facts about the specification: the lexicographic order, sorted association lists, and
    the characterisations that justify reading the list definitions of Spec.v as "the longest held
    prefix", "exactly the held keys starting with p", "same length, * matches any byte". *)
From Coq Require Import List NArith ZArith Bool Lia Sorted.
From Algo.C06 Require Import Spec.
Import ListNotations.

(** ** lexicographic order *)

Definition klt (a b : key) : Prop := lex_cmp a b = Lt.

Lemma lex_cmp_refl : forall a, lex_cmp a a = Eq.
Proof. induction a as [|x a IH]; simpl; auto. now rewrite N.compare_refl. Qed.

Lemma lex_cmp_eq : forall a b, lex_cmp a b = Eq -> a = b.
Proof.
  induction a as [|x a IH]; destruct b as [|y b]; simpl; try discriminate; auto.
  destruct (N.compare x y) eqn:E; try discriminate.
  apply N.compare_eq in E. intros H. f_equal; auto.
Qed.

Lemma lex_cmp_antisym : forall a b, lex_cmp b a = CompOpp (lex_cmp a b).
Proof.
  induction a as [|x a IH]; destruct b as [|y b]; simpl; auto.
  rewrite (N.compare_antisym x y). destruct (N.compare x y); simpl; auto.
Qed.

Lemma klt_trans : forall a b c, klt a b -> klt b c -> klt a c.
Proof.
  unfold klt. induction a as [|x a IH]; destruct b as [|y b]; destruct c as [|z c]; simpl; try discriminate; auto.
  destruct (N.compare x y) eqn:E1; destruct (N.compare y z) eqn:E2; try discriminate; intros H1 H2.
  - apply N.compare_eq in E1, E2. subst. rewrite N.compare_refl. eauto.
  - apply N.compare_eq in E1. subst. now rewrite E2.
  - apply N.compare_eq in E2. subst. now rewrite E1.
  - rewrite N.compare_lt_iff in E1, E2. assert (E : (x < z)%N) by lia.
    rewrite <- N.compare_lt_iff in E. now rewrite E.
Qed.

Lemma klt_irrefl : forall a, ~ klt a a.
Proof. unfold klt. intros a. rewrite lex_cmp_refl. discriminate. Qed.

Lemma klt_gt : forall a b, klt a b <-> lex_cmp b a = Gt.
Proof.
  unfold klt. intros a b. rewrite (lex_cmp_antisym a b). destruct (lex_cmp a b); simpl; split; congruence.
Qed.

Lemma keqb_eq : forall a b, keqb a b = true <-> a = b.
Proof.
  unfold keqb. intros a b. split.
  - destruct (lex_cmp a b) eqn:E; try discriminate. intros _. now apply lex_cmp_eq.
  - intros ->. now rewrite lex_cmp_refl.
Qed.

Lemma keqb_refl : forall a, keqb a a = true.
Proof. intros. now apply keqb_eq. Qed.

Lemma keqb_neq : forall a b, keqb a b = false <-> a <> b.
Proof.
  intros a b. split.
  - intros H E. apply keqb_eq in E. congruence.
  - intros H. destruct (keqb a b) eqn:E; auto. apply keqb_eq in E. contradiction.
Qed.

Lemma keqb_sym : forall a b, keqb a b = keqb b a.
Proof.
  intros a b. destruct (keqb a b) eqn:E.
  - apply keqb_eq in E. subst. now rewrite keqb_refl.
  - symmetry. apply keqb_neq. apply keqb_neq in E. congruence.
Qed.

Lemma kltb_lt : forall a b, kltb a b = true <-> klt a b.
Proof. unfold kltb, klt. intros a b. destruct (lex_cmp a b); split; congruence. Qed.

Lemma kleb_nlt : forall a b, kleb a b = negb (kltb b a).
Proof.
  unfold kleb, kltb. intros a b. rewrite (lex_cmp_antisym a b). destruct (lex_cmp a b); reflexivity.
Qed.

Lemma kleb_le : forall a b, kleb a b = true <-> (klt a b \/ a = b).
Proof.
  unfold kleb, klt. intros a b. destruct (lex_cmp a b) eqn:E; split; intros H; try discriminate; auto.
  - right. now apply lex_cmp_eq.
  - destruct H as [H | ->]; try discriminate. rewrite lex_cmp_refl in E. discriminate.
Qed.

Lemma klt_cons_same : forall c a b, klt (c :: a) (c :: b) <-> klt a b.
Proof. unfold klt. intros. simpl. rewrite N.compare_refl. tauto. Qed.

Lemma klt_cons_lt : forall x y a b, (x < y)%N -> klt (x :: a) (y :: b).
Proof. unfold klt. intros. simpl. rewrite <- N.compare_lt_iff in H. now rewrite H. Qed.

Lemma klt_nil_cons : forall x a, klt [] (x :: a).
Proof. reflexivity. Qed.

(** ** prefixes and patterns *)

Lemma is_prefix_iff : forall p k, is_prefix p k = true <-> exists s, k = p ++ s.
Proof.
  induction p as [|x p IH]; intros k; simpl.
  - split; eauto.
  - destruct k as [|y k].
    + split; [discriminate | intros [s H]; discriminate].
    + rewrite andb_true_iff, N.eqb_eq, IH. split.
      * intros [-> [s ->]]. eauto.
      * intros [s H]. injection H as -> ->. eauto.
Qed.

Lemma is_prefix_refl : forall k, is_prefix k k = true.
Proof. intros. apply is_prefix_iff. exists []. now rewrite app_nil_r. Qed.

Lemma is_prefix_length : forall p k, is_prefix p k = true -> length p <= length k.
Proof. intros p k H. apply is_prefix_iff in H as [s ->]. rewrite app_length. lia. Qed.

(** two prefixes of the same string: the shorter one is a prefix of the longer one *)
Lemma is_prefix_chain : forall p q s,
  is_prefix p s = true -> is_prefix q s = true -> length p <= length q -> is_prefix p q = true.
Proof.
  induction p as [|x p IH]; intros q s Hp Hq Hl; simpl; auto.
  destruct s as [|z s]; simpl in Hp; try discriminate.
  destruct q as [|y q]; simpl in Hl; try lia.
  simpl in Hq. apply andb_true_iff in Hp as [Hx Hp]. apply andb_true_iff in Hq as [Hy Hq].
  apply N.eqb_eq in Hx, Hy. subst. rewrite N.eqb_refl. simpl. apply (IH q s); auto. lia.
Qed.

(** a proper prefix is smaller *)
Lemma is_prefix_le : forall p k, is_prefix p k = true -> klt p k \/ p = k.
Proof.
  induction p as [|x p IH]; intros k H.
  - destruct k; [now right | now left].
  - destruct k as [|y k]; simpl in H; try discriminate.
    apply andb_true_iff in H as [Hx H]. apply N.eqb_eq in Hx. subst.
    destruct (IH k H) as [L | ->]; [left | now right]. now apply klt_cons_same.
Qed.

Lemma klt_length_prefix : forall p q, is_prefix p q = true -> klt p q -> length p < length q.
Proof.
  intros p q H L. apply is_prefix_iff in H as [s ->]. destruct s.
  - rewrite app_nil_r in L. now apply klt_irrefl in L.
  - rewrite app_length. simpl. lia.
Qed.

Lemma matches_iff : forall pat k,
  matches pat k = true <->
  length pat = length k /\
  forall i, i < length pat -> nth i pat 0%N = star \/ nth i pat 0%N = nth i k 0%N.
Proof.
  induction pat as [|p pat IH]; intros k; destruct k as [|c k]; cbn [matches length].
  - split; [intros _; split; [reflexivity | intros i Hi; lia] | reflexivity].
  - split; [discriminate | intros [H _]; discriminate].
  - split; [discriminate | intros [H _]; discriminate].
  - rewrite andb_true_iff, orb_true_iff, !N.eqb_eq, IH. split.
    + intros [Hp [Hl Hn]]. split; [lia|]. intros [|i] Hi; [exact Hp|]. cbn [nth]. apply Hn. lia.
    + intros [Hl Hn]. split; [apply (Hn 0); lia|]. split; [lia|].
      intros i Hi. apply (Hn (S i)). lia.
Qed.

(** ** sorted association lists *)

Section Facts.
  Context {V : Type}.
  Notation smap := (smap V).

  Definition elt (e1 e2 : key * V) : Prop := klt (fst e1) (fst e2).
  Definition sorted (m : smap) : Prop := StronglySorted elt m.

  Lemma sorted_nil : sorted [].
  Proof. constructor. Qed.

  Lemma sorted_cons_inv : forall e m, sorted (e :: m) -> sorted m /\ Forall (elt e) m.
  Proof. intros e m H. inversion H; subst. auto. Qed.

  Lemma sorted_app : forall m1 m2,
    sorted m1 -> sorted m2 -> (forall e1 e2, In e1 m1 -> In e2 m2 -> elt e1 e2) -> sorted (m1 ++ m2).
  Proof.
    induction m1 as [|e m1 IH]; intros m2 H1 H2 H; simpl; auto.
    apply sorted_cons_inv in H1 as [H1 F]. constructor.
    - apply IH; auto. intros. apply H; simpl; auto.
    - apply Forall_app. split; auto. apply Forall_forall. intros x Hx. apply H; simpl; auto.
  Qed.

  Lemma sorted_app_inv : forall m1 m2, sorted (m1 ++ m2) ->
    sorted m1 /\ sorted m2 /\ (forall e1 e2, In e1 m1 -> In e2 m2 -> elt e1 e2).
  Proof.
    induction m1 as [|e m1 IH]; intros m2 H; simpl in *.
    - repeat split; auto. constructor. intros ? ? [].
    - apply sorted_cons_inv in H as [H F]. apply IH in H as [H1 [H2 H3]].
      apply Forall_app in F as [F1 F2]. repeat split; auto.
      + constructor; auto.
      + intros e1 e2 [<- | H4] H5; auto. rewrite Forall_forall in F2. auto.
  Qed.

  (** sget *)
  Lemma sget_app : forall k (m1 m2 : smap),
    sget k (m1 ++ m2) = match sget k m1 with Some v => Some v | None => sget k m2 end.
  Proof.
    induction m1 as [|[k' v'] m1 IH]; intros; simpl; auto. destruct (keqb k k'); auto.
  Qed.

  Lemma sget_none : forall k (m : smap), (forall e, In e m -> fst e <> k) -> sget k m = None.
  Proof.
    induction m as [|[k' v'] m IH]; intros H; simpl; auto.
    assert (E : keqb k k' = false). { apply keqb_neq. intros ->. apply (H (k', v')); simpl; auto. }
    rewrite E. apply IH. intros. apply H. simpl; auto.
  Qed.

  Lemma sget_none_inv : forall k (m : smap), sget k m = None -> forall e, In e m -> fst e <> k.
  Proof.
    induction m as [|[k' v'] m IH]; simpl; intros H e He; [contradiction|].
    destruct (keqb k k') eqn:E; [discriminate|]. destruct He as [<- | He]; auto.
    simpl. apply keqb_neq in E. congruence.
  Qed.

  Lemma sget_In : forall k v (m : smap), sget k m = Some v -> In (k, v) m.
  Proof.
    induction m as [|[k' v'] m IH]; simpl; try discriminate.
    destruct (keqb k k') eqn:E; intros H.
    - apply keqb_eq in E. subst. injection H as ->. auto.
    - auto.
  Qed.

  Lemma In_sget : forall k v (m : smap), sorted m -> In (k, v) m -> sget k m = Some v.
  Proof.
    induction m as [|[k' v'] m IH]; simpl; intros S H; try contradiction.
    apply sorted_cons_inv in S as [S F]. destruct H as [H | H].
    - injection H as -> ->. now rewrite keqb_refl.
    - assert (E : keqb k k' = false).
      { apply keqb_neq. intros ->. rewrite Forall_forall in F. apply F in H. now apply klt_irrefl in H. }
      rewrite E. auto.
  Qed.

  Lemma Forall_elt_trans : forall e1 e2 (m : smap), elt e1 e2 -> Forall (elt e2) m -> Forall (elt e1) m.
  Proof.
    intros e1 e2 m H F. rewrite Forall_forall in *. intros x Hx. eapply klt_trans; eauto. now apply F.
  Qed.

  (** sput *)
  Lemma sput_In : forall k v (m : smap) e, In e (sput k v m) -> e = (k, v) \/ In e m.
  Proof.
    induction m as [|[k' v'] m IH]; simpl; intros e H.
    - destruct H as [<- | []]. auto.
    - destruct (lex_cmp k k'); simpl in H.
      + destruct H as [<- | H]; auto.
      + destruct H as [<- | H]; auto.
      + destruct H as [<- | H]; auto. apply IH in H as [H | H]; auto.
  Qed.

  Lemma sput_sorted : forall k v (m : smap), sorted m -> sorted (sput k v m).
  Proof.
    induction m as [|[k' v'] m IH]; simpl; intros S.
    - repeat constructor.
    - apply sorted_cons_inv in S as [S F]. destruct (lex_cmp k k') eqn:E.
      + apply lex_cmp_eq in E. subst. constructor; auto.
      + constructor; [constructor; auto|]. constructor; auto.
        apply Forall_elt_trans with (e2 := (k', v')); auto.
      + constructor; [apply IH; exact S|]. apply Forall_forall. intros e He. apply sput_In in He as [-> | He].
        * unfold elt. simpl. now apply klt_gt.
        * rewrite Forall_forall in F. auto.
  Qed.

  Lemma sput_lt_all : forall k v (m : smap), Forall (fun e => klt k (fst e)) m -> sput k v m = (k, v) :: m.
  Proof.
    intros k v [|[k' v'] m] F; simpl; auto.
    apply Forall_inv in F. simpl in F. unfold klt in F. now rewrite F.
  Qed.

  Lemma sput_app_gt : forall k v (m1 m2 : smap),
    Forall (fun e => klt (fst e) k) m1 -> sput k v (m1 ++ m2) = m1 ++ sput k v m2.
  Proof.
    induction m1 as [|[k' v'] m1 IH]; intros m2 F; simpl; auto.
    inversion F as [|? ? F1 F2]; subst. simpl in F1. apply klt_gt in F1. rewrite F1. f_equal. auto.
  Qed.

  Lemma sput_app_lt : forall k v (m1 m2 : smap),
    Forall (fun e => klt k (fst e)) m2 -> sput k v (m1 ++ m2) = sput k v m1 ++ m2.
  Proof.
    induction m1 as [|[k' v'] m1 IH]; intros m2 F; simpl.
    - now apply sput_lt_all.
    - destruct (lex_cmp k k'); simpl; auto. f_equal. auto.
  Qed.

  Definition consk (c : byte) (e : key * V) : key * V := (c :: fst e, snd e).

  Lemma sput_map_consk : forall c k v (m : smap),
    sput (c :: k) v (map (consk c) m) = map (consk c) (sput k v m).
  Proof.
    induction m as [|[k' v'] m IH]; simpl; auto.
    rewrite N.compare_refl. destruct (lex_cmp k k'); simpl; auto. f_equal. auto.
  Qed.

  (** sdel *)
  Lemma sdel_notin : forall k (m : smap), (forall e, In e m -> fst e <> k) -> sdel k m = m.
  Proof.
    induction m as [|[k' v'] m IH]; intros H; simpl; auto.
    assert (E : keqb k k' = false). { apply keqb_neq. intros ->. apply (H (k', v')); simpl; auto. }
    rewrite E. f_equal. apply IH. intros. apply H. simpl; auto.
  Qed.

  Lemma sdel_app_notin : forall k (m1 m2 : smap),
    (forall e, In e m1 -> fst e <> k) -> sdel k (m1 ++ m2) = m1 ++ sdel k m2.
  Proof.
    induction m1 as [|[k' v'] m1 IH]; intros m2 H; simpl; auto.
    assert (E : keqb k k' = false). { apply keqb_neq. intros ->. apply (H (k', v')); simpl; auto. }
    rewrite E. f_equal. apply IH. intros. apply H. simpl; auto.
  Qed.

  Lemma sdel_app_in : forall k (m1 m2 : smap),
    (exists v, sget k m1 = Some v) -> sdel k (m1 ++ m2) = sdel k m1 ++ m2.
  Proof.
    induction m1 as [|[k' v'] m1 IH]; intros m2 [v H]; simpl in *; try discriminate.
    destruct (keqb k k'); auto. simpl. f_equal. eauto.
  Qed.

  Lemma sdel_map_consk : forall c k (m : smap),
    sdel (c :: k) (map (consk c) m) = map (consk c) (sdel k m).
  Proof.
    induction m as [|[k' v'] m IH]; simpl; auto.
    unfold keqb. simpl. rewrite N.compare_refl. fold (keqb k k'). destruct (keqb k k'); simpl; auto. f_equal; auto.
  Qed.

  Lemma sget_map_consk : forall c k (m : smap), sget (c :: k) (map (consk c) m) = sget k m.
  Proof.
    induction m as [|[k' v'] m IH]; simpl; auto.
    unfold keqb. simpl. rewrite N.compare_refl. fold (keqb k k'). destruct (keqb k k'); auto.
  Qed.

  Lemma sdel_In : forall k (m : smap) e, In e (sdel k m) -> In e m.
  Proof.
    induction m as [|[k' v'] m IH]; simpl; intros e H; auto.
    destruct (keqb k k'); simpl in *; auto. destruct H; auto.
  Qed.

  Lemma sdel_sorted : forall k (m : smap), sorted m -> sorted (sdel k m).
  Proof.
    induction m as [|[k' v'] m IH]; simpl; intros S; auto.
    apply sorted_cons_inv in S as [S F]. destruct (keqb k k'); auto.
    constructor; [apply IH; exact S|]. apply Forall_forall. intros e He. apply sdel_In in He.
    rewrite Forall_forall in F. auto.
  Qed.

  (** the map laws *)
  Lemma sget_sput : forall k v k' (m : smap),
    sget k' (sput k v m) = if keqb k' k then Some v else sget k' m.
  Proof.
    induction m as [|[k2 v2] m IH]; simpl.
    - destruct (keqb k' k); auto.
    - destruct (lex_cmp k k2) eqn:E; simpl.
      + apply lex_cmp_eq in E. subst. destruct (keqb k' k2); auto.
      + destruct (keqb k' k); auto.
      + rewrite IH. destruct (keqb k' k2) eqn:E2; auto.
        apply keqb_eq in E2. subst. assert (E3 : keqb k2 k = false).
        { apply keqb_neq. intros ->. rewrite lex_cmp_refl in E. discriminate. }
        now rewrite E3.
  Qed.

  Lemma sget_sdel : forall k k' (m : smap), sorted m ->
    sget k' (sdel k m) = if keqb k' k then None else sget k' m.
  Proof.
    induction m as [|[k2 v2] m IH]; simpl; intros S.
    - destruct (keqb k' k); auto.
    - apply sorted_cons_inv in S as [S F]. destruct (keqb k k2) eqn:E.
      + apply keqb_eq in E. subst. destruct (keqb k' k2) eqn:E2; auto.
        apply keqb_eq in E2. subst. apply sget_none. intros e He Hk.
        rewrite Forall_forall in F. apply F in He. unfold elt in He. simpl in He. rewrite Hk in He.
        now apply klt_irrefl in He.
      + simpl. rewrite IH; auto. destruct (keqb k' k) eqn:E1; auto.
        apply keqb_eq in E1. subst. rewrite E. reflexivity.
  Qed.

  (** extensionality of sorted maps *)
  Lemma sorted_ext : forall m1 m2 : smap,
    sorted m1 -> sorted m2 -> (forall e, In e m1 <-> In e m2) -> m1 = m2.
  Proof.
    induction m1 as [|e1 m1 IH]; intros m2 S1 S2 H.
    - destruct m2 as [|e2 m2]; auto. destruct (proj2 (H e2)); simpl; auto.
    - destruct m2 as [|e2 m2]. { destruct (proj1 (H e1)); simpl; auto. }
      apply sorted_cons_inv in S1 as [S1 F1]. apply sorted_cons_inv in S2 as [S2 F2].
      rewrite Forall_forall in F1, F2.
      assert (E : e1 = e2).
      { destruct (proj1 (H e1)) as [E | I1]; simpl; auto.
        destruct (proj2 (H e2)) as [E | I2]; simpl; auto.
        exfalso. apply F1 in I2. apply F2 in I1. apply (klt_irrefl (fst e1)). eapply klt_trans; eauto. }
      subst. f_equal. apply IH; auto. intros e. split; intros I.
      + destruct (proj1 (H e)) as [E | ?]; simpl; auto. subst. apply F1 in I. now apply klt_irrefl in I.
      + destruct (proj2 (H e)) as [E | ?]; simpl; auto. subst. apply F2 in I. now apply klt_irrefl in I.
  Qed.

  (** ** last_error *)
  Lemma last_error_app_cons : forall (A : Type) (l : list A) x, last_error (l ++ [x]) = Some x.
  Proof.
    induction l as [|y l IH]; intros; simpl; auto. rewrite IH. destruct (l ++ [x]) eqn:E; auto.
    destruct l; discriminate.
  Qed.

  Lemma last_error_app : forall (A : Type) (l1 l2 : list A),
    last_error (l1 ++ l2) = match last_error l2 with Some x => Some x | None => last_error l1 end.
  Proof.
    intros A l1 l2. revert l1. induction l2 as [|x l2 IH] using rev_ind; intros l1.
    - now rewrite app_nil_r.
    - rewrite app_assoc, !last_error_app_cons. reflexivity.
  Qed.

  Lemma last_error_In : forall (A : Type) (l : list A) x, last_error l = Some x -> In x l.
  Proof.
    induction l as [|y l IH]; simpl; try discriminate. intros x. destruct l.
    - intros [= ->]. auto.
    - intros H. right. auto.
  Qed.

  Lemma last_error_split : forall (A : Type) (l : list A) x, last_error l = Some x -> exists l', l = l' ++ [x].
  Proof.
    intros A l. induction l as [|y l IH] using rev_ind; intros x H; try discriminate.
    rewrite last_error_app_cons in H. injection H as ->. eauto.
  Qed.

  Lemma last_error_none : forall (A : Type) (l : list A), last_error l = None -> l = [].
  Proof.
    intros A l. destruct l as [|y l] using rev_ind; auto. rewrite last_error_app_cons. discriminate.
  Qed.

  Lemma last_error_map : forall (A B : Type) (f : A -> B) l,
    last_error (map f l) = option_map f (last_error l).
  Proof.
    intros A B f l. induction l as [|x l IH] using rev_ind; auto.
    rewrite map_app. simpl. now rewrite !last_error_app_cons.
  Qed.

  Lemma last_error_rev : forall (A : Type) (l : list A), last_error (rev l) = hd_error l.
  Proof. intros A [|x l]; simpl; auto. apply last_error_app_cons. Qed.

  (** ** what the query definitions mean *)

  Lemma s_withprefix_spec : forall p (m : smap) k v,
    In (k, v) (s_withprefix p m) <-> In (k, v) m /\ exists s, k = p ++ s.
  Proof.
    intros. unfold s_withprefix. rewrite filter_In. simpl. now rewrite is_prefix_iff.
  Qed.

  Lemma s_match_spec : forall pat (m : smap) k v,
    In (k, v) (s_match pat m) <->
    In (k, v) m /\ length pat = length k /\
    forall i, i < length pat -> nth i pat 0%N = star \/ nth i pat 0%N = nth i k 0%N.
  Proof.
    intros. unfold s_match. rewrite filter_In. simpl. now rewrite matches_iff.
  Qed.

  (** WithPrefix and Match results are listed in ascending order, like every list result *)
  Lemma filter_sorted : forall f (m : smap), sorted m -> sorted (filter f m).
  Proof.
    induction m as [|e m IH]; simpl; intros S; auto.
    apply sorted_cons_inv in S as [S F]. destruct (f e); [|apply IH; exact S]. constructor; [apply IH; exact S|].
    rewrite Forall_forall in *. intros x Hx. apply filter_In in Hx as [Hx _]. auto.
  Qed.

  (** LongestPrefixOf: the answer is held, is a prefix of s, and no held prefix of s is longer;
      no answer means no held key is a prefix of s. *)
  Lemma s_longestprefix_spec : forall s (m : smap), sorted m ->
    match s_longestprefix s m with
    | Some (k, v) =>
        In (k, v) m /\ is_prefix k s = true /\
        forall k' v', In (k', v') m -> is_prefix k' s = true -> length k' <= length k
    | None => forall k' v', In (k', v') m -> is_prefix k' s = false
    end.
  Proof.
    intros s m S. unfold s_longestprefix.
    destruct (last_error (filter (fun e => is_prefix (fst e) s) m)) as [[k v]|] eqn:E.
    - pose proof (last_error_In _ _ _ E) as I. apply filter_In in I as [I P]. simpl in P.
      split; auto. split; auto. intros k' v' I' P'.
      apply last_error_split in E as [l' E].
      assert (I2 : In (k', v') (l' ++ [(k, v)])). { rewrite <- E. apply filter_In. auto. }
      apply in_app_or in I2 as [I2 | [I2 | []]].
      + assert (S' : sorted (l' ++ [(k, v)])). { rewrite <- E. now apply filter_sorted. }
        apply sorted_app_inv in S' as [_ [_ S']]. specialize (S' _ _ I2 (or_introl eq_refl)).
        unfold elt in S'. simpl in S'.
        destruct (Nat.le_gt_cases (length k') (length k)) as [L | L]; auto.
        exfalso. assert (P2 : is_prefix k k' = true). { apply (is_prefix_chain k k' s); auto. lia. }
        apply is_prefix_le in P2 as [P2 | ->].
        * apply (klt_irrefl k). eapply klt_trans; eauto.
        * now apply klt_irrefl in S'.
      + injection I2 as -> ->. lia.
    - apply last_error_none in E. intros k' v' I'.
      destruct (is_prefix k' s) eqn:P; auto.
      assert (I2 : In (k', v') (filter (fun e => is_prefix (fst e) s) m)). { apply filter_In. auto. }
      rewrite E in I2. contradiction.
  Qed.

  (** Floor: the greatest held key <= k; Ceiling: the least held key >= k. *)
  Lemma s_floor_spec : forall k (m : smap), sorted m ->
    match s_floor k m with
    | Some (k0, v) => In (k0, v) m /\ kleb k0 k = true /\
                      forall k' v', In (k', v') m -> kleb k' k = true -> kleb k' k0 = true
    | None => forall k' v', In (k', v') m -> kleb k' k = false
    end.
  Proof.
    intros k m S. unfold s_floor.
    destruct (last_error (filter (fun e => kleb (fst e) k) m)) as [[k0 v]|] eqn:E.
    - pose proof (last_error_In _ _ _ E) as I. apply filter_In in I as [I P]. simpl in P.
      split; auto. split; auto. intros k' v' I' P'.
      apply last_error_split in E as [l' E].
      assert (I2 : In (k', v') (l' ++ [(k0, v)])). { rewrite <- E. apply filter_In. auto. }
      assert (S' : sorted (l' ++ [(k0, v)])). { rewrite <- E. now apply filter_sorted. }
      apply sorted_app_inv in S' as [_ [_ S']].
      apply in_app_or in I2 as [I2 | [I2 | []]].
      + specialize (S' _ _ I2 (or_introl eq_refl)). apply kleb_le. now left.
      + injection I2 as -> ->. apply kleb_le. now right.
    - apply last_error_none in E. intros k' v' I'.
      destruct (kleb k' k) eqn:P; auto.
      assert (I2 : In (k', v') (filter (fun e => kleb (fst e) k) m)). { apply filter_In. auto. }
      rewrite E in I2. contradiction.
  Qed.

  Lemma s_ceiling_spec : forall k (m : smap), sorted m ->
    match s_ceiling k m with
    | Some (k0, v) => In (k0, v) m /\ kleb k k0 = true /\
                      forall k' v', In (k', v') m -> kleb k k' = true -> kleb k0 k' = true
    | None => forall k' v', In (k', v') m -> kleb k k' = false
    end.
  Proof.
    intros k m S. unfold s_ceiling.
    destruct (filter (fun e => kleb k (fst e)) m) as [|[k0 v] l] eqn:E; simpl.
    - intros k' v' I'. destruct (kleb k k') eqn:P; auto.
      assert (I2 : In (k', v') (filter (fun e => kleb k (fst e)) m)). { apply filter_In. auto. }
      rewrite E in I2. contradiction.
    - assert (I : In (k0, v) (filter (fun e => kleb k (fst e)) m)). { rewrite E. simpl. auto. }
      apply filter_In in I as [I P]. simpl in P. split; auto. split; auto. intros k' v' I' P'.
      assert (I2 : In (k', v') ((k0, v) :: l)). { rewrite <- E. apply filter_In. auto. }
      assert (S' : sorted ((k0, v) :: l)). { rewrite <- E. now apply filter_sorted. }
      apply sorted_cons_inv in S' as [_ F]. rewrite Forall_forall in F.
      destruct I2 as [I2 | I2].
      + injection I2 as -> ->. apply kleb_le. now right.
      + apply F in I2. apply kleb_le. now left.
  Qed.

  (** the state reached by a history is always a sorted map *)
  Lemma s_step_sorted : forall (m : smap) e, sorted m -> sorted (fst (s_step m e)).
  Proof.
    intros m e S. destruct e; simpl; auto using sput_sorted, sdel_sorted, sorted_nil.
    - destruct m; simpl; auto. now apply sorted_cons_inv in S.
    - destruct m as [|x m] using rev_ind; auto. rewrite removelast_last.
      now apply sorted_app_inv in S.
  Qed.
End Facts.
