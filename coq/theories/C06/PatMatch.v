(** C06 — Patricia Match in every state that passes [p_inv_check]: the pattern-directed descent
    visits every thread whose key matches, and [bitPattern.Matches] filters the rest. *)
From Coq Require Import List NArith ZArith Bool Lia.
From Algo.C06 Require Import Spec SpecFacts Model ModelPat ProofsBinQ PatInv PatBits.
Import ListNotations.
Open Scope Z_scope.

Lemma pat_matches_eq : forall p k, pat_matches p k = matches p k.
Proof.
  induction p as [|x p IH]; destruct k as [|y k]; cbn [pat_matches matches]; auto.
Qed.

Definition pb (b : N) (pos : Z) : ModelPat.pbit :=
  if (b =? star)%N then PStar else if N.testbit b (Z.to_N (8 - pos)) then P1 else P0.

Lemma patbit_nil : forall pos, 1 <= pos -> patbit [] pos = ROk P0.
Proof. intros pos H. unfold patbit, klen. simpl. destruct (Z.gtb_spec pos 0); auto. lia. Qed.

Lemma patbit_cons : forall c k pos, 1 <= pos ->
  patbit (c :: k) pos = if pos <=? 8 then ROk (pb c pos) else patbit k (pos - 8).
Proof.
  intros c k pos H. unfold patbit, klen, pb. cbn [length]. rewrite Nat2Z.inj_succ.
  destruct (Z.leb_spec pos 8) as [LE|GT].
  - destruct (Z.gtb_spec pos (8 * Z.succ (Z.of_nat (length k)))); [lia|].
    destruct (Z.leb_spec pos 0); [lia|].
    replace ((pos - 1) / 8) with 0 by (symmetry; apply Z.div_small; lia).
    rewrite (Z.mod_small (pos - 1) 8) by lia. change (Z.to_nat 0) with 0%nat. cbn [nth].
    replace (7 - (pos - 1)) with (8 - pos) by lia. now destruct (c =? star)%N.
  - destruct (Z.gtb_spec pos (8 * Z.succ (Z.of_nat (length k)))) as [BIG|IN].
    + destruct (Z.gtb_spec (pos - 8) (8 * Z.of_nat (length k))); [reflexivity | lia].
    + destruct (Z.leb_spec pos 0); [lia|].
      destruct (Z.gtb_spec (pos - 8) (8 * Z.of_nat (length k))); [lia|].
      destruct (Z.leb_spec (pos - 8) 0); [lia|].
      replace (pos - 1) with ((pos - 8 - 1) + 1 * 8) by lia.
      rewrite Z.div_add, Z.mod_add by lia.
      assert (Q : 0 <= (pos - 8 - 1) / 8) by (apply Z.div_pos; lia).
      replace (Z.to_nat ((pos - 8 - 1) / 8 + 1)) with (S (Z.to_nat ((pos - 8 - 1) / 8))) by lia.
      reflexivity.
Qed.

(** the pattern bit is never a panic at a real bit position *)
Lemma patbit_ok : forall p pos, 1 <= pos -> exists b, patbit p pos = ROk b.
Proof.
  intros p pos H. unfold patbit. destruct (pos >? klen p); eauto.
  destruct (Z.leb_spec pos 0); [lia|]. destruct (_ =? star)%N; eauto.
Qed.

(** a matching key agrees with the pattern bit wherever that is not '*' *)
Lemma matches_patbit : forall p k pos, matches p k = true -> 1 <= pos ->
  patbit p pos = ROk PStar \/ patbit p pos = ROk (if PatInv.pbit k pos then P1 else P0).
Proof.
  induction p as [|x p IH]; intros k pos M H; destruct k as [|y k]; simpl in M; try discriminate.
  - right. rewrite patbit_nil, pbit_nil by lia. reflexivity.
  - apply andb_true_iff in M as [XY M]. rewrite patbit_cons, pbit_cons by lia.
    destruct (Z.leb_spec pos 8).
    + unfold pb. destruct (N.eqb_spec x star); [left; reflexivity|]. right.
      simpl in XY. apply N.eqb_eq in XY. now subst y.
    + apply IH; auto. lia.
Qed.

Section Match.
  Context {V : Type}.
  Notation pnode := (pnode V).
  Notation heap := (list pnode).

  Definition mfilter (pat : key) (l : list pnode) : list (key * V) :=
    map kv_of (filter (fun n => matches pat (n_key n)) l).

  Lemma entries_node : forall (h : heap) i l r, entries h (PNode i l r) = entries h l ++ entries h r.
  Proof. intros. unfold entries. simpl. now rewrite flat_map_app. Qed.

  (** no key on the wrong side of a pattern bit matches *)
  Lemma side_nomatch : forall (h : heap) pat T b (want : bool),
    1 <= b ->
    forallb (fun j => Bool.eqb (PatInv.pbit (nkey h j) b) want) (leaves T) = true ->
    patbit pat b = ROk (if want then P0 else P1) ->
    filter (fun n : pnode => matches pat (n_key n)) (entries h T) = [].
  Proof.
    intros h pat T b want B1 F PB. apply filter_none. intros n Hn.
    apply entries_In in Hn as [j [Hj Hn]]. rewrite forallb_forall in F. specialize (F j Hj).
    apply Bool.eqb_prop in F. unfold nkey in F. rewrite Hn in F.
    destruct (matches pat (n_key n)) eqn:M; auto. exfalso.
    destruct (matches_patbit pat (n_key n) b M B1) as [E | E]; rewrite PB in E.
    - destruct want; discriminate.
    - rewrite F in E. destruct want; discriminate.
  Qed.

  Lemma match_unfold : forall pat f (h : heap) pbp prev pn c T g acc,
    unfold f h pbp c = Some T -> good h T = true ->
    nth_error h prev = Some pn -> n_bp pn = pbp -> 0 <= pbp -> (f <= g)%nat ->
    match_loop g h pat prev c acc = ROk (acc ++ mfilter pat (entries h T)).
  Proof.
    intros pat. induction f as [|f IH]; intros h pbp prev pn c T g acc H G Hp Hb Hz Hg; simpl in H; [discriminate|].
    destruct g as [|g]; [lia|]. cbn [match_loop]. unfold hget at 1. rewrite Hp. cbn [rbind].
    destruct (nth_error h c) as [cn|] eqn:E; [|discriminate]. unfold hget at 1. rewrite E. cbn [rbind]. rewrite Hb.
    destruct (n_bp cn <=? pbp) eqn:LE.
    - injection H as <-. unfold mfilter, entries. simpl. rewrite E. simpl. rewrite pat_matches_eq.
      destruct (matches pat (n_key cn)); simpl; [reflexivity | now rewrite app_nil_r].
    - apply Z.leb_gt in LE.
      destruct (n_left cn) as [l|] eqn:EL; [|discriminate]. destruct (n_right cn) as [r|] eqn:ER; [|discriminate].
      destruct (unfold f h (n_bp cn) l) as [tl|] eqn:El; [|discriminate].
      destruct (unfold f h (n_bp cn) r) as [tr|] eqn:Er; [|discriminate].
      injection H as <-. simpl in G. unfold nbp in G. rewrite E in G.
      apply andb_true_iff in G as [G Gr]. apply andb_true_iff in G as [G Gl]. apply andb_true_iff in G as [GL GR].
      rewrite entries_node. unfold mfilter. rewrite filter_app, map_app.
      assert (IL : forall acc, match_loop g h pat c l acc = ROk (acc ++ mfilter pat (entries h tl)))
        by (intros; apply (IH h (n_bp cn) c cn l tl g); auto; lia).
      assert (IR : forall acc, match_loop g h pat c r acc = ROk (acc ++ mfilter pat (entries h tr)))
        by (intros; apply (IH h (n_bp cn) c cn r tr g); auto; lia).
      destruct (patbit_ok pat (n_bp cn)) as [b PB]; [lia|]. rewrite PB. cbn [rbind]. destruct b.
      + cbn [link rbind]. rewrite IL. unfold mfilter.
        rewrite (side_nomatch h pat tr (n_bp cn) true); [now rewrite app_nil_r | lia | | exact PB].
        apply forallb_forall. intros j Hj. rewrite forallb_forall in GR. now rewrite (GR j Hj).
      + cbn [link rbind]. rewrite IR. unfold mfilter.
        rewrite (side_nomatch h pat tl (n_bp cn) false); [reflexivity | lia | | exact PB].
        apply forallb_forall. intros j Hj. rewrite forallb_forall in GL. specialize (GL j Hj).
        apply negb_true_iff in GL. now rewrite GL.
      + cbn [link rbind]. rewrite IL. cbn [rbind]. rewrite IR. unfold mfilter. now rewrite app_assoc.
  Qed.

  Lemma mfilter_map : forall pat (l : list pnode),
    map kv_of (filter (fun n => matches pat (n_key n)) l) = filter (fun e => matches pat (fst e)) (map kv_of l).
  Proof.
    induction l as [|n l IH]; simpl; auto. destruct (matches pat (n_key n)); simpl; now rewrite IH.
  Qed.

  Theorem p_match_correct : forall (t : pstate V) pat, p_inv_check t = true ->
    p_match t pat = ROk (s_match pat (p_contents t)).
  Proof.
    intros t pat CHK. unfold p_match. destruct (proot t) as [r|] eqn:R.
    - destruct (inv_check_nonempty t r CHK R) as [rn [c [T I]]].
      destruct I as [Proot Prn Pleft Pright Pbp Punf Pgood Psorted Psize Pcont Psingle].
      unfold hget. rewrite Prn. cbn [rbind]. rewrite Pleft. cbn [link rbind].
      rewrite (match_unfold pat _ _ 0 r rn c T _ [] Punf Pgood Prn Pbp) by (unfold fuel_of; lia).
      rewrite Pcont. unfold s_match, mfilter. cbn [app]. f_equal.
      apply mfilter_map.
    - destruct (inv_check_empty t CHK R) as [_ ->]. reflexivity.
  Qed.

  (** the queries proved for checked states, Match included *)
  Definition checked_query_m (e : ev V) : Prop :=
    match e with
    | EMatch _ => True
    | _ => checked_query e
    end.

  Theorem p_step_checked_m : forall (t : pstate V) e, p_inv_check t = true -> checked_query_m e ->
    p_step t e = (t, snd (s_step (p_contents t) e)).
  Proof.
    intros t e CHK Q. destruct e; cbn [checked_query_m] in Q; try (now apply p_step_checked).
    cbn [p_step s_step snd]. now rewrite (p_match_correct t pat CHK).
  Qed.
End Match.
