(** C06 — Patricia remove, tree level: the transformer [tdel] of the removal of the thread the path
    of key [kk] ends at (the last inner node of the path is dropped and replaced by its other child;
    the inner node [n] — the target, an ancestor — is renamed to [r], the dropped referrer), and
    what it preserves. *)
From Coq Require Import List NArith ZArith Bool Lia Sorted.
From Algo.C06 Require Import Spec SpecFacts ModelPat PatInv PatBits PatTree.
Import ListNotations.
Open Scope Z_scope.

Definition is_leaf (T : ptree) : bool := match T with PLeaf _ => true | PNode _ _ _ => false end.

Lemma owns_inner_leaf : forall T j, owns T -> In j (inners T) -> In j (leaves T).
Proof.
  induction T as [i|i l IHl r IHr]; intros j O I; simpl in *; [contradiction|].
  destruct O as [OI [Ol Or]]. destruct I as [<- | I]; auto.
  apply in_app_or in I as [I | I]; apply in_or_app; auto.
Qed.

Lemma tbits_ext2 : forall (B B' : nat -> Z) (K K' : nat -> key) T,
  tbits B K T -> (forall i, In i (inners T) -> B' i = B i) -> (forall j, In j (leaves T) -> K' j = K j) ->
  tbits B' K' T.
Proof.
  induction T as [i|i l IHl r IHr]; intros TB HB HK; simpl in *; auto.
  destruct TB as [B1 [L0 [R1 [AG [Tl Tr]]]]]. rewrite (HB i) by auto.
  assert (KL : forall j, In j (leaves l ++ leaves r) -> K' j = K j) by auto.
  split; auto. split; [intros j Hj; rewrite KL by (apply in_or_app; auto); auto|].
  split; [intros j Hj; rewrite KL by (apply in_or_app; auto); auto|].
  split; [intros j j' Hj Hj'; rewrite !KL by auto; auto|].
  split; [apply IHl | apply IHr]; auto; intros; try apply HB; try apply HK; simpl; try right; apply in_or_app; auto.
Qed.

Section TDel.
  Variable B : nat -> Z.
  Variable K : nat -> key.
  Variable kk : key.
  Variable n r : nat.

  Definition rho (i : nat) : nat := if Nat.eqb i n then r else i.

  (** the path child of an inner node *)
  Definition pchild (i : nat) (l rr : ptree) : ptree := if pbit kk (B i) then rr else l.
  Definition ochild (i : nat) (l rr : ptree) : ptree := if pbit kk (B i) then l else rr.

  Fixpoint tdel (T : ptree) : ptree :=
    match T with
    | PLeaf j => PLeaf j
    | PNode i l rr =>
        if pbit kk (B i) then (if is_leaf rr then l else PNode (rho i) l (tdel rr))
        else (if is_leaf l then rr else PNode (rho i) (tdel l) rr)
    end.

  (** the last inner node on the path, and the inner nodes on the path *)
  Fixpoint lastinner (T : ptree) (d : nat) : nat :=
    match T with PLeaf _ => d | PNode i l rr => lastinner (pchild i l rr) i end.
  Fixpoint pathin (T : ptree) : list nat :=
    match T with PLeaf _ => [] | PNode i l rr => i :: pathin (pchild i l rr) end.

  Lemma pathin_inners : forall T j, In j (pathin T) -> In j (inners T).
  Proof.
    induction T as [i|i l IHl rr IHr]; simpl; auto. intros j [<- | H]; auto. right. apply in_or_app.
    unfold pchild in H. destruct (pbit kk (B i)); auto.
  Qed.

  Lemma lastinner_pathin : forall T d, T <> PLeaf (ts B kk T) -> In (lastinner T d) (pathin T).
  Proof.
    induction T as [i|i l IHl rr IHr]; intros d H; simpl in *; [congruence|].
    unfold pchild. destruct (pbit kk (B i)).
    - destruct rr as [j|j a b]; [simpl; auto|]. right. apply IHr. discriminate.
    - destruct l as [j|j a b]; [simpl; auto|]. right. apply IHl. discriminate.
  Qed.

  (** ** leaves *)
  Lemma leaves_tdel : forall T, is_leaf T = false -> NoDup (leaves T) ->
    forall j, In j (leaves (tdel T)) <-> In j (leaves T) /\ j <> ts B kk T.
  Proof.
    induction T as [i|i l IHl rr IHr]; intros NL ND j; [discriminate|]. cbn [tdel ts leaves] in *.
    apply nodup_app_iff in ND as [Nl [Nr D]]. rewrite in_app_iff.
    destruct (pbit kk (B i)).
    - destruct rr as [j0|j0 a b]; cbn [is_leaf].
      + simpl. split.
        * intros H. split; auto. intros ->. apply (D j0); simpl; auto.
        * intros [[H | [<- | []]] NE]; auto. congruence.
      + cbn [leaves]. rewrite in_app_iff, (IHr eq_refl Nr). split.
        * intros [H | [H NE]]; split; auto. intros ->. eapply D; eauto. apply ts_in.
        * intros [[H | H] NE]; auto.
    - destruct l as [j0|j0 a b]; cbn [is_leaf].
      + simpl. split.
        * intros H. split; auto. intros ->. apply (D j0); simpl; auto.
        * intros [[[<- | []] | H] NE]; auto. congruence.
      + cbn [leaves]. rewrite in_app_iff, (IHl eq_refl Nl). split.
        * intros [[H NE] | H]; split; auto. intros ->. eapply D; eauto. apply ts_in.
        * intros [[H | H] NE]; auto.
  Qed.

  Lemma length_leaves_tdel : forall T, is_leaf T = false ->
    S (length (leaves (tdel T))) = length (leaves T).
  Proof.
    induction T as [i|i l IHl rr IHr]; intros NL; [discriminate|]. cbn [tdel leaves].
    destruct (pbit kk (B i)).
    - destruct rr as [j0|j0 a b]; cbn [is_leaf]; simpl; rewrite ?app_length; simpl; [lia|].
      specialize (IHr eq_refl). simpl in IHr. rewrite app_length in IHr. lia.
    - destruct l as [j0|j0 a b]; cbn [is_leaf]; simpl; rewrite ?app_length; simpl; [lia|].
      specialize (IHl eq_refl). simpl in IHl. rewrite app_length in IHl. lia.
  Qed.

  Lemma nodup_leaves_tdel : forall T, NoDup (leaves T) -> NoDup (leaves (tdel T)).
  Proof.
    induction T as [i|i l IHl rr IHr]; intros ND; auto. cbn [tdel leaves] in *.
    pose proof ND as ND0. apply nodup_app_iff in ND as [Nl [Nr D]].
    destruct (pbit kk (B i)).
    - destruct rr as [j0|j0 a b]; cbn [is_leaf]; auto. cbn [leaves]. apply nodup_app_iff.
      split; auto. split; auto. intros x Hl Hr. apply (leaves_tdel (PNode j0 a b) eq_refl Nr) in Hr as [Hr _]. eauto.
    - destruct l as [j0|j0 a b]; cbn [is_leaf]; auto. cbn [leaves]. apply nodup_app_iff.
      split; auto. split; auto. intros x Hl Hr. apply (leaves_tdel (PNode j0 a b) eq_refl Nl) in Hl as [Hl _]. eauto.
  Qed.

  (** ** ownership *)
  Lemma lastinner_in : forall T d, is_leaf T = false -> In (lastinner T d) (inners T).
  Proof.
    intros T d H. apply pathin_inners. apply lastinner_pathin. destruct T; [discriminate | discriminate].
  Qed.

  Lemma owns_tdel : forall T d, owns T -> NoDup (leaves T) -> NoDup (inners T) ->
    n = ts B kk T -> r = lastinner T d -> owns (tdel T).
  Proof.
    induction T as [i|i l IHl rr IHr]; intros d O ND NI Hn Hr; auto. cbn [tdel ts lastinner] in *.
    destruct O as [OI [Ol Or]]. apply nodup_app_iff in ND as [Nl [Nr D]].
    simpl in NI. apply NoDup_cons_iff in NI as [NIi NI]. apply nodup_app_iff in NI as [NIl [NIr _]].
    rewrite in_app_iff in NIi. unfold pchild in Hr. destruct (pbit kk (B i)).
    - destruct rr as [j0|j0 a b]; cbn [is_leaf]; auto. cbn [owns leaves]. split; [|split; eauto].
      rewrite in_app_iff, (leaves_tdel (PNode j0 a b) eq_refl Nr). rewrite <- Hn.
      assert (IR : In r (inners (PNode j0 a b))) by (rewrite Hr; now apply lastinner_in).
      unfold rho. destruct (Nat.eqb_spec i n) as [E|NE].
      + right. split; [now apply owns_inner_leaf|]. intros ER. apply NIi. right. congruence.
      + apply in_app_or in OI as [OI | OI]; auto.
    - destruct l as [j0|j0 a b]; cbn [is_leaf]; auto. cbn [owns leaves]. split; [|split; eauto].
      rewrite in_app_iff, (leaves_tdel (PNode j0 a b) eq_refl Nl). rewrite <- Hn.
      assert (IR : In r (inners (PNode j0 a b))) by (rewrite Hr; now apply lastinner_in).
      unfold rho. destruct (Nat.eqb_spec i n) as [E|NE].
      + left. split; [now apply owns_inner_leaf|]. intros ER. apply NIi. left. congruence.
      + apply in_app_or in OI as [OI | OI]; auto.
  Qed.

  (** ** every thread target is the root or an inner node; the target lies on its own path *)
  Lemma length_leaves_inners : forall T, length (leaves T) = S (length (inners T)).
  Proof.
    induction T as [i|i l IHl rr IHr]; simpl; auto. rewrite !app_length, IHl, IHr. lia.
  Qed.

  Lemma leaf_inner_or_root : forall T r0, owns T -> NoDup (leaves T) -> NoDup (inners T) ->
    In r0 (leaves T) -> ~ In r0 (inners T) -> forall j, In j (leaves T) -> j = r0 \/ In j (inners T).
  Proof.
    intros T r0 O NL NI RL RI j Hj.
    assert (INC : incl (leaves T) (r0 :: inners T)).
    { apply NoDup_length_incl.
      - constructor; auto.
      - simpl. rewrite length_leaves_inners. lia.
      - intros x [<- | Hx]; auto. now apply owns_inner_leaf. }
    destruct (INC j Hj) as [<- | H]; auto.
  Qed.

  Lemma target_on_path : forall T, owns T -> NoDup (leaves T) ->
    In (ts B kk T) (inners T) -> In (ts B kk T) (pathin T).
  Proof.
    induction T as [i|i l IHl rr IHr]; intros O ND I; [simpl in I; contradiction|].
    destruct O as [_ [Ol Or]]. simpl in ND. apply nodup_app_iff in ND as [Nl [Nr D]].
    cbn [ts pathin inners] in *. unfold pchild. destruct I as [<- | I]; [simpl; auto|].
    right. destruct (pbit kk (B i)).
    - apply IHr; auto. apply in_app_or in I as [I | I]; auto. exfalso.
      apply (D (ts B kk rr)); [now apply owns_inner_leaf | apply ts_in].
    - apply IHl; auto. apply in_app_or in I as [I | I]; auto. exfalso.
      apply (D (ts B kk l)); [apply ts_in | now apply owns_inner_leaf].
  Qed.

  Lemma inners_tdel_pre : forall T d x, NoDup (inners T) -> r = lastinner T d ->
    (In n (inners T) -> In n (pathin T)) ->
    In x (inners (tdel T)) -> exists j, In j (inners T) /\ j <> r /\ x = rho j.
  Proof.
    induction T as [i|i l IHl rr IHr]; intros d x NI Hr HP H; [simpl in H; contradiction|].
    cbn [tdel lastinner inners pathin] in *. unfold pchild in *.
    apply NoDup_cons_iff in NI as [NIi NI]. apply nodup_app_iff in NI as [NIl [NIr DI]].
    rewrite in_app_iff in NIi.
    assert (OFF : forall X, (forall y, In y (inners X) -> In y (inners l ++ inners rr)) ->
              (forall y, In y (inners X) -> ~ In y (pathin (if pbit kk (B i) then rr else l))) ->
              (forall y, In y (inners X) -> y <> r) ->
              In x (inners X) -> exists j, In j (i :: inners l ++ inners rr) /\ j <> r /\ x = rho j).
    { intros X SUB NPX NRX HX. exists x. split; [right; now apply SUB|]. split; [now apply NRX|].
      unfold rho. destruct (Nat.eqb_spec x n) as [->|]; auto. exfalso.
      destruct HP as [<- | HPn]; [right; now apply SUB | | ].
      - apply NIi. apply in_app_or. now apply SUB.
      - exact (NPX n HX HPn). }
    destruct (pbit kk (B i)).
    - destruct rr as [j0|j0 a b]; cbn [is_leaf] in H.
      + simpl in Hr. apply (OFF l); auto; try (intros y Hy; apply in_or_app; now auto);
          intros y Hy EQ; subst; tauto.
      + assert (IR : In r (inners (PNode j0 a b))) by (rewrite Hr; now apply lastinner_in).
        cbn [inners] in H. destruct H as [<- | H].
        * exists i. split; [simpl; auto|]. split; auto. intros ->. tauto.
        * apply in_app_or in H as [H | H].
          -- apply (OFF l); auto.
             ++ intros y Hy. apply in_or_app. auto.
             ++ intros y Hy HPy. apply (DI y Hy). now apply pathin_inners.
             ++ intros y Hy ->. eapply DI; eauto.
          -- destruct (IHr i x NIr Hr) as [j [Hj [NR E]]]; auto.
             { intros I. destruct HP as [<- | Q]; auto; [right; apply in_or_app; auto | tauto]. }
             exists j. split; [right; apply in_or_app; auto | auto].
    - destruct l as [j0|j0 a b]; cbn [is_leaf] in H.
      + simpl in Hr. apply (OFF rr); auto; try (intros y Hy; apply in_or_app; now auto);
          intros y Hy EQ; subst; tauto.
      + assert (IR : In r (inners (PNode j0 a b))) by (rewrite Hr; now apply lastinner_in).
        cbn [inners] in H. destruct H as [<- | H].
        * exists i. split; [simpl; auto|]. split; auto. intros ->. tauto.
        * apply in_app_or in H as [H | H].
          -- destruct (IHl i x NIl Hr) as [j [Hj [NR E]]]; auto.
             { intros I. destruct HP as [<- | Q]; auto; [right; apply in_or_app; auto | tauto]. }
             exists j. split; [right; apply in_or_app; auto | auto].
          -- apply (OFF rr); auto.
             ++ intros y Hy. apply in_or_app. auto.
             ++ intros y Hy HPy. apply (DI y); [now apply pathin_inners | exact Hy].
             ++ intros y Hy ->. eapply DI; eauto.
  Qed.

  (** ** the bit invariant, for bit positions [B'] that agree with [B] except at the renamed node *)
  Variable B' : nat -> Z.
  Hypothesis B'r : n <> r -> B' r = B n.
  Hypothesis B'o : forall j, j <> r -> B' j = B j.

  Lemma tbits_tdel : forall T d, tbits B K T -> NoDup (leaves T) -> NoDup (inners T) ->
    n = ts B kk T -> r = lastinner T d -> tbits B' K (tdel T).
  Proof.
    induction T as [i|i l IHl rr IHr]; intros d TB ND NI Hn Hr; auto. cbn [tdel ts lastinner] in *.
    destruct TB as [B1 [L0 [R1 [AG [Tl Tr]]]]]. apply nodup_app_iff in ND as [Nl [Nr D]].
    simpl in NI. apply NoDup_cons_iff in NI as [NIi NI]. apply nodup_app_iff in NI as [NIl [NIr DI]].
    rewrite in_app_iff in NIi. unfold pchild in Hr.
    assert (OFF : forall X, (forall j, In j (inners X) -> j <> r) -> tbits B K X -> tbits B' K X).
    { intros X HX TX. apply (tbits_ext2 B B' K K); auto. }
    destruct (pbit kk (B i)).
    - destruct rr as [j0|j0 a b]; cbn [is_leaf].
      + (* dropped: i = r *) simpl in Hr. apply OFF; auto. intros j Hj EJ. apply NIi. left. congruence.
      + assert (IR : In r (inners (PNode j0 a b))) by (rewrite Hr; now apply lastinner_in).
        assert (BI : B' (rho i) = B i).
        { unfold rho. destruct (Nat.eqb_spec i n) as [E|NE].
          - rewrite E. apply B'r. intros ER. apply NIi. right. congruence.
          - apply B'o. intros ER. apply NIi. right. congruence. }
        cbn [tbits leaves]. rewrite BI. split; auto. split; auto.
        split; [intros j Hj; apply (leaves_tdel (PNode j0 a b) eq_refl Nr) in Hj as [Hj _]; auto|].
        split.
        * intros j j' Hj Hj'. apply AG; rewrite in_app_iff in *;
            [destruct Hj as [Hj | Hj] | destruct Hj' as [Hj' | Hj']]; auto;
            right; [apply (leaves_tdel (PNode j0 a b) eq_refl Nr) in Hj as [Hj _] | apply (leaves_tdel (PNode j0 a b) eq_refl Nr) in Hj' as [Hj' _]]; auto.
        * split; [|eauto]. apply OFF; auto. intros j Hj ->. eapply DI; eauto.
    - destruct l as [j0|j0 a b]; cbn [is_leaf].
      + simpl in Hr. apply OFF; auto. intros j Hj EJ. apply NIi. right. congruence.
      + assert (IR : In r (inners (PNode j0 a b))) by (rewrite Hr; now apply lastinner_in).
        assert (BI : B' (rho i) = B i).
        { unfold rho. destruct (Nat.eqb_spec i n) as [E|NE].
          - rewrite E. apply B'r. intros ER. apply NIi. left. congruence.
          - apply B'o. intros ER. apply NIi. left. congruence. }
        cbn [tbits leaves]. rewrite BI. split; auto.
        split; [intros j Hj; apply (leaves_tdel (PNode j0 a b) eq_refl Nl) in Hj as [Hj _]; auto|]. split; auto.
        split.
        * intros j j' Hj Hj'. apply AG; rewrite in_app_iff in *;
            [destruct Hj as [Hj | Hj] | destruct Hj' as [Hj' | Hj']]; auto;
            left; [apply (leaves_tdel (PNode j0 a b) eq_refl Nl) in Hj as [Hj _] | apply (leaves_tdel (PNode j0 a b) eq_refl Nl) in Hj' as [Hj' _]]; auto.
        * split; [eauto|]. apply OFF; auto. intros j Hj ->. eapply DI; eauto.
  Qed.
End TDel.
