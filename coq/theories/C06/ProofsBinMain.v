(** C06 — the binary trie model refines the sorted-map specification on every history. *)
From Coq Require Import List NArith ZArith Bool Lia Sorted.
From Algo.C06 Require Import Spec SpecFacts Model ProofsBin ProofsBinQ.
Import ListNotations.

Section Main.
  Context {V : Type}.
  Notation smap := (smap V).

  (** the refinement relation: invariant + abstraction + size *)
  Definition Rb (t : bstate V) (m : smap) : Prop :=
    wfb None (broot t) /\ contents (broot t) = m /\ bsize t = Z.of_nat (length m).

  Lemma Rb_init : Rb b_new [].
  Proof. repeat split. Qed.

  Lemma Rb_sorted : forall t m, Rb t m -> sorted m.
  Proof. intros t m [W [C _]]. rewrite <- C. eapply contents_sorted; eauto. Qed.

  Lemma sput_length : forall k (v : V) (m : smap), sorted m ->
    Z.of_nat (length (sput k v m)) =
      (if is_some (sget k m) then Z.of_nat (length m) else Z.of_nat (length m) + 1)%Z.
  Proof.
    induction m as [|[k' v'] m IH]; intros S; [reflexivity|].
    apply sorted_cons_inv in S as [S F]. cbn [sput sget]. destruct (lex_cmp k k') eqn:E.
    - apply lex_cmp_eq in E. subst. rewrite keqb_refl. reflexivity.
    - assert (NE : keqb k k' = false).
      { apply keqb_neq. intros ->. rewrite lex_cmp_refl in E. discriminate. }
      rewrite NE. rewrite sget_none.
      + cbn [is_some length]. lia.
      + intros e He EQ. rewrite Forall_forall in F. apply F in He. unfold elt in He. simpl in He. rewrite EQ in He.
        apply (klt_irrefl k). eapply klt_trans; eauto.
    - assert (NE : keqb k k' = false).
      { apply keqb_neq. intros ->. rewrite lex_cmp_refl in E. discriminate. }
      rewrite NE. cbn [length]. rewrite !Nat2Z.inj_succ, IH by exact S.
      destruct (is_some (sget k m)); lia.
  Qed.

  Lemma sdel_length : forall k (m : smap),
    Z.of_nat (length (sdel k m)) =
      (if is_some (sget k m) then Z.of_nat (length m) - 1 else Z.of_nat (length m))%Z.
  Proof.
    induction m as [|[k' v'] m IH]; [reflexivity|]. cbn [sdel sget]. destruct (keqb k k').
    - cbn [is_some length]. lia.
    - cbn [length]. rewrite !Nat2Z.inj_succ, IH. destruct (is_some (sget k m)); lia.
  Qed.

  Lemma sdel_last : forall k (x : V) (m : smap), sorted (m ++ [(k, x)]) -> sdel k (m ++ [(k, x)]) = m.
  Proof.
    intros k x m S. apply sorted_app_inv in S as [_ [_ S]]. rewrite sdel_app_notin.
    - simpl. rewrite keqb_refl. apply app_nil_r.
    - intros e He EQ. specialize (S e (k, x) He (or_introl eq_refl)). unfold elt in S. simpl in S.
      rewrite EQ in S. now apply klt_irrefl in S.
  Qed.

  Lemma pre_nil_id : forall (e : key * V), pre [] e = e.
  Proof. now intros []. Qed.

  (** deleting a held key through _delete: used by Delete, DeleteMin and DeleteMax *)
  Lemma delete_step : forall t m c ks,
    Rb t m ->
    let (n, res) := b_delete (c :: ks) (broot t) in
    res = sget (c :: ks) m /\
    Rb {| bsize := if is_some res then bsize t - 1 else bsize t; broot := n |} (sdel (c :: ks) m).
  Proof.
    intros t m c ks [W [C SZ]].
    pose proof (b_delete_correct (c :: ks) (broot t) None) as D. unfold delete_ok in D.
    destruct (b_delete (c :: ks) (broot t)) as [n res].
    destruct D as [W' [C' E]]; auto; try discriminate. rewrite C in C', E.
    split; auto. repeat split; auto. cbn [bsize]. rewrite sdel_length, SZ, E. reflexivity.
  Qed.

  Lemma b_step_refines : forall t m e,
    Rb t m -> ev_valid e ->
    Rb (fst (b_step t e)) (fst (s_step m e)) /\ snd (b_step t e) = snd (s_step m e).
  Proof.
    intros t m e R VAL. pose proof R as [W [C SZ]]. pose proof (Rb_sorted _ _ R) as SM.
    destruct e as [k v|k| | | |k| | | |k|k|i|k|lo hi|lo hi| |pat|p|s]; cbn [ev_valid] in VAL.
    - (* Put *)
      destruct k as [|c ks]; [congruence|]. cbn [b_step s_step fst snd].
      pose proof (b_put_correct (c :: ks) v (broot t) None) as P. unfold put_ok in P.
      destruct (b_put (c :: ks) v (broot t)) as [n added].
      destruct P as [W' [C' E]]; auto; try discriminate; [exact I|]. rewrite C in C', E.
      cbn [fst snd]. split; auto. repeat split; auto. cbn [bsize].
      rewrite sput_length by exact SM. rewrite E, SZ. destruct (is_some (sget (c :: ks) m)); reflexivity.
    - (* Delete *)
      destruct k as [|c ks]; [congruence|]. cbn [b_step s_step fst snd].
      pose proof (delete_step t m c ks R) as D.
      destruct (b_delete (c :: ks) (broot t)) as [n res]. destruct D as [E R']. cbn [fst snd].
      split; auto. now rewrite E.
    - (* DeleteMin *)
      cbn [b_step s_step]. rewrite (b_min_correct t m) by assumption. unfold s_min.
      destruct m as [|[k x] m']; [split; auto|]. cbn [hd_error tl].
      assert (NE : k <> []).
      { apply (contents_keys_nonempty (broot t) None (k, x)); auto. rewrite C. simpl; auto. }
      destruct k as [|c ks]; [congruence|].
      pose proof (delete_step t _ c ks R) as D.
      destruct (b_delete (c :: ks) (broot t)) as [n res]. destruct D as [E R'].
      cbn [sget sdel] in E, R'. rewrite keqb_refl in E, R'. subst res. cbn [fst snd is_some]. split; auto.
    - (* DeleteMax *)
      cbn [b_step s_step]. rewrite (b_max_correct t m) by assumption. unfold s_max.
      destruct (last_error m) as [[k x]|] eqn:L.
      + apply last_error_split in L as [m' ->]. rewrite removelast_last.
        assert (NE : k <> []).
        { apply (contents_keys_nonempty (broot t) None (k, x)); auto. rewrite C. apply in_or_app. simpl; auto. }
        destruct k as [|c ks]; [congruence|].
        pose proof (delete_step t _ c ks R) as D.
        destruct (b_delete (c :: ks) (broot t)) as [n res]. destruct D as [E R'].
        rewrite sdel_last in R' by exact SM.
        rewrite (In_sget (c :: ks) x) in E; [|exact SM | apply in_or_app; simpl; auto].
        subst res. cbn [fst snd is_some]. split; auto.
      + apply last_error_none in L. rewrite L in *. split; auto.
    - (* DeleteAll *) cbn [b_step s_step fst snd]. split; auto. apply Rb_init.
    - (* Get *)
      destruct k as [|c ks]; [congruence|]. cbn [b_step s_step fst snd]. split; auto.
      rewrite (b_get_correct (c :: ks) (broot t) None W), C. reflexivity.
    - cbn [b_step s_step fst snd]. split; auto. unfold s_size. now rewrite SZ.
    - cbn [b_step s_step fst snd]. split; auto. now rewrite (b_min_correct t m).
    - cbn [b_step s_step fst snd]. split; auto. now rewrite (b_max_correct t m).
    - cbn [b_step s_step fst snd]. split; auto. now rewrite (b_floor_correct t m).
    - cbn [b_step s_step fst snd]. split; auto. now rewrite (b_ceiling_correct t m).
    - cbn [b_step s_step fst snd]. split; auto. now rewrite (b_select_correct t m).
    - cbn [b_step s_step fst snd]. split; auto. now rewrite (b_rank_correct t m).
    - cbn [b_step s_step fst snd]. split; auto. now rewrite (b_range_correct t m).
    - cbn [b_step s_step fst snd]. split; auto. now rewrite (b_rangesize_correct t m).
    - cbn [b_step s_step fst snd]. split; auto. now rewrite (b_all_correct t m).
    - (* Match *)
      cbn [b_step s_step fst snd]. split; auto.
      rewrite (b_match_correct pat (broot t) None) by exact W. rewrite C, map_pre_nil. reflexivity.
    - (* WithPrefix *)
      cbn [b_step s_step fst snd]. split; auto.
      rewrite (b_withprefix_correct p (broot t) None) by exact W. rewrite C, map_pre_nil. reflexivity.
    - (* LongestPrefixOf *)
      cbn [b_step s_step fst snd]. split; auto.
      rewrite (b_allprefixof_correct s (broot t) None) by exact W. rewrite C. unfold s_longestprefix.
      destruct (last_error (filter (fun e => is_prefix (fst e) s) m)); [now rewrite pre_nil_id | reflexivity].
  Qed.

  Lemma b_run_refines : forall es t m,
    Rb t m -> Forall ev_valid es -> b_run t es = s_run m es.
  Proof.
    induction es as [|e es IH]; intros t m R F; [reflexivity|].
    inversion F as [|? ? VAL F']; subst.
    destruct (b_step_refines t m e R VAL) as [R' O]. cbn [b_run s_run].
    destruct (b_step t e) as [t' o]. destruct (s_step m e) as [m' o']. cbn [fst snd] in R', O.
    subst. f_equal. now apply IH.
  Qed.

  (** the state reached by any history *)
  Fixpoint b_exec (t : bstate V) (es : list (ev V)) : bstate V :=
    match es with [] => t | e :: es' => b_exec (fst (b_step t e)) es' end.
  Fixpoint s_exec (m : smap) (es : list (ev V)) : smap :=
    match es with [] => m | e :: es' => s_exec (fst (s_step m e)) es' end.

  Lemma b_exec_refines : forall es t m,
    Rb t m -> Forall ev_valid es -> Rb (b_exec t es) (s_exec m es).
  Proof.
    induction es as [|e es IH]; intros t m R F; [exact R|].
    inversion F as [|? ? VAL F']; subst. cbn [b_exec s_exec]. apply IH; auto.
    now destruct (b_step_refines t m e R VAL).
  Qed.

  Theorem binary_refines : forall es : list (ev V),
    Forall ev_valid es -> b_run b_new es = s_run [] es.
  Proof. intros. apply b_run_refines; auto. apply Rb_init. Qed.

  (** size = number of terminal nodes; sibling chains strictly increasing; no non-terminal leaf *)
  Fixpoint count_terms (n : node V) : nat :=
    match n with
    | Nil => 0
    | Node _ v l r => (if is_some v then 1 else 0) + count_terms l + count_terms r
    end.

  Lemma count_terms_contents : forall n, count_terms n = length (contents n).
  Proof.
    induction n as [|c v l IHl r IHr]; simpl; auto.
    rewrite !app_length, map_length, IHl, IHr. destruct v; simpl; lia.
  Qed.

  Theorem binary_invariant : forall es : list (ev V),
    Forall ev_valid es ->
    let t := b_exec b_new es in
    wfb None (broot t) /\ bsize t = Z.of_nat (count_terms (broot t)) /\
    contents (broot t) = s_exec [] es /\ sorted (s_exec [] es).
  Proof.
    intros es F t. pose proof (b_exec_refines es b_new [] Rb_init F) as R.
    pose proof (Rb_sorted _ _ R) as S. destruct R as [W [C SZ]]. fold t in W, C, SZ.
    repeat split; auto. rewrite count_terms_contents, C. exact SZ.
  Qed.
End Main.
