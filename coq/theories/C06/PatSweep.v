(** C06 — Patricia model: kernel-checked bounded sweep.  Every history of at most 4 mutators over a
    universe of 5 keys (dense prefix relations, a high byte, the byte '*'), followed by a battery of
    all queries except the two recorded defects (WithPrefix, LongestPrefixOf), gives exactly the
    outputs of the specification.  This is a finite statement proved by [vm_compute]; the universal
    statement for the Patricia trie is not proved (Properties/C06.v says what rests on what). *)
From Coq Require Import List NArith ZArith Bool.
From Algo.C06 Require Import Spec Model ModelPat.
Import ListNotations.

Definition out_eq_dec : forall o1 o2 : out Z, {o1 = o2} + {o1 <> o2}.
Proof. repeat decide equality. Defined.

Definition agree (es : list (ev Z)) : bool :=
  if list_eq_dec out_eq_dec (p_run p_new es) (s_run [] es) then true else false.

Lemma agree_sound : forall es, agree es = true -> p_run p_new es = s_run [] es.
Proof. unfold agree. intros es. destruct (list_eq_dec out_eq_dec (p_run p_new es) (s_run [] es)); auto. discriminate. Qed.

Definition sweep_keys : list (list N) := [[97]; [97; 98]; [97; 98; 97]; [98]; [42; 233]]%N.

(** mutators available at step [i] (the value put is the step number) *)
Definition sweep_muts (i : Z) : list (ev Z) :=
  map (fun k => EPut k i) sweep_keys ++ map (fun k => EDelete k) sweep_keys ++ [EDeleteMin; EDeleteMax; EDeleteAll].

Fixpoint sweep_histories (n : nat) (i : Z) : list (list (ev Z)) :=
  match n with
  | O => [[]]
  | S n' => [] :: flat_map (fun e => map (cons e) (sweep_histories n' (i + 1))) (sweep_muts i)
  end.

Definition sweep_args : list (list N) := ([] :: sweep_keys ++ [[96]; [97; 97]; [97; 98; 0]; [97; 99]; [99]; [42]; [255]])%N.

Definition sweep_battery : list (ev Z) :=
  [ESize; EAll; EMin; EMax]
  ++ flat_map (fun k => [EGet k; EFloor k; ECeiling k; ERank k]) sweep_args
  ++ map (fun i => ESelect i) [-1; 0; 1; 2; 3; 4; 5]%Z
  ++ flat_map (fun lo => map (fun hi => ERange lo hi) [[97]; [97; 98; 97]; [98]; [255]]%N) [[]; [97; 98]; [98]; [99]]%N
  ++ flat_map (fun lo => map (fun hi => ERangeSize lo hi) [[97; 98]; [255]]%N) [[]; [97; 98]; [99]]%N
  ++ map (fun p => EMatch p) [[]; [42]; [97]; [98]; [42; 42]; [97; 42]; [42; 98]; [42; 233]; [42; 42; 42]; [97; 42; 97]; [99]]%N.

Lemma sweep_ok : forallb (fun h => agree (h ++ sweep_battery)) (sweep_histories 4 1) = true.
Proof. vm_compute. reflexivity. Qed.

Theorem patricia_bounded :
  forall h, In h (sweep_histories 4 1) -> p_run p_new (h ++ sweep_battery) = s_run [] (h ++ sweep_battery).
Proof.
  intros h H. apply agree_sound. pose proof sweep_ok as S. rewrite forallb_forall in S. now apply S.
Qed.

(** the sweep is not vacuous *)
Lemma sweep_size : N.of_nat (length (sweep_histories 4 1)) = 30941%N /\ N.of_nat (length sweep_battery) = 96%N.
Proof. vm_compute. split; reflexivity. Qed.
