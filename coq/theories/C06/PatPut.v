(** C06 — Patricia trie: Put preserves the logical invariant and has the specification's effect
    (heap level).  [Rep h pbp c T]: following link [c] from a node with bit position [pbp] in heap
    [h] unfolds into the tree [T].  [PInv t]: the state is well formed ([Rep], distinct inner
    nodes, the bit invariant [tbits], representable keys, size).  [PInv] implies the executable
    check [p_inv_check] of PatInv.v, hence every query theorem proved there. *)
From Coq Require Import List NArith ZArith Bool Lia Sorted.
From Algo.C06 Require Import Spec SpecFacts Model ModelPat ProofsBinQ PatInv PatBits PatTree.
Import ListNotations.
Open Scope Z_scope.

Section Put.
  Context {V : Type}.
  Notation pnode := (pnode V).
  Notation pstate := (pstate V).
  Notation heap := (list pnode).

  Inductive Rep (h : heap) : Z -> nat -> ptree -> Prop :=
  | RepLeaf : forall pbp c cn, nth_error h c = Some cn -> n_bp cn <= pbp -> Rep h pbp c (PLeaf c)
  | RepNode : forall pbp c cn l r tl tr,
      nth_error h c = Some cn -> pbp < n_bp cn -> n_left cn = Some l -> n_right cn = Some r ->
      Rep h (n_bp cn) l tl -> Rep h (n_bp cn) r tr -> Rep h pbp c (PNode c tl tr).

  Lemma rep_unfold : forall h pbp c T, Rep h pbp c T -> forall f, (height T <= f)%nat -> unfold f h pbp c = Some T.
  Proof.
    induction 1 as [pbp c cn Hc LE | pbp c cn l r tl tr Hc LT HL HR _ IHl _ IHr]; intros f Hf; simpl in Hf.
    - destruct f as [|f]; [lia|]. simpl. rewrite Hc. destruct (Z.leb_spec (n_bp cn) pbp); [reflexivity | lia].
    - destruct f as [|f]; [lia|]. simpl. rewrite Hc. destruct (Z.leb_spec (n_bp cn) pbp); [lia|].
      rewrite HL, HR, IHl, IHr by lia. reflexivity.
  Qed.

  Lemma rep_root : forall h pbp c T, Rep h pbp c T -> exists cn, nth_error h c = Some cn.
  Proof. intros h pbp c T H. inversion H; eauto. Qed.

  Lemma rep_inner_bp : forall h pbp c T, Rep h pbp c T -> forall i, In i (inners T) -> pbp < nbp h i.
  Proof.
    induction 1 as [|pbp c cn l r tl tr Hc LT HL HR _ IHl _ IHr]; intros i Hi; simpl in Hi; [contradiction|].
    destruct Hi as [<- | Hi].
    - unfold nbp. now rewrite Hc.
    - apply in_app_or in Hi as [Hi | Hi]; [specialize (IHl i Hi) | specialize (IHr i Hi)]; lia.
  Qed.

  Lemma rep_valid : forall h pbp c T, Rep h pbp c T ->
    (forall i, In i (inners T) -> (i < length h)%nat) /\ (forall j, In j (leaves T) -> (j < length h)%nat).
  Proof.
    induction 1 as [pbp c cn Hc LE|pbp c cn l r tl tr Hc LT HL HR _ [IHl1 IHl2] _ [IHr1 IHr2]]; simpl.
    - split; [contradiction|]. intros j [<- | []]. apply nth_error_Some. congruence.
    - split.
      + intros i [<- | Hi]; [apply nth_error_Some; congruence|]. apply in_app_or in Hi as [Hi | Hi]; auto.
      + intros j Hj. apply in_app_or in Hj as [Hj | Hj]; auto.
  Qed.

  (** the tree below a link only depends on the nodes it mentions *)
  Definition same_shape (n n' : pnode) : Prop :=
    n_bp n' = n_bp n /\ n_left n' = n_left n /\ n_right n' = n_right n.

  Lemma rep_frame : forall h h' pbp c T, Rep h pbp c T ->
    (forall i, In i (inners T) -> exists n n', nth_error h i = Some n /\ nth_error h' i = Some n' /\ same_shape n n') ->
    (forall j, In j (leaves T) -> exists n n', nth_error h j = Some n /\ nth_error h' j = Some n' /\ n_bp n' = n_bp n) ->
    Rep h' pbp c T.
  Proof.
    induction 1 as [pbp c cn Hc LE|pbp c cn l r tl tr Hc LT HL HR _ IHl _ IHr]; intros HI HLf.
    - destruct (HLf c) as [n [n' [E1 [E2 E3]]]]; [simpl; auto|]. rewrite Hc in E1. injection E1 as <-.
      apply (RepLeaf h' pbp c n'); auto. lia.
    - destruct (HI c) as [n [n' [E1 [E2 [S1 [S2 S3]]]]]]; [simpl; auto|]. rewrite Hc in E1. injection E1 as <-.
      apply (RepNode h' pbp c n' l r); try congruence; try lia.
      + rewrite S1. apply IHl.
        * intros i Hi. apply HI. simpl. right. apply in_or_app. auto.
        * intros j Hj. apply HLf. simpl. apply in_or_app. auto.
      + rewrite S1. apply IHr.
        * intros i Hi. apply HI. simpl. right. apply in_or_app. auto.
        * intros j Hj. apply HLf. simpl. apply in_or_app. auto.
  Qed.

  Lemma rep_det : forall h pbp c T1, Rep h pbp c T1 -> forall T2, Rep h pbp c T2 -> T1 = T2.
  Proof.
    induction 1 as [pbp c cn Hc LE|pbp c cn l r tl tr Hc LT HL HR _ IHl _ IHr]; intros T2 R2; inversion R2; subst.
    - reflexivity.
    - assert (cn0 = cn) by congruence. subst. lia.
    - assert (cn0 = cn) by congruence. subst. lia.
    - assert (cn0 = cn) by congruence. subst.
      assert (l0 = l) by congruence. assert (r0 = r) by congruence. subst. f_equal; auto.
  Qed.

  Lemma tsearch_ts : forall (h : heap) k T, tsearch h k T = ts (nbp h) k T.
  Proof. induction T as [i|i l IHl r IHr]; simpl; auto. now rewrite IHl, IHr. Qed.

  (** tbits only looks at the ids of the tree *)
  Lemma tbits_ext : forall (B B' : nat -> Z) (K K' : nat -> key) T,
    tbits B K T -> (forall i, In i (inners T) -> B' i = B i) -> (forall j, In j (leaves T) -> K' j = K j) ->
    tbits B' K' T.
  Proof.
    induction T as [i|i l IHl r IHr]; intros TB HB HK; simpl in *; auto.
    destruct TB as [B1 [L0 [R1 [AG [Tl Tr]]]]]. rewrite (HB i) by auto.
    assert (KL : forall j, In j (leaves l ++ leaves r) -> K' j = K j) by auto.
    split; auto. split; [intros j Hj; rewrite KL by (apply in_or_app; auto); auto|].
    split; [intros j Hj; rewrite KL by (apply in_or_app; auto); auto|].
    split; [intros j j' Hj Hj'; rewrite !KL by auto; auto|].
    split; [apply IHl | apply IHr]; auto; intros; try apply HB; try apply HK; simpl; try right; apply in_or_app; auto.
  Qed.

  (** the two links of an inner node are different *)
  Lemma links_distinct : forall h pbp c cn tl tr l r,
    Rep h pbp c (PNode c tl tr) -> tbits (nbp h) (nkey h) (PNode c tl tr) ->
    nth_error h c = Some cn -> n_left cn = Some l -> n_right cn = Some r -> l <> r.
  Proof.
    intros h pbp c cn tl tr l r R TB Hc HL HR E. subst r. inversion R; subst.
    assert (cn0 = cn) by congruence. subst. assert (l0 = l) by congruence. assert (r = l) by congruence. subst.
    assert (ET : tl = tr) by (eapply rep_det; eauto). subst tr.
    destruct TB as [_ [L0 [R1 _]]]. destruct (leaves tl) as [|j js] eqn:EL; [now apply leaves_nonempty in EL|].
    specialize (L0 j (or_introl eq_refl)). specialize (R1 j (or_introl eq_refl)). congruence.
  Qed.

  (** ** the logical invariant of a state *)
  Record PInvN (t : pstate) (r : nat) (rn : pnode) (c : nat) (T : ptree) : Prop := {
    q_root : proot t = Some r;
    q_rn : nth_error (pheap t) r = Some rn;
    q_left : n_left rn = Some c;
    q_right : n_right rn = None;
    q_bp : n_bp rn = 0;
    q_rep : Rep (pheap t) 0 c T;
    q_single : match T with PLeaf i => i = r | PNode _ _ _ => True end;
    q_nodup : NoDup (inners T);
    q_bits : tbits (nbp (pheap t)) (nkey (pheap t)) T;
    q_keys : forall j, In j (leaves T) -> kvalid (nkey (pheap t) j);
    q_size : psize t = Z.of_nat (length (leaves T))
  }.

  Definition PInv (t : pstate) : Prop :=
    match proot t with
    | None => psize t = 0
    | Some r => exists rn c T, PInvN t r rn c T
    end.

  Lemma good_of_tbits : forall (h : heap) T, tbits (nbp h) (nkey h) T -> good h T = true.
  Proof.
    induction T as [i|i l IHl r IHr]; intros TB; simpl; auto.
    destruct TB as [_ [L0 [R1 [_ [Tl Tr]]]]]. rewrite IHl, IHr by auto.
    rewrite !andb_true_r. apply andb_true_iff. split; apply forallb_forall; intros j Hj.
    - now rewrite L0.
    - now apply R1.
  Qed.

  Lemma PInvN_tree : forall t r rn c T, PInvN t r rn c T -> p_tree t = Some T.
  Proof.
    intros t r rn c T I. destruct I. unfold p_tree. rewrite q_root0, q_rn0, q_left0, q_right0, q_bp0. rewrite Z.eqb_refl.
    apply rep_unfold; auto. pose proof (height_inners T).
    assert ((length (inners T) <= length (pheap t))%nat); [|lia].
    destruct (rep_valid _ _ _ _ q_rep0) as [VI _].
    pose proof (NoDup_incl_length q_nodup0 (l' := seq 0 (length (pheap t)))) as NL.
    rewrite seq_length in NL. apply NL.
    intros i Hi. apply in_seq. specialize (VI i Hi). lia.
  Qed.

  Theorem PInv_check : forall t, PInv t -> p_inv_check t = true.
  Proof.
    intros t I. unfold PInv in I. unfold p_inv_check. destruct (proot t) as [r|] eqn:R.
    - destruct I as [rn [c [T I]]]. rewrite (PInvN_tree t r rn c T I). destruct I.
      rewrite (good_of_tbits _ _ q_bits0). rewrite q_size0, Z.eqb_refl. cbn [andb].
      rewrite andb_true_r. apply andb_true_iff. split.
      + apply ss_increasing. apply tbits_sorted with (B := nbp (pheap t)); auto.
        intros j Hj. now destruct (q_keys0 j Hj).
      + destruct T; auto. simpl. subst. apply Nat.eqb_refl.
    - now apply Z.eqb_eq.
  Qed.
End Put.
