(** C06 — Patricia trie: Put preserves the logical invariant and has the specification's effect
    (heap level).  [Rep h pbp c T]: following link [c] from a node with bit position [pbp] in heap
    [h] unfolds into the tree [T].  [PInv t]: the state is well formed ([Rep], distinct inner
    nodes, the bit invariant [tbits], representable keys, size).  [PInv] implies the executable
    check [p_inv_check] of PatInv.v, hence every query theorem proved there. *)
From Coq Require Import List NArith ZArith Bool Lia Sorted.
From Algo.C06 Require Import Spec SpecFacts Model ModelPat ProofsBinQ PatInv PatBits PatTree PatMatch PatDel.
Import ListNotations.
Open Scope Z_scope.

Section Put.
  Context {V : Type}.
  Notation pnode := (pnode V).
  Notation pstate := (pstate V).
  Notation heap := (list pnode).

  Inductive Rep (h : heap) : Z -> nat -> ptree -> Prop :=
  | RepLeaf : forall pbp c cn, nth_error h c = Some cn -> n_bp cn <= pbp -> Rep h pbp c (PLeaf c)
  | RepNode : forall pbp c cn l r tl tr,
      nth_error h c = Some cn -> pbp < n_bp cn -> n_left cn = Some l -> n_right cn = Some r ->
      Rep h (n_bp cn) l tl -> Rep h (n_bp cn) r tr -> Rep h pbp c (PNode c tl tr).

  Lemma rep_unfold : forall h pbp c T, Rep h pbp c T -> forall f, (height T <= f)%nat -> unfold f h pbp c = Some T.
  Proof.
    induction 1 as [pbp c cn Hc LE | pbp c cn l r tl tr Hc LT HL HR _ IHl _ IHr]; intros f Hf; simpl in Hf.
    - destruct f as [|f]; [lia|]. simpl. rewrite Hc. destruct (Z.leb_spec (n_bp cn) pbp); [reflexivity | lia].
    - destruct f as [|f]; [lia|]. simpl. rewrite Hc. destruct (Z.leb_spec (n_bp cn) pbp); [lia|].
      rewrite HL, HR, IHl, IHr by lia. reflexivity.
  Qed.

  Lemma rep_root : forall h pbp c T, Rep h pbp c T -> exists cn, nth_error h c = Some cn.
  Proof. intros h pbp c T H. inversion H; eauto. Qed.

  Lemma rep_inner_bp : forall h pbp c T, Rep h pbp c T -> forall i, In i (inners T) -> pbp < nbp h i.
  Proof.
    induction 1 as [|pbp c cn l r tl tr Hc LT HL HR _ IHl _ IHr]; intros i Hi; simpl in Hi; [contradiction|].
    destruct Hi as [<- | Hi].
    - unfold nbp. now rewrite Hc.
    - apply in_app_or in Hi as [Hi | Hi]; [specialize (IHl i Hi) | specialize (IHr i Hi)]; lia.
  Qed.

  Lemma rep_valid : forall h pbp c T, Rep h pbp c T ->
    (forall i, In i (inners T) -> (i < length h)%nat) /\ (forall j, In j (leaves T) -> (j < length h)%nat).
  Proof.
    induction 1 as [pbp c cn Hc LE|pbp c cn l r tl tr Hc LT HL HR _ [IHl1 IHl2] _ [IHr1 IHr2]]; simpl.
    - split; [contradiction|]. intros j [<- | []]. apply nth_error_Some. congruence.
    - split.
      + intros i [<- | Hi]; [apply nth_error_Some; congruence|]. apply in_app_or in Hi as [Hi | Hi]; auto.
      + intros j Hj. apply in_app_or in Hj as [Hj | Hj]; auto.
  Qed.

  (** the tree below a link only depends on the nodes it mentions *)
  Definition same_shape (n n' : pnode) : Prop :=
    n_bp n' = n_bp n /\ n_left n' = n_left n /\ n_right n' = n_right n.

  Lemma rep_frame : forall h h' pbp c T, Rep h pbp c T ->
    (forall i, In i (inners T) -> exists n n', nth_error h i = Some n /\ nth_error h' i = Some n' /\ same_shape n n') ->
    (forall j, In j (leaves T) -> exists n n', nth_error h j = Some n /\ nth_error h' j = Some n' /\ n_bp n' = n_bp n) ->
    Rep h' pbp c T.
  Proof.
    induction 1 as [pbp c cn Hc LE|pbp c cn l r tl tr Hc LT HL HR _ IHl _ IHr]; intros HI HLf.
    - destruct (HLf c) as [n [n' [E1 [E2 E3]]]]; [simpl; auto|]. rewrite Hc in E1. injection E1 as <-.
      apply (RepLeaf h' pbp c n'); auto. lia.
    - destruct (HI c) as [n [n' [E1 [E2 [S1 [S2 S3]]]]]]; [simpl; auto|]. rewrite Hc in E1. injection E1 as <-.
      apply (RepNode h' pbp c n' l r); try congruence; try lia.
      + rewrite S1. apply IHl.
        * intros i Hi. apply HI. simpl. right. apply in_or_app. auto.
        * intros j Hj. apply HLf. simpl. apply in_or_app. auto.
      + rewrite S1. apply IHr.
        * intros i Hi. apply HI. simpl. right. apply in_or_app. auto.
        * intros j Hj. apply HLf. simpl. apply in_or_app. auto.
  Qed.

  Lemma rep_det : forall h pbp c T1, Rep h pbp c T1 -> forall T2, Rep h pbp c T2 -> T1 = T2.
  Proof.
    induction 1 as [pbp c cn Hc LE|pbp c cn l r tl tr Hc LT HL HR _ IHl _ IHr]; intros T2 R2; inversion R2; subst.
    - reflexivity.
    - assert (cn0 = cn) by congruence. subst. lia.
    - assert (cn0 = cn) by congruence. subst. lia.
    - assert (cn0 = cn) by congruence. subst.
      assert (l0 = l) by congruence. assert (r0 = r) by congruence. subst. f_equal; auto.
  Qed.

  Lemma tsearch_ts : forall (h : heap) k T, tsearch h k T = ts (nbp h) k T.
  Proof. induction T as [i|i l IHl r IHr]; simpl; auto. now rewrite IHl, IHr. Qed.

  (** tbits only looks at the ids of the tree *)
  Lemma tbits_ext : forall (B B' : nat -> Z) (K K' : nat -> key) T,
    tbits B K T -> (forall i, In i (inners T) -> B' i = B i) -> (forall j, In j (leaves T) -> K' j = K j) ->
    tbits B' K' T.
  Proof.
    induction T as [i|i l IHl r IHr]; intros TB HB HK; simpl in *; auto.
    destruct TB as [B1 [L0 [R1 [AG [Tl Tr]]]]]. rewrite (HB i) by auto.
    assert (KL : forall j, In j (leaves l ++ leaves r) -> K' j = K j) by auto.
    split; auto. split; [intros j Hj; rewrite KL by (apply in_or_app; auto); auto|].
    split; [intros j Hj; rewrite KL by (apply in_or_app; auto); auto|].
    split; [intros j j' Hj Hj'; rewrite !KL by auto; auto|].
    split; [apply IHl | apply IHr]; auto; intros; try apply HB; try apply HK; simpl; try right; apply in_or_app; auto.
  Qed.

  (** the two links of an inner node are different *)
  Lemma links_distinct : forall h pbp c cn tl tr l r,
    Rep h pbp c (PNode c tl tr) -> tbits (nbp h) (nkey h) (PNode c tl tr) ->
    nth_error h c = Some cn -> n_left cn = Some l -> n_right cn = Some r -> l <> r.
  Proof.
    intros h pbp c cn tl tr l r R TB Hc HL HR E. subst r. inversion R; subst.
    assert (cn0 = cn) by congruence. subst. assert (l0 = l) by congruence. assert (r = l) by congruence. subst.
    assert (ET : tl = tr) by (eapply rep_det; eauto). subst tr.
    destruct TB as [_ [L0 [R1 _]]]. destruct (leaves tl) as [|j js] eqn:EL; [now apply leaves_nonempty in EL|].
    specialize (L0 j (or_introl eq_refl)). specialize (R1 j (or_introl eq_refl)). congruence.
  Qed.

  (** ** the logical invariant of a state *)
  Record PInvN (t : pstate) (r : nat) (rn : pnode) (c : nat) (T : ptree) : Prop := {
    q_root : proot t = Some r;
    q_rn : nth_error (pheap t) r = Some rn;
    q_left : n_left rn = Some c;
    q_right : n_right rn = None;
    q_bp : n_bp rn = 0;
    q_rep : Rep (pheap t) 0 c T;
    q_single : match T with PLeaf i => i = r | PNode _ _ _ => True end;
    q_nodup : NoDup (inners T);
    q_bits : tbits (nbp (pheap t)) (nkey (pheap t)) T;
    q_keys : forall j, In j (leaves T) -> kvalid (nkey (pheap t) j);
    q_size : psize t = Z.of_nat (length (leaves T))
  }.

  Definition PInv (t : pstate) : Prop :=
    match proot t with
    | None => psize t = 0
    | Some r => exists rn c T, PInvN t r rn c T
    end.

  Lemma good_of_tbits : forall (h : heap) T, tbits (nbp h) (nkey h) T -> good h T = true.
  Proof.
    induction T as [i|i l IHl r IHr]; intros TB; simpl; auto.
    destruct TB as [_ [L0 [R1 [_ [Tl Tr]]]]]. rewrite IHl, IHr by auto.
    rewrite !andb_true_r. apply andb_true_iff. split; apply forallb_forall; intros j Hj.
    - now rewrite L0.
    - now apply R1.
  Qed.

  Lemma PInvN_tree : forall t r rn c T, PInvN t r rn c T -> p_tree t = Some T.
  Proof.
    intros t r rn c T I. destruct I. unfold p_tree. rewrite q_root0, q_rn0, q_left0, q_right0, q_bp0. rewrite Z.eqb_refl.
    apply rep_unfold; auto. pose proof (height_inners T).
    assert ((length (inners T) <= length (pheap t))%nat); [|lia].
    destruct (rep_valid _ _ _ _ q_rep0) as [VI _].
    pose proof (NoDup_incl_length q_nodup0 (l' := seq 0 (length (pheap t)))) as NL.
    rewrite seq_length in NL. apply NL.
    intros i Hi. apply in_seq. specialize (VI i Hi). lia.
  Qed.

  Theorem PInv_check : forall t, PInv t -> p_inv_check t = true.
  Proof.
    intros t I. unfold PInv in I. unfold p_inv_check. destruct (proot t) as [r|] eqn:R.
    - destruct I as [rn [c [T I]]]. rewrite (PInvN_tree t r rn c T I). destruct I.
      rewrite (good_of_tbits _ _ q_bits0). rewrite q_size0, Z.eqb_refl. cbn [andb].
      rewrite andb_true_r. apply andb_true_iff. split.
      + apply ss_increasing. apply tbits_sorted with (B := nbp (pheap t)); auto.
        intros j Hj. now destruct (q_keys0 j Hj).
      + destruct T; auto. simpl. subst. apply Nat.eqb_refl.
    - now apply Z.eqb_eq.
  Qed.

  (** ** heap updates *)
  Lemma hset_length : forall (h : heap) i n, length (hset h i n) = length h.
  Proof. induction h as [|x h IH]; intros [|i] n; simpl; auto. Qed.

  Lemma nth_hset_eq : forall (h : heap) i n, (i < length h)%nat -> nth_error (hset h i n) i = Some n.
  Proof. induction h as [|x h IH]; intros [|i] n H; simpl in *; try lia; auto. apply IH. lia. Qed.

  Lemma nth_hset_neq : forall (h : heap) i j n, i <> j -> nth_error (hset h i n) j = nth_error h j.
  Proof. induction h as [|x h IH]; intros [|i] [|j] n H; simpl; auto; try congruence. Qed.

  Definition with_left (n : pnode) (l : option nat) : pnode :=
    {| n_bp := n_bp n; n_key := n_key n; n_val := n_val n; n_left := l; n_right := n_right n |}.
  Definition with_right (n : pnode) (r : option nat) : pnode :=
    {| n_bp := n_bp n; n_key := n_key n; n_val := n_val n; n_left := n_left n; n_right := r |}.

  Definition redirect (h1 : heap) (p c nid : nat) : heap :=
    match nth_error h1 p with
    | Some pn => if oeq (n_left pn) (Some c) then hset h1 p (with_left pn (Some nid))
                 else hset h1 p (with_right pn (Some nid))
    | None => h1
    end.

  Section Insert.
    Variable h : heap.
    Variable k : key.
    Variable v : V.
    Variable dp : Z.
    Let nid := length h.
    Definition nw (c' : nat) : pnode :=
      if pbit k dp then {| n_bp := dp; n_key := k; n_val := v; n_left := Some c'; n_right := Some nid |}
      else {| n_bp := dp; n_key := k; n_val := v; n_left := Some nid; n_right := Some c' |}.
    Definition H2 (p' c' : nat) : heap := redirect (h ++ [nw c']) p' c' nid.

    Lemma H2_other : forall p' c' i, (i < length h)%nat -> i <> p' -> nth_error (H2 p' c') i = nth_error h i.
    Proof.
      intros p' c' i Hi NE. unfold H2, redirect. destruct (nth_error (h ++ [nw c']) p') as [pn|].
      - destruct (oeq (n_left pn) (Some c')); rewrite nth_hset_neq by auto; now apply nth_error_app1.
      - now apply nth_error_app1.
    Qed.

    Lemma H2_at : forall p' c' pn, nth_error h p' = Some pn ->
      nth_error (H2 p' c') p' =
        Some (if oeq (n_left pn) (Some c') then with_left pn (Some nid) else with_right pn (Some nid)).
    Proof.
      intros p' c' pn Hp. assert (L : (p' < length h)%nat) by (apply nth_error_Some; congruence).
      unfold H2, redirect. rewrite (nth_error_app1 _ _ L), Hp.
      destruct (oeq (n_left pn) (Some c')); apply nth_hset_eq; rewrite app_length; simpl; lia.
    Qed.

    Lemma H2_new : forall p' c', (p' < length h)%nat -> nth_error (H2 p' c') nid = Some (nw c').
    Proof.
      intros p' c' L. unfold H2, redirect. rewrite (nth_error_app1 _ _ L).
      assert (E : nth_error (h ++ [nw c']) nid = Some (nw c')).
      { unfold nid. rewrite nth_error_app2 by lia. now rewrite Nat.sub_diag. }
      destruct (nth_error h p') as [pn|]; auto.
      destruct (oeq (n_left pn) (Some c')); rewrite nth_hset_neq; auto; unfold nid; lia.
    Qed.

    Lemma H2_bp : forall p' c' i n, (p' < length h)%nat -> nth_error h i = Some n ->
      exists n', nth_error (H2 p' c') i = Some n' /\ n_bp n' = n_bp n /\ n_key n' = n_key n /\ n_val n' = n_val n.
    Proof.
      intros p' c' i n L Hi. destruct (Nat.eq_dec i p') as [->|NE].
      - rewrite (H2_at p' c' n Hi). destruct (oeq (n_left n) (Some c')); eexists; split; eauto.
      - exists n. rewrite H2_other; auto. apply nth_error_Some. congruence.
    Qed.

    (** trees that do not contain the redirected node as an inner node are unchanged *)
    Lemma H2_frame : forall p' c' pbp c T, (p' < length h)%nat ->
      Rep h pbp c T -> ~ In p' (inners T) -> Rep (H2 p' c') pbp c T.
    Proof.
      intros p' c' pbp c T L R NI. apply (rep_frame h); auto.
      - intros i Hi. destruct (rep_valid _ _ _ _ R) as [VI _]. specialize (VI i Hi).
        destruct (nth_error h i) as [n|] eqn:E; [|apply nth_error_None in E; lia].
        exists n, n. rewrite H2_other; [repeat split; auto | auto | intros ->; contradiction].
      - intros j Hj. destruct (rep_valid _ _ _ _ R) as [_ VL]. specialize (VL j Hj).
        destruct (nth_error h j) as [n|] eqn:E; [|apply nth_error_None in E; lia].
        destruct (H2_bp p' c' j n L E) as [n' [E1 [E2 _]]]. eauto.
    Qed.

    Lemma rep_wrap : forall p pn S pbp c,
      nth_error h p = Some pn -> n_bp pn = pbp -> pbp < dp ->
      Rep h pbp c S -> ~ In p (inners S) ->
      (match S with PLeaf _ => True | PNode i _ _ => dp < nbp h i end) ->
      Rep (H2 p c) pbp nid (wrap k dp nid S).
    Proof.
      intros p pn S pbp c Hp Hb LT R NI SH.
      assert (L : (p < length h)%nat) by (apply nth_error_Some; congruence).
      assert (RS : Rep (H2 p c) dp c S).
      { inversion R; subst.
        - destruct (H2_bp p c c cn L H) as [n' [E1 [E2 _]]]. apply (RepLeaf _ dp c n'); auto. lia.
        - apply (H2_frame p c) in R; auto. inversion R; subst.
          apply (RepNode _ dp c cn0 l0 r0); auto.
          assert (EB : n_bp cn0 = n_bp cn).
          { destruct (H2_bp p c c cn L H) as [n' [E1 [E2 _]]]. congruence. }
          rewrite EB. unfold nbp in SH. now rewrite H in SH. }
      assert (RN : Rep (H2 p c) dp nid (PLeaf nid)).
      { apply (RepLeaf _ dp nid (nw c)); [now apply H2_new|]. unfold nw. destruct (pbit k dp); simpl; lia. }
      unfold wrap. destruct (pbit k dp) eqn:E.
      - apply (RepNode _ pbp nid (nw c) c nid); try (unfold nw; rewrite E; simpl; auto; lia).
        all: try (now apply H2_new). all: unfold nw; rewrite E; simpl; auto.
      - apply (RepNode _ pbp nid (nw c) nid c); try (unfold nw; rewrite E; simpl; auto; lia).
        all: try (now apply H2_new). all: unfold nw; rewrite E; simpl; auto.
    Qed.

    Lemma put_stop : forall g p pn c cn,
      nth_error h p = Some pn -> nth_error h c = Some cn ->
      (n_bp cn <= n_bp pn \/ dp <= n_bp cn) ->
      put_loop (S g) h k dp p c = ROk (p, c).
    Proof.
      intros g p pn c cn Hp Hc H. cbn [put_loop]. unfold hget. rewrite Hp, Hc. cbn [rbind].
      replace ((n_bp cn >? n_bp pn) && (n_bp cn <? dp)) with false; [reflexivity|].
      symmetry. apply andb_false_iff. rewrite Z.gtb_ltb. destruct H; [left | right]; apply Z.ltb_ge; lia.
    Qed.

    Lemma put_core : forall S pbp c, Rep h pbp c S -> forall p pn g,
      nth_error h p = Some pn -> n_bp pn = pbp -> pbp < dp -> 0 <= pbp ->
      tbits (nbp h) (nkey h) S -> NoDup (inners S) -> (height S < g)%nat ->
      agree k (nkey h (ts (nbp h) k S)) dp -> pbit k dp <> pbit (nkey h (ts (nbp h) k S)) dp ->
      exists p' c', put_loop g h k dp p c = ROk (p', c') /\ (p' < length h)%nat /\
        (p' = p \/ In p' (inners S)) /\ (p' = p -> c' = c) /\
        Rep (H2 p' c') pbp (if Nat.eqb p' p then nid else c) (tins (nbp h) k dp nid S).
    Proof.
      induction 1 as [pbp c cn Hc LE | pbp c cn l r tl tr Hc LT HL HR Rl IHl Rr IHr];
        intros p pn g Hp Hb LTd Hz TB ND Hg AG DF;
        assert (L : (p < length h)%nat) by (apply nth_error_Some; congruence);
        (destruct g as [|g]; [simpl in Hg; lia|]).
      - exists p, c. split; [apply (put_stop g p pn c cn); auto; lia|].
        split; [exact L|]. split; [auto|]. split; [auto|]. rewrite Nat.eqb_refl. cbn [tins].
        apply (rep_wrap p pn (PLeaf c) pbp c); auto. eapply RepLeaf; eauto.
      - pose proof TB as [B1 [L0 [R1 [AGT [Tl Tr]]]]].
        assert (NB : nbp h c = n_bp cn) by (unfold nbp; now rewrite Hc).
        assert (RW : Rep h pbp c (PNode c tl tr)) by (eapply RepNode; eauto).
        simpl in ND. apply NoDup_cons_iff in ND as [NC ND]. apply nodup_app_iff in ND as [NDl [NDr DJ]].
        assert (PC : p <> c) by (intros ->; rewrite Hp in Hc; injection Hc as ->; lia).
        assert (PI : ~ In p (inners (PNode c tl tr))).
        { intros I. pose proof (rep_inner_bp _ _ _ _ RW p I) as Q. unfold nbp in Q. rewrite Hp in Q. lia. }
        cbn [tins ts] in *. rewrite NB in *.
        destruct (Z.ltb_spec (n_bp cn) dp) as [LTc|GEc].
        + (* descend *)
          assert (STEP : forall x, child cn (pbit k (n_bp cn)) = ROk x ->
                    put_loop (S g) h k dp p c = put_loop g h k dp c x).
          { intros x CH. cbn [put_loop]. unfold hget. rewrite Hp, Hc. cbn [rbind]. rewrite Hb.
            replace (n_bp cn >? pbp) with true by (symmetry; apply Z.gtb_lt; lia).
            replace (n_bp cn <? dp) with true by (symmetry; apply Z.ltb_lt; lia). cbn [andb].
            rewrite kbit_pos by lia. cbn [rbind]. rewrite CH. reflexivity. }
          assert (CI : ~ In c (inners tl) /\ ~ In c (inners tr)).
          { split; intros I; [pose proof (rep_inner_bp _ _ _ _ Rl c I) as Q | pose proof (rep_inner_bp _ _ _ _ Rr c I) as Q];
              rewrite NB in Q; lia. }
          assert (LR : l <> r) by (eapply links_distinct; eauto).
          assert (Lc : (c < length h)%nat) by (apply nth_error_Some; congruence).
          simpl in Hg.
          destruct (pbit k (n_bp cn)) eqn:EB.
          * destruct (IHr c cn g Hc eq_refl LTc) as [p' [c' [PL [Lp [WH [PC' RP]]]]]]; auto; try lia.
            exists p', c'. rewrite (STEP r) by (unfold child; now rewrite HR). split; [exact PL|]. split; [exact Lp|].
            assert (NP : p' <> p).
            { destruct WH as [-> | WH]; auto. intros ->. apply PI. simpl. right. apply in_or_app. auto. }
            split; [right; simpl; destruct WH as [-> | WH]; auto; right; apply in_or_app; auto|].
            split; [intros; contradiction|].
            replace (Nat.eqb p' p) with false by (symmetry; now apply Nat.eqb_neq).
            destruct (Nat.eq_dec p' c) as [->|NPC].
            -- specialize (PC' eq_refl). subst c'. rewrite Nat.eqb_refl in RP.
               pose proof (H2_at c r cn Hc) as HA. rewrite HL in HA.
               replace (oeq (Some l) (Some r)) with false in HA by (symmetry; simpl; now apply Nat.eqb_neq).
               apply (RepNode _ pbp c (with_right cn (Some nid)) l nid); auto.
               ++ simpl. apply H2_frame; auto. tauto.
            -- rewrite (proj2 (Nat.eqb_neq _ _) NPC) in RP.
               assert (INR : In p' (inners tr)) by (destruct WH; congruence).
               apply (RepNode _ pbp c cn l r); auto.
               ++ rewrite H2_other; auto.
               ++ apply H2_frame; auto. intros IL. eapply DJ; eauto.
          * destruct (IHl c cn g Hc eq_refl LTc) as [p' [c' [PL [Lp [WH [PC' RP]]]]]]; auto; try lia.
            exists p', c'. rewrite (STEP l) by (unfold child; now rewrite HL). split; [exact PL|]. split; [exact Lp|].
            assert (NP : p' <> p).
            { destruct WH as [-> | WH]; auto. intros ->. apply PI. simpl. right. apply in_or_app. auto. }
            split; [right; simpl; destruct WH as [-> | WH]; auto; right; apply in_or_app; auto|].
            split; [intros; contradiction|].
            replace (Nat.eqb p' p) with false by (symmetry; now apply Nat.eqb_neq).
            destruct (Nat.eq_dec p' c) as [->|NPC].
            -- specialize (PC' eq_refl). subst c'. rewrite Nat.eqb_refl in RP.
               pose proof (H2_at c l cn Hc) as HA. rewrite HL in HA.
               replace (oeq (Some l) (Some l)) with true in HA by (symmetry; simpl; apply Nat.eqb_refl).
               apply (RepNode _ pbp c (with_left cn (Some nid)) nid r); auto.
               ++ simpl. apply H2_frame; auto. tauto.
            -- rewrite (proj2 (Nat.eqb_neq _ _) NPC) in RP.
               assert (INL : In p' (inners tl)) by (destruct WH; congruence).
               apply (RepNode _ pbp c cn l r); auto.
               ++ rewrite H2_other; auto.
               ++ apply H2_frame; auto. intros IR. eapply DJ; eauto.
        + (* the insertion point is this link *)
          exists p, c. split; [apply (put_stop g p pn c cn); auto; lia|].
          split; [exact L|]. split; [auto|]. split; [auto|]. rewrite Nat.eqb_refl.
          destruct (Z.ltb_spec (n_bp cn) dp); [lia|].
          apply (rep_wrap p pn (PNode c tl tr) pbp c); auto.
          rewrite NB. assert (NE : n_bp cn <> dp); [|lia].
          intros EQ. apply DF. rewrite <- EQ. destruct (pbit k (n_bp cn)) eqn:EB.
          * symmetry. apply R1. apply ts_in.
          * symmetry. apply L0. apply ts_in.
    Qed.
  End Insert.

  (** ** small facts used by the assembly *)
  Lemma tins_ext : forall (B B' : nat -> Z) k dp nid T,
    (forall i, In i (inners T) -> B' i = B i) -> tins B' k dp nid T = tins B k dp nid T.
  Proof.
    induction T as [i|i l IHl r IHr]; intros H; cbn [tins]; auto.
    rewrite (H i) by (simpl; auto). rewrite IHl, IHr; auto; intros; apply H; simpl; right; apply in_or_app; auto.
  Qed.

  Lemma ts_ext : forall (B B' : nat -> Z) k T,
    (forall i, In i (inners T) -> B' i = B i) -> ts B' k T = ts B k T.
  Proof.
    induction T as [i|i l IHl r IHr]; intros H; cbn [ts]; auto.
    rewrite (H i) by (simpl; auto). rewrite IHl, IHr; auto; intros; apply H; simpl; right; apply in_or_app; auto.
  Qed.

  Lemma tins_node : forall B k dp nid T, exists i l r, tins B k dp nid T = PNode i l r.
  Proof.
    intros B k dp nid T. assert (W : forall S, exists i l r, wrap k dp nid S = PNode i l r).
    { intros S. unfold wrap. destruct (pbit k dp); eauto. }
    destruct T as [i|i l r]; cbn [tins]; auto. destruct (B i <? dp); auto. destruct (pbit k (B i)); eauto.
  Qed.

  Lemma sput_In_iff : forall k (v : V) (m : smap V) e, sorted m ->
    (In e (sput k v m) <-> e = (k, v) \/ (In e m /\ fst e <> k)).
  Proof.
    induction m as [|[k' v'] m IH]; intros e S; simpl.
    - intuition.
    - apply sorted_cons_inv in S as [S F]. rewrite Forall_forall in F. destruct (lex_cmp k k') eqn:E.
      + apply lex_cmp_eq in E. subst k'. simpl. split.
        * intros [<- | H]; auto. right. split; auto. intros EQ. apply F in H. unfold elt in H. simpl in H.
          rewrite EQ in H. now apply klt_irrefl in H.
        * intros [-> | [[<- | H] NE]]; auto. simpl in NE. congruence.
      + simpl. split.
        * intros [<- | [<- | H]]; auto.
          -- right. split; auto. simpl. intros ->. rewrite lex_cmp_refl in E. discriminate.
          -- right. split; auto. intros EQ. apply F in H. unfold elt in H. simpl in H. rewrite EQ in H.
             apply (klt_irrefl k). eapply klt_trans; eauto.
        * intros [-> | [H NE]]; auto.
      + simpl. rewrite IH by exact S. split.
        * intros [<- | [-> | [H NE]]]; auto. right. split; auto. simpl. intros ->.
          rewrite lex_cmp_refl in E. discriminate.
        * intros [-> | [[<- | H] NE]]; auto.
  Qed.

  Lemma contents_In : forall t r rn c T e, PInvN t r rn c T ->
    (In e (p_contents t) <-> exists j n, In j (leaves T) /\ nth_error (pheap t) j = Some n /\ e = kv_of n).
  Proof.
    intros t r rn c T e I. unfold p_contents. rewrite (PInvN_tree t r rn c T I). rewrite in_map_iff. split.
    - intros [n [<- H]]. apply entries_In in H as [j [Hj Hn]]. eauto.
    - intros [j [n [Hj [Hn ->]]]]. exists n. split; auto. apply entries_In. eauto.
  Qed.

  Lemma PInv_sorted : forall t, PInv t -> sorted (p_contents t).
  Proof. intros t I. apply checked_sorted. now apply PInv_check. Qed.

  Lemma PInvN_search : forall t r rn c T k, PInvN t r rn c T ->
    p_search t k = ROk (Some (tsearch (pheap t) k T)).
  Proof.
    intros t r rn c T k I. pose proof (PInvN_tree t r rn c T I) as PT. destruct I.
    unfold p_tree in PT. rewrite q_root0, q_rn0, q_left0, q_right0, q_bp0, Z.eqb_refl in PT.
    unfold p_search. rewrite q_root0. unfold hget. rewrite q_rn0. cbn [rbind]. rewrite q_left0. cbn [link rbind].
    rewrite (search_unfold _ _ k 0 r rn c T _ PT q_rn0 q_bp0) by (unfold fuel_of; lia). reflexivity.
  Qed.

  (** a held key is found by its own search: no other thread carries the same key *)
  Lemma key_unique : forall t r rn c T j, PInvN t r rn c T -> In j (leaves T) ->
    tsearch (pheap t) (nkey (pheap t) j) T = j.
  Proof. intros t r rn c T j I Hj. destruct I. apply tsearch_leaf; auto. now apply good_of_tbits. Qed.

  Lemma inners_le : forall t r rn c T, PInvN t r rn c T -> (length (inners T) <= length (pheap t))%nat.
  Proof.
    intros t r rn c T I. destruct I. destruct (rep_valid _ _ _ _ q_rep0) as [VI _].
    pose proof (NoDup_incl_length q_nodup0 (l' := seq 0 (length (pheap t)))) as NL.
    rewrite seq_length in NL. apply NL. intros i Hi. apply in_seq. specialize (VI i Hi). lia.
  Qed.

  (** ** Put into the empty trie *)
  Lemma put_empty : forall t k v, proot t = None -> kvalid k ->
    exists t', p_put t k v = ROk t' /\ PInv t' /\ p_contents t' = [(k, v)].
  Proof.
    intros t k v R KV. unfold p_put. rewrite R.
    set (id := length (pheap t)).
    set (n := {| n_bp := 0; n_key := k; n_val := v; n_left := Some id; n_right := None |}).
    set (t' := {| psize := 1; proot := Some id; pheap := pheap t ++ [n] |}).
    exists t'. split; [reflexivity|].
    assert (Hn : nth_error (pheap t') id = Some n).
    { simpl. unfold id. rewrite nth_error_app2 by lia. now rewrite Nat.sub_diag. }
    assert (I : PInvN t' id n id (PLeaf id)).
    { constructor; auto; simpl; try exact Logic.I; try (now constructor).
      - apply (RepLeaf _ 0 id n); auto. simpl. lia.
      - intros j [<- | []]. unfold nkey. change (pheap t ++ [n]) with (pheap t'). rewrite Hn. exact KV. }
    split.
    - unfold PInv. simpl. eauto.
    - unfold p_contents. rewrite (PInvN_tree t' id n id (PLeaf id) I). unfold entries. simpl.
      simpl in Hn. rewrite Hn. reflexivity.
  Qed.

  (** ** Put of a key that is not held *)
  Lemma put_new : forall t r rn c T k v ln, PInvN t r rn c T -> kvalid k ->
    nth_error (pheap t) (tsearch (pheap t) k T) = Some ln -> n_key ln <> k ->
    exists t', p_put t k v = ROk t' /\
      (exists rn2 c2, PInvN t' r rn2 c2 (tins (nbp (pheap t)) k (diffpos (n_key ln) k) (length (pheap t)) T)) /\
      forall e, In e (p_contents t') <-> e = (k, v) \/ (In e (p_contents t) /\ fst e <> k).
  Proof.
    intros t r rn c T k v ln I KV Hl NE. pose proof I as I0. destruct I.
    set (h := pheap t) in *. set (j0 := tsearch h k T) in *.
    assert (J0 : In j0 (leaves T)) by apply tsearch_in.
    assert (KL : nkey h j0 = n_key ln) by (unfold nkey; now rewrite Hl).
    destruct (diffpos_valid (n_key ln) k) as [D1 [AG DF]]; auto; [rewrite <- KL; auto|].
    set (dp := diffpos (n_key ln) k) in *.
    pose proof (inners_le t r rn c T I0) as IL. fold h in IL. pose proof (height_inners T) as HI.
    destruct (put_core h k v dp T 0 c q_rep0 r rn (fuel_of h)) as [p' [c' [PL [Lp [WH [PC RP]]]]]];
      auto; try lia.
    { unfold fuel_of. lia. }
    { rewrite <- tsearch_ts. fold j0. rewrite KL. now apply agree_sym. }
    { rewrite <- tsearch_ts. fold j0. rewrite KL. auto. }
    set (h2 := H2 h k v dp p' c') in *.
    set (t' := {| psize := psize t + 1; proot := Some r; pheap := h2 |}).
    exists t'.
    destruct (nth_error h p') as [pn'|] eqn:Hp'; [|apply nth_error_None in Hp'; lia].
    assert (PUT : p_put t k v = ROk t').
    { unfold p_put. fold h. rewrite q_root0. rewrite (PInvN_search t r rn c T k I0). fold h j0.
      cbn [rbind link]. unfold hget at 1. rewrite Hl. cbn [rbind].
      rewrite (proj2 (keqb_neq _ _) NE). fold dp. unfold hget at 1. rewrite q_rn0. cbn [rbind].
      rewrite q_left0. cbn [link rbind]. rewrite PL. cbn [rbind]. rewrite kbit_pos by lia. cbn [rbind].
      unfold hget at 1. rewrite (nth_error_app1 _ _ Lp), Hp'. cbn [rbind].
      unfold t', h2, H2, redirect. rewrite (nth_error_app1 _ _ Lp), Hp'. unfold nw.
      unfold set_left, set_right, hget. rewrite (nth_error_app1 _ _ Lp), Hp'. cbn [rbind].
      destruct (oeq (n_left pn') (Some c')); cbn [rbind]; reflexivity. }
    split; [exact PUT|].
    (* the nodes of the new heap *)
    assert (OLD : forall i n, nth_error h i = Some n ->
              exists n', nth_error h2 i = Some n' /\ n_bp n' = n_bp n /\ n_key n' = n_key n /\ n_val n' = n_val n).
    { intros i n Hi. now apply H2_bp. }
    assert (NEW : nth_error h2 (length h) = Some (nw h k v dp c')) by now apply H2_new.
    assert (BI : forall i, In i (inners T) -> nbp h2 i = nbp h i).
    { intros i Hi. destruct (rep_valid _ _ _ _ q_rep0) as [VI _]. specialize (VI i Hi).
      destruct (nth_error h i) as [n|] eqn:E; [|apply nth_error_None in E; lia].
      destruct (OLD i n E) as [n' [E1 [E2 _]]]. unfold nbp. now rewrite E, E1. }
    assert (KJ : forall j, In j (leaves T) -> nkey h2 j = nkey h j).
    { intros j Hj. destruct (rep_valid _ _ _ _ q_rep0) as [_ VL]. specialize (VL j Hj).
      destruct (nth_error h j) as [n|] eqn:E; [|apply nth_error_None in E; lia].
      destruct (OLD j n E) as [n' [E1 [_ [E3 _]]]]. unfold nkey. now rewrite E, E1. }
    assert (BN : nbp h2 (length h) = dp).
    { unfold nbp. rewrite NEW. unfold nw. now destruct (pbit k dp). }
    assert (KN : nkey h2 (length h) = k).
    { unfold nkey. rewrite NEW. unfold nw. now destruct (pbit k dp). }
    assert (FI : ~ In (length h) (inners T)).
    { intros F. destruct (rep_valid _ _ _ _ q_rep0) as [VI _]. specialize (VI _ F). lia. }
    assert (FL : ~ In (length h) (leaves T)).
    { intros F. destruct (rep_valid _ _ _ _ q_rep0) as [_ VL]. specialize (VL _ F). lia. }
    set (T' := tins (nbp h) k dp (length h) T) in *.
    assert (ET : T' = tins (nbp h2) k dp (length h) T) by (symmetry; now apply tins_ext).
    (* the new root record and its left link *)
    set (c2 := if Nat.eqb p' r then length h else c) in *.
    assert (ROOT : exists rn2, nth_error h2 r = Some rn2 /\ n_left rn2 = Some c2 /\ n_right rn2 = None /\ n_bp rn2 = 0).
    { unfold c2. destruct (Nat.eqb_spec p' r) as [->|NR].
      - specialize (PC eq_refl). subst c'. rewrite Hp' in q_rn0. injection q_rn0 as ->.
        unfold h2. rewrite (H2_at h k v dp r c rn Hp'). rewrite q_left0. simpl. rewrite Nat.eqb_refl.
        eexists. split; [reflexivity|]. simpl. auto.
      - exists rn. unfold h2. rewrite H2_other; auto. apply nth_error_Some. congruence. }
    destruct ROOT as [rn2 [R1 [R2 [R3 R4]]]].
    assert (I2 : PInvN t' r rn2 c2 T').
    { constructor; auto.
      - destruct (tins_node (nbp h) k dp (length h) T) as [i [l [rr E]]]. unfold T'. now rewrite E.
      - apply (nodup_tins (nbp h) (nkey h)); auto.
      - simpl. rewrite ET. apply tbits_tins; auto.
        + apply (tbits_ext (nbp h) _ (nkey h)); auto.
        + rewrite (ts_ext (nbp h)) by auto. rewrite <- tsearch_ts. fold j0. rewrite KJ, KL by auto. now apply agree_sym.
        + rewrite (ts_ext (nbp h)) by auto. rewrite <- tsearch_ts. fold j0. rewrite KJ, KL by auto. auto.
      - simpl. intros j Hj. unfold T' in Hj. apply (leaves_tins (nbp h) (nkey h)) in Hj. destruct Hj as [-> | Hj]; [now rewrite KN|].
        rewrite KJ by auto. auto.
      - simpl. unfold T'. rewrite length_leaves_tins, q_size0. lia. }
    split; [exists rn2, c2; exact I2|].
    intros e. rewrite (contents_In t' r rn2 c2 T' e I2), (contents_In t r rn c T e I0). simpl. fold h. split.
    - intros [j [n [Hj [Hn ->]]]]. apply (leaves_tins (nbp h) (nkey h)) in Hj as [-> | Hj].
      + left. rewrite NEW in Hn. injection Hn as <-. unfold nw, kv_of. now destruct (pbit k dp).
      + right. destruct (rep_valid _ _ _ _ q_rep0) as [_ VL]. specialize (VL j Hj).
        destruct (nth_error h j) as [n0|] eqn:E; [|apply nth_error_None in E; lia].
        destruct (OLD j n0 E) as [n' [E1 [_ [E3 E4]]]]. rewrite Hn in E1. injection E1 as <-.
        split.
        * exists j, n0. repeat split; auto. unfold kv_of. now rewrite E3, E4.
        * simpl. rewrite E3. intros EK. apply NE.
          assert (JJ : j = j0).
          { unfold j0. rewrite <- (key_unique t r rn c T j I0 Hj). fold h. unfold nkey. now rewrite E, EK. }
          subst j. rewrite Hl in E. injection E as <-. exact EK.
    - intros [-> | [[j [n [Hj [Hn ->]]]] NK]].
      + exists (length h), (nw h k v dp c'). split; [apply (leaves_tins (nbp h) (nkey h)); auto|]. split; auto.
        unfold nw, kv_of. now destruct (pbit k dp).
      + destruct (OLD j n Hn) as [n' [E1 [_ [E3 E4]]]]. exists j, n'. split; [apply (leaves_tins (nbp h) (nkey h)); auto|].
        split; auto. unfold kv_of. now rewrite E3, E4.
  Qed.

  (** ** Put of a held key: the value is replaced *)
  Lemma put_update : forall t r rn c T k v ln, PInvN t r rn c T ->
    nth_error (pheap t) (tsearch (pheap t) k T) = Some ln -> n_key ln = k ->
    exists t', p_put t k v = ROk t' /\ (exists rn2, PInvN t' r rn2 c T) /\
      forall e, In e (p_contents t') <-> e = (k, v) \/ (In e (p_contents t) /\ fst e <> k).
  Proof.
    intros t r rn c T k v ln I Hl EK. pose proof I as I0. destruct I.
    set (h := pheap t) in *. set (j0 := tsearch h k T) in *.
    assert (J0 : In j0 (leaves T)) by apply tsearch_in.
    set (ln' := {| n_bp := n_bp ln; n_key := n_key ln; n_val := v; n_left := n_left ln; n_right := n_right ln |}).
    set (h2 := hset h j0 ln').
    set (t' := {| psize := psize t; proot := Some r; pheap := h2 |}).
    assert (Lj : (j0 < length h)%nat) by (apply nth_error_Some; congruence).
    assert (PUT : p_put t k v = ROk t').
    { unfold p_put. fold h. rewrite q_root0. rewrite (PInvN_search t r rn c T k I0). fold h j0.
      cbn [rbind link]. unfold hget at 1. rewrite Hl. cbn [rbind].
      rewrite (proj2 (keqb_eq _ _) EK). reflexivity. }
    exists t'. split; [exact PUT|].
    assert (AT : nth_error h2 j0 = Some ln') by (apply nth_hset_eq; exact Lj).
    assert (OT : forall i, i <> j0 -> nth_error h2 i = nth_error h i) by (intros; apply nth_hset_neq; auto).
    assert (OLD : forall i n, nth_error h i = Some n ->
              exists n', nth_error h2 i = Some n' /\ same_shape n n' /\ n_key n' = n_key n /\ (i <> j0 -> n' = n)).
    { intros i n Hi. destruct (Nat.eq_dec i j0) as [->|NE].
      - rewrite Hl in Hi. injection Hi as <-. exists ln'. repeat split; auto. intros; contradiction.
      - exists n. rewrite OT by auto. repeat split; auto. }
    assert (BI : forall i, nbp h2 i = nbp h i).
    { intros i. unfold nbp. destruct (nth_error h i) as [n|] eqn:E.
      - destruct (OLD i n E) as [n' [E1 [[S1 _] _]]]. now rewrite E1.
      - assert (nth_error h2 i = None) by (apply nth_error_None; unfold h2; rewrite hset_length; now apply nth_error_None).
        now rewrite H. }
    assert (KI : forall i, nkey h2 i = nkey h i).
    { intros i. unfold nkey. destruct (nth_error h i) as [n|] eqn:E.
      - destruct (OLD i n E) as [n' [E1 [_ [E3 _]]]]. now rewrite E1.
      - assert (nth_error h2 i = None) by (apply nth_error_None; unfold h2; rewrite hset_length; now apply nth_error_None).
        now rewrite H. }
    destruct (OLD r rn q_rn0) as [rn2 [R1 [[S1 [S2 S3]] _]]].
    assert (I2 : PInvN t' r rn2 c T).
    { constructor; auto; simpl; try congruence.
      - apply (rep_frame h); auto.
        + intros i Hi. destruct (rep_valid _ _ _ _ q_rep0) as [VI _]. specialize (VI i Hi).
          destruct (nth_error h i) as [n|] eqn:E; [|apply nth_error_None in E; lia].
          destruct (OLD i n E) as [n' [E1 [SS _]]]. eauto.
        + intros j Hj. destruct (rep_valid _ _ _ _ q_rep0) as [_ VL]. specialize (VL j Hj).
          destruct (nth_error h j) as [n|] eqn:E; [|apply nth_error_None in E; lia].
          destruct (OLD j n E) as [n' [E1 [[SS _] _]]]. eauto.
      - apply (tbits_ext (nbp h) _ (nkey h)); auto.
      - intros j Hj. rewrite KI. auto. }
    split; [exists rn2; exact I2|].
    intros e. rewrite (contents_In t' r rn2 c T e I2), (contents_In t r rn c T e I0). simpl. fold h. split.
    - intros [j [n [Hj [Hn ->]]]]. destruct (Nat.eq_dec j j0) as [->|NJ].
      + left. rewrite AT in Hn. injection Hn as <-. unfold kv_of, ln'. simpl. now rewrite EK.
      + right. rewrite OT in Hn by auto. split; [eauto|]. simpl. intros EQ. apply NJ.
        unfold j0. rewrite <- (key_unique t r rn c T j I0 Hj). fold h. unfold nkey. now rewrite Hn, EQ.
    - intros [-> | [[j [n [Hj [Hn ->]]]] NK]].
      + exists j0, ln'. repeat split; auto. unfold kv_of, ln'. simpl. now rewrite EK.
      + assert (NJ : j <> j0).
        { intros ->. rewrite Hl in Hn. injection Hn as <-. simpl in NK. contradiction. }
        exists j, n. rewrite OT by auto. auto.
  Qed.

  (** ** Put preserves the invariant and has the effect of the specification *)
  Theorem p_put_preserves : forall t k v, PInv t -> kvalid k ->
    exists t', p_put t k v = ROk t' /\ PInv t' /\ p_contents t' = sput k v (p_contents t).
  Proof.
    intros t k v I KV. pose proof (PInv_sorted t I) as ST. unfold PInv in I.
    destruct (proot t) as [r|] eqn:R.
    - destruct I as [rn [c [T I]]].
      assert (J0 : In (tsearch (pheap t) k T) (leaves T)) by apply tsearch_in.
      destruct (rep_valid _ _ _ _ (q_rep _ _ _ _ _ I)) as [_ VL]. specialize (VL _ J0).
      destruct (nth_error (pheap t) (tsearch (pheap t) k T)) as [ln|] eqn:Hl; [|apply nth_error_None in Hl; lia].
      assert (EX : exists t', p_put t k v = ROk t' /\ PInv t' /\
                 forall e, In e (p_contents t') <-> e = (k, v) \/ (In e (p_contents t) /\ fst e <> k)).
      { destruct (list_eq_dec N.eq_dec (n_key ln) k) as [EK|NE].
        - destruct (put_update t r rn c T k v ln I Hl EK) as [t' [P [[rn2 I2] C]]].
          exists t'. repeat split; auto; try apply C. unfold PInv. rewrite (q_root _ _ _ _ _ I2). eauto.
        - destruct (put_new t r rn c T k v ln I KV Hl NE) as [t' [P [[rn2 [c2 I2]] C]]].
          exists t'. repeat split; auto; try apply C. unfold PInv. rewrite (q_root _ _ _ _ _ I2). eauto. }
      destruct EX as [t' [P [I' C]]]. exists t'. split; auto. split; auto.
      apply sorted_ext; [now apply PInv_sorted | now apply sput_sorted |].
      intros e. rewrite C. symmetry. now apply sput_In_iff.
    - destruct (put_empty t k v R KV) as [t' [P [I' C]]]. exists t'. split; auto. split; auto.
      rewrite C. unfold p_contents, p_tree. now rewrite R.
  Qed.

  (** ** histories of Put and the checked queries *)
  Definition nd_event (e : ev V) : Prop :=
    match e with
    | EPut k _ => kvalid k
    | _ => checked_query_m e
    end.

  Lemma p_run_noDelete : forall es t m, PInv t -> p_contents t = m -> Forall nd_event es ->
    p_run t es = s_run m es.
  Proof.
    induction es as [|e es IH]; intros t m I C F; [reflexivity|].
    inversion F as [|? ? E F']; subst. cbn [p_run s_run].
    destruct e; cbn [nd_event] in E;
      try (rewrite (p_step_checked_m t _ (PInv_check t I) E); cbn [s_step snd]; f_equal; now apply IH).
    destruct (p_put_preserves t k v I E) as [t' [P [I' C']]].
    cbn [p_step s_step]. rewrite P. cbn [rbind lift_mut]. f_equal. now apply IH.
  Qed.

  Theorem patricia_refines_noDelete : forall es : list (ev V),
    Forall nd_event es -> p_run p_new es = s_run [] es.
  Proof.
    intros es F. apply p_run_noDelete; auto. unfold PInv. reflexivity.
  Qed.

  Theorem patricia_put_invariant : forall t k v, PInv t -> kvalid k ->
    exists t', p_put t k v = ROk t' /\ p_inv_check t' = true /\ p_contents t' = sput k v (p_contents t).
  Proof.
    intros t k v I KV. destruct (p_put_preserves t k v I KV) as [t' [P [I' C]]].
    exists t'. repeat split; auto. now apply PInv_check.
  Qed.

  (** ** removing the only key: Delete / DeleteMin / DeleteMax on a one-key trie *)
  Lemma leaves_two : forall i l r, (2 <= length (leaves (PNode i l r)))%nat.
  Proof.
    intros i l r. simpl. rewrite app_length.
    pose proof (leaves_nonempty l). pose proof (leaves_nonempty r).
    destruct (leaves l); [contradiction|]. destruct (leaves r); [contradiction|]. simpl. lia.
  Qed.

  Lemma single_remove : forall t r rn c d (check : pnode -> bool),
    PInvN t r rn c (PLeaf c) -> check rn = true ->
    exists t', p_delete_dir t r d check = ROk (t', Some (n_key rn, n_val rn)) /\
               proot t' = None /\ psize t' = 0.
  Proof.
    intros t r rn c d check I CK. destruct I. simpl in q_single0. subst c.
    assert (Q0 : psize t = 1) by (rewrite q_size0; reflexivity).
    unfold p_delete_dir. unfold hget at 1. rewrite q_rn0. cbn [rbind]. rewrite q_left0. cbn [link rbind].
    unfold fuel_of. cbn [del_loop1]. unfold hget at 1 2. rewrite q_rn0. cbn [rbind]. rewrite Z.ltb_irrefl. cbn [rbind].
    unfold hget at 1. rewrite q_rn0. cbn [rbind]. rewrite CK.
    cbn [del_loop2]. rewrite Nat.eqb_refl. cbn [rbind].
    unfold p_remove. unfold hget at 1 2. rewrite q_rn0. cbn [rbind]. rewrite !Nat.eqb_refl. cbn [rbind].
    unfold set_left, hget. rewrite q_rn0. cbn [rbind]. rewrite Q0. cbn [Z.sub Z.eqb Z.add Z.opp Z.pos_sub].
    eexists. split; [reflexivity|]. split; reflexivity.
  Qed.

  Lemma single_contents : forall t r rn c, PInvN t r rn c (PLeaf c) -> p_contents t = [kv_of rn].
  Proof.
    intros t r rn c I. unfold p_contents. rewrite (PInvN_tree t r rn c _ I). destruct I.
    simpl in q_single0. subst c. unfold entries. simpl. now rewrite q_rn0.
  Qed.

  Lemma single_tree : forall t r rn c T, PInvN t r rn c T -> length (p_contents t) = 1%nat -> T = PLeaf c.
  Proof.
    intros t r rn c T I L.
    assert (CHK : p_inv_check t = true) by (apply PInv_check; unfold PInv; destruct I; rewrite q_root0; eauto 6 using Build_PInvN).
    pose proof (p_size_correct t CHK) as SZ. unfold s_size in SZ. rewrite L in SZ.
    pose proof I as I0. destruct I. rewrite q_size0 in SZ. destruct T as [i|i l rr].
    - inversion q_rep0; subst. reflexivity.
    - pose proof (leaves_two i l rr). lia.
  Qed.

  (** ** histories with DeleteAll, deletes of absent keys, and DeleteMin/DeleteMax on the empty trie *)
  Lemma PInv_empty_root : forall t, PInv t -> p_contents t = [] -> proot t = None.
  Proof.
    intros t I C. destruct (proot t) as [r|] eqn:R; auto. exfalso.
    pose proof (p_size_correct t (PInv_check t I)) as SZ. rewrite C in SZ. unfold s_size in SZ. simpl in SZ.
    unfold PInv in I. rewrite R in I. destruct I as [rn [c [T I]]]. destruct I.
    rewrite SZ in q_size0. destruct (leaves T) eqn:E; [now apply leaves_nonempty in E | simpl in q_size0; lia].
  Qed.

  Definition ok_event (m : smap V) (e : ev V) : Prop :=
    match e with
    | EPut k _ => kvalid k
    | EDelete k => sget k m = None \/ length m = 1%nat
    | EDeleteAll => True
    | EDeleteMin | EDeleteMax => (length m <= 1)%nat
    | _ => checked_query_m e
    end.

  Fixpoint ok_hist (m : smap V) (es : list (ev V)) : Prop :=
    match es with
    | [] => True
    | e :: es' => ok_event m e /\ ok_hist (fst (s_step m e)) es'
    end.

  Lemma PInv_after_single : forall t', proot t' = None -> psize t' = 0 -> PInv t' /\ p_contents t' = [].
  Proof.
    intros t' R Z. split; [unfold PInv; now rewrite R|]. unfold p_contents, p_tree. now rewrite R.
  Qed.

  (** the state behind a one-entry map *)
  Lemma single_state : forall t, PInv t -> length (p_contents t) = 1%nat ->
    exists r rn c, PInvN t r rn c (PLeaf c) /\ p_contents t = [kv_of rn].
  Proof.
    intros t I L. pose proof I as I0. unfold PInv in I. destruct (proot t) as [r|] eqn:R.
    - destruct I as [rn [c [T I]]]. pose proof (single_tree t r rn c T I L). subst T.
      exists r, rn, c. split; auto. now apply (single_contents t r rn c).
    - unfold p_contents, p_tree in L. rewrite R in L. discriminate.
  Qed.

  Lemma p_run_partial : forall es t m, PInv t -> p_contents t = m -> ok_hist m es -> p_run t es = s_run m es.
  Proof.
    induction es as [|e es IH]; intros t m I C F; [reflexivity|]. destruct F as [E F]. cbn [p_run s_run].
    destruct e; cbn [ok_event] in E; cbn [s_step fst] in F;
      try (rewrite (p_step_checked_m t _ (PInv_check t I) E); subst m; cbn [s_step snd]; f_equal; now apply IH).
    - destruct (p_put_preserves t k v I E) as [t' [P [I' C']]].
      cbn [p_step s_step]. rewrite P. cbn [rbind lift_mut]. f_equal. apply IH; auto. now rewrite C', C.
    - (* Delete *)
      cbn [p_step s_step]. subst m. destruct (sget k (p_contents t)) as [v0|] eqn:G.
      + destruct E as [E | E]; [discriminate|].
        destruct (single_state t I E) as [r [rn [c [IN CT]]]]. rewrite CT in *.
        simpl in G. destruct (keqb k (n_key rn)) eqn:EK; [|discriminate]. injection G as <-.
        destruct (single_remove t r rn c (ByKey k) (fun nn => keqb (n_key nn) k) IN) as [t' [D [R0 Z0]]];
          [now rewrite keqb_sym|].
        unfold p_delete. rewrite (q_root _ _ _ _ _ IN), D. cbn [rbind lift_mut fst snd]. f_equal.
        destruct (PInv_after_single t' R0 Z0) as [I' C'].
        assert (SD : sdel k [kv_of rn] = []) by (unfold kv_of; simpl; now rewrite EK).
        rewrite SD in *. now apply IH.
      + rewrite (p_delete_absent t k (PInv_check t I) G). cbn [lift_mut].
        assert (SD : sdel k (p_contents t) = p_contents t) by (apply sdel_notin; now apply sget_none_inv).
        rewrite SD in *. f_equal. now apply IH.
    - (* DeleteMin *)
      subst m. cbn [p_step s_step]. destruct (p_contents t) as [|e0 [|e1 m']] eqn:CT; simpl in E; try lia.
      + rewrite (p_deletemin_empty t (PInv_empty_root t I CT)). cbn [lift_mut hd_error tl]. f_equal. apply IH; auto.
      + destruct (single_state t I) as [r [rn [c [IN CT2]]]]; [now rewrite CT|]. rewrite CT in CT2. injection CT2 as ->.
        destruct (single_remove t r rn c GoLeft (fun _ => true) IN eq_refl) as [t' [D [R0 Z0]]].
        unfold p_deletemin. rewrite (q_root _ _ _ _ _ IN), D. cbn [lift_mut hd_error tl]. f_equal.
        destruct (PInv_after_single t' R0 Z0) as [I' C']. apply IH; auto.
    - (* DeleteMax *)
      subst m. cbn [p_step s_step]. destruct (p_contents t) as [|e0 [|e1 m']] eqn:CT; simpl in E; try lia.
      + rewrite (p_deletemax_empty t (PInv_empty_root t I CT)). cbn [lift_mut]. f_equal. apply IH; auto.
      + destruct (single_state t I) as [r [rn [c [IN CT2]]]]; [now rewrite CT|]. rewrite CT in CT2. injection CT2 as ->.
        destruct (single_remove t r rn c GoRight (fun _ => true) IN eq_refl) as [t' [D [R0 Z0]]].
        unfold p_deletemax. rewrite (q_root _ _ _ _ _ IN), D. cbn [lift_mut]. f_equal.
        destruct (PInv_after_single t' R0 Z0) as [I' C']. apply IH; auto.
    - cbn [p_step s_step]. f_equal. apply IH; auto. unfold PInv. reflexivity.
  Qed.

  Theorem patricia_refines_partial : forall es : list (ev V), ok_hist [] es -> p_run p_new es = s_run [] es.
  Proof. intros es F. apply p_run_partial; auto. unfold PInv. reflexivity. Qed.

  (** ** ownership (the facts the re-linking cases of remove depend on) is kept by Put *)
  Definition POwn (t : pstate) : Prop :=
    match proot t with
    | None => psize t = 0
    | Some r => exists rn c T, PInvN t r rn c T /\ owns T /\ NoDup (leaves T) /\ In r (leaves T)
    end.

  Lemma POwn_PInv : forall t, POwn t -> PInv t.
  Proof.
    intros t H. unfold POwn, PInv in *. destruct (proot t); auto. destruct H as [rn [c [T [I _]]]]. eauto.
  Qed.

  Theorem p_put_preserves_own : forall t k v, POwn t -> kvalid k ->
    exists t', p_put t k v = ROk t' /\ POwn t' /\ p_contents t' = sput k v (p_contents t).
  Proof.
    intros t k v O KV. pose proof (POwn_PInv t O) as I.
    destruct (p_put_preserves t k v I KV) as [t' [P [I' C]]]. exists t'. split; auto. split; auto.
    unfold POwn in O. destruct (proot t) as [r|] eqn:R.
    - destruct O as [rn [c [T [IN [OW [ND RL]]]]]].
      assert (J0 : In (tsearch (pheap t) k T) (leaves T)) by apply tsearch_in.
      destruct (rep_valid _ _ _ _ (q_rep _ _ _ _ _ IN)) as [_ VL]. pose proof (VL _ J0) as VJ.
      destruct (nth_error (pheap t) (tsearch (pheap t) k T)) as [ln|] eqn:Hl; [|apply nth_error_None in Hl; lia].
      destruct (list_eq_dec N.eq_dec (n_key ln) k) as [EK|NE].
      + destruct (put_update t r rn c T k v ln IN Hl EK) as [t2 [P2 [[rn2 I2] _]]].
        assert (t2 = t') by congruence. subst t2. unfold POwn. rewrite (q_root _ _ _ _ _ I2). eauto 8.
      + destruct (put_new t r rn c T k v ln IN KV Hl NE) as [t2 [P2 [[rn2 [c2 I2]] _]]].
        assert (t2 = t') by congruence. subst t2. unfold POwn. rewrite (q_root _ _ _ _ _ I2).
        exists rn2, c2. eexists. split; [exact I2|].
        assert (FL : ~ In (length (pheap t)) (leaves T)) by (intros F; specialize (VL _ F); lia).
        split; [now apply owns_tins|]. split; [now apply nodup_leaves_tins|].
        apply (leaves_tins (nbp (pheap t)) (nkey (pheap t))). auto.
    - destruct (put_empty t k v R KV) as [t2 [P2 [_ C2]]]. assert (t2 = t') by congruence. subst t2.
      destruct (single_state t' I') as [r [rn [c [IN _]]]]; [now rewrite C2|].
      unfold POwn. rewrite (q_root _ _ _ _ _ IN). exists rn, c, (PLeaf c). split; auto.
      pose proof (q_single _ _ _ _ _ IN) as SG. simpl in SG. subst c. simpl.
      repeat split; auto. repeat constructor; auto.
  Qed.
End Put.
