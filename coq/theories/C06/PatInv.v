(** C06 — Patricia model: an executable structural invariant [p_inv_check] and the theorem that in
    every state that passes it the queries (Size, Get, Min, Max, Floor, Ceiling, Select, Rank, Range,
    RangeSize, All) return what the specification returns on the state's contents.

    What is NOT proved here: that Put / Delete / DeleteMin / DeleteMax lead from a checked state to a
    checked state whose contents are those of the specification.  The driver evaluates
    [p_inv_check] on the model state after every mutator of every replayed case, and All() is
    compared with the specification, so that gap is covered by the correspondence on every run. *)
From Coq Require Import List NArith ZArith Bool Lia Sorted.
From Algo.C06 Require Import Spec SpecFacts Model ModelPat ProofsBinQ.
Import ListNotations.
Open Scope Z_scope.

Section PatInv.
  Context {V : Type}.
  Notation pnode := (pnode V).
  Notation pstate := (pstate V).
  Notation heap := (list pnode).

  (** the threaded structure below a link, unfolded into a tree: [PLeaf i] is an upward link to node
      [i], [PNode i l r] a downward link to node [i] *)
  Inductive ptree := PLeaf (i : nat) | PNode (i : nat) (l r : ptree).

  Fixpoint leaves (T : ptree) : list nat :=
    match T with PLeaf i => [i] | PNode _ l r => leaves l ++ leaves r end.

  Fixpoint unfold (f : nat) (h : heap) (pbp : Z) (c : nat) : option ptree :=
    match f with
    | O => None
    | S f' =>
        match nth_error h c with
        | None => None
        | Some cn =>
            if n_bp cn <=? pbp then Some (PLeaf c)
            else match n_left cn, n_right cn with
                 | Some l, Some r =>
                     match unfold f' h (n_bp cn) l, unfold f' h (n_bp cn) r with
                     | Some tl, Some tr => Some (PNode c tl tr)
                     | _, _ => None
                     end
                 | _, _ => None
                 end
        end
    end.

  Definition pbit (k : key) (pos : Z) : bool := match kbit k pos with ROk b => b | _ => false end.
  Definition nkey (h : heap) (i : nat) : key := match nth_error h i with Some n => n_key n | None => [] end.
  Definition nbp (h : heap) (i : nat) : Z := match nth_error h i with Some n => n_bp n | None => 0 end.

  (** every key below the left (right) link of a node has bit 0 (1) at the node's bit position *)
  Fixpoint good (h : heap) (T : ptree) : bool :=
    match T with
    | PLeaf _ => true
    | PNode i l r =>
        forallb (fun j => negb (pbit (nkey h j) (nbp h i))) (leaves l)
        && forallb (fun j => pbit (nkey h j) (nbp h i)) (leaves r)
        && good h l && good h r
    end.

  Fixpoint strictly_increasing (ks : list key) : bool :=
    match ks with
    | k1 :: ((k2 :: _) as rest) => kltb k1 k2 && strictly_increasing rest
    | _ => true
    end.

  Definition entries (h : heap) (T : ptree) : list pnode :=
    flat_map (fun j => match nth_error h j with Some n => [n] | None => [] end) (leaves T).

  (** the tree hanging from the root, if the state is well formed so far *)
  Definition p_tree (t : pstate) : option ptree :=
    match proot t with
    | None => None
    | Some r =>
        match nth_error (pheap t) r with
        | Some rn =>
            match n_left rn, n_right rn with
            | Some c, None => if n_bp rn =? 0 then unfold (S (length (pheap t))) (pheap t) 0 c else None
            | _, _ => None
            end
        | None => None
        end
    end.

  Definition p_contents (t : pstate) : smap V :=
    match p_tree t with Some T => map kv_of (entries (pheap t) T) | None => [] end.

  Definition p_inv_check (t : pstate) : bool :=
    match proot t with
    | None => psize t =? 0
    | Some _ =>
        match p_tree t with
        | Some T =>
            good (pheap t) T
            && strictly_increasing (map (nkey (pheap t)) (leaves T))
            && (psize t =? Z.of_nat (length (leaves T)))
            && match T with PLeaf i => oeq (Some i) (proot t) | PNode _ _ _ => true end
        | None => false
        end
    end.

  (** ** unfolding facts *)
  Lemma unfold_leaves_valid : forall f h pbp c T,
    unfold f h pbp c = Some T -> Forall (fun j => exists n, nth_error h j = Some n) (leaves T).
  Proof.
    induction f as [|f IH]; intros h pbp c T H; simpl in H; [discriminate|].
    destruct (nth_error h c) as [cn|] eqn:E; [|discriminate].
    destruct (n_bp cn <=? pbp).
    - injection H as <-. simpl. constructor; eauto.
    - destruct (n_left cn) as [l|]; [|discriminate]. destruct (n_right cn) as [r|]; [|discriminate].
      destruct (unfold f h (n_bp cn) l) as [tl|] eqn:El; [|discriminate].
      destruct (unfold f h (n_bp cn) r) as [tr|] eqn:Er; [|discriminate].
      injection H as <-. simpl. apply Forall_app. split; eauto.
  Qed.

  Lemma entries_keys : forall f h pbp c T,
    unfold f h pbp c = Some T -> map n_key (entries h T) = map (nkey h) (leaves T).
  Proof.
    intros f h pbp c T H. apply unfold_leaves_valid in H. unfold entries.
    induction (leaves T) as [|j js IH]; simpl; auto.
    inversion H as [|? ? [n Hn] H']; subst. unfold nkey at 1. rewrite Hn. simpl. f_equal. auto.
  Qed.

  (** ** search *)
  Fixpoint tsearch (h : heap) (k : key) (T : ptree) : nat :=
    match T with
    | PLeaf i => i
    | PNode i l r => if pbit k (nbp h i) then tsearch h k r else tsearch h k l
    end.

  Lemma kbit_pos : forall k pos, 1 <= pos -> kbit k pos = ROk (pbit k pos).
  Proof.
    intros k pos H. unfold pbit, kbit. destruct (pos >? klen k); auto.
    destruct (Z.leb_spec pos 0); [lia | reflexivity].
  Qed.

  Lemma search_unfold : forall f h k pbp prev pn c T g,
    unfold f h pbp c = Some T -> nth_error h prev = Some pn -> n_bp pn = pbp -> 0 <= pbp ->
    (f <= g)%nat ->
    search_loop g h k prev c = ROk (tsearch h k T).
  Proof.
    induction f as [|f IH]; intros h k pbp prev pn c T g H Hp Hb Hz Hg; simpl in H; [discriminate|].
    destruct g as [|g]; [lia|]. cbn [search_loop]. unfold hget at 1. rewrite Hp. cbn [rbind].
    destruct (nth_error h c) as [cn|] eqn:E; [|discriminate]. unfold hget. rewrite E. cbn [rbind].
    rewrite Hb. rewrite Z.gtb_ltb, Z.ltb_antisym.
    destruct (n_bp cn <=? pbp) eqn:LE.
    - injection H as <-. reflexivity.
    - apply Z.leb_gt in LE.
      destruct (n_left cn) as [l|] eqn:EL; [|discriminate]. destruct (n_right cn) as [r|] eqn:ER; [|discriminate].
      destruct (unfold f h (n_bp cn) l) as [tl|] eqn:El; [|discriminate].
      destruct (unfold f h (n_bp cn) r) as [tr|] eqn:Er; [|discriminate].
      injection H as <-. cbn [negb]. rewrite kbit_pos by lia. cbn [rbind tsearch].
      unfold nbp. rewrite E. unfold child. destruct (pbit k (n_bp cn)).
      + rewrite ER. cbn [link rbind]. apply (IH h k (n_bp cn) c cn r tr g); auto; lia.
      + rewrite EL. cbn [link rbind]. apply (IH h k (n_bp cn) c cn l tl g); auto; lia.
  Qed.

  (** the search for the key of a leaf ends at that leaf *)
  Lemma tsearch_leaf : forall h T j, good h T = true -> In j (leaves T) -> tsearch h (nkey h j) T = j.
  Proof.
    induction T as [i|i l IHl r IHr]; intros j G I; simpl in *.
    - destruct I as [<- | []]. reflexivity.
    - apply andb_true_iff in G as [G Gr]. apply andb_true_iff in G as [G Gl].
      apply andb_true_iff in G as [GL GR]. rewrite forallb_forall in GL, GR.
      apply in_app_or in I as [I | I].
      + specialize (GL j I). apply negb_true_iff in GL. rewrite GL. auto.
      + specialize (GR j I). rewrite GR. auto.
  Qed.

  Lemma tsearch_in : forall h k T, In (tsearch h k T) (leaves T).
  Proof.
    induction T as [i|i l IHl r IHr]; simpl; auto.
    destruct (pbit k (nbp h i)); apply in_or_app; auto.
  Qed.

  (** ** from the executable check to the logical invariant *)
  Lemma si_sorted : forall m : smap V, strictly_increasing (map fst m) = true -> sorted m.
  Proof.
    intros m H. apply Sorted_StronglySorted.
    - intros x y z. unfold elt. apply klt_trans.
    - induction m as [|e1 m IH]; [constructor|]. destruct m as [|e2 m].
      + repeat constructor.
      + cbn [map strictly_increasing] in H. apply andb_true_iff in H as [H1 H2].
        constructor; [apply IH; exact H2|]. constructor. unfold elt. now apply kltb_lt.
  Qed.

  Record pinv (t : pstate) (r : nat) (rn : pnode) (c : nat) (T : ptree) : Prop := {
    pi_root : proot t = Some r;
    pi_rn : nth_error (pheap t) r = Some rn;
    pi_left : n_left rn = Some c;
    pi_right : n_right rn = None;
    pi_bp : n_bp rn = 0;
    pi_unfold : unfold (S (length (pheap t))) (pheap t) 0 c = Some T;
    pi_good : good (pheap t) T = true;
    pi_sorted : sorted (p_contents t);
    pi_size : psize t = Z.of_nat (length (leaves T));
    pi_contents : p_contents t = map kv_of (entries (pheap t) T);
    pi_single : match T with PLeaf i => i = r | PNode _ _ _ => True end
  }.

  Lemma inv_check_nonempty : forall t r, p_inv_check t = true -> proot t = Some r ->
    exists rn c T, pinv t r rn c T.
  Proof.
    intros t r H R. unfold p_inv_check in H. rewrite R in H.
    destruct (p_tree t) as [T|] eqn:PT; [|discriminate].
    assert (PC : p_contents t = map kv_of (entries (pheap t) T)) by (unfold p_contents; now rewrite PT).
    unfold p_tree in PT. rewrite R in PT.
    destruct (nth_error (pheap t) r) as [rn|] eqn:E; [|discriminate].
    destruct (n_left rn) as [c|] eqn:EL; [|discriminate].
    destruct (n_right rn) eqn:ER; [discriminate|].
    destruct (Z.eqb_spec (n_bp rn) 0) as [BP|]; [|discriminate].
    apply andb_true_iff in H as [H SG]. apply andb_true_iff in H as [H SZ]. apply andb_true_iff in H as [G SI].
    exists rn, c, T. constructor; auto; [| |destruct T; auto; simpl in SG; now apply Nat.eqb_eq in SG].
    - rewrite PC. apply si_sorted. rewrite map_map.
      rewrite <- (entries_keys _ _ _ _ _ PT) in SI.
      erewrite map_ext; [exact SI|]. reflexivity.
    - now apply Z.eqb_eq in SZ.
  Qed.

  Lemma inv_check_empty : forall t, p_inv_check t = true -> proot t = None ->
    psize t = 0 /\ p_contents t = [].
  Proof.
    intros t H R. unfold p_inv_check in H. rewrite R in H. apply Z.eqb_eq in H. split; auto.
    unfold p_contents, p_tree. now rewrite R.
  Qed.

  Lemma entries_In : forall h T n, In n (entries h T) <-> exists j, In j (leaves T) /\ nth_error h j = Some n.
  Proof.
    intros h T n. unfold entries. rewrite in_flat_map. split.
    - intros [j [Hj Hn]]. exists j. split; auto. destruct (nth_error h j); simpl in Hn; [|contradiction].
      destruct Hn as [<- | []]. reflexivity.
    - intros [j [Hj Hn]]. exists j. split; auto. rewrite Hn. simpl. auto.
  Qed.

  (** ** Get *)
  Theorem p_get_correct : forall t k, p_inv_check t = true -> p_get t k = ROk (sget k (p_contents t)).
  Proof.
    intros t k H. destruct (proot t) as [r|] eqn:R.
    - destruct (inv_check_nonempty t r H R) as [rn [c [T I]]]. destruct I.
      unfold p_get, p_search. rewrite pi_root0. unfold hget at 1. rewrite pi_rn0. cbn [rbind].
      rewrite pi_left0. cbn [link rbind].
      rewrite (search_unfold _ _ k 0 r rn c T _ pi_unfold0 pi_rn0 pi_bp0) by (unfold fuel_of; lia).
      cbn [rbind]. set (j := tsearch (pheap t) k T).
      assert (Ij : In j (leaves T)) by apply tsearch_in.
      pose proof (unfold_leaves_valid _ _ _ _ _ pi_unfold0) as VL. rewrite Forall_forall in VL.
      destruct (VL j Ij) as [nn Hn]. unfold hget. rewrite Hn. cbn [rbind]. f_equal.
      rewrite pi_contents0 in *.
      destruct (keqb (n_key nn) k) eqn:EK.
      + apply keqb_eq in EK. symmetry. apply In_sget; [exact pi_sorted0|].
        apply in_map_iff. exists nn. split; [unfold kv_of; now rewrite EK|]. apply entries_In. eauto.
      + symmetry. apply sget_none. intros e He EQ. apply in_map_iff in He as [n' [<- He]].
        apply entries_In in He as [j' [Ij' Hn']]. simpl in EQ.
        assert (K' : nkey (pheap t) j' = k) by (unfold nkey; now rewrite Hn').
        assert (J : j = j'). { unfold j. rewrite <- K'. now apply tsearch_leaf. }
        subst j'. rewrite Hn in Hn'. injection Hn' as <-. apply keqb_neq in EK. contradiction.
    - destruct (inv_check_empty t H R) as [_ C]. rewrite C. unfold p_get, p_search. now rewrite R.
  Qed.

  (** ** traversals *)
  Fixpoint fold_pn {S : Type} (visit : S -> pnode -> S * bool) (l : list pnode) (s : S) : S * bool :=
    match l with
    | [] => (s, true)
    | n :: l' => let (s1, go) := visit s n in if go then fold_pn visit l' s1 else (s1, false)
    end.

  Lemma fold_pn_app : forall S (visit : S -> pnode -> S * bool) l1 l2 s,
    fold_pn visit (l1 ++ l2) s =
      let (s1, go) := fold_pn visit l1 s in if go then fold_pn visit l2 s1 else (s1, false).
  Proof.
    induction l1 as [|n l1 IH]; intros l2 s; simpl; [reflexivity|].
    destruct (visit s n) as [s1 [|]]; auto.
  Qed.

  Lemma fold_pn_kv : forall S (f : S -> key * V -> S * bool) l s,
    fold_pn (fun s n => f s (kv_of n)) l s = fold_kv f (map kv_of l) s.
  Proof.
    induction l as [|n l IH]; intros s; simpl; auto. destruct (f s (kv_of n)) as [s1 [|]]; auto.
  Qed.

  Definition ordered (o : porder) (l : list pnode) : list pnode :=
    match o with PAsc => l | PDesc => rev l end.

  Lemma unfold_node : forall f h pbp c T, unfold f h pbp c = Some T ->
    exists cn, nth_error h c = Some cn /\ (f <> 0)%nat.
  Proof.
    intros [|f] h pbp c T H; simpl in H; [discriminate|].
    destruct (nth_error h c) as [cn|]; [|discriminate]. exists cn. split; auto.
  Qed.

  (** traversing a link: visit the target when the link is a thread, traverse it otherwise *)
  Lemma traverse_unfold : forall S (visit : S -> pnode -> S * bool) h r rn o f pbp c cn T g s,
    nth_error h r = Some rn -> n_bp rn = 0 -> 0 <= pbp ->
    unfold f h pbp c = Some T -> nth_error h c = Some cn -> (f <= g + 1)%nat ->
    (if n_bp cn <=? pbp then ROk (visit s cn) else p_traverse visit h (Some r) g o (Some c) s) =
      ROk (fold_pn visit (ordered o (entries h T)) s).
  Proof.
    intros S visit h r rn o. induction f as [|f IH]; intros pbp c cn T g s Hr Hrb Hz H Hc Hg; simpl in H; [discriminate|].
    rewrite Hc in H. destruct (n_bp cn <=? pbp) eqn:LE.
    - injection H as <-. unfold entries. simpl. rewrite Hc. simpl.
      destruct o; simpl; destruct (visit s cn) as [s1 [|]]; reflexivity.
    - apply Z.leb_gt in LE.
      destruct (n_left cn) as [l|] eqn:EL; [|discriminate]. destruct (n_right cn) as [r'|] eqn:ER; [|discriminate].
      destruct (unfold f h (n_bp cn) l) as [tl|] eqn:El; [|discriminate].
      destruct (unfold f h (n_bp cn) r') as [tr|] eqn:Er; [|discriminate].
      injection H as <-.
      destruct (unfold_node _ _ _ _ _ El) as [ln [Hl F0]].
      destruct (unfold_node _ _ _ _ _ Er) as [rn' [Hr' _]].
      destruct g as [|g]; [lia|]. cbn [p_traverse].
      unfold hget at 1. rewrite Hc. cbn [rbind]. rewrite EL. cbn [link rbind].
      unfold hget at 1. rewrite Hl. cbn [rbind].
      assert (NR : oeq (Some c) (Some r) = false).
      { simpl. apply Nat.eqb_neq. intros ->. rewrite Hr in Hc. injection Hc as <-. lia. }
      rewrite NR. rewrite ER. cbn [link rbind]. unfold hget at 1. rewrite Hr'. cbn [rbind].
      assert (EE : entries h (PNode c tl tr) = entries h tl ++ entries h tr).
      { unfold entries. simpl. now rewrite flat_map_app. }
      rewrite EE.
      pose proof (IH (n_bp cn) l ln tl g) as IL. pose proof (IH (n_bp cn) r' rn' tr g) as IR.
      destruct o; cbn [ordered].
      + rewrite fold_pn_app.
        replace (if n_bp ln <=? n_bp cn then ROk (visit s ln) else p_traverse visit h (Some r) g PAsc (Some l) s)
          with (ROk (fold_pn visit (ordered PAsc (entries h tl)) s)) by (symmetry; apply IL; auto; lia).
        cbn [rbind ordered]. destruct (fold_pn visit (entries h tl) s) as [s1 [|]]; cbn [fst snd]; [|reflexivity].
        replace (if n_bp rn' <=? n_bp cn then ROk (visit s1 rn') else p_traverse visit h (Some r) g PAsc (Some r') s1)
          with (ROk (fold_pn visit (ordered PAsc (entries h tr)) s1)) by (symmetry; apply IR; auto; lia).
        reflexivity.
      + rewrite rev_app_distr, fold_pn_app.
        replace (if n_bp rn' <=? n_bp cn then ROk (visit s rn') else p_traverse visit h (Some r) g PDesc (Some r') s)
          with (ROk (fold_pn visit (ordered PDesc (entries h tr)) s)) by (symmetry; apply IR; auto; lia).
        cbn [rbind ordered]. destruct (fold_pn visit (rev (entries h tr)) s) as [s1 [|]]; cbn [fst snd]; [|reflexivity].
        replace (if n_bp ln <=? n_bp cn then ROk (visit s1 ln) else p_traverse visit h (Some r) g PDesc (Some l) s1)
          with (ROk (fold_pn visit (ordered PDesc (entries h tl)) s1)) by (symmetry; apply IL; auto; lia).
        reflexivity.
  Qed.

  Lemma unfold_shape : forall f h pbp c cn T, unfold f h pbp c = Some T -> nth_error h c = Some cn ->
    match T with
    | PLeaf i => i = c /\ (n_bp cn <=? pbp) = true
    | PNode _ _ _ => (n_bp cn <=? pbp) = false
    end.
  Proof.
    intros [|f] h pbp c cn T H Hc; simpl in H; [discriminate|]. rewrite Hc in H.
    destruct (n_bp cn <=? pbp); [injection H as <-; auto|].
    destruct (n_left cn); [|discriminate]. destruct (n_right cn); [|discriminate].
    destruct (unfold f h (n_bp cn) n); [|discriminate]. destruct (unfold f h (n_bp cn) n0); [|discriminate].
    injection H as <-. reflexivity.
  Qed.

  Lemma trav_root : forall S (visit : S -> pnode -> S * bool) t r rn c T o s, pinv t r rn c T ->
    trav t visit o (proot t) s = ROk (fst (fold_pn visit (ordered o (entries (pheap t) T)) s)).
  Proof.
    intros S visit t r rn c T o s I. destruct I.
    destruct (unfold_node _ _ _ _ _ pi_unfold0) as [cn [Hc _]].
    unfold trav, fuel_of. rewrite pi_root0.
    remember (Datatypes.S (length (pheap t))) as g eqn:EG.
    assert (PN : forall s', p_traverse visit (pheap t) (Some r) g o None s' = ROk (s', true))
      by (intros; subst g; reflexivity).
    cbn [p_traverse].
    unfold hget at 1. rewrite pi_rn0. cbn [rbind]. rewrite pi_left0. cbn [link rbind].
    unfold hget at 1. rewrite Hc. cbn [rbind]. cbn [oeq]. rewrite Nat.eqb_refl. cbn [rbind].
    rewrite pi_right0, pi_bp0.
    pose proof (traverse_unfold S visit (pheap t) r rn o _ 0 c cn T g s
                  pi_rn0 pi_bp0 (Z.le_refl 0) pi_unfold0 Hc) as TU.
    destruct o.
    - rewrite TU by lia. cbn [rbind ordered].
      destruct (fold_pn visit (entries (pheap t) T) s) as [s1 [|]]; cbn [fst snd]; [rewrite PN|]; reflexivity.
    - rewrite PN. cbn [rbind fst snd]. rewrite TU by lia. reflexivity.
  Qed.

  Lemma trav_root_left : forall S (visit : S -> pnode -> S * bool) t r rn c T o s, pinv t r rn c T ->
    trav t visit o (Some c) s = ROk (fst (fold_pn visit (ordered o (entries (pheap t) T)) s)).
  Proof.
    intros S visit t r rn c T o s I. pose proof I as I'. destruct I.
    destruct (unfold_node _ _ _ _ _ pi_unfold0) as [cn [Hc _]].
    pose proof (unfold_shape _ _ _ _ _ _ pi_unfold0 Hc) as SH.
    destruct T as [i|i tl tr].
    - destruct SH as [-> _]. subst c. rewrite <- pi_root0. now apply (trav_root S visit t r rn r (PLeaf r)).
    - unfold trav. rewrite pi_root0.
      pose proof (traverse_unfold S visit (pheap t) r rn o _ 0 c cn (PNode i tl tr) (fuel_of (pheap t)) s
                    pi_rn0 pi_bp0 (Z.le_refl 0) pi_unfold0 Hc) as TU.
      rewrite SH in TU. rewrite TU by (unfold fuel_of; lia). reflexivity.
  Qed.

  Lemma root_left_inv : forall t r rn c T, pinv t r rn c T -> root_left t = ROk (Some c).
  Proof.
    intros t r rn c T I. destruct I. unfold root_left. rewrite pi_root0. unfold hget. rewrite pi_rn0.
    cbn [rbind]. now rewrite pi_left0.
  Qed.

  (** ** list-level facts about the query callbacks (on a sorted list) *)
  Lemma L_floor : forall k (m : smap V), sorted m ->
    fst (fold_kv (fun s e => if kltb k (fst e) then (s, false) else (Some e, true)) m None) = s_floor k m.
  Proof.
    intros k m S. unfold s_floor. rewrite fold_last_before_stop.
    - rewrite (filter_ext _ (fun e => kleb (fst e) k)) by (intros; now rewrite kleb_nlt).
      now destruct (last_error (filter (fun e => kleb (fst e) k) m)).
    - apply sorted_mono_asc; auto. intros e1 e2 L. rewrite !kltb_lt. intros. eapply klt_trans; eauto.
  Qed.

  Lemma L_ceiling : forall k (m : smap V), sorted m ->
    fst (fold_kv (fun s e => if kltb (fst e) k then (s, false) else (Some e, true)) (rev m) None) = s_ceiling k m.
  Proof.
    intros k m S. unfold s_ceiling. rewrite fold_last_before_stop.
    - rewrite (filter_ext _ (fun e => kleb k (fst e))) by (intros; now rewrite kleb_nlt).
      rewrite <- filter_rev_comm, last_error_rev.
      now destruct (hd_error (filter (fun e => kleb k (fst e)) m)).
    - apply sorted_mono_desc; auto. intros e1 e2 L. rewrite !kltb_lt. intros. eapply klt_trans; eauto.
  Qed.

  Lemma L_rank : forall k (m : smap V), sorted m ->
    fst (fold_kv (fun (i : Z) e => if kleb k (fst e) then (i, false) else (i + 1, true)) m 0) = s_rank k m.
  Proof.
    intros k m S. unfold s_rank. rewrite (fold_count_before_stop (fun e => kleb k (fst e))).
    - rewrite (filter_ext _ (fun e => kltb (fst e) k)); [lia|].
      intros e. rewrite kleb_nlt. now rewrite negb_involutive.
    - apply sorted_mono_asc; auto. intros e1 e2 L. rewrite !kleb_le. intros [H | ->].
      + left. eapply klt_trans; eauto.
      + now left.
  Qed.

  Lemma L_hi_mono : forall hi (m : smap V), sorted m -> mono (fun e : key * V => kltb hi (fst e)) m.
  Proof.
    intros hi m S. apply sorted_mono_asc; auto. intros e1 e2 L. rewrite !kltb_lt. intros. eapply klt_trans; eauto.
  Qed.

  Lemma L_range_stop : forall lo hi (e : key * V),
    kltb hi (fst e) = true -> kleb lo (fst e) && kleb (fst e) hi = false.
  Proof. intros lo hi e H. rewrite (kleb_nlt (fst e) hi), H. simpl. apply andb_false_r. Qed.

  Lemma L_range : forall lo hi (m : smap V), sorted m ->
    fst (fold_kv (fun (kvs : smap V) e => if kleb lo (fst e) && kleb (fst e) hi then (kvs ++ [e], true)
                                          else if kltb hi (fst e) then (kvs, false) else (kvs, true)) m []) =
      s_range lo hi m.
  Proof.
    intros lo hi m S.
    rewrite (fold_collect_until_stop (fun e => kleb lo (fst e) && kleb (fst e) hi) (fun e => kltb hi (fst e)));
      auto using L_hi_mono, L_range_stop.
  Qed.

  Lemma L_rangesize : forall lo hi (m : smap V), sorted m ->
    fst (fold_kv (fun (i : Z) e => if kleb lo (fst e) && kleb (fst e) hi then (i + 1, true)
                                   else if kltb hi (fst e) then (i, false) else (i, true)) m 0) =
      s_rangesize lo hi m.
  Proof.
    intros lo hi m S. unfold s_rangesize, s_range.
    rewrite (fold_count_until_stop (fun e => kleb lo (fst e) && kleb (fst e) hi) (fun e => kltb hi (fst e)));
      auto using L_hi_mono, L_range_stop.
  Qed.

  Lemma entries_length : forall (h : heap) T,
    Forall (fun j => exists n, nth_error h j = Some n) (leaves T) -> length (entries h T) = length (leaves T).
  Proof.
    intros h T VL. unfold entries. induction (leaves T) as [|j js IH]; simpl; auto.
    inversion VL as [|? ? [n Hn] VL']; subst. rewrite Hn. simpl. f_equal. auto.
  Qed.

  (** ** the queries in a checked state *)
  Section Checked.
    Variable t : pstate.
    Hypothesis CHK : p_inv_check t = true.

    Lemma checked_sorted : sorted (p_contents t).
    Proof.
      destruct (proot t) as [r|] eqn:R.
      - destruct (inv_check_nonempty t r CHK R) as [rn [c [T I]]]. now destruct I.
      - destruct (inv_check_empty t CHK R) as [_ ->]. constructor.
    Qed.

    Theorem p_size_correct : psize t = s_size (p_contents t).
    Proof.
      unfold s_size. destruct (proot t) as [r|] eqn:R.
      - destruct (inv_check_nonempty t r CHK R) as [rn [c [T I]]]. destruct I.
        rewrite pi_contents0, map_length, pi_size0. f_equal. symmetry.
        apply entries_length. exact (unfold_leaves_valid _ _ _ _ _ pi_unfold0).
      - destruct (inv_check_empty t CHK R) as [-> ->]. reflexivity.
    Qed.

    (** a query that traverses from t.root *)
    Lemma from_root : forall S (f : S -> key * V -> S * bool) o s,
      trav t (fun s n => f s (kv_of n)) o (proot t) s =
        ROk (fst (fold_kv f (match o with PAsc => p_contents t | PDesc => rev (p_contents t) end) s)).
    Proof.
      intros S f o s. destruct (proot t) as [r|] eqn:R.
      - destruct (inv_check_nonempty t r CHK R) as [rn [c [T I]]]. rewrite <- R.
        rewrite (trav_root _ _ t r rn c T o s I), fold_pn_kv. destruct I. rewrite pi_contents0.
        destruct o; cbn [ordered]; [reflexivity | now rewrite map_rev].
      - destruct (inv_check_empty t CHK R) as [_ ->]. unfold trav, fuel_of. cbn [p_traverse rbind fst].
        destruct o; reflexivity.
    Qed.

    Theorem p_all_correct : p_all t = ROk (p_contents t).
    Proof.
      unfold p_all. etransitivity; [exact (from_root _ (fun (kvs : smap V) e => (kvs ++ [e], true)) PAsc [])|].
      now rewrite fold_collect_all.
    Qed.

    Theorem p_floor_correct : forall k, p_floor t k = ROk (s_floor k (p_contents t)).
    Proof.
      intros k. unfold p_floor.
      etransitivity; [exact (from_root _ (fun s e => if kltb k (fst e) then (s, false) else (Some e, true)) PAsc None)|].
      now rewrite L_floor by apply checked_sorted.
    Qed.

    Theorem p_ceiling_correct : forall k, p_ceiling t k = ROk (s_ceiling k (p_contents t)).
    Proof.
      intros k. unfold p_ceiling.
      etransitivity; [exact (from_root _ (fun s e => if kltb (fst e) k then (s, false) else (Some e, true)) PDesc None)|].
      cbv iota. now rewrite L_ceiling by apply checked_sorted.
    Qed.

    (** a query that traverses from t.root.left *)
    Lemma from_root_left : forall S (f : S -> key * V -> S * bool) s r, proot t = Some r ->
      (start <- root_left t ;; trav t (fun s n => f s (kv_of n)) PAsc start s) =
        ROk (fst (fold_kv f (p_contents t) s)).
    Proof.
      intros S f s r R. destruct (inv_check_nonempty t r CHK R) as [rn [c [T I]]].
      rewrite (root_left_inv t r rn c T I). cbn [rbind].
      rewrite (trav_root_left _ _ t r rn c T PAsc s I), fold_pn_kv. destruct I. now rewrite pi_contents0.
    Qed.

    Theorem p_rank_correct : forall k, p_rank t k = ROk (s_rank k (p_contents t)).
    Proof.
      intros k. unfold p_rank. destruct (proot t) as [r|] eqn:R.
      - etransitivity; [exact (from_root_left _ (fun (i : Z) e => if kleb k (fst e) then (i, false) else (i + 1, true)) 0 r R)|].
        now rewrite L_rank by apply checked_sorted.
      - destruct (inv_check_empty t CHK R) as [_ ->]. reflexivity.
    Qed.

    Theorem p_range_correct : forall lo hi, p_range t lo hi = ROk (s_range lo hi (p_contents t)).
    Proof.
      intros lo hi. unfold p_range. destruct (proot t) as [r|] eqn:R.
      - etransitivity; [exact (from_root_left _ (fun (kvs : smap V) e =>
                                  if kleb lo (fst e) && kleb (fst e) hi then (kvs ++ [e], true)
                                  else if kltb hi (fst e) then (kvs, false) else (kvs, true)) [] r R)|].
        now rewrite L_range by apply checked_sorted.
      - destruct (inv_check_empty t CHK R) as [_ ->]. reflexivity.
    Qed.

    Theorem p_rangesize_correct : forall lo hi, p_rangesize t lo hi = ROk (s_rangesize lo hi (p_contents t)).
    Proof.
      intros lo hi. unfold p_rangesize. destruct (proot t) as [r|] eqn:R.
      - etransitivity; [exact (from_root_left _ (fun (i : Z) e =>
                                  if kleb lo (fst e) && kleb (fst e) hi then (i + 1, true)
                                  else if kltb hi (fst e) then (i, false) else (i, true)) 0 r R)|].
        now rewrite L_rangesize by apply checked_sorted.
      - destruct (inv_check_empty t CHK R) as [_ ->]. reflexivity.
    Qed.

    Theorem p_select_correct : forall i, p_select t i = ROk (s_select i (p_contents t)).
    Proof.
      intros i. unfold p_select, s_select. destruct (proot t) as [r|] eqn:R.
      - rewrite p_size_correct. unfold s_size.
        destruct (Z.ltb_spec i 0) as [NEG|POS]; cbn [orb]; auto.
        destruct (Z.leb_spec (Z.of_nat (length (p_contents t))) i) as [BIG|SMALL].
        + f_equal. symmetry. apply (proj2 (nth_error_None _ _)). apply Nat2Z.inj_le.
          rewrite Z2Nat.id by exact POS. exact BIG.
        + destruct (inv_check_nonempty t r CHK R) as [rn [c [T I]]].
          rewrite (root_left_inv t r rn c T I). cbn [rbind].
          set (f := fun (s : Z * option (key * V)) (e : key * V) =>
                      if fst s =? i then ((fst s, Some e), false) else ((fst s + 1, snd s), true)).
          assert (TR : trav t (fun s n => f s (kv_of n)) PAsc (Some c) (0, None) =
                       ROk (fst (fold_kv f (p_contents t) (0, None)))).
          { rewrite (trav_root_left _ _ t r rn c T PAsc (0, None) I), fold_pn_kv. destruct I. now rewrite pi_contents0. }
          etransitivity; [apply (f_equal (fun x => rbind x (fun x => ROk (snd x)))); exact TR|].
          cbn [rbind]. f_equal. unfold f.
          etransitivity; [apply (fold_select i (p_contents t) 0); lia|]. now rewrite Z.sub_0_r.
      - destruct (inv_check_empty t CHK R) as [_ ->]. destruct (i <? 0); [reflexivity|].
        now destruct (Z.to_nat i).
    Qed.
  End Checked.

  (** ** Min and Max *)
  Lemma min_unfold : forall h f pbp c cn T g,
    unfold f h pbp c = Some T -> nth_error h c = Some cn -> (f <= g + 1)%nat ->
    exists n0, hd_error (entries h T) = Some n0 /\
      (if n_bp cn <=? pbp then ROk (kv_of cn) else min_loop g h c) = ROk (kv_of n0).
  Proof.
    intros h. induction f as [|f IH]; intros pbp c cn T g H Hc Hg; simpl in H; [discriminate|].
    rewrite Hc in H. destruct (n_bp cn <=? pbp) eqn:LE.
    - injection H as <-. exists cn. unfold entries. simpl. rewrite Hc. auto.
    - destruct (n_left cn) as [l|] eqn:EL; [|discriminate]. destruct (n_right cn) as [r'|] eqn:ER; [|discriminate].
      destruct (unfold f h (n_bp cn) l) as [tl|] eqn:El; [|discriminate].
      destruct (unfold f h (n_bp cn) r') as [tr|] eqn:Er; [|discriminate].
      injection H as <-. destruct (unfold_node _ _ _ _ _ El) as [ln [Hl F0]].
      destruct g as [|g]; [lia|].
      destruct (IH (n_bp cn) l ln tl g El Hl) as [n0 [H0 E0]]; [lia|].
      exists n0. split.
      + unfold entries in *. simpl. rewrite flat_map_app.
        destruct (flat_map _ (leaves tl)); [discriminate | exact H0].
      + cbn [min_loop]. unfold hget at 1. rewrite Hc. cbn [rbind]. rewrite EL. cbn [link rbind].
        unfold hget at 1. rewrite Hl. cbn [rbind]. exact E0.
  Qed.

  Lemma max_unfold : forall h r rn f pbp c cn T g,
    nth_error h r = Some rn -> n_bp rn = 0 -> 0 <= pbp ->
    unfold f h pbp c = Some T -> nth_error h c = Some cn -> (f <= g + 1)%nat ->
    exists n0, last_error (entries h T) = Some n0 /\
      (if n_bp cn <=? pbp then ROk (kv_of cn) else max_loop g h r c) = ROk (kv_of n0).
  Proof.
    intros h r rn. induction f as [|f IH]; intros pbp c cn T g Hr Hb Hz H Hc Hg; simpl in H; [discriminate|].
    rewrite Hc in H. destruct (n_bp cn <=? pbp) eqn:LE.
    - injection H as <-. exists cn. unfold entries. simpl. rewrite Hc. auto.
    - apply Z.leb_gt in LE.
      destruct (n_left cn) as [l|] eqn:EL; [|discriminate]. destruct (n_right cn) as [r'|] eqn:ER; [|discriminate].
      destruct (unfold f h (n_bp cn) l) as [tl|] eqn:El; [|discriminate].
      destruct (unfold f h (n_bp cn) r') as [tr|] eqn:Er; [|discriminate].
      injection H as <-. destruct (unfold_node _ _ _ _ _ Er) as [xn [Hx F0]].
      destruct g as [|g]; [lia|].
      destruct (IH (n_bp cn) r' xn tr g Hr Hb) as [n0 [H0 E0]]; auto; try lia.
      exists n0. split.
      + unfold entries in *. simpl. rewrite flat_map_app, last_error_app. now rewrite H0.
      + cbn [max_loop]. unfold hget at 1. rewrite Hc. cbn [rbind].
        assert (NR : Nat.eqb c r = false).
        { apply Nat.eqb_neq. intros ->. rewrite Hr in Hc. injection Hc as <-. lia. }
        rewrite NR, ER. cbn [link rbind]. unfold hget at 1. rewrite Hx. cbn [rbind]. exact E0.
  Qed.

  Theorem p_min_correct : forall t, p_inv_check t = true -> p_min t = ROk (s_min (p_contents t)).
  Proof.
    intros t CHK. unfold p_min, s_min. destruct (proot t) as [r|] eqn:R.
    - destruct (inv_check_nonempty t r CHK R) as [rn [c [T I]]]. destruct I.
      destruct (unfold_node _ _ _ _ _ pi_unfold0) as [cn [Hc _]].
      destruct (min_unfold (pheap t) _ 0 c cn T (S (length (pheap t))) pi_unfold0 Hc) as [n0 [H0 E0]]; [lia|].
      unfold fuel_of. remember (S (length (pheap t))) as g eqn:EG. cbn [min_loop]. unfold hget at 1. rewrite pi_rn0. cbn [rbind]. rewrite pi_left0.
      cbn [link rbind]. unfold hget at 1. rewrite Hc. cbn [rbind]. rewrite pi_bp0.
      assert (E1 : (x <- (if n_bp cn <=? 0 then ROk (n_key cn, n_val cn) else min_loop g (pheap t) c) ;; ROk (Some x)) = ROk (Some (kv_of n0))).
      { destruct (n_bp cn <=? 0); [|now rewrite E0]. cbn [rbind]. injection E0 as Ea Eb. unfold kv_of. now rewrite Ea, Eb. }
      rewrite E1.
      rewrite pi_contents0. destruct (entries (pheap t) T); [discriminate|]. simpl in *. now injection H0 as ->.
    - destruct (inv_check_empty t CHK R) as [_ ->]. reflexivity.
  Qed.

  Theorem p_max_correct : forall t, p_inv_check t = true -> p_max t = ROk (s_max (p_contents t)).
  Proof.
    intros t CHK. unfold p_max, s_max. destruct (proot t) as [r|] eqn:R.
    - destruct (inv_check_nonempty t r CHK R) as [rn [c [T I]]]. destruct I.
      destruct (unfold_node _ _ _ _ _ pi_unfold0) as [cn [Hc _]].
      destruct (max_unfold (pheap t) r rn _ 0 c cn T (S (length (pheap t))) pi_rn0 pi_bp0 (Z.le_refl 0) pi_unfold0 Hc)
        as [n0 [H0 E0]]; [lia|].
      unfold fuel_of. remember (S (length (pheap t))) as g eqn:EG. cbn [max_loop]. unfold hget at 1. rewrite pi_rn0. cbn [rbind]. rewrite Nat.eqb_refl, pi_left0.
      cbn [link rbind]. unfold hget at 1. rewrite Hc. cbn [rbind]. rewrite pi_bp0.
      assert (E1 : (x <- (if n_bp cn <=? 0 then ROk (n_key cn, n_val cn) else max_loop g (pheap t) r c) ;; ROk (Some x)) = ROk (Some (kv_of n0))).
      { destruct (n_bp cn <=? 0); [|now rewrite E0]. cbn [rbind]. injection E0 as Ea Eb. unfold kv_of. now rewrite Ea, Eb. }
      rewrite E1.
      rewrite pi_contents0, last_error_map, H0. reflexivity.
    - destruct (inv_check_empty t CHK R) as [_ ->]. reflexivity.
  Qed.

  (** the queries covered by the theorems above *)
  Definition checked_query (e : ev V) : Prop :=
    match e with
    | EGet _ | ESize | EMin | EMax | EFloor _ | ECeiling _ | ESelect _ | ERank _ | ERange _ _ | ERangeSize _ _ | EAll => True
    | _ => False
    end.

  Theorem p_step_checked : forall t e, p_inv_check t = true -> checked_query e ->
    p_step t e = (t, snd (s_step (p_contents t) e)).
  Proof.
    intros t e CHK Q. destruct e; cbn [checked_query] in Q; try contradiction; cbn [p_step s_step snd].
    - now rewrite (p_get_correct t k CHK).
    - now rewrite (p_size_correct t CHK).
    - now rewrite (p_min_correct t CHK).
    - now rewrite (p_max_correct t CHK).
    - now rewrite (p_floor_correct t CHK).
    - now rewrite (p_ceiling_correct t CHK).
    - now rewrite (p_select_correct t CHK).
    - now rewrite (p_rank_correct t CHK).
    - now rewrite (p_range_correct t CHK).
    - now rewrite (p_rangesize_correct t CHK).
    - now rewrite (p_all_correct t CHK).
  Qed.
End PatInv.
