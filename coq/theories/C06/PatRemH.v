(** C06 — Patricia remove, heap level.  [del_core]: any heap [H'] that implements the re-linking
    (hypothesis [G]: every surviving node keeps its bit position and its links except that the link
    of [rp] to the referrer [r] now leads to [r]'s other child, the link of [np] to the target [n]
    now leads to [r], and [r] carries [n]'s position) represents the tree [tdel T]. *)
From Coq Require Import List NArith ZArith Bool Lia Sorted.
From Algo.C06 Require Import Spec SpecFacts Model ModelPat ProofsBinQ PatInv PatBits PatTree PatMatch PatDel PatPut PatRem.
Import ListNotations.
Open Scope Z_scope.

Section RemH.
  Context {V : Type}.
  Notation pnode := (pnode V).
  Notation pstate := (pstate V).
  Notation heap := (list pnode).

  (** distinct inner nodes follow from the representation, ownership and distinct threads *)
  Lemma nodup_inners_derived : forall (h : heap) pbp c T,
    Rep h pbp c T -> owns T -> NoDup (leaves T) -> NoDup (inners T).
  Proof.
    induction 1 as [|pbp c cn l r tl tr Hc LT HL HR Rl IHl Rr IHr]; intros O ND; simpl; [constructor|].
    destruct O as [_ [Ol Or]]. simpl in ND. apply nodup_app_iff in ND as [Nl [Nr D]].
    apply NoDup_cons_iff. split.
    - intros I. apply in_app_or in I as [I | I];
        [pose proof (rep_inner_bp _ _ _ _ Rl c I) as Q | pose proof (rep_inner_bp _ _ _ _ Rr c I) as Q];
        unfold nbp in Q; rewrite Hc in Q; lia.
    - apply nodup_app_iff. split; auto. split; auto. intros x Il Ir.
      apply (D x); now apply owns_inner_leaf.
  Qed.

  Lemma rep_frame_le : forall (h h' : heap) pbp c T, Rep h pbp c T ->
    (forall i, In i (inners T) -> exists n n', nth_error h i = Some n /\ nth_error h' i = Some n' /\ same_shape n n') ->
    (forall j, In j (leaves T) -> exists n n', nth_error h j = Some n /\ nth_error h' j = Some n' /\ n_bp n' <= n_bp n) ->
    Rep h' pbp c T.
  Proof.
    induction 1 as [pbp c cn Hc LE|pbp c cn l r tl tr Hc LT HL HR _ IHl _ IHr]; intros HI HLf.
    - destruct (HLf c) as [n [n' [E1 [E2 E3]]]]; [simpl; auto|]. rewrite Hc in E1. injection E1 as <-.
      apply (RepLeaf h' pbp c n'); auto. lia.
    - destruct (HI c) as [n [n' [E1 [E2 [S1 [S2 S3]]]]]]; [simpl; auto|]. rewrite Hc in E1. injection E1 as <-.
      apply (RepNode h' pbp c n' l r); try congruence; try lia.
      + rewrite S1. apply IHl.
        * intros i Hi. apply HI. simpl. right. apply in_or_app. auto.
        * intros j Hj. apply HLf. simpl. apply in_or_app. auto.
      + rewrite S1. apply IHr.
        * intros i Hi. apply HI. simpl. right. apply in_or_app. auto.
        * intros j Hj. apply HLf. simpl. apply in_or_app. auto.
  Qed.

  (** a subtree can be hung under a parent with a smaller bit position if it stays a thread *)
  Lemma rep_reparent : forall (h : heap) q q' x T, Rep h q x T -> q' <= q ->
    (forall cn, T = PLeaf x -> nth_error h x = Some cn -> n_bp cn <= q') -> Rep h q' x T.
  Proof.
    intros h q q' x T R LE HL. inversion R; subst.
    - eapply RepLeaf; eauto.
    - eapply RepNode; eauto. lia.
  Qed.

  Section Core.
    Variable h H' : heap.
    Variable kk : key.
    Variables n r rp np co r0 : nat.
    Notation B := (nbp h).
    Notation K := (nkey h).

    Definition phi (x : nat) (lk : option nat) : option nat :=
      if Nat.eqb x rp && oeq lk (Some r) then Some co
      else if Nat.eqb x np && oeq lk (Some n) then Some r
      else lk.

    Hypothesis G : forall x xn, nth_error h x = Some xn -> x <> r ->
      exists xn', nth_error H' (rho n r x) = Some xn' /\ n_bp xn' = n_bp xn /\
                  n_left xn' = phi x (n_left xn) /\ n_right xn' = phi x (n_right xn).
    Variable rnode : pnode.
    Hypothesis Hrn : nth_error h r = Some rnode.
    Hypothesis Hco : (if PatInv.pbit kk (n_bp rnode) then n_left rnode else n_right rnode) = Some co.
    Hypothesis Hnb : n = r \/ exists nn, nth_error h n = Some nn /\ n_bp nn <= n_bp rnode.

    Lemma phi_id : forall x lk, x <> rp -> x <> np -> phi x lk = lk.
    Proof.
      intros x lk H1 H2. unfold phi.
      rewrite (proj2 (Nat.eqb_neq x rp) H1), (proj2 (Nat.eqb_neq x np) H2). reflexivity.
    Qed.

    (** subtrees that contain none of the four nodes as inner node and not the removed thread *)
    Lemma del_frame : forall q x X, Rep h q x X ->
      (forall i, In i (inners X) -> i <> n /\ i <> r /\ i <> rp /\ i <> np) -> ~ In n (leaves X) ->
      Rep H' q x X.
    Proof.
      intros q x X R HI HL. apply (rep_frame_le h); auto.
      - intros i Hi. destruct (HI i Hi) as [N1 [N2 [N3 N4]]].
        destruct (rep_valid _ _ _ _ R) as [VI _]. specialize (VI i Hi).
        destruct (nth_error h i) as [xn|] eqn:E; [|apply nth_error_None in E; lia].
        destruct (G i xn E N2) as [xn' [E1 [E2 [E3 E4]]]].
        unfold rho in E1. rewrite (proj2 (Nat.eqb_neq i n) N1) in E1.
        rewrite phi_id in E3, E4 by auto. exists xn, xn'. repeat split; auto.
      - intros j Hj. destruct (rep_valid _ _ _ _ R) as [_ VL]. specialize (VL j Hj).
        destruct (nth_error h j) as [xn|] eqn:E; [|apply nth_error_None in E; lia].
        assert (NJ : j <> n) by (intros ->; contradiction).
        destruct (Nat.eq_dec j r) as [->|NR].
        + destruct Hnb as [EN | [nn [En Eb]]]; [congruence|].
          assert (NNR : n <> r) by congruence.
          destruct (G n nn En NNR) as [xn' [E1 [E2 _]]]. unfold rho in E1. rewrite Nat.eqb_refl in E1.
          rewrite Hrn in E. injection E as <-. exists rnode, xn'. repeat split; auto. lia.
        + destruct (G j xn E NR) as [xn' [E1 [E2 _]]]. unfold rho in E1.
          rewrite (proj2 (Nat.eqb_neq j n) NJ) in E1. exists xn, xn'. repeat split; auto. lia.
    Qed.

    Definition newlink (S : ptree) (x0 : nat) : nat :=
      match S with
      | PNode i l rr => if is_leaf (pchild B kk i l rr) then co else rho n r x0
      | PLeaf _ => x0
      end.

    Lemma rep_rootid : forall q x X, Rep h q x X ->
      (X = PLeaf x) \/ (exists a b, X = PNode x a b).
    Proof. intros q x X R. inversion R; subst; eauto. Qed.

    Lemma referrer_in : forall T a b, is_leaf T = false -> In (snd (referrer h (ByKey kk) T a b)) (inners T).
    Proof.
      induction T as [i|i l IHl rr IHr]; intros a b H; [discriminate|]. cbn [referrer dside].
      destruct (PatInv.pbit kk (B i)).
      - destruct rr as [j|j x y]; [simpl; auto|]. cbn [inners]. right. apply in_or_app. right. now apply IHr.
      - destruct l as [j|j x y]; [simpl; auto|]. cbn [inners]. right. apply in_or_app. left. now apply IHl.
    Qed.

    (** the root id of an off-path subtree is neither the referrer nor the target *)
    Lemma off_root : forall q x X Y (j : nat),
      Rep h q x X -> owns Y -> In j (inners Y) \/ In j (leaves Y) ->
      (forall y, In y (leaves X) -> In y (leaves Y) -> False) ->
      (forall y, In y (inners X) -> In y (inners Y) -> False) ->
      (In j (inners Y) -> True) -> (In j (leaves Y) \/ In j (inners Y)) ->
      (In j (inners X) -> False) -> (In j (leaves X) -> False) -> x <> j.
    Proof.
      intros q x X Y j R _ _ _ _ _ _ NI NL E. subst.
      destruct (rep_rootid _ _ _ R) as [-> | [a [b ->]]]; [apply NL | apply NI]; simpl; auto.
    Qed.

    Lemma del_core : forall S pbp x0, Rep h pbp x0 S -> forall p pp pn A,
      is_leaf S = false ->
      nth_error h p = Some pn -> n_bp pn = pbp ->
      ts B kk S = n -> referrer h (ByKey kk) S pp p = (rp, r) ->
      (In n (inners S) -> nparent h (ByKey kk) n S p = np) ->
      NoDup (inners S) -> NoDup (leaves S) -> owns S -> tbits B K S ->
      ~ In p (inners S) -> (forall a, In a A -> ~ In a (inners S)) -> ~ In r0 (inners S) ->
      (forall j, In j (leaves S) -> j = r0 \/ j = p \/ In j A \/ In j (inners S)) ->
      (forall a, a = r0 \/ a = p \/ In a A -> exists an, nth_error h a = Some an /\ n_bp an <= pbp) ->
      (forall j, In j [n; r; rp; np] -> j = r0 \/ j = p \/ In j A \/ In j (pathin B kk S)) ->
      Rep H' pbp (newlink S x0) (tdel B kk n r S) /\ phi p (Some x0) = Some (newlink S x0).
    Proof.
      induction 1 as [|pbp c cn l rl tl tr Hc LT HL HR Rl IHl Rr IHr];
        intros p pp pn A NLf Hp Hb Hn Hrf Hnp NDi NDl OW TB NPi NAi NR0 LV BP P4; [discriminate|].
      assert (NB : B c = n_bp cn) by (unfold nbp; now rewrite Hc).
      pose proof TB as [B1 [L0 [R1 [AGT [Tl Tr]]]]]. destruct OW as [OI [Ol Or]].
      simpl in NDi. apply NoDup_cons_iff in NDi as [NCi NDi]. apply nodup_app_iff in NDi as [NIl [NIr DI]].
      rewrite in_app_iff in NCi. simpl in NDl. apply nodup_app_iff in NDl as [NLl [NLr DL]].
      cbn [ts referrer nparent dside tdel newlink pathin] in *. rewrite NB in *.
      (* nodes of the path set are no inner nodes of an off-path subtree *)
      assert (P4off : forall X, (forall y, In y (inners X) -> In y (inners (PNode c tl tr))) ->
                (forall y, In y (inners X) -> y <> c) ->
                (forall y, In y (inners X) -> ~ In y (pathin B kk (pchild B kk c tl tr))) ->
                forall i, In i (inners X) -> i <> n /\ i <> r /\ i <> rp /\ i <> np).
      { intros X SUB NC NP i Hi.
        assert (Q : forall j, In j [n; r; rp; np] -> i <> j).
        { intros j Hj ->. destruct (P4 j Hj) as [-> | [-> | [HA | [<- | HP]]]].
          - apply NR0. now apply SUB.
          - apply NPi. now apply SUB.
          - apply (NAi j HA). now apply SUB.
          - now apply (NC c Hi).
          - exact (NP j Hi HP). }
        repeat split; apply Q; simpl; auto. }
      destruct (PatInv.pbit kk (n_bp cn)) eqn:EB.
      - (* the path goes right *)
        assert (PC : pchild B kk c tl tr = tr) by (unfold pchild; now rewrite NB, EB). rewrite PC in *.
        assert (OFFL : forall i, In i (inners tl) -> i <> n /\ i <> r /\ i <> rp /\ i <> np).
        { apply P4off.
          - intros y Hy. simpl. right. apply in_or_app. auto.
          - intros y Hy ->. tauto.
          - intros y Hy HP. apply (DI y Hy). now apply (pathin_inners B kk). }
        assert (NnL : ~ In n (leaves tl)).
        { intros F. apply (DL n F). rewrite <- Hn. apply ts_in. }
        destruct tr as [j0|j0 ta tb]; cbn [is_leaf].
        + (* c is the referrer: it is dropped and replaced by its left child *)
          cbn [referrer] in Hrf. injection Hrf as Erp Er. simpl in Hn. subst j0 p c.
          assert (RC : rnode = cn) by congruence. subst cn.
          assert (CO : l = co) by (pose proof Hco as Q; rewrite EB, HL in Q; congruence). subst l.
          split.
          * apply (rep_reparent H' (n_bp rnode)); [now apply del_frame | lia |].
            intros ln' -> Hl'. (* a thread that moves up *)
            assert (LN : co <> n) by (intros ->; apply NnL; simpl; auto).
            destruct (Nat.eq_dec co r) as [EC|LC].
            -- (* the referrer's thread to itself: it carries the target's bit position afterwards *)
               destruct Hnb as [EN | [nn [En Eb]]]; [congruence|].
               destruct (G n nn En) as [xn' [E1 [E2 _]]]; [congruence|].
               unfold rho in E1. rewrite Nat.eqb_refl in E1. rewrite EC, E1 in Hl'. injection Hl' as <-.
               assert (Q : n = r0 \/ n = rp \/ In n A).
               { destruct (P4 n) as [EQ | [EQ | [HA | HP]]]; simpl; auto.
                 simpl in HP. destruct HP as [EQ | []]. congruence. }
               destruct (BP n) as [an [Ea Eb2]]; [tauto|]. rewrite En in Ea. injection Ea as <-. lia.
            -- assert (Q : co = r0 \/ co = rp \/ In co A).
               { destruct (LV co) as [EQ | [EQ | [HA | [EQ | HI]]]]; simpl; auto; try congruence.
                 simpl in HI. contradiction. }
               destruct (BP co) as [an [Ea Eb2]]; [tauto|]. destruct (G co an Ea LC) as [xn' [E1 [E2 _]]].
               unfold rho in E1. rewrite (proj2 (Nat.eqb_neq _ _) LN) in E1. rewrite E1 in Hl'. injection Hl' as <-. lia.
          * unfold phi. rewrite Nat.eqb_refl. simpl. now rewrite Nat.eqb_refl.
        + (* c stays (possibly renamed); the path continues below its right child *)
          set (tr := PNode j0 ta tb) in *.
          assert (IRr : In r (inners tr)).
          { pose proof (referrer_in tr p c eq_refl) as Q. rewrite Hrf in Q. exact Q. }
          assert (CR : c <> r) by (intros ->; tauto).
          destruct (IHr c p cn (p :: A)) as [RP PH]; auto.
          { intros I. assert (I2 : In n (inners (PNode c tl tr))) by (simpl; right; apply in_or_app; auto).
            pose proof (Hnp I2) as Q. destruct (Nat.eqb_spec c n) as [EQ|_]; [subst c; tauto | exact Q]. }
          { intros a [<- | HA] I; [apply NPi | apply (NAi a HA)]; simpl; right; apply in_or_app; auto. }
          { intros I. apply NR0. simpl. right. apply in_or_app. auto. }
          { intros j Hj. destruct (LV j) as [-> | [-> | [HA | HI]]]; simpl; auto.
            - apply in_or_app. auto.
            - simpl in HI. destruct HI as [<- | HI]; auto. apply in_app_or in HI as [HI | HI]; auto.
              exfalso. apply (DL j); auto. now apply owns_inner_leaf. }
          { intros a [-> | [-> | [<- | HA]]].
            - destruct (BP r0) as [an [Ea Eb2]]; auto. exists an. split; auto. lia.
            - exists cn. split; auto. lia.
            - destruct (BP p) as [an [Ea Eb2]]; auto. exists an. split; auto. lia.
            - destruct (BP a) as [an [Ea Eb2]]; auto. exists an. split; auto. lia. }
          { intros j Hj. destruct (P4 j Hj) as [-> | [-> | [HA | [<- | HP]]]]; simpl; auto. }
          destruct (G c cn Hc CR) as [cn' [E1 [E2 [E3 E4]]]].
          (* the left link of c is untouched *)
          assert (LR : l <> r).
          { intros ->. destruct (rep_rootid _ _ _ Rl) as [EQ | [a [b EQ]]]; rewrite EQ in *.
            - apply (DL r); [simpl; auto | exact (owns_inner_leaf tr r Or IRr)].
            - apply (DI r); [simpl; auto | exact IRr]. }
          assert (LNn : l <> n).
          { intros ->. destruct (rep_rootid _ _ _ Rl) as [EQ | [a [b EQ]]]; rewrite EQ in *.
            - apply NnL. simpl. auto.
            - destruct (OFFL n) as [Q _]; simpl; auto. }
          assert (PL : phi c (Some l) = Some l).
          { unfold phi. simpl. rewrite (proj2 (Nat.eqb_neq l r) LR), (proj2 (Nat.eqb_neq l n) LNn).
            rewrite !andb_false_r. reflexivity. }
          split.
          * apply (RepNode H' pbp (rho n r c) cn' l (newlink tr rl)); try congruence; try lia;
              rewrite E2; first [exact RP | now apply del_frame].
          * unfold phi. simpl. rewrite (proj2 (Nat.eqb_neq c r) CR), andb_false_r. unfold rho.
            destruct (Nat.eqb_spec c n) as [->|CN].
            -- rewrite andb_true_r. rewrite <- Hnp by (simpl; auto). simpl. rewrite !Nat.eqb_refl. reflexivity.
            -- now rewrite andb_false_r.
      - (* the path goes left *)
        assert (PC : pchild B kk c tl tr = tl) by (unfold pchild; now rewrite NB, EB). rewrite PC in *.
        assert (OFFR : forall i, In i (inners tr) -> i <> n /\ i <> r /\ i <> rp /\ i <> np).
        { apply P4off.
          - intros y Hy. simpl. right. apply in_or_app. auto.
          - intros y Hy ->. tauto.
          - intros y Hy HP. apply (DI y); [now apply (pathin_inners B kk) | exact Hy]. }
        assert (NnR : ~ In n (leaves tr)).
        { intros F. apply (DL n); [rewrite <- Hn; apply ts_in | exact F]. }
        destruct tl as [j0|j0 ta tb]; cbn [is_leaf].
        + (* c is the referrer: it is dropped and replaced by its right child *)
          cbn [referrer] in Hrf. injection Hrf as Erp Er. simpl in Hn. subst j0 p c.
          assert (RC : rnode = cn) by congruence. subst cn.
          assert (CO : rl = co) by (pose proof Hco as Q; rewrite EB, HR in Q; congruence). subst rl.
          split.
          * apply (rep_reparent H' (n_bp rnode)); [now apply del_frame | lia |].
            intros ln' -> Hl'. (* a thread that moves up *)
            assert (LN : co <> n) by (intros ->; apply NnR; simpl; auto).
            destruct (Nat.eq_dec co r) as [EC|LC].
            -- (* the referrer's thread to itself: it carries the target's bit position afterwards *)
               destruct Hnb as [EN | [nn [En Eb]]]; [congruence|].
               destruct (G n nn En) as [xn' [E1 [E2 _]]]; [congruence|].
               unfold rho in E1. rewrite Nat.eqb_refl in E1. rewrite EC, E1 in Hl'. injection Hl' as <-.
               assert (Q : n = r0 \/ n = rp \/ In n A).
               { destruct (P4 n) as [EQ | [EQ | [HA | HP]]]; simpl; auto.
                 simpl in HP. destruct HP as [EQ | []]. congruence. }
               destruct (BP n) as [an [Ea Eb2]]; [tauto|]. rewrite En in Ea. injection Ea as <-. lia.
            -- assert (Q : co = r0 \/ co = rp \/ In co A).
               { destruct (LV co) as [EQ | [EQ | [HA | [EQ | HI]]]]; simpl; auto; try congruence.
                 simpl in HI. contradiction. }
               destruct (BP co) as [an [Ea Eb2]]; [tauto|]. destruct (G co an Ea LC) as [xn' [E1 [E2 _]]].
               unfold rho in E1. rewrite (proj2 (Nat.eqb_neq _ _) LN) in E1. rewrite E1 in Hl'. injection Hl' as <-. lia.
          * unfold phi. rewrite Nat.eqb_refl. simpl. now rewrite Nat.eqb_refl.
        + (* c stays (possibly renamed); the path continues below its left child *)
          set (tl := PNode j0 ta tb) in *.
          assert (IRl : In r (inners tl)).
          { pose proof (referrer_in tl p c eq_refl) as Q. rewrite Hrf in Q. exact Q. }
          assert (CR : c <> r) by (intros ->; tauto).
          destruct (IHl c p cn (p :: A)) as [RP PH]; auto.
          { intros I. assert (CN : c <> n) by (intros ->; tauto).
            pose proof Hnp as Q. rewrite (proj2 (Nat.eqb_neq c n) CN) in Q. apply Q.
            right. apply in_or_app. left. exact I. }
          { intros a [<- | HA] I; [apply NPi | apply (NAi a HA)]; right; apply (in_or_app (inners tl) (inners tr)); left; exact I. }
          { intros I. apply NR0. right. apply (in_or_app (inners tl) (inners tr)). left. exact I. }
          { intros j Hj.
            assert (Hj2 : In j (leaves (PNode c tl tr))) by (apply (in_or_app (leaves tl) (leaves tr)); left; exact Hj).
            destruct (LV j Hj2) as [EQ | [EQ | [HA | HI]]].
            - auto.
            - right. right. left. left. auto.
            - right. right. left. right. exact HA.
            - destruct HI as [EQ | HI]; [auto|].
              apply (in_app_or (inners tl) (inners tr)) in HI as [HI | HI]; [auto 6|].
              exfalso. apply (DL j); [exact Hj | exact (owns_inner_leaf tr j Or HI)]. }
          { intros a [-> | [-> | [<- | HA]]].
            - destruct (BP r0) as [an [Ea Eb2]]; auto. exists an. split; auto. lia.
            - exists cn. split; auto. lia.
            - destruct (BP p) as [an [Ea Eb2]]; auto. exists an. split; auto. lia.
            - destruct (BP a) as [an [Ea Eb2]]; auto. exists an. split; auto. lia. }
          { intros j Hj. destruct (P4 j Hj) as [-> | [-> | [HA | [<- | HP]]]]; simpl; auto. }
          destruct (G c cn Hc CR) as [cn' [E1 [E2 [E3 E4]]]].
          (* the right link of c is untouched *)
          assert (LR : rl <> r).
          { intros ->. destruct (rep_rootid _ _ _ Rr) as [EQ | [a [b EQ]]]; rewrite EQ in *.
            - apply (DL r); [exact (owns_inner_leaf tl r Ol IRl) | simpl; auto].
            - apply (DI r); [exact IRl | simpl; auto]. }
          assert (LNn : rl <> n).
          { intros ->. destruct (rep_rootid _ _ _ Rr) as [EQ | [a [b EQ]]]; rewrite EQ in *.
            - apply NnR. simpl. auto.
            - destruct (OFFR n) as [Q _]; simpl; auto. }
          assert (PL : phi c (Some rl) = Some rl).
          { unfold phi. simpl. rewrite (proj2 (Nat.eqb_neq rl r) LR), (proj2 (Nat.eqb_neq rl n) LNn).
            rewrite !andb_false_r. reflexivity. }
          split.
          * apply (RepNode H' pbp (rho n r c) cn' (newlink tl l) rl); try congruence; try lia;
              rewrite E2; first [exact RP | now apply del_frame].
          * unfold phi. simpl. rewrite (proj2 (Nat.eqb_neq c r) CR), andb_false_r. unfold rho.
            destruct (Nat.eqb_spec c n) as [->|CN].
            -- rewrite andb_true_r. rewrite <- Hnp by (simpl; auto). simpl. rewrite !Nat.eqb_refl. reflexivity.
            -- now rewrite andb_false_r.
    Qed.

    (** ** where the four pointers lie *)
    Lemma referrer_path : forall T a b, is_leaf T = false ->
      In (snd (referrer h (ByKey kk) T a b)) (pathin B kk T) /\
      (fst (referrer h (ByKey kk) T a b) = b \/ In (fst (referrer h (ByKey kk) T a b)) (pathin B kk T)).
    Proof.
      induction T as [i|i l IHl rr IHr]; intros a b H; [discriminate|]. cbn [referrer dside pathin].
      unfold pchild. destruct (PatInv.pbit kk (B i)).
      - destruct rr as [j|j x y]; [simpl; auto|]. destruct (IHr b i eq_refl) as [Q1 [Q2 | Q2]]; split; simpl; auto;
          try (rewrite Q2; auto).
      - destruct l as [j|j x y]; [simpl; auto|]. destruct (IHl b i eq_refl) as [Q1 [Q2 | Q2]]; split; simpl; auto;
          try (rewrite Q2; auto).
    Qed.

    Lemma referrer_lastinner : forall T a b, snd (referrer h (ByKey kk) T a b) = lastinner B kk T b.
    Proof.
      induction T as [i|i l IHl rr IHr]; intros a b; [reflexivity|]. cbn [referrer dside lastinner].
      unfold pchild. destruct (PatInv.pbit kk (B i)); auto.
    Qed.

    Lemma nparent_path : forall T b,
      nparent h (ByKey kk) n T b = b \/ In (nparent h (ByKey kk) n T b) (pathin B kk T).
    Proof.
      induction T as [i|i l IHl rr IHr]; intros b; [simpl; auto|]. cbn [nparent dside pathin].
      destruct (Nat.eqb i n); auto. unfold pchild. destruct (PatInv.pbit kk (B i)).
      - destruct (IHr i) as [Q | Q]; right; simpl; [rewrite Q|]; auto.
      - destruct (IHl i) as [Q | Q]; right; simpl; [rewrite Q|]; auto.
    Qed.

    (** ** the state after the re-linking (for any heap that implements it) *)
    Hypothesis GK : forall j jn, nth_error h j = Some jn -> j <> n ->
      exists jn', nth_error H' j = Some jn' /\ n_key jn' = n_key jn /\ n_val jn' = n_val jn.

    Theorem remove_represented : forall rn0 c0 T,
      nth_error h r0 = Some rn0 -> n_bp rn0 = 0 -> n_left rn0 = Some c0 -> n_right rn0 = None ->
      Rep h 0 c0 T -> is_leaf T = false ->
      NoDup (inners T) -> NoDup (leaves T) -> owns T -> tbits B K T -> In r0 (leaves T) ->
      ts B kk T = n -> referrer h (ByKey kk) T r0 r0 = (rp, r) ->
      (In n (inners T) -> nparent h (ByKey kk) n T r0 = np) -> (~ In n (inners T) -> np = r) ->
      let T' := tdel B kk n r T in
      let root' := rho n r r0 in
      exists rn0', nth_error H' root' = Some rn0' /\ n_bp rn0' = 0 /\
        n_left rn0' = Some (newlink T c0) /\ n_right rn0' = None /\
        Rep H' 0 (newlink T c0) T' /\ owns T' /\ NoDup (leaves T') /\ NoDup (inners T') /\
        In root' (leaves T') /\ tbits (nbp H') (nkey H') T' /\
        (forall j, In j (leaves T') <-> In j (leaves T) /\ j <> n) /\
        (forall j, In j (leaves T') -> nkey H' j = K j).
    Proof.
      intros rn0 c0 T H0 Hb0 HL0 HR0 R NLf NDi NDl OW TB RL Hn Hrf Hnp Hnp2 T' root'.
      assert (R0I : ~ In r0 (inners T)).
      { intros I. pose proof (rep_inner_bp _ _ _ _ R r0 I) as Q. unfold nbp in Q. rewrite H0 in Q. lia. }
      assert (LIR : forall j, In j (leaves T) -> j = r0 \/ In j (inners T)) by (now apply leaf_inner_or_root).
      assert (NL : In n (leaves T)) by (rewrite <- Hn; apply ts_in).
      assert (NP : In n (inners T) -> In n (pathin B kk T)).
      { intros I. rewrite <- Hn. apply target_on_path; auto. now rewrite Hn. }
      destruct (referrer_path T r0 r0 NLf) as [RPa RPb]. rewrite Hrf in RPa, RPb. simpl in RPa, RPb.
      assert (RI : In r (inners T)) by (now apply (pathin_inners B kk)).
      assert (RR0 : r <> r0) by (intros ->; contradiction).
      assert (NPP : np = r0 \/ In np (pathin B kk T)).
      { destruct (LIR n NL) as [E | I].
        - right. rewrite (Hnp2 (fun I => R0I (eq_ind _ (fun z => In z (inners T)) I _ E))). exact RPa.
        - rewrite <- (Hnp I). apply nparent_path. }
      destruct (del_core T 0 c0 R r0 r0 rn0 [] NLf H0 Hb0 Hn Hrf Hnp NDi NDl OW TB R0I) as [RP PH]; auto.
      { intros j Hj. destruct (LIR j Hj); auto. }
      { intros a [-> | [-> | []]]; exists rn0; split; auto; lia. }
      { intros j [<- | [<- | [<- | [<- | []]]]]; auto.
        - destruct (LIR n NL); auto.
        - destruct RPb; auto.
        - destruct NPP; auto. }
      destruct (G r0 rn0 H0) as [rn0' [E1 [E2 [E3 E4]]]]; auto.
      exists rn0'. fold root'. split; auto. split; [congruence|].
      split; [rewrite E3, HL0; exact PH|]. split; [rewrite E4, HR0; unfold phi; simpl; now rewrite !andb_false_r|].
      assert (LT : forall j, In j (leaves T') <-> In j (leaves T) /\ j <> n).
      { intros j. unfold T'. rewrite (leaves_tdel B kk n r T NLf NDl j). now rewrite Hn. }
      assert (RLI : r = lastinner B kk T r0).
      { pose proof (referrer_lastinner T r0 r0) as Q. rewrite Hrf in Q. exact Q. }
      assert (OW' : owns T') by (apply (owns_tdel B kk n r T r0); auto).
      assert (NDl' : NoDup (leaves T')) by (now apply nodup_leaves_tdel).
      split; [exact RP|]. split; auto. split; auto.
      split; [eapply nodup_inners_derived; eauto|].
      split.
      { apply LT. unfold root', rho. destruct (Nat.eqb_spec r0 n) as [E|NE].
        - split; [now apply owns_inner_leaf | congruence].
        - split; auto. }
      assert (KJ : forall j, In j (leaves T') -> nkey H' j = K j).
      { intros j Hj. apply LT in Hj as [Hj NJ]. destruct (rep_valid _ _ _ _ R) as [_ VL]. specialize (VL j Hj).
        destruct (nth_error h j) as [jn|] eqn:E; [|apply nth_error_None in E; lia].
        destruct (GK j jn E NJ) as [jn' [F1 [F2 _]]]. unfold nkey. now rewrite E, F1. }
      split; [|split; auto].
      (* the bit invariant: first for the abstract bit positions, then transferred to H' *)
      set (B2 := fun j => if Nat.eqb j r then (if Nat.eqb n r then B r else B n) else B j).
      assert (TB2 : tbits B2 K T').
      { apply (tbits_tdel B K kk n r B2) with (d := r0); auto.
        - intros NE. unfold B2. rewrite Nat.eqb_refl. now rewrite (proj2 (Nat.eqb_neq n r) NE).
        - intros j NE. unfold B2. now rewrite (proj2 (Nat.eqb_neq j r) NE). }
      apply (tbits_ext2 B2 (nbp H') K (nkey H')); auto.
      intros x Hx. destruct (inners_tdel_pre B K kk n r T r0 x NDi RLI NP Hx) as [j [Hj [NR ->]]].
      destruct (rep_valid _ _ _ _ R) as [VI _]. specialize (VI j Hj).
      destruct (nth_error h j) as [jn|] eqn:E; [|apply nth_error_None in E; lia].
      destruct (G j jn E NR) as [jn' [F1 [F2 _]]]. unfold nbp at 1. rewrite F1, F2.
      unfold B2, rho. destruct (Nat.eqb_spec j n) as [->|NJ].
      - rewrite Nat.eqb_refl. rewrite (proj2 (Nat.eqb_neq n r) NR). unfold nbp. now rewrite E.
      - rewrite (proj2 (Nat.eqb_neq j r) NR). unfold nbp. now rewrite E.
    Qed.
  End Core.

  (** ** the links along the path *)
  Section PathFacts.
    Variable h : heap.
    Variable kk : key.
    Variable r0 : nat.
    Notation B := (nbp h).
    Notation K := (nkey h).

    (** the side of node [x] the path takes (the root only has a left link) *)
    Definition sd (x : nat) : bool := if Nat.eqb x r0 then false else PatInv.pbit kk (B x).

    (** the path-side link of [x] is [y], the other link is not *)
    Definition plinkP (x y : nat) : Prop :=
      exists xn, nth_error h x = Some xn /\ (x = r0 \/ 1 <= n_bp xn) /\
        (if sd x then n_right xn = Some y /\ n_left xn <> Some y
         else n_left xn = Some y /\ n_right xn <> Some y).

    Lemma path_facts : forall S pbp x0, Rep h pbp x0 S -> forall p pp,
      is_leaf S = false -> tbits B K S -> ~ In r0 (inners S) ->
      plinkP p x0 -> B p <= pbp ->
      (In (ts B kk S) (inners S) -> In (ts B kk S) (pathin B kk S)) ->
      let rp := fst (referrer h (ByKey kk) S pp p) in
      let r := snd (referrer h (ByKey kk) S pp p) in
      let n := ts B kk S in
      plinkP rp r /\ plinkP r n /\ In r (inners S) /\
      (In n (inners S) -> plinkP (nparent h (ByKey kk) n S p) n /\ B (nparent h (ByKey kk) n S p) < B n) /\
      (forall x, In x (pathin B kk S) -> B x <= B r) /\ B rp < B r.
    Proof.
      induction 1 as [|pbp c cn l rl tl tr Hc LT HL HR Rl IHl Rr IHr];
        intros p pp NLf TB NR0 PP BP NP; [discriminate|].
      assert (NB : B c = n_bp cn) by (unfold nbp; now rewrite Hc).
      assert (RW : Rep h pbp c (PNode c tl tr)) by (eapply RepNode; eauto).
      assert (LR : l <> rl) by (eapply links_distinct; eauto).
      assert (CR0 : c <> r0) by (intros ->; apply NR0; simpl; auto).
      assert (SD : sd c = PatInv.pbit kk (n_bp cn)).
      { unfold sd. rewrite (proj2 (Nat.eqb_neq _ _) CR0). now rewrite NB. }
      pose proof TB as [B1 [_ [_ [_ [Tl Tr]]]]].
      cbn [ts referrer nparent dside pathin inners] in *. unfold pchild in *. rewrite NB in *.
      destruct (PatInv.pbit kk (n_bp cn)) eqn:EB.
      - assert (PC : plinkP c rl).
        { exists cn. split; auto. split; [right; lia|]. rewrite SD. split; congruence. }
        destruct tr as [j|j ta tb].
        + assert (EJ : j = rl) by (inversion Rr; reflexivity). subst j.
          cbn [referrer ts fst snd nparent pathin inners] in *.
          split; [exact PP|]. split; [exact PC|]. split; [left; reflexivity|]. split.
          * intros I. destruct (NP I) as [E | []]. subst rl. rewrite Nat.eqb_refl. split; auto. rewrite NB. lia.
          * split; [intros x [<- | []]; lia | rewrite NB; lia].
        + set (tr := PNode j ta tb) in *.
          destruct (IHr c p eq_refl Tr) as [Q1 [Q2 [Q3 [Q4 [Q5 Q6]]]]]; auto; try lia.
          { intros I. apply NR0. right. apply in_or_app. auto. }
          { intros I. destruct NP as [E | Q]; auto. right. apply in_or_app. auto.
            exfalso. pose proof (rep_inner_bp _ _ _ _ Rr c) as W. rewrite <- E in I. specialize (W I). rewrite NB in W. lia. }
          split; auto. split; auto. split; [right; apply in_or_app; auto|]. split.
          * intros I. destruct (Nat.eqb_spec c (ts B kk tr)) as [E|NE].
            -- rewrite <- E. split; auto. rewrite NB. lia.
            -- apply Q4. destruct (NP I) as [E | Q]; [congruence | now apply (pathin_inners B kk)].
          * split; [|exact Q6]. intros x [<- | Hx]; auto. pose proof (rep_inner_bp _ _ _ _ Rr _ Q3). lia.
      - assert (PC : plinkP c l).
        { exists cn. split; auto. split; [right; lia|]. rewrite SD. split; congruence. }
        destruct tl as [j|j ta tb].
        + assert (EJ : j = l) by (inversion Rl; reflexivity). subst j.
          cbn [referrer ts fst snd nparent pathin inners] in *.
          split; [exact PP|]. split; [exact PC|]. split; [left; reflexivity|]. split.
          * intros I. destruct (NP I) as [E | []]. subst l. rewrite Nat.eqb_refl. split; auto. rewrite NB. lia.
          * split; [intros x [<- | []]; lia | rewrite NB; lia].
        + set (tl := PNode j ta tb) in *.
          destruct (IHl c p eq_refl Tl) as [Q1 [Q2 [Q3 [Q4 [Q5 Q6]]]]]; auto; try lia.
          { intros I. apply NR0. right. apply (in_or_app (inners tl) (inners tr)). auto. }
          { intros I. destruct NP as [E | Q]; auto. right. apply (in_or_app (inners tl) (inners tr)). auto.
            exfalso. pose proof (rep_inner_bp _ _ _ _ Rl c) as W. rewrite <- E in I. specialize (W I). rewrite NB in W. lia. }
          split; auto. split; auto. split; [right; apply (in_or_app (inners tl) (inners tr)); auto|]. split.
          * intros I. destruct (Nat.eqb_spec c (ts B kk tl)) as [E|NE].
            -- rewrite <- E. split; auto. rewrite NB. lia.
            -- apply Q4. destruct (NP I) as [E | Q]; [congruence | now apply (pathin_inners B kk)].
          * split; [|exact Q6]. intros x [<- | Hx]; auto. pose proof (rep_inner_bp _ _ _ _ Rl _ Q3). lia.
    Qed.
  End PathFacts.

  Lemma inner_links : forall (h : heap) pbp x0 S i, Rep h pbp x0 S -> In i (inners S) ->
    exists xn l r', nth_error h i = Some xn /\ n_left xn = Some l /\ n_right xn = Some r' /\ 1 <= n_bp xn - pbp.
  Proof.
    induction 1 as [|pbp c cn l r tl tr Hc LT HL HR Rl IHl Rr IHr]; intros I; simpl in I; [contradiction|].
    destruct I as [<- | I]; [exists cn, l, r; repeat split; auto; lia|].
    apply in_app_or in I as [I | I]; [destruct (IHl I) as [xn [a [b [E1 [E2 [E3 E4]]]]]] | destruct (IHr I) as [xn [a [b [E1 [E2 [E3 E4]]]]]]];
      exists xn, a, b; repeat split; auto; lia.
  Qed.

  Definition setl (xn : pnode) (s : bool) (v : option nat) : pnode :=
    if s then with_right xn v else with_left xn v.

  Lemma set_eval : forall (g : heap) x xn (s : bool) v, nth_error g x = Some xn ->
    (if s then set_right g x v else set_left g x v) = ROk (hset g x (setl xn s v)).
  Proof.
    intros g x xn s v H. unfold set_right, set_left, hget, setl. rewrite H. destruct s; reflexivity.
  Qed.

  (** [relinked h H' kk n r rp np co]: heap [H'] implements the re-linking of remove on heap [h] *)
  Definition relinked (h H' : heap) (kk : key) (n r rp np co : nat) : Prop :=
    (forall x xn, nth_error h x = Some xn -> x <> r ->
       exists xn', nth_error H' (rho n r x) = Some xn' /\ n_bp xn' = n_bp xn /\
                   n_left xn' = phi n r rp np co x (n_left xn) /\
                   n_right xn' = phi n r rp np co x (n_right xn)) /\
    (exists rnode, nth_error h r = Some rnode /\
       (if PatInv.pbit kk (n_bp rnode) then n_left rnode else n_right rnode) = Some co /\
       (n = r \/ exists nn, nth_error h n = Some nn /\ n_bp nn <= n_bp rnode)) /\
    (forall j jn, nth_error h j = Some jn -> j <> n ->
       exists jn', nth_error H' j = Some jn' /\ n_key jn' = n_key jn /\ n_val jn' = n_val jn).

  Theorem remove_relinked : forall (h H' : heap) kk n r rp np co r0 rn0 c0 T,
    relinked h H' kk n r rp np co ->
    nth_error h r0 = Some rn0 -> n_bp rn0 = 0 -> n_left rn0 = Some c0 -> n_right rn0 = None ->
    Rep h 0 c0 T -> is_leaf T = false ->
    NoDup (inners T) -> NoDup (leaves T) -> owns T -> tbits (nbp h) (nkey h) T -> In r0 (leaves T) ->
    ts (nbp h) kk T = n -> referrer h (ByKey kk) T r0 r0 = (rp, r) ->
    (In n (inners T) -> nparent h (ByKey kk) n T r0 = np) -> (~ In n (inners T) -> np = r) ->
    let T' := tdel (nbp h) kk n r T in
    let root' := rho n r r0 in
    exists rn0', nth_error H' root' = Some rn0' /\ n_bp rn0' = 0 /\
      n_left rn0' = Some (newlink h kk n r co T c0) /\ n_right rn0' = None /\
      Rep H' 0 (newlink h kk n r co T c0) T' /\ owns T' /\ NoDup (leaves T') /\ NoDup (inners T') /\
      In root' (leaves T') /\ tbits (nbp H') (nkey H') T' /\
      (forall j, In j (leaves T') <-> In j (leaves T) /\ j <> n) /\
      (forall j, In j (leaves T') -> nkey H' j = nkey h j).
  Proof.
    intros h H' kk n r rp np co r0 rn0 c0 T [G [[rnode [Hrn [Hco Hnb]]] GK]].
    exact (remove_represented h H' kk n r rp np co r0 G rnode Hrn Hco Hnb GK rn0 c0 T).
  Qed.

  (** ** the heap computed by the writes of remove is [relinked] *)
  Lemma setl_bp : forall (xn : pnode) s v, n_bp (setl xn s v) = n_bp xn.
  Proof. intros xn [] v; reflexivity. Qed.
  Lemma setl_key : forall (xn : pnode) s v, n_key (setl xn s v) = n_key xn.
  Proof. intros xn [] v; reflexivity. Qed.
  Lemma setl_val : forall (xn : pnode) s v, n_val (setl xn s v) = n_val xn.
  Proof. intros xn [] v; reflexivity. Qed.

  (** a node whose [s]-side link is [y] (and whose other link is not), after redirecting that link *)
  Definition linked (xn : pnode) (s : bool) (y : nat) : Prop :=
    if s then n_right xn = Some y /\ n_left xn <> Some y else n_left xn = Some y /\ n_right xn <> Some y.

  Lemma oeq_some : forall a b, oeq (Some a) (Some b) = Nat.eqb a b.
  Proof. reflexivity. Qed.
  Lemma oeq_neq : forall lk y, lk <> Some y -> oeq lk (Some y) = false.
  Proof.
    intros [a|] y H; simpl; auto. apply Nat.eqb_neq. congruence.
  Qed.

  (** redirecting the path-side link of [x] from [y] to [v]: what [phi]-like maps see *)
  Lemma setl_links : forall (xn : pnode) s y v (f : option nat -> option nat),
    linked xn s y -> f (Some y) = v -> (forall lk, lk <> Some y -> f lk = lk) ->
    n_left (setl xn s v) = f (n_left xn) /\ n_right (setl xn s v) = f (n_right xn).
  Proof.
    intros xn s y v f L F1 F2. unfold linked in L. destruct s; simpl; destruct L as [L1 L2].
    - rewrite L1, F1. split; auto. symmetry. now apply F2.
    - rewrite L1, F1. split; auto. symmetry. now apply F2.
  Qed.

  Lemma relinked_A : forall (h : heap) kk n rp co rpn rnode,
    nth_error h rp = Some rpn -> nth_error h n = Some rnode -> rp <> n ->
    forall s, linked rpn s n ->
    (if PatInv.pbit kk (n_bp rnode) then n_left rnode else n_right rnode) = Some co ->
    relinked h (hset h rp (setl rpn s (Some co))) kk n n rp rp co.
  Proof.
    intros h kk n rp co rpn rnode Hrp Hn NE s L Hco.
    assert (Lrp : (rp < length h)%nat) by (apply nth_error_Some; congruence).
    split; [|split].
    - intros x xn Hx NX. unfold rho. rewrite (proj2 (Nat.eqb_neq x n) NX).
      destruct (Nat.eq_dec x rp) as [->|NR].
      + rewrite Hrp in Hx. injection Hx as <-. rewrite nth_hset_eq by exact Lrp.
        eexists. split; [reflexivity|]. split; [apply setl_bp|].
        apply (setl_links rpn s n (Some co) (phi n n rp rp co rp)); auto.
        * unfold phi. now rewrite Nat.eqb_refl, oeq_some, Nat.eqb_refl.
        * intros lk H. unfold phi. now rewrite (oeq_neq lk n H), !andb_false_r.
      + rewrite nth_hset_neq by auto. exists xn. split; auto. split; auto.
        unfold phi. rewrite (proj2 (Nat.eqb_neq x rp) NR). auto.
    - exists rnode. auto.
    - intros j jn Hj NJ. destruct (Nat.eq_dec j rp) as [->|NR].
      + rewrite Hrp in Hj. injection Hj as <-. rewrite nth_hset_eq by exact Lrp.
        eexists. split; [reflexivity|]. split; [apply setl_key | apply setl_val].
      + rewrite nth_hset_neq by auto. eauto.
  Qed.

  Definition heapB (h : heap) (n r rp np co : nat) (rpn npn nn rnode : pnode) (s1 s2 : bool) : heap :=
    let RP' := setl rpn s1 (Some co) in
    let NP' := setl npn s2 (Some r) in
    let NN2 := if Nat.eqb n rp then RP' else nn in
    hset (hset (hset h rp RP') np NP') r
         {| n_bp := n_bp NN2; n_key := n_key rnode; n_val := n_val rnode;
            n_left := n_left NN2; n_right := n_right NN2 |}.

  Lemma relinked_B : forall (h : heap) kk n r rp np co rpn npn nn rnode s1 s2,
    nth_error h rp = Some rpn -> nth_error h np = Some npn ->
    nth_error h n = Some nn -> nth_error h r = Some rnode ->
    n <> r -> rp <> r -> np <> rp -> np <> n ->
    linked rpn s1 r -> (np = r \/ (np <> r /\ linked npn s2 n)) ->
    (if PatInv.pbit kk (n_bp rnode) then n_left rnode else n_right rnode) = Some co ->
    n_bp nn <= n_bp rnode ->
    relinked h (heapB h n r rp np co rpn npn nn rnode s1 s2) kk n r rp np co.
  Proof.
    intros h kk n r rp np co rpn npn nn rnode s1 s2 Hrp Hnp Hn Hr NR RPR NPRP NPN L1 L2 Hco BPN.
    assert (Lrp : (rp < length h)%nat) by (apply nth_error_Some; congruence).
    assert (Lnp : (np < length h)%nat) by (apply nth_error_Some; congruence).
    assert (Lr : (r < length h)%nat) by (apply nth_error_Some; congruence).
    unfold heapB. set (RP' := setl rpn s1 (Some co)). set (NP' := setl npn s2 (Some r)).
    set (NN2 := if Nat.eqb n rp then RP' else nn).
    set (h1 := hset h rp RP'). set (h2 := hset h1 np NP').
    assert (L1' : (np < length h1)%nat) by (unfold h1; now rewrite hset_length).
    assert (L2' : (r < length h2)%nat) by (unfold h2, h1; now rewrite !hset_length).
    (* lookups below the last write *)
    assert (LK2 : forall x, x <> np -> x <> rp -> nth_error h2 x = nth_error h x).
    { intros x N1 N2. unfold h2, h1. now rewrite !nth_hset_neq by auto. }
    assert (LKrp : nth_error h2 rp = Some RP').
    { unfold h2. rewrite nth_hset_neq by auto. unfold h1. now apply nth_hset_eq. }
    assert (LKnp : nth_error h2 np = Some NP') by (unfold h2; now apply nth_hset_eq).
    assert (PHrp : forall lk, lk <> Some r -> phi n r rp np co rp lk = lk).
    { intros lk H. unfold phi. rewrite (oeq_neq lk r H), andb_false_r.
      now rewrite (proj2 (Nat.eqb_neq rp np) (fun E => NPRP (eq_sym E))). }
    assert (PHrp1 : phi n r rp np co rp (Some r) = Some co).
    { unfold phi. now rewrite Nat.eqb_refl, oeq_some, Nat.eqb_refl. }
    split; [|split].
    - intros x xn Hx NX. unfold rho. destruct (Nat.eqb_spec x n) as [->|NXN].
      + (* the target: its record moves to r *)
        rewrite Hn in Hx. injection Hx as <-. rewrite nth_hset_eq by exact L2'.
        eexists. split; [reflexivity|]. cbn [n_bp n_left n_right]. unfold NN2.
        destruct (Nat.eqb_spec n rp) as [E|NE].
        * subst rp. assert (EQ : rpn = nn) by congruence. subst rpn. split; [apply setl_bp|].
          apply (setl_links nn s1 r (Some co) (phi n r n np co n)); auto.
        * split; auto. unfold phi. rewrite (proj2 (Nat.eqb_neq n rp) NE).
          now rewrite (proj2 (Nat.eqb_neq n np) (fun E => NPN (eq_sym E))).
      + rewrite nth_hset_neq by auto.
        destruct (Nat.eq_dec x np) as [->|NNP].
        * destruct L2 as [E | [_ L2]]; [congruence|].
          rewrite Hnp in Hx. injection Hx as <-. rewrite LKnp.
          eexists. split; [reflexivity|]. split; [apply setl_bp|].
          apply (setl_links npn s2 n (Some r) (phi n r rp np co np)); auto.
          -- unfold phi. rewrite (proj2 (Nat.eqb_neq np rp) NPRP). simpl.
             now rewrite !Nat.eqb_refl.
          -- intros lk H. unfold phi. rewrite (proj2 (Nat.eqb_neq np rp) NPRP). simpl.
             now rewrite (oeq_neq lk n H), andb_false_r.
        * destruct (Nat.eq_dec x rp) as [->|NRP].
          -- rewrite Hrp in Hx. injection Hx as <-. rewrite LKrp.
             eexists. split; [reflexivity|]. split; [apply setl_bp|].
             apply (setl_links rpn s1 r (Some co) (phi n r rp np co rp)); auto.
          -- rewrite LK2 by auto. exists xn. split; auto. split; auto. unfold phi.
             rewrite (proj2 (Nat.eqb_neq x rp) NRP), (proj2 (Nat.eqb_neq x np) NNP). auto.
    - exists rnode. split; auto. split; auto. right. eauto.
    - intros j jn Hj NJ. destruct (Nat.eq_dec j r) as [->|NJR].
      + rewrite Hr in Hj. injection Hj as <-. rewrite nth_hset_eq by exact L2'. eexists. split; [reflexivity|]. auto.
      + rewrite nth_hset_neq by auto. destruct (Nat.eq_dec j np) as [->|NNP].
        * rewrite Hnp in Hj. injection Hj as <-. rewrite LKnp. eexists. split; [reflexivity|].
          split; [apply setl_key | apply setl_val].
        * destruct (Nat.eq_dec j rp) as [->|NRP].
          -- rewrite Hrp in Hj. injection Hj as <-. rewrite LKrp. eexists. split; [reflexivity|].
             split; [apply setl_key | apply setl_val].
          -- rewrite LK2 by auto. eauto.
  Qed.

  Lemma side_eval : forall (g : heap) kk r0 x xn', nth_error g x = Some xn' -> (x = r0 \/ 1 <= n_bp xn') ->
    (if Nat.eqb x r0 then ROk false else xn <- hget g x ;; kbit kk (n_bp xn)) =
      ROk (if Nat.eqb x r0 then false else PatInv.pbit kk (n_bp xn')).
  Proof.
    intros g kk r0 x xn' H B1. destruct (Nat.eqb_spec x r0) as [E|NE]; auto.
    unfold hget. rewrite H. cbn [rbind]. destruct B1 as [E|B1]; [contradiction|]. now apply kbit_pos.
  Qed.

  Lemma nparent_last : forall (h : heap) kk T a b, is_leaf T = false -> NoDup (inners T) ->
    nparent h (ByKey kk) (snd (referrer h (ByKey kk) T a b)) T b = fst (referrer h (ByKey kk) T a b).
  Proof.
    induction T as [i|i l IHl rr IHr]; intros a b NL ND; [discriminate|]. cbn [referrer nparent dside].
    simpl in ND. apply NoDup_cons_iff in ND as [NI ND]. apply nodup_app_iff in ND as [Nl [Nr _]].
    rewrite in_app_iff in NI. destruct (PatInv.pbit kk (nbp h i)).
    - destruct rr as [j|j x y]; [simpl; now rewrite Nat.eqb_refl|].
      pose proof (referrer_in h kk (PNode j x y) b i eq_refl) as Q.
      destruct (Nat.eqb_spec i (snd (referrer h (ByKey kk) (PNode j x y) b i))) as [E|NE]; [rewrite <- E in Q; tauto|].
      now apply IHr.
    - destruct l as [j|j x y]; [simpl; now rewrite Nat.eqb_refl|].
      pose proof (referrer_in h kk (PNode j x y) b i eq_refl) as Q.
      destruct (Nat.eqb_spec i (snd (referrer h (ByKey kk) (PNode j x y) b i))) as [E|NE]; [rewrite <- E in Q; tauto|].
      now apply IHl.
  Qed.

  Lemma nparent_notin : forall (h : heap) kk n T b, ~ In n (inners T) ->
    nparent h (ByKey kk) n T b = lastinner (nbp h) kk T b.
  Proof.
    induction T as [i|i l IHl rr IHr]; intros b NI; [reflexivity|]. cbn [nparent dside lastinner].
    simpl in NI. rewrite in_app_iff in NI. destruct (Nat.eqb_spec i n) as [E|NE]; [tauto|].
    unfold pchild. destruct (PatInv.pbit kk (nbp h i)); [apply IHr | apply IHl]; tauto.
  Qed.

  Theorem p_remove_ok : forall (t : pstate) r0 rn0 c0 T kk h n rp r np,
    PInvN t r0 rn0 c0 T -> owns T -> NoDup (leaves T) -> In r0 (leaves T) -> is_leaf T = false ->
    h = pheap t -> n = ts (nbp h) kk T -> nkey h n = kk ->
    referrer h (ByKey kk) T r0 r0 = (rp, r) -> np = nparent h (ByKey kk) n T r0 ->
    exists H' co,
      p_remove t r0 n r rp np = ROk {| psize := psize t - 1; proot := Some (rho n r r0); pheap := H' |} /\
      relinked h H' kk n r rp np co.
  Proof.
    intros t r0 rn0 c0 T kk h n rp r np I OW NDl RL NLf Eh En KN Erf Enp.
    destruct I as [q_root0 q_rn0 q_left0 q_right0 q_bp0 q_rep0 q_single0 q_nodup0 q_bits0 q_keys0 q_size0].
    rewrite <- Eh in *.
    assert (R0I : ~ In r0 (inners T)).
    { intros F. pose proof (rep_inner_bp _ _ _ _ q_rep0 r0 F) as Q. unfold nbp in Q. rewrite q_rn0 in Q. lia. }
    assert (NP : In (ts (nbp h) kk T) (inners T) -> In (ts (nbp h) kk T) (pathin (nbp h) kk T)) by (now apply target_on_path).
    assert (PP0 : plinkP h kk r0 r0 c0).
    { exists rn0. split; auto. split; auto. unfold sd. rewrite Nat.eqb_refl. split; congruence. }
    assert (B0 : nbp h r0 <= 0) by (unfold nbp; rewrite q_rn0; lia).
    pose proof (path_facts h kk r0 T 0 c0 q_rep0 r0 r0 NLf q_bits0 R0I PP0 B0 NP) as PF.
    cbv zeta in PF. rewrite Erf in PF. rewrite <- En in PF. cbn [fst snd] in PF. rewrite <- Enp in PF.
    destruct PF as [PRP [PR [RI [PN [PB BRP]]]]].
    assert (RR0 : r <> r0) by (intros E; rewrite E in RI; contradiction).
    destruct PR as [rnode [Hr [_ Hrs]]].
    assert (SDr : sd h kk r0 r = PatInv.pbit kk (n_bp rnode)).
    { unfold sd. rewrite (proj2 (Nat.eqb_neq _ _) RR0). unfold nbp. now rewrite Hr. }
    rewrite SDr in Hrs.
    destruct (inner_links h 0 c0 T r q_rep0 RI) as [rnode' [la [rb [Hr' [HLa [HRb Br1]]]]]].
    rewrite Hr in Hr'. injection Hr' as <-.
    set (co := if PatInv.pbit kk (n_bp rnode) then la else rb).
    assert (Hco : (if PatInv.pbit kk (n_bp rnode) then n_left rnode else n_right rnode) = Some co).
    { unfold co. destruct (PatInv.pbit kk (n_bp rnode)); auto. }
    assert (NL : In n (leaves T)) by (rewrite En; apply ts_in).
    destruct (rep_valid _ _ _ _ q_rep0) as [_ VL]. pose proof (VL n NL) as Ln.
    destruct (nth_error h n) as [nn|] eqn:Hn; [|apply nth_error_None in Hn; lia].
    assert (KNN : n_key nn = kk) by (unfold nkey in KN; now rewrite Hn in KN).
    assert (SZ : (psize t - 1 =? 0) = false).
    { apply Z.eqb_neq. rewrite q_size0. destruct T as [i|i a b]; [discriminate|]. pose proof (leaves_two i a b). lia. }
    (* the referrer's predecessor *)
    destruct PRP as [rpn [Hrp [Brp Lrp]]].
    assert (S1 : (if Nat.eqb rp r0 then ROk false else xn <- hget h rp ;; kbit kk (n_bp xn)) = ROk (sd h kk r0 rp)).
    { rewrite (side_eval h kk r0 rp rpn Hrp Brp). unfold sd, nbp. now rewrite Hrp. }
    assert (RPR : rp <> r) by (intros E; rewrite E in BRP; lia).
    unfold p_remove. rewrite <- Eh. unfold hget at 1. rewrite Hn. cbn [rbind]. unfold hget at 1. rewrite Hr. cbn [rbind].
    rewrite KNN. rewrite (proj2 (Nat.eqb_neq _ _) RR0). rewrite kbit_pos by lia. cbn [rbind].
    rewrite Hco.
    destruct (Nat.eqb_spec n r) as [ENR|NNR].
    - (* the target is the referrer itself: a single write *)
      assert (NPRP : np = rp).
      { rewrite Enp, ENR. pose proof (nparent_last h kk T r0 r0 NLf q_nodup0) as Q. rewrite Erf in Q. exact Q. }
      rewrite NPRP, S1. cbn [rbind]. rewrite (set_eval h rp rpn _ _ Hrp). cbn [rbind]. rewrite SZ.
      exists (hset h rp (setl rpn (sd h kk r0 rp) (Some co))), co. split.
      + do 2 f_equal. unfold rho. rewrite ENR. now rewrite (proj2 (Nat.eqb_neq r0 r) (fun E => RR0 (eq_sym E))).
      + rewrite ENR. apply (relinked_A h kk r rp co rpn rnode); auto.
    - (* re-linking: three writes *)
      assert (NPF : exists npn, nth_error h np = Some npn /\ (np = r0 \/ 1 <= n_bp npn) /\
                      np <> rp /\ np <> n /\ (np = r \/ (np <> r /\ linked npn (sd h kk r0 np) n)) /\
                      n_bp nn <= n_bp rnode /\ (n = r0 -> np = r)).
      { destruct (in_dec Nat.eq_dec n (inners T)) as [I | NI].
        - destruct (PN I) as [[npn [Hnp [Bnp Lnp]]] BNP].
          assert (BN : nbp h n <= nbp h r) by (apply PB; rewrite En; apply NP; now rewrite <- En).
          exists npn. split; auto. split; auto. split.
          + intros E. rewrite E, Hrp in Hnp. injection Hnp as <-. rewrite E in Lnp.
            destruct (sd h kk r0 rp); destruct Lnp as [A1 _]; destruct Lrp as [A2 _]; congruence.
          + split; [intros E; rewrite E in BNP; lia|]. split.
            * right. split; auto. intros E. rewrite E in BNP. lia.
            * split; [unfold nbp in BN; now rewrite Hn, Hr in BN|]. intros E. rewrite E in I. contradiction.
        - assert (NPR : np = r).
          { rewrite Enp, nparent_notin by exact NI. pose proof (referrer_lastinner h kk T r0 r0) as Q.
            rewrite Erf in Q. symmetry. exact Q. }
          assert (N0 : n = r0).
          { destruct (leaf_inner_or_root T r0 OW NDl q_nodup0 RL R0I n NL); tauto. }
          exists rnode. rewrite NPR. split; auto. split; [right; lia|]. split; auto. split; auto. split; auto.
          split; auto. rewrite N0 in Hn. rewrite q_rn0 in Hn. injection Hn as <-. lia. }
      destruct NPF as [npn [Hnp [Bnp [NPRP [NPN [LNP [BPN N0NP]]]]]]].
      set (s1 := sd h kk r0 rp) in *. set (s2 := sd h kk r0 np).
      set (RP' := setl rpn s1 (Some co)). set (h1 := hset h rp RP').
      assert (Lrp' : (rp < length h)%nat) by (apply nth_error_Some; congruence).
      assert (H1np : nth_error h1 np = Some npn) by (unfold h1; now rewrite nth_hset_neq by auto).
      set (NP' := setl npn s2 (Some r)). set (h2 := hset h1 np NP').
      assert (L1np : (np < length h1)%nat) by (apply nth_error_Some; congruence).
      set (NN2 := if Nat.eqb n rp then RP' else nn).
      assert (H2n : nth_error h2 n = Some NN2).
      { unfold h2. rewrite nth_hset_neq by auto. unfold h1, NN2. destruct (Nat.eqb_spec n rp) as [E|NE].
        - rewrite E. now apply nth_hset_eq.
        - now rewrite nth_hset_neq by auto. }
      assert (H2r : exists rn2, nth_error h2 r = Some rn2 /\ n_key rn2 = n_key rnode /\ n_val rn2 = n_val rnode).
      { unfold h2. destruct (Nat.eq_dec np r) as [E|NE].
        - rewrite <- E. rewrite nth_hset_eq by exact L1np. exists NP'. split; auto.
          assert (npn = rnode) by congruence. subst npn. split; [apply setl_key | apply setl_val].
        - rewrite nth_hset_neq by auto. unfold h1. rewrite nth_hset_neq by auto. eauto. }
      destruct H2r as [rn2 [H2r [RK RV]]].
      rewrite S1. cbn [rbind]. rewrite (set_eval h rp rpn _ _ Hrp). cbn [rbind].
      fold RP' h1. rewrite (side_eval h1 kk r0 np npn H1np Bnp). cbn [rbind].
      assert (S2E : (if Nat.eqb np r0 then false else PatInv.pbit kk (n_bp npn)) = s2).
      { unfold s2, sd, nbp. now rewrite Hnp. }
      rewrite S2E. rewrite (set_eval h1 np npn _ _ H1np). cbn [rbind]. fold NP' h2.
      unfold hget at 1. rewrite H2n. cbn [rbind]. unfold hget at 1. rewrite H2r. cbn [rbind]. rewrite SZ.
      exists (heapB h n r rp np co rpn npn nn rnode s1 s2), co. split.
      + unfold heapB. fold RP' NP' NN2 h1 h2. rewrite RK, RV. do 2 f_equal. unfold rho.
        destruct (Nat.eqb_spec n r0) as [E|NE].
        * rewrite (N0NP E), E. now rewrite Nat.eqb_refl.
        * now rewrite (proj2 (Nat.eqb_neq r0 n) (fun E => NE (eq_sym E))).
      + apply relinked_B; auto.
  Qed.
End RemH.
