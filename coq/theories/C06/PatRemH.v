(** C06 — Patricia remove, heap level.  [del_core]: any heap [H'] that implements the re-linking
    (hypothesis [G]: every surviving node keeps its bit position and its links except that the link
    of [rp] to the referrer [r] now leads to [r]'s other child, the link of [np] to the target [n]
    now leads to [r], and [r] carries [n]'s position) represents the tree [tdel T]. *)
From Coq Require Import List NArith ZArith Bool Lia Sorted.
From Algo.C06 Require Import Spec SpecFacts Model ModelPat ProofsBinQ PatInv PatBits PatTree PatMatch PatDel PatPut PatRem.
Import ListNotations.
Open Scope Z_scope.

Section RemH.
  Context {V : Type}.
  Notation pnode := (pnode V).
  Notation pstate := (pstate V).
  Notation heap := (list pnode).

  (** distinct inner nodes follow from the representation, ownership and distinct threads *)
  Lemma nodup_inners_derived : forall (h : heap) pbp c T,
    Rep h pbp c T -> owns T -> NoDup (leaves T) -> NoDup (inners T).
  Proof.
    induction 1 as [|pbp c cn l r tl tr Hc LT HL HR Rl IHl Rr IHr]; intros O ND; simpl; [constructor|].
    destruct O as [_ [Ol Or]]. simpl in ND. apply nodup_app_iff in ND as [Nl [Nr D]].
    apply NoDup_cons_iff. split.
    - intros I. apply in_app_or in I as [I | I];
        [pose proof (rep_inner_bp _ _ _ _ Rl c I) as Q | pose proof (rep_inner_bp _ _ _ _ Rr c I) as Q];
        unfold nbp in Q; rewrite Hc in Q; lia.
    - apply nodup_app_iff. split; auto. split; auto. intros x Il Ir.
      apply (D x); now apply owns_inner_leaf.
  Qed.

  Lemma rep_frame_le : forall (h h' : heap) pbp c T, Rep h pbp c T ->
    (forall i, In i (inners T) -> exists n n', nth_error h i = Some n /\ nth_error h' i = Some n' /\ same_shape n n') ->
    (forall j, In j (leaves T) -> exists n n', nth_error h j = Some n /\ nth_error h' j = Some n' /\ n_bp n' <= n_bp n) ->
    Rep h' pbp c T.
  Proof.
    induction 1 as [pbp c cn Hc LE|pbp c cn l r tl tr Hc LT HL HR _ IHl _ IHr]; intros HI HLf.
    - destruct (HLf c) as [n [n' [E1 [E2 E3]]]]; [simpl; auto|]. rewrite Hc in E1. injection E1 as <-.
      apply (RepLeaf h' pbp c n'); auto. lia.
    - destruct (HI c) as [n [n' [E1 [E2 [S1 [S2 S3]]]]]]; [simpl; auto|]. rewrite Hc in E1. injection E1 as <-.
      apply (RepNode h' pbp c n' l r); try congruence; try lia.
      + rewrite S1. apply IHl.
        * intros i Hi. apply HI. simpl. right. apply in_or_app. auto.
        * intros j Hj. apply HLf. simpl. apply in_or_app. auto.
      + rewrite S1. apply IHr.
        * intros i Hi. apply HI. simpl. right. apply in_or_app. auto.
        * intros j Hj. apply HLf. simpl. apply in_or_app. auto.
  Qed.

  (** a subtree can be hung under a parent with a smaller bit position if it stays a thread *)
  Lemma rep_reparent : forall (h : heap) q q' x T, Rep h q x T -> q' <= q ->
    (forall cn, T = PLeaf x -> nth_error h x = Some cn -> n_bp cn <= q') -> Rep h q' x T.
  Proof.
    intros h q q' x T R LE HL. inversion R; subst.
    - eapply RepLeaf; eauto.
    - eapply RepNode; eauto. lia.
  Qed.

  Section Core.
    Variable h H' : heap.
    Variable kk : key.
    Variables n r rp np co r0 : nat.
    Notation B := (nbp h).
    Notation K := (nkey h).

    Definition phi (x : nat) (lk : option nat) : option nat :=
      if Nat.eqb x rp && oeq lk (Some r) then Some co
      else if Nat.eqb x np && oeq lk (Some n) then Some r
      else lk.

    Hypothesis G : forall x xn, nth_error h x = Some xn -> x <> r ->
      exists xn', nth_error H' (rho n r x) = Some xn' /\ n_bp xn' = n_bp xn /\
                  n_left xn' = phi x (n_left xn) /\ n_right xn' = phi x (n_right xn).
    Variable rnode : pnode.
    Hypothesis Hrn : nth_error h r = Some rnode.
    Hypothesis Hco : (if PatInv.pbit kk (n_bp rnode) then n_left rnode else n_right rnode) = Some co.
    Hypothesis Hnb : n = r \/ exists nn, nth_error h n = Some nn /\ n_bp nn <= n_bp rnode.

    Lemma phi_id : forall x lk, x <> rp -> x <> np -> phi x lk = lk.
    Proof.
      intros x lk H1 H2. unfold phi.
      rewrite (proj2 (Nat.eqb_neq x rp) H1), (proj2 (Nat.eqb_neq x np) H2). reflexivity.
    Qed.

    (** subtrees that contain none of the four nodes as inner node and not the removed thread *)
    Lemma del_frame : forall q x X, Rep h q x X ->
      (forall i, In i (inners X) -> i <> n /\ i <> r /\ i <> rp /\ i <> np) -> ~ In n (leaves X) ->
      Rep H' q x X.
    Proof.
      intros q x X R HI HL. apply (rep_frame_le h); auto.
      - intros i Hi. destruct (HI i Hi) as [N1 [N2 [N3 N4]]].
        destruct (rep_valid _ _ _ _ R) as [VI _]. specialize (VI i Hi).
        destruct (nth_error h i) as [xn|] eqn:E; [|apply nth_error_None in E; lia].
        destruct (G i xn E N2) as [xn' [E1 [E2 [E3 E4]]]].
        unfold rho in E1. rewrite (proj2 (Nat.eqb_neq i n) N1) in E1.
        rewrite phi_id in E3, E4 by auto. exists xn, xn'. repeat split; auto.
      - intros j Hj. destruct (rep_valid _ _ _ _ R) as [_ VL]. specialize (VL j Hj).
        destruct (nth_error h j) as [xn|] eqn:E; [|apply nth_error_None in E; lia].
        assert (NJ : j <> n) by (intros ->; contradiction).
        destruct (Nat.eq_dec j r) as [->|NR].
        + destruct Hnb as [EN | [nn [En Eb]]]; [congruence|].
          assert (NNR : n <> r) by congruence.
          destruct (G n nn En NNR) as [xn' [E1 [E2 _]]]. unfold rho in E1. rewrite Nat.eqb_refl in E1.
          rewrite Hrn in E. injection E as <-. exists rnode, xn'. repeat split; auto. lia.
        + destruct (G j xn E NR) as [xn' [E1 [E2 _]]]. unfold rho in E1.
          rewrite (proj2 (Nat.eqb_neq j n) NJ) in E1. exists xn, xn'. repeat split; auto. lia.
    Qed.

    Definition newlink (S : ptree) (x0 : nat) : nat :=
      match S with
      | PNode i l rr => if is_leaf (pchild B kk i l rr) then co else rho n r x0
      | PLeaf _ => x0
      end.

    Lemma rep_rootid : forall q x X, Rep h q x X ->
      (X = PLeaf x) \/ (exists a b, X = PNode x a b).
    Proof. intros q x X R. inversion R; subst; eauto. Qed.

    Lemma referrer_in : forall T a b, is_leaf T = false -> In (snd (referrer h (ByKey kk) T a b)) (inners T).
    Proof.
      induction T as [i|i l IHl rr IHr]; intros a b H; [discriminate|]. cbn [referrer dside].
      destruct (PatInv.pbit kk (B i)).
      - destruct rr as [j|j x y]; [simpl; auto|]. cbn [inners]. right. apply in_or_app. right. now apply IHr.
      - destruct l as [j|j x y]; [simpl; auto|]. cbn [inners]. right. apply in_or_app. left. now apply IHl.
    Qed.

    (** the root id of an off-path subtree is neither the referrer nor the target *)
    Lemma off_root : forall q x X Y (j : nat),
      Rep h q x X -> owns Y -> In j (inners Y) \/ In j (leaves Y) ->
      (forall y, In y (leaves X) -> In y (leaves Y) -> False) ->
      (forall y, In y (inners X) -> In y (inners Y) -> False) ->
      (In j (inners Y) -> True) -> (In j (leaves Y) \/ In j (inners Y)) ->
      (In j (inners X) -> False) -> (In j (leaves X) -> False) -> x <> j.
    Proof.
      intros q x X Y j R _ _ _ _ _ _ NI NL E. subst.
      destruct (rep_rootid _ _ _ R) as [-> | [a [b ->]]]; [apply NL | apply NI]; simpl; auto.
    Qed.

    Lemma del_core : forall S pbp x0, Rep h pbp x0 S -> forall p pp pn A,
      is_leaf S = false ->
      nth_error h p = Some pn -> n_bp pn = pbp ->
      ts B kk S = n -> referrer h (ByKey kk) S pp p = (rp, r) ->
      (In n (inners S) -> nparent h (ByKey kk) n S p = np) ->
      NoDup (inners S) -> NoDup (leaves S) -> owns S -> tbits B K S ->
      ~ In p (inners S) -> (forall a, In a A -> ~ In a (inners S)) -> ~ In r0 (inners S) ->
      (forall j, In j (leaves S) -> j = r0 \/ j = p \/ In j A \/ In j (inners S)) ->
      (forall a, a = r0 \/ a = p \/ In a A -> exists an, nth_error h a = Some an /\ n_bp an <= pbp) ->
      (forall j, In j [n; r; rp; np] -> j = r0 \/ j = p \/ In j A \/ In j (pathin B kk S)) ->
      Rep H' pbp (newlink S x0) (tdel B kk n r S) /\ phi p (Some x0) = Some (newlink S x0).
    Proof.
      induction 1 as [|pbp c cn l rl tl tr Hc LT HL HR Rl IHl Rr IHr];
        intros p pp pn A NLf Hp Hb Hn Hrf Hnp NDi NDl OW TB NPi NAi NR0 LV BP P4; [discriminate|].
      assert (NB : B c = n_bp cn) by (unfold nbp; now rewrite Hc).
      pose proof TB as [B1 [L0 [R1 [AGT [Tl Tr]]]]]. destruct OW as [OI [Ol Or]].
      simpl in NDi. apply NoDup_cons_iff in NDi as [NCi NDi]. apply nodup_app_iff in NDi as [NIl [NIr DI]].
      rewrite in_app_iff in NCi. simpl in NDl. apply nodup_app_iff in NDl as [NLl [NLr DL]].
      cbn [ts referrer nparent dside tdel newlink pathin] in *. rewrite NB in *.
      (* nodes of the path set are no inner nodes of an off-path subtree *)
      assert (P4off : forall X, (forall y, In y (inners X) -> In y (inners (PNode c tl tr))) ->
                (forall y, In y (inners X) -> y <> c) ->
                (forall y, In y (inners X) -> ~ In y (pathin B kk (pchild B kk c tl tr))) ->
                forall i, In i (inners X) -> i <> n /\ i <> r /\ i <> rp /\ i <> np).
      { intros X SUB NC NP i Hi.
        assert (Q : forall j, In j [n; r; rp; np] -> i <> j).
        { intros j Hj ->. destruct (P4 j Hj) as [-> | [-> | [HA | [<- | HP]]]].
          - apply NR0. now apply SUB.
          - apply NPi. now apply SUB.
          - apply (NAi j HA). now apply SUB.
          - now apply (NC c Hi).
          - exact (NP j Hi HP). }
        repeat split; apply Q; simpl; auto. }
      destruct (PatInv.pbit kk (n_bp cn)) eqn:EB.
      - (* the path goes right *)
        assert (PC : pchild B kk c tl tr = tr) by (unfold pchild; now rewrite NB, EB). rewrite PC in *.
        assert (OFFL : forall i, In i (inners tl) -> i <> n /\ i <> r /\ i <> rp /\ i <> np).
        { apply P4off.
          - intros y Hy. simpl. right. apply in_or_app. auto.
          - intros y Hy ->. tauto.
          - intros y Hy HP. apply (DI y Hy). now apply (pathin_inners B kk). }
        assert (NnL : ~ In n (leaves tl)).
        { intros F. apply (DL n F). rewrite <- Hn. apply ts_in. }
        destruct tr as [j0|j0 ta tb]; cbn [is_leaf].
        + (* c is the referrer: it is dropped and replaced by its left child *)
          cbn [referrer] in Hrf. injection Hrf as Erp Er. simpl in Hn. subst j0 p c.
          assert (RC : rnode = cn) by congruence. subst cn.
          assert (CO : l = co) by (pose proof Hco as Q; rewrite EB, HL in Q; congruence). subst l.
          split.
          * apply (rep_reparent H' (n_bp rnode)); [now apply del_frame | lia |].
            intros ln' -> Hl'. (* a thread that moves up *)
            assert (LN : co <> n) by (intros ->; apply NnL; simpl; auto).
            destruct (Nat.eq_dec co r) as [EC|LC].
            -- (* the referrer's thread to itself: it carries the target's bit position afterwards *)
               destruct Hnb as [EN | [nn [En Eb]]]; [congruence|].
               destruct (G n nn En) as [xn' [E1 [E2 _]]]; [congruence|].
               unfold rho in E1. rewrite Nat.eqb_refl in E1. rewrite EC, E1 in Hl'. injection Hl' as <-.
               assert (Q : n = r0 \/ n = rp \/ In n A).
               { destruct (P4 n) as [EQ | [EQ | [HA | HP]]]; simpl; auto.
                 simpl in HP. destruct HP as [EQ | []]. congruence. }
               destruct (BP n) as [an [Ea Eb2]]; [tauto|]. rewrite En in Ea. injection Ea as <-. lia.
            -- assert (Q : co = r0 \/ co = rp \/ In co A).
               { destruct (LV co) as [EQ | [EQ | [HA | [EQ | HI]]]]; simpl; auto; try congruence.
                 simpl in HI. contradiction. }
               destruct (BP co) as [an [Ea Eb2]]; [tauto|]. destruct (G co an Ea LC) as [xn' [E1 [E2 _]]].
               unfold rho in E1. rewrite (proj2 (Nat.eqb_neq _ _) LN) in E1. rewrite E1 in Hl'. injection Hl' as <-. lia.
          * unfold phi. rewrite Nat.eqb_refl. simpl. now rewrite Nat.eqb_refl.
        + (* c stays (possibly renamed); the path continues below its right child *)
          set (tr := PNode j0 ta tb) in *.
          assert (IRr : In r (inners tr)).
          { pose proof (referrer_in tr p c eq_refl) as Q. rewrite Hrf in Q. exact Q. }
          assert (CR : c <> r) by (intros ->; tauto).
          destruct (IHr c p cn (p :: A)) as [RP PH]; auto.
          { intros I. assert (I2 : In n (inners (PNode c tl tr))) by (simpl; right; apply in_or_app; auto).
            pose proof (Hnp I2) as Q. destruct (Nat.eqb_spec c n) as [EQ|_]; [subst c; tauto | exact Q]. }
          { intros a [<- | HA] I; [apply NPi | apply (NAi a HA)]; simpl; right; apply in_or_app; auto. }
          { intros I. apply NR0. simpl. right. apply in_or_app. auto. }
          { intros j Hj. destruct (LV j) as [-> | [-> | [HA | HI]]]; simpl; auto.
            - apply in_or_app. auto.
            - simpl in HI. destruct HI as [<- | HI]; auto. apply in_app_or in HI as [HI | HI]; auto.
              exfalso. apply (DL j); auto. now apply owns_inner_leaf. }
          { intros a [-> | [-> | [<- | HA]]].
            - destruct (BP r0) as [an [Ea Eb2]]; auto. exists an. split; auto. lia.
            - exists cn. split; auto. lia.
            - destruct (BP p) as [an [Ea Eb2]]; auto. exists an. split; auto. lia.
            - destruct (BP a) as [an [Ea Eb2]]; auto. exists an. split; auto. lia. }
          { intros j Hj. destruct (P4 j Hj) as [-> | [-> | [HA | [<- | HP]]]]; simpl; auto. }
          destruct (G c cn Hc CR) as [cn' [E1 [E2 [E3 E4]]]].
          (* the left link of c is untouched *)
          assert (LR : l <> r).
          { intros ->. destruct (rep_rootid _ _ _ Rl) as [EQ | [a [b EQ]]]; rewrite EQ in *.
            - apply (DL r); [simpl; auto | exact (owns_inner_leaf tr r Or IRr)].
            - apply (DI r); [simpl; auto | exact IRr]. }
          assert (LNn : l <> n).
          { intros ->. destruct (rep_rootid _ _ _ Rl) as [EQ | [a [b EQ]]]; rewrite EQ in *.
            - apply NnL. simpl. auto.
            - destruct (OFFL n) as [Q _]; simpl; auto. }
          assert (PL : phi c (Some l) = Some l).
          { unfold phi. simpl. rewrite (proj2 (Nat.eqb_neq l r) LR), (proj2 (Nat.eqb_neq l n) LNn).
            rewrite !andb_false_r. reflexivity. }
          split.
          * apply (RepNode H' pbp (rho n r c) cn' l (newlink tr rl)); try congruence; try lia;
              rewrite E2; first [exact RP | now apply del_frame].
          * unfold phi. simpl. rewrite (proj2 (Nat.eqb_neq c r) CR), andb_false_r. unfold rho.
            destruct (Nat.eqb_spec c n) as [->|CN].
            -- rewrite andb_true_r. rewrite <- Hnp by (simpl; auto). simpl. rewrite !Nat.eqb_refl. reflexivity.
            -- now rewrite andb_false_r.
      - (* the path goes left *)
        assert (PC : pchild B kk c tl tr = tl) by (unfold pchild; now rewrite NB, EB). rewrite PC in *.
        assert (OFFR : forall i, In i (inners tr) -> i <> n /\ i <> r /\ i <> rp /\ i <> np).
        { apply P4off.
          - intros y Hy. simpl. right. apply in_or_app. auto.
          - intros y Hy ->. tauto.
          - intros y Hy HP. apply (DI y); [now apply (pathin_inners B kk) | exact Hy]. }
        assert (NnR : ~ In n (leaves tr)).
        { intros F. apply (DL n); [rewrite <- Hn; apply ts_in | exact F]. }
        destruct tl as [j0|j0 ta tb]; cbn [is_leaf].
        + (* c is the referrer: it is dropped and replaced by its right child *)
          cbn [referrer] in Hrf. injection Hrf as Erp Er. simpl in Hn. subst j0 p c.
          assert (RC : rnode = cn) by congruence. subst cn.
          assert (CO : rl = co) by (pose proof Hco as Q; rewrite EB, HR in Q; congruence). subst rl.
          split.
          * apply (rep_reparent H' (n_bp rnode)); [now apply del_frame | lia |].
            intros ln' -> Hl'. (* a thread that moves up *)
            assert (LN : co <> n) by (intros ->; apply NnR; simpl; auto).
            destruct (Nat.eq_dec co r) as [EC|LC].
            -- (* the referrer's thread to itself: it carries the target's bit position afterwards *)
               destruct Hnb as [EN | [nn [En Eb]]]; [congruence|].
               destruct (G n nn En) as [xn' [E1 [E2 _]]]; [congruence|].
               unfold rho in E1. rewrite Nat.eqb_refl in E1. rewrite EC, E1 in Hl'. injection Hl' as <-.
               assert (Q : n = r0 \/ n = rp \/ In n A).
               { destruct (P4 n) as [EQ | [EQ | [HA | HP]]]; simpl; auto.
                 simpl in HP. destruct HP as [EQ | []]. congruence. }
               destruct (BP n) as [an [Ea Eb2]]; [tauto|]. rewrite En in Ea. injection Ea as <-. lia.
            -- assert (Q : co = r0 \/ co = rp \/ In co A).
               { destruct (LV co) as [EQ | [EQ | [HA | [EQ | HI]]]]; simpl; auto; try congruence.
                 simpl in HI. contradiction. }
               destruct (BP co) as [an [Ea Eb2]]; [tauto|]. destruct (G co an Ea LC) as [xn' [E1 [E2 _]]].
               unfold rho in E1. rewrite (proj2 (Nat.eqb_neq _ _) LN) in E1. rewrite E1 in Hl'. injection Hl' as <-. lia.
          * unfold phi. rewrite Nat.eqb_refl. simpl. now rewrite Nat.eqb_refl.
        + (* c stays (possibly renamed); the path continues below its left child *)
          set (tl := PNode j0 ta tb) in *.
          assert (IRl : In r (inners tl)).
          { pose proof (referrer_in tl p c eq_refl) as Q. rewrite Hrf in Q. exact Q. }
          assert (CR : c <> r) by (intros ->; tauto).
          destruct (IHl c p cn (p :: A)) as [RP PH]; auto.
          { intros I. assert (CN : c <> n) by (intros ->; tauto).
            pose proof Hnp as Q. rewrite (proj2 (Nat.eqb_neq c n) CN) in Q. apply Q.
            right. apply in_or_app. left. exact I. }
          { intros a [<- | HA] I; [apply NPi | apply (NAi a HA)]; right; apply (in_or_app (inners tl) (inners tr)); left; exact I. }
          { intros I. apply NR0. right. apply (in_or_app (inners tl) (inners tr)). left. exact I. }
          { intros j Hj.
            assert (Hj2 : In j (leaves (PNode c tl tr))) by (apply (in_or_app (leaves tl) (leaves tr)); left; exact Hj).
            destruct (LV j Hj2) as [EQ | [EQ | [HA | HI]]].
            - auto.
            - right. right. left. left. auto.
            - right. right. left. right. exact HA.
            - destruct HI as [EQ | HI]; [auto|].
              apply (in_app_or (inners tl) (inners tr)) in HI as [HI | HI]; [auto 6|].
              exfalso. apply (DL j); [exact Hj | exact (owns_inner_leaf tr j Or HI)]. }
          { intros a [-> | [-> | [<- | HA]]].
            - destruct (BP r0) as [an [Ea Eb2]]; auto. exists an. split; auto. lia.
            - exists cn. split; auto. lia.
            - destruct (BP p) as [an [Ea Eb2]]; auto. exists an. split; auto. lia.
            - destruct (BP a) as [an [Ea Eb2]]; auto. exists an. split; auto. lia. }
          { intros j Hj. destruct (P4 j Hj) as [-> | [-> | [HA | [<- | HP]]]]; simpl; auto. }
          destruct (G c cn Hc CR) as [cn' [E1 [E2 [E3 E4]]]].
          (* the right link of c is untouched *)
          assert (LR : rl <> r).
          { intros ->. destruct (rep_rootid _ _ _ Rr) as [EQ | [a [b EQ]]]; rewrite EQ in *.
            - apply (DL r); [exact (owns_inner_leaf tl r Ol IRl) | simpl; auto].
            - apply (DI r); [exact IRl | simpl; auto]. }
          assert (LNn : rl <> n).
          { intros ->. destruct (rep_rootid _ _ _ Rr) as [EQ | [a [b EQ]]]; rewrite EQ in *.
            - apply NnR. simpl. auto.
            - destruct (OFFR n) as [Q _]; simpl; auto. }
          assert (PL : phi c (Some rl) = Some rl).
          { unfold phi. simpl. rewrite (proj2 (Nat.eqb_neq rl r) LR), (proj2 (Nat.eqb_neq rl n) LNn).
            rewrite !andb_false_r. reflexivity. }
          split.
          * apply (RepNode H' pbp (rho n r c) cn' (newlink tl l) rl); try congruence; try lia;
              rewrite E2; first [exact RP | now apply del_frame].
          * unfold phi. simpl. rewrite (proj2 (Nat.eqb_neq c r) CR), andb_false_r. unfold rho.
            destruct (Nat.eqb_spec c n) as [->|CN].
            -- rewrite andb_true_r. rewrite <- Hnp by (simpl; auto). simpl. rewrite !Nat.eqb_refl. reflexivity.
            -- now rewrite andb_false_r.
    Qed.
  End Core.
End RemH.
