(** C06 — the binary trie model refines the sorted-map specification: traversals, every query,
    and the refinement theorem over all histories. *)
From Coq Require Import List NArith ZArith Bool Lia Sorted.
From Algo.C06 Require Import Spec SpecFacts Model ProofsBin.
Import ListNotations.

Section Queries.
  Context {V : Type}.
  Notation node := (node V).
  Notation smap := (smap V).

  (** ** traversals as folds with early exit over the list of all nodes *)
  Definition conso (c : byte) (e : key * option V) : key * option V := (c :: fst e, snd e).
  Definition pre {A : Type} (p : key) (e : key * A) : key * A := (p ++ fst e, snd e).

  Fixpoint nodes (n : node) : list (key * option V) :=
    match n with
    | Nil => []
    | Node c v l r => ([c], v) :: map (conso c) (nodes l) ++ nodes r
    end.

  Fixpoint fold_visit {S : Type} (visit : S -> key -> option V -> S * bool)
           (l : list (key * option V)) (s : S) : S * bool :=
    match l with
    | [] => (s, true)
    | e :: l' => let (s1, go) := visit s (fst e) (snd e) in
                 if go then fold_visit visit l' s1 else (s1, false)
    end.

  Lemma fold_visit_app : forall S (visit : S -> key -> option V -> S * bool) l1 l2 s,
    fold_visit visit (l1 ++ l2) s =
      let (s1, go) := fold_visit visit l1 s in if go then fold_visit visit l2 s1 else (s1, false).
  Proof.
    induction l1 as [|e l1 IH]; intros l2 s; simpl.
    - reflexivity.
    - destruct (visit s (fst e) (snd e)) as [s1 [|]]; auto.
  Qed.

  Lemma map_pre_conso : forall prefix c (l : list (key * option V)),
    map (pre prefix) (map (conso c) l) = map (pre (prefix ++ [c])) l.
  Proof.
    intros. rewrite map_map. apply map_ext. intros [k v]. unfold pre, conso. simpl.
    now rewrite <- app_assoc.
  Qed.

  Lemma traverse_asc : forall S (visit : S -> key -> option V -> S * bool) n prefix s,
    b_traverse Asc visit n prefix s = fold_visit visit (map (pre prefix) (nodes n)) s.
  Proof.
    induction n as [|c v l IHl r IHr]; intros prefix s; simpl; auto.
    destruct (visit s (prefix ++ [c]) v) as [s1 [|]]; auto.
    rewrite map_app, fold_visit_app, map_pre_conso, <- IHl.
    destruct (b_traverse Asc visit l (prefix ++ [c]) s1) as [s2 [|]]; auto.
  Qed.

  Lemma traverse_desc : forall S (visit : S -> key -> option V -> S * bool) n prefix s,
    b_traverse Desc visit n prefix s = fold_visit visit (rev (map (pre prefix) (nodes n))) s.
  Proof.
    induction n as [|c v l IHl r IHr]; intros prefix s; simpl; auto.
    rewrite map_app, rev_app_distr, <- app_assoc, fold_visit_app, <- IHr.
    destruct (b_traverse Desc visit r prefix s) as [s1 [|]]; auto.
    rewrite fold_visit_app, map_pre_conso, <- IHl.
    destruct (b_traverse Desc visit l (prefix ++ [c]) s1) as [s2 [|]]; auto.
    unfold pre. simpl. destruct (visit s2 (prefix ++ [c]) v) as [s3 [|]]; auto.
  Qed.

  (** ** restriction to the terminal nodes *)
  Fixpoint terms (l : list (key * option V)) : smap :=
    match l with
    | [] => []
    | (k, Some x) :: l' => (k, x) :: terms l'
    | (_, None) :: l' => terms l'
    end.

  Fixpoint fold_kv {S : Type} (f : S -> key * V -> S * bool) (l : smap) (s : S) : S * bool :=
    match l with
    | [] => (s, true)
    | e :: l' => let (s1, go) := f s e in if go then fold_kv f l' s1 else (s1, false)
    end.

  Lemma fold_kv_ext : forall S (f g : S -> key * V -> S * bool) l s,
    (forall s e, f s e = g s e) -> fold_kv f l s = fold_kv g l s.
  Proof.
    induction l as [|e l IH]; intros s H; simpl; auto. rewrite H. destruct (g s e) as [s1 [|]]; auto.
  Qed.

  Lemma fold_visit_terms : forall S (visit : S -> key -> option V -> S * bool) l s,
    (forall s k, visit s k None = (s, true)) ->
    fold_visit visit l s = fold_kv (fun s e => visit s (fst e) (Some (snd e))) (terms l) s.
  Proof.
    induction l as [|[k [x|]] l IH]; intros s H; simpl; auto.
    - destruct (visit s k (Some x)) as [s1 [|]]; auto.
    - rewrite H. auto.
  Qed.

  Lemma terms_app : forall l1 l2, terms (l1 ++ l2) = terms l1 ++ terms l2.
  Proof.
    induction l1 as [|[k [x|]] l1 IH]; intros; simpl; auto. now rewrite IH.
  Qed.

  Lemma terms_rev : forall l, terms (rev l) = rev (terms l).
  Proof.
    induction l as [|[k [x|]] l IH]; simpl; auto; rewrite terms_app, IH; simpl; auto. apply app_nil_r.
  Qed.

  Lemma terms_conso : forall c l, terms (map (conso c) l) = map (consk c) (terms l).
  Proof.
    induction l as [|[k [x|]] l IH]; simpl; auto. now rewrite IH.
  Qed.

  Lemma terms_nodes : forall n, terms (nodes n) = contents n.
  Proof.
    induction n as [|c v l IHl r IHr]; simpl; auto.
    rewrite terms_app, terms_conso, IHl, IHr. destruct v; reflexivity.
  Qed.

  Lemma map_pre_nil : forall A (l : list (key * A)), map (pre []) l = l.
  Proof. intros. rewrite <- (map_id l) at 2. apply map_ext. now intros []. Qed.

  (** a query that ignores non-terminal nodes is a fold over the contents *)
  Lemma query_asc : forall S (visit : S -> key -> option V -> S * bool) n s,
    (forall s k, visit s k None = (s, true)) ->
    b_traverse Asc visit n [] s = fold_kv (fun s e => visit s (fst e) (Some (snd e))) (contents n) s.
  Proof.
    intros. rewrite traverse_asc, map_pre_nil, fold_visit_terms by assumption. now rewrite terms_nodes.
  Qed.

  Lemma query_desc : forall S (visit : S -> key -> option V -> S * bool) n s,
    (forall s k, visit s k None = (s, true)) ->
    b_traverse Desc visit n [] s = fold_kv (fun s e => visit s (fst e) (Some (snd e))) (rev (contents n)) s.
  Proof.
    intros. rewrite traverse_desc, map_pre_nil, fold_visit_terms by assumption.
    now rewrite terms_rev, terms_nodes.
  Qed.

  (** ** folds with early exit on lists where "stop" is monotone *)
  Definition mono (stop : key * V -> bool) (l : smap) : Prop :=
    StronglySorted (fun e1 e2 => stop e1 = true -> stop e2 = true) l.

  Lemma mono_cons_inv : forall stop e l, mono stop (e :: l) ->
    mono stop l /\ (stop e = true -> forall x, In x l -> stop x = true).
  Proof.
    intros stop e l H. inversion H as [|? ? H1 H2]; subst. split; auto.
    intros E x Hx. rewrite Forall_forall in H2. auto.
  Qed.

  Lemma filter_none : forall A (f : A -> bool) l, (forall x, In x l -> f x = false) -> filter f l = [].
  Proof.
    induction l as [|x l IH]; intros H; simpl; auto. rewrite (H x) by (simpl; auto).
    apply IH. intros. apply H. simpl; auto.
  Qed.

  Lemma filter_all : forall A (f : A -> bool) l, (forall x, In x l -> f x = true) -> filter f l = l.
  Proof.
    induction l as [|x l IH]; intros H; simpl; auto. rewrite (H x) by (simpl; auto).
    f_equal. apply IH. intros. apply H. simpl; auto.
  Qed.

  Lemma filter_rev_comm : forall A (f : A -> bool) l, rev (filter f l) = filter f (rev l).
  Proof.
    induction l as [|x l IH]; simpl; auto. rewrite filter_app. simpl.
    destruct (f x); simpl; rewrite IH; auto using app_nil_r.
  Qed.

  Lemma last_error_cons : forall A (x : A) l,
    last_error (x :: l) = match last_error l with Some y => Some y | None => Some x end.
  Proof.
    intros A x [|y l]; [reflexivity|]. change (last_error (x :: y :: l)) with (last_error (y :: l)).
    destruct (last_error (y :: l)) eqn:E; auto. apply last_error_none in E. discriminate.
  Qed.

  Lemma sorted_mono_asc : forall (stop : key * V -> bool) (l : smap),
    sorted l -> (forall e1 e2, elt e1 e2 -> stop e1 = true -> stop e2 = true) -> mono stop l.
  Proof.
    intros stop l S H. induction S as [|e l S IH F]; constructor; auto.
    rewrite Forall_forall in *. intros x Hx. apply H. auto.
  Qed.

  Lemma sorted_rev : forall l : smap, sorted l -> StronglySorted (fun e1 e2 => elt e2 e1) (rev l).
  Proof.
    induction l as [|e l IH]; simpl; intros S; [constructor|].
    apply sorted_cons_inv in S as [S F]. rewrite Forall_forall in F.
    assert (G : forall l1 : smap, StronglySorted (fun e1 e2 => elt e2 e1) l1 ->
                  (forall x, In x l1 -> elt e x) -> StronglySorted (fun e1 e2 => elt e2 e1) (l1 ++ [e])).
    { induction l1 as [|y l1 IH1]; simpl; intros S1 H1; [repeat constructor|].
      inversion S1 as [|? ? S2 F2]; subst. constructor; auto.
      apply Forall_app. split; auto. }
    apply G; auto. intros x Hx. apply F. now apply in_rev.
  Qed.

  Lemma sorted_mono_desc : forall (stop : key * V -> bool) (l : smap),
    sorted l -> (forall e1 e2, elt e2 e1 -> stop e1 = true -> stop e2 = true) -> mono stop (rev l).
  Proof.
    intros stop l S H. apply sorted_rev in S. induction S as [|e l' S IH F]; constructor; auto.
    rewrite Forall_forall in *. intros x Hx. apply H. auto.
  Qed.

  (** remember the last entry before the first stop (Floor, Ceiling) *)
  Lemma fold_last_before_stop : forall (stop : key * V -> bool) l s,
    mono stop l ->
    fst (fold_kv (fun s e => if stop e then (s, false) else (Some e, true)) l s) =
      match last_error (filter (fun e => negb (stop e)) l) with Some e => Some e | None => s end.
  Proof.
    induction l as [|e l IH]; intros s M; [reflexivity|].
    apply mono_cons_inv in M as [M ST]. cbn [fold_kv filter]. destruct (stop e) eqn:E; cbn [negb fst].
    - rewrite filter_none; auto. intros x Hx. now rewrite (ST eq_refl x Hx).
    - rewrite last_error_cons, IH by assumption.
      destruct (last_error (filter (fun e0 => negb (stop e0)) l)); reflexivity.
  Qed.

  (** count the entries before the first stop (Rank) *)
  Lemma fold_count_before_stop : forall (stop : key * V -> bool) l i,
    mono stop l ->
    fst (fold_kv (fun (i : Z) e => if stop e then (i, false) else ((i + 1)%Z, true)) l i) =
      (i + Z.of_nat (length (filter (fun e => negb (stop e)) l)))%Z.
  Proof.
    induction l as [|e l IH]; intros i M; simpl; [lia|].
    apply mono_cons_inv in M as [M ST]. destruct (stop e) eqn:E; simpl.
    - rewrite filter_none; [simpl; lia|]. intros x Hx. now rewrite (ST eq_refl x Hx).
    - rewrite IH by assumption. lia.
  Qed.

  (** collect / count the entries in range until the first stop (Range, RangeSize) *)
  Lemma fold_collect_until_stop : forall (inr stop : key * V -> bool) l acc,
    mono stop l -> (forall e, stop e = true -> inr e = false) ->
    fst (fold_kv (fun (kvs : smap) e => if inr e then (kvs ++ [e], true)
                                        else if stop e then (kvs, false) else (kvs, true)) l acc) =
      acc ++ filter inr l.
  Proof.
    induction l as [|e l IH]; intros acc M H; simpl; [now rewrite app_nil_r|].
    apply mono_cons_inv in M as [M ST]. destruct (inr e) eqn:E.
    - rewrite IH by assumption. now rewrite <- app_assoc.
    - destruct (stop e) eqn:E2; simpl.
      + rewrite filter_none; [now rewrite app_nil_r|]. intros x Hx. apply H. now apply ST.
      + now apply IH.
  Qed.

  Lemma fold_count_until_stop : forall (inr stop : key * V -> bool) l i,
    mono stop l -> (forall e, stop e = true -> inr e = false) ->
    fst (fold_kv (fun (i : Z) e => if inr e then ((i + 1)%Z, true)
                                   else if stop e then (i, false) else (i, true)) l i) =
      (i + Z.of_nat (length (filter inr l)))%Z.
  Proof.
    induction l as [|e l IH]; intros i M H; simpl; [lia|].
    apply mono_cons_inv in M as [M ST]. destruct (inr e) eqn:E.
    - rewrite IH by assumption. simpl length. lia.
    - destruct (stop e) eqn:E2; simpl.
      + rewrite filter_none; [simpl; lia|]. intros x Hx. apply H. now apply ST.
      + now apply IH.
  Qed.

  Lemma fold_collect_all : forall l (acc : smap),
    fst (fold_kv (fun (kvs : smap) e => (kvs ++ [e], true)) l acc) = acc ++ l.
  Proof.
    induction l as [|e l IH]; intros acc; simpl; [now rewrite app_nil_r|].
    rewrite IH. now rewrite <- app_assoc.
  Qed.

  Lemma fold_select : forall rank l i,
    (i <= rank)%Z ->
    snd (fst (fold_kv (fun (s : Z * option (key * V)) e =>
                         if (fst s =? rank)%Z then ((fst s, Some e), false)
                         else ((fst s + 1)%Z, snd s, true)) l (i, None))) =
      nth_error l (Z.to_nat (rank - i)).
  Proof.
    induction l as [|e l IH]; intros i H; simpl.
    - now destruct (Z.to_nat (rank - i)).
    - destruct (Z.eqb_spec i rank) as [->|NE]; simpl.
      + now rewrite Z.sub_diag.
      + rewrite IH by lia. replace (Z.to_nat (rank - i)) with (S (Z.to_nat (rank - (i + 1)))) by lia.
        reflexivity.
  Qed.

  (** ** the traversal queries *)
  Section WithState.
    Variable t : bstate V.
    Variable m : smap.
    Hypothesis WF : wfb None (broot t).
    Hypothesis CT : contents (broot t) = m.
    Hypothesis SZ : bsize t = Z.of_nat (length m).

    Lemma m_sorted : sorted m.
    Proof. rewrite <- CT. eapply contents_sorted; eauto. Qed.

    Lemma b_min_correct : b_min t = s_min m.
    Proof.
      unfold b_min, s_min. rewrite query_asc by reflexivity. rewrite CT. destruct m as [|[k x] l]; reflexivity.
    Qed.

    Lemma b_max_correct : b_max t = s_max m.
    Proof.
      unfold b_max, s_max. rewrite query_desc by reflexivity. rewrite CT.
      rewrite <- (rev_involutive m) at 2. rewrite last_error_rev.
      destruct (rev m) as [|[k x] l]; reflexivity.
    Qed.

    Lemma b_floor_correct : forall k, b_floor k t = s_floor k m.
    Proof.
      intros k. unfold b_floor, s_floor. rewrite query_asc by reflexivity. rewrite CT.
      rewrite (fold_kv_ext _ _ (fun s e => if kltb k (fst e) then (s, false) else (Some e, true))).
      - rewrite fold_last_before_stop.
        + rewrite (filter_ext _ (fun e => kleb (fst e) k)) by (intros; now rewrite kleb_nlt).
          now destruct (last_error (filter (fun e => kleb (fst e) k) m)).
        + apply sorted_mono_asc; [apply m_sorted|]. intros e1 e2 L. rewrite !kltb_lt. intros. eapply klt_trans; eauto.
      - intros s [k' x]. reflexivity.
    Qed.
    Lemma b_ceiling_correct : forall k, b_ceiling k t = s_ceiling k m.
    Proof.
      intros k. unfold b_ceiling, s_ceiling. rewrite query_desc by reflexivity. rewrite CT.
      rewrite (fold_kv_ext _ _ (fun s e => if kltb (fst e) k then (s, false) else (Some e, true))).
      - rewrite fold_last_before_stop.
        + rewrite (filter_ext _ (fun e => kleb k (fst e))) by (intros; now rewrite kleb_nlt).
          rewrite <- filter_rev_comm, last_error_rev.
          now destruct (hd_error (filter (fun e => kleb k (fst e)) m)).
        + apply sorted_mono_desc; [apply m_sorted|]. intros e1 e2 L. rewrite !kltb_lt. intros. eapply klt_trans; eauto.
      - intros s [k' x]. reflexivity.
    Qed.

    Lemma b_select_correct : forall i, b_select i t = s_select i m.
    Proof.
      intros i. unfold b_select, s_select. rewrite SZ.
      destruct (Z.ltb_spec i 0) as [NEG|POS]; simpl; auto.
      destruct (Z.leb_spec (Z.of_nat (length m)) i) as [BIG|SMALL].
      - symmetry. apply (proj2 (nth_error_None _ _)). apply Nat2Z.inj_le. rewrite Z2Nat.id by exact POS. exact BIG.
      - rewrite query_asc by reflexivity. rewrite CT.
        rewrite (fold_kv_ext _ _ (fun (s : Z * option (key * V)) e =>
                         if (fst s =? i)%Z then ((fst s, Some e), false)
                         else ((fst s + 1)%Z, snd s, true))).
        + rewrite fold_select by lia. now rewrite Z.sub_0_r.
        + intros s0 [k' x]. reflexivity.
    Qed.

    Lemma b_rank_correct : forall k, b_rank k t = s_rank k m.
    Proof.
      intros k. unfold b_rank, s_rank. rewrite query_asc by reflexivity. rewrite CT.
      rewrite (fold_count_before_stop (fun e => kleb k (fst e))).
      - rewrite (filter_ext _ (fun e => kltb (fst e) k)); [lia|].
        intros e. rewrite kleb_nlt. now rewrite negb_involutive.
      - apply sorted_mono_asc; [apply m_sorted|]. intros e1 e2 L. rewrite !kleb_le. intros [H | ->].
        + left. eapply klt_trans; eauto.
        + now left.
    Qed.

    Lemma range_stop : forall lo hi (e : key * V),
      kltb hi (fst e) = true -> kleb lo (fst e) && kleb (fst e) hi = false.
    Proof. intros lo hi e H. rewrite (kleb_nlt (fst e) hi), H. simpl. apply andb_false_r. Qed.

    Lemma hi_mono : forall hi, mono (fun e : key * V => kltb hi (fst e)) m.
    Proof.
      intros hi. apply sorted_mono_asc; [apply m_sorted|]. intros e1 e2 L. rewrite !kltb_lt. intros.
      eapply klt_trans; eauto.
    Qed.

    Lemma b_range_correct : forall lo hi, b_range lo hi t = s_range lo hi m.
    Proof.
      intros lo hi. unfold b_range, s_range. rewrite query_asc by reflexivity. rewrite CT.
      rewrite (fold_kv_ext _ _ (fun (kvs : smap) e =>
                 if (fun e => kleb lo (fst e) && kleb (fst e) hi) e then (kvs ++ [e], true)
                 else if (fun e => kltb hi (fst e)) e then (kvs, false) else (kvs, true))).
      - rewrite fold_collect_until_stop; auto using hi_mono, range_stop.
      - intros s [k' x]. reflexivity.
    Qed.

    Lemma b_rangesize_correct : forall lo hi, b_rangesize lo hi t = s_rangesize lo hi m.
    Proof.
      intros lo hi. unfold b_rangesize, s_rangesize, s_range. rewrite query_asc by reflexivity. rewrite CT.
      rewrite (fold_count_until_stop (fun e => kleb lo (fst e) && kleb (fst e) hi) (fun e => kltb hi (fst e)));
        auto using hi_mono, range_stop.
    Qed.

    Lemma b_all_correct : b_all t = m.
    Proof.
      unfold b_all. rewrite query_asc by reflexivity. rewrite CT.
      rewrite (fold_kv_ext _ _ (fun (kvs : smap) e => (kvs ++ [e], true))).
      - now rewrite fold_collect_all.
      - intros s [k' x]. reflexivity.
    Qed.
  End WithState.
  (** ** Match, WithPrefix, LongestPrefixOf *)
  Lemma map_pre_consk : forall prefix c (l : smap),
    map (pre prefix) (map (consk c) l) = map (pre (prefix ++ [c])) l.
  Proof.
    intros. rewrite map_map. apply map_ext. intros [k v]. unfold pre, consk. simpl.
    now rewrite <- app_assoc.
  Qed.

  Lemma filter_consk : forall (f : key -> bool) c (l : smap),
    filter (fun e => f (fst e)) (map (consk c) l) = map (consk c) (filter (fun e => f (c :: fst e)) l).
  Proof.
    induction l as [|e l IH]; simpl; auto. destruct (f (c :: fst e)); simpl; now rewrite IH.
  Qed.

  Lemma filter_false : forall A (l : list A), filter (fun _ => false) l = [].
  Proof. induction l; simpl; auto. Qed.

  Lemma right_no_start : forall (f : key -> bool) c r,
    wfb (Some c) r -> (forall c' k, (c < c')%N -> f (c' :: k) = false) ->
    filter (fun e : key * V => f (fst e)) (contents r) = [].
  Proof.
    intros f c r W H. apply filter_none. intros e He.
    pose proof (contents_starts _ _ W) as SR. rewrite Forall_forall in SR. apply SR in He.
    unfold starts in He. destruct (fst e); [contradiction|]. apply H. exact He.
  Qed.

  Lemma b_collect_correct : forall (n : node) (prefix : key) (acc : smap),
    b_collect n prefix acc = acc ++ map (pre prefix) (contents n).
  Proof.
    induction n as [|c v l IHl r IHr]; intros prefix acc; simpl.
    - now rewrite app_nil_r.
    - rewrite IHr, IHl, !map_app, map_pre_consk. destruct v; simpl; now rewrite <- !app_assoc.
  Qed.

  Lemma b_match_node : forall p ps c v (l r : node) prefix (acc : smap),
    b_match (p :: ps) (Node c v l r) prefix acc =
      let acc1 :=
        if (p =? star)%N || (p =? c)%N then
          b_match ps l (prefix ++ [c])
                  (match v, ps with Some x, [] => acc ++ [(prefix ++ [c], x)] | _, _ => acc end)
        else acc in
      if (p =? star)%N || negb (p =? c)%N then b_match (p :: ps) r prefix acc1 else acc1.
  Proof. reflexivity. Qed.

  Lemma filter_match_self : forall p ps c (v : option V),
    filter (fun e => matches (p :: ps) (fst e)) (self c v) =
      if (p =? star)%N || (p =? c)%N then match v, ps with Some x, [] => [([c], x)] | _, _ => [] end else [].
  Proof.
    intros p ps c [x|]; simpl.
    - destruct ((p =? star)%N || (p =? c)%N); simpl; destruct ps; reflexivity.
    - destruct ((p =? star)%N || (p =? c)%N); reflexivity.
  Qed.

  Lemma filter_match_consk : forall p ps c (L : smap),
    filter (fun e => matches (p :: ps) (fst e)) (map (consk c) L) =
      if (p =? star)%N || (p =? c)%N then map (consk c) (filter (fun e => matches ps (fst e)) L) else [].
  Proof.
    intros. rewrite (filter_consk (matches (p :: ps))). cbn [matches].
    destruct ((p =? star)%N || (p =? c)%N); simpl; auto. now rewrite filter_false.
  Qed.

  Lemma b_match_correct : forall pat (n : node) lo prefix (acc : smap), wfb lo n ->
    b_match pat n prefix acc = acc ++ map (pre prefix) (filter (fun e => matches pat (fst e)) (contents n)).
  Proof.
    induction pat as [|p ps IHp]; intros n lo prefix acc W.
    - simpl. rewrite filter_none; [now rewrite app_nil_r|]. intros e He.
      pose proof (contents_keys_nonempty _ _ _ W He). destruct (fst e); [congruence | reflexivity].
    - revert lo prefix acc W. induction n as [|c v l IHl r IHr]; intros lo prefix acc W.
      + simpl. now rewrite app_nil_r.
      + destruct W as [H1 [H2 [H3 H4]]]. rewrite b_match_node. cbn [contents].
        rewrite !filter_app, filter_match_self, filter_match_consk, !map_app.
        destruct (N.eqb_spec p star) as [ST|NST]; cbn [orb].
        * (* wildcard: this node and the siblings *)
          cbv zeta. rewrite (IHr (Some c)) by exact H3. rewrite (IHp l None) by exact H2.
          rewrite map_pre_consk. destruct v as [x|]; destruct ps; simpl; now rewrite <- ?app_assoc.
        * destruct (N.eqb_spec p c) as [->|NC]; cbn [negb].
          -- cbv zeta. rewrite (IHp l None) by exact H2. rewrite map_pre_consk.
             rewrite (right_no_start (matches (c :: ps)) c r H3).
             ++ destruct v as [x|]; destruct ps; simpl; now rewrite <- ?app_assoc, ?app_nil_r.
             ++ intros c' k LT. cbn [matches].
                destruct (N.eqb_spec c star); [contradiction|]. destruct (N.eqb_spec c c'); [lia | reflexivity].
          -- cbv zeta. rewrite (IHr (Some c)) by exact H3. reflexivity.
  Qed.

  Lemma b_withprefix_node : forall k ks c v (l r : node) prefix (acc : smap),
    b_withprefix (k :: ks) (Node c v l r) prefix acc =
      if (k =? c)%N then
        b_withprefix ks l (prefix ++ [c])
                     (match v, ks with Some x, [] => acc ++ [(prefix ++ [c], x)] | _, _ => acc end)
      else b_withprefix (k :: ks) r prefix acc.
  Proof. reflexivity. Qed.

  Lemma filter_prefix_self : forall k ks c (v : option V),
    filter (fun e => is_prefix (k :: ks) (fst e)) (self c v) =
      if (k =? c)%N then match v, ks with Some x, [] => [([c], x)] | _, _ => [] end else [].
  Proof.
    intros k ks c [x|]; simpl.
    - destruct (k =? c)%N; simpl; destruct ks; reflexivity.
    - destruct (k =? c)%N; reflexivity.
  Qed.

  Lemma filter_prefix_consk : forall k ks c (L : smap),
    filter (fun e => is_prefix (k :: ks) (fst e)) (map (consk c) L) =
      if (k =? c)%N then map (consk c) (filter (fun e => is_prefix ks (fst e)) L) else [].
  Proof.
    intros. rewrite (filter_consk (is_prefix (k :: ks))). cbn [is_prefix].
    destruct (k =? c)%N; simpl; auto. now rewrite filter_false.
  Qed.

  Lemma b_withprefix_correct : forall key (n : node) lo prefix (acc : smap), wfb lo n ->
    b_withprefix key n prefix acc =
      acc ++ map (pre prefix) (filter (fun e => is_prefix key (fst e)) (contents n)).
  Proof.
    induction key as [|k ks IHk]; intros n lo prefix acc W.
    - simpl. rewrite b_collect_correct. rewrite filter_all; auto.
    - revert lo prefix acc W. induction n as [|c v l IHl r IHr]; intros lo prefix acc W.
      + simpl. now rewrite app_nil_r.
      + destruct W as [H1 [H2 [H3 H4]]]. rewrite b_withprefix_node. cbn [contents].
        rewrite !filter_app, filter_prefix_self, filter_prefix_consk, !map_app.
        destruct (N.eqb_spec k c) as [->|NC].
        * rewrite (IHk l None) by exact H2. rewrite map_pre_consk.
          rewrite (right_no_start (is_prefix (c :: ks)) c r H3).
          -- destruct v as [x|]; destruct ks; simpl; now rewrite <- ?app_assoc, ?app_nil_r.
          -- intros c' k' LT. cbn [is_prefix]. destruct (N.eqb_spec c c'); [lia | reflexivity].
        * rewrite (IHr (Some c)) by exact H3. reflexivity.
  Qed.

  Lemma b_allprefixof_node : forall k ks c v (l r : node) prefix (last : option (key * V)),
    b_allprefixof (k :: ks) (Node c v l r) prefix last =
      if (k =? c)%N then
        b_allprefixof ks l (prefix ++ [c]) (match v with Some x => Some (prefix ++ [c], x) | None => last end)
      else b_allprefixof (k :: ks) r prefix last.
  Proof. reflexivity. Qed.

  Lemma b_allprefixof_correct : forall kk (n : node) lo prefix (last : option (key * V)), wfb lo n ->
    b_allprefixof kk n prefix last =
      match last_error (filter (fun e => is_prefix (fst e) kk) (contents n)) with
      | Some e => Some (pre prefix e)
      | None => last
      end.
  Proof.
    induction kk as [|k ks IHk]; intros n lo prefix last W.
    - simpl. rewrite filter_none; [reflexivity|]. intros e He.
      pose proof (contents_keys_nonempty _ _ _ W He). destruct (fst e); [congruence | reflexivity].
    - revert lo prefix last W. induction n as [|c v l IHl r IHr]; intros lo prefix last W.
      + reflexivity.
      + destruct W as [H1 [H2 [H3 H4]]]. rewrite b_allprefixof_node. cbn [contents].
        rewrite !filter_app.
        rewrite (filter_consk (fun q => is_prefix q (k :: ks))). cbn [is_prefix].
        destruct (N.eqb_spec k c) as [->|NC].
        * rewrite (IHk l None) by exact H2.
          rewrite (right_no_start (fun q => is_prefix q (c :: ks)) c r H3).
          -- rewrite N.eqb_refl. cbn [andb]. rewrite app_nil_r, last_error_app, last_error_map.
             destruct (last_error (filter (fun e => is_prefix (fst e) ks) (contents l))) as [[k' x']|]; simpl.
             ++ unfold pre. simpl. now rewrite <- app_assoc.
             ++ destruct v as [x|]; simpl; [rewrite N.eqb_refl|]; reflexivity.
          -- intros c' k' LT. cbn [is_prefix]. destruct (N.eqb_spec c' c); [lia | reflexivity].
        * rewrite (IHr (Some c)) by exact H3.
          assert (E : (c =? k)%N = false) by (apply N.eqb_neq; congruence).
          rewrite E. cbn [andb]. rewrite filter_false. cbn [map app].
          replace (filter (fun e : key * V => is_prefix (fst e) (k :: ks)) (self c v)) with (@nil (key * V)).
          -- reflexivity.
          -- destruct v; simpl; [rewrite E|]; reflexivity.
  Qed.
End Queries.
