(** C06 — specification: a lexicographically sorted map over byte strings with prefix and
    pattern queries, every query given by its definition on the sorted association list. *)
From Coq Require Import List NArith ZArith Bool.
Import ListNotations.

(** Bytes are naturals (the theorems do not need the bound 256), keys are byte strings. *)
Notation byte := N (only parsing).
Notation key := (list N) (only parsing).

(** Go's native string order: lexicographic on bytes, a proper prefix is smaller. *)
Fixpoint lex_cmp (a b : key) : comparison :=
  match a, b with
  | [], [] => Eq
  | [], _ :: _ => Lt
  | _ :: _, [] => Gt
  | x :: a', y :: b' =>
      match N.compare x y with
      | Eq => lex_cmp a' b'
      | c => c
      end
  end.

Definition kltb (a b : key) : bool := match lex_cmp a b with Lt => true | _ => false end.
Definition kleb (a b : key) : bool := match lex_cmp a b with Gt => false | _ => true end.
Definition keqb (a b : key) : bool := match lex_cmp a b with Eq => true | _ => false end.

(** [is_prefix p k]: k starts with p. *)
Fixpoint is_prefix (p k : key) : bool :=
  match p, k with
  | [], _ => true
  | _ :: _, [] => false
  | x :: p', y :: k' => N.eqb x y && is_prefix p' k'
  end.

(** The wildcard of Match is the byte '*'. *)
Definition star : byte := 42%N.

(** [matches pat k]: same length, and every pattern byte is '*' or the key's byte. *)
Fixpoint matches (pat k : key) : bool :=
  match pat, k with
  | [], [] => true
  | p :: pat', c :: k' => (N.eqb p star || N.eqb p c) && matches pat' k'
  | _, _ => false
  end.

Fixpoint last_error {A} (l : list A) : option A :=
  match l with
  | [] => None
  | [x] => Some x
  | _ :: l' => last_error l'
  end.

Section SMap.
  Context {V : Type}.

  (** The abstract state: association list, strictly increasing in the key (see [sorted]). *)
  Definition smap := list (key * V).

  Fixpoint sget (k : key) (m : smap) : option V :=
    match m with
    | [] => None
    | (k', v) :: m' => if keqb k k' then Some v else sget k m'
    end.

  Fixpoint sput (k : key) (v : V) (m : smap) : smap :=
    match m with
    | [] => [(k, v)]
    | (k', v') :: m' =>
        match lex_cmp k k' with
        | Lt => (k, v) :: m
        | Eq => (k, v) :: m'
        | Gt => (k', v') :: sput k v m'
        end
    end.

  Fixpoint sdel (k : key) (m : smap) : smap :=
    match m with
    | [] => []
    | (k', v') :: m' => if keqb k k' then m' else (k', v') :: sdel k m'
    end.

  Definition s_size (m : smap) : Z := Z.of_nat (length m).
  Definition s_min (m : smap) : option (key * V) := hd_error m.
  Definition s_max (m : smap) : option (key * V) := last_error m.
  Definition s_floor (k : key) (m : smap) : option (key * V) :=
    last_error (filter (fun e => kleb (fst e) k) m).
  Definition s_ceiling (k : key) (m : smap) : option (key * V) :=
    hd_error (filter (fun e => kleb k (fst e)) m).
  Definition s_select (i : Z) (m : smap) : option (key * V) :=
    if (i <? 0)%Z then None else nth_error m (Z.to_nat i).
  Definition s_rank (k : key) (m : smap) : Z :=
    Z.of_nat (length (filter (fun e => kltb (fst e) k) m)).
  Definition s_range (lo hi : key) (m : smap) : smap :=
    filter (fun e => kleb lo (fst e) && kleb (fst e) hi) m.
  Definition s_rangesize (lo hi : key) (m : smap) : Z := Z.of_nat (length (s_range lo hi m)).
  Definition s_withprefix (p : key) (m : smap) : smap := filter (fun e => is_prefix p (fst e)) m.
  (** the held keys that are prefixes of [s] are totally ordered by length, and the sorted order
      lists them by increasing length ([s_longestprefix_spec] in SpecFacts.v) *)
  Definition s_longestprefix (s : key) (m : smap) : option (key * V) :=
    last_error (filter (fun e => is_prefix (fst e) s) m).
  Definition s_match (pat : key) (m : smap) : smap := filter (fun e => matches pat (fst e)) m.

  (** Operations (mutators and queries) and what they return. *)
  Inductive ev :=
  | EPut (k : key) (v : V) | EDelete (k : key) | EDeleteMin | EDeleteMax | EDeleteAll
  | EGet (k : key) | ESize | EMin | EMax | EFloor (k : key) | ECeiling (k : key)
  | ESelect (i : Z) | ERank (k : key) | ERange (lo hi : key) | ERangeSize (lo hi : key) | EAll
  | EMatch (pat : key) | EWithPrefix (p : key) | ELongestPrefixOf (s : key).

  Inductive out :=
  | OUnit | OVal (o : option V) | OKV (o : option (key * V)) | ONum (n : Z) | OList (l : smap)
  | OPanic | OHang.

  Definition s_step (m : smap) (e : ev) : smap * out :=
    match e with
    | EPut k v => (sput k v m, OUnit)
    | EDelete k => (sdel k m, OVal (sget k m))
    | EDeleteMin => (tl m, OKV (hd_error m))
    | EDeleteMax => (removelast m, OKV (last_error m))
    | EDeleteAll => ([], OUnit)
    | EGet k => (m, OVal (sget k m))
    | ESize => (m, ONum (s_size m))
    | EMin => (m, OKV (s_min m))
    | EMax => (m, OKV (s_max m))
    | EFloor k => (m, OKV (s_floor k m))
    | ECeiling k => (m, OKV (s_ceiling k m))
    | ESelect i => (m, OKV (s_select i m))
    | ERank k => (m, ONum (s_rank k m))
    | ERange lo hi => (m, OList (s_range lo hi m))
    | ERangeSize lo hi => (m, ONum (s_rangesize lo hi m))
    | EAll => (m, OList m)
    | EMatch pat => (m, OList (s_match pat m))
    | EWithPrefix p => (m, OList (s_withprefix p m))
    | ELongestPrefixOf s => (m, OKV (s_longestprefix s m))
    end.

  Fixpoint s_run (m : smap) (es : list ev) : list out :=
    match es with
    | [] => []
    | e :: es' => let (m', o) := s_step m e in o :: s_run m' es'
    end.

  (** The property speaks about non-empty keys: Put/Get/Delete of the empty string are outside. *)
  Definition ev_valid (e : ev) : Prop :=
    match e with
    | EPut k _ | EDelete k | EGet k => k <> []
    | _ => True
    end.
End SMap.

Arguments smap : clear implicits.
Arguments ev : clear implicits.
Arguments out : clear implicits.
