(** C06 — executable model of /repo/trie/binary.go (the binary, i.e. left-child/right-sibling, trie)
    as it is after the fix: commits c1d5f95 (Delete), 5b9892b (Rank), 1ef686c (byte-preserving keys).
    Transcribed function by function; every query is a traversal plus a callback with early exit,
    as in the Go code.  No proofs in this file. *)
From Coq Require Import List NArith ZArith Bool.
From Algo.C06 Require Import Spec.
Import ListNotations.

Section Binary.
  Context {V : Type}.

  (** binaryNode: [val]/[term] are merged into an option (a node with term=false always holds the zero
      value); [Nil] is the nil pointer.  The sentinel root (whose right link is always nil) is not
      represented: the state holds root.left. *)
  Inductive node :=
  | Nil
  | Node (c : byte) (v : option V) (l r : node).

  Record bstate := { bsize : Z; broot : node }.

  Definition b_new : bstate := {| bsize := 0; broot := Nil |}.

  Definition is_some {A} (o : option A) : bool := match o with Some _ => true | None => false end.

  (** _put: returns the new subtree and whether t.size was incremented.  The outer recursion is on the
      key (n.left, key[1:]), the inner one on the sibling chain (n.right, key). *)
  Fixpoint b_put (key : key) (val : V) : node -> node * bool :=
    match key with
    | [] => fun n => (n, false) (* not reachable: Put rejects the empty key *)
    | k :: ks =>
        let fresh (right : node) : node * bool :=
          (* a new node with char k, then the branch n.char == key[0] *)
          match ks with
          | [] => (Node k (Some val) Nil right, true)
          | _ :: _ => let (l, a) := b_put ks val Nil in (Node k None l right, a)
          end in
        fix go (n : node) : node * bool :=
          match n with
          | Nil => fresh Nil
          | Node c v l r =>
              if (k <? c)%N then fresh n (* keep right links sorted *)
              else if (c =? k)%N then
                match ks with
                | [] => (Node c (Some val) l r, negb (is_some v))
                | _ :: _ => let (l', a) := b_put ks val l in (Node c v l' r, a)
                end
              else let (r', a) := go r in (Node c v l r', a)
          end
    end.

  Fixpoint b_get (key : key) : node -> option V :=
    match key with
    | [] => fun _ => None
    | k :: ks =>
        fix go (n : node) : option V :=
          match n with
          | Nil => None
          | Node c v l r =>
              if (k <? c)%N then None (* right links are sorted *)
              else if (c =? k)%N then
                match v, ks with
                | Some x, [] => Some x
                | _, _ => b_get ks l
                end
              else go r
          end
    end.

  Definition is_nil (n : node) : bool := match n with Nil => true | _ => false end.

  (** _delete (fixed): the value is returned only for a terminal node, a node is pruned only when it
      has no left child and ends no key. *)
  Fixpoint b_delete (key : key) : node -> node * option V :=
    match key with
    | [] => fun n => (n, None) (* not reachable *)
    | k :: ks =>
        fix go (n : node) : node * option V :=
          match n with
          | Nil => (Nil, None)
          | Node c v l r =>
              if (k <? c)%N then (n, None)
              else if (c =? k)%N then
                let '(v', l', res) :=
                  match ks with
                  | [] => match v with Some x => (None, l, Some x) | None => (v, l, None) end
                  | _ :: _ => let (l', res) := b_delete ks l in (v, l', res)
                  end in
                if is_nil l' && negb (is_some v') then (r, res) else (Node c v' l' r, res)
              else let (r', res) := go r in (Node c v l r', res)
          end
    end.

  (** _traverse for the two orders the queries use; the visitor threads a state and says whether to
      go on (Go: the callback returns false to stop). *)
  Inductive order := Asc | Desc.

  Fixpoint b_traverse {S : Type} (o : order) (visit : S -> key -> option V -> S * bool)
           (n : node) (prefix : key) (s : S) : S * bool :=
    match n with
    | Nil => (s, true)
    | Node c v l r =>
        let next := prefix ++ [c] in
        match o with
        | Asc =>
            let (s1, go1) := visit s next v in
            if go1 then
              let (s2, go2) := b_traverse o visit l next s1 in
              if go2 then b_traverse o visit r prefix s2 else (s2, false)
            else (s1, false)
        | Desc =>
            let (s1, go1) := b_traverse o visit r prefix s in
            if go1 then
              let (s2, go2) := b_traverse o visit l next s1 in
              if go2 then visit s2 next v else (s2, false)
            else (s1, false)
        end
    end.

  Definition kv := (key * V)%type.

  Definition b_min (t : bstate) : option kv :=
    fst (b_traverse Asc (fun s k v => match v with Some x => (Some (k, x), false) | None => (s, true) end)
                    (broot t) [] None).

  Definition b_max (t : bstate) : option kv :=
    fst (b_traverse Desc (fun s k v => match v with Some x => (Some (k, x), false) | None => (s, true) end)
                    (broot t) [] None).

  Definition b_floor (key : key) (t : bstate) : option kv :=
    fst (b_traverse Asc (fun s k v =>
           match v with
           | Some x => if kltb key k then (s, false) else (Some (k, x), true)
           | None => (s, true)
           end) (broot t) [] None).

  Definition b_ceiling (key : key) (t : bstate) : option kv :=
    fst (b_traverse Desc (fun s k v =>
           match v with
           | Some x => if kltb k key then (s, false) else (Some (k, x), true)
           | None => (s, true)
           end) (broot t) [] None).

  Definition b_select (rank : Z) (t : bstate) : option kv :=
    if ((rank <? 0) || (bsize t <=? rank))%Z then None
    else snd (fst (b_traverse Asc (fun (s : Z * option kv) k v =>
           match v with
           | Some x => if (fst s =? rank)%Z then ((fst s, Some (k, x)), false) else ((fst s + 1)%Z, snd s, true)
           | None => (s, true)
           end) (broot t) [] (0%Z, None))).

  Definition b_rank (key : key) (t : bstate) : Z :=
    fst (b_traverse Asc (fun (i : Z) k v =>
           match v with
           | Some _ => if kleb key k then (i, false) else ((i + 1)%Z, true)
           | None => (i, true)
           end) (broot t) [] 0%Z).

  Definition b_range (lo hi : key) (t : bstate) : list kv :=
    fst (b_traverse Asc (fun (kvs : list kv) k v =>
           match v with
           | Some x => if kleb lo k && kleb k hi then (kvs ++ [(k, x)], true)
                       else if kltb hi k then (kvs, false) else (kvs, true)
           | None => (kvs, true)
           end) (broot t) [] []).

  Definition b_rangesize (lo hi : key) (t : bstate) : Z :=
    fst (b_traverse Asc (fun (i : Z) k v =>
           match v with
           | Some _ => if kleb lo k && kleb k hi then ((i + 1)%Z, true)
                       else if kltb hi k then (i, false) else (i, true)
           | None => (i, true)
           end) (broot t) [] 0%Z).

  Definition b_all (t : bstate) : list kv :=
    fst (b_traverse Asc (fun (kvs : list kv) k v =>
           match v with Some x => (kvs ++ [(k, x)], true) | None => (kvs, true) end) (broot t) [] []).

  (** _match *)
  Fixpoint b_match (pattern : key) : node -> key -> list kv -> list kv :=
    match pattern with
    | [] => fun _ _ acc => acc
    | p :: ps =>
        fix go (n : node) (prefix : key) (acc : list kv) : list kv :=
          match n with
          | Nil => acc
          | Node c v l r =>
              let acc1 :=
                if (p =? star)%N || (p =? c)%N then
                  let next := prefix ++ [c] in
                  let acc' := match v, ps with Some x, [] => acc ++ [(next, x)] | _, _ => acc end in
                  b_match ps l next acc'
                else acc in
              if (p =? star)%N || negb (p =? c)%N then go r prefix acc1 else acc1
          end
    end.

  (** _withPrefix: once the key is used up the whole subtree is collected *)
  Fixpoint b_collect (n : node) (prefix : key) (acc : list kv) : list kv :=
    match n with
    | Nil => acc
    | Node c v l r =>
        let next := prefix ++ [c] in
        let acc1 := match v with Some x => acc ++ [(next, x)] | None => acc end in
        b_collect r prefix (b_collect l next acc1)
    end.

  Fixpoint b_withprefix (key : key) : node -> Spec.key -> list kv -> list kv :=
    match key with
    | [] => b_collect
    | k :: ks =>
        fix go (n : node) (prefix : Spec.key) (acc : list kv) : list kv :=
          match n with
          | Nil => acc
          | Node c v l r =>
              if (k =? c)%N then
                let next := prefix ++ [c] in
                let acc1 := match v, ks with Some x, [] => acc ++ [(next, x)] | _, _ => acc end in
                b_withprefix ks l next acc1
              else go r prefix acc
          end
    end.

  (** _allPrefixOf with LongestPrefixOf's callback (remember the last key seen) *)
  Fixpoint b_allprefixof (key : key) : node -> Spec.key -> option kv -> option kv :=
    match key with
    | [] => fun _ _ last => last
    | k :: ks =>
        fix go (n : node) (prefix : Spec.key) (last : option kv) : option kv :=
          match n with
          | Nil => last
          | Node c v l r =>
              if (k =? c)%N then
                let next := prefix ++ [c] in
                let last1 := match v with Some x => Some (next, x) | None => last end in
                b_allprefixof ks l next last1
              else go r prefix last
          end
    end.

  (** verify(): _isTrie, _isSizeOK, _isRankOK *)
  Fixpoint b_is_trie (n : node) : bool :=
    match n with
    | Nil => true
    | Node c _ l r =>
        b_is_trie l && b_is_trie r && match r with Nil => true | Node c' _ _ _ => (c <? c')%N end
    end.

  Definition b_size_ok (t : bstate) : bool := (bsize t =? Z.of_nat (length (b_all t)))%Z.

  Definition b_rank_ok (t : bstate) : bool :=
    forallb (fun i => let k := match b_select (Z.of_nat i) t with Some (k, _) => k | None => [] end in
                      (b_rank k t =? Z.of_nat i)%Z) (seq 0 (Z.to_nat (bsize t)))
    && forallb (fun e : kv => match b_select (b_rank (fst e) t) t with
                              | Some (k, _) => keqb k (fst e)
                              | None => keqb [] (fst e)
                              end) (b_all t).

  Definition b_verify (t : bstate) : bool := b_is_trie (broot t) && b_size_ok t && b_rank_ok t.

  (** The public methods as one step function. *)
  Definition b_step (t : bstate) (e : ev V) : bstate * out V :=
    match e with
    | EPut [] _ | EDelete [] | EGet [] => (t, OPanic)
    | EPut k v =>
        let (n, added) := b_put k v (broot t) in
        ({| bsize := if added then bsize t + 1 else bsize t; broot := n |}, OUnit)
    | EDelete k =>
        let (n, res) := b_delete k (broot t) in
        ({| bsize := if is_some res then bsize t - 1 else bsize t; broot := n |}, OVal res)
    | EDeleteMin =>
        match b_min t with
        | None => (t, OKV None)
        | Some (k, v) =>
            match k with
            | [] => (t, OPanic)
            | _ :: _ =>
                let (n, res) := b_delete k (broot t) in
                ({| bsize := if is_some res then bsize t - 1 else bsize t; broot := n |},
                 OKV (if is_some res then Some (k, v) else None))
            end
        end
    | EDeleteMax =>
        match b_max t with
        | None => (t, OKV None)
        | Some (k, v) =>
            match k with
            | [] => (t, OPanic)
            | _ :: _ =>
                let (n, res) := b_delete k (broot t) in
                ({| bsize := if is_some res then bsize t - 1 else bsize t; broot := n |},
                 OKV (if is_some res then Some (k, v) else None))
            end
        end
    | EDeleteAll => (b_new, OUnit)
    | EGet k => (t, OVal (b_get k (broot t)))
    | ESize => (t, ONum (bsize t))
    | EMin => (t, OKV (b_min t))
    | EMax => (t, OKV (b_max t))
    | EFloor k => (t, OKV (b_floor k t))
    | ECeiling k => (t, OKV (b_ceiling k t))
    | ESelect i => (t, OKV (b_select i t))
    | ERank k => (t, ONum (b_rank k t))
    | ERange lo hi => (t, OList (b_range lo hi t))
    | ERangeSize lo hi => (t, ONum (b_rangesize lo hi t))
    | EAll => (t, OList (b_all t))
    | EMatch pat => (t, OList (b_match pat (broot t) [] []))
    | EWithPrefix p => (t, OList (b_withprefix p (broot t) [] []))
    | ELongestPrefixOf s => (t, OKV (b_allprefixof s (broot t) [] None))
    end.

  Fixpoint b_run (t : bstate) (es : list (ev V)) : list (out V) :=
    match es with
    | [] => []
    | e :: es' => let (t', o) := b_step t e in o :: b_run t' es'
    end.
End Binary.

Arguments node : clear implicits.
Arguments bstate : clear implicits.
