(** C06 — Patricia remove, state level: Delete / DeleteMin / DeleteMax of a held key preserve the
    invariant (with ownership) and have the specification's effect; the full history theorem. *)
From Coq Require Import List NArith ZArith Bool Lia Sorted.
From Algo.C06 Require Import Spec SpecFacts Model ModelPat ProofsBinQ PatInv PatBits PatTree PatMatch PatDel PatPut PatRem PatRemH.
Import ListNotations.
Open Scope Z_scope.

Section RemS.
  Context {V : Type}.
  Notation pnode := (pnode V).
  Notation pstate := (pstate V).
  Notation heap := (list pnode).

  (** the descent by direction [d] is the descent by the key it reaches *)
  Lemma dir_eq : forall (h : heap) d T, tbits (nbp h) (nkey h) T -> forall a b x,
    let kk := nkey h (tsd h d T) in
    tsd h d T = ts (nbp h) kk T /\
    referrer h d T a b = referrer h (ByKey kk) T a b /\
    nparent h d x T b = nparent h (ByKey kk) x T b.
  Proof.
    induction T as [i|i l IHl rr IHr]; intros TB a b x; [simpl; auto|].
    destruct TB as [B1 [L0 [R1 [_ [Tl Tr]]]]]. cbn [tsd ts referrer nparent].
    destruct (dside d (nbp h i)) eqn:ES.
    - assert (EB : dside (ByKey (nkey h (tsd h d rr))) (nbp h i) = true).
      { simpl. apply R1. clear. induction rr as [j|j x IHx y IHy]; simpl; auto.
        destruct (dside d (nbp h j)); apply in_or_app; auto. }
      simpl in EB. rewrite EB. cbn [dside]. rewrite EB.
      destruct (IHr Tr i i x) as [Q1 [Q2 Q3]]. destruct (IHr Tr b i x) as [_ [Q2' _]].
      split; auto. split; auto. destruct (Nat.eqb i x); auto.
    - assert (EB : dside (ByKey (nkey h (tsd h d l))) (nbp h i) = false).
      { simpl. apply L0. clear. induction l as [j|j x IHx y IHy]; simpl; auto.
        destruct (dside d (nbp h j)); apply in_or_app; auto. }
      simpl in EB. rewrite EB. cbn [dside]. rewrite EB.
      destruct (IHl Tl i i x) as [Q1 [Q2 Q3]]. destruct (IHl Tl b i x) as [_ [Q2' _]].
      split; auto. split; auto. destruct (Nat.eqb i x); auto.
  Qed.

  Lemma sdel_In_iff : forall k (m : smap V) e, sorted m -> (In e (sdel k m) <-> In e m /\ fst e <> k).
  Proof.
    induction m as [|[k' v'] m IH]; intros e S; simpl; [tauto|].
    apply sorted_cons_inv in S as [S F]. rewrite Forall_forall in F. destruct (keqb k k') eqn:E.
    - apply keqb_eq in E. subst k'. split.
      + intros H. split; auto. intros EQ. apply F in H. unfold elt in H. simpl in H. rewrite EQ in H. now apply klt_irrefl in H.
      + intros [[<- | H] NE]; auto; try (simpl in NE; congruence).
    - apply keqb_neq in E. simpl. rewrite IH by exact S. split.
      + intros [<- | [H NE]]; auto; try (split; auto; simpl; congruence).
      + intros [[<- | H] NE]; auto.
  Qed.

  (** the record of PatInv.v from the logical invariant *)
  Lemma PInvN_pinv : forall (t : pstate) r rn c T, PInvN t r rn c T -> pinv t r rn c T.
  Proof.
    intros t r rn c T I. pose proof (PInvN_tree t r rn c T I) as PT.
    assert (PI : PInv t) by (unfold PInv; rewrite (q_root _ _ _ _ _ I); eauto).
    pose proof (PInv_sorted t PI) as SO.
    assert (PC : p_contents t = map kv_of (entries (pheap t) T)) by (unfold p_contents; now rewrite PT).
    destruct I as [q_root0 q_rn0 q_left0 q_right0 q_bp0 q_rep0 q_single0 q_nodup0 q_bits0 q_keys0 q_size0].
    unfold p_tree in PT. rewrite q_root0, q_rn0, q_left0, q_right0, q_bp0, Z.eqb_refl in PT.
    constructor; auto. now apply good_of_tbits.
  Qed.

  (** ** removing a held key from a trie with two or more keys *)
  Theorem p_delete_dir_correct : forall (t : pstate) d check r0 rn0 c0 T nn,
    PInvN t r0 rn0 c0 T -> owns T -> NoDup (leaves T) -> In r0 (leaves T) -> is_leaf T = false ->
    nth_error (pheap t) (tsd (pheap t) d T) = Some nn -> check nn = true ->
    exists t', p_delete_dir t r0 d check = ROk (t', Some (n_key nn, n_val nn)) /\ POwn t' /\
      forall e, In e (p_contents t') <-> In e (p_contents t) /\ fst e <> n_key nn.
  Proof.
    intros t d check r0 rn0 c0 T nn I OW NDl RL NLf Hn CK.
    set (h := pheap t) in *. set (n := tsd h d T) in *. set (kk := n_key nn).
    assert (KN : nkey h n = kk) by (unfold nkey; now rewrite Hn).
    pose proof (q_bits _ _ _ _ _ I) as TB. fold h in TB.
    destruct (dir_eq h d T TB r0 r0 n) as [E1 [E2 E3]]. fold n in E1, E2, E3. rewrite KN in E1, E2, E3.
    rewrite (p_delete_dir_pointers t r0 rn0 c0 T d check (PInvN_pinv t r0 rn0 c0 T I)).
    cbv zeta. fold h n. rewrite E2, E3.
    destruct (referrer h (ByKey kk) T r0 r0) as [rp r] eqn:Erf.
    unfold hget at 1. rewrite Hn. cbn [rbind]. rewrite CK.
    destruct (p_remove_ok t r0 rn0 c0 T kk h n rp r (nparent h (ByKey kk) n T r0) I OW NDl RL NLf eq_refl E1 KN Erf eq_refl)
      as [H' [co [PR RLK]]].
    rewrite PR. cbn [rbind].
    set (t' := {| psize := psize t - 1; proot := Some (rho n r r0); pheap := H' |}).
    exists t'. split; [reflexivity|].
    pose proof I as I0.
    destruct I as [q_root0 q_rn0 q_left0 q_right0 q_bp0 q_rep0 q_single0 q_nodup0 q_bits0 q_keys0 q_size0].
    fold h in q_rn0, q_rep0, q_bits0, q_keys0.
    assert (NPI : ~ In n (inners T) -> nparent h (ByKey kk) n T r0 = r).
    { intros NI. rewrite nparent_notin by exact NI. pose proof (referrer_lastinner h kk T r0 r0) as Q.
      rewrite Erf in Q. symmetry. exact Q. }
    destruct (remove_relinked h H' kk n r rp (nparent h (ByKey kk) n T r0) co r0 rn0 c0 T RLK
                q_rn0 q_bp0 q_left0 q_right0 q_rep0 NLf q_nodup0 NDl OW q_bits0 RL (eq_sym E1) Erf (fun _ => eq_refl) NPI)
      as [rn0' [R1 [R2 [R3 [R4 [R5 [R6 [R7 [R8 [R9 [R10 [R11 R12]]]]]]]]]]]].
    set (T' := tdel (nbp h) kk n r T) in *. set (root' := rho n r r0) in *.
    assert (I' : PInvN t' root' rn0' (newlink h kk n r co T c0) T').
    { constructor; auto.
      - destruct T' as [i|i a b] eqn:ET; auto. simpl in R9. destruct R9 as [E | []]. auto.
      - simpl. intros j Hj. rewrite (R12 j Hj). apply q_keys0. now apply R11.
      - simpl. rewrite q_size0. pose proof (length_leaves_tdel (nbp h) kk n r T NLf) as LL. fold T' in LL. lia. }
    split.
    - unfold POwn. simpl. exists rn0', (newlink h kk n r co T c0), T'. auto.
    - intros e. rewrite (contents_In t' root' rn0' _ T' e I'), (contents_In t r0 rn0 c0 T e I0). simpl. fold h.
      destruct RLK as [_ [_ GK]]. split.
      + intros [j [jn' [Hj [Hjn ->]]]]. apply R11 in Hj as [Hj NJ].
        destruct (rep_valid _ _ _ _ q_rep0) as [_ VL]. specialize (VL j Hj).
        destruct (nth_error h j) as [jn|] eqn:E; [|apply nth_error_None in E; lia].
        destruct (GK j jn E NJ) as [jn2 [F1 [F2 F3]]]. rewrite Hjn in F1. injection F1 as <-.
        split.
        * exists j, jn. repeat split; auto. unfold kv_of. now rewrite F2, F3.
        * simpl. rewrite F2. intros EK. apply NJ.
          rewrite <- (key_unique t r0 rn0 c0 T j I0 Hj). fold h. unfold nkey at 1. rewrite E, EK.
          rewrite tsearch_ts. fold kk. now rewrite <- E1.
      + intros [[j [jn [Hj [Hjn ->]]]] NK]. simpl in NK.
        assert (NJ : j <> n). { intros ->. rewrite Hn in Hjn. injection Hjn as <-. now apply NK. }
        destruct (GK j jn Hjn NJ) as [jn2 [F1 [F2 F3]]].
        exists j, jn2. split; [apply R11; auto|]. split; auto. unfold kv_of. now rewrite F2, F3.
  Qed.

  (** ** the three removal operations on any state *)
  Lemma POwn_data : forall t : pstate, POwn t -> p_contents t <> [] ->
    exists r0 rn0 c0 T, PInvN t r0 rn0 c0 T /\ owns T /\ NoDup (leaves T) /\ In r0 (leaves T).
  Proof.
    intros t O NE. unfold POwn in O. destruct (proot t) as [r0|] eqn:R.
    - destruct O as [rn0 [c0 [T Q]]]. eauto.
    - exfalso. apply NE. unfold p_contents, p_tree. now rewrite R.
  Qed.

  Lemma POwn_of_empty : forall t' : pstate, proot t' = None -> psize t' = 0 -> POwn t' /\ p_contents t' = [].
  Proof.
    intros t' R Z. split; [unfold POwn; now rewrite R|]. unfold p_contents, p_tree. now rewrite R.
  Qed.

  Lemma leaf_tree : forall T, is_leaf T = true -> exists c, T = PLeaf c.
  Proof. intros [c|i a b] H; [eauto | discriminate]. Qed.

  Lemma entries_valid : forall (h : heap) pbp c T, Rep h pbp c T ->
    forall j js, leaves T = j :: js -> exists jn, nth_error h j = Some jn.
  Proof.
    intros h pbp c T R j js E. destruct (rep_valid _ _ _ _ R) as [_ VL].
    assert (L : (j < length h)%nat) by (apply VL; rewrite E; simpl; auto).
    destruct (nth_error h j) eqn:F; eauto. apply nth_error_None in F. lia.
  Qed.

  Theorem p_delete_held : forall (t : pstate) k v, POwn t -> sget k (p_contents t) = Some v ->
    exists t', p_delete t k = ROk (t', Some v) /\ POwn t' /\ p_contents t' = sdel k (p_contents t).
  Proof.
    intros t k v O G. pose proof (POwn_PInv t O) as PI. pose proof (PInv_sorted t PI) as SO.
    destruct (POwn_data t O) as [r0 [rn0 [c0 [T [I [OW [NDl RL]]]]]]]; [intros E; rewrite E in G; discriminate|].
    pose proof (sget_In _ _ _ G) as IN. apply (contents_In t r0 rn0 c0 T) in IN as [j [jn [Hj [Hjn EQ]]]]; auto.
    injection EQ as EK EV.
    assert (TS : tsearch (pheap t) k T = j).
    { rewrite <- (key_unique t r0 rn0 c0 T j I Hj). unfold nkey. now rewrite Hjn, <- EK. }
    unfold p_delete. rewrite (q_root _ _ _ _ _ I).
    destruct (is_leaf T) eqn:LF.
    - destruct (leaf_tree T LF) as [c ET]. subst T.
      assert (C0 : c = c0) by (pose proof (q_rep _ _ _ _ _ I) as R; inversion R; auto).
      subst c. pose proof (q_single _ _ _ _ _ I) as SG. simpl in SG. simpl in Hj. destruct Hj as [EJ | []].
      assert (EQn : jn = rn0). { pose proof (q_rn _ _ _ _ _ I) as Q. rewrite <- SG, EJ, Hjn in Q. congruence. }
      subst jn.
      destruct (single_remove t r0 rn0 c0 (ByKey k) (fun nn => keqb (n_key nn) k) I) as [t' [D [R0 Z0]]];
        [rewrite <- EK; apply keqb_refl|].
      rewrite D. cbn [rbind fst snd]. exists t'. rewrite <- EV. split; auto.
      destruct (POwn_of_empty t' R0 Z0) as [O' C']. split; auto. rewrite C'.
      rewrite (single_contents t r0 rn0 c0 I). unfold kv_of. simpl. rewrite <- EK. now rewrite keqb_refl.
    - assert (HN : nth_error (pheap t) (tsd (pheap t) (ByKey k) T) = Some jn) by (now rewrite tsd_bykey, TS).
      destruct (p_delete_dir_correct t (ByKey k) (fun nn => keqb (n_key nn) k) r0 rn0 c0 T jn I OW NDl RL LF HN)
        as [t' [D [O' C']]]; [rewrite <- EK; apply keqb_refl|].
      rewrite D. cbn [rbind fst snd]. exists t'. rewrite <- EV. split; auto. split; auto.
      apply sorted_ext; [apply PInv_sorted; now apply POwn_PInv | now apply sdel_sorted |].
      intros e. rewrite C', sdel_In_iff by exact SO. now rewrite <- EK.
  Qed.

  Lemma tsd_left : forall (h : heap) T, exists js, leaves T = tsd h GoLeft T :: js.
  Proof.
    induction T as [i|i l [js IHl] rr _]; simpl; eauto. rewrite IHl. simpl. eauto.
  Qed.

  Lemma tsd_right : forall (h : heap) T, exists js, leaves T = js ++ [tsd h GoRight T].
  Proof.
    induction T as [i|i l _ rr [js IHr]]; simpl; [exists []; auto|]. rewrite IHr.
    exists (leaves l ++ js). now rewrite app_assoc.
  Qed.

  Theorem p_deletemin_held : forall (t : pstate) e0 m', POwn t -> p_contents t = e0 :: m' ->
    exists t', p_deletemin t = ROk (t', Some e0) /\ POwn t' /\ p_contents t' = m'.
  Proof.
    intros t e0 m' O C. pose proof (POwn_PInv t O) as PI. pose proof (PInv_sorted t PI) as SO.
    destruct (POwn_data t O) as [r0 [rn0 [c0 [T [I [OW [NDl RL]]]]]]]; [rewrite C; discriminate|].
    unfold p_deletemin. rewrite (q_root _ _ _ _ _ I).
    destruct (is_leaf T) eqn:LF.
    - destruct (leaf_tree T LF) as [c ET]. subst T.
      assert (C0 : c = c0) by (pose proof (q_rep _ _ _ _ _ I) as R; inversion R; auto). subst c.
      rewrite (single_contents t r0 rn0 c0 I) in C. injection C as <- <-.
      destruct (single_remove t r0 rn0 c0 GoLeft (fun _ => true) I eq_refl) as [t' [D [R0 Z0]]].
      rewrite D. exists t'. split; auto. now apply POwn_of_empty.
    - destruct (tsd_left (pheap t) T) as [js EL].
      destruct (entries_valid _ _ _ _ (q_rep _ _ _ _ _ I) _ _ EL) as [nn Hn].
      assert (E0 : e0 = kv_of nn).
      { pose proof (PInvN_tree t r0 rn0 c0 T I) as PT. unfold p_contents in C. rewrite PT in C.
        unfold entries in C. rewrite EL in C. simpl in C. rewrite Hn in C. simpl in C. now injection C. }
      destruct (p_delete_dir_correct t GoLeft (fun _ => true) r0 rn0 c0 T nn I OW NDl RL LF Hn eq_refl)
        as [t' [D [O' C']]].
      rewrite D. exists t'. rewrite E0. split; auto. split; auto.
      rewrite C in SO. apply sorted_cons_inv in SO as [SO' F]. rewrite Forall_forall in F.
      apply sorted_ext; [apply PInv_sorted; now apply POwn_PInv | exact SO' |].
      intros e. rewrite C', C. subst e0. split.
      + intros [[<- | H] NE]; auto. simpl in NE. congruence.
      + intros H. split; [right; auto|]. intros EQ. apply F in H. unfold elt in H. simpl in H.
        rewrite EQ in H. now apply klt_irrefl in H.
  Qed.

  Theorem p_deletemax_held : forall (t : pstate) e0 m', POwn t -> p_contents t = m' ++ [e0] ->
    exists t', p_deletemax t = ROk (t', Some e0) /\ POwn t' /\ p_contents t' = m'.
  Proof.
    intros t e0 m' O C. pose proof (POwn_PInv t O) as PI. pose proof (PInv_sorted t PI) as SO.
    destruct (POwn_data t O) as [r0 [rn0 [c0 [T [I [OW [NDl RL]]]]]]]; [rewrite C; now destruct m'|].
    unfold p_deletemax. rewrite (q_root _ _ _ _ _ I).
    destruct (is_leaf T) eqn:LF.
    - destruct (leaf_tree T LF) as [c ET]. subst T.
      assert (C0 : c = c0) by (pose proof (q_rep _ _ _ _ _ I) as R; inversion R; auto). subst c.
      rewrite (single_contents t r0 rn0 c0 I) in C.
      assert (m' = [] /\ e0 = kv_of rn0) as [-> ->].
      { destruct m' as [|x [|y m2]]; simpl in C; [injection C as <-; auto | discriminate | discriminate]. }
      destruct (single_remove t r0 rn0 c0 GoRight (fun _ => true) I eq_refl) as [t' [D [R0 Z0]]].
      rewrite D. exists t'. split; auto. now apply POwn_of_empty.
    - destruct (tsd_right (pheap t) T) as [js EL].
      assert (VJ : exists nn, nth_error (pheap t) (tsd (pheap t) GoRight T) = Some nn).
      { destruct (rep_valid _ _ _ _ (q_rep _ _ _ _ _ I)) as [_ VL].
        assert (L : (tsd (pheap t) GoRight T < length (pheap t))%nat) by (apply VL; rewrite EL; apply in_or_app; simpl; auto).
        destruct (nth_error (pheap t) (tsd (pheap t) GoRight T)) eqn:F; eauto. apply nth_error_None in F. lia. }
      destruct VJ as [nn Hn].
      assert (E0 : e0 = kv_of nn).
      { pose proof (PInvN_tree t r0 rn0 c0 T I) as PT. unfold p_contents in C. rewrite PT in C.
        unfold entries in C. rewrite EL, flat_map_app, map_app in C. simpl in C. rewrite Hn in C. simpl in C.
        apply app_inj_tail in C as [_ C]. now symmetry. }
      destruct (p_delete_dir_correct t GoRight (fun _ => true) r0 rn0 c0 T nn I OW NDl RL LF Hn eq_refl)
        as [t' [D [O' C']]].
      rewrite D. exists t'. rewrite E0. split; auto. split; auto.
      rewrite C in SO. apply sorted_app_inv in SO as [SO' [_ F]].
      apply sorted_ext; [apply PInv_sorted; now apply POwn_PInv | exact SO' |].
      intros e. rewrite C', C, in_app_iff. subst e0. split.
      + intros [[H | [<- | []]] NE]; auto. simpl in NE. congruence.
      + intros H. split; auto. intros EQ. specialize (F e (kv_of nn) H (or_introl eq_refl)).
        unfold elt in F. rewrite EQ in F. simpl in F. now apply klt_irrefl in F.
  Qed.

  (** ** every history *)
  Definition full_event (e : ev V) : Prop :=
    match e with
    | EPut k _ => kvalid k
    | EWithPrefix _ | ELongestPrefixOf _ => False
    | _ => True
    end.

  Lemma POwn_new : POwn (@p_new V).
  Proof. unfold POwn. reflexivity. Qed.

  Lemma p_run_full : forall es (t : pstate) m, POwn t -> p_contents t = m -> Forall full_event es ->
    p_run t es = s_run m es.
  Proof.
    induction es as [|e es IH]; intros t m O C F; [reflexivity|].
    inversion F as [|? ? E F']; subst. pose proof (POwn_PInv t O) as PI. cbn [p_run s_run].
    destruct e; cbn [full_event] in E; try contradiction;
      try (match goal with |- context [p_step t ?e] => rewrite (p_step_checked_m t e (PInv_check t PI) I) end;
           cbn [s_step snd]; f_equal; now apply IH).
    - (* Put *)
      destruct (p_put_preserves_own t k v O E) as [t' [P [O' C']]].
      cbn [p_step s_step]. rewrite P. cbn [rbind lift_mut]. f_equal. now apply IH.
    - (* Delete *)
      cbn [p_step s_step]. destruct (sget k (p_contents t)) as [v|] eqn:G.
      + destruct (p_delete_held t k v O G) as [t' [D [O' C']]]. rewrite D. cbn [lift_mut]. f_equal. now apply IH.
      + rewrite (p_delete_absent t k (PInv_check t PI) G). cbn [lift_mut].
        assert (SD : sdel k (p_contents t) = p_contents t) by (apply sdel_notin; now apply sget_none_inv).
        rewrite SD. f_equal. now apply IH.
    - (* DeleteMin *)
      cbn [p_step s_step]. destruct (p_contents t) as [|e0 m'] eqn:CT.
      + rewrite (p_deletemin_empty t (PInv_empty_root t PI CT)). cbn [lift_mut hd_error tl]. f_equal. now apply IH.
      + destruct (p_deletemin_held t e0 m' O CT) as [t' [D [O' C']]]. rewrite D. cbn [lift_mut hd_error tl].
        f_equal. now apply IH.
    - (* DeleteMax *)
      cbn [p_step s_step]. destruct (last_error (p_contents t)) as [e0|] eqn:L.
      + apply last_error_split in L as [m' CT].
        destruct (p_deletemax_held t e0 m' O CT) as [t' [D [O' C']]]. rewrite D. cbn [lift_mut].
        rewrite CT, removelast_last. f_equal. now apply IH.
      + apply last_error_none in L. rewrite (p_deletemax_empty t (PInv_empty_root t PI L)). cbn [lift_mut].
        rewrite L. simpl. f_equal. apply IH; auto.
    - (* DeleteAll *)
      cbn [p_step s_step]. f_equal. apply IH; auto. apply POwn_new.
  Qed.

  Theorem patricia_refines : forall es : list (ev V), Forall full_event es -> p_run p_new es = s_run [] es.
  Proof. intros es F. apply p_run_full; auto. apply POwn_new. Qed.
End RemS.
