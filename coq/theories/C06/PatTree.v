(** C06 — Patricia trie, tree level: the logical invariant on the unfolded tree ([tbits]: side bits,
    prefix agreement), the tree transformer of an insertion ([tins]) and what it preserves, and
    "the invariant implies that the keys in thread order are strictly increasing".
    Bit positions and keys of node ids are abstract functions [B], [K] here. *)
From Coq Require Import List NArith ZArith Bool Lia Sorted.
From Algo.C06 Require Import Spec SpecFacts ModelPat PatInv PatBits.
Import ListNotations.
Open Scope Z_scope.

Fixpoint inners (T : ptree) : list nat :=
  match T with PLeaf _ => [] | PNode i l r => i :: inners l ++ inners r end.

Fixpoint height (T : ptree) : nat :=
  match T with PLeaf _ => 1%nat | PNode _ l r => S (Nat.max (height l) (height r)) end.

Lemma height_inners : forall T, (height T <= length (inners T) + 1)%nat.
Proof.
  induction T as [i|i l IHl r IHr]; simpl; [lia|]. rewrite app_length. lia.
Qed.

Lemma leaves_nonempty : forall T, leaves T <> [].
Proof.
  induction T as [i|i l IHl r IHr]; simpl; [discriminate|]. destruct (leaves l); [contradiction | discriminate].
Qed.

Lemma nodup_app_iff : forall (A : Type) (a b : list A),
  NoDup (a ++ b) <-> NoDup a /\ NoDup b /\ (forall x, In x a -> In x b -> False).
Proof.
  induction a as [|x a IH]; intros b; simpl.
  - split; [intros H; repeat split; auto; constructor | tauto].
  - rewrite !NoDup_cons_iff, IH, in_app_iff. split.
    + intros [N [Na [Nb D]]]. repeat split; auto. intros y [-> | Hy] Hb; eauto.
    + intros [[N Na] [Nb D]]. repeat split; eauto. intros [H | H]; eauto.
Qed.

Definition agree (x y : key) (b : Z) : Prop := forall pos, 1 <= pos < b -> pbit x pos = pbit y pos.

Lemma agree_refl : forall x b, agree x x b.
Proof. intros x b pos H. reflexivity. Qed.
Lemma agree_sym : forall x y b, agree x y b -> agree y x b.
Proof. intros x y b H pos P. symmetry. now apply H. Qed.
Lemma agree_trans : forall x y z b, agree x y b -> agree y z b -> agree x z b.
Proof. intros x y z b H1 H2 pos P. rewrite H1, H2; auto. Qed.
Lemma agree_le : forall x y b b', agree x y b -> b' <= b -> agree x y b'.
Proof. intros x y b b' H L pos P. apply H. lia. Qed.

Section Tree.
  Variable B : nat -> Z.
  Variable K : nat -> key.

  Fixpoint tbits (T : ptree) : Prop :=
    match T with
    | PLeaf _ => True
    | PNode i l r =>
        1 <= B i /\
        (forall j, In j (leaves l) -> pbit (K j) (B i) = false) /\
        (forall j, In j (leaves r) -> pbit (K j) (B i) = true) /\
        (forall j j', In j (leaves l ++ leaves r) -> In j' (leaves l ++ leaves r) -> agree (K j) (K j') (B i)) /\
        tbits l /\ tbits r
    end.

  Fixpoint ts (k : key) (T : ptree) : nat :=
    match T with
    | PLeaf i => i
    | PNode i l r => if pbit k (B i) then ts k r else ts k l
    end.

  Lemma ts_in : forall k T, In (ts k T) (leaves T).
  Proof.
    induction T as [i|i l IHl r IHr]; simpl; auto. destruct (pbit k (B i)); apply in_or_app; auto.
  Qed.

  (** ** sortedness from the bit invariant *)
  Lemma ss_app : forall (A : Type) (R : A -> A -> Prop) a b,
    StronglySorted R a -> StronglySorted R b -> (forall x y, In x a -> In y b -> R x y) -> StronglySorted R (a ++ b).
  Proof.
    induction a as [|x a IH]; intros b Sa Sb H; simpl; auto.
    inversion Sa as [|? ? Sa' Fa]; subst. constructor.
    - apply IH; auto. intros. apply H; simpl; auto.
    - apply Forall_app. split; auto. apply Forall_forall. intros y Hy. apply H; simpl; auto.
  Qed.

  Lemma tbits_sorted : forall T, tbits T -> (forall j, In j (leaves T) -> bytes_ok (K j)) ->
    StronglySorted klt (map K (leaves T)).
  Proof.
    induction T as [i|i l IHl r IHr]; intros TB OK; simpl.
    - repeat constructor.
    - destruct TB as [B1 [L0 [R1 [AG [Tl Tr]]]]]. rewrite map_app. apply ss_app.
      + apply IHl; auto. intros. apply OK. simpl. apply in_or_app. auto.
      + apply IHr; auto. intros. apply OK. simpl. apply in_or_app. auto.
      + intros x y Hx Hy. apply in_map_iff in Hx as [jx [<- Hx]]. apply in_map_iff in Hy as [jy [<- Hy]].
        apply (lex_of_bits (K jx) (K jy) (B i)); auto.
        * apply OK. simpl. apply in_or_app. auto.
        * apply OK. simpl. apply in_or_app. auto.
        * apply AG; apply in_or_app; auto.
  Qed.

  Lemma ss_increasing : forall ks, StronglySorted klt ks -> strictly_increasing ks = true.
  Proof.
    induction ks as [|k1 ks IH]; intros S; auto. inversion S as [|? ? S' F]; subst.
    destruct ks as [|k2 ks]; auto.
    change (strictly_increasing (k1 :: k2 :: ks)) with (kltb k1 k2 && strictly_increasing (k2 :: ks)).
    rewrite IH by exact S'.
    inversion F as [|? ? F1 _]; subst. apply kltb_lt in F1. now rewrite F1.
  Qed.

  (** ** insertion *)
  Variable k : key.
  Variable dp : Z.
  Variable nid : nat.

  Definition wrap (S : ptree) : ptree :=
    if pbit k dp then PNode nid S (PLeaf nid) else PNode nid (PLeaf nid) S.

  Fixpoint tins (T : ptree) : ptree :=
    match T with
    | PNode i l r =>
        if B i <? dp then (if pbit k (B i) then PNode i l (tins r) else PNode i (tins l) r)
        else wrap T
    | PLeaf _ => wrap T
    end.

  Lemma leaves_wrap : forall S j, In j (leaves (wrap S)) <-> j = nid \/ In j (leaves S).
  Proof.
    intros S j. unfold wrap. destruct (pbit k dp); simpl; rewrite ?in_app_iff; simpl; intuition.
  Qed.

  Lemma leaves_tins : forall T j, In j (leaves (tins T)) <-> j = nid \/ In j (leaves T).
  Proof.
    induction T as [i|i l IHl r IHr]; intros j.
    - apply leaves_wrap.
    - cbn [tins]. destruct (B i <? dp); [|apply leaves_wrap].
      destruct (pbit k (B i)); simpl; rewrite !in_app_iff, ?IHl, ?IHr; intuition.
  Qed.

  Lemma length_leaves_wrap : forall S, length (leaves (wrap S)) = Datatypes.S (length (leaves S)).
  Proof. intros S. unfold wrap. destruct (pbit k dp); simpl; rewrite ?app_length; simpl; lia. Qed.

  Lemma length_leaves_tins : forall T, length (leaves (tins T)) = S (length (leaves T)).
  Proof.
    induction T as [i|i l IHl r IHr].
    - apply length_leaves_wrap.
    - cbn [tins]. destruct (B i <? dp); [|apply length_leaves_wrap].
      destruct (pbit k (B i)); simpl; rewrite !app_length, ?IHl, ?IHr; lia.
  Qed.

  Lemma inners_wrap : forall S i, In i (inners (wrap S)) <-> i = nid \/ In i (inners S).
  Proof.
    intros S i. unfold wrap. destruct (pbit k dp); simpl; rewrite ?app_nil_r; intuition.
  Qed.

  Lemma inners_tins : forall T i, In i (inners (tins T)) <-> i = nid \/ In i (inners T).
  Proof.
    induction T as [j|j l IHl r IHr]; intros i.
    - apply inners_wrap.
    - cbn [tins]. destruct (B j <? dp); [|apply inners_wrap].
      destruct (pbit k (B j)); simpl; rewrite !in_app_iff, ?IHl, ?IHr; intuition.
  Qed.

  Lemma nodup_wrap : forall S, NoDup (inners S) -> ~ In nid (inners S) -> NoDup (inners (wrap S)).
  Proof.
    intros S N F. unfold wrap. destruct (pbit k dp); simpl; rewrite ?app_nil_r; constructor; auto.
  Qed.

  Lemma nodup_tins : forall T, NoDup (inners T) -> ~ In nid (inners T) -> NoDup (inners (tins T)).
  Proof.
    induction T as [j|j l IHl r IHr]; intros N F.
    - now apply nodup_wrap.
    - cbn [tins]. destruct (B j <? dp); [|now apply nodup_wrap].
      simpl in N, F. apply NoDup_cons_iff in N as [NJ N]. apply nodup_app_iff in N as [Nl [Nr D]].
      rewrite in_app_iff in NJ, F.
      destruct (pbit k (B j)); simpl; apply NoDup_cons_iff; rewrite in_app_iff, nodup_app_iff.
      + split; [rewrite inners_tins; intuition|]. split; auto. split; [apply IHr; intuition|].
        intros x Hl Hr. apply inners_tins in Hr as [-> | Hr]; [intuition | eauto].
      + split; [rewrite inners_tins; intuition|]. split; [apply IHl; intuition|]. split; auto.
        intros x Hl Hr. apply inners_tins in Hl as [-> | Hl]; [intuition | eauto].
  Qed.

  (** ownership: the thread to an inner node lies in that node's own subtree *)
  Fixpoint owns (T : ptree) : Prop :=
    match T with
    | PLeaf _ => True
    | PNode i l r => In i (leaves l ++ leaves r) /\ owns l /\ owns r
    end.

  Lemma owns_wrap : forall S, owns S -> owns (wrap S).
  Proof.
    intros S H. unfold wrap. destruct (pbit k dp); simpl; repeat split; auto.
    - apply in_or_app. right. simpl. auto.
  Qed.

  Lemma owns_tins : forall T, owns T -> owns (tins T).
  Proof.
    induction T as [i|i l IHl r IHr]; intros H.
    - now apply owns_wrap.
    - cbn [tins]. destruct (B i <? dp); [|now apply owns_wrap]. destruct H as [HI [Hl Hr]].
      apply in_app_or in HI.
      destruct (pbit k (B i)); simpl; repeat split; auto; rewrite in_app_iff, leaves_tins; tauto.
  Qed.

  Lemma nodup_leaves_wrap : forall S, NoDup (leaves S) -> ~ In nid (leaves S) -> NoDup (leaves (wrap S)).
  Proof.
    intros S N F. unfold wrap. destruct (pbit k dp); simpl.
    - apply nodup_app_iff. split; auto. split; [repeat constructor; auto|]. intros x Hx [<- | []]. contradiction.
    - constructor; auto.
  Qed.

  Lemma nodup_leaves_tins : forall T, NoDup (leaves T) -> ~ In nid (leaves T) -> NoDup (leaves (tins T)).
  Proof.
    induction T as [j|j l IHl r IHr]; intros N F.
    - now apply nodup_leaves_wrap.
    - cbn [tins]. destruct (B j <? dp); [|now apply nodup_leaves_wrap].
      simpl in N, F. apply nodup_app_iff in N as [Nl [Nr D]]. rewrite in_app_iff in F.
      destruct (pbit k (B j)); simpl; apply nodup_app_iff.
      + split; auto. split; [apply IHr; tauto|]. intros x Hl Hr. apply leaves_tins in Hr as [-> | Hr]; [tauto | eauto].
      + split; [apply IHl; tauto|]. split; auto. intros x Hl Hr. apply leaves_tins in Hl as [-> | Hl]; [tauto | eauto].
  Qed.

  (** the bit invariant after the insertion of [k] (as node [nid], bit position [dp]) next to the
      key [K (ts k T)] the search for [k] ends at *)
  Hypothesis Bnid : B nid = dp.
  Hypothesis Knid : K nid = k.
  Hypothesis dp1 : 1 <= dp.

  Lemma tbits_wrap : forall S,
    tbits S ->
    (forall j, In j (leaves S) -> pbit (K j) dp = negb (pbit k dp)) ->
    (forall j, In j (leaves S) -> agree k (K j) dp) ->
    tbits (wrap S).
  Proof.
    intros S TB SB AG. unfold wrap. destruct (pbit k dp) eqn:E; simpl; rewrite Bnid.
    - split; [exact dp1|]. split; [intros j Hj; now rewrite (SB j Hj)|].
      split; [intros j [<- | []]; now rewrite Knid|]. split; [|split; [exact TB | exact I]].
      intros j j' Hj Hj'. apply in_app_or in Hj, Hj'. simpl in Hj, Hj'.
      destruct Hj as [Hj | [<- | []]]; destruct Hj' as [Hj' | [<- | []]]; rewrite ?Knid.
      + eapply agree_trans; [apply agree_sym; apply (AG j Hj) | apply (AG j' Hj')].
      + apply agree_sym. auto.
      + auto.
      + apply agree_refl.
    - split; [exact dp1|]. split; [intros j [<- | []]; now rewrite Knid|].
      split; [intros j Hj; now rewrite (SB j Hj)|]. split; [|split; [exact I | exact TB]].
      intros j j' Hj Hj'. simpl in Hj, Hj'.
      destruct Hj as [<- | Hj]; destruct Hj' as [<- | Hj']; rewrite ?Knid.
      + apply agree_refl.
      + auto.
      + apply agree_sym. auto.
      + eapply agree_trans; [apply agree_sym; apply (AG j Hj) | apply (AG j' Hj')].
  Qed.

  Lemma tbits_tins : forall T,
    tbits T ->
    agree k (K (ts k T)) dp -> pbit k dp <> pbit (K (ts k T)) dp ->
    tbits (tins T).
  Proof.
    induction T as [i|i l IHl r IHr]; intros TB AG DF.
    - cbn [tins]. simpl in AG, DF. apply tbits_wrap; auto.
      + intros j [<- | []]. destruct (pbit k dp), (pbit (K i) dp); simpl; congruence.
      + intros j [<- | []]. exact AG.
    - pose proof TB as [B1 [L0 [R1 [AGT [Tl Tr]]]]]. cbn [tins ts] in *.
      destruct (Z.ltb_spec (B i) dp) as [LT|GE].
      + destruct (pbit k (B i)) eqn:E.
        * simpl. repeat split; auto.
          -- intros j Hj. apply leaves_tins in Hj as [-> | Hj]; [now rewrite Knid | auto].
          -- assert (A0 : forall j, In j (leaves l ++ leaves r) -> agree k (K j) (B i)).
             { intros j Hj. eapply agree_trans; [apply (agree_le _ _ _ _ AG); lia|].
               apply AGT; auto. apply in_or_app. right. apply ts_in. }
             intros j j' Hj Hj'. rewrite in_app_iff, leaves_tins in Hj, Hj'.
             assert (Hj2 : j = nid \/ In j (leaves l ++ leaves r)) by (rewrite in_app_iff; tauto).
             assert (Hj2' : j' = nid \/ In j' (leaves l ++ leaves r)) by (rewrite in_app_iff; tauto).
             destruct Hj2 as [-> | Hj2]; destruct Hj2' as [-> | Hj2']; rewrite ?Knid;
               auto using agree_refl, agree_sym.
        * simpl. repeat split; auto.
          -- intros j Hj. apply leaves_tins in Hj as [-> | Hj]; [now rewrite Knid | auto].
          -- assert (A0 : forall j, In j (leaves l ++ leaves r) -> agree k (K j) (B i)).
             { intros j Hj. eapply agree_trans; [apply (agree_le _ _ _ _ AG); lia|].
               apply AGT; auto. apply in_or_app. left. apply ts_in. }
             intros j j' Hj Hj'. rewrite in_app_iff, leaves_tins in Hj, Hj'.
             assert (Hj2 : j = nid \/ In j (leaves l ++ leaves r)) by (rewrite in_app_iff; tauto).
             assert (Hj2' : j' = nid \/ In j' (leaves l ++ leaves r)) by (rewrite in_app_iff; tauto).
             destruct Hj2 as [-> | Hj2]; destruct Hj2' as [-> | Hj2']; rewrite ?Knid;
               auto using agree_refl, agree_sym.
      + (* the insertion point is above this node: its bit position is beyond dp *)
        set (j0 := if pbit k (B i) then ts k r else ts k l) in *.
        assert (I0 : In j0 (leaves l ++ leaves r)).
        { unfold j0. destruct (pbit k (B i)); apply in_or_app; [right | left]; apply ts_in. }
        assert (NE : B i <> dp).
        { intros EQ. apply DF. rewrite <- EQ. unfold j0. destruct (pbit k (B i)) eqn:E.
          - symmetry. apply R1. apply ts_in.
          - symmetry. apply L0. apply ts_in. }
        apply tbits_wrap; auto.
        * intros j Hj. simpl in Hj. rewrite (AGT j j0 Hj I0 dp) by lia.
          destruct (pbit k dp), (pbit (K j0) dp); simpl; congruence.
        * intros j Hj. simpl in Hj. eapply agree_trans; [exact AG|]. apply (agree_le _ _ (B i)); [|lia].
          now apply AGT.
  Qed.
End Tree.
