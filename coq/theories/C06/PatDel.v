(** C06 — Patricia Delete, first part: the descent of _delete ends at the thread the search for the
    key ends at, and deleting a key that is not held changes nothing (in every checked state). *)
From Coq Require Import List NArith ZArith Bool Lia.
From Algo.C06 Require Import Spec SpecFacts Model ModelPat ProofsBinQ PatInv.
Import ListNotations.
Open Scope Z_scope.

Section Del.
  Context {V : Type}.
  Notation pnode := (pnode V).
  Notation heap := (list pnode).

  (** the first loop of _delete: [n] ends at the thread target of the search, [r] is the node the
      thread leaves from, [rp] the node before it *)
  Lemma del_loop1_unfold : forall f (h : heap) k pbp rp r rn c T g,
    unfold f h pbp c = Some T -> nth_error h r = Some rn -> n_bp rn = pbp -> 0 <= pbp -> (f <= g)%nat ->
    exists rp' r', del_loop1 g h (ByKey k) rp r c = ROk (rp', r', tsearch h k T).
  Proof.
    induction f as [|f IH]; intros h k pbp rp r rn c T g H Hr Hb Hz Hg; simpl in H; [discriminate|].
    destruct g as [|g]; [lia|]. cbn [del_loop1]. unfold hget at 1. rewrite Hr. cbn [rbind].
    destruct (nth_error h c) as [cn|] eqn:E; [|discriminate]. unfold hget at 1. rewrite E. cbn [rbind]. rewrite Hb.
    rewrite Z.ltb_antisym. destruct (n_bp cn <=? pbp) eqn:LE; cbn [negb].
    - injection H as <-. eauto.
    - apply Z.leb_gt in LE.
      destruct (n_left cn) as [l|] eqn:EL; [|discriminate]. destruct (n_right cn) as [r'|] eqn:ER; [|discriminate].
      destruct (unfold f h (n_bp cn) l) as [tl|] eqn:El; [|discriminate].
      destruct (unfold f h (n_bp cn) r') as [tr|] eqn:Er; [|discriminate].
      injection H as <-. cbn [step_dir]. rewrite kbit_pos by lia. cbn [rbind tsearch].
      unfold nbp. rewrite E. unfold child. destruct (PatInv.pbit k (n_bp cn)).
      + rewrite ER. cbn [link rbind]. apply (IH h k (n_bp cn) r c cn r' tr g); auto; lia.
      + rewrite EL. cbn [link rbind]. apply (IH h k (n_bp cn) r c cn l tl g); auto; lia.
  Qed.

  (** deleting an absent key changes nothing *)
  Theorem p_delete_absent : forall (t : pstate V) k, p_inv_check t = true ->
    sget k (p_contents t) = None -> p_delete t k = ROk (t, None).
  Proof.
    intros t k CHK NF. unfold p_delete. destruct (proot t) as [r|] eqn:R; [|reflexivity].
    destruct (inv_check_nonempty t r CHK R) as [rn [c [T I]]].
    destruct I as [Proot Prn Pleft Pright Pbp Punf Pgood Psorted Psize Pcont Psingle].
    unfold p_delete_dir. unfold hget at 1. rewrite Prn. cbn [rbind]. rewrite Pleft. cbn [link rbind].
    destruct (del_loop1_unfold _ (pheap t) k 0 r r rn c T (fuel_of (pheap t)) Punf Prn Pbp) as [rp' [r' DL]];
      [lia | unfold fuel_of; lia |].
    rewrite DL. cbn [rbind].
    pose proof (tsearch_in (pheap t) k T) as J.
    pose proof (unfold_leaves_valid _ _ _ _ _ Punf) as VL. rewrite Forall_forall in VL.
    destruct (VL _ J) as [nn Hn]. unfold hget. rewrite Hn. cbn [rbind].
    destruct (keqb (n_key nn) k) eqn:EK; [|reflexivity].
    exfalso. apply keqb_eq in EK. rewrite Pcont in NF.
    apply (sget_none_inv _ _ NF (kv_of nn)); [|exact EK].
    apply in_map. apply entries_In. eauto.
  Qed.

  (** DeleteMin / DeleteMax on the empty trie *)
  Lemma p_deletemin_empty : forall t : pstate V, proot t = None -> p_deletemin t = ROk (t, None).
  Proof. intros t R. unfold p_deletemin. now rewrite R. Qed.
  Lemma p_deletemax_empty : forall t : pstate V, proot t = None -> p_deletemax t = ROk (t, None).
  Proof. intros t R. unfold p_deletemax. now rewrite R. Qed.

  (** ** the four pointers of remove, in terms of the unfolded tree (all three descents) *)
  Definition dside (d : dir) (b : Z) : bool :=
    match d with ByKey k => PatInv.pbit k b | GoLeft => false | GoRight => true end.

  Lemma step_dir_side : forall d (x : pnode), 1 <= n_bp x -> step_dir d x = child x (dside d (n_bp x)).
  Proof.
    intros d x H. destruct d; cbn [step_dir dside child]; auto. rewrite kbit_pos by lia. reflexivity.
  Qed.

  (** the thread the descent ends at *)
  Fixpoint tsd (h : heap) (d : dir) (T : ptree) : nat :=
    match T with
    | PLeaf i => i
    | PNode i l r => if dside d (nbp h i) then tsd h d r else tsd h d l
    end.

  Lemma tsd_bykey : forall (h : heap) k T, tsd h (ByKey k) T = tsearch h k T.
  Proof. induction T as [i|i l IHl r IHr]; simpl; auto. now rewrite IHl, IHr. Qed.

  (** [r]: the last inner node on the path (the referrer); [rp]: the node before it *)
  Fixpoint referrer (h : heap) (d : dir) (T : ptree) (rp r : nat) : nat * nat :=
    match T with
    | PLeaf _ => (rp, r)
    | PNode i l r' => referrer h d (if dside d (nbp h i) then r' else l) r i
    end.

  (** [np]: the node before the first occurrence of [n] on the path *)
  Fixpoint nparent (h : heap) (d : dir) (n : nat) (T : ptree) (np : nat) : nat :=
    match T with
    | PLeaf _ => np
    | PNode i l r' => if Nat.eqb i n then np else nparent h d n (if dside d (nbp h i) then r' else l) i
    end.

  Lemma del_loop1_path : forall f (h : heap) d pbp rp r rn c T g,
    unfold f h pbp c = Some T -> nth_error h r = Some rn -> n_bp rn = pbp -> 0 <= pbp -> (f <= g)%nat ->
    del_loop1 g h d rp r c = ROk (referrer h d T rp r, tsd h d T).
  Proof.
    induction f as [|f IH]; intros h d pbp rp r rn c T g H Hr Hb Hz Hg; simpl in H; [discriminate|].
    destruct g as [|g]; [lia|]. cbn [del_loop1]. unfold hget at 1. rewrite Hr. cbn [rbind].
    destruct (nth_error h c) as [cn|] eqn:E; [|discriminate]. unfold hget at 1. rewrite E. cbn [rbind]. rewrite Hb.
    rewrite Z.ltb_antisym. destruct (n_bp cn <=? pbp) eqn:LE; cbn [negb].
    - injection H as <-. reflexivity.
    - apply Z.leb_gt in LE.
      destruct (n_left cn) as [l|] eqn:EL; [|discriminate]. destruct (n_right cn) as [r'|] eqn:ER; [|discriminate].
      destruct (unfold f h (n_bp cn) l) as [tl|] eqn:El; [|discriminate].
      destruct (unfold f h (n_bp cn) r') as [tr|] eqn:Er; [|discriminate].
      injection H as <-. rewrite step_dir_side by lia. cbn [referrer tsd].
      unfold nbp. rewrite E. unfold child. destruct (dside d (n_bp cn)).
      + rewrite ER. cbn [link rbind]. apply (IH h d (n_bp cn) r c cn r' tr g); auto; lia.
      + rewrite EL. cbn [link rbind]. apply (IH h d (n_bp cn) r c cn l tl g); auto; lia.
  Qed.

  Lemma del_loop2_path : forall f (h : heap) d pbp c T g np,
    unfold f h pbp c = Some T -> 0 <= pbp -> (f <= g)%nat ->
    del_loop2 g h d (tsd h d T) np c = ROk (nparent h d (tsd h d T) T np).
  Proof.
    induction f as [|f IH]; intros h d pbp c T g np H Hz Hg; simpl in H; [discriminate|].
    destruct g as [|g]; [lia|]. cbn [del_loop2].
    destruct (nth_error h c) as [cn|] eqn:E; [|discriminate].
    destruct (n_bp cn <=? pbp) eqn:LE.
    - injection H as <-. simpl. now rewrite Nat.eqb_refl.
    - apply Z.leb_gt in LE.
      destruct (n_left cn) as [l|] eqn:EL; [|discriminate]. destruct (n_right cn) as [r'|] eqn:ER; [|discriminate].
      destruct (unfold f h (n_bp cn) l) as [tl|] eqn:El; [|discriminate].
      destruct (unfold f h (n_bp cn) r') as [tr|] eqn:Er; [|discriminate].
      injection H as <-. cbn [nparent tsd].
      assert (NB : nbp h c = n_bp cn) by (unfold nbp; now rewrite E). rewrite !NB.
      destruct (Nat.eqb c _) eqn:EQ; [reflexivity|].
      unfold hget. rewrite E. cbn [rbind]. rewrite step_dir_side by lia. unfold child.
      destruct (dside d (n_bp cn)).
      + rewrite ER. cbn [link rbind]. apply (IH h d (n_bp cn) r' tr g c); auto; lia.
      + rewrite EL. cbn [link rbind]. apply (IH h d (n_bp cn) l tl g c); auto; lia.
  Qed.

  (** in a checked state the descents of Delete / DeleteMin / DeleteMax hand exactly these four
      pointers to remove: target [n], referrer [r], its predecessor [rp], and [n]'s predecessor [np] *)
  Theorem p_delete_dir_pointers : forall (t : pstate V) r0 rn c T d check,
    pinv t r0 rn c T ->
    p_delete_dir t r0 d check =
      (let h := pheap t in
       let n := tsd h d T in
       let (rp, r) := referrer h d T r0 r0 in
       nn <- hget h n ;;
       if check nn then
         t' <- p_remove t r0 n r rp (nparent h d n T r0) ;; ROk (t', Some (n_key nn, n_val nn))
       else ROk (t, None)).
  Proof.
    intros t r0 rn c T d check I.
    destruct I as [Proot Prn Pleft Pright Pbp Punf Pgood Psorted Psize Pcont Psingle].
    unfold p_delete_dir. unfold hget at 1. rewrite Prn. cbn [rbind]. rewrite Pleft. cbn [link rbind].
    rewrite (del_loop1_path _ (pheap t) d 0 r0 r0 rn c T (fuel_of (pheap t)) Punf Prn Pbp)
      by (unfold fuel_of; lia).
    cbn [rbind]. destruct (referrer (pheap t) d T r0 r0) as [rp r]. cbv zeta.
    destruct (hget (pheap t) (tsd (pheap t) d T)) as [nn| |]; cbn [rbind]; auto.
    destruct (check nn); auto.
    rewrite (del_loop2_path _ (pheap t) d 0 c T (fuel_of (pheap t)) r0 Punf) by (unfold fuel_of; lia).
    reflexivity.
  Qed.
End Del.
