(** C06 — Patricia Delete, first part: the descent of _delete ends at the thread the search for the
    key ends at, and deleting a key that is not held changes nothing (in every checked state). *)
From Coq Require Import List NArith ZArith Bool Lia.
From Algo.C06 Require Import Spec SpecFacts Model ModelPat ProofsBinQ PatInv.
Import ListNotations.
Open Scope Z_scope.

Section Del.
  Context {V : Type}.
  Notation pnode := (pnode V).
  Notation heap := (list pnode).

  (** the first loop of _delete: [n] ends at the thread target of the search, [r] is the node the
      thread leaves from, [rp] the node before it *)
  Lemma del_loop1_unfold : forall f (h : heap) k pbp rp r rn c T g,
    unfold f h pbp c = Some T -> nth_error h r = Some rn -> n_bp rn = pbp -> 0 <= pbp -> (f <= g)%nat ->
    exists rp' r', del_loop1 g h (ByKey k) rp r c = ROk (rp', r', tsearch h k T).
  Proof.
    induction f as [|f IH]; intros h k pbp rp r rn c T g H Hr Hb Hz Hg; simpl in H; [discriminate|].
    destruct g as [|g]; [lia|]. cbn [del_loop1]. unfold hget at 1. rewrite Hr. cbn [rbind].
    destruct (nth_error h c) as [cn|] eqn:E; [|discriminate]. unfold hget at 1. rewrite E. cbn [rbind]. rewrite Hb.
    rewrite Z.ltb_antisym. destruct (n_bp cn <=? pbp) eqn:LE; cbn [negb].
    - injection H as <-. eauto.
    - apply Z.leb_gt in LE.
      destruct (n_left cn) as [l|] eqn:EL; [|discriminate]. destruct (n_right cn) as [r'|] eqn:ER; [|discriminate].
      destruct (unfold f h (n_bp cn) l) as [tl|] eqn:El; [|discriminate].
      destruct (unfold f h (n_bp cn) r') as [tr|] eqn:Er; [|discriminate].
      injection H as <-. cbn [step_dir]. rewrite kbit_pos by lia. cbn [rbind tsearch].
      unfold nbp. rewrite E. unfold child. destruct (PatInv.pbit k (n_bp cn)).
      + rewrite ER. cbn [link rbind]. apply (IH h k (n_bp cn) r c cn r' tr g); auto; lia.
      + rewrite EL. cbn [link rbind]. apply (IH h k (n_bp cn) r c cn l tl g); auto; lia.
  Qed.

  (** deleting an absent key changes nothing *)
  Theorem p_delete_absent : forall (t : pstate V) k, p_inv_check t = true ->
    sget k (p_contents t) = None -> p_delete t k = ROk (t, None).
  Proof.
    intros t k CHK NF. unfold p_delete. destruct (proot t) as [r|] eqn:R; [|reflexivity].
    destruct (inv_check_nonempty t r CHK R) as [rn [c [T I]]].
    destruct I as [Proot Prn Pleft Pright Pbp Punf Pgood Psorted Psize Pcont Psingle].
    unfold p_delete_dir. unfold hget at 1. rewrite Prn. cbn [rbind]. rewrite Pleft. cbn [link rbind].
    destruct (del_loop1_unfold _ (pheap t) k 0 r r rn c T (fuel_of (pheap t)) Punf Prn Pbp) as [rp' [r' DL]];
      [lia | unfold fuel_of; lia |].
    rewrite DL. cbn [rbind].
    pose proof (tsearch_in (pheap t) k T) as J.
    pose proof (unfold_leaves_valid _ _ _ _ _ Punf) as VL. rewrite Forall_forall in VL.
    destruct (VL _ J) as [nn Hn]. unfold hget. rewrite Hn. cbn [rbind].
    destruct (keqb (n_key nn) k) eqn:EK; [|reflexivity].
    exfalso. apply keqb_eq in EK. rewrite Pcont in NF.
    apply (sget_none_inv _ _ NF (kv_of nn)); [|exact EK].
    apply in_map. apply entries_In. eauto.
  Qed.

  (** DeleteMin / DeleteMax on the empty trie *)
  Lemma p_deletemin_empty : forall t : pstate V, proot t = None -> p_deletemin t = ROk (t, None).
  Proof. intros t R. unfold p_deletemin. now rewrite R. Qed.
  Lemma p_deletemax_empty : forall t : pstate V, proot t = None -> p_deletemax t = ROk (t, None).
  Proof. intros t R. unfold p_deletemax. now rewrite R. Qed.
End Del.
