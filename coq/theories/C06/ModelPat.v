(** C06 — executable model of /repo/trie/patricia.go with bitstring.go and bitpattern.go, as the code
    is after the fix: commits 5b9892b (Rank), 1ef686c (byte-preserving String), 218bf96 (Match on
    the empty trie), dff965d (Match compares the key with the pattern).

    Nodes live in an explicit heap (list indexed by node id; ids are never reused, removed nodes
    stay behind as garbage); links are [option nat] with [None] = nil.  Dereferencing nil is
    [RPanic], a loop that outruns its fuel is [RHang]; neither is hidden by a default.
    The unrepaired defects (WithPrefix, LongestPrefixOf, keys equal up to trailing 0x00 bytes) are
    transcribed as they are.  No proofs in this file. *)
From Coq Require Import List NArith ZArith Bool.
From Algo.C06 Require Import Spec.
Import ListNotations.
Open Scope Z_scope.

Inductive res (A : Type) :=
| ROk (a : A)
| RPanic
| RHang.
Arguments ROk {A} a.
Arguments RPanic {A}.
Arguments RHang {A}.

Definition rbind {A B} (x : res A) (f : A -> res B) : res B :=
  match x with
  | ROk a => f a
  | RPanic => RPanic
  | RHang => RHang
  end.

Notation "x <- e1 ;; e2" := (rbind e1 (fun x => e2)) (at level 61, e1 at next level, right associativity).

(** ** bitString (for keys made by newBitString: len = 8 * number of bytes) *)

Definition klen (k : key) : Z := 8 * Z.of_nat (length k).

(** Bit(pos), positions from 1; beyond the length the string is zero padded; pos <= 0 panics
    (negative shift count for pos = 0, negative index otherwise). *)
Definition kbit (k : key) (pos : Z) : res bool :=
  if pos >? klen k then ROk false
  else if pos <=? 0 then RPanic
  else let i := pos - 1 in
       ROk (N.testbit (nth (Z.to_nat (i / 8)) k 0%N) (Z.to_N (7 - i mod 8))).

(** DiffPos: leftmost differing bit of the zero padded strings, 0 when there is none. *)
Fixpoint diffpos_aux (b c : key) (i : Z) {struct b} : Z :=
  let differ (x y : byte) := (i + 1) * 8 - Z.of_N (N.size (N.lxor x y)) + 1 in
  match b with
  | x :: b' =>
      match c with
      | y :: c' => if (x =? y)%N then diffpos_aux b' c' (i + 1) else differ x y
      | [] => if (x =? 0)%N then diffpos_aux b' [] (i + 1) else differ x 0%N
      end
  | [] =>
      (fix rest (c : key) (i : Z) : Z :=
         match c with
         | [] => 0
         | y :: c' => if (0 =? y)%N then rest c' (i + 1) else (i + 1) * 8 - Z.of_N (N.size (N.lxor 0 y)) + 1
         end) c i
  end.
Definition diffpos (b c : key) : Z := diffpos_aux b c 0.

(** b.HasPrefix(c) for whole-byte strings: every byte of c equals the (zero padded) byte of b. *)
Fixpoint has_prefix_padded (b c : key) : bool :=
  match c with
  | [] => true
  | y :: c' =>
      match b with
      | x :: b' => (x =? y)%N && has_prefix_padded b' c'
      | [] => (0 =? y)%N && has_prefix_padded [] c'
      end
  end.

(** bitPattern.Bit: '0' / '1' / '*' *)
Inductive pbit := P0 | P1 | PStar.
Definition patbit (p : key) (pos : Z) : res pbit :=
  if pos >? klen p then ROk P0
  else if pos <=? 0 then RPanic
  else let i := pos - 1 in
       let b := nth (Z.to_nat (i / 8)) p 0%N in
       if (b =? star)%N then ROk PStar
       else ROk (if N.testbit b (Z.to_N (7 - i mod 8)) then P1 else P0).

(** bitPattern.Matches *)
Fixpoint pat_matches (p k : key) : bool :=
  match p, k with
  | [], [] => true
  | x :: p', y :: k' => (if (x =? star)%N then true else (x =? y)%N) && pat_matches p' k'
  | _, _ => false
  end.

Section Patricia.
  Context {V : Type}.

  Record pnode := { n_bp : Z; n_key : key; n_val : V; n_left : option nat; n_right : option nat }.
  Record pstate := { psize : Z; proot : option nat; pheap : list pnode }.

  Definition p_new : pstate := {| psize := 0; proot := None; pheap := [] |}.

  Definition heap := list pnode.
  Definition hget (h : heap) (i : nat) : res pnode :=
    match nth_error h i with Some n => ROk n | None => RPanic end.
  Definition link (l : option nat) : res nat :=
    match l with Some i => ROk i | None => RPanic end.
  Fixpoint hset (h : heap) (i : nat) (n : pnode) : heap :=
    match h, i with
    | [], _ => []
    | _ :: h', O => n :: h'
    | x :: h', S i' => x :: hset h' i' n
    end.
  Definition set_left (h : heap) (i : nat) (l : option nat) : res heap :=
    n <- hget h i ;; ROk (hset h i {| n_bp := n_bp n; n_key := n_key n; n_val := n_val n; n_left := l; n_right := n_right n |}).
  Definition set_right (h : heap) (i : nat) (r : option nat) : res heap :=
    n <- hget h i ;; ROk (hset h i {| n_bp := n_bp n; n_key := n_key n; n_val := n_val n; n_left := n_left n; n_right := r |}).
  Definition oeq (a b : option nat) : bool :=
    match a, b with
    | Some x, Some y => Nat.eqb x y
    | None, None => true
    | _, _ => false
    end.
  Definition fuel_of (h : heap) : nat := S (S (length h)).

  (** child chosen by a key bit *)
  Definition child (n : pnode) (b : bool) : res nat := link (if b then n_right n else n_left n).

  (** search: the loop [for prev := root; curr.bp > prev.bp; ...] *)
  Fixpoint search_loop (f : nat) (h : heap) (k : key) (prev curr : nat) : res nat :=
    match f with
    | O => RHang
    | S f' =>
        pn <- hget h prev ;; cn <- hget h curr ;;
        if n_bp cn >? n_bp pn then
          b <- kbit k (n_bp cn) ;; nxt <- child cn b ;; search_loop f' h k curr nxt
        else ROk curr
    end.

  Definition p_search (t : pstate) (k : key) : res (option nat) :=
    match proot t with
    | None => ROk None
    | Some r =>
        rn <- hget (pheap t) r ;; c <- link (n_left rn) ;;
        x <- search_loop (fuel_of (pheap t)) (pheap t) k r c ;; ROk (Some x)
    end.

  (** _put: the second descent [for next.bp > prev.bp && next.bp < diffPos] *)
  Fixpoint put_loop (f : nat) (h : heap) (k : key) (dp : Z) (prev next : nat) : res (nat * nat) :=
    match f with
    | O => RHang
    | S f' =>
        pn <- hget h prev ;; nn <- hget h next ;;
        if (n_bp nn >? n_bp pn) && (n_bp nn <? dp) then
          b <- kbit k (n_bp nn) ;; nxt <- child nn b ;; put_loop f' h k dp next nxt
        else ROk (prev, next)
    end.

  Definition p_put (t : pstate) (k : key) (v : V) : res pstate :=
    let h := pheap t in
    match proot t with
    | None =>
        let id := length h in
        ROk {| psize := 1; proot := Some id;
               pheap := h ++ [{| n_bp := 0; n_key := k; n_val := v; n_left := Some id; n_right := None |}] |}
    | Some r =>
        olast <- p_search t k ;; last <- link olast ;; ln <- hget h last ;;
        if keqb (n_key ln) k then
          ROk {| psize := psize t; proot := proot t;
                 pheap := hset h last {| n_bp := n_bp ln; n_key := n_key ln; n_val := v;
                                         n_left := n_left ln; n_right := n_right ln |} |}
        else
          let dp := diffpos (n_key ln) k in
          rn <- hget h r ;; c <- link (n_left rn) ;;
          pnx <- put_loop (fuel_of h) h k dp r c ;;
          let (prev, next) := pnx in
          b <- kbit k dp ;;
          let id := length h in
          let nw := if b then {| n_bp := dp; n_key := k; n_val := v; n_left := Some next; n_right := Some id |}
                    else {| n_bp := dp; n_key := k; n_val := v; n_left := Some id; n_right := Some next |} in
          let h1 := h ++ [nw] in
          pn <- hget h1 prev ;;
          h2 <- (if oeq (n_left pn) (Some next) then set_left h1 prev (Some id) else set_right h1 prev (Some id)) ;;
          ROk {| psize := psize t + 1; proot := proot t; pheap := h2 |}
    end.

  Definition p_get (t : pstate) (k : key) : res (option V) :=
    on <- p_search t k ;;
    match on with
    | None => ROk None
    | Some n => nn <- hget (pheap t) n ;; ROk (if keqb (n_key nn) k then Some (n_val nn) else None)
    end.

  (** remove(n, r, rp, np), statement by statement on the heap *)
  Definition p_remove (t : pstate) (root : nat) (n r rp np : nat) : res pstate :=
    let h := pheap t in
    nn <- hget h n ;; rn <- hget h r ;;
    let key := n_key nn in
    sel <- (if Nat.eqb r root then ROk true else kbit key (n_bp rn)) ;;
    let c := if sel then n_left rn else n_right rn in
    (* [x != t.root && n.key.Bit(x.bp)] *)
    let side (h : heap) (x : nat) : res bool :=
      if Nat.eqb x root then ROk false else xn <- hget h x ;; kbit key (n_bp xn) in
    hr <- (if Nat.eqb n r then
             s <- side h np ;;
             h1 <- (if s then set_right h np c else set_left h np c) ;;
             ROk (h1, Some root)
           else
             s1 <- side h rp ;;
             h1 <- (if s1 then set_right h rp c else set_left h rp c) ;;
             s2 <- side h1 np ;;
             h2 <- (if s2 then set_right h1 np (Some r) else set_left h1 np (Some r)) ;;
             let root' := if Nat.eqb n root then np else root in
             nn2 <- hget h2 n ;; rn2 <- hget h2 r ;;
             let h3 := hset h2 r {| n_bp := n_bp nn2; n_key := n_key rn2; n_val := n_val rn2;
                                    n_left := n_left nn2; n_right := n_right nn2 |} in
             ROk (h3, Some root')) ;;
    let (h', root') := hr in
    let size' := psize t - 1 in
    ROk {| psize := size'; proot := if size' =? 0 then None else root'; pheap := h' |}.

  (** the first loop of _delete / DeleteMin / DeleteMax: [for rp, r, n = root, root, root.left; r.bp < n.bp;]
      [dir] chooses the child: by key bit, always left, always right *)
  Inductive dir := ByKey (k : key) | GoLeft | GoRight.
  Definition step_dir (d : dir) (x : pnode) : res nat :=
    match d with
    | ByKey k => b <- kbit k (n_bp x) ;; child x b
    | GoLeft => link (n_left x)
    | GoRight => link (n_right x)
    end.

  Fixpoint del_loop1 (f : nat) (h : heap) (d : dir) (rp r n : nat) : res (nat * nat * nat) :=
    match f with
    | O => RHang
    | S f' =>
        rn <- hget h r ;; nn <- hget h n ;;
        if n_bp rn <? n_bp nn then
          nxt <- step_dir d nn ;; del_loop1 f' h d r n nxt
        else ROk (rp, r, n)
    end.

  (** the second loop: [for np, m = root, root.left; m != n;] *)
  Fixpoint del_loop2 (f : nat) (h : heap) (d : dir) (n np m : nat) : res nat :=
    match f with
    | O => RHang
    | S f' =>
        if Nat.eqb m n then ROk np
        else mn <- hget h m ;; nxt <- step_dir d mn ;; del_loop2 f' h d n m nxt
    end.

  Definition p_delete_dir (t : pstate) (root : nat) (d : dir) (check : pnode -> bool) : res (pstate * option (key * V)) :=
    let h := pheap t in
    rootn <- hget h root ;; first <- link (n_left rootn) ;;
    x <- del_loop1 (fuel_of h) h d root root first ;;
    let '(rp, r, n) := x in
    nn <- hget h n ;;
    if check nn then
      np <- del_loop2 (fuel_of h) h d n root first ;;
      t' <- p_remove t root n r rp np ;;
      ROk (t', Some (n_key nn, n_val nn))
    else ROk (t, None).

  Definition p_delete (t : pstate) (k : key) : res (pstate * option V) :=
    match proot t with
    | None => ROk (t, None)
    | Some root =>
        x <- p_delete_dir t root (ByKey k) (fun nn => keqb (n_key nn) k) ;;
        ROk (fst x, match snd x with Some (_, v) => Some v | None => None end)
    end.

  Definition p_deletemin (t : pstate) : res (pstate * option (key * V)) :=
    match proot t with
    | None => ROk (t, None)
    | Some root => p_delete_dir t root GoLeft (fun _ => true)
    end.

  Definition p_deletemax (t : pstate) : res (pstate * option (key * V)) :=
    match proot t with
    | None => ROk (t, None)
    | Some root => p_delete_dir t root GoRight (fun _ => true)
    end.

  (** _min / _max *)
  Fixpoint min_loop (f : nat) (h : heap) (n : nat) : res (key * V) :=
    match f with
    | O => RHang
    | S f' =>
        nn <- hget h n ;; l <- link (n_left nn) ;; ln <- hget h l ;;
        if n_bp ln <=? n_bp nn then ROk (n_key ln, n_val ln) else min_loop f' h l
    end.

  Definition p_min (t : pstate) : res (option (key * V)) :=
    match proot t with
    | None => ROk None
    | Some r => x <- min_loop (fuel_of (pheap t)) (pheap t) r ;; ROk (Some x)
    end.

  Fixpoint max_loop (f : nat) (h : heap) (root n : nat) : res (key * V) :=
    match f with
    | O => RHang
    | S f' =>
        nn <- hget h n ;;
        nx <- link (if Nat.eqb n root then n_left nn else n_right nn) ;; xn <- hget h nx ;;
        if n_bp xn <=? n_bp nn then ROk (n_key xn, n_val xn) else max_loop f' h root nx
    end.

  Definition p_max (t : pstate) : res (option (key * V)) :=
    match proot t with
    | None => ROk None
    | Some r => x <- max_loop (fuel_of (pheap t)) (pheap t) r r ;; ROk (Some x)
    end.

  (** _traverse for Ascending / Descending; the visitor threads a state and says whether to go on *)
  Inductive porder := PAsc | PDesc.

  Section Traverse.
    Context {S : Type}.
    Variable visit : S -> pnode -> S * bool.
    Variable h : heap.
    Variable root : option nat.

    Fixpoint p_traverse (f : nat) (o : porder) (on : option nat) (s : S) : res (S * bool) :=
      match f with
      | O => RHang
      | Datatypes.S f' =>
          match on with
          | None => ROk (s, true)
          | Some n =>
              nn <- hget h n ;;
              l <- link (n_left nn) ;; ln <- hget h l ;;
              let is_left_thread := n_bp ln <=? n_bp nn in
              (* isRightThread := n != t.root && n.right.bp <= n.bp *)
              rt <- (if oeq (Some n) root then ROk (false, None)
                     else r <- link (n_right nn) ;; rn <- hget h r ;; ROk (n_bp rn <=? n_bp nn, Some rn)) ;;
              let (is_right_thread, orn) := rt in
              let do_left (s : S) : res (S * bool) :=
                if is_left_thread then ROk (visit s ln) else p_traverse f' o (n_left nn) s in
              let do_right (s : S) : res (S * bool) :=
                if is_right_thread then
                  match orn with Some rn => ROk (visit s rn) | None => RPanic end
                else p_traverse f' o (n_right nn) s in
              match o with
              | PAsc =>
                  x <- do_left s ;;
                  if snd x then do_right (fst x) else ROk (fst x, false)
              | PDesc =>
                  x <- do_right s ;;
                  if snd x then do_left (fst x) else ROk (fst x, false)
              end
          end
      end.
  End Traverse.

  Definition trav {S} (t : pstate) (visit : S -> pnode -> S * bool) (o : porder) (start : option nat) (s : S) : res S :=
    x <- p_traverse visit (pheap t) (proot t) (fuel_of (pheap t)) o start s ;; ROk (fst x).

  (** t.root.left *)
  Definition root_left (t : pstate) : res (option nat) :=
    match proot t with
    | None => ROk None
    | Some r => rn <- hget (pheap t) r ;; ROk (n_left rn)
    end.

  Definition kvp := (key * V)%type.
  Definition kv_of (n : pnode) : kvp := (n_key n, n_val n).

  Definition p_floor (t : pstate) (k : key) : res (option kvp) :=
    trav t (fun s n => if kltb k (n_key n) then (s, false) else (Some (kv_of n), true)) PAsc (proot t) None.

  Definition p_ceiling (t : pstate) (k : key) : res (option kvp) :=
    trav t (fun s n => if kltb (n_key n) k then (s, false) else (Some (kv_of n), true)) PDesc (proot t) None.

  Definition p_select (t : pstate) (rank : Z) : res (option kvp) :=
    match proot t with
    | None => ROk None
    | Some _ =>
        if (rank <? 0) || (psize t <=? rank) then ROk None
        else
          start <- root_left t ;;
          x <- trav t (fun (s : Z * option kvp) n =>
                         if fst s =? rank then ((fst s, Some (kv_of n)), false) else ((fst s + 1, snd s), true))
                    PAsc start (0, None) ;;
          ROk (snd x)
    end.

  Definition p_rank (t : pstate) (k : key) : res Z :=
    match proot t with
    | None => ROk 0
    | Some _ =>
        start <- root_left t ;;
        trav t (fun (i : Z) n => if kleb k (n_key n) then (i, false) else (i + 1, true)) PAsc start 0
    end.

  Definition p_range (t : pstate) (lo hi : key) : res (list kvp) :=
    match proot t with
    | None => ROk []
    | Some _ =>
        start <- root_left t ;;
        trav t (fun (kvs : list kvp) n =>
                  if kleb lo (n_key n) && kleb (n_key n) hi then (kvs ++ [kv_of n], true)
                  else if kltb hi (n_key n) then (kvs, false) else (kvs, true)) PAsc start []
    end.

  Definition p_rangesize (t : pstate) (lo hi : key) : res Z :=
    match proot t with
    | None => ROk 0
    | Some _ =>
        start <- root_left t ;;
        trav t (fun (i : Z) n =>
                  if kleb lo (n_key n) && kleb (n_key n) hi then (i + 1, true)
                  else if kltb hi (n_key n) then (i, false) else (i, true)) PAsc start 0
    end.

  Definition p_all (t : pstate) : res (list kvp) :=
    trav t (fun (kvs : list kvp) n => (kvs ++ [kv_of n], true)) PAsc (proot t) [].

  (** _match *)
  Fixpoint match_loop (f : nat) (h : heap) (pat : key) (prev curr : nat) (acc : list kvp) : res (list kvp) :=
    match f with
    | O => RHang
    | S f' =>
        pn <- hget h prev ;; cn <- hget h curr ;;
        if n_bp cn <=? n_bp pn then
          ROk (if pat_matches pat (n_key cn) then acc ++ [kv_of cn] else acc)
        else
          pb <- patbit pat (n_bp cn) ;;
          match pb with
          | P0 => l <- link (n_left cn) ;; match_loop f' h pat curr l acc
          | P1 => r <- link (n_right cn) ;; match_loop f' h pat curr r acc
          | PStar =>
              l <- link (n_left cn) ;; acc1 <- match_loop f' h pat curr l acc ;;
              r <- link (n_right cn) ;; match_loop f' h pat curr r acc1
          end
    end.

  Definition p_match (t : pstate) (pat : key) : res (list kvp) :=
    match proot t with
    | None => ROk []
    | Some r =>
        rn <- hget (pheap t) r ;; c <- link (n_left rn) ;;
        match_loop (fuel_of (pheap t)) (pheap t) pat r c []
    end.

  (** WithPrefix and LongestPrefixOf exactly as written (both are recorded defects) *)
  Definition p_withprefix (t : pstate) (k : key) : res (list kvp) :=
    on <- p_search t k ;;
    match on with
    | None => ROk [] (* _traverse(nil) *)
    | Some n =>
        nn <- hget (pheap t) n ;;
        if keqb (n_key nn) k then ROk [kv_of nn]
        else trav t (fun (kvs : list kvp) x => (kvs ++ [kv_of x], true)) PAsc (Some n) []
    end.

  Definition p_longestprefixof (t : pstate) (k : key) : res (option kvp) :=
    on <- p_search t k ;;
    match on with
    | None => ROk None
    | Some n =>
        nn <- hget (pheap t) n ;;
        ROk (if has_prefix_padded k (n_key nn) then Some (kv_of nn) else None)
    end.

  (** verify(): root.right == nil, _isPatricia, _isSizeOK, _isRankOK.  Prefixes are bit lists. *)
  Definition bits_of (k : key) (n : Z) : list bool :=
    map (fun i => match kbit k (Z.of_nat i + 1) with ROk b => b | _ => false end) (seq 0 (Z.to_nat n)).
  (** key.Sub(1, e): empty unless 1 <= e <= len *)
  Definition sub1 (k : key) (e : Z) : list bool :=
    if (e <? 1) || (e >? klen k) then [] else bits_of k e.
  (** key.HasPrefix(prefix) with the key zero padded *)
  Definition has_bits (k : key) (p : list bool) : bool :=
    forallb (fun ib : nat * bool => match kbit k (Z.of_nat (fst ib) + 1) with ROk b => Bool.eqb b (snd ib) | _ => false end)
            (combine (seq 0 (length p)) p).

  Fixpoint is_patricia (f : nat) (h : heap) (prev curr : nat) (prefix : list bool) : res bool :=
    match f with
    | O => RHang
    | S f' =>
        pn <- hget h prev ;; cn <- hget h curr ;;
        if negb (has_bits (n_key cn) prefix) then ROk false
        else if n_bp cn <=? n_bp pn then ROk true
        else
          let prefix' := sub1 (n_key cn) (n_bp cn - 1) in
          l <- link (n_left cn) ;;
          a <- is_patricia f' h curr l (prefix' ++ [false]) ;;
          if a then r <- link (n_right cn) ;; is_patricia f' h curr r (prefix' ++ [true]) else ROk false
    end.

  Definition p_size_ok (t : pstate) : res bool :=
    match proot t with
    | None => ROk (psize t =? 0)
    | Some _ =>
        start <- root_left t ;;
        n <- trav t (fun (i : Z) _ => (i + 1, true)) PAsc start 0 ;; ROk (psize t =? n)
    end.

  Definition p_rank_ok (t : pstate) : res bool :=
    let idx := seq 0 (Z.to_nat (psize t)) in
    a <- fold_left (fun (acc : res bool) i =>
           b <- acc ;; s <- p_select t (Z.of_nat i) ;;
           let k := match s with Some (k, _) => k | None => [] end in
           r <- p_rank t k ;; ROk (b && (r =? Z.of_nat i))) idx (ROk true) ;;
    all <- p_all t ;;
    b <- fold_left (fun (acc : res bool) (e : kvp) =>
           b <- acc ;; r <- p_rank t (fst e) ;; s <- p_select t r ;;
           let k := match s with Some (k, _) => k | None => [] end in
           ROk (b && keqb k (fst e))) all (ROk true) ;;
    ROk (a && b).

  Definition p_verify (t : pstate) : res bool :=
    match proot t with
    | None => ROk true
    | Some r =>
        rn <- hget (pheap t) r ;;
        match n_right rn with
        | Some _ => ROk false
        | None =>
            l <- link (n_left rn) ;;
            a <- is_patricia (fuel_of (pheap t)) (pheap t) r l [] ;;
            b <- p_size_ok t ;; c <- p_rank_ok t ;; ROk (a && b && c)
        end
    end.

  (** The public methods as one step function. *)
  Definition lift {A} (t : pstate) (x : res A) (f : A -> out V) : pstate * out V :=
    match x with
    | ROk a => (t, f a)
    | RPanic => (t, OPanic)
    | RHang => (t, OHang)
    end.

  Definition lift_mut {A} (t : pstate) (x : res (pstate * A)) (f : A -> out V) : pstate * out V :=
    match x with
    | ROk (t', a) => (t', f a)
    | RPanic => (t, OPanic)
    | RHang => (t, OHang)
    end.

  Definition p_step (t : pstate) (e : ev V) : pstate * out V :=
    match e with
    | EPut k v => lift_mut t (t' <- p_put t k v ;; ROk (t', tt)) (fun _ => OUnit)
    | EDelete k => lift_mut t (p_delete t k) (fun o => OVal o)
    | EDeleteMin => lift_mut t (p_deletemin t) (fun o => OKV o)
    | EDeleteMax => lift_mut t (p_deletemax t) (fun o => OKV o)
    | EDeleteAll => (p_new, OUnit)
    | EGet k => lift t (p_get t k) (fun o => OVal o)
    | ESize => (t, ONum (psize t))
    | EMin => lift t (p_min t) (fun o => OKV o)
    | EMax => lift t (p_max t) (fun o => OKV o)
    | EFloor k => lift t (p_floor t k) (fun o => OKV o)
    | ECeiling k => lift t (p_ceiling t k) (fun o => OKV o)
    | ESelect i => lift t (p_select t i) (fun o => OKV o)
    | ERank k => lift t (p_rank t k) (fun n => ONum n)
    | ERange lo hi => lift t (p_range t lo hi) (fun l => OList l)
    | ERangeSize lo hi => lift t (p_rangesize t lo hi) (fun n => ONum n)
    | EAll => lift t (p_all t) (fun l => OList l)
    | EMatch pat => lift t (p_match t pat) (fun l => OList l)
    | EWithPrefix p => lift t (p_withprefix t p) (fun l => OList l)
    | ELongestPrefixOf s => lift t (p_longestprefixof t s) (fun o => OKV o)
    end.

  Fixpoint p_run (t : pstate) (es : list (ev V)) : list (out V) :=
    match es with
    | [] => []
    | e :: es' => let (t', o) := p_step t e in o :: p_run t' es'
    end.
End Patricia.

Arguments pnode : clear implicits.
Arguments pstate : clear implicits.
