(** C07 — the two defects that were repaired in /repo, replayed on models of the code as it was
    BEFORE the fix: commits.  These definitions differ from Model.v exactly where the Go code
    differed; they are used only for the [_refuted_before_fix] witnesses of Properties/C07.v.

    D07a  radixsort.LSDString: [count[s[d]+1]++] with [s[d]] of type byte: the sum wraps to 0 for
          0xff, so that the cumulative count of bucket 0xff is [n] and [aux[count[0xff]]] is out of range.
    D07b  radixsort.msdUint: the recursion blocks of the signed variant were kept:
          [if d == 0 && count[R/2] > 0 { msdUint(a, aux, lo, lo+count[R/2]-1, d+1) }] re-sorts the
          buckets 0..128 together by the next byte, and bucket 0 is skipped at depth 0. *)
From Algo.C07 Require Import Model.
Open Scope Z_scope.

(** ** D07a *)
Fixpoint count_freq_wrap (d : Z) (l : list str) (count : list Z) : res (list Z) :=
  match l with
  | [] => Ok count
  | s :: l' =>
      c <- get s d ;;
      let idx := (c + 1) mod 256 in            (* byte arithmetic: s[d]+1 wraps *)
      x <- get count idx ;;
      count' <- set count idx (x + 1) ;;
      count_freq_wrap d l' count'
  end.

Definition lsd_pass_old (d : Z) (a aux : list str) : res (list str * list str) :=
  count1 <- count_freq_wrap d a (repeat 0 (Z.to_nat (R + 1))) ;;
  count2 <- cumulate (Z.to_nat R) count1 0 ;;
  '(_, aux') <- distribute (fun s => get s d) 0 a count2 aux ;;
  a' <- copy_range (length a) a aux' 0 ;;
  Ok (a', aux').

Fixpoint lsd_str_passes_old (cnt : nat) (a aux : list str) (d : Z) : res (list str * list str) :=
  match cnt with
  | O => Ok (a, aux)
  | S c => '(a', aux') <- lsd_pass_old d a aux ;; lsd_str_passes_old c a' aux' (d - 1)
  end.

Definition LSDString_old (a : list str) (w : Z) : res (list str) :=
  '(a', _) <- lsd_str_passes_old (Z.to_nat w) a (repeat [] (length a)) (w - 1) ;; Ok a'.

(** ** D07b *)
Fixpoint msd_uint_old (fuel : nat) (a aux : list Z) (lo hi d : Z) : res (list Z * list Z) :=
  match fuel with
  | O => Hang
  | S f =>
      if hi <=? lo + CUTOFF then a' <- insertion_range Z.ltb a lo hi ;; Ok (a', aux)
      else
        let cnt := Z.to_nat (hi + 1 - lo) in
        let shift := INT_SIZE - BYTE_SIZE - BYTE_SIZE * d in
        count1 <- count_freq_idx (int_digit shift) 0 cnt a lo (repeat 0 (Z.to_nat (R + 1))) ;;
        count2 <- cumulate (Z.to_nat R) count1 0 ;;
        '(count4, aux1) <- distribute_idx (int_digit shift) 0 cnt a lo count2 aux ;;
        a1 <- copy_back cnt a aux1 lo lo ;;
        if d =? W - 1 then Ok (a1, aux1)
        else
          st1 <- (if d =? 0 then
                    c <- get count4 (Z.quot R 2) ;;
                    if 0 <? c then msd_uint_old f a1 aux1 lo (lo + c - 1) (d + 1) else Ok (a1, aux1)
                  else Ok (a1, aux1)) ;;
          st2 <- (if negb (d =? 0) then
                    c <- get count4 0 ;;
                    if 0 <? c then msd_uint_old f (fst st1) (snd st1) lo (lo + c - 1) (d + 1) else Ok st1
                  else Ok st1) ;;
          for_range (Z.to_nat R)
            (fun r '(a, aux) =>
               c0 <- get count4 r ;; c1 <- get count4 (r + 1) ;;
               if c0 <? c1 then msd_uint_old f a aux (lo + c0) (lo + c1 - 1) (d + 1) else Ok (a, aux))
            0 st2
  end.

Definition MSDUint_old (a : list Z) : res (list Z) :=
  '(a', _) <- msd_uint_old (S (Z.to_nat W)) a (repeat 0 (length a)) 0 (len a - 1) 0 ;; Ok a'.

(** 17 values (one more than the insertion cutoff admits) whose top bytes are 0..16 and whose
    second bytes are in the opposite order. *)
Definition d07b_witness : list Z :=
  map (fun i => Z.of_nat i * 2 ^ 56 + (16 - Z.of_nat i) * 2 ^ 48) (seq 0 17).
